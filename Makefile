# setup: build the whole Coq development from files on disk (offline), full .vo build.
PY=/venv/bin/python
.PHONY: setup clean gate
setup:
	rm -rf build
	mkdir -p build evidence
	$(PY) -m harness.setup
clean:
	rm -rf build
