(* C01 bridge: the functions regenerated from _split.py (Gen.v) equal the hand model (Model.v) for
   every valid configuration.  These lemmas are the proof obligations that tie the theorems of
   Props.v to what the code says now. *)
From Coq Require Import ZArith List Bool Lia ZifyBool.
Require Import SkV.Lib.Base SkV.Lib.ZRange SkV.Lib.Slice SkV.C01.Model SkV.C01.Gen.
Import ListNotations.
Open Scope Z_scope.

Definition valid_fh (fh : list Z) : Prop := fh <> [] /\ sorted_lt fh /\ 1 <= zfirst fh.
Definition valid (c : cfg) : Prop :=
  valid_fh (fh c) /\ 1 <= wl c /\ 1 <= step c /\ (forall i, iw c = Some i -> 1 <= i).

Lemma valid_fh_pos fh h : valid_fh fh -> In h fh -> 1 <= h.
Proof. intros (Hne & Hs & H1) Hin. pose proof (sorted_lt_first_min fh h Hs Hin). lia. Qed.

Lemma valid_fh_le_last fh h : valid_fh fh -> In h fh -> h <= zlast fh.
Proof. intros (Hne & Hs & H1) Hin. apply sorted_lt_last_max; assumption. Qed.

Lemma valid_fh_last_pos fh : valid_fh fh -> 1 <= zlast fh.
Proof. intro H. apply (valid_fh_pos fh); [exact H|]. apply zlast_in. apply H. Qed.

Lemma valid_fh_not_in_sample fh : valid_fh fh -> forallb (fun h => h <=? 0) fh = false.
Proof.
  intros H. destruct fh as [|a t]; [destruct H as (Hne & _); congruence|].
  cbn [forallb]. pose proof (valid_fh_pos (a :: t) a H (or_introl eq_refl)).
  destruct (a <=? 0) eqn:E; [lia|reflexivity].
Qed.

Lemma valid_fh_out_of_sample fh : valid_fh fh -> forallb (fun h => 0 <? h) fh = true.
Proof.
  intro H. apply forallb_forall. intros h Hin. pose proof (valid_fh_pos fh h H Hin). lia.
Qed.

Lemma valid_fh_max fh : valid_fh fh -> zmax_list fh = zlast fh.
Proof.
  intro H. assert (Hne : fh <> []) by apply H.
  pose proof (zmax_list_in fh Hne) as Hin. pose proof (zlast_in fh Hne) as Hl.
  pose proof (valid_fh_le_last fh _ H Hin). pose proof (zmax_list_ge fh _ Hl). lia.
Qed.

Lemma filter_ge0_id (l : list Z) : (forall x, In x l -> 0 <= x) -> filter (fun v => v >=? 0) l = l.
Proof.
  induction l as [|a t IH]; intro H; [reflexivity|]. cbn [filter].
  pose proof (H a (or_introl eq_refl)). destruct (a >=? 0) eqn:E; [|lia].
  f_equal. apply IH. intros x Hx. apply H. right. exact Hx.
Qed.

Lemma test_filter_eq fh p : valid_fh fh -> 0 <= p ->
  filter (fun v => v >=? 0) (map (fun v => v - 1) (map (fun v => p + v) fh)) =
  map (fun h => p - 1 + h) fh.
Proof.
  intros H Hp. rewrite map_map. rewrite filter_ge0_id.
  - apply map_ext. intro; lia.
  - intros x Hx. apply in_map_iff in Hx. destruct Hx as [h [<- Hh]].
    pose proof (valid_fh_pos fh h H Hh). lia.
Qed.

(* ---- semantic normalisation of window expressions ---------------------------------------------
   The regenerated code may compute a test window as `split_point + fh - 1`, `split_point +
   (fh - 1)`, `fh + cutoff`, ... and a training window as `arange(a, b) + 1` or `arange(a + 1,
   b + 1)`: every such shape is an affine image of fh / of a unit-step range.  The bridge proofs
   below only use that, so that they survive re-association, hoisting and inlining. *)
Lemma test_norm fh (F G : Z -> Z) : valid_fh fh ->
  (forall h, In h fh -> F h = G h /\ 0 <= F h) ->
  filter (fun v => v >=? 0) (map F fh) = map G fh.
Proof.
  intros H HF. rewrite filter_ge0_id.
  - apply map_ext_in. intros h Hh. apply HF, Hh.
  - intros x Hx. apply in_map_iff in Hx. destruct Hx as [h [<- Hh]]. apply HF, Hh.
Qed.

Lemma map_affine_zrange1 (a b : Z) s e :
  map (fun v => v + b) (zrange s e 1) = zrange (s + b) (e + b) 1.
Proof. apply zrange_shift. Qed.

(* goal: filter (>=? 0) (<affine image of fh>) = map G fh *)
Ltac solve_test Hfh :=
  rewrite ?map_map; apply test_norm; [exact Hfh|];
  let h := fresh "h" in let Hh := fresh "Hh" in
  intros h Hh; pose proof (valid_fh_pos _ h Hfh Hh); pose proof (valid_fh_le_last _ h Hfh Hh);
  cbv beta; split; lia.
(* goal: filter (>=? 0) (<unit-step range, possibly shifted>) = zrange A B 1 *)
Ltac solve_train :=
  rewrite ?zrange_shift; rewrite zrange_filter_ge; f_equal; lia.
(* all `let`s, and the case analysis on optional arguments the code happens to do *)
Ltac open_lets := cbv beta iota zeta.
(* case analysis on every test the regenerated code makes (whatever comparison it is written with) *)
Ltac split_tests :=
  repeat match goal with
         | |- context [if ?b then _ else _] =>
             lazymatch b with
             | context [if _ then _ else _] => fail
             | _ => let E := fresh "E" in destruct b eqn:E
             end
         end.

Lemma sliding_windows_eq start e st w fh : valid_fh fh -> 0 <= start -> 0 < st ->
  map (fun '(train, test) => (filter (fun v_ => v_ >=? 0) train, filter (fun v_ => v_ >=? 0) test))
      (gen_sliding_windows start e st w fh) =
  map (fun cut => (zrange (Z.max (cut + 1 - w) 0) (cut + 1) 1, map (fun h => cut + h) fh))
      (zrange (start - 1) (e - 1) st).
Proof.
  intros H Hs Hst. unfold gen_sliding_windows. open_lets. rewrite app_nil_r, map_map.
  rewrite <- (zrange_map_affine 1 st Hst), map_map.
  apply map_ext_in. intros p Hin. apply zrange_spec in Hin; [|exact Hst].
  destruct Hin as [k [Hk [Hp _]]]. assert (0 <= p) by nia. open_lets. f_equal.
  - solve_train.
  - solve_test H.
Qed.

Lemma expanding_windows_eq start e st w fh : valid_fh fh -> 0 <= start -> start - w <= 0 -> 0 < st ->
  map (fun '(train, test) => (filter (fun v_ => v_ >=? 0) train, filter (fun v_ => v_ >=? 0) test))
      (gen_expanding_windows start e st w fh) =
  map (fun cut => (zrange 0 (cut + 1) 1, map (fun h => cut + h) fh))
      (zrange (start - 1) (e - 1) st).
Proof.
  intros H Hs Hw Hst. unfold gen_expanding_windows. open_lets. rewrite app_nil_r, map_map.
  rewrite <- (zrange_map_affine 1 st Hst), map_map.
  apply map_ext_in. intros p Hin. apply zrange_spec in Hin; [|exact Hst].
  destruct Hin as [k [Hk [Hp _]]]. assert (0 <= p) by nia. open_lets. f_equal.
  - solve_train.
  - solve_test H.
Qed.

Lemma start_point_nonneg c : valid c -> 0 <= start_point c.
Proof.
  intros (Hfh & Hwl & Hst & Hiw). unfold start_point.
  destruct (sww c); [|lia]. destruct (iw c) as [i|] eqn:E; [specialize (Hiw i eq_refl)|]; lia.
Qed.

(* The roots below are regenerated with every private helper inlined (`_get_end`,
   `_check_window_lengths`, `_get_start`, ...), so the proofs do not mention helpers: they replace
   the in-sample / out-of-sample tests by their value on a valid horizon, open all `let`s, split on
   every remaining test and compare what is left semantically. *)
Ltac fh_facts Hfh :=
  rewrite ?(valid_fh_out_of_sample _ Hfh), ?(valid_fh_not_in_sample _ Hfh); cbn [negb]; open_lets.
(* `map F (zrange a b st) = map F (zrange a' b' st)` with a = a', b = b' by arithmetic *)
Ltac same_ranges := first [reflexivity | f_equal; first [reflexivity | f_equal; lia]].
Ltac absurd_or_refl := try reflexivity; try (exfalso; lia); try discriminate.
(* `map (fun '(a, b) => (a, b)) l = l` and list plumbing of generators *)
Lemma map_pair_id {A B} (l : list (A * B)) : map (fun '(a, b) => (a, b)) l = l.
Proof. rewrite (map_ext _ (fun x => x)) by (intros [? ?]; reflexivity). apply map_id. Qed.
Ltac plumb := unfold rcons, rapp; rewrite ?app_nil_r, ?map_pair_id; cbn [map app]; open_lets.

(* what the first (initial-window) split and the regular splits of the window splitters are *)
Lemma windows_tail_eq (G : Z -> Z -> Z -> Z -> list Z -> list (list Z * list Z)) k c s e :
  s = start_point c -> e = end_point c ->
  map (fun '(train, test) => (filter (fun v_ => v_ >=? 0) train, filter (fun v_ => v_ >=? 0) test))
      (G s e (step c) (wl c) (fh c)) =
  map (fun cut => (train_at k c cut, test_at c cut)) (zrange (s - 1) (e - 1) (step c)) ->
  map (fun '(train, test) => (filter (fun v_ => v_ >=? 0) train, filter (fun v_ => v_ >=? 0) test))
      (G s e (step c) (wl c) (fh c)) =
  map (fun cut => (train_at k c cut, test_at c cut)) (regular_cutoffs c).
Proof. intros -> -> H. exact H. Qed.

Theorem bridge_sliding c : valid c ->
  gen_split_filter
    (gen_window_split gen_sliding_windows (wl c) (step c) (iw c) (sww c) (fh c)) (n c)
  = window_split Sliding c.
Proof.
  intros Hv. pose proof Hv as (Hfh & Hwl & Hst & Hiw).
  pose proof (start_point_nonneg c Hv) as Hsp.
  unfold gen_split_filter, gen_window_split, window_split, feasible, fhmax. open_lets.
  fh_facts Hfh.
  unfold initial_split. unfold start_point in Hsp.
  destruct (iw c) as [i|] eqn:Ei; [specialize (Hiw i eq_refl)|];
    destruct (sww c) eqn:Es; cbn [negb andb]; open_lets; fh_facts Hfh;
    split_tests; cbn [andb] in *; absurd_or_refl; plumb; f_equal.
  - (* initial window, then the regular windows *)
    f_equal.
    + f_equal.
      * solve_train.
      * unfold test_at. solve_test Hfh.
    + match goal with |- context [gen_sliding_windows ?s ?e _ _ _] =>
        rewrite (sliding_windows_eq s e) by (try assumption; lia) end.
      unfold regular_cutoffs, start_point, end_point, fhmax, train_at, test_at. rewrite Ei, Es.
      same_ranges.
  - match goal with |- context [gen_sliding_windows ?s ?e _ _ _] =>
      rewrite (sliding_windows_eq s e) by (try assumption; lia) end.
    unfold regular_cutoffs, start_point, end_point, fhmax, train_at, test_at. rewrite Ei, Es.
    same_ranges.
  - match goal with |- context [gen_sliding_windows ?s ?e _ _ _] =>
      rewrite (sliding_windows_eq s e) by (try assumption; lia) end.
    unfold regular_cutoffs, start_point, end_point, fhmax, train_at, test_at. rewrite Ei, Es.
    same_ranges.
Qed.

Theorem bridge_expanding c : valid c -> iw c = None ->
  gen_split_filter
    (gen_window_split gen_expanding_windows (wl c) (step c) (iw c) (sww c) (fh c)) (n c)
  = window_split Expanding c.
Proof.
  intros Hv Hnone. pose proof Hv as (Hfh & Hwl & Hst & Hiw).
  pose proof (start_point_nonneg c Hv) as Hsp.
  unfold gen_split_filter, gen_window_split, window_split, feasible, fhmax. open_lets.
  fh_facts Hfh. unfold initial_split. unfold start_point in Hsp. rewrite Hnone in *.
  destruct (sww c) eqn:Es; cbn [negb andb]; open_lets; fh_facts Hfh;
    split_tests; cbn [andb] in *; absurd_or_refl; plumb; f_equal;
    (match goal with |- context [gen_expanding_windows ?s ?e _ _ _] =>
       rewrite (expanding_windows_eq s e) by (try assumption; lia) end;
     unfold regular_cutoffs, start_point, end_point, fhmax, train_at, test_at; rewrite Hnone, Es;
     same_ranges).
Qed.

Theorem bridge_window_cutoffs c : valid c ->
  gen_window_cutoffs (wl c) (step c) (iw c) (sww c) (fh c) (n c) = Ok (window_cutoffs c).
Proof.
  intros Hv. pose proof Hv as (Hfh & Hwl & Hst & Hiw).
  unfold gen_window_cutoffs, window_cutoffs, regular_cutoffs, start_point, end_point, fhmax.
  open_lets. fh_facts Hfh.
  destruct (iw c) as [i|]; destruct (sww c); cbn [negb andb]; open_lets; fh_facts Hfh;
    split_tests; rewrite zrange_map_affine by lia; f_equal; f_equal; lia.
Qed.

Theorem bridge_window_n_splits c : valid c ->
  gen_window_n_splits (wl c) (step c) (iw c) (sww c) (fh c) (n c) = Ok (window_n_splits c).
Proof.
  intro Hv. unfold gen_window_n_splits. open_lets.
  rewrite bridge_window_cutoffs by exact Hv. reflexivity.
Qed.

Theorem bridge_single nn f wlo : valid_fh f -> zlast f <= nn ->
  gen_split_filter (gen_single_split f wlo) nn = Ok (single_split nn f wlo).
Proof.
  intros Hfh Hn. unfold gen_split_filter, gen_single_split, single_split, single_cutoff.
  open_lets. fh_facts Hfh.
  destruct wlo as [w|]; open_lets; fh_facts Hfh; plumb;
    (f_equal; f_equal; f_equal; [solve_train|]); solve_test Hfh.
Qed.

Theorem bridge_single_cutoffs nn f : valid_fh f ->
  gen_single_cutoffs f nn = Ok [single_cutoff nn f].
Proof.
  intro Hfh. unfold gen_single_cutoffs, single_cutoff. open_lets. fh_facts Hfh.
  f_equal. f_equal. lia.
Qed.

Theorem bridge_cutoff nn f w cs : valid_fh f -> (forall c, In c cs -> 0 <= c) ->
  gen_split_filter (gen_cutoff_split cs f w) nn = cutoff_split nn f w cs.
Proof.
  intros Hfh Hcs. unfold gen_split_filter, gen_cutoff_split, cutoff_split. open_lets.
  destruct (zmax_list cs >=? nn) eqn:E1; destruct (zmax_list cs + zmax_list f >=? nn) eqn:E2;
    cbn [orb]; split_tests; try reflexivity; try lia.
  unfold rapp. rewrite !app_nil_r, map_map. f_equal. apply map_ext_in. intros c Hc.
  specialize (Hcs c Hc). open_lets. f_equal.
  - solve_train.
  - solve_test Hfh.
Qed.

Theorem bridge_cutoff_reports cs :
  gen_cutoff_cutoffs cs = cs /\ gen_cutoff_n_splits cs = Z.of_nat (length cs).
Proof. split; reflexivity. Qed.

(* temporal_train_test_split(y, fh=...) on a series labelled lo .. lo+n-1 (X = None) *)
Theorem bridge_tts_fh_relative lo nn f : valid_fh f -> zlast f < nn ->
  gen_split_by_fh (zrange lo (lo + nn) 1) true nn f tt = tts_fh_relative_at lo nn f.
Proof.
  intros Hf Hn. unfold gen_split_by_fh, tts_fh_relative_at.
  rewrite valid_fh_out_of_sample by exact Hf. cbn [negb].
  rewrite valid_fh_max by exact Hf.
  pose proof (valid_fh_last_pos f Hf) as Hl. pose proof Hf as (Hne & Hs & H1).
  destruct (0 <? zfirst f) eqn:E1; [|lia]. destruct (zlast f <? nn) eqn:E2; [|lia]. cbn [andb].
  rewrite drop_last_zrange1 by lia. rewrite take_last_zrange1 by lia.
  rewrite take_idx_zrange1.
  - f_equal. f_equal; [f_equal; lia|]. rewrite map_map. apply map_ext. intro; lia.
  - intros i Hi. apply in_map_iff in Hi. destruct Hi as [h [<- Hh]].
    pose proof (valid_fh_pos f h Hf Hh). pose proof (valid_fh_le_last f h Hf Hh). lia.
Qed.

Theorem bridge_tts_fh_absolute lo nn f : f <> [] -> sorted_lt f ->
  lo < zfirst f -> zlast f < lo + nn ->
  gen_split_by_fh (zrange lo (lo + nn) 1) false nn f tt = tts_fh_absolute lo nn f.
Proof.
  intros Hne Hs H1 H2. unfold gen_split_by_fh, tts_fh_absolute.
  rewrite zmin_list_sorted by assumption.
  destruct (lo <? zfirst f) eqn:E1; [|lia]. destruct (zlast f <? lo + nn) eqn:E2; [|lia]. cbn [andb].
  rewrite zrange_filter_lt. f_equal. f_equal. f_equal.
  pose proof (zlast_in f Hne) as Hin. pose proof (sorted_lt_first_min f _ Hs Hin). lia.
Qed.
