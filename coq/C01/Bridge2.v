(* C01 bridge, part 2: check_cutoffs as code, the exogenous slices of _split_by_fh and the dispatch of
   temporal_train_test_split, as regenerated (Gen2.v), equal the model (Model2.v). *)
From Coq Require Import ZArith List Bool Lia ZifyBool.
Require Import SkV.Lib.Base SkV.Lib.ZRange SkV.Lib.Slice SkV.C01.Model SkV.C01.Model2 SkV.C01.Gen
  SkV.C01.Bridge SkV.C01.Gen2.
Import ListNotations.
Open Scope Z_scope.

Lemma cinsert_In x l y : In y (cinsert x l) <-> y = x \/ In y l.
Proof.
  induction l as [|a t IH]; cbn; [intuition|]. destruct (x <=? a); cbn; [intuition|].
  rewrite IH. intuition.
Qed.
Lemma csort_In l y : In y (csort l) <-> In y l.
Proof.
  unfold csort. induction l as [|a t IH]; cbn; [tauto|]. rewrite cinsert_In, IH. intuition.
Qed.

Theorem bridge_check_cutoffs cs : gen_check_cutoffs cs = checked_cutoffs cs.
Proof.
  unfold gen_check_cutoffs, checked_cutoffs. destruct cs as [|c t]; [reflexivity|].
  cbn [negb]; repeat match goal with
         | |- context [if ?b then _ else _] => let E := fresh "E" in destruct b eqn:E
         end; try reflexivity; cbn [length] in *; try discriminate; lia.
Qed.

Lemma checked_cutoffs_ok cs s : checked_cutoffs cs = Ok s -> s = csort cs /\ cs <> [].
Proof.
  unfold checked_cutoffs. destruct cs; [discriminate|]. intro H. injection H as <-.
  split; [reflexivity|discriminate].
Qed.

(* CutoffSplitter.split for cutoffs in any order *)
Theorem bridge_cutoff_any nn f w cs : valid_fh f -> (forall c, In c cs -> 0 <= c) ->
  gen_split_filter (gen_cutoff_split_any cs f w) nn = cutoff_split_any nn f w cs.
Proof.
  intros Hf Hcs. unfold cutoff_split_any. rewrite <- bridge_check_cutoffs.
  unfold gen_split_filter, gen_cutoff_split_any.
  destruct (gen_check_cutoffs cs) as [s|] eqn:E; [|reflexivity].
  assert (Hs : forall c, In c s -> 0 <= c).
  { rewrite bridge_check_cutoffs in E. apply checked_cutoffs_ok in E. destruct E as [-> _].
    intros c Hc. apply Hcs. apply (proj1 (csort_In cs c)). exact Hc. }
  pose proof (bridge_cutoff nn f w s Hf Hs) as B. unfold gen_split_filter, gen_cutoff_split in B.
  exact B.
Qed.

Theorem bridge_cutoff_reports_any cs :
  gen_cutoff_cutoffs_any cs = checked_cutoffs cs /\ gen_single_n_splits = 1.
Proof. split; [apply bridge_check_cutoffs|reflexivity]. Qed.

(* temporal_train_test_split(y, X, fh=...) with X given, relative horizon *)
Theorem bridge_tts_fh_relative_X lo nn f : valid_fh f -> zlast f < nn ->
  gen_split_by_fh_X (zrange lo (lo + nn) 1) true nn f tt = tts_fh_relative_X lo nn f.
Proof.
  intros Hf Hn. pose proof (bridge_tts_fh_relative lo nn f Hf Hn) as B.
  unfold gen_split_by_fh in B. unfold gen_split_by_fh_X, tts_fh_relative_X. rewrite <- B.
  rewrite valid_fh_out_of_sample by exact Hf. cbn [negb]. cbv zeta.
  rewrite valid_fh_max by exact Hf. pose proof (valid_fh_last_pos f Hf) as Hl.
  rewrite take_last_zrange1 by lia. reflexivity.
Qed.

Lemma filter_and {A} (p q : A -> bool) l : filter (fun v => p v && q v) l = filter p (filter q l).
Proof.
  induction l as [|a t IH]; [reflexivity|]. cbn. destruct (q a); cbn; destruct (p a); cbn;
    rewrite ?IH; reflexivity.
Qed.

Theorem bridge_tts_fh_absolute_X lo nn f : f <> [] -> sorted_lt f ->
  lo < zfirst f -> zlast f < lo + nn ->
  gen_split_by_fh_X (zrange lo (lo + nn) 1) false nn f tt = tts_fh_absolute_X lo nn f.
Proof.
  intros Hne Hs H1 H2. pose proof (bridge_tts_fh_absolute lo nn f Hne Hs H1 H2) as B.
  unfold gen_split_by_fh in B. unfold gen_split_by_fh_X, tts_fh_absolute_X. rewrite <- B. cbv zeta.
  do 3 f_equal.
  assert (Hmax : zmax_list f = zlast f).
  { pose proof (zmax_list_in f Hne) as Hin. pose proof (zlast_in f Hne) as Hl.
    pose proof (sorted_lt_last_max f _ Hs Hin). pose proof (zmax_list_ge f _ Hl). lia. }
  rewrite zmin_list_sorted, Hmax by assumption.
  rewrite (filter_and (fun v => v <=? zlast f) (fun v => zfirst f <=? v)).
  rewrite (filter_ext (fun v => zfirst f <=? v) (fun v => v >=? zfirst f)) by (intro; lia).
  rewrite zrange_filter_ge.
  rewrite (filter_ext (fun v => v <=? zlast f) (fun v => v <? zlast f + 1)) by (intro; lia).
  rewrite zrange_filter_lt. f_equal; lia.
Qed.

(* the dispatch of temporal_train_test_split (sklearn's splitter = the size rule of the model) *)
Theorem bridge_tts lo nn (rel : bool) fho te tr :
  (forall f, fho = Some f ->
     if rel then valid_fh f /\ zlast f < nn
     else f <> [] /\ sorted_lt f /\ lo < zfirst f /\ zlast f < lo + nn) ->
  gen_tts tts_positions (zrange lo (lo + nn) 1) rel nn tt te tr fho =
  tts_dispatch lo nn (option_map (fun f => (rel, f)) fho) te tr.
Proof.
  intro H. unfold gen_tts, tts_dispatch. destruct fho as [f|]; cbn [option_map]; [|reflexivity].
  destruct te; [reflexivity|]. destruct tr; [reflexivity|]. specialize (H f eq_refl).
  destruct rel.
  - destruct H as [Hf Hn]. apply bridge_tts_fh_relative; assumption.
  - destruct H as (A & B & C & D). apply bridge_tts_fh_absolute; assumption.
Qed.
