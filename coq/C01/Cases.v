(* C01 correspondence: cases carry the implementation's canonicalised outputs; `mism` lists the
   indices on which the model disagrees. *)
From Coq Require Import ZArith List Bool.
Require Import SkV.Lib.Base SkV.Lib.ZRange SkV.C01.Model SkV.C01.Model2.
Import ListNotations.
Open Scope Z_scope.

Definition zlist_eqb (a b : list Z) : bool :=
  (length a =? length b)%nat && forallb (fun p => fst p =? snd p) (combine a b).
Definition split_eqb (a b : split) : bool :=
  zlist_eqb (fst a) (fst b) && zlist_eqb (snd a) (snd b).
Definition splits_eqb (a b : list split) : bool :=
  (length a =? length b)%nat && forallb (fun p => split_eqb (fst p) (snd p)) (combine a b).

(* implementation output: None = rejected with ValueError; Some (splits, cutoffs, n_splits) *)
Definition impl_out := option (list split * list Z * Z).

Inductive case :=
  | CWindow (k : kind) (c : cfg) (o : impl_out)
  | CSingle (n : Z) (fh : list Z) (wlo : option Z) (o : impl_out)
  | CCutoff (n : Z) (fh : list Z) (w : Z) (cutoffs : list Z) (o : impl_out)
  | CTtsSize (n : Z) (te tr : option Z) (o : option (list Z * list Z))
  | CTtsFh (n : Z) (fh : list Z) (o : option (list Z * list Z))
  | CTtsFhAbs (lo n : Z) (fh : list Z) (o : option (list Z * list Z))
  (* cutoffs in any order (possibly none) *)
  | CCutoffAny (n : Z) (fh : list Z) (w : Z) (cutoffs : list Z) (o : impl_out)
  (* horizon form with exogenous data: ((y_train, y_test), (X_train, X_test)) *)
  | CTtsFhX (lo n : Z) (rel : bool) (fh : list Z)
            (o : option ((list Z * list Z) * (list Z * list Z)))
  (* any combination of horizon and size arguments *)
  | CTts (lo n : Z) (fh : option (bool * list Z)) (te tr : option Z) (o : option (list Z * list Z)).

Definition agree (m : res (list split)) (mc : list Z) (o : impl_out) : bool :=
  match m, o with
  | Err, None => true
  | Ok l, Some (l', c', ns') =>
      splits_eqb l l' && zlist_eqb mc c' && (Z.of_nat (length l) =? ns')
  | _, _ => false
  end.
Definition agree2 (m : res (list Z * list Z)) (o : option (list Z * list Z)) : bool :=
  match m, o with
  | Err, None => true
  | Ok a, Some b => split_eqb a b
  | _, _ => false
  end.

Definition agree4 (m : res ((list Z * list Z) * (list Z * list Z)))
  (o : option ((list Z * list Z) * (list Z * list Z))) : bool :=
  match m, o with
  | Err, None => true
  | Ok (a, b), Some (a', b') => split_eqb a a' && split_eqb b b'
  | _, _ => false
  end.

Definition check (c : case) : bool :=
  match c with
  | CWindow k cf o => agree (window_split k cf) (window_cutoffs cf) o
  | CSingle n fh wlo o => agree (Ok (single_split n fh wlo)) [single_cutoff n fh] o
  | CCutoff n fh w cs o => agree (cutoff_split n fh w cs) cs o
  | CTtsSize n te tr o => agree2 (tts_positions n te tr) o
  | CTtsFh n fh o => agree2 (tts_fh_relative n fh) o
  | CTtsFhAbs lo n fh o => agree2 (tts_fh_absolute lo n fh) o
  | CCutoffAny n fh w cs o => agree (cutoff_split_any n fh w cs) (csort cs) o
  | CTtsFhX lo n rel fh o =>
      agree4 (if rel then tts_fh_relative_X lo n fh else tts_fh_absolute_X lo n fh) o
  | CTts lo n fh te tr o => agree2 (tts_dispatch lo n fh te tr) o
  end.

Fixpoint mism (cs : list (Z * case)) : list Z :=
  match cs with
  | [] => []
  | (i, c) :: t => if check c then mism t else i :: mism t
  end.
