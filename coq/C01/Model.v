(* C01 hand model: what the temporal CV splitters are documented to yield, over positions in Z.
   Executable definitions only; Bridge.v proves the regenerated Gen.v equal to these, Proofs.v
   proves the property statements about these. *)
From Coq Require Import ZArith List Bool.
Require Import SkV.Lib.Base SkV.Lib.ZRange.
Import ListNotations.
Open Scope Z_scope.

Record cfg := { n : Z; fh : list Z; wl : Z; step : Z; iw : option Z; sww : bool }.
Inductive kind := Sliding | Expanding.
Definition split := (list Z * list Z)%type.

Definition fhmax (c : cfg) : Z := zlast (fh c).

(* first split point and (exclusive) last split point; the cutoff of split point p is p - 1 *)
Definition start_point (c : cfg) : Z :=
  if sww c then match iw c with Some i => i + step c | None => wl c end else 0.
Definition end_point (c : cfg) : Z := n c - fhmax c + 1.

Definition regular_cutoffs (c : cfg) : list Z :=
  zrange (start_point c - 1) (end_point c - 1) (step c).

Definition train_at (k : kind) (c : cfg) (cut : Z) : list Z :=
  match k with
  | Sliding => zrange (Z.max (cut + 1 - wl c) 0) (cut + 1) 1
  | Expanding => zrange 0 (cut + 1) 1
  end.
Definition test_at (c : cfg) (cut : Z) : list Z := map (fun h => cut + h) (fh c).

Definition feasible (c : cfg) : bool :=
  (wl c + fhmax c <=? n c) &&
  match iw c with
  | Some i => (i + fhmax c <=? n c) && sww c && (wl c <? i)
  | None => true
  end.

Definition initial_split (c : cfg) : list split :=
  match iw c with Some i => [(zrange 0 i 1, test_at c (i - 1))] | None => [] end.

Definition window_split (k : kind) (c : cfg) : res (list split) :=
  if feasible c
  then Ok (initial_split c ++ map (fun cut => (train_at k c cut, test_at c cut)) (regular_cutoffs c))
  else Err.

(* what get_cutoffs / get_n_splits report *)
Definition window_cutoffs (c : cfg) : list Z :=
  match iw c with
  | Some i => zrange (i - 1) (end_point c - 1) (step c)
  | None => regular_cutoffs c
  end.
Definition window_n_splits (c : cfg) : Z := Z.of_nat (length (window_cutoffs c)).

(* the cutoff a yielded split belongs to, read off the split itself *)
Definition split_cutoff (fh : list Z) (s : split) : Z := zfirst (snd s) - zfirst fh.

(* single window splitter: one split whose last test point is the last observation *)
Definition single_cutoff (n : Z) (fh : list Z) : Z := n - zlast fh - 1.
Definition single_split (n : Z) (fh : list Z) (wlo : option Z) : list split :=
  let cut := single_cutoff n fh in
  let lo := match wlo with Some w => Z.max (cut + 1 - w) 0 | None => 0 end in
  [(zrange lo (cut + 1) 1, map (fun h => cut + h) fh)].

(* cutoff splitter: positions must lie inside the series *)
Definition cutoff_split (n : Z) (fh : list Z) (w : Z) (cutoffs : list Z) : res (list split) :=
  if (zmax_list cutoffs >=? n) || (zmax_list cutoffs + zmax_list fh >=? n) then Err
  else Ok (map (fun cut => (zrange (Z.max (cut + 1 - w) 0) (cut + 1) 1, map (fun h => cut + h) fh))
               cutoffs).

(* temporal_train_test_split: positions of an unshuffled split of n points.
   Sizes follow sklearn's documented rule for int / None arguments (float sizes are sklearn's
   rounding and are compared in the correspondence only through the partition shape). *)
Definition tts_sizes (n : Z) (test_size train_size : option Z) : res (Z * Z) :=
  match test_size, train_size with
  | Some te, Some tr => if (0 <? te) && (0 <? tr) && (te + tr <=? n) then Ok (tr, te) else Err
  | Some te, None => if (0 <? te) && (te <? n) then Ok (n - te, te) else Err
  | None, Some tr => if (0 <? tr) && (tr <? n) then Ok (tr, n - tr) else Err
  | None, None => Err (* default is the float 0.25: handled on the float path *)
  end.
Definition tts_positions (n : Z) (test_size train_size : option Z) : res (list Z * list Z) :=
  match tts_sizes n test_size train_size with
  | Ok (tr, te) => Ok (zrange 0 tr 1, zrange tr (tr + te) 1)
  | Err => Err
  end.
(* fh form, relative horizon: train = everything before the last max(fh) points, test = cutoff+fh *)
Definition tts_fh_relative_at (lo n : Z) (fh : list Z) : res (list Z * list Z) :=
  let m := zlast fh in
  if (0 <? zfirst fh) && (m <? n) then
    let cut := lo + n - m - 1 in Ok (zrange lo (cut + 1) 1, map (fun h => cut + h) fh)
  else Err.
Definition tts_fh_relative (n : Z) (fh : list Z) : res (list Z * list Z) := tts_fh_relative_at 0 n fh.

(* fh form, absolute horizon over a series labelled lo .. lo+n-1: train = every label before the first
   requested time point, test = exactly the requested time points *)
Definition tts_fh_absolute (lo n : Z) (fh : list Z) : res (list Z * list Z) :=
  if (lo <? zfirst fh) && (zlast fh <? lo + n) then Ok (zrange lo (zfirst fh) 1, fh) else Err.
