(* C01 hand model, part 2: what the remaining paths of _split.py are documented to do -
   CutoffSplitter with cutoffs in any order (check_cutoffs sorts them and rejects an empty array),
   the dispatch of temporal_train_test_split between the horizon form and the size form, and the
   exogenous slices of the horizon form.  Executable definitions only; Gen2.v (regenerated) is
   proved equal in Bridge2.v. *)
From Coq Require Import ZArith List Bool.
Require Import SkV.Lib.Base SkV.Lib.ZRange SkV.C01.Model.
Import ListNotations.
Open Scope Z_scope.

(* np.sort on an integer array *)
Fixpoint cinsert (x : Z) (l : list Z) : list Z :=
  match l with [] => [x] | a :: t => if x <=? a then x :: l else a :: cinsert x t end.
Definition csort (l : list Z) : list Z := fold_right cinsert [] l.

(* check_cutoffs: a non-empty integer array, returned sorted *)
Definition checked_cutoffs (cs : list Z) : res (list Z) :=
  match cs with [] => Err | _ => Ok (csort cs) end.

(* CutoffSplitter for cutoffs given in any order: the splits of the sorted cutoffs *)
Definition cutoff_split_any (n : Z) (fh : list Z) (w : Z) (cutoffs : list Z) : res (list split) :=
  match checked_cutoffs cutoffs with
  | Err => Err
  | Ok cs => cutoff_split n fh w cs
  end.

(* temporal_train_test_split(y, [X], test_size, train_size, fh): the horizon form excludes the
   size arguments; without a horizon the size rule of sklearn (Model.tts_positions) applies.
   `fh` = Some (is_relative, steps or time points); the series is labelled lo .. lo+n-1. *)
Definition tts_dispatch (lo n : Z) (fh : option (bool * list Z)) (test_size train_size : option Z)
  : res (list Z * list Z) :=
  match fh with
  | Some (rel, f) =>
      match test_size, train_size with
      | None, None => if rel then tts_fh_relative_at lo n f else tts_fh_absolute lo n f
      | _, _ => Err
      end
  | None => tts_positions n test_size train_size
  end.

(* horizon form with exogenous data: X_train has the labels of y_train; X_test covers the whole
   span from the first row after the cutoff to the last requested time point *)
Definition tts_fh_relative_X (lo n : Z) (fh : list Z) : res ((list Z * list Z) * (list Z * list Z)) :=
  match tts_fh_relative_at lo n fh with
  | Err => Err
  | Ok (tr, te) => Ok ((tr, te), (tr, zrange (lo + n - zlast fh) (lo + n) 1))
  end.
Definition tts_fh_absolute_X (lo n : Z) (fh : list Z) : res ((list Z * list Z) * (list Z * list Z)) :=
  match tts_fh_absolute lo n fh with
  | Err => Err
  | Ok (tr, te) => Ok ((tr, te), (tr, zrange (zfirst fh) (zlast fh + 1) 1))
  end.
