(* C01 proofs about the hand model (all configurations, no bound on sizes). *)
From Coq Require Import ZArith List Bool Lia ZifyBool.
Require Import SkV.Lib.Base SkV.Lib.ZRange SkV.C01.Model SkV.C01.Gen SkV.C01.Bridge.
Import ListNotations.
Open Scope Z_scope.

(* ---- generic facts about arithmetic progressions ------------------------------------------- *)

Lemma zrange_nth s e st : 0 < st -> forall (i : nat),
  s + Z.of_nat i * st < e -> nth i (zrange s e st) 0 = s + Z.of_nat i * st.
Proof.
  intros Hst i. revert s. induction i as [|i IH]; intros s H.
  - rewrite zrange_cons by lia. cbn. lia.
  - rewrite zrange_cons by nia. cbn [nth]. rewrite IH by nia. nia.
Qed.

Lemma zrange_length_bound s e st : 0 < st -> forall (i : nat),
  (i < length (zrange s e st))%nat -> s + Z.of_nat i * st < e.
Proof.
  intros Hst i. revert s. induction i as [|i IH]; intros s H.
  - destruct (Z_lt_le_dec s e); [lia|]. rewrite zrange_nil in H by lia. cbn in H. lia.
  - destruct (Z_lt_le_dec s e) as [Hlt|Hge].
    + rewrite zrange_cons in H by lia. cbn [length] in H. specialize (IH (s + st)). nia.
    + rewrite zrange_nil in H by lia. cbn in H. lia.
Qed.

Lemma zrange_consecutive s e st (i : nat) : 0 < st -> (S i < length (zrange s e st))%nat ->
  nth (S i) (zrange s e st) 0 - nth i (zrange s e st) 0 = st.
Proof.
  intros Hst H. pose proof (zrange_length_bound s e st Hst (S i) H) as HS.
  rewrite !zrange_nth by nia. nia.
Qed.

Lemma zrange_first s e st : 0 < st -> s < e -> zfirst (zrange s e st) = s.
Proof. intros. rewrite zrange_cons by lia. reflexivity. Qed.

Lemma zrange_last_bounds s e st : 0 < st -> s < e ->
  zlast (zrange s e st) < e <= zlast (zrange s e st) + st.
Proof.
  intros Hst Hlt.
  assert (Hne : zrange s e st <> []) by (rewrite zrange_cons by lia; discriminate).
  pose proof (zlast_in _ Hne) as Hin. apply zrange_spec in Hin; [|lia].
  destruct Hin as [k [Hk [Hl Hle]]]. split; [lia|].
  destruct (Z_lt_le_dec (s + (k + 1) * st) e) as [Hnext|]; [|nia].
  assert (Hin' : In (s + (k + 1) * st) (zrange s e st)).
  { apply zrange_spec; [lia|]. exists (k + 1). lia. }
  pose proof (sorted_lt_last_max _ _ (zrange_sorted s e st Hst) Hin'). nia.
Qed.

(* ---- what a well-formed split is --------------------------------------------------------------- *)

Definition split_ok (nn : Z) (f : list Z) (s : split) : Prop :=
  exists cut a,
    0 <= a <= cut + 1 /\ fst s = zrange a (cut + 1) 1 /\       (* contiguous window ending at cut *)
    snd s = map (fun h => cut + h) f /\                         (* test positions = cutoff + fh *)
    (forall x, In x (fst s) -> 0 <= x < nn) /\
    (forall y, In y (snd s) -> 0 <= y < nn) /\
    (forall x y, In x (fst s) -> In y (snd s) -> x < y).        (* no training point at/after test *)

Lemma split_ok_intro nn f cut a : valid_fh f -> 0 <= a <= cut + 1 -> cut + zlast f < nn ->
  split_ok nn f (zrange a (cut + 1) 1, map (fun h => cut + h) f).
Proof.
  intros Hf Ha Hn. exists cut, a. cbn [fst snd]. repeat split; try lia.
  - apply zrange1_in in H. lia.
  - apply zrange1_in in H. pose proof (valid_fh_last_pos f Hf). lia.
  - apply in_map_iff in H. destruct H as [h [<- Hh]]. pose proof (valid_fh_pos f h Hf Hh). lia.
  - apply in_map_iff in H. destruct H as [h [<- Hh]]. pose proof (valid_fh_le_last f h Hf Hh). lia.
  - intros x y Hx Hy. apply zrange1_in in Hx. apply in_map_iff in Hy.
    destruct Hy as [h [<- Hh]]. pose proof (valid_fh_pos f h Hf Hh). lia.
Qed.

Lemma regular_cutoff_bounds c cut : valid c -> In cut (regular_cutoffs c) ->
  start_point c - 1 <= cut /\ cut + fhmax c < n c.
Proof.
  intros (Hfh & Hwl & Hst & Hiw) Hin. unfold regular_cutoffs, end_point in Hin.
  apply zrange_spec in Hin; [|lia]. destruct Hin as [k [Hk [-> Hlt]]]. split; nia.
Qed.

Lemma feasible_facts c : feasible c = true ->
  wl c + fhmax c <= n c /\
  (forall i, iw c = Some i -> i + fhmax c <= n c /\ sww c = true /\ wl c < i).
Proof.
  unfold feasible. intro H. apply andb_prop in H. destruct H as [H1 H2]. split; [lia|].
  intros i Hi. rewrite Hi in H2. apply andb_prop in H2. destruct H2 as [H2 H3].
  apply andb_prop in H2. destruct H2 as [H2 H4]. repeat split; lia || exact H4.
Qed.

Theorem window_split_sound k c l : valid c -> window_split k c = Ok l ->
  Forall (split_ok (n c) (fh c)) l.
Proof.
  intros Hv Hs. pose proof Hv as (Hfh & Hwl & Hst & Hiw). unfold window_split in Hs.
  destruct (feasible c) eqn:Hf; [|discriminate]. injection Hs as <-.
  pose proof (feasible_facts c Hf) as (Hfe & Hfi).
  pose proof (start_point_nonneg c Hv) as Hsp.
  apply Forall_app. split.
  - unfold initial_split. destruct (iw c) as [i|] eqn:Ei; [|constructor].
    specialize (Hiw i eq_refl). destruct (Hfi i eq_refl) as (Hi1 & Hi2 & Hi3).
    constructor; [|constructor]. unfold test_at.
    replace i with (i - 1 + 1) at 1 by lia.
    apply split_ok_intro; [exact Hfh|lia|unfold fhmax in *; lia].
  - apply Forall_forall. intros s Hin. apply in_map_iff in Hin. destruct Hin as [cut [<- Hc]].
    destruct (regular_cutoff_bounds c cut Hv Hc) as [Hlo Hhi]. unfold test_at, train_at.
    destruct k; apply split_ok_intro; try exact Hfh; unfold fhmax in *; lia.
Qed.

(* sliding windows have exactly the requested length when starting with a full window;
   the optional initial window has exactly the initial length *)
Theorem sliding_window_lengths c l : valid c -> sww c = true -> window_split Sliding c = Ok l ->
  exists init rest, l = init ++ rest /\
    Forall (fun s => Z.of_nat (length (fst s)) = wl c) rest /\
    match iw c with
    | Some i => exists s0, init = [s0] /\ Z.of_nat (length (fst s0)) = i
    | None => init = []
    end.
Proof.
  intros Hv Hsww Hs. pose proof Hv as (Hfh & Hwl & Hst & Hiw). unfold window_split in Hs.
  destruct (feasible c) eqn:Hf; [|discriminate]. injection Hs as <-.
  eexists _, _. split; [reflexivity|]. split.
  - apply Forall_forall. intros s Hin. apply in_map_iff in Hin. destruct Hin as [cut [<- Hc]].
    destruct (regular_cutoff_bounds c cut Hv Hc) as [Hlo Hhi]. cbn [fst train_at].
    rewrite zrange_length1.
    assert (wl c - 1 <= cut).
    { unfold start_point in Hlo. rewrite Hsww in Hlo. destruct (iw c) as [i|] eqn:Ei; [|lia].
      destruct (feasible_facts c Hf) as (_ & Hfi). destruct (Hfi i Ei) as (_ & _ & ?). lia. }
    lia.
  - unfold initial_split. destruct (iw c) as [i|] eqn:Ei; [|reflexivity].
    eexists. split; [reflexivity|]. cbn [fst]. rewrite zrange_length1.
    specialize (Hiw i eq_refl). lia.
Qed.

(* expanding windows always start at the first observation *)
Theorem expanding_from_first c l : valid c -> iw c = None -> window_split Expanding c = Ok l ->
  Forall (fun s => exists cut, fst s = zrange 0 (cut + 1) 1 /\ snd s = map (fun h => cut + h) (fh c)) l.
Proof.
  intros Hv Hnone Hs. unfold window_split in Hs.
  destruct (feasible c); [|discriminate]. injection Hs as <-.
  unfold initial_split. rewrite Hnone. cbn [app].
  apply Forall_forall. intros s Hin. apply in_map_iff in Hin. destruct Hin as [cut [<- _]].
  exists cut. split; reflexivity.
Qed.

(* first feasible cutoff *)
Definition first_cutoff (c : cfg) : Z :=
  if sww c then match iw c with Some i => i - 1 | None => wl c - 1 end else -1.

Theorem cutoffs_progression c : valid c -> feasible c = true ->
  let cs := window_cutoffs c in
  cs <> [] /\ zfirst cs = first_cutoff c /\
  (forall i : nat, (S i < length cs)%nat -> nth (S i) cs 0 - nth i cs 0 = step c) /\
  zlast cs + fhmax c <= n c - 1 < zlast cs + step c + fhmax c.
Proof.
  intros Hv Hf cs. pose proof Hv as (Hfh & Hwl & Hst & Hiw).
  pose proof (feasible_facts c Hf) as (Hfe & Hfi).
  pose proof (valid_fh_last_pos _ Hfh) as Hl. unfold fhmax in *.
  assert (Hcs : exists s0, cs = zrange s0 (end_point c - 1) (step c) /\ s0 = first_cutoff c
                           /\ s0 < end_point c - 1).
  { unfold cs, window_cutoffs, regular_cutoffs, first_cutoff, start_point, end_point, fhmax.
    destruct (iw c) as [i|] eqn:Ei.
    - destruct (Hfi i eq_refl) as (Hi1 & Hi2 & Hi3). rewrite Hi2. eexists. split; [reflexivity|]. lia.
    - destruct (sww c); eexists; (split; [reflexivity|]); lia. }
  destruct Hcs as (s0 & -> & Hs0 & Hlt). unfold end_point, fhmax in *.
  repeat split.
  - rewrite zrange_cons by lia. discriminate.
  - rewrite zrange_first by lia. exact Hs0.
  - intros i Hi. apply zrange_consecutive; [lia|exact Hi].
  - pose proof (zrange_last_bounds s0 (n c - zlast (fh c) + 1 - 1) (step c)). lia.
  - pose proof (zrange_last_bounds s0 (n c - zlast (fh c) + 1 - 1) (step c)). lia.
Qed.

(* closed form of the number of splits: ceil((last feasible cutoff bound - first cutoff) / step) *)
Theorem n_splits_formula c : valid c -> feasible c = true ->
  window_n_splits c = (n c - fhmax c - first_cutoff c + step c - 1) / step c /\
  1 <= window_n_splits c.
Proof.
  intros Hv Hf. pose proof Hv as (Hfh & Hwl & Hst & Hiw).
  pose proof (feasible_facts c Hf) as (Hfe & Hfi).
  pose proof (valid_fh_last_pos _ Hfh) as Hl. unfold fhmax in *.
  assert (Hcs : exists s0, window_cutoffs c = zrange s0 (n c - zlast (fh c)) (step c)
                           /\ s0 = first_cutoff c /\ s0 < n c - zlast (fh c)).
  { unfold window_cutoffs, regular_cutoffs, first_cutoff, start_point, end_point, fhmax.
    destruct (iw c) as [i|] eqn:Ei.
    - destruct (Hfi i eq_refl) as (Hi1 & Hi2 & Hi3). rewrite Hi2. eexists.
      split; [f_equal; lia|]. lia.
    - destruct (sww c); eexists; (split; [f_equal; lia|]); lia. }
  destruct Hcs as (s0 & Hc & Hs0 & Hlt). unfold window_n_splits. rewrite Hc, zrange_length by lia.
  rewrite <- Hs0.
  assert (1 <= (n c - zlast (fh c) - s0 + step c - 1) / step c).
  { apply Z.div_le_lower_bound; lia. }
  split; lia.
Qed.

Lemma split_cutoff_test f cut tr : f <> [] -> split_cutoff f (tr, map (fun h => cut + h) f) = cut.
Proof.
  intro H. destruct f as [|a t]; [congruence|]. unfold split_cutoff. cbn. lia.
Qed.

(* the reported cutoffs / number of splits are exactly those yielded *)
Theorem reported_eq_yielded k c l : valid c -> window_split k c = Ok l ->
  map (split_cutoff (fh c)) l = window_cutoffs c /\ Z.of_nat (length l) = window_n_splits c.
Proof.
  intros Hv Hs. pose proof Hv as (Hfh & Hwl & Hst & Hiw). unfold window_split in Hs.
  destruct (feasible c) eqn:Hf; [|discriminate]. injection Hs as <-.
  pose proof (feasible_facts c Hf) as (Hfe & Hfi).
  assert (Hne : fh c <> []) by apply Hfh.
  assert (H1 : map (split_cutoff (fh c))
                 (initial_split c ++ map (fun cut => (train_at k c cut, test_at c cut)) (regular_cutoffs c))
               = window_cutoffs c).
  { rewrite map_app, map_map.
    rewrite (map_ext (fun cut => split_cutoff (fh c) (train_at k c cut, test_at c cut)) (fun x => x))
      by (intro; apply split_cutoff_test; exact Hne).
    rewrite map_id. unfold initial_split, window_cutoffs.
    destruct (iw c) as [i|] eqn:Ei; [|reflexivity].
    destruct (Hfi i eq_refl) as (Hi1 & Hi2 & Hi3).
    cbn [map app]. unfold test_at. rewrite split_cutoff_test by exact Hne.
    unfold regular_cutoffs, start_point. rewrite Hi2, Ei.
    rewrite (zrange_cons (i - 1)) by (unfold end_point; lia). f_equal. f_equal. lia. }
  split; [exact H1|]. unfold window_n_splits. rewrite <- H1, map_length. reflexivity.
Qed.

Theorem rejects_iff_infeasible k c :
  window_split k c = Err <->
  (wl c + fhmax c > n c \/
   exists i, iw c = Some i /\ (i + fhmax c > n c \/ sww c = false \/ i <= wl c)).
Proof.
  unfold window_split. destruct (feasible c) eqn:Hf.
  - split; [discriminate|]. pose proof (feasible_facts c Hf) as (Hfe & Hfi).
    intros [H|[i [Hi H]]]; [lia|]. destruct (Hfi i Hi) as (H1 & H2 & H3).
    destruct H as [H|[H|H]]; [lia|congruence|lia].
  - split; [intros _|reflexivity]. unfold feasible in Hf.
    destruct (wl c + fhmax c <=? n c) eqn:E1; [|left; lia]. right. cbn [andb] in Hf.
    destruct (iw c) as [i|]; [|discriminate]. exists i. split; [reflexivity|].
    destruct (i + fhmax c <=? n c) eqn:E2; [|left; lia]. cbn [andb] in Hf.
    destruct (sww c); [|right; left; reflexivity]. cbn [andb] in Hf. right. right. lia.
Qed.

(* single window *)
Theorem single_sound nn f wlo : valid_fh f -> zlast f < nn -> (forall w, wlo = Some w -> 1 <= w) ->
  Forall (split_ok nn f) (single_split nn f wlo) /\
  map (split_cutoff f) (single_split nn f wlo) = [single_cutoff nn f] /\
  single_cutoff nn f + zlast f = nn - 1.
Proof.
  intros Hf Hn Hw. unfold single_split, single_cutoff. repeat split.
  - constructor; [|constructor]. apply split_ok_intro; [exact Hf| |lia].
    destruct wlo as [w|]; [specialize (Hw w eq_refl)|]; lia.
  - cbn [map]. rewrite split_cutoff_test by apply Hf. reflexivity.
  - lia.
Qed.

(* cutoff splitter *)
Theorem cutoff_sound nn f w cs l : valid_fh f -> 1 <= w -> (forall c, In c cs -> 0 <= c) ->
  cutoff_split nn f w cs = Ok l ->
  Forall (split_ok nn f) l /\ map (split_cutoff f) l = cs.
Proof.
  intros Hf Hw Hcs Hs. unfold cutoff_split in Hs.
  destruct ((zmax_list cs >=? nn) || (zmax_list cs + zmax_list f >=? nn)) eqn:E; [discriminate|].
  injection Hs as <-. apply orb_false_elim in E. destruct E as [E1 E2].
  rewrite (valid_fh_max f) in E2 by exact Hf. split.
  - apply Forall_forall. intros s Hin. apply in_map_iff in Hin. destruct Hin as [cut [<- Hc]].
    pose proof (zmax_list_ge cs cut Hc). specialize (Hcs cut Hc).
    apply split_ok_intro; [exact Hf|lia|lia].
  - rewrite map_map.
    rewrite (map_ext _ (fun x => x)) by (intro; apply split_cutoff_test; apply Hf).
    apply map_id.
Qed.

Theorem cutoff_rejects_iff nn f w cs :
  cutoff_split nn f w cs = Err <-> (zmax_list cs >= nn \/ zmax_list cs + zmax_list f >= nn).
Proof.
  unfold cutoff_split.
  destruct ((zmax_list cs >=? nn) || (zmax_list cs + zmax_list f >=? nn)) eqn:E.
  - split; [intros _|reflexivity]. apply orb_prop in E. destruct E; [left|right]; lia.
  - split; [discriminate|]. apply orb_false_elim in E. lia.
Qed.

(* temporal_train_test_split: an ordered prefix partition *)
Theorem tts_partition nn te tr a b : tts_positions nn te tr = Ok (a, b) ->
  a ++ b = zrange 0 (Z.of_nat (length a) + Z.of_nat (length b)) 1 /\
  0 < Z.of_nat (length a) /\ 0 < Z.of_nat (length b) /\
  Z.of_nat (length a) + Z.of_nat (length b) <= nn /\
  (forall t, te = Some t -> Z.of_nat (length b) = t) /\
  (forall t, tr = Some t -> Z.of_nat (length a) = t) /\
  (te = None \/ tr = None -> Z.of_nat (length a) + Z.of_nat (length b) = nn) /\
  (forall x y, In x a -> In y b -> x < y).
Proof.
  unfold tts_positions. destruct (tts_sizes nn te tr) as [[ntr nte]|] eqn:E; [|discriminate].
  intro H. injection H as <- <-. rewrite !zrange_length1.
  assert (Hs : 0 < ntr /\ 0 < nte /\ ntr + nte <= nn /\ (forall t, te = Some t -> nte = t)
               /\ (forall t, tr = Some t -> ntr = t) /\ (te = None \/ tr = None -> ntr + nte = nn)).
  { unfold tts_sizes in E. destruct te as [t1|]; destruct tr as [t2|]; try discriminate;
      match type of E with (if ?b then _ else _) = _ => destruct b eqn:B end; try discriminate;
      injection E as <- <-; repeat split; try lia; try (intros t Ht; injection Ht as <-; lia);
      try (intros t Ht; discriminate); try (intros [Ht|Ht]; discriminate). }
  destruct Hs as (H1 & H2 & H3 & H4 & H5 & H6).
  repeat split; try lia.
  - replace (Z.max 0 (ntr - 0) + Z.max 0 (ntr + nte - ntr)) with (ntr + nte) by lia.
    apply zrange_app1; lia.
  - intros t Ht. specialize (H4 t Ht). lia.
  - intros t Ht. specialize (H5 t Ht). lia.
  - intro Hn. specialize (H6 Hn). lia.
  - intros x y Hx Hy. apply zrange1_in in Hx. apply zrange1_in in Hy. lia.
Qed.

Theorem tts_fh_sound nn f a b : valid_fh f -> tts_fh_relative nn f = Ok (a, b) ->
  split_ok nn f (a, b) /\ split_cutoff f (a, b) + zlast f = nn - 1 /\ a = zrange 0 (nn - zlast f) 1.
Proof.
  intros Hf H. unfold tts_fh_relative, tts_fh_relative_at in H.
  destruct ((0 <? zfirst f) && (zlast f <? nn)) eqn:E; [|discriminate].
  apply andb_prop in E. destruct E as [E1 E2]. injection H as <- <-. repeat split.
  - apply split_ok_intro; [exact Hf|lia|lia].
  - rewrite split_cutoff_test by apply Hf. lia.
  - f_equal. lia.
Qed.

Theorem tts_fh_absolute_sound lo nn f a b : f <> [] -> sorted_lt f ->
  tts_fh_absolute lo nn f = Ok (a, b) ->
  b = f /\ (forall x, In x a <-> lo <= x < zfirst f) /\
  (forall x y, In x a -> In y b -> x < y) /\ (forall y, In y b -> lo <= y < lo + nn).
Proof.
  intros Hne Hs H. unfold tts_fh_absolute in H.
  destruct ((lo <? zfirst f) && (zlast f <? lo + nn)) eqn:E; [|discriminate].
  apply andb_prop in E. destruct E as [E1 E2]. injection H as <- <-.
  split; [reflexivity|]. split; [intro x; apply zrange1_in|]. split.
  - intros x y Hx Hy. apply zrange1_in in Hx. pose proof (sorted_lt_first_min f y Hs Hy). lia.
  - intros y Hy. pose proof (sorted_lt_first_min f y Hs Hy). pose proof (sorted_lt_last_max f y Hs Hy). lia.
Qed.

(* the same about the regenerated _split_by_fh, for a series labelled lo .. lo+n-1 *)
Lemma code_tts_fh_relative lo nn f : valid_fh f -> zlast f < nn ->
  exists a b, gen_split_by_fh (zrange lo (lo + nn) 1) true nn f tt = Ok (a, b) /\
    a = zrange lo (lo + nn - zlast f) 1 /\ b = map (fun h => lo + nn - zlast f - 1 + h) f /\
    (forall x y, In x a -> In y b -> x < y) /\ (forall y, In y b -> lo <= y < lo + nn).
Proof.
  intros Hf Hn. rewrite bridge_tts_fh_relative by assumption. unfold tts_fh_relative_at.
  pose proof Hf as (Hne & Hs & H1). pose proof (valid_fh_last_pos f Hf) as Hl.
  destruct (0 <? zfirst f) eqn:E1; [|lia]. destruct (zlast f <? nn) eqn:E2; [|lia]. cbn [andb].
  eexists _, _. split; [reflexivity|]. split; [f_equal; lia|]. split; [reflexivity|]. split.
  - intros x y Hx Hy. apply zrange1_in in Hx. apply in_map_iff in Hy. destruct Hy as [h [<- Hh]].
    pose proof (valid_fh_pos f h Hf Hh). lia.
  - intros y Hy. apply in_map_iff in Hy. destruct Hy as [h [<- Hh]].
    pose proof (valid_fh_pos f h Hf Hh). pose proof (valid_fh_le_last f h Hf Hh). lia.
Qed.

Lemma code_tts_fh_absolute lo nn f : f <> [] -> sorted_lt f -> lo < zfirst f -> zlast f < lo + nn ->
  exists a, gen_split_by_fh (zrange lo (lo + nn) 1) false nn f tt = Ok (a, f) /\
    (forall x, In x a <-> lo <= x < zfirst f).
Proof.
  intros Hne Hs H1 H2. rewrite bridge_tts_fh_absolute by assumption. unfold tts_fh_absolute.
  destruct (lo <? zfirst f) eqn:E1; [|lia]. destruct (zlast f <? lo + nn) eqn:E2; [|lia]. cbn [andb].
  eexists. split; [reflexivity|]. intro x. apply zrange1_in.
Qed.

(* non-vacuity: a concrete non-trivial configuration meets every hypothesis *)
Definition ex_cfg : cfg := {| n := 12; fh := [1; 3]; wl := 3; step := 2; iw := Some 5; sww := true |}.
Example ex_cfg_valid : valid ex_cfg /\ feasible ex_cfg = true /\
  window_split Sliding ex_cfg =
    Ok [([0;1;2;3;4], [5;7]); ([4;5;6], [7;9]); ([6;7;8], [9;11])].
Proof.
  split; [|split; reflexivity].
  repeat split; cbn; try lia; try discriminate. intros i H. injection H as <-. lia.
Qed.

(* ---- the same statements about the REGENERATED code (Gen.v), through the bridge ---------------- *)

Definition code_sliding (c : cfg) : res (list split) :=
  gen_split_filter (gen_window_split gen_sliding_windows (wl c) (step c) (iw c) (sww c) (fh c)) (n c).
Definition code_expanding (c : cfg) : res (list split) :=
  gen_split_filter (gen_window_split gen_expanding_windows (wl c) (step c) (iw c) (sww c) (fh c)) (n c).
Definition code_cutoffs (c : cfg) : res (list Z) :=
  gen_window_cutoffs (wl c) (step c) (iw c) (sww c) (fh c) (n c).
Definition code_n_splits (c : cfg) : res Z :=
  gen_window_n_splits (wl c) (step c) (iw c) (sww c) (fh c) (n c).

Lemma code_sliding_sound c l : valid c -> code_sliding c = Ok l ->
  Forall (split_ok (n c) (fh c)) l.
Proof. unfold code_sliding. intros Hv H. rewrite bridge_sliding in H by exact Hv.
  exact (window_split_sound Sliding c l Hv H). Qed.

Lemma code_expanding_sound c l : valid c -> iw c = None -> code_expanding c = Ok l ->
  Forall (split_ok (n c) (fh c)) l /\
  Forall (fun s => exists cut, fst s = zrange 0 (cut + 1) 1 /\ snd s = map (fun h => cut + h) (fh c)) l.
Proof. unfold code_expanding. intros Hv Hn H. rewrite bridge_expanding in H by assumption. split.
  - exact (window_split_sound Expanding c l Hv H).
  - exact (expanding_from_first c l Hv Hn H). Qed.

Lemma code_sliding_lengths c l : valid c -> sww c = true -> code_sliding c = Ok l ->
  exists init rest, l = init ++ rest /\
    Forall (fun s => Z.of_nat (length (fst s)) = wl c) rest /\
    match iw c with
    | Some i => exists s0, init = [s0] /\ Z.of_nat (length (fst s0)) = i
    | None => init = []
    end.
Proof. unfold code_sliding. intros Hv Hs H. rewrite bridge_sliding in H by exact Hv.
  exact (sliding_window_lengths c l Hv Hs H). Qed.

Lemma code_reported_eq_yielded c l : valid c ->
  (code_sliding c = Ok l \/ (iw c = None /\ code_expanding c = Ok l)) ->
  exists cs, code_cutoffs c = Ok cs /\ map (split_cutoff (fh c)) l = cs /\
             code_n_splits c = Ok (Z.of_nat (length l)) /\
             cs <> [] /\ zfirst cs = first_cutoff c /\
             (forall i : nat, (S i < length cs)%nat -> nth (S i) cs 0 - nth i cs 0 = step c) /\
             zlast cs + fhmax c <= n c - 1 < zlast cs + step c + fhmax c.
Proof.
  intros Hv H. unfold code_cutoffs, code_n_splits.
  rewrite bridge_window_cutoffs, bridge_window_n_splits by exact Hv.
  exists (window_cutoffs c).
  assert (Hk : exists k, window_split k c = Ok l).
  { destruct H as [H|[Hn H]].
    - exists Sliding. unfold code_sliding in H. rewrite bridge_sliding in H by exact Hv. exact H.
    - exists Expanding. unfold code_expanding in H. rewrite bridge_expanding in H by assumption. exact H. }
  destruct Hk as [k Hk]. destruct (reported_eq_yielded k c l Hv Hk) as [H1 H2].
  assert (Hf : feasible c = true).
  { unfold window_split in Hk. destruct (feasible c); [reflexivity|discriminate]. }
  destruct (cutoffs_progression c Hv Hf) as (P1 & P2 & P3 & P4).
  split; [reflexivity|]. split; [exact H1|]. split; [rewrite H2; reflexivity|].
  repeat split; assumption || apply P4.
Qed.

Lemma code_rejects_iff c : valid c ->
  (code_sliding c = Err <->
   (wl c + fhmax c > n c \/
    exists i, iw c = Some i /\ (i + fhmax c > n c \/ sww c = false \/ i <= wl c))).
Proof. unfold code_sliding. intro Hv. rewrite bridge_sliding by exact Hv.
  apply rejects_iff_infeasible. Qed.

Lemma code_single_sound nn f wlo : valid_fh f -> zlast f < nn -> (forall w, wlo = Some w -> 1 <= w) ->
  exists l, gen_split_filter (gen_single_split f wlo) nn = Ok l /\
    Forall (split_ok nn f) l /\
    exists cut, gen_single_cutoffs f nn = Ok [cut] /\ map (split_cutoff f) l = [cut] /\
                cut + zlast f = nn - 1.
Proof.
  intros Hf Hn Hw. rewrite bridge_single by (try assumption; lia).
  rewrite bridge_single_cutoffs by exact Hf.
  destruct (single_sound nn f wlo Hf Hn Hw) as (H1 & H2 & H3).
  eexists. split; [reflexivity|]. split; [exact H1|]. eexists. repeat split; eassumption.
Qed.

Lemma code_cutoff_sound nn f w cs l : valid_fh f -> 1 <= w -> (forall c, In c cs -> 0 <= c) ->
  gen_split_filter (gen_cutoff_split cs f w) nn = Ok l ->
  Forall (split_ok nn f) l /\ map (split_cutoff f) l = gen_cutoff_cutoffs cs /\
  Z.of_nat (length l) = gen_cutoff_n_splits cs.
Proof.
  intros Hf Hw Hcs H. rewrite bridge_cutoff in H by assumption.
  destruct (cutoff_sound nn f w cs l Hf Hw Hcs H) as [H1 H2].
  split; [exact H1|]. split; [exact H2|]. unfold gen_cutoff_n_splits. rewrite <- H2, map_length.
  reflexivity.
Qed.
