(* C01 proofs, part 2: the cutoff splitter with cutoffs in any order, the dispatch of
   temporal_train_test_split and the exogenous slices of its horizon form - about the code
   regenerated into Gen2.v (through Bridge2.v). *)
From Coq Require Import ZArith List Bool Lia ZifyBool Sorted Permutation.
Require Import SkV.Lib.Base SkV.Lib.ZRange SkV.Lib.Slice SkV.C01.Model SkV.C01.Model2 SkV.C01.Gen
  SkV.C01.Bridge SkV.C01.Proofs SkV.C01.Gen2 SkV.C01.Bridge2.
Import ListNotations.
Open Scope Z_scope.

(* ---- np.sort --------------------------------------------------------------------------------------- *)
Lemma cinsert_perm x l : Permutation (cinsert x l) (x :: l).
Proof.
  induction l as [|a t IH]; cbn; [apply Permutation_refl|]. destruct (x <=? a); [apply Permutation_refl|].
  eapply Permutation_trans; [apply perm_skip, IH|apply perm_swap].
Qed.
Lemma csort_perm l : Permutation (csort l) l.
Proof.
  unfold csort. induction l as [|a t IH]; cbn; [constructor|].
  eapply Permutation_trans; [apply cinsert_perm|apply perm_skip, IH].
Qed.
Lemma cinsert_sorted x l : LocallySorted Z.le l -> LocallySorted Z.le (cinsert x l).
Proof.
  induction l as [|a t IH]; intro H; cbn.
  - constructor.
  - destruct (x <=? a) eqn:E.
    + constructor; [exact H|lia].
    + assert (Ht : LocallySorted Z.le t) by (inversion H; subst; [constructor|assumption]).
      specialize (IH Ht). destruct t as [|b u]; cbn in *.
      * repeat constructor. lia.
      * assert (a <= b) by (inversion H; subst; assumption).
        destruct (x <=? b) eqn:E2; constructor; try assumption; lia.
Qed.
Lemma csort_sorted l : LocallySorted Z.le (csort l).
Proof. unfold csort. induction l as [|a t IH]; cbn; [constructor|apply cinsert_sorted, IH]. Qed.

(* ---- CutoffSplitter, cutoffs in any order ---------------------------------------------------------- *)
(* every split is sound; the splits come in increasing order of the given cutoffs, each exactly once *)
Theorem cutoff_any_sound nn f w cs l : valid_fh f -> 1 <= w -> (forall c, In c cs -> 0 <= c) ->
  cutoff_split_any nn f w cs = Ok l ->
  Forall (split_ok nn f) l /\ map (split_cutoff f) l = csort cs /\
  Permutation (map (split_cutoff f) l) cs /\ LocallySorted Z.le (map (split_cutoff f) l) /\ cs <> [].
Proof.
  intros Hf Hw Hcs H. unfold cutoff_split_any in H.
  destruct (checked_cutoffs cs) as [s|] eqn:E; [|discriminate].
  apply checked_cutoffs_ok in E. destruct E as [-> Hne].
  assert (Hs : forall c, In c (csort cs) -> 0 <= c).
  { intros c Hc. apply Hcs. apply (proj1 (csort_In cs c)). exact Hc. }
  destruct (cutoff_sound nn f w (csort cs) l Hf Hw Hs H) as [H1 H2].
  repeat split; try assumption.
  - rewrite H2. apply csort_perm.
  - rewrite H2. apply csort_sorted.
Qed.

Theorem cutoff_any_rejects_iff nn f w cs :
  cutoff_split_any nn f w cs = Err <->
  (cs = [] \/ zmax_list (csort cs) >= nn \/ zmax_list (csort cs) + zmax_list f >= nn).
Proof.
  unfold cutoff_split_any, checked_cutoffs. destruct cs as [|c t].
  - split; [intros _; left; reflexivity|reflexivity].
  - rewrite cutoff_rejects_iff. split; [intro H; right; exact H|].
    intros [H|H]; [discriminate|exact H].
Qed.

(* what the splitter reports = what it yields (get_cutoffs sorts too) *)
Theorem cutoff_any_reports nn f w cs l : valid_fh f -> 1 <= w -> (forall c, In c cs -> 0 <= c) ->
  cutoff_split_any nn f w cs = Ok l ->
  checked_cutoffs cs = Ok (map (split_cutoff f) l) /\
  Z.of_nat (length l) = Z.of_nat (length cs).
Proof.
  intros Hf Hw Hcs H. destruct (cutoff_any_sound nn f w cs l Hf Hw Hcs H) as (_ & H2 & H3 & _ & Hne).
  split.
  - rewrite H2. unfold checked_cutoffs. destruct cs; [congruence|reflexivity].
  - rewrite <- (map_length (split_cutoff f) l). rewrite (Permutation_length H3). reflexivity.
Qed.

(* ---- temporal_train_test_split: dispatch -------------------------------------------------------- *)
Theorem tts_dispatch_spec lo nn fho te tr :
  (* a horizon together with a size argument is rejected *)
  (forall rf, fho = Some rf -> (te <> None \/ tr <> None) -> tts_dispatch lo nn fho te tr = Err) /\
  (* the horizon form *)
  (forall rel f, fho = Some (rel, f) -> te = None -> tr = None ->
     tts_dispatch lo nn fho te tr = if rel then tts_fh_relative_at lo nn f else tts_fh_absolute lo nn f) /\
  (* the size form *)
  (fho = None -> tts_dispatch lo nn fho te tr = tts_positions nn te tr).
Proof.
  repeat split.
  - intros [rel f] -> H. cbn. destruct te; [reflexivity|]. destruct tr; [reflexivity|]. destruct H; congruence.
  - intros rel f -> -> ->. reflexivity.
  - intros ->. reflexivity.
Qed.

(* ---- horizon form with exogenous data ------------------------------------------------------------- *)
Theorem tts_fh_relative_X_sound lo nn f ytr yte xtr xte : valid_fh f ->
  tts_fh_relative_X lo nn f = Ok ((ytr, yte), (xtr, xte)) ->
  xtr = ytr /\ ytr = zrange lo (lo + nn - zlast f) 1 /\
  xte = zrange (lo + nn - zlast f) (lo + nn) 1 /\
  ytr ++ xte = zrange lo (lo + nn) 1 /\                     (* X is partitioned at the cutoff *)
  (forall y, In y yte -> In y xte) /\                        (* every test label has its X row *)
  (forall a b, In a xtr -> In b xte -> a < b).
Proof.
  intros Hf H. unfold tts_fh_relative_X, tts_fh_relative_at in H.
  destruct ((0 <? zfirst f) && (zlast f <? nn)) eqn:E; [|discriminate].
  apply andb_prop in E. destruct E as [E1 E2]. injection H as <- <- <- <-.
  pose proof (valid_fh_last_pos f Hf) as Hl.
  assert (Ecut : lo + nn - zlast f - 1 + 1 = lo + nn - zlast f) by lia. rewrite Ecut.
  repeat split.
  - apply zrange_app1; lia.
  - intros y Hy. apply in_map_iff in Hy. destruct Hy as [h [<- Hh]].
    pose proof (valid_fh_pos f h Hf Hh). pose proof (valid_fh_le_last f h Hf Hh).
    apply zrange1_in. lia.
  - intros a b Ha Hb. apply zrange1_in in Ha. apply zrange1_in in Hb. lia.
Qed.

Theorem tts_fh_absolute_X_sound lo nn f ytr yte xtr xte : f <> [] -> sorted_lt f ->
  tts_fh_absolute_X lo nn f = Ok ((ytr, yte), (xtr, xte)) ->
  xtr = ytr /\ yte = f /\ xte = zrange (zfirst f) (zlast f + 1) 1 /\
  (forall y, In y yte -> In y xte) /\ (forall a b, In a xtr -> In b xte -> a < b) /\
  (forall b, In b xte -> lo <= b < lo + nn).
Proof.
  intros Hne Hs H. unfold tts_fh_absolute_X, tts_fh_absolute in H.
  destruct ((lo <? zfirst f) && (zlast f <? lo + nn)) eqn:E; [|discriminate].
  apply andb_prop in E. destruct E as [E1 E2]. injection H as <- <- <- <-.
  repeat split.
  - intros y Hy. apply zrange1_in.
    pose proof (sorted_lt_first_min f y Hs Hy). pose proof (sorted_lt_last_max f y Hs Hy). lia.
  - intros a b Ha Hb. apply zrange1_in in Ha. apply zrange1_in in Hb. lia.
  - apply zrange1_in in H. lia.
  - apply zrange1_in in H.
    pose proof (sorted_lt_last_max f _ Hs (zlast_in f Hne)).
    pose proof (sorted_lt_first_min f _ Hs (zlast_in f Hne)). lia.
Qed.

(* ---- the same, about the regenerated code --------------------------------------------------------- *)
Definition code_cutoff_any (nn : Z) (f : list Z) (w : Z) (cs : list Z) : res (list split) :=
  gen_split_filter (gen_cutoff_split_any cs f w) nn.

Lemma code_cutoff_any_sound nn f w cs l : valid_fh f -> 1 <= w -> (forall c, In c cs -> 0 <= c) ->
  code_cutoff_any nn f w cs = Ok l ->
  Forall (split_ok nn f) l /\ Permutation (map (split_cutoff f) l) cs /\
  LocallySorted Z.le (map (split_cutoff f) l) /\
  gen_cutoff_cutoffs_any cs = Ok (map (split_cutoff f) l) /\
  Z.of_nat (length l) = gen_cutoff_n_splits cs.
Proof.
  intros Hf Hw Hcs H. unfold code_cutoff_any in H. rewrite bridge_cutoff_any in H by assumption.
  destruct (cutoff_any_sound nn f w cs l Hf Hw Hcs H) as (H1 & _ & H3 & H4 & _).
  destruct (cutoff_any_reports nn f w cs l Hf Hw Hcs H) as [H5 H6].
  repeat split; try assumption.
  rewrite (proj1 (bridge_cutoff_reports_any cs)). exact H5.
Qed.

Lemma code_cutoff_any_rejects_iff nn f w cs : valid_fh f -> (forall c, In c cs -> 0 <= c) ->
  (code_cutoff_any nn f w cs = Err <->
   (cs = [] \/ zmax_list (csort cs) >= nn \/ zmax_list (csort cs) + zmax_list f >= nn)).
Proof.
  intros Hf Hcs. unfold code_cutoff_any. rewrite bridge_cutoff_any by assumption.
  apply cutoff_any_rejects_iff.
Qed.

Lemma code_tts_dispatch lo nn (rel : bool) f te tr :
  (if rel then valid_fh f /\ zlast f < nn
   else f <> [] /\ sorted_lt f /\ lo < zfirst f /\ zlast f < lo + nn) ->
  (* horizon and sizes together: rejected *)
  ((te <> None \/ tr <> None) ->
   gen_tts tts_positions (zrange lo (lo + nn) 1) rel nn tt te tr (Some f) = Err) /\
  (* horizon only: the horizon split *)
  gen_tts tts_positions (zrange lo (lo + nn) 1) rel nn tt None None (Some f) =
    (if rel then tts_fh_relative_at lo nn f else tts_fh_absolute lo nn f) /\
  (* no horizon: the size split *)
  gen_tts tts_positions (zrange lo (lo + nn) 1) rel nn tt te tr None = tts_positions nn te tr.
Proof.
  intro H. split; [|split].
  - intro Hs. rewrite (bridge_tts lo nn rel (Some f) te tr) by (intros g Hg; injection Hg as <-; exact H).
    cbn. destruct te; [reflexivity|]. destruct tr; [reflexivity|]. destruct Hs; congruence.
  - rewrite (bridge_tts lo nn rel (Some f) None None) by (intros g Hg; injection Hg as <-; exact H).
    reflexivity.
  - rewrite (bridge_tts lo nn rel None te tr) by (intros g Hg; discriminate). reflexivity.
Qed.

Lemma code_tts_fh_relative_X lo nn f : valid_fh f -> zlast f < nn ->
  exists ytr yte xtr xte,
    gen_split_by_fh_X (zrange lo (lo + nn) 1) true nn f tt = Ok ((ytr, yte), (xtr, xte)) /\
    xtr = ytr /\ ytr ++ xte = zrange lo (lo + nn) 1 /\
    (forall y, In y yte -> In y xte) /\ (forall a b, In a xtr -> In b xte -> a < b).
Proof.
  intros Hf Hn. rewrite bridge_tts_fh_relative_X by assumption.
  destruct (tts_fh_relative_X lo nn f) as [[[ytr yte] [xtr xte]]|] eqn:E.
  - destruct (tts_fh_relative_X_sound lo nn f ytr yte xtr xte Hf E) as (H1 & H2 & H3 & H4 & H5 & H6).
    exists ytr, yte, xtr, xte. repeat split; assumption.
  - exfalso. unfold tts_fh_relative_X, tts_fh_relative_at in E.
    pose proof Hf as (_ & _ & H1). destruct (0 <? zfirst f) eqn:E1; [|lia].
    destruct (zlast f <? nn) eqn:E2; [|lia]. discriminate.
Qed.

Lemma code_tts_fh_absolute_X lo nn f : f <> [] -> sorted_lt f -> lo < zfirst f -> zlast f < lo + nn ->
  exists ytr xtr xte,
    gen_split_by_fh_X (zrange lo (lo + nn) 1) false nn f tt = Ok ((ytr, f), (xtr, xte)) /\
    xtr = ytr /\ (forall y, In y f -> In y xte) /\ (forall a b, In a xtr -> In b xte -> a < b) /\
    (forall b, In b xte -> lo <= b < lo + nn).
Proof.
  intros Hne Hs H1 H2. rewrite bridge_tts_fh_absolute_X by assumption.
  destruct (tts_fh_absolute_X lo nn f) as [[[ytr yte] [xtr xte]]|] eqn:E.
  - destruct (tts_fh_absolute_X_sound lo nn f ytr yte xtr xte Hne Hs E) as (A & B & C & D & F & G).
    subst yte. exists ytr, xtr, xte. split; [reflexivity|]. split; [exact A|]. split; [exact D|].
    split; [exact F|exact G].
  - exfalso. unfold tts_fh_absolute_X, tts_fh_absolute in E.
    destruct (lo <? zfirst f) eqn:E1; [|lia]. destruct (zlast f <? lo + nn) eqn:E2; [|lia]. discriminate.
Qed.
