(* C01 property theorems.  Nothing but statements closed by `exact`, each followed by
   Print Assumptions.  `code_*` are the functions regenerated from _split.py on this run. *)
From Coq Require Import ZArith List Bool.
From Coq Require Import Sorted Permutation.
Require Import SkV.Lib.Base SkV.Lib.ZRange SkV.C01.Model SkV.C01.Gen SkV.C01.Bridge SkV.C01.Proofs.
Require Import SkV.C01.Model2 SkV.C01.Gen2 SkV.C01.Bridge2 SkV.C01.Proofs2.
Import ListNotations.
Open Scope Z_scope.

(* every sliding split: contiguous window ending at a cutoff, test = cutoff + fh, all positions in
   [0, n), no training position at or after a test position *)
Theorem C01_sliding_sound : forall c l, valid c -> code_sliding c = Ok l ->
  Forall (split_ok (n c) (fh c)) l.
Proof. exact code_sliding_sound. Qed.
Print Assumptions C01_sliding_sound.

(* expanding windows: the same, and every window starts at the first observation *)
Theorem C01_expanding_sound : forall c l, valid c -> iw c = None -> code_expanding c = Ok l ->
  Forall (split_ok (n c) (fh c)) l /\
  Forall (fun s => exists cut, fst s = zrange 0 (cut + 1) 1 /\ snd s = map (fun h => cut + h) (fh c)) l.
Proof. exact code_expanding_sound. Qed.
Print Assumptions C01_expanding_sound.

(* sliding windows have exactly the requested length (the initial window exactly its own) *)
Theorem C01_sliding_lengths : forall c l, valid c -> sww c = true -> code_sliding c = Ok l ->
  exists init rest, l = init ++ rest /\
    Forall (fun s => Z.of_nat (length (fst s)) = wl c) rest /\
    match iw c with
    | Some i => exists s0, init = [s0] /\ Z.of_nat (length (fst s0)) = i
    | None => init = []
    end.
Proof. exact code_sliding_lengths. Qed.
Print Assumptions C01_sliding_lengths.

(* reported cutoffs / n_splits are exactly those yielded; cutoffs advance by exactly `step` from the
   first feasible cutoff to the last feasible one *)
Theorem C01_reported_eq_yielded_and_progression : forall c l, valid c ->
  (code_sliding c = Ok l \/ (iw c = None /\ code_expanding c = Ok l)) ->
  exists cs, code_cutoffs c = Ok cs /\ map (split_cutoff (fh c)) l = cs /\
             code_n_splits c = Ok (Z.of_nat (length l)) /\
             cs <> [] /\ zfirst cs = first_cutoff c /\
             (forall i : nat, (S i < length cs)%nat -> nth (S i) cs 0 - nth i cs 0 = step c) /\
             zlast cs + fhmax c <= n c - 1 < zlast cs + step c + fhmax c.
Proof. exact code_reported_eq_yielded. Qed.
Print Assumptions C01_reported_eq_yielded_and_progression.

(* closed form for the number of splits *)
Theorem C01_n_splits_formula : forall c, valid c -> feasible c = true ->
  window_n_splits c = (n c - fhmax c - first_cutoff c + step c - 1) / step c /\
  1 <= window_n_splits c.
Proof. exact n_splits_formula. Qed.
Print Assumptions C01_n_splits_formula.

(* a configuration is rejected exactly when a window does not fit *)
Theorem C01_rejects_iff_infeasible : forall c, valid c ->
  (code_sliding c = Err <->
   (wl c + fhmax c > n c \/
    exists i, iw c = Some i /\ (i + fhmax c > n c \/ sww c = false \/ i <= wl c))).
Proof. exact code_rejects_iff. Qed.
Print Assumptions C01_rejects_iff_infeasible.

Theorem C01_single_sound : forall nn f wlo,
  valid_fh f -> zlast f < nn -> (forall w, wlo = Some w -> 1 <= w) ->
  exists l, gen_split_filter (gen_single_split f wlo) nn = Ok l /\
    Forall (split_ok nn f) l /\
    exists cut, gen_single_cutoffs f nn = Ok [cut] /\ map (split_cutoff f) l = [cut] /\
                cut + zlast f = nn - 1.
Proof. exact code_single_sound. Qed.
Print Assumptions C01_single_sound.

Theorem C01_cutoff_sound : forall nn f w cs l,
  valid_fh f -> 1 <= w -> (forall c, In c cs -> 0 <= c) ->
  gen_split_filter (gen_cutoff_split cs f w) nn = Ok l ->
  Forall (split_ok nn f) l /\ map (split_cutoff f) l = gen_cutoff_cutoffs cs /\
  Z.of_nat (length l) = gen_cutoff_n_splits cs.
Proof. exact code_cutoff_sound. Qed.
Print Assumptions C01_cutoff_sound.

(* temporal_train_test_split (hand model, tied by correspondence): ordered prefix partition *)
Theorem C01_tts_partition : forall nn te tr a b, tts_positions nn te tr = Ok (a, b) ->
  a ++ b = zrange 0 (Z.of_nat (length a) + Z.of_nat (length b)) 1 /\
  0 < Z.of_nat (length a) /\ 0 < Z.of_nat (length b) /\
  Z.of_nat (length a) + Z.of_nat (length b) <= nn /\
  (forall t, te = Some t -> Z.of_nat (length b) = t) /\
  (forall t, tr = Some t -> Z.of_nat (length a) = t) /\
  (te = None \/ tr = None -> Z.of_nat (length a) + Z.of_nat (length b) = nn) /\
  (forall x y, In x a -> In y b -> x < y).
Proof. exact tts_partition. Qed.
Print Assumptions C01_tts_partition.

Theorem C01_tts_fh_sound : forall nn f a b, valid_fh f -> tts_fh_relative nn f = Ok (a, b) ->
  split_ok nn f (a, b) /\ split_cutoff f (a, b) + zlast f = nn - 1 /\ a = zrange 0 (nn - zlast f) 1.
Proof. exact tts_fh_sound. Qed.
Print Assumptions C01_tts_fh_sound.

Theorem C01_tts_fh_absolute_sound : forall lo nn f a b, f <> [] -> sorted_lt f ->
  tts_fh_absolute lo nn f = Ok (a, b) ->
  b = f /\ (forall x, In x a <-> lo <= x < zfirst f) /\
  (forall x y, In x a -> In y b -> x < y) /\ (forall y, In y b -> lo <= y < lo + nn).
Proof. exact tts_fh_absolute_sound. Qed.
Print Assumptions C01_tts_fh_absolute_sound.

(* ... and about the regenerated _split_by_fh itself (X = None), series labelled lo .. lo+n-1 *)
Theorem C01_code_tts_fh_relative : forall lo nn f, valid_fh f -> zlast f < nn ->
  exists a b, gen_split_by_fh (zrange lo (lo + nn) 1) true nn f tt = Ok (a, b) /\
    a = zrange lo (lo + nn - zlast f) 1 /\ b = map (fun h => lo + nn - zlast f - 1 + h) f /\
    (forall x y, In x a -> In y b -> x < y) /\ (forall y, In y b -> lo <= y < lo + nn).
Proof. exact code_tts_fh_relative. Qed.
Print Assumptions C01_code_tts_fh_relative.

Theorem C01_code_tts_fh_absolute : forall lo nn f,
  f <> [] -> sorted_lt f -> lo < zfirst f -> zlast f < lo + nn ->
  exists a, gen_split_by_fh (zrange lo (lo + nn) 1) false nn f tt = Ok (a, f) /\
    (forall x, In x a <-> lo <= x < zfirst f).
Proof. exact code_tts_fh_absolute. Qed.
Print Assumptions C01_code_tts_fh_absolute.

(* hypotheses are satisfiable by a non-trivial configuration *)
(* ---- second generation: check_cutoffs as code, the dispatch of temporal_train_test_split and its
   exogenous slices (Gen2.v, regenerated on this run) -------------------------------------------- *)

(* CutoffSplitter with cutoffs in any order: every split sound; the splits come in increasing order
   of the given cutoffs, each exactly once; get_cutoffs / get_n_splits report exactly those *)
Theorem C01_cutoff_any_sound : forall nn f w cs l,
  valid_fh f -> 1 <= w -> (forall c, In c cs -> 0 <= c) -> code_cutoff_any nn f w cs = Ok l ->
  Forall (split_ok nn f) l /\ Permutation (map (split_cutoff f) l) cs /\
  LocallySorted Z.le (map (split_cutoff f) l) /\
  gen_cutoff_cutoffs_any cs = Ok (map (split_cutoff f) l) /\
  Z.of_nat (length l) = gen_cutoff_n_splits cs.
Proof. exact code_cutoff_any_sound. Qed.
Print Assumptions C01_cutoff_any_sound.

Theorem C01_cutoff_any_rejects_iff : forall nn f w cs,
  valid_fh f -> (forall c, In c cs -> 0 <= c) ->
  (code_cutoff_any nn f w cs = Err <->
   (cs = [] \/ zmax_list (csort cs) >= nn \/ zmax_list (csort cs) + zmax_list f >= nn)).
Proof. exact code_cutoff_any_rejects_iff. Qed.
Print Assumptions C01_cutoff_any_rejects_iff.

(* temporal_train_test_split: horizon and sizes exclude each other; otherwise the horizon split /
   the size split (sklearn's unshuffled splitter = the size rule of C01_tts_partition) *)
Theorem C01_tts_dispatch : forall lo nn (rel : bool) f te tr,
  (if rel then valid_fh f /\ zlast f < nn
   else f <> [] /\ sorted_lt f /\ lo < zfirst f /\ zlast f < lo + nn) ->
  ((te <> None \/ tr <> None) ->
   gen_tts tts_positions (zrange lo (lo + nn) 1) rel nn tt te tr (Some f) = Err) /\
  gen_tts tts_positions (zrange lo (lo + nn) 1) rel nn tt None None (Some f) =
    (if rel then tts_fh_relative_at lo nn f else tts_fh_absolute lo nn f) /\
  gen_tts tts_positions (zrange lo (lo + nn) 1) rel nn tt te tr None = tts_positions nn te tr.
Proof. exact code_tts_dispatch. Qed.
Print Assumptions C01_tts_dispatch.

(* horizon form with exogenous data: X_train carries y_train's labels, X is partitioned at the
   cutoff, every test label has its X row, no X_train row at or after an X_test row *)
Theorem C01_tts_fh_X_relative : forall lo nn f, valid_fh f -> zlast f < nn ->
  exists ytr yte xtr xte,
    gen_split_by_fh_X (zrange lo (lo + nn) 1) true nn f tt = Ok ((ytr, yte), (xtr, xte)) /\
    xtr = ytr /\ ytr ++ xte = zrange lo (lo + nn) 1 /\
    (forall y, In y yte -> In y xte) /\ (forall a b, In a xtr -> In b xte -> a < b).
Proof. exact code_tts_fh_relative_X. Qed.
Print Assumptions C01_tts_fh_X_relative.

Theorem C01_tts_fh_X_absolute : forall lo nn f,
  f <> [] -> sorted_lt f -> lo < zfirst f -> zlast f < lo + nn ->
  exists ytr xtr xte,
    gen_split_by_fh_X (zrange lo (lo + nn) 1) false nn f tt = Ok ((ytr, f), (xtr, xte)) /\
    xtr = ytr /\ (forall y, In y f -> In y xte) /\ (forall a b, In a xtr -> In b xte -> a < b) /\
    (forall b, In b xte -> lo <= b < lo + nn).
Proof. exact code_tts_fh_absolute_X. Qed.
Print Assumptions C01_tts_fh_X_absolute.

Example C01_nonvacuous : valid ex_cfg /\ feasible ex_cfg = true /\
  window_split Sliding ex_cfg = Ok [([0;1;2;3;4], [5;7]); ([4;5;6], [7;9]); ([6;7;8], [9;11])].
Proof. exact ex_cfg_valid. Qed.
