(* C02 bridge: the functions regenerated from _fh.py / validation/forecasting.py (Gen.v) equal the
   hand model (Model.v) on every well-formed horizon, for every cutoff (including None), and the
   property statements transferred to the regenerated code (`code_*`).  These lemmas are the proof
   obligations that tie the theorems of Props.v to what the code says now. *)
From Coq Require Import ZArith QArith List Bool Lia ZifyBool Permutation.
Require Import SkV.Lib.Base SkV.Lib.ZRange SkV.C02.Model SkV.C02.Proofs SkV.C02.Gen.
Import ListNotations.
Open Scope Z_scope.

(* ---- constructor: _check_values and __init__ as regenerated = hand model, for EVERY input ------ *)

(* case analysis on every test the regenerated code makes, whatever comparison it is written with
   (`len(v) != v.nunique()`, `not n_unique == len(v)`, `len(fh) == 0`, `not len(fh) > 0`, ...) *)
Ltac split_tests :=
  cbv zeta;
  repeat match goal with
         | |- context [if ?b then _ else _] =>
             lazymatch b with
             | context [if _ then _ else _] => fail
             | _ => let E := fresh "E" in destruct b eqn:E
             end
         end.

Lemma bridge_check_values i : gen_check_values i = check_values i.
Proof.
  unfold gen_check_values, check_values, finish_index. cbv zeta.
  destruct i as [z|b|ns|ns| |l|a b s| ]; cbn [as_index as_int as_seq]; try reflexivity;
    (* shape after the fix for F-C02-1: an explicit string test before the coercion *)
    try (match goal with |- context [seq_has_str ?s] =>
           destruct (seq_has_str s) eqn:E;
           [pose proof (seq_has_str_err s E) as X; cbn [pd_int64index] in X; rewrite X|] end);
    cbn [pd_int64index]; try reflexivity;
    try (match goal with |- context [coerce_all ?l] => destruct (coerce_all l) end);
    try reflexivity; split_tests; try reflexivity; lia.
Qed.

Lemma bridge_init i r : gen_init i r = fh_init i r.
Proof.
  unfold gen_init, fh_init. destruct r as [b|]; cbn [as_bool]; [|reflexivity].
  rewrite bridge_check_values. destruct (check_values i); [|reflexivity]. destruct b; reflexivity.
Qed.

(* ---- self._new: re-validation of a well-formed index is the identity ------------------------- *)

Lemma bridge_new_copy f : wf f -> gen_new f None None = Ok f.
Proof.
  intro H. unfold gen_new, gen_is_relative. rewrite bridge_init, (fh_of_index_wf _ _ H).
  rewrite <- fh_eta. reflexivity.
Qed.

Lemma bridge_new_both f l b : sorted_lt l -> gen_new f (Some l) (Some b) = Ok (mkfh l b).
Proof. intro H. unfold gen_new. rewrite bridge_init. apply fh_of_index_wf. exact H. Qed.

Lemma bridge_new_values f l : sorted_lt l -> gen_new f (Some l) None = Ok (mkfh l (rel f)).
Proof. intro H. unfold gen_new, gen_is_relative. rewrite bridge_init. apply fh_of_index_wf. exact H. Qed.

Lemma bridge_check_cutoff c idx : gen_check_cutoff c idx = match c with Some _ => Ok tt | None => Err end.
Proof. reflexivity. Qed.

Lemma bridge_check_start s idx : gen_check_start s idx = Ok tt.
Proof. reflexivity. Qed.

(* ---- conversions ---------------------------------------------------------------------------- *)

Lemma bridge_to_relative f c : wf f -> gen_to_relative f c = to_relative c f.
Proof.
  intro H. unfold gen_to_relative, to_relative, gen_is_relative, gen_to_pandas.
  destruct (rel f) eqn:R; [apply bridge_new_copy; exact H|].
  destruct c as [c|]; cbn [gen_check_cutoff oz_get]; [|reflexivity].
  apply bridge_new_both. apply sorted_lt_map; [intros; lia|exact H].
Qed.

Lemma bridge_to_absolute f c : wf f -> gen_to_absolute f c = to_absolute c f.
Proof.
  intro H. unfold gen_to_absolute, to_absolute, gen_is_relative, gen_to_pandas.
  destruct (rel f) eqn:R; [|apply bridge_new_copy; exact H].
  destruct c as [c|]; cbn [gen_check_cutoff oz_get]; [|reflexivity].
  apply bridge_new_both. apply sorted_lt_map; [intros; lia|exact H].
Qed.

Lemma bridge_to_absolute_int f s c : wf f -> gen_to_absolute_int f s c = to_absolute_int s c f.
Proof.
  intro H. unfold gen_to_absolute_int, to_absolute_int. rewrite (bridge_to_absolute f c H).
  destruct (to_absolute c f) as [a|] eqn:A; [|reflexivity].
  destruct (to_absolute_wf c f a H A) as [Hw _]. unfold gen_to_pandas. cbn [gen_check_start].
  apply bridge_new_both. apply sorted_lt_map; [intros; lia|exact Hw].
Qed.

(* ---- masks, parts, predicates, indexers ------------------------------------------------------ *)
(* gen_is_in_sample / gen_is_out_of_sample are the masks to_in_sample / to_out_of_sample select with,
   regenerated from wherever the source computes them (a private method of any name, or in place);
   the public methods below always carry their masks inlined, so their lemmas are proved on the
   inlined code and do not go through these two. *)

Lemma bridge_is_in_sample f c : wf f -> gen_is_in_sample f c = rmap in_mask (steps c f).
Proof.
  intro H. unfold gen_is_in_sample, steps, gen_to_pandas. rewrite (bridge_to_relative f c H).
  destruct (to_relative c f); reflexivity.
Qed.

Lemma bridge_is_out_of_sample f c : wf f -> gen_is_out_of_sample f c = rmap out_mask (steps c f).
Proof.
  intro H. unfold gen_is_out_of_sample, steps, gen_to_pandas. rewrite (bridge_to_relative f c H).
  destruct (to_relative c f); reflexivity.
Qed.

Lemma bridge_to_in_sample f c : wf f -> gen_to_in_sample f c = to_in_sample c f.
Proof.
  intro H. unfold gen_to_in_sample, to_in_sample, gen_to_pandas. cbv zeta.
  rewrite (bridge_to_relative f c H).
  pose proof (parts_as_filters c f) as P. unfold steps in *.
  destruct (to_relative c f) as [r|]; [|reflexivity]. cbn [rmap] in *.
  apply bridge_new_values. destruct (P (vals r) eq_refl) as [E _].
  fold (in_mask (vals r)). rewrite E. apply sorted_lt_filter. exact H.
Qed.

Lemma bridge_to_out_of_sample f c : wf f -> gen_to_out_of_sample f c = to_out_of_sample c f.
Proof.
  intro H. unfold gen_to_out_of_sample, to_out_of_sample, gen_to_pandas. cbv zeta.
  rewrite (bridge_to_relative f c H).
  pose proof (parts_as_filters c f) as P. unfold steps in *.
  destruct (to_relative c f) as [r|]; [|reflexivity]. cbn [rmap] in *.
  apply bridge_new_values. destruct (P (vals r) eq_refl) as [_ E].
  fold (out_mask (vals r)). rewrite E. apply sorted_lt_filter. exact H.
Qed.

Lemma steps_length c f s : steps c f = Ok s -> zlen s = zlen (vals f).
Proof.
  unfold steps, to_relative, zlen. destruct (rel f).
  - intro H. inversion H. reflexivity.
  - destruct c; [|discriminate]. intro H. inversion H. cbn [vals]. rewrite map_length. reflexivity.
Qed.

Lemma bridge_is_all_in_sample f c : wf f -> gen_is_all_in_sample f c = is_all_in_sample c f.
Proof.
  intro H. unfold gen_is_all_in_sample, is_all_in_sample, gen_to_pandas. cbv zeta.
  rewrite (bridge_to_relative f c H).
  pose proof (steps_length c f) as L. unfold steps in *.
  destruct (to_relative c f) as [r|]; [|reflexivity]. cbn [rmap] in *.
  rewrite <- (L (vals r) eq_refl). rewrite count_true_all. reflexivity.
Qed.

Lemma bridge_is_all_out_of_sample f c : wf f -> gen_is_all_out_of_sample f c = is_all_out_of_sample c f.
Proof.
  intro H. unfold gen_is_all_out_of_sample, is_all_out_of_sample, gen_to_pandas. cbv zeta.
  rewrite (bridge_to_relative f c H).
  pose proof (steps_length c f) as L. unfold steps in *.
  destruct (to_relative c f) as [r|]; [|reflexivity]. cbn [rmap] in *.
  rewrite <- (L (vals r) eq_refl). rewrite count_true_all. reflexivity.
Qed.

Lemma bridge_to_indexer f c : wf f -> gen_to_indexer f c true = to_indexer c f.
Proof.
  intro H. unfold gen_to_indexer, to_indexer, steps, gen_to_pandas.
  rewrite (bridge_to_relative f c H). destruct (to_relative c f); reflexivity.
Qed.

Lemma bridge_to_indexer_first f c : wf f -> gen_to_indexer f c false = to_indexer_first c f.
Proof.
  intro H. unfold gen_to_indexer, to_indexer_first, steps, gen_to_pandas.
  rewrite (bridge_to_relative f c H). destruct (to_relative c f) as [g|]; [|reflexivity].
  cbn [rmap]. destruct (vals g); reflexivity.
Qed.

Lemma bridge_check_fh x e : gen_check_fh x e = check_fh x e.
Proof.
  unfold gen_check_fh, check_fh, gen_to_pandas, gen_is_relative.
  destruct x as [i|f]; [rewrite bridge_init; destruct (fh_init i (RBool true)) as [f|]|];
    try reflexivity; destruct e; destruct (rel f); cbn [negb andb];
    split_tests; try reflexivity; try discriminate; unfold zlen in *; lia.
Qed.

(* ---- the property's sentences, about the regenerated code ------------------------------------ *)

(* constructor (regenerated dispatch / duplicate check / sort / flag check over modelled pandas
   primitives) *)
Lemma code_init_sorted i r f : gen_init i r = Ok f -> sorted_lt (vals f).
Proof. rewrite bridge_init. apply init_sorted. Qed.

Lemma code_init_accepts_and_sorts i l b : holds_steps i l -> NoDup l ->
  exists f, gen_init i (RBool b) = Ok f /\ rel f = b /\
            sorted_lt (vals f) /\ Permutation (vals f) l /\ (forall x, In x (vals f) <-> In x l).
Proof. rewrite bridge_init. apply init_accepts_and_sorts. Qed.

Lemma code_init_sorted_verbatim i l b : holds_steps i l -> sorted_lt l ->
  gen_init i (RBool b) = Ok (mkfh l b).
Proof. rewrite bridge_init. apply init_sorted_verbatim. Qed.

Lemma code_init_rejects_duplicates i l r : holds_steps i l -> ~ NoDup l -> gen_init i r = Err.
Proof. rewrite bridge_init. apply init_rejects_duplicates. Qed.

Lemma code_init_rejects_fractional i ns q r : element_container i ns -> In (NFloat q) ns ->
  (forall z, ~ (q == inject_Z z)%Q) -> gen_init i r = Err.
Proof. rewrite bridge_init. apply init_rejects_fractional. Qed.

Lemma code_init_rejects_unsupported_element i ns n r : element_container i ns -> In n ns ->
  n = NStr \/ n = NNone \/ n = NNonFinite -> gen_init i r = Err.
Proof. rewrite bridge_init. apply init_rejects_unsupported_element. Qed.

Lemma code_init_rejects_unsupported_container r :
  gen_init IOther r = Err /\ gen_init IArrNd r = Err.
Proof. rewrite !bridge_init. apply init_rejects_unsupported_container. Qed.

Lemma code_init_rejects_bad_flag i : gen_init i RBad = Err.
Proof. rewrite bridge_init. apply init_rejects_bad_flag. Qed.

Lemma code_init_integral_floats (l : list Z) r :
  gen_init (IList (map (fun z => NFloat (inject_Z z)) l)) r = gen_init (IList (map NInt l)) r /\
  gen_init (IArr (map (fun z => NFloat (inject_Z z)) l)) r = gen_init (IIndex l) r.
Proof. rewrite !bridge_init. apply init_integral_floats. Qed.

(* absolute form = cutoff + steps, relative form = absolute - cutoff; order kept *)
Lemma code_absolute_is_cutoff_plus_steps f c : wf f -> rel f = true ->
  gen_to_absolute f (Some c) = Ok (mkfh (map (fun s => c + s) (vals f)) false) /\
  sorted_lt (map (fun s => c + s) (vals f)).
Proof.
  intros H R. rewrite (bridge_to_absolute f _ H). unfold to_absolute. rewrite R.
  split; [reflexivity|]. apply sorted_lt_map; [intros; lia|exact H].
Qed.

Lemma code_relative_is_absolute_minus_cutoff f c : wf f -> rel f = false ->
  gen_to_relative f (Some c) = Ok (mkfh (map (fun a => a - c) (vals f)) true) /\
  sorted_lt (map (fun a => a - c) (vals f)).
Proof.
  intros H R. rewrite (bridge_to_relative f _ H). unfold to_relative. rewrite R.
  split; [reflexivity|]. apply sorted_lt_map; [intros; lia|exact H].
Qed.

(* converting to the form a horizon already has is the identity, whatever the cutoff (even None) *)
Lemma code_same_form_identity f c : wf f ->
  (rel f = true -> gen_to_relative f c = Ok f) /\ (rel f = false -> gen_to_absolute f c = Ok f).
Proof.
  intro H. rewrite (bridge_to_relative f c H), (bridge_to_absolute f c H).
  unfold to_relative, to_absolute. split; intros ->; reflexivity.
Qed.

(* a cutoff is required exactly when the form changes *)
Lemma code_cutoff_required f : wf f ->
  (rel f = true -> gen_to_absolute f None = Err) /\ (rel f = false -> gen_to_relative f None = Err).
Proof.
  intro H. rewrite (bridge_to_relative f None H), (bridge_to_absolute f None H).
  unfold to_relative, to_absolute. split; intros ->; reflexivity.
Qed.

Lemma code_conversions_keep_order f c g : wf f ->
  (gen_to_absolute f c = Ok g -> wf g /\ rel g = false) /\
  (gen_to_relative f c = Ok g -> wf g /\ rel g = true).
Proof.
  intro H. rewrite (bridge_to_relative f c H), (bridge_to_absolute f c H). split; intro E.
  - eapply to_absolute_wf; eauto.
  - eapply to_relative_wf; eauto.
Qed.

(* mutually inverse *)
Lemma code_roundtrip_relative f c g : wf f -> rel f = true ->
  gen_to_absolute f (Some c) = Ok g -> gen_to_relative g (Some c) = Ok f.
Proof.
  intros H R E. rewrite (bridge_to_absolute f _ H) in E.
  destruct (to_absolute_wf _ _ _ H E) as [Hg _]. rewrite (bridge_to_relative g _ Hg).
  eapply roundtrip_relative; eauto.
Qed.

Lemma code_roundtrip_absolute f c g : wf f -> rel f = false ->
  gen_to_relative f (Some c) = Ok g -> gen_to_absolute g (Some c) = Ok f.
Proof.
  intros H R E. rewrite (bridge_to_relative f _ H) in E.
  destruct (to_relative_wf _ _ _ H E) as [Hg _]. rewrite (bridge_to_absolute g _ Hg).
  eapply roundtrip_absolute; eauto.
Qed.

(* sentence 1 end to end: any duplicate-free collection of integer steps, in any container kind *)
Lemma code_build_absolute_and_back i l c : holds_steps i l -> NoDup l ->
  exists f a, gen_init i (RBool true) = Ok f /\
    sorted_lt (vals f) /\ Permutation (vals f) l /\
    gen_to_absolute f (Some c) = Ok a /\
    vals a = map (fun s => c + s) (vals f) /\ rel a = false /\ sorted_lt (vals a) /\
    gen_to_relative a (Some c) = Ok f.
Proof.
  intros Hh Hn. destruct (code_init_accepts_and_sorts i l true Hh Hn) as [f (Hi & R & Hs & Hp & _)].
  destruct (code_absolute_is_cutoff_plus_steps f c Hs R) as [Ha Hsa].
  exists f, (mkfh (map (fun s => c + s) (vals f)) false). cbn [vals rel].
  repeat split; try assumption. eapply code_roundtrip_relative; eauto.
Qed.

(* the steps of a horizon as the code computes them *)
Definition code_steps (f : fh) (c : option Z) : res (list Z) := rmap vals (gen_to_relative f c).

Lemma code_steps_eq f c : wf f -> code_steps f c = steps c f.
Proof. intro H. unfold code_steps, steps. rewrite (bridge_to_relative f c H). reflexivity. Qed.

(* sentence 2: in-sample / out-of-sample partition at step 0 *)
Lemma code_partition_at_zero f c a b : wf f ->
  gen_to_in_sample f c = Ok a -> gen_to_out_of_sample f c = Ok b ->
  vals a ++ vals b = vals f /\ rel a = rel f /\ rel b = rel f /\
  exists sa sb, code_steps a c = Ok sa /\ code_steps b c = Ok sb /\ code_steps f c = Ok (sa ++ sb) /\
                Forall (fun x => x <= 0) sa /\ Forall (fun x => 0 < x) sb.
Proof.
  intros H Ea Eb. rewrite (bridge_to_in_sample f c H) in Ea.
  rewrite (bridge_to_out_of_sample f c H) in Eb.
  destruct (partition_at_zero c f a b H Ea Eb) as (P1 & P2 & P3 & Wa & Wb & sa & sb & Q).
  repeat split; try assumption. exists sa, sb.
  rewrite (code_steps_eq a c Wa), (code_steps_eq b c Wb), (code_steps_eq f c H). exact Q.
Qed.

Lemma code_predicates_agree f c a b : wf f ->
  gen_to_in_sample f c = Ok a -> gen_to_out_of_sample f c = Ok b ->
  gen_is_all_in_sample f c = Ok (match vals b with [] => true | _ => false end) /\
  gen_is_all_out_of_sample f c = Ok (match vals a with [] => true | _ => false end).
Proof.
  intros H Ea Eb. rewrite (bridge_to_in_sample f c H) in Ea.
  rewrite (bridge_to_out_of_sample f c H) in Eb.
  rewrite (bridge_is_all_in_sample f c H), (bridge_is_all_out_of_sample f c H).
  apply predicates_agree; assumption.
Qed.

(* the predicates say what their names say *)
Lemma code_predicates_meaning f c s : wf f -> code_steps f c = Ok s ->
  (gen_is_all_in_sample f c = Ok true <-> Forall (fun x => x <= 0) s) /\
  (gen_is_all_out_of_sample f c = Ok true <-> Forall (fun x => 0 < x) s).
Proof.
  intros H S. rewrite (code_steps_eq f c H) in S.
  rewrite (bridge_is_all_in_sample f c H), (bridge_is_all_out_of_sample f c H).
  unfold is_all_in_sample, is_all_out_of_sample. rewrite S. cbn [rmap].
  split; (split; [intro E; inversion E as [E']; apply Forall_forall; intros x Hx;
                  rewrite forallb_forall in E'; specialize (E' x Hx); lia
                 |intro E; f_equal; apply forallb_forall; intros x Hx;
                  rewrite Forall_forall in E; specialize (E x Hx); lia]).
Qed.

(* sentence 3: the zero-based indexer is steps - 1, for relative and absolute horizons alike *)
Lemma code_indexer_is_steps_minus_one g c c' a : wf g -> rel g = true ->
  gen_to_absolute g (Some c) = Ok a ->
  gen_to_indexer g c' true = Ok (map (fun s => s - 1) (vals g)) /\
  gen_to_indexer a (Some c) true = Ok (map (fun s => s - 1) (vals g)).
Proof.
  intros H R Ea. pose proof (code_roundtrip_relative g c a H R Ea) as Rt.
  rewrite (bridge_to_absolute g _ H) in Ea. destruct (to_absolute_wf _ _ _ H Ea) as [Wa _].
  rewrite (bridge_to_indexer g c' H), (bridge_to_indexer a _ Wa).
  rewrite (bridge_to_relative a _ Wa) in Rt.
  unfold to_indexer, steps. rewrite Rt. unfold to_relative. rewrite R. split; reflexivity.
Qed.

Lemma code_indexer_general f c s : wf f -> code_steps f c = Ok s ->
  gen_to_indexer f c true = Ok (map (fun x => x - 1) s) /\
  gen_to_indexer f c false = match s with x :: _ => Ok (map (fun y => y - x) s) | [] => Err end.
Proof.
  intros H S. rewrite (code_steps_eq f c H) in S.
  rewrite (bridge_to_indexer f c H), (bridge_to_indexer_first f c H).
  unfold to_indexer, to_indexer_first. rewrite S. split; [reflexivity|]. destruct s; reflexivity.
Qed.

(* to_absolute_int: absolute values re-based at `start` *)
Lemma code_absolute_int f start c a : wf f -> gen_to_absolute f c = Ok a ->
  gen_to_absolute_int f start c = Ok (mkfh (map (fun x => x - start) (vals a)) false) /\
  sorted_lt (map (fun x => x - start) (vals a)).
Proof.
  intros H Ea. rewrite (bridge_to_absolute_int f start c H).
  rewrite (bridge_to_absolute f c H) in Ea. unfold to_absolute_int. rewrite Ea.
  split; [reflexivity|]. destruct (to_absolute_wf _ _ _ H Ea) as [Wa _].
  apply sorted_lt_map; [intros; lia|exact Wa].
Qed.

(* check_fh: user input becomes a relative horizon; empty horizons and (if enforced) absolute ones
   are rejected; nothing else changes *)
Lemma code_check_fh x e f :
  gen_check_fh x e = Ok f <->
  (match x with InRaw i => gen_init i (RBool true) = Ok f | InFh g => g = f end) /\
  vals f <> [] /\ (e = true -> rel f = true).
Proof.
  rewrite bridge_check_fh. unfold check_fh, zlen.
  replace (match x with InRaw i => gen_init i (RBool true) = Ok f | InFh g => g = f end)
    with (match x with InRaw i => fh_init i (RBool true) = Ok f | InFh g => g = f end)
    by (destruct x; [rewrite bridge_init|]; reflexivity).
  destruct x as [i|g].
  - destruct (fh_init i (RBool true)) as [g|]; [|split; [discriminate|intros [E _]; discriminate]].
    destruct (vals g) as [|v t] eqn:V; cbn [length].
    + split; [discriminate|]. intros [E [Hne _]]. inversion E; subst. congruence.
    + replace (Z.of_nat (S (length t)) =? 0) with false by lia.
      destruct e, (rel g) eqn:R; cbn [andb negb]; split; intro E;
        try (inversion E; subst; repeat split; try congruence);
        try (destruct E as [E [_ He]]; inversion E; subst; try reflexivity;
             specialize (He eq_refl); congruence).
  - destruct (vals g) as [|v t] eqn:V; cbn [length].
    + split; [discriminate|]. intros [E [Hne _]]. subst. congruence.
    + replace (Z.of_nat (S (length t)) =? 0) with false by lia.
      destruct e, (rel g) eqn:R; cbn [andb negb]; split; intro E;
        try (inversion E; subst; repeat split; try congruence);
        try (destruct E as [E [_ He]]; subst; try reflexivity;
             specialize (He eq_refl); congruence).
Qed.

(* a non-trivial instance satisfying the hypotheses of the theorems *)
Lemma ex_nonvacuous :
  holds_steps (IList [NInt 3; NFloat (Qmake (-2) 1); NBool false; NInt 1]) [3; -2; 0; 1] /\
  NoDup [3; -2; 0; 1] /\
  gen_init (IList [NInt 3; NFloat (Qmake (-2) 1); NBool false; NInt 1]) (RBool true)
    = Ok (mkfh [-2; 0; 1; 3] true) /\
  wf (mkfh [-2; 0; 1; 3] true) /\
  gen_to_absolute (mkfh [-2; 0; 1; 3] true) (Some (-5)) = Ok (mkfh [-7; -5; -4; -2] false) /\
  gen_to_in_sample (mkfh [-7; -5; -4; -2] false) (Some (-5)) = Ok (mkfh [-7; -5] false) /\
  gen_to_out_of_sample (mkfh [-7; -5; -4; -2] false) (Some (-5)) = Ok (mkfh [-4; -2] false) /\
  gen_to_indexer (mkfh [-7; -5; -4; -2] false) (Some (-5)) true = Ok [-3; -1; 0; 2].
Proof.
  split.
  { apply HS_list.
    apply Forall2_cons; [left; reflexivity|].
    apply Forall2_cons; [right; right; eexists; split; reflexivity|].
    apply Forall2_cons; [right; left; exists false; split; reflexivity|].
    apply Forall2_cons; [left; reflexivity|]. constructor. }
  split.
  { repeat constructor; cbn [In]; intuition lia. }
  split; [vm_compute; reflexivity|].
  split; [unfold wf; cbn; lia|].
  repeat split; vm_compute; reflexivity.
Qed.
