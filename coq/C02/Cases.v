(* C02 correspondence: each case carries the constructor arguments, cutoffs and everything the real
   ForecastingHorizon answered; `mism` lists the indices on which the model disagrees. *)
From Coq Require Import ZArith QArith List Bool.
Require Import SkV.Lib.Base SkV.Lib.ZRange SkV.C02.Model.
Import ListNotations.
Open Scope Z_scope.

Definition zlist_eqb (a b : list Z) : bool :=
  (length a =? length b)%nat && forallb (fun p => fst p =? snd p) (combine a b).

(* an implementation answer that is a horizon: None = the call raised *)
Definition ofh := option (list Z * bool).
Definition fh_agree (m : res fh) (o : ofh) : bool :=
  match m, o with
  | Err, None => true
  | Ok f, Some (l, r) => zlist_eqb (vals f) l && Bool.eqb (rel f) r
  | _, _ => false
  end.
Definition zl_agree (m : res (list Z)) (o : option (list Z)) : bool :=
  match m, o with
  | Err, None => true
  | Ok l, Some l' => zlist_eqb l l'
  | _, _ => false
  end.
Definition b_agree (m : res bool) (o : option bool) : bool :=
  match m, o with
  | Err, None => true
  | Ok b, Some b' => Bool.eqb b b'
  | _, _ => false
  end.

Record obs := mkobs {
  ob_self : list Z * bool;       (* to_pandas(), is_relative *)
  ob_abs : ofh;                  (* to_absolute(c) *)
  ob_rel : ofh;                  (* to_relative(c) *)
  ob_rt_ar : ofh;                (* to_absolute(c).to_relative(c) *)
  ob_rt_ra : ofh;                (* to_relative(c).to_absolute(c) *)
  ob_absint : ofh;               (* to_absolute_int(start, c) *)
  ob_ins : ofh;                  (* to_in_sample(c) *)
  ob_oos : ofh;                  (* to_out_of_sample(c) *)
  ob_allin : option bool;        (* is_all_in_sample(c) *)
  ob_allout : option bool;       (* is_all_out_of_sample(c) *)
  ob_idx : option (list Z);      (* to_indexer(c) *)
  ob_idx0 : option (list Z);     (* to_indexer(c, from_cutoff=False) *)
  ob_abs2 : ofh;                 (* to_absolute(c2), asked after all of the above *)
  ob_rel2 : ofh;                 (* to_relative(c2) *)
  ob_abs_again : ofh             (* to_absolute(c) once more (memoisation must not go stale) *)
}.

Inductive case :=
  | CFh (i : input) (r : relflag) (c c2 : option Z) (start : Z) (o : option obs)
  | CCheckFh (raw : bool) (i : input) (r : relflag) (enforce : bool) (o : ofh).

Definition check_obs (f : fh) (c c2 : option Z) (start : Z) (o : obs) : bool :=
  fh_agree (Ok f) (Some (ob_self o)) &&
  fh_agree (to_absolute c f) (ob_abs o) &&
  fh_agree (to_relative c f) (ob_rel o) &&
  fh_agree (rbind (to_absolute c f) (to_relative c)) (ob_rt_ar o) &&
  fh_agree (rbind (to_relative c f) (to_absolute c)) (ob_rt_ra o) &&
  fh_agree (to_absolute_int start c f) (ob_absint o) &&
  fh_agree (to_in_sample c f) (ob_ins o) &&
  fh_agree (to_out_of_sample c f) (ob_oos o) &&
  b_agree (is_all_in_sample c f) (ob_allin o) &&
  b_agree (is_all_out_of_sample c f) (ob_allout o) &&
  zl_agree (to_indexer c f) (ob_idx o) &&
  zl_agree (to_indexer_first c f) (ob_idx0 o) &&
  fh_agree (to_absolute c2 f) (ob_abs2 o) &&
  fh_agree (to_relative c2 f) (ob_rel2 o) &&
  fh_agree (to_absolute c f) (ob_abs_again o).

Definition check (k : case) : bool :=
  match k with
  | CFh i r c c2 start o =>
      match fh_init i r, o with
      | Err, None => true
      | Ok f, Some ob => check_obs f c c2 start ob
      | _, _ => false
      end
  | CCheckFh raw i r enforce o =>
      if raw then fh_agree (check_fh (InRaw i) enforce) o
      else match fh_init i r with
           | Ok f => fh_agree (check_fh (InFh f) enforce) o
           | Err => false   (* the generator only wraps constructible horizons *)
           end
  end.

Fixpoint mism (cs : list (Z * case)) : list Z :=
  match cs with
  | [] => []
  | (i, k) :: t => if check k then mism t else i :: mism t
  end.

(* what the model says for a case, for replay files *)
Definition model_says (i : input) (r : relflag) (c : option Z) (start : Z) :=
  match fh_init i r with
  | Err => None
  | Ok f => Some (f, to_absolute c f, to_relative c f, to_absolute_int start c f,
                  (to_in_sample c f, to_out_of_sample c f),
                  (is_all_in_sample c f, is_all_out_of_sample c f),
                  (to_indexer c f, to_indexer_first c f))
  end.
