(* C02 hand model: a forecasting horizon is a list of integer steps plus a relative/absolute flag.
   Executable definitions only.

   Two layers:
   - the pandas primitives the code relies on (coercion of list/array elements to int64, nunique,
     sort_values, RangeIndex contents, boolean-mask selection): MODELLED here, tied to the running
     pandas only by the correspondence run;
   - the horizon operations (to_relative, to_absolute, to_absolute_int, in/out-of-sample parts,
     predicates, indexers, check_fh): clean mathematical definitions.  Gen.v (regenerated from
     _fh.py / validation/forecasting.py on every run) is proved equal to them in Bridge.v. *)
From Coq Require Import ZArith QArith List Bool.
Require Import SkV.Lib.Base SkV.Lib.ZRange.
Import ListNotations.
Open Scope Z_scope.

(* ---- input universe ------------------------------------------------------------------------ *)

(* one element of a Python list / numpy array handed to ForecastingHorizon *)
Inductive num :=
  | NInt (z : Z)        (* int, np.integer *)
  | NBool (b : bool)    (* bool is an int in Python *)
  | NFloat (q : Q)      (* finite float, exact value *)
  | NNonFinite          (* nan, inf *)
  | NStr                (* str *)
  | NNone.              (* None *)

Inductive input :=
  | IInt (z : Z)              (* int / np.integer scalar *)
  | IBool (b : bool)          (* bool scalar: isinstance(True, int) *)
  | IList (l : list num)      (* Python list *)
  | IArr (l : list num)       (* 1-d numpy array *)
  | IArrNd                    (* 0-d or 2-d numpy array *)
  | IIndex (l : list Z)       (* pd.Index, int64 *)
  | IRange (a b s : Z)        (* pd.RangeIndex(a, b, s), s <> 0 *)
  | IOther.                   (* None, float, str, tuple, set, range, dict, pd.Series, ... *)

(* the is_relative argument: a bool, or anything else *)
Inductive relflag := RBool (b : bool) | RBad.

Record fh := mkfh { vals : list Z; rel : bool }.

(* ---- pandas primitives (modelled) ---------------------------------------------------------- *)

Definition q_integral (q : Q) : bool := (Qnum q mod Zpos (Qden q) =? 0).
Definition q_floor (q : Q) : Z := Qnum q / Zpos (Qden q).

(* pd.Index(data, dtype=int64) element-wise: ints and bools are kept, a float is accepted only when
   it is integral, everything else raises *)
Definition coerce_num (x : num) : res Z :=
  match x with
  | NInt z => Ok z
  | NBool b => Ok (if b then 1 else 0)
  | NFloat q => if q_integral q then Ok (q_floor q) else Err
  | NNonFinite | NStr | NNone => Err
  end.

Fixpoint coerce_all (l : list num) : res (list Z) :=
  match l with
  | [] => Ok []
  | x :: t => match coerce_num x with Err => Err | Ok z => rcons z (coerce_all t) end
  end.

Definition memb (x : Z) (l : list Z) : bool := existsb (Z.eqb x) l.

(* Index.nunique() *)
Fixpoint dedup (l : list Z) : list Z :=
  match l with
  | [] => []
  | x :: t => if memb x t then dedup t else x :: dedup t
  end.
Definition nunique (l : list Z) : Z := Z.of_nat (length (dedup l)).
Definition zlen (l : list Z) : Z := Z.of_nat (length l).

(* Index.sort_values() *)
Fixpoint insert (x : Z) (l : list Z) : list Z :=
  match l with
  | [] => [x]
  | y :: t => if x <=? y then x :: l else y :: insert x t
  end.
Fixpoint isort (l : list Z) : list Z :=
  match l with [] => [] | x :: t => insert x (isort t) end.

(* contents of pd.RangeIndex(a, b, s) *)
Definition pyrange (a b s : Z) : list Z :=
  if 0 <? s then zrange a b s
  else if s <? 0 then map Z.opp (zrange (- a) (- b) (- s))
  else [].

(* index[mask] *)
Definition select (l : list Z) (m : list bool) : list Z := map fst (filter snd (combine l m)).
(* sum(mask) *)
Definition count_true (m : list bool) : Z := Z.of_nat (length (filter (fun b => b) m)).

(* how the type tests of _check_values / __init__ see their argument:
   type(values) in VALID_INDEX_TYPES, isinstance(values, (int, np.integer)),
   isinstance(values, (list, np.ndarray)), isinstance(is_relative, bool) *)
Definition as_index (i : input) : option (list Z) :=
  match i with IIndex l => Some l | IRange a b s => Some (pyrange a b s) | _ => None end.
Definition as_int (i : input) : option Z :=
  match i with IInt z => Some z | IBool b => Some (if b then 1 else 0) | _ => None end.
Inductive seq := SElems (l : list num) | SBadDim.
Definition as_seq (i : input) : option seq :=
  match i with IList l | IArr l => Some (SElems l) | IArrNd => Some SBadDim | _ => None end.
Definition as_bool (r : relflag) : option bool :=
  match r with RBool b => Some b | RBad => None end.
(* pd.Int64Index(list-or-array, dtype=int) *)
Definition pd_int64index (s : seq) : res (list Z) :=
  match s with SElems l => coerce_all l | SBadDim => Err end.

(* _contains_strings(values): helper of the proposed fix for F-C02-1 (notes/C02-fix-1.diff); only
   used by the regenerated code once that fix is applied *)
Definition seq_has_str (s : seq) : bool :=
  match s with
  | SElems l => existsb (fun n => match n with NStr => true | _ => false end) l
  | SBadDim => false
  end.

(* ---- construction: _check_values + __init__ ------------------------------------------------ *)

(* tail of _check_values on an index: duplicates rejected, then sorted *)
Definition finish_index (l : list Z) : res (list Z) :=
  if negb (zlen l =? nunique l) then Err else Ok (isort l).

Definition check_values (i : input) : res (list Z) :=
  match i with
  | IIndex l => finish_index l
  | IRange a b s => finish_index (pyrange a b s)
  | IInt z => Ok [z]
  | IBool b => Ok [if b then 1 else 0]
  | IList l | IArr l =>
      match coerce_all l with Ok zs => finish_index zs | Err => Err end
  | IArrNd | IOther => Err
  end.

Definition fh_init (i : input) (r : relflag) : res fh :=
  match r with
  | RBad => Err
  | RBool b => match check_values i with Ok l => Ok (mkfh l b) | Err => Err end
  end.

(* ForecastingHorizon(index, flag) as used by self._new *)
Definition fh_of_index (l : list Z) (r : bool) : res fh := fh_init (IIndex l) (RBool r).

(* ---- horizon operations (the mathematical content of the property) ------------------------- *)

Definition to_relative (c : option Z) (f : fh) : res fh :=
  if rel f then Ok f
  else match c with
       | None => Err
       | Some c => Ok (mkfh (map (fun a => a - c) (vals f)) true)
       end.

Definition to_absolute (c : option Z) (f : fh) : res fh :=
  if rel f then
    match c with
    | None => Err
    | Some c => Ok (mkfh (map (fun s => c + s) (vals f)) false)
    end
  else Ok f.

Definition to_absolute_int (start : Z) (c : option Z) (f : fh) : res fh :=
  match to_absolute c f with
  | Err => Err
  | Ok a => Ok (mkfh (map (fun x => x - start) (vals a)) false)
  end.

(* the steps of a horizon relative to the cutoff *)
Definition steps (c : option Z) (f : fh) : res (list Z) := rmap vals (to_relative c f).

Definition in_mask (s : list Z) : list bool := map (fun x => x <=? 0) s.
Definition out_mask (s : list Z) : list bool := map (fun x => x >? 0) s.

Definition to_in_sample (c : option Z) (f : fh) : res fh :=
  match steps c f with
  | Err => Err
  | Ok s => Ok (mkfh (select (vals f) (in_mask s)) (rel f))
  end.
Definition to_out_of_sample (c : option Z) (f : fh) : res fh :=
  match steps c f with
  | Err => Err
  | Ok s => Ok (mkfh (select (vals f) (out_mask s)) (rel f))
  end.

Definition is_all_in_sample (c : option Z) (f : fh) : res bool :=
  rmap (fun s => forallb (fun x => x <=? 0) s) (steps c f).
Definition is_all_out_of_sample (c : option Z) (f : fh) : res bool :=
  rmap (fun s => forallb (fun x => x >? 0) s) (steps c f).

(* to_indexer(cutoff, from_cutoff=True / False) *)
Definition to_indexer (c : option Z) (f : fh) : res (list Z) :=
  rmap (map (fun x => x - 1)) (steps c f).
Definition to_indexer_first (c : option Z) (f : fh) : res (list Z) :=
  match steps c f with
  | Ok (x :: t) => Ok (map (fun y => y - x) (x :: t))
  | _ => Err
  end.

(* check_fh: argument is either raw user input or an existing horizon *)
Inductive fhin := InRaw (i : input) | InFh (f : fh).
Definition check_fh (x : fhin) (enforce_relative : bool) : res fh :=
  match (match x with InRaw i => fh_init i (RBool true) | InFh f => Ok f end) with
  | Err => Err
  | Ok f => if zlen (vals f) =? 0 then Err
            else if enforce_relative && negb (rel f) then Err else Ok f
  end.

Definition rbind {A B} (r : res A) (k : A -> res B) : res B :=
  match r with Ok a => k a | Err => Err end.
