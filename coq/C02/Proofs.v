(* C02 proofs about the hand model (all inputs, all cutoffs, no bound on sizes). *)
From Coq Require Import ZArith QArith List Bool Lia ZifyBool Permutation.
Require Import SkV.Lib.Base SkV.Lib.ZRange SkV.C02.Model.
Import ListNotations.
Open Scope Z_scope.

(* a well-formed horizon: strictly increasing values (hence duplicate-free) *)
Definition wf (f : fh) : Prop := sorted_lt (vals f).

(* ---- sortedness ----------------------------------------------------------------------------- *)

Lemma sorted_lt_cons_iff a l :
  sorted_lt (a :: l) <-> (forall x, In x l -> a < x) /\ sorted_lt l.
Proof.
  split.
  - intro H. split.
    + intros x Hx. eapply sorted_lt_head_lt; eauto.
    + eapply sorted_lt_tail; eauto.
  - intros [Hlt Hs]. destruct l as [|b t]; [exact I|]. cbn. split; [|exact Hs].
    apply Hlt. left. reflexivity.
Qed.

Lemma sorted_lt_NoDup l : sorted_lt l -> NoDup l.
Proof.
  induction l as [|a t IH]; intro H; [constructor|].
  apply sorted_lt_cons_iff in H. destruct H as [Hlt Hs]. constructor; [|apply IH; exact Hs].
  intro Hin. specialize (Hlt a Hin). lia.
Qed.

Lemma sorted_lt_map (g : Z -> Z) l :
  (forall a b, a < b -> g a < g b) -> sorted_lt l -> sorted_lt (map g l).
Proof.
  intro Hg. induction l as [|a t IH]; intro H; [exact I|].
  apply sorted_lt_cons_iff in H. destruct H as [Hlt Hs]. cbn [map].
  apply sorted_lt_cons_iff. split; [|apply IH; exact Hs].
  intros x Hx. apply in_map_iff in Hx. destruct Hx as [y [<- Hy]]. apply Hg. apply Hlt. exact Hy.
Qed.

Lemma sorted_lt_filter (p : Z -> bool) l : sorted_lt l -> sorted_lt (filter p l).
Proof.
  induction l as [|a t IH]; intro H; [exact I|].
  apply sorted_lt_cons_iff in H. destruct H as [Hlt Hs]. cbn [filter].
  destruct (p a); [|apply IH; exact Hs].
  apply sorted_lt_cons_iff. split; [|apply IH; exact Hs].
  intros x Hx. apply filter_In in Hx. apply Hlt. tauto.
Qed.

(* ---- insertion sort = Index.sort_values ----------------------------------------------------- *)

Lemma insert_In x l y : In y (insert x l) <-> y = x \/ In y l.
Proof.
  induction l as [|a t IH]; cbn [insert].
  - cbn. intuition.
  - destruct (x <=? a); cbn [In]; [intuition|]. rewrite IH. cbn [In]. intuition.
Qed.

Lemma isort_In l y : In y (isort l) <-> In y l.
Proof.
  induction l as [|a t IH]; cbn [isort]; [tauto|].
  rewrite insert_In, IH. cbn [In]. intuition.
Qed.

Lemma insert_sorted_lt x l : sorted_lt l -> ~ In x l -> sorted_lt (insert x l).
Proof.
  induction l as [|a t IH]; intros Hs Hn; cbn [insert]; [exact I|].
  pose proof Hs as Hs'. apply sorted_lt_cons_iff in Hs'. destruct Hs' as [Hlt Hst].
  destruct (x <=? a) eqn:E.
  - apply sorted_lt_cons_iff. split; [|exact Hs].
    intros y [<-|Hy].
    + assert (x <> a) by (intro; subst; apply Hn; left; reflexivity). lia.
    + specialize (Hlt y Hy). lia.
  - apply sorted_lt_cons_iff. split.
    + intros y Hy. apply insert_In in Hy. destruct Hy as [->|Hy]; [lia|apply Hlt; exact Hy].
    + apply IH; [exact Hst|]. intro Hin. apply Hn. right. exact Hin.
Qed.

Lemma isort_sorted_lt l : NoDup l -> sorted_lt (isort l).
Proof.
  induction l as [|a t IH]; intro H; [exact I|]. inversion H as [|? ? Hn Hnd]; subst.
  cbn [isort]. apply insert_sorted_lt; [apply IH; exact Hnd|].
  rewrite isort_In. exact Hn.
Qed.

Lemma insert_perm x l : Permutation (insert x l) (x :: l).
Proof.
  induction l as [|a t IH]; cbn [insert]; [apply Permutation_refl|].
  destruct (x <=? a); [apply Permutation_refl|].
  eapply Permutation_trans; [apply perm_skip; exact IH|]. apply perm_swap.
Qed.

Lemma isort_perm l : Permutation (isort l) l.
Proof.
  induction l as [|a t IH]; cbn [isort]; [apply Permutation_refl|].
  eapply Permutation_trans; [apply insert_perm|]. apply perm_skip. exact IH.
Qed.

(* sorting a strictly increasing index changes nothing *)
Lemma isort_sorted_id l : sorted_lt l -> isort l = l.
Proof.
  induction l as [|a t IH]; intro H; [reflexivity|].
  apply sorted_lt_cons_iff in H. destruct H as [Hlt Hs]. cbn [isort]. rewrite (IH Hs).
  destruct t as [|b t']; [reflexivity|]. cbn [insert].
  specialize (Hlt b (or_introl eq_refl)). destruct (a <=? b) eqn:E; [reflexivity|lia].
Qed.

(* ---- nunique -------------------------------------------------------------------------------- *)

Lemma memb_In x l : memb x l = true <-> In x l.
Proof.
  unfold memb. rewrite existsb_exists. split.
  - intros [y [Hy E]]. assert (x = y) by lia. subst. exact Hy.
  - intro H. exists x. split; [exact H|lia].
Qed.

Lemma dedup_length_le l : (length (dedup l) <= length l)%nat.
Proof.
  induction l as [|a t IH]; cbn [dedup length]; [lia|].
  destruct (memb a t); cbn [length]; lia.
Qed.

Lemma dedup_len_eq_iff l : length (dedup l) = length l <-> NoDup l.
Proof.
  induction l as [|a t IH]; cbn [dedup length].
  - split; [constructor|reflexivity].
  - pose proof (dedup_length_le t) as Hle. destruct (memb a t) eqn:E.
    + apply memb_In in E. split; [lia|]. intro H. inversion H; subst. contradiction.
    + cbn [length]. split.
      * intro H. constructor.
        -- intro Hin. apply memb_In in Hin. congruence.
        -- apply IH. lia.
      * intro H. inversion H; subst. f_equal. apply IH. assumption.
Qed.

Lemma finish_index_NoDup l : NoDup l -> finish_index l = Ok (isort l).
Proof.
  intro H. unfold finish_index, zlen, nunique. apply dedup_len_eq_iff in H. rewrite H.
  rewrite Z.eqb_refl. reflexivity.
Qed.

Lemma finish_index_dup l : ~ NoDup l -> finish_index l = Err.
Proof.
  intro H. unfold finish_index, zlen, nunique.
  destruct (Z.of_nat (length l) =? Z.of_nat (length (dedup l))) eqn:E; [|reflexivity].
  exfalso. apply H. apply dedup_len_eq_iff. lia.
Qed.

Lemma finish_index_inv l l' : finish_index l = Ok l' -> NoDup l /\ l' = isort l.
Proof.
  intro H. destruct (ListDec.NoDup_dec Z.eq_dec l) as [Hn|Hn].
  - rewrite (finish_index_NoDup l Hn) in H. inversion H. split; [exact Hn|reflexivity].
  - rewrite (finish_index_dup l Hn) in H. discriminate.
Qed.

(* re-validating a well-formed index (what self._new does) is the identity *)
Lemma fh_of_index_wf l b : sorted_lt l -> fh_init (IIndex l) (RBool b) = Ok (mkfh l b).
Proof.
  intro H. unfold fh_init, check_values.
  rewrite (finish_index_NoDup l (sorted_lt_NoDup l H)). rewrite (isort_sorted_id l H). reflexivity.
Qed.

(* ---- construction --------------------------------------------------------------------------- *)

Lemma check_values_sorted i l : check_values i = Ok l -> sorted_lt l.
Proof.
  assert (F : forall x, finish_index x = Ok l -> sorted_lt l).
  { intros x H. apply finish_index_inv in H. destruct H as [Hn ->]. apply isort_sorted_lt. exact Hn. }
  destruct i as [z|b|ns|ns| |x|a b s| ]; cbn [check_values]; intro H; try discriminate.
  - inversion H; subst. exact I.
  - inversion H; subst. exact I.
  - destruct (coerce_all ns); [eapply F; eauto|discriminate].
  - destruct (coerce_all ns); [eapply F; eauto|discriminate].
  - eapply F; eauto.
  - eapply F; eauto.
Qed.

Lemma init_sorted i r f : fh_init i r = Ok f -> wf f.
Proof.
  unfold fh_init, wf. destruct r as [b|]; [|discriminate].
  destruct (check_values i) as [l|] eqn:E; [|discriminate]. intro H. inversion H; subst.
  cbn [vals]. eapply check_values_sorted; eauto.
Qed.

(* "a collection of the integer steps l": how each container kind presents integers *)
Definition presents (n : num) (z : Z) : Prop :=
  n = NInt z \/
  (exists b : bool, n = NBool b /\ z = (if b then 1 else 0)) \/
  (exists q : Q, n = NFloat q /\ (q == inject_Z z)%Q).

Inductive holds_steps : input -> list Z -> Prop :=
  | HS_int z : holds_steps (IInt z) [z]
  | HS_bool b : holds_steps (IBool b) [if b then 1 else 0]
  | HS_list ns l : Forall2 presents ns l -> holds_steps (IList ns) l
  | HS_arr ns l : Forall2 presents ns l -> holds_steps (IArr ns) l
  | HS_index l : holds_steps (IIndex l) l
  | HS_range a b s : holds_steps (IRange a b s) (pyrange a b s).

Lemma integral_float q z : (q == inject_Z z)%Q -> q_integral q = true /\ q_floor q = z.
Proof.
  unfold Qeq, inject_Z, q_integral, q_floor. cbn [Qnum Qden]. intro H.
  assert (E : Qnum q = z * Z.pos (Qden q)) by lia. rewrite E. split.
  - rewrite Z.mod_mul by lia. reflexivity.
  - rewrite Z.div_mul by lia. reflexivity.
Qed.

Lemma q_integral_inv q : q_integral q = true -> (q == inject_Z (q_floor q))%Q.
Proof.
  unfold Qeq, inject_Z, q_integral, q_floor. cbn [Qnum Qden]. intro H.
  pose proof (Z.div_mod (Qnum q) (Z.pos (Qden q))). lia.
Qed.

Lemma presents_coerce n z : presents n z -> coerce_num n = Ok z.
Proof.
  intros [->|[[b [-> ->]]|[q [-> Hq]]]]; cbn [coerce_num]; try reflexivity.
  apply integral_float in Hq. destruct Hq as [-> ->]. reflexivity.
Qed.

Lemma presents_coerce_all ns l : Forall2 presents ns l -> coerce_all ns = Ok l.
Proof.
  induction 1 as [|n z ns l Hp _ IH]; cbn [coerce_all]; [reflexivity|].
  rewrite (presents_coerce n z Hp), IH. reflexivity.
Qed.

Lemma holds_steps_check_values i l : holds_steps i l -> NoDup l -> check_values i = Ok (isort l).
Proof.
  intros H Hn. destruct H as [z|b0|ns l H|ns l H|l|ra rb rs]; cbn [check_values].
  - reflexivity.
  - reflexivity.
  - rewrite (presents_coerce_all _ _ H). apply finish_index_NoDup. exact Hn.
  - rewrite (presents_coerce_all _ _ H). apply finish_index_NoDup. exact Hn.
  - apply finish_index_NoDup. exact Hn.
  - apply finish_index_NoDup. exact Hn.
Qed.

(* sentence 1: duplicate-free integer steps, in any container, are accepted and stored sorted *)
Lemma init_accepts_and_sorts i l b : holds_steps i l -> NoDup l ->
  exists f, fh_init i (RBool b) = Ok f /\ rel f = b /\
            sorted_lt (vals f) /\ Permutation (vals f) l /\ (forall x, In x (vals f) <-> In x l).
Proof.
  intros H Hn. exists (mkfh (isort l) b). unfold fh_init.
  rewrite (holds_steps_check_values i l H Hn). cbn [vals rel].
  repeat split; try (apply isort_In).
  - apply isort_sorted_lt. exact Hn.
  - apply isort_perm.
Qed.

(* already sorted steps are stored verbatim *)
Lemma init_sorted_verbatim i l b : holds_steps i l -> sorted_lt l ->
  fh_init i (RBool b) = Ok (mkfh l b).
Proof.
  intros H Hs. unfold fh_init.
  rewrite (holds_steps_check_values i l H (sorted_lt_NoDup l Hs)).
  rewrite (isort_sorted_id l Hs). reflexivity.
Qed.

(* last sentence: duplicates, fractional values, unsupported types are rejected *)
Lemma init_rejects_duplicates i l r : holds_steps i l -> ~ NoDup l -> fh_init i r = Err.
Proof.
  intros H Hn. unfold fh_init. destruct r; [|reflexivity].
  destruct H as [z|b0|ns l H|ns l H|l|ra rb rs]; cbn [check_values].
  - exfalso. apply Hn. repeat constructor. intros [].
  - exfalso. apply Hn. repeat constructor. intros [].
  - rewrite (presents_coerce_all _ _ H), (finish_index_dup l Hn). reflexivity.
  - rewrite (presents_coerce_all _ _ H), (finish_index_dup l Hn). reflexivity.
  - rewrite (finish_index_dup l Hn). reflexivity.
  - rewrite (finish_index_dup _ Hn). reflexivity.
Qed.

Lemma coerce_all_bad ns n : In n ns -> coerce_num n = Err -> coerce_all ns = Err.
Proof.
  induction ns as [|a t IH]; intros Hin Hb; [destruct Hin|]. cbn [coerce_all].
  destruct Hin as [->|Hin]; [rewrite Hb; reflexivity|].
  destruct (coerce_num a); [|reflexivity]. rewrite (IH Hin Hb). reflexivity.
Qed.

(* an explicit string test before the coercion (proposed fix for F-C02-1) changes nothing in the
   model: the coercion rejects strings anyway *)
Lemma seq_has_str_err s : seq_has_str s = true -> pd_int64index s = Err.
Proof.
  destruct s as [l|]; cbn [seq_has_str pd_int64index]; [|discriminate].
  intro H. apply existsb_exists in H. destruct H as [n [Hin Hn]].
  apply (coerce_all_bad l n Hin). destruct n; try discriminate. reflexivity.
Qed.

Definition element_container (i : input) (ns : list num) : Prop := i = IList ns \/ i = IArr ns.

Lemma init_rejects_bad_element i ns n r : element_container i ns -> In n ns ->
  coerce_num n = Err -> fh_init i r = Err.
Proof.
  intros Hc Hin Hb. unfold fh_init. destruct r; [|reflexivity].
  destruct Hc as [->| ->]; cbn [check_values]; rewrite (coerce_all_bad ns n Hin Hb); reflexivity.
Qed.

Lemma init_rejects_fractional i ns q r : element_container i ns -> In (NFloat q) ns ->
  (forall z, ~ (q == inject_Z z)%Q) -> fh_init i r = Err.
Proof.
  intros Hc Hin Hq. apply (init_rejects_bad_element i ns (NFloat q) r Hc Hin).
  cbn [coerce_num]. destruct (q_integral q) eqn:E; [|reflexivity].
  exfalso. apply (Hq (q_floor q)). apply q_integral_inv. exact E.
Qed.

Lemma init_rejects_unsupported_element i ns n r : element_container i ns -> In n ns ->
  n = NStr \/ n = NNone \/ n = NNonFinite -> fh_init i r = Err.
Proof.
  intros Hc Hin Hn. apply (init_rejects_bad_element i ns n r Hc Hin).
  destruct Hn as [->|[->| ->]]; reflexivity.
Qed.

Lemma init_rejects_unsupported_container r :
  fh_init IOther r = Err /\ fh_init IArrNd r = Err.
Proof. destruct r; split; reflexivity. Qed.

Lemma init_rejects_bad_flag i : fh_init i RBad = Err.
Proof. reflexivity. Qed.

(* integral floats are the integers they equal *)
Lemma coerce_all_floats (l : list Z) : coerce_all (map (fun z => NFloat (inject_Z z)) l) = Ok l.
Proof.
  apply presents_coerce_all. induction l as [|a t IH]; cbn [map]; [constructor|].
  constructor; [|exact IH]. right. right. eexists. split; [reflexivity|]. reflexivity.
Qed.

Lemma coerce_all_ints (l : list Z) : coerce_all (map NInt l) = Ok l.
Proof.
  apply presents_coerce_all. induction l as [|a t IH]; cbn [map]; [constructor|].
  constructor; [|exact IH]. left. reflexivity.
Qed.

Lemma init_integral_floats (l : list Z) r :
  fh_init (IList (map (fun z => NFloat (inject_Z z)) l)) r = fh_init (IList (map NInt l)) r /\
  fh_init (IArr (map (fun z => NFloat (inject_Z z)) l)) r = fh_init (IIndex l) r.
Proof.
  unfold fh_init. destruct r; [|split; reflexivity]. cbn [check_values].
  rewrite coerce_all_floats, coerce_all_ints. split; reflexivity.
Qed.

(* ---- conversions ---------------------------------------------------------------------------- *)

Lemma map_add_sub c l : map (fun a => a - c) (map (fun s => c + s) l) = l.
Proof. rewrite map_map. rewrite <- (map_id l) at 2. apply map_ext. intro. lia. Qed.
Lemma map_sub_add c l : map (fun s => c + s) (map (fun a => a - c) l) = l.
Proof. rewrite map_map. rewrite <- (map_id l) at 2. apply map_ext. intro. lia. Qed.

Lemma to_absolute_wf c f g : wf f -> to_absolute c f = Ok g -> wf g /\ rel g = false.
Proof.
  unfold to_absolute, wf. intros Hw H. destruct (rel f) eqn:R.
  - destruct c as [c|]; [|discriminate]. inversion H; subst. cbn [vals rel]. split; [|reflexivity].
    apply sorted_lt_map; [intros; lia|exact Hw].
  - inversion H; subst. split; [exact Hw|exact R].
Qed.

Lemma to_relative_wf c f g : wf f -> to_relative c f = Ok g -> wf g /\ rel g = true.
Proof.
  unfold to_relative, wf. intros Hw H. destruct (rel f) eqn:R.
  - inversion H; subst. split; [exact Hw|exact R].
  - destruct c as [c|]; [|discriminate]. inversion H; subst. cbn [vals rel]. split; [|reflexivity].
    apply sorted_lt_map; [intros; lia|exact Hw].
Qed.

Lemma fh_eta f : f = mkfh (vals f) (rel f).
Proof. destruct f. reflexivity. Qed.

Lemma roundtrip_relative c f g : rel f = true ->
  to_absolute (Some c) f = Ok g -> to_relative (Some c) g = Ok f.
Proof.
  unfold to_absolute, to_relative. intros R H. rewrite R in H. inversion H; subst.
  cbn [rel vals]. rewrite map_add_sub. rewrite (fh_eta f) at 2. rewrite R. reflexivity.
Qed.

Lemma roundtrip_absolute c f g : rel f = false ->
  to_relative (Some c) f = Ok g -> to_absolute (Some c) g = Ok f.
Proof.
  unfold to_absolute, to_relative. intros R H. rewrite R in H. inversion H; subst.
  cbn [rel vals]. rewrite map_sub_add. rewrite (fh_eta f) at 2. rewrite R. reflexivity.
Qed.

(* ---- masks, selection, partition ------------------------------------------------------------ *)

Lemma select_map_gen (p : Z -> bool) (g : Z -> Z) l :
  select l (map p (map g l)) = filter (fun a => p (g a)) l.
Proof.
  unfold select. induction l as [|a t IH]; [reflexivity|].
  cbn [map combine filter snd]. destruct (p (g a)); cbn [map fst]; rewrite IH; reflexivity.
Qed.

Lemma select_map (p : Z -> bool) l : select l (map p l) = filter p l.
Proof.
  unfold select. induction l as [|a t IH]; [reflexivity|].
  cbn [map combine filter snd]. destruct (p a); cbn [map fst]; rewrite IH; reflexivity.
Qed.

Lemma filter_none (p : Z -> bool) l : (forall x, In x l -> p x = false) -> filter p l = [].
Proof.
  induction l as [|a t IH]; intro H; [reflexivity|]. cbn [filter].
  rewrite (H a (or_introl eq_refl)). apply IH. intros x Hx. apply H. right. exact Hx.
Qed.

Lemma filter_all (p : Z -> bool) l : (forall x, In x l -> p x = true) -> filter p l = l.
Proof.
  induction l as [|a t IH]; intro H; [reflexivity|]. cbn [filter].
  rewrite (H a (or_introl eq_refl)). f_equal. apply IH. intros x Hx. apply H. right. exact Hx.
Qed.

(* a sorted index splits at a threshold into a prefix and a suffix *)
Lemma sorted_partition k l : sorted_lt l ->
  filter (fun a => a - k <=? 0) l ++ filter (fun a => a - k >? 0) l = l.
Proof.
  induction l as [|a t IH]; intro H; [reflexivity|].
  apply sorted_lt_cons_iff in H. destruct H as [Hlt Hs]. cbn [filter].
  destruct (a - k <=? 0) eqn:E.
  - replace (a - k >? 0) with false by lia. cbn [app]. rewrite (IH Hs). reflexivity.
  - replace (a - k >? 0) with true by lia.
    rewrite (filter_none (fun a0 => a0 - k <=? 0) t) by (intros x Hx; specialize (Hlt x Hx); lia).
    rewrite (filter_all (fun a0 => a0 - k >? 0) t) by (intros x Hx; specialize (Hlt x Hx); lia).
    reflexivity.
Qed.

Lemma count_true_le (p : Z -> bool) l : count_true (map p l) <= zlen l.
Proof.
  unfold count_true, zlen. induction l as [|a t IH]; cbn [map filter length]; [lia|].
  destruct (p a); cbn [length]; lia.
Qed.

(* sum(mask) == len(index) says exactly that the mask is all True *)
Lemma count_true_all (p : Z -> bool) l : (count_true (map p l) =? zlen l) = forallb p l.
Proof.
  induction l as [|a t IH]; [reflexivity|].
  pose proof (count_true_le p t) as Hle. unfold count_true, zlen in *.
  cbn [map filter forallb length]. destruct (p a); cbn [length andb].
  - rewrite <- IH. lia.
  - lia.
Qed.

Lemma forallb_map_z (p : Z -> bool) (g : Z -> Z) l :
  forallb p (map g l) = forallb (fun x => p (g x)) l.
Proof. induction l as [|a t IH]; cbn [map forallb]; [reflexivity|]. rewrite IH. reflexivity. Qed.

Lemma forallb_complement (p q : Z -> bool) l : (forall x, q x = negb (p x)) ->
  forallb p l = match filter q l with [] => true | _ :: _ => false end.
Proof.
  intro H. induction l as [|a t IH]; cbn [forallb filter]; [reflexivity|].
  rewrite (H a). destruct (p a); cbn [negb andb]; [exact IH|reflexivity].
Qed.

Lemma forallb_filter_nil (p : Z -> bool) l :
  forallb p l = true <-> filter (fun x => negb (p x)) l = [].
Proof.
  induction l as [|a t IH]; cbn [forallb filter]; [tauto|].
  destruct (p a); cbn [negb andb]; [exact IH|]. split; discriminate.
Qed.

(* the steps of a horizon, explicitly *)
Definition steps_of (c : Z) (f : fh) : list Z :=
  if rel f then vals f else map (fun a => a - c) (vals f).

Lemma steps_some c f : steps (Some c) f = Ok (steps_of c f).
Proof. unfold steps, to_relative, steps_of. destruct (rel f); reflexivity. Qed.

Lemma steps_none f : steps None f = if rel f then Ok (vals f) else Err.
Proof. unfold steps, to_relative. destruct (rel f); reflexivity. Qed.

(* threshold form of the two parts *)
Definition thr (c : option Z) (f : fh) : Z :=
  if rel f then 0 else match c with Some c => c | None => 0 end.

Lemma parts_as_filters c f s : steps c f = Ok s ->
  select (vals f) (in_mask s) = filter (fun a => a - thr c f <=? 0) (vals f) /\
  select (vals f) (out_mask s) = filter (fun a => a - thr c f >? 0) (vals f).
Proof.
  unfold steps, to_relative, thr, in_mask, out_mask. destruct (rel f) eqn:R.
  - intro H. inversion H; subst.
    rewrite !select_map. split; apply filter_ext; intro a; f_equal; lia.
  - destruct c as [c|]; [|discriminate]. intro H. inversion H; subst.
    rewrite !select_map_gen. split; reflexivity.
Qed.

Lemma partition_at_zero c f a b : wf f ->
  to_in_sample c f = Ok a -> to_out_of_sample c f = Ok b ->
  vals a ++ vals b = vals f /\ rel a = rel f /\ rel b = rel f /\ wf a /\ wf b /\
  exists sa sb, steps c a = Ok sa /\ steps c b = Ok sb /\ steps c f = Ok (sa ++ sb) /\
                Forall (fun x => x <= 0) sa /\ Forall (fun x => 0 < x) sb.
Proof.
  unfold to_in_sample, to_out_of_sample, wf. intros Hw Ha Hb.
  destruct (steps c f) as [s|] eqn:S; [|discriminate].
  destruct (parts_as_filters c f s S) as [Ea Eb].
  inversion Ha; subst a. inversion Hb; subst b. cbn [vals rel]. rewrite Ea, Eb.
  split; [apply sorted_partition; exact Hw|]. split; [reflexivity|]. split; [reflexivity|].
  split; [apply sorted_lt_filter; exact Hw|]. split; [apply sorted_lt_filter; exact Hw|].
  set (fa := filter (fun a => a - thr c f <=? 0) (vals f)).
  set (fb := filter (fun a => a - thr c f >? 0) (vals f)).
  assert (Hsplit : fa ++ fb = vals f) by (apply sorted_partition; exact Hw).
  unfold steps, to_relative in *. cbn [rel vals]. unfold thr in *. destruct (rel f) eqn:R.
  - exists fa, fb. cbn [rmap]. inversion S; subst s. rewrite Hsplit.
    repeat split; try reflexivity; apply Forall_forall; intros x Hx; apply filter_In in Hx; lia.
  - destruct c as [c|]; [|discriminate]. cbn [rmap vals] in *.
    exists (map (fun x => x - c) fa), (map (fun x => x - c) fb). inversion S; subst s.
    rewrite <- map_app, Hsplit.
    repeat split; try reflexivity; apply Forall_forall; intros x Hx; apply in_map_iff in Hx;
      destruct Hx as [y [<- Hy]]; apply filter_In in Hy; lia.
Qed.

Lemma predicates_agree c f a b :
  to_in_sample c f = Ok a -> to_out_of_sample c f = Ok b ->
  is_all_in_sample c f = Ok (match vals b with [] => true | _ => false end) /\
  is_all_out_of_sample c f = Ok (match vals a with [] => true | _ => false end).
Proof.
  unfold to_in_sample, to_out_of_sample, is_all_in_sample, is_all_out_of_sample.
  intros Ha Hb. destruct (steps c f) as [s|] eqn:S; [|discriminate].
  destruct (parts_as_filters c f s S) as [Ea Eb].
  inversion Ha; subst a. inversion Hb; subst b. cbn [vals rmap]. rewrite Ea, Eb.
  assert (Hs : s = map (fun x => x - thr c f) (vals f)).
  { unfold steps, to_relative, thr in *. destruct (rel f).
    - inversion S; subst. rewrite <- (map_id (vals f)) at 1. apply map_ext. intro; lia.
    - destruct c; [|discriminate]. inversion S; subst. reflexivity. }
  rewrite Hs. rewrite !forallb_map_z. split; f_equal; apply forallb_complement; intro; lia.
Qed.
