(* C02 property theorems.  Nothing but statements closed by `exact`, each followed by
   Print Assumptions.  `gen_*` are the functions regenerated from _fh.py / validation/forecasting.py
   on this run (gen_init = __init__ + _check_values, with the pandas primitives coerce / nunique /
   sort_values modelled in Model.v and tied by correspondence);
   `wf f` = the stored values are strictly increasing (what the constructor guarantees). *)
From Coq Require Import ZArith QArith List Bool Permutation.
Require Import SkV.Lib.Base SkV.Lib.ZRange SkV.C02.Model SkV.C02.Gen SkV.C02.Proofs SkV.C02.Bridge.
Import ListNotations.
Open Scope Z_scope.

(* -- sentence 1a: whatever is accepted is stored strictly increasing (sorted, duplicate-free) *)
Theorem C02_stored_sorted : forall i r f, gen_init i r = Ok f -> sorted_lt (vals f).
Proof. exact code_init_sorted. Qed.
Print Assumptions C02_stored_sorted.

(* -- sentence 1b: a duplicate-free collection of integer steps l, presented as int, bool, list or
      array of ints / bools / integral floats, integer index or range index, is accepted under
      either flag and stored as the sorted permutation of l *)
Theorem C02_accepts_and_sorts_integer_steps : forall i l b, holds_steps i l -> NoDup l ->
  exists f, gen_init i (RBool b) = Ok f /\ rel f = b /\
            sorted_lt (vals f) /\ Permutation (vals f) l /\ (forall x, In x (vals f) <-> In x l).
Proof. exact code_init_accepts_and_sorts. Qed.
Print Assumptions C02_accepts_and_sorts_integer_steps.

Theorem C02_sorted_steps_stored_verbatim : forall i l b, holds_steps i l -> sorted_lt l ->
  gen_init i (RBool b) = Ok (mkfh l b).
Proof. exact code_init_sorted_verbatim. Qed.
Print Assumptions C02_sorted_steps_stored_verbatim.

(* -- sentence 1c: absolute form = cutoff + steps (order kept), for every cutoff *)
Theorem C02_absolute_is_cutoff_plus_steps : forall f c, wf f -> rel f = true ->
  gen_to_absolute f (Some c) = Ok (mkfh (map (fun s => c + s) (vals f)) false) /\
  sorted_lt (map (fun s => c + s) (vals f)).
Proof. exact code_absolute_is_cutoff_plus_steps. Qed.
Print Assumptions C02_absolute_is_cutoff_plus_steps.

Theorem C02_relative_is_absolute_minus_cutoff : forall f c, wf f -> rel f = false ->
  gen_to_relative f (Some c) = Ok (mkfh (map (fun a => a - c) (vals f)) true) /\
  sorted_lt (map (fun a => a - c) (vals f)).
Proof. exact code_relative_is_absolute_minus_cutoff. Qed.
Print Assumptions C02_relative_is_absolute_minus_cutoff.

(* -- sentence 1d: converting back returns the original horizon (both directions) *)
Theorem C02_roundtrip_relative : forall f c g, wf f -> rel f = true ->
  gen_to_absolute f (Some c) = Ok g -> gen_to_relative g (Some c) = Ok f.
Proof. exact code_roundtrip_relative. Qed.
Print Assumptions C02_roundtrip_relative.

Theorem C02_roundtrip_absolute : forall f c g, wf f -> rel f = false ->
  gen_to_relative f (Some c) = Ok g -> gen_to_absolute g (Some c) = Ok f.
Proof. exact code_roundtrip_absolute. Qed.
Print Assumptions C02_roundtrip_absolute.

(* -- sentence 1, end to end from the constructor arguments *)
Theorem C02_build_absolute_and_back : forall i l c, holds_steps i l -> NoDup l ->
  exists f a, gen_init i (RBool true) = Ok f /\
    sorted_lt (vals f) /\ Permutation (vals f) l /\
    gen_to_absolute f (Some c) = Ok a /\
    vals a = map (fun s => c + s) (vals f) /\ rel a = false /\ sorted_lt (vals a) /\
    gen_to_relative a (Some c) = Ok f.
Proof. exact code_build_absolute_and_back. Qed.
Print Assumptions C02_build_absolute_and_back.

(* -- what must not change: same-form conversion is the identity for every cutoff, a cutoff is
      required exactly when the form changes, every conversion keeps the order *)
Theorem C02_same_form_identity : forall f c, wf f ->
  (rel f = true -> gen_to_relative f c = Ok f) /\ (rel f = false -> gen_to_absolute f c = Ok f).
Proof. exact code_same_form_identity. Qed.
Print Assumptions C02_same_form_identity.

Theorem C02_cutoff_required : forall f, wf f ->
  (rel f = true -> gen_to_absolute f None = Err) /\ (rel f = false -> gen_to_relative f None = Err).
Proof. exact code_cutoff_required. Qed.
Print Assumptions C02_cutoff_required.

Theorem C02_conversions_keep_order : forall f c g, wf f ->
  (gen_to_absolute f c = Ok g -> wf g /\ rel g = false) /\
  (gen_to_relative f c = Ok g -> wf g /\ rel g = true).
Proof. exact code_conversions_keep_order. Qed.
Print Assumptions C02_conversions_keep_order.

(* -- sentence 2a: in-sample ++ out-of-sample = the horizon, in order, flag kept; the in-sample
      steps are <= 0 and the out-of-sample steps are > 0 *)
Theorem C02_partition_at_zero : forall f c a b, wf f ->
  gen_to_in_sample f c = Ok a -> gen_to_out_of_sample f c = Ok b ->
  vals a ++ vals b = vals f /\ rel a = rel f /\ rel b = rel f /\
  exists sa sb, code_steps a c = Ok sa /\ code_steps b c = Ok sb /\ code_steps f c = Ok (sa ++ sb) /\
                Forall (fun x => x <= 0) sa /\ Forall (fun x => 0 < x) sb.
Proof. exact code_partition_at_zero. Qed.
Print Assumptions C02_partition_at_zero.

(* -- sentence 2b: the predicates agree with that partition, and mean what they say *)
Theorem C02_predicates_agree_with_partition : forall f c a b, wf f ->
  gen_to_in_sample f c = Ok a -> gen_to_out_of_sample f c = Ok b ->
  gen_is_all_in_sample f c = Ok (match vals b with [] => true | _ => false end) /\
  gen_is_all_out_of_sample f c = Ok (match vals a with [] => true | _ => false end).
Proof. exact code_predicates_agree. Qed.
Print Assumptions C02_predicates_agree_with_partition.

Theorem C02_predicates_meaning : forall f c s, wf f -> code_steps f c = Ok s ->
  (gen_is_all_in_sample f c = Ok true <-> Forall (fun x => x <= 0) s) /\
  (gen_is_all_out_of_sample f c = Ok true <-> Forall (fun x => 0 < x) s).
Proof. exact code_predicates_meaning. Qed.
Print Assumptions C02_predicates_meaning.

(* -- sentence 3: zero-based indexer = steps - 1, for a relative horizon (any cutoff, even None)
      and for its absolute form alike *)
Theorem C02_indexer_is_steps_minus_one : forall g c c' a, wf g -> rel g = true ->
  gen_to_absolute g (Some c) = Ok a ->
  gen_to_indexer g c' true = Ok (map (fun s => s - 1) (vals g)) /\
  gen_to_indexer a (Some c) true = Ok (map (fun s => s - 1) (vals g)).
Proof. exact code_indexer_is_steps_minus_one. Qed.
Print Assumptions C02_indexer_is_steps_minus_one.

Theorem C02_indexer_general : forall f c s, wf f -> code_steps f c = Ok s ->
  gen_to_indexer f c true = Ok (map (fun x => x - 1) s) /\
  gen_to_indexer f c false = match s with x :: _ => Ok (map (fun y => y - x) s) | [] => Err end.
Proof. exact code_indexer_general. Qed.
Print Assumptions C02_indexer_general.

Theorem C02_absolute_int : forall f start c a, wf f -> gen_to_absolute f c = Ok a ->
  gen_to_absolute_int f start c = Ok (mkfh (map (fun x => x - start) (vals a)) false) /\
  sorted_lt (map (fun x => x - start) (vals a)).
Proof. exact code_absolute_int. Qed.
Print Assumptions C02_absolute_int.

(* -- sentence 4: duplicates, fractional values, unsupported types are rejected, not coerced *)
Theorem C02_rejects_duplicates : forall i l r, holds_steps i l -> ~ NoDup l -> gen_init i r = Err.
Proof. exact code_init_rejects_duplicates. Qed.
Print Assumptions C02_rejects_duplicates.

Theorem C02_rejects_fractional : forall i ns q r, element_container i ns -> In (NFloat q) ns ->
  (forall z, ~ (q == inject_Z z)%Q) -> gen_init i r = Err.
Proof. exact code_init_rejects_fractional. Qed.
Print Assumptions C02_rejects_fractional.

Theorem C02_rejects_unsupported_element : forall i ns n r, element_container i ns -> In n ns ->
  n = NStr \/ n = NNone \/ n = NNonFinite -> gen_init i r = Err.
Proof. exact code_init_rejects_unsupported_element. Qed.
Print Assumptions C02_rejects_unsupported_element.

Theorem C02_rejects_unsupported_container : forall r,
  gen_init IOther r = Err /\ gen_init IArrNd r = Err.
Proof. exact code_init_rejects_unsupported_container. Qed.
Print Assumptions C02_rejects_unsupported_container.

Theorem C02_rejects_non_bool_flag : forall i, gen_init i RBad = Err.
Proof. exact code_init_rejects_bad_flag. Qed.
Print Assumptions C02_rejects_non_bool_flag.

(* integral floats are not "coerced": they are the integers they equal *)
Theorem C02_integral_floats_are_ints : forall (l : list Z) r,
  gen_init (IList (map (fun z => NFloat (inject_Z z)) l)) r = gen_init (IList (map NInt l)) r /\
  gen_init (IArr (map (fun z => NFloat (inject_Z z)) l)) r = gen_init (IIndex l) r.
Proof. exact code_init_integral_floats. Qed.
Print Assumptions C02_integral_floats_are_ints.

(* -- check_fh: accepted exactly when non-empty and (if enforced) relative; horizon unchanged *)
Theorem C02_check_fh : forall x e f,
  gen_check_fh x e = Ok f <->
  (match x with InRaw i => gen_init i (RBool true) = Ok f | InFh g => g = f end) /\
  vals f <> [] /\ (e = true -> rel f = true).
Proof. exact code_check_fh. Qed.
Print Assumptions C02_check_fh.

(* hypotheses are satisfiable by a non-trivial instance: unsorted steps straddling zero, given as a
   list mixing an int, an integral float and a bool, negative cutoff *)
Example C02_nonvacuous :
  holds_steps (IList [NInt 3; NFloat (Qmake (-2) 1); NBool false; NInt 1]) [3; -2; 0; 1] /\
  NoDup [3; -2; 0; 1] /\
  gen_init (IList [NInt 3; NFloat (Qmake (-2) 1); NBool false; NInt 1]) (RBool true)
    = Ok (mkfh [-2; 0; 1; 3] true) /\
  wf (mkfh [-2; 0; 1; 3] true) /\
  gen_to_absolute (mkfh [-2; 0; 1; 3] true) (Some (-5)) = Ok (mkfh [-7; -5; -4; -2] false) /\
  gen_to_in_sample (mkfh [-7; -5; -4; -2] false) (Some (-5)) = Ok (mkfh [-7; -5] false) /\
  gen_to_out_of_sample (mkfh [-7; -5; -4; -2] false) (Some (-5)) = Ok (mkfh [-4; -2] false) /\
  gen_to_indexer (mkfh [-7; -5; -4; -2] false) (Some (-5)) true = Ok [-3; -1; 0; 2].
Proof. exact ex_nonvacuous. Qed.
