(* C03 bridge: what is regenerated from /repo on this run -
     C03/Site.v  (translator/sites_c03.py): cutoff bookkeeping of _set_y_X / _update_y_X, the
                 refit of update, and EVERY prediction-index site of the forecasters in scope;
     C11/Gen.v   (translator/naive_c11.py): ForecastingHorizon.to_absolute / to_relative /
                 to_absolute_int, NaiveForecaster.fit / _predict_last_window, the time axis of
                 PolynomialTrendForecaster;
   (Site.v also holds the regenerated _set_fh of the optional-horizon mixin) -
   is, for all arguments, the hand model (Model.v) the theorems are proved about.  `gen_model_run`
   assembles the program semantics from the regenerated pieces only; Props.v restates the key
   theorems about it. *)
From Coq Require Import ZArith QArith List Bool Lia ZifyBool.
Require Import SkV.Lib.Base SkV.Lib.ZRange SkV.C11.Model SkV.C11.Proofs SkV.C11.Gen SkV.C11.Bridge.
Require Import SkV.C03.Model SkV.C03.Proofs SkV.C03.Site.
Import ListNotations.
Open Scope Z_scope.

(* ---- cutoff ------------------------------------------------------------------------------------------ *)

(* y.index[p] for a python position p (negative = from the end) on the contiguous index of s *)
Definition label_at (s : series) (p : Z) : Z :=
  t0 s + (if p <? 0 then zlen (ys s) + p else p).

Lemma bridge_fit_cutoff s : label_at s gen_fit_cutoff_pos = last_time s.
Proof.
  unfold label_at, gen_fit_cutoff_pos, last_time.
  match goal with |- context [if ?c then _ else _] => destruct c eqn:? end; lia.
Qed.

Lemma bridge_update_predict_restores_cutoff : gen_update_predict_restores_cutoff = true.
Proof. reflexivity. Qed.

Lemma bridge_fit_rejects_empty : gen_fit_allow_empty = false /\ gen_update_allow_empty = true.
Proof. split; reflexivity. Qed.

Definition gen_fit_state (s : series) : state :=
  {| obs := s; cutoff := label_at s gen_fit_cutoff_pos |}.
Lemma bridge_fit_state s : gen_fit_state s = fit_state s.
Proof. unfold gen_fit_state, fit_state. rewrite bridge_fit_cutoff. reflexivity. Qed.

(* _update_y_X on a batch whose first time point is `fst b`: what the regenerated body does to a
   batch of that length (gen_update_effect: Some p = merge and set the cutoff to position p) *)
Definition gen_update_state (st : state) (b : Z * list oq) : state :=
  match gen_update_effect (zlen (snd b)) with
  | Some p => {| obs := {| t0 := t0 (obs st); ys := ys (obs st) ++ snd b |};
                 cutoff := label_at {| t0 := fst b; ys := snd b |} p |}
  | None => st
  end.
Ltac split_bools :=
  repeat match goal with
         | |- context [if ?c then _ else _] =>
             match type of c with bool => destruct c eqn:?; cbv beta iota zeta end
         end.
Lemma bridge_update_state st b : gen_update_state st b = update_state st b.
Proof.
  unfold gen_update_state, update_state, gen_update_effect, label_at.
  destruct b as [tb l]. cbn [fst snd t0 ys]. destruct l as [|x l].
  - change (zlen (@nil oq)) with 0. split_bools; first [reflexivity | exfalso; lia].
  - pose proof (zlen_nonneg l) as Hl. rewrite !zlen_cons. split_bools; try (exfalso; lia); f_equal; lia.
Qed.

Definition gen_run_state (s : series) (ups : list (Z * list oq)) : state :=
  fold_left gen_update_state ups (gen_fit_state s).
Lemma bridge_fold ups : forall st, fold_left gen_update_state ups st = fold_left update_state ups st.
Proof.
  induction ups as [|b t IH]; intro st; [reflexivity|]. cbn [fold_left].
  rewrite bridge_update_state. apply IH.
Qed.
Lemma bridge_run_state s ups : gen_run_state s ups = run_state s ups.
Proof. unfold gen_run_state, run_state. rewrite bridge_fit_state. apply bridge_fold. Qed.

Fixpoint gen_cutoff_trace (st : state) (ups : list (Z * list oq)) : list Z :=
  cutoff st :: match ups with [] => [] | b :: t => gen_cutoff_trace (gen_update_state st b) t end.
Lemma bridge_cutoff_trace ups : forall st, gen_cutoff_trace st ups = cutoff_trace st ups.
Proof.
  induction ups as [|b t IH]; intro st; [reflexivity|]. cbn [gen_cutoff_trace cutoff_trace].
  rewrite bridge_update_state, IH. reflexivity.
Qed.

(* ---- prediction index ------------------------------------------------------------------------------------ *)

(* every index site found in the scope labels the step r from cutoff c by c + r *)
Theorem bridge_index_sites : Forall (fun f => forall c r, f c r = c + r) gen_index_sites.
Proof. unfold gen_index_sites. repeat constructor; intros c r; apply bridge_fh_abs. Qed.

Lemma bridge_adapter_position start c r : gen_adapter_position start c r = c + r - start.
Proof. unfold gen_adapter_position, gen_fh_abs_int, gen_fh_abs. lia. Qed.

(* the site the window forecasters go through stands for all of them (bridge_index_sites) *)
Definition gen_pred_index (st : state) (h : horizon) : list Z :=
  match h with
  | Rel l => map (gen_index_sktime_BaseWindowForecaster_predict_fixed_cutoff (cutoff st)) l
  | Abs l => l                                  (* to_absolute is the identity on an absolute horizon *)
  end.
Lemma bridge_pred_index st h : gen_pred_index st h = pred_index st h.
Proof.
  unfold gen_pred_index, pred_index, to_absolute. destruct h as [l|l]; [|reflexivity].
  apply map_ext. intro r. apply bridge_fh_abs.
Qed.

Definition gen_to_relative (c : Z) (h : horizon) : list Z :=
  match h with Rel l => l | Abs l => map (gen_fh_rel c) l end.
Lemma bridge_to_relative c h : gen_to_relative c h = to_relative c h.
Proof.
  unfold gen_to_relative, to_relative. destruct h as [l|l]; [reflexivity|].
  apply map_ext. intro t. apply bridge_fh_rel.
Qed.

(* ---- values of the two modelled leaves, from the regenerated fit / kernel / time axis ------------------ *)
Definition gen_leaf_values (f : fc) (train : series) (st : state) (h : horizon) : res (list oq) :=
  let rel := gen_to_relative (cutoff st) h in
  match f with
  | FNaive s sp wlo =>
      match gen_resolve_wl s sp wlo (zlen (ys train)) with
      | Ok wl => gen_naive_predict_wl s sp wl (ys (obs st)) rel
      | Err => Err
      end
  | FPoly degree ic =>
      match poly_fit degree ic (ys train) with
      | Ok b => Ok (map (fun r => Some (pval (poly_k0 ic) b
                          (inject_Z (gen_poly_pred_time (t0 (obs st)) (cutoff st) r)))) rel)
      | Err => Err
      end
  end.
Lemma bridge_leaf_values f train st h : gen_leaf_values f train st h = leaf_values f train st h.
Proof.
  unfold gen_leaf_values, leaf_values. cbv zeta. rewrite bridge_to_relative.
  destruct f as [s sp wlo|degree ic].
  - rewrite bridge_resolve_wl. destruct (resolve_wl s sp wlo (zlen (ys train))); [|reflexivity].
    apply bridge_naive_predict_wl.
  - destruct (poly_fit degree ic (ys train)); [|reflexivity]. f_equal. apply map_ext. intro r.
    rewrite bridge_poly_pred_time. reflexivity.
Qed.

Definition gen_model_run (leaf : option fc) (s : series) (ups : list (Z * list oq)) (refit : bool)
           (h : horizon) : list Z * list Z * option (res (list oq)) :=
  let st := gen_run_state s ups in
  let train := if refit && gen_refit_on_all_data then obs st else s in
  (gen_cutoff_trace (gen_fit_state s) ups, gen_pred_index st h,
   match leaf with Some f => Some (gen_leaf_values f train st h) | None => None end).
Theorem bridge_model_run leaf s ups refit h :
  gen_model_run leaf s ups refit h = model_run leaf s ups refit h.
Proof.
  unfold gen_model_run, model_run. cbv zeta.
  rewrite bridge_run_state, bridge_fit_state, bridge_cutoff_trace, bridge_pred_index.
  unfold gen_refit_on_all_data. rewrite andb_true_r.
  destruct leaf as [f|]; [|reflexivity]. rewrite bridge_leaf_values. reflexivity.
Qed.

(* ---- which horizon predict uses: the regenerated _set_fh of the optional-horizon mixin (Site.v) ---------- *)

(* fit calls _set_fh(hf) on the unfitted forecaster, predict calls _set_fh(hp) on the fitted one
   (pinned: predict = check_is_fitted; _set_fh(fh); _predict(self.fh, ...)); a refit in between
   calls _set_fh with the remembered value on a forecaster marked unfitted, which keeps it.
   hf / hp = the horizons check_fh returns for the arguments (None = no argument) *)
Definition code_horizon (hf hp : option (list Z)) : res (option (list Z)) :=
  match gen_set_fh_optional false None hf with
  | Ok remembered => gen_set_fh_optional true remembered hp
  | Err => Err
  end.
Theorem bridge_horizon_used hf hp :
  code_horizon hf hp =
  match used_fh (option_map Rel hf) (option_map Rel hp) with
  | Ok h => Ok (Some (hlist h))
  | Err => Err
  end.
Proof.
  unfold code_horizon, gen_set_fh_optional, used_fh.
  destruct hf as [lf|]; destruct hp as [lp|]; cbn [option_map hlist]; split_bools; reflexivity.
Qed.
(* a forecaster marked unfitted keeps the remembered horizon when refitted with it or with none *)
Lemma bridge_refit_keeps_horizon old :
  gen_set_fh_optional false old old = Ok old /\ gen_set_fh_optional false old None = Ok old.
Proof. unfold gen_set_fh_optional. destruct old; split; split_bools; reflexivity. Qed.
