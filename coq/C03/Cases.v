(* C03 correspondence: a case is a program, the implementation's (cutoff trace, [(label, value)])
   on it, and the same for the program shifted by k.  None = the implementation raised. *)
From Coq Require Import ZArith QArith Qabs List Bool.
Require Import SkV.Lib.Base SkV.Lib.ZRange SkV.C11.Model SkV.C11.Cases SkV.C03.Model.
Import ListNotations.
Open Scope Z_scope.

Definition zlist_eqb (a b : list Z) : bool :=
  (length a =? length b)%nat && forallb (fun p => fst p =? snd p) (combine a b).

Definition impl_out := option (list Z * list (Z * oq)).

Definition check_res (m : list Z * list Z * option (res (list oq))) (o : impl_out) : bool :=
  match m, o with
  | (trace, idx, mv), Some (cuts, pairs) =>
      zlist_eqb trace cuts && zlist_eqb idx (map fst pairs) &&
      match mv with
      | Some (Ok vals) => oqs_close vals (map snd pairs)
      | Some Err => false
      | None => true
      end
  | (_, _, Some Err), None => true
  | _, None => false
  end.

Definition same_values (a b : impl_out) : bool :=
  match a, b with
  | Some (_, pa), Some (_, pb) => oqs_close (map snd pa) (map snd pb)
  | None, None => true
  | _, _ => false
  end.

(* hf / hp: the horizon passed to fit / to predict (None = not passed) *)
Inductive case :=
  | CRun (leaf : option fc) (s : series) (ups : list (Z * list oq)) (refit : bool)
         (hf hp : option horizon) (o : impl_out) (k : Z) (o2 : impl_out)
  (* the same with an earlier predict(hpre) after the first j updates, which returned the labels
     ipre (ipre2 on the shifted series) *)
  | CRunP (leaf : option fc) (s : series) (ups : list (Z * list oq)) (refit : bool)
          (hf hp : option horizon) (o : impl_out) (k : Z) (o2 : impl_out)
          (j : nat) (hpre : horizon) (ipre ipre2 : list Z).

Definition check_run (leaf : option fc) (s : series) (ups : list (Z * list oq)) (refit : bool)
           (hf hp : option horizon) (o : impl_out) (k : Z) (o2 : impl_out) : bool :=
  match program_run leaf s ups refit hf hp,
        program_run leaf (shift_series k s) (map (shift_batch k) ups) refit
                    (option_map (shift_h k) hf) (option_map (shift_h k) hp) with
  | Ok m, Ok m2 => check_res m o && check_res m2 o2 && same_values o o2
  | _, _ => false
  end.

Definition check (c : case) : bool :=
  match c with
  | CRun leaf s ups refit hf hp o k o2 => check_run leaf s ups refit hf hp o k o2
  | CRunP leaf s ups refit hf hp o k o2 j hpre ipre ipre2 =>
      check_run leaf s ups refit hf hp o k o2
      && zlist_eqb (earlier_index s ups j hpre) ipre
      && zlist_eqb (earlier_index (shift_series k s) (map (shift_batch k) ups) j (shift_h k hpre)) ipre2
  end.

Fixpoint mism (cs : list (Z * case)) : list Z :=
  match cs with
  | [] => []
  | (i, c) :: t => if check c then mism t else i :: mism t
  end.
