(* C03 model: the time axis of the forecasting API over integer time.
   A program is  fit(series[, fh]) ; update(batch)* ; predict([fh]).
   For every forecaster the model gives the CUTOFF after each step and the prediction INDEX
   (_set_y_X / _update_y_X / fh.to_absolute(cutoff)); for the NaiveForecaster and
   PolynomialTrendForecaster leaves it also gives the VALUES, through the C11 kernels
   (window ending at the cutoff; parameters from fit, or from the refit that
   update(update_params=True) performs).  Executable definitions only. *)
From Coq Require Import ZArith QArith List Bool.
Require Import SkV.Lib.Base SkV.Lib.ZRange SkV.C11.Model.
Import ListNotations.
Open Scope Z_scope.

Record series := { t0 : Z; ys : list oq }.          (* observation i is at time t0 + i *)
Inductive horizon := Rel (l : list Z) | Abs (l : list Z).
Inductive fc := FNaive (s : strategy) (sp : Z) (wlo : option Z) | FPoly (degree : Z) (ic : bool).

Definition last_time (s : series) : Z := t0 s + zlen (ys s) - 1.
Definition hlist (h : horizon) : list Z := match h with Rel l => l | Abs l => l end.
Definition to_relative (c : Z) (h : horizon) : list Z :=
  match h with Rel l => l | Abs l => map (fun t => t - c) l end.
Definition to_absolute (c : Z) (h : horizon) : list Z :=
  match h with Rel l => map (fun r => c + r) l | Abs l => l end.

(* _OptionalForecastingHorizonMixin: the horizon passed to predict, else the one remembered from fit *)
Definition used_fh (at_fit at_predict : option horizon) : res horizon :=
  match at_predict, at_fit with
  | Some h, _ => Ok h
  | None, Some h => Ok h
  | None, None => Err
  end.

(* observed data and cutoff *)
Record state := { obs : series; cutoff : Z }.
Definition fit_state (s : series) : state := {| obs := s; cutoff := last_time s |}.
(* _update_y_X: nothing happens for an empty batch; otherwise the batch (which starts at time
   `fst b`) is merged in and the cutoff becomes ITS last time point *)
Definition update_state (st : state) (b : Z * list oq) : state :=
  match snd b with
  | [] => st
  | _ => {| obs := {| t0 := t0 (obs st); ys := ys (obs st) ++ snd b |};
            cutoff := fst b + zlen (snd b) - 1 |}
  end.
(* update_predict(y_new, cv): the data the moving-cutoff loop has shown to the forecaster (`seen`)
   are remembered, but the cutoff is put back where it was (detached cutoff) *)
Definition update_predict_state (st : state) (seen : list oq) : state :=
  {| obs := {| t0 := t0 (obs st); ys := ys (obs st) ++ seen |}; cutoff := cutoff st |}.
Definition run_state (s : series) (ups : list (Z * list oq)) : state :=
  fold_left update_state ups (fit_state s).
(* the cutoff after fit and after each update *)
Fixpoint cutoff_trace (st : state) (ups : list (Z * list oq)) : list Z :=
  cutoff st :: match ups with [] => [] | b :: t => cutoff_trace (update_state st b) t end.

Definition pred_index (st : state) (h : horizon) : list Z := to_absolute (cutoff st) h.

(* values of the two leaves whose kernels are modelled: `train` is the series the parameters were
   estimated on (the fit series, or all observed data after a refit) *)
Definition leaf_values (f : fc) (train : series) (st : state) (h : horizon) : res (list oq) :=
  let rel := to_relative (cutoff st) h in
  match f with
  | FNaive s sp wlo =>
      match resolve_wl s sp wlo (zlen (ys train)) with
      | Ok wl => naive_predict_wl s sp wl (ys (obs st)) rel
      | Err => Err
      end
  | FPoly degree ic =>
      match poly_fit degree ic (ys train) with
      | Ok b => Ok (map (fun r => Some (pval (poly_k0 ic) b
                                             (inject_Z (cutoff st - t0 (obs st) + r)))) rel)
      | Err => Err
      end
  end.

Definition model_run (leaf : option fc) (s : series) (ups : list (Z * list oq)) (refit : bool)
           (h : horizon) : list Z * list Z * option (res (list oq)) :=
  let st := run_state s ups in
  let train := if refit then obs st else s in
  (cutoff_trace (fit_state s) ups, pred_index st h,
   match leaf with Some f => Some (leaf_values f train st h) | None => None end).

(* the whole program as the user writes it: hf / hp = the horizon passed to fit / to predict.
   Only predict needs a horizon: the updates - with or without the refit of update_params=True -
   never look at it (since 53a6ca7 the refit hands over the horizon seen so far, IF ANY, instead
   of requiring one), so `refit` and `hf` are independent. *)
Definition program_run (leaf : option fc) (s : series) (ups : list (Z * list oq)) (refit : bool)
           (hf hp : option horizon) : res (list Z * list Z * option (res (list oq))) :=
  match used_fh hf hp with
  | Ok h => Ok (model_run leaf s ups refit h)
  | Err => Err
  end.

(* a history with TWO predict calls: fit ; the first j updates ; predict(hpre) ; the other updates ;
   predict(h).  predict is a function of the state (and of the horizon of THIS call) alone - it
   leaves no trace in the state, in particular the horizon of the earlier call is not part of it -
   so the earlier call returns the index of `hpre` from the cutoff after j updates and the final
   call is `program_run` unchanged (C03_predict_index holds at every state for every horizon). *)
Definition earlier_index (s : series) (ups : list (Z * list oq)) (j : nat) (hpre : horizon) : list Z :=
  pred_index (run_state s (firstn j ups)) hpre.

(* shifting the time axis by k *)
Definition shift_series (k : Z) (s : series) : series := {| t0 := t0 s + k; ys := ys s |}.
Definition shift_batch (k : Z) (b : Z * list oq) : Z * list oq := (fst b + k, snd b).
Definition shift_h (k : Z) (h : horizon) : horizon :=
  match h with Rel l => Rel l | Abs l => Abs (map (fun t => t + k) l) end.
Definition shift_state (k : Z) (st : state) : state :=
  {| obs := shift_series k (obs st); cutoff := cutoff st + k |}.
