(* C03 proofs: prediction index, cutoff after fit / update / a whole history, one value per step
   and finiteness for the modelled leaves, shift-equivariance. *)
From Coq Require Import ZArith QArith List Bool Lia ZifyBool.
Require Import SkV.Lib.Base SkV.Lib.ZRange SkV.C11.Model SkV.C11.Proofs SkV.C03.Model.
Import ListNotations.
Open Scope Z_scope.
Ltac Zify.zify_post_hook ::= Z.to_euclidean_division_equations.

(* ---- prediction index ------------------------------------------------------------------------------ *)

Lemma sorted_lt_map_add c : forall l, sorted_lt l -> sorted_lt (map (fun r => c + r) l).
Proof.
  induction l as [|a t IH]; intro H; [exact I|].
  destruct t as [|b t']; [exact I|].
  cbn [map sorted_lt] in *. destruct H as [Hab Hs]. split; [lia|]. apply IH. exact Hs.
Qed.

Lemma predict_index st h :
  length (pred_index st h) = length (hlist h) /\
  (forall l, h = Rel l -> pred_index st h = map (fun r => cutoff st + r) l) /\
  (forall l, h = Abs l -> pred_index st h = l) /\
  (sorted_lt (hlist h) -> sorted_lt (pred_index st h)).
Proof.
  unfold pred_index, to_absolute. destruct h as [l|l]; cbn [hlist].
  - rewrite map_length. repeat split.
    + intros l' E. inversion E. reflexivity.
    + intros l' E. discriminate.
    + apply sorted_lt_map_add.
  - repeat split.
    + intros l' E. discriminate.
    + intros l' E. inversion E. reflexivity.
    + tauto.
Qed.

Lemma used_fh_spec hf hp h : used_fh hf hp = Ok h ->
  (hp = Some h) \/ (hp = None /\ hf = Some h).
Proof.
  unfold used_fh. destruct hp as [a|]; [intro E; inversion E; left; reflexivity|].
  destruct hf as [a|]; [intro E; inversion E; right; split; reflexivity|discriminate].
Qed.

(* a program needs its horizon only at predict: given at fit, at predict or at both, the run is the
   same - whatever the updates and whether or not they refit (in particular a refit BEFORE any
   horizon has been seen succeeds); without any horizon predict is an error *)
Lemma program_horizon leaf s ups refit h :
  program_run leaf s ups refit None (Some h) = Ok (model_run leaf s ups refit h) /\
  program_run leaf s ups refit (Some h) None = Ok (model_run leaf s ups refit h) /\
  program_run leaf s ups refit (Some h) (Some h) = Ok (model_run leaf s ups refit h) /\
  program_run leaf s ups refit None None = Err.
Proof. repeat split. Qed.

(* ---- cutoff -------------------------------------------------------------------------------------------- *)

Lemma cutoff_after_fit s : cutoff (fit_state s) = last_time s.
Proof. reflexivity. Qed.

Lemma cutoff_after_update st tb b :
  cutoff (update_state st (tb, b)) = match b with [] => cutoff st | _ => tb + zlen b - 1 end.
Proof. unfold update_state. cbn [snd fst]. destruct b; reflexivity. Qed.

(* the cutoff after a whole history, written without the state *)
Definition next_cutoff (c : Z) (b : Z * list oq) : Z :=
  match snd b with [] => c | _ => fst b + zlen (snd b) - 1 end.

Lemma cutoff_fold : forall ups st,
  cutoff (fold_left update_state ups st) = fold_left next_cutoff ups (cutoff st).
Proof.
  induction ups as [|b t IH]; intro st; [reflexivity|].
  cbn [fold_left]. rewrite IH. f_equal. unfold update_state, next_cutoff. destruct (snd b); reflexivity.
Qed.

Lemma cutoff_after_history s ups :
  cutoff (run_state s ups) = fold_left next_cutoff ups (last_time s).
Proof. unfold run_state. rewrite cutoff_fold. reflexivity. Qed.

Lemma cutoff_trace_spec : forall ups st,
  length (cutoff_trace st ups) = S (length ups) /\
  last (cutoff_trace st ups) 0 = cutoff (fold_left update_state ups st) /\
  hd 0 (cutoff_trace st ups) = cutoff st.
Proof.
  induction ups as [|b t IH]; intro st; [repeat split|].
  cbn [cutoff_trace fold_left length]. destruct (IH (update_state st b)) as [H1 [H2 H3]].
  repeat split.
  - rewrite H1. reflexivity.
  - rewrite <- H2. destruct t; reflexivity.
Qed.

(* when every non-empty batch continues the observed series, the cutoff is always the last
   observed time point and the first time point never changes *)
Definition coherent (st : state) : Prop := cutoff st = last_time (obs st).
Fixpoint contiguous (st : state) (ups : list (Z * list oq)) : Prop :=
  match ups with
  | [] => True
  | b :: t => (snd b = [] \/ fst b = cutoff st + 1) /\ contiguous (update_state st b) t
  end.

Lemma coherent_update st b : coherent st -> (snd b = [] \/ fst b = cutoff st + 1) ->
  coherent (update_state st b) /\ t0 (obs (update_state st b)) = t0 (obs st).
Proof.
  unfold coherent, update_state, last_time. intros Hc Hb. destruct b as [tb l]. cbn [fst snd] in *.
  destruct l as [|x l]; [split; [exact Hc|reflexivity]|].
  destruct Hb as [Hb|Hb]; [discriminate|]. cbn [cutoff obs t0 ys]. split; [|reflexivity].
  rewrite zlen_app. lia.
Qed.

Lemma coherent_history : forall ups st, coherent st -> contiguous st ups ->
  coherent (fold_left update_state ups st) /\
  t0 (obs (fold_left update_state ups st)) = t0 (obs st).
Proof.
  induction ups as [|b t IH]; intros st Hc Hk; [split; [exact Hc|reflexivity]|].
  cbn [fold_left]. destruct Hk as [Hb Hk]. destruct (coherent_update st b Hc Hb) as [Hc' Ht].
  destruct (IH (update_state st b) Hc' Hk) as [H1 H2]. split; [exact H1|]. rewrite H2. exact Ht.
Qed.

Lemma coherent_run s ups : contiguous (fit_state s) ups ->
  cutoff (run_state s ups) = last_time (obs (run_state s ups)) /\
  t0 (obs (run_state s ups)) = t0 s.
Proof. intro H. apply (coherent_history ups (fit_state s)); [reflexivity|exact H]. Qed.

(* ---- shifting the time axis ------------------------------------------------------------------------------ *)

Lemma shift_fit k s : fit_state (shift_series k s) = shift_state k (fit_state s).
Proof. unfold fit_state, shift_state, shift_series, last_time. cbn [obs cutoff t0 ys]. f_equal. lia. Qed.

Lemma shift_update k st b :
  update_state (shift_state k st) (shift_batch k b) = shift_state k (update_state st b).
Proof.
  unfold update_state, shift_batch, shift_state, shift_series. destruct b as [tb l]. cbn [fst snd].
  destruct l as [|x l]; [reflexivity|]. cbn [obs cutoff t0 ys]. f_equal. lia.
Qed.

Lemma shift_fold k : forall ups st,
  fold_left update_state (map (shift_batch k) ups) (shift_state k st)
  = shift_state k (fold_left update_state ups st).
Proof.
  induction ups as [|b t IH]; intro st; [reflexivity|].
  cbn [map fold_left]. rewrite shift_update. apply IH.
Qed.

Lemma shift_run k s ups :
  run_state (shift_series k s) (map (shift_batch k) ups) = shift_state k (run_state s ups).
Proof. unfold run_state. rewrite shift_fit. apply shift_fold. Qed.

Lemma shift_trace k : forall ups st,
  cutoff_trace (shift_state k st) (map (shift_batch k) ups)
  = map (fun c => c + k) (cutoff_trace st ups).
Proof.
  induction ups as [|b t IH]; intro st; [reflexivity|].
  cbn [map cutoff_trace]. f_equal. rewrite shift_update. apply IH.
Qed.

Lemma shift_index k st h :
  pred_index (shift_state k st) (shift_h k h) = map (fun t => t + k) (pred_index st h).
Proof.
  unfold pred_index, to_absolute, shift_h, shift_state. cbn [cutoff]. destruct h as [l|l]; [|reflexivity].
  rewrite map_map. apply map_ext. intro r. lia.
Qed.

Lemma shift_relative k c h : to_relative (c + k) (shift_h k h) = to_relative c h.
Proof.
  unfold to_relative, shift_h. destruct h as [l|l]; [reflexivity|].
  rewrite map_map. apply map_ext. intro t. lia.
Qed.

(* the values of the modelled leaves do not depend on where the time axis starts *)
Lemma shift_leaf_values k f train st h :
  leaf_values f (shift_series k train) (shift_state k st) (shift_h k h) = leaf_values f train st h.
Proof.
  unfold leaf_values. cbn [shift_state shift_series cutoff obs ys t0]. rewrite shift_relative.
  destruct f as [s sp wlo|degree ic]; [reflexivity|].
  destruct (poly_fit degree ic (ys train)); [|reflexivity]. f_equal. apply map_ext. intro r.
  do 3 f_equal. lia.
Qed.

Lemma shift_equivariance k leaf s ups refit h :
  model_run leaf (shift_series k s) (map (shift_batch k) ups) refit (shift_h k h)
  = let '(trace, idx, v) := model_run leaf s ups refit h in
    (map (fun c => c + k) trace, map (fun t => t + k) idx, v).
Proof.
  unfold model_run. rewrite shift_run, shift_fit, shift_trace, shift_index. cbv zeta.
  f_equal. destruct leaf as [f|]; [|reflexivity]. f_equal.
  destruct refit.
  - change (obs (shift_state k (run_state s ups))) with (shift_series k (obs (run_state s ups))).
    apply shift_leaf_values.
  - apply shift_leaf_values.
Qed.

(* ---- one value per requested step ------------------------------------------------------------------------ *)

Lemma index_all_length : forall (l : list oq) idx v, index_all l idx = Ok v -> length v = length idx.
Proof.
  induction idx as [|i t IH]; intros v H.
  - inversion H. reflexivity.
  - cbn [index_all] in H. destruct (zget l i); [|discriminate].
    destruct (index_all l t) as [v'|]; [|discriminate]. inversion H. cbn [length]. f_equal.
    apply IH. reflexivity.
Qed.

Lemma kernel_length s sp w hs v : kernel s sp w hs = Ok v -> length v = length hs.
Proof.
  unfold kernel, steps_vals, const_all. intro H.
  destruct ((zlen w =? 0) || all_nan w); [inversion H; apply map_length|].
  destruct s.
  - destruct (sp =? 1); [inversion H; apply map_length|]. cbv zeta in H.
    apply index_all_length in H. rewrite map_length in H. exact H.
  - destruct (sp =? 1); [inversion H; apply map_length|]. cbv zeta in H.
    match type of H with (if ?c then _ else _) = _ => destruct c end; [|discriminate].
    apply index_all_length in H. rewrite map_length in H. exact H.
  - destruct (zlen w <? 2); [inversion H; apply map_length|].
    destruct (hd None w); [|discriminate]. destruct (last w None); [|discriminate].
    inversion H. apply map_length.
Qed.

Lemma leaf_one_value_per_step f train st h vals :
  all_pos (to_relative (cutoff st) h) -> leaf_values f train st h = Ok vals ->
  length vals = length (hlist h).
Proof.
  intros Hpos H. unfold leaf_values in H.
  assert (Hl : length (to_relative (cutoff st) h) = length (hlist h)).
  { destruct h; cbn [to_relative hlist]; [reflexivity|apply map_length]. }
  destruct f as [s sp wlo|degree ic].
  - destruct (resolve_wl s sp wlo (zlen (ys train))) as [wl|]; [|discriminate].
    rewrite predict_oos in H by exact Hpos. rewrite <- Hl.
    destruct (to_relative (cutoff st) h) as [|r t] eqn:E; [inversion H; reflexivity|].
    apply kernel_length in H. exact H.
  - destruct (poly_fit degree ic (ys train)); [|discriminate]. inversion H.
    rewrite map_length. exact Hl.
Qed.

(* ---- finite forecasts for finite data ------------------------------------------------------------------- *)

Definition finite (l : list oq) : Prop := forall x, In x l -> x <> None.

Lemma finite_cons x l : finite (x :: l) <-> x <> None /\ finite l.
Proof.
  unfold finite. split.
  - intro H. split; [apply H; left; reflexivity|intros y Hy; apply H; right; exact Hy].
  - intros [H1 H2] y [<-|Hy]; [exact H1|apply H2; exact Hy].
Qed.

Lemma finite_znth : forall l i, finite l -> 0 <= i < zlen l -> znth l i <> None.
Proof.
  induction l as [|x l IH]; intros i Hf Hi.
  - unfold zlen in Hi. cbn [length] in Hi. lia.
  - apply finite_cons in Hf. destruct Hf as [Hx Hl]. rewrite znth_cons.
    destruct (i =? 0) eqn:E; [exact Hx|]. apply IH; [exact Hl|]. rewrite zlen_cons in Hi. lia.
Qed.

Lemma in_skipn {A} (k : nat) (l : list A) x : In x (skipn k l) -> In x l.
Proof. intro H. rewrite <- (firstn_skipn k l). apply in_or_app. right. exact H. Qed.
Lemma in_firstn {A} (k : nat) (l : list A) x : In x (firstn k l) -> In x l.
Proof. intro H. rewrite <- (firstn_skipn k l). apply in_or_app. left. exact H. Qed.

Lemma finite_window ys c wl : finite ys -> finite (window ys c wl).
Proof.
  intros H x Hx. apply H. unfold window, zslice in Hx. apply in_firstn in Hx. apply in_skipn in Hx.
  exact Hx.
Qed.

Lemma finite_all_nan w : finite w -> w <> [] -> all_nan w = false.
Proof.
  intros Hf Hne. destruct w as [|x w]; [congruence|]. apply finite_cons in Hf. destruct Hf as [Hx _].
  destruct x; [reflexivity|congruence].
Qed.

Lemma finite_sel {A} P : forall (l : list A) i x, In x (sel P i l) -> In x l.
Proof.
  induction l as [|y l IH]; intros i x H; [exact H|]. cbn [sel] in H.
  destruct (P i); [destruct H as [<-|H]; [left; reflexivity|right; eapply IH; exact H]|].
  right. eapply IH. exact H.
Qed.

Lemma sel_nonempty {A} P : forall (l : list A) i j, i <= j < i + zlen l -> P j = true -> sel P i l <> [].
Proof.
  induction l as [|y l IH]; intros i j Hj HP.
  - unfold zlen in Hj. cbn [length] in Hj. lia.
  - cbn [sel]. rewrite zlen_cons in Hj. destruct (Z.eq_dec i j) as [->|Hne].
    + rewrite HP. discriminate.
    + destruct (P i); [discriminate|]. apply (IH (i + 1) j); [lia|exact HP].
Qed.

Lemma nanmean_finite l : finite l -> l <> [] -> nanmean l <> None.
Proof.
  intros Hf Hne. unfold nanmean. destruct l as [|x l]; [congruence|].
  apply finite_cons in Hf. destruct Hf as [Hx _]. destruct x as [q|]; [|congruence].
  cbn [somes flat_map app]. discriminate.
Qed.

Lemma finite_app (a b : list oq) : finite a -> finite b -> finite (a ++ b).
Proof. intros Ha Hb x Hx. apply in_app_or in Hx. destruct Hx as [Hx|Hx]; [apply Ha|apply Hb]; exact Hx. Qed.

(* the kernel on a NaN-free window returns a number for every step when the window holds a whole
   season (seasonal last / seasonal mean) resp. two points (drift) - which is what every
   configuration accepted by fit guarantees for out-of-sample forecasts (resolve_ok_bounds) *)
Lemma kernel_finite s sp w hs v :
  1 <= zlen w -> finite w -> sorted_lt hs -> all_pos hs ->
  match s with
  | SLast => 1 <= sp /\ zlen w = sp
  | SMean => 1 <= sp /\ (sp = 1 \/ sp <= zlen w)
  | SDrift => 2 <= zlen w
  end ->
  kernel s sp w hs = Ok v -> finite v.
Proof.
  intros Hwl Hf Hs Hp Hcfg H.
  assert (Hne : w <> []) by (intro E; subst w; unfold zlen in Hwl; cbn [length] in Hwl; lia).
  destruct s.
  - destruct Hcfg as [Hsp Hlen]. destruct (Z.eq_dec sp 1) as [->|Hsp1].
    + rewrite kernel_last in H. inversion H. intros x Hx. apply in_map_iff in Hx.
      destruct Hx as [h [<- _]]. apply finite_znth; [exact Hf|lia].
    + rewrite kernel_seasonal_last in H by (try assumption; lia). inversion H.
      intros x Hx. apply in_map_iff in Hx. destruct Hx as [h [<- _]].
      pose proof (Z.mod_pos_bound (h - 1) sp ltac:(lia)). apply finite_znth; [exact Hf|lia].
  - destruct Hcfg as [Hsp Hc]. destruct (Z.eq_dec sp 1) as [->|Hsp1].
    + rewrite kernel_mean in H. inversion H. intros x Hx. apply in_map_iff in Hx.
      destruct Hx as [h [<- _]]. apply nanmean_finite; assumption.
    + destruct Hc as [Hc|Hc]; [lia|].
      rewrite kernel_seasonal_mean in H by (try assumption; lia). inversion H.
      intros x Hx. apply in_map_iff in Hx. destruct Hx as [h [<- _]].
      unfold seasonal_mean_spec. apply nanmean_finite.
      * intros y Hy. apply Hf. eapply finite_sel. exact Hy.
      * pose proof (Z.mod_pos_bound (zlen w - 1 + h) sp ltac:(lia)) as B.
        apply (sel_nonempty _ w 0 ((zlen w - 1 + h) mod sp)); [lia|].
        unfold congb. apply Z.eqb_eq. rewrite Zminus_mod, Zmod_mod, Z.sub_diag.
        apply Z.mod_0_l. lia.
  - destruct (znth w 0) as [a|] eqn:Ea; [|exfalso; revert Ea; apply finite_znth; [exact Hf|lia]].
    destruct (znth w (zlen w - 1)) as [b|] eqn:Eb;
      [|exfalso; revert Eb; apply finite_znth; [exact Hf|lia]].
    rewrite (kernel_drift sp w a b hs) in H by assumption. inversion H.
    intros x Hx. apply in_map_iff in Hx. destruct Hx as [h [<- _]]. discriminate.
Qed.

(* lifted to the fitted NaiveForecaster / PolynomialTrendForecaster, after any updates: finite
   observations and an out-of-sample horizon give finite forecasts - for EVERY configuration the
   fit accepts (no exception left: drift on a single point and a seasonal mean over less than one
   season are rejected by fit since 9814f9c / ae04e61) *)
Lemma leaf_finite f train st h vals :
  finite (ys (obs st)) -> sorted_lt (to_relative (cutoff st) h) ->
  all_pos (to_relative (cutoff st) h) ->
  1 <= zlen (ys train) <= zlen (ys (obs st)) ->
  leaf_values f train st h = Ok vals -> finite vals.
Proof.
  intros Hf Hs Hp Hn H. unfold leaf_values in H. destruct f as [s sp wlo|degree ic].
  - destruct (resolve_wl s sp wlo (zlen (ys train))) as [wl|] eqn:Hres; [|discriminate].
    apply resolve_ok_bounds in Hres; [|lia]. destruct Hres as [Hwl Hcfg].
    rewrite predict_oos in H by exact Hp.
    destruct (to_relative (cutoff st) h) as [|r t] eqn:E; [inversion H; intros x []|].
    destruct (window_last (ys (obs st)) wl ltac:(lia)) as [_ Hlen].
    apply (kernel_finite s sp (window (ys (obs st)) (zlen (ys (obs st)) - 1) wl) (r :: t) vals);
      try assumption.
    + lia.
    + apply finite_window. exact Hf.
    + rewrite Hlen. destruct s; lia.
  - destruct (poly_fit degree ic (ys train)); [|discriminate]. inversion H.
    intros x Hx. apply in_map_iff in Hx. destruct Hx as [r [<- _]]. discriminate.
Qed.

(* the same for a whole program: the observed series only grows and stays finite *)
Lemma obs_grows : forall ups st,
  zlen (ys (obs st)) <= zlen (ys (obs (fold_left update_state ups st))).
Proof.
  induction ups as [|b t IH]; intro st; [cbn [fold_left]; lia|].
  cbn [fold_left]. specialize (IH (update_state st b)).
  assert (zlen (ys (obs st)) <= zlen (ys (obs (update_state st b)))); [|lia].
  unfold update_state. destruct (snd b) as [|x l]; [lia|].
  cbn [obs ys]. rewrite zlen_app. pose proof (zlen_nonneg (x :: l)). lia.
Qed.

Lemma obs_finite : forall ups st, finite (ys (obs st)) ->
  (forall b, In b ups -> finite (snd b)) ->
  finite (ys (obs (fold_left update_state ups st))).
Proof.
  induction ups as [|b t IH]; intros st Hf Hb; [exact Hf|].
  cbn [fold_left]. apply IH.
  - unfold update_state. pose proof (Hb b (or_introl eq_refl)) as Hfb.
    destruct (snd b) as [|x l]; [exact Hf|]. cbn [obs ys]. apply finite_app; assumption.
  - intros b' Hb'. apply Hb. right. exact Hb'.
Qed.

Lemma run_finite f s ups refit h trace idx vals :
  1 <= zlen (ys s) -> finite (ys s) -> (forall b, In b ups -> finite (snd b)) ->
  sorted_lt (to_relative (cutoff (run_state s ups)) h) ->
  all_pos (to_relative (cutoff (run_state s ups)) h) ->
  model_run (Some f) s ups refit h = (trace, idx, Some (Ok vals)) -> finite vals.
Proof.
  intros Hn Hf Hb Hs Hp H. unfold model_run in H.
  assert (Hv : leaf_values f (if refit then obs (run_state s ups) else s) (run_state s ups) h
               = Ok vals) by (inversion H; reflexivity).
  clear H.
  pose proof (obs_grows ups (fit_state s)) as Hg. cbn [fit_state obs] in Hg.
  pose proof (obs_finite ups (fit_state s) Hf Hb) as Hfo.
  fold (run_state s ups) in Hg, Hfo.
  eapply leaf_finite; [exact Hfo|exact Hs|exact Hp| |exact Hv].
  destruct refit; lia.
Qed.
