From Coq Require Import ZArith QArith List Bool.
Require Import SkV.Lib.Base SkV.Lib.ZRange SkV.C11.Model SkV.C03.Model SkV.C03.Proofs.
Import ListNotations.
Open Scope Z_scope.
Theorem C03_stub : True. Proof. exact stub_true. Qed.
Print Assumptions C03_stub.
