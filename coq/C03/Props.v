(* C03 property theorems (minimum claim): cutoff and prediction index of every program
   fit ; update* ; predict, for all integer series and horizons; one value per step, finiteness and
   shift-equivariance for the NaiveForecaster / PolynomialTrendForecaster leaves whose values are
   modelled.  Statements only, each closed by `exact`. *)
From Coq Require Import ZArith QArith List Bool.
Require Import SkV.Lib.Base SkV.Lib.ZRange SkV.C11.Model SkV.C11.Proofs SkV.C03.Model SkV.C03.Proofs.
Require Import SkV.C11.Gen SkV.C11.Bridge SkV.C03.Site SkV.C03.Bridge.
Import ListNotations.
Open Scope Z_scope.

(* one label per requested step: cutoff + step for relative horizons, the requested time points for
   absolute ones, strictly increasing *)
Theorem C03_predict_index : forall st h,
  length (pred_index st h) = length (hlist h) /\
  (forall l, h = Rel l -> pred_index st h = map (fun r => cutoff st + r) l) /\
  (forall l, h = Abs l -> pred_index st h = l) /\
  (sorted_lt (hlist h) -> sorted_lt (pred_index st h)).
Proof. exact predict_index. Qed.
Print Assumptions C03_predict_index.

(* the horizon used is the one passed to predict, else the one remembered from fit *)
Theorem C03_fh_from_fit_or_predict : forall hf hp h, used_fh hf hp = Ok h ->
  hp = Some h \/ (hp = None /\ hf = Some h).
Proof. exact used_fh_spec. Qed.
Print Assumptions C03_fh_from_fit_or_predict.

(* ... and that is the only place a horizon is needed: passed to fit, to predict or to both, the
   program gives the same cutoffs, labels and values, whatever the updates in between and whether
   or not they refit (update_params=True) - a refit before any horizon has been seen included *)
Theorem C03_horizon_needed_only_at_predict : forall leaf s ups refit h,
  program_run leaf s ups refit None (Some h) = Ok (model_run leaf s ups refit h) /\
  program_run leaf s ups refit (Some h) None = Ok (model_run leaf s ups refit h) /\
  program_run leaf s ups refit (Some h) (Some h) = Ok (model_run leaf s ups refit h) /\
  program_run leaf s ups refit None None = Err.
Proof. exact program_horizon. Qed.
Print Assumptions C03_horizon_needed_only_at_predict.

Theorem C03_cutoff_after_fit : forall s, cutoff (fit_state s) = t0 s + zlen (ys s) - 1.
Proof. exact cutoff_after_fit. Qed.
Print Assumptions C03_cutoff_after_fit.

(* after an update: the last time point of the batch (tb = its first time point); unchanged for an
   empty batch *)
Theorem C03_cutoff_after_update : forall st tb b,
  cutoff (update_state st (tb, b)) = match b with [] => cutoff st | _ => tb + zlen b - 1 end.
Proof. exact cutoff_after_update. Qed.
Print Assumptions C03_cutoff_after_update.

(* update_predict does not move the cutoff: the following predict is labelled from the cutoff before
   the call (the correspondence run encodes the step as one that leaves the cutoff in place) *)
Theorem C03_cutoff_after_update_predict : forall st seen h,
  cutoff (update_predict_state st seen) = cutoff st /\
  pred_index (update_predict_state st seen) h = pred_index st h.
Proof. intros st seen h. split; reflexivity. Qed.
Print Assumptions C03_cutoff_after_update_predict.

(* after any history of updates, and the reported trace has one cutoff per step *)
Theorem C03_cutoff_after_history : forall s ups,
  cutoff (run_state s ups) = fold_left next_cutoff ups (t0 s + zlen (ys s) - 1) /\
  length (cutoff_trace (fit_state s) ups) = S (length ups) /\
  last (cutoff_trace (fit_state s) ups) 0 = cutoff (run_state s ups).
Proof.
  intros s ups. split; [exact (cutoff_after_history s ups)|].
  destruct (cutoff_trace_spec ups (fit_state s)) as [H1 [H2 _]]. exact (conj H1 H2).
Qed.
Print Assumptions C03_cutoff_after_history.

(* batches that continue the series keep the cutoff at the last observed time point *)
Theorem C03_cutoff_is_last_observed_time : forall s ups, contiguous (fit_state s) ups ->
  cutoff (run_state s ups) = last_time (obs (run_state s ups)) /\ t0 (obs (run_state s ups)) = t0 s.
Proof. exact coherent_run. Qed.
Print Assumptions C03_cutoff_is_last_observed_time.

Theorem C03_leaf_one_value_per_step : forall f train st h vals,
  all_pos (to_relative (cutoff st) h) -> leaf_values f train st h = Ok vals ->
  length vals = length (hlist h).
Proof. exact leaf_one_value_per_step. Qed.
Print Assumptions C03_leaf_one_value_per_step.

(* finite data, out-of-sample horizon => finite forecasts, for the naive and polynomial leaves after
   any updates, for EVERY configuration the model's fit accepts: the former exceptions (drift with
   a single-point window, seasonal mean over less than one season) are now rejected by fit
   (resolve_wl = Err, see C11_window_length_resolution), so `leaf_values = Ok _` excludes them.
   `train` = the series the parameters were estimated on, a non-empty part of the observed data. *)
Theorem C03_leaf_finite_for_finite : forall f train st h vals,
  finite (ys (obs st)) -> sorted_lt (to_relative (cutoff st) h) ->
  all_pos (to_relative (cutoff st) h) ->
  1 <= zlen (ys train) <= zlen (ys (obs st)) ->
  leaf_values f train st h = Ok vals -> finite vals.
Proof. exact leaf_finite. Qed.
Print Assumptions C03_leaf_finite_for_finite.

(* for whole programs: a non-empty finite training series and finite update batches (no further
   condition on the configuration, the updates or the refit option) *)
Theorem C03_run_finite_for_finite : forall f s ups refit h trace idx vals,
  1 <= zlen (ys s) -> finite (ys s) -> (forall b, In b ups -> finite (snd b)) ->
  sorted_lt (to_relative (cutoff (run_state s ups)) h) ->
  all_pos (to_relative (cutoff (run_state s ups)) h) ->
  model_run (Some f) s ups refit h = (trace, idx, Some (Ok vals)) -> finite vals.
Proof. exact run_finite. Qed.
Print Assumptions C03_run_finite_for_finite.

(* shifting every time index of the program by k shifts every cutoff and every forecast label by k
   and leaves the values unchanged *)
Theorem C03_shift_equivariance : forall k leaf s ups refit h,
  model_run leaf (shift_series k s) (map (shift_batch k) ups) refit (shift_h k h)
  = let '(trace, idx, v) := model_run leaf s ups refit h in
    (map (fun c => c + k) trace, map (fun t => t + k) idx, v).
Proof. exact shift_equivariance. Qed.
Print Assumptions C03_shift_equivariance.

Theorem C03_shift_relative_horizon : forall k c h, to_relative (c + k) (shift_h k h) = to_relative c h.
Proof. exact shift_relative. Qed.
Print Assumptions C03_shift_relative_horizon.

(* ==== THROUGH THE BRIDGE: the same statements about what the code says NOW =======================
   gen_fit_state / gen_update_state / gen_pred_index / gen_leaf_values / gen_model_run are assembled
   (C03/Bridge.v) from definitions regenerated on this run: C03/Site.v (cutoff := y.index[-1] in
   _set_y_X / _update_y_X, the non-empty guard, the refit of update, EVERY prediction-index site in
   the scope, _set_fh of the optional-horizon mixin), C11/Gen.v (ForecastingHorizon arithmetic, NaiveForecaster.fit and
   _predict_last_window, the polynomial time axis). *)

Theorem C03_code_is_model :
  (forall s, gen_fit_state s = fit_state s) /\
  (forall st b, gen_update_state st b = update_state st b) /\
  (forall st h, gen_pred_index st h = pred_index st h) /\
  (forall f train st h, gen_leaf_values f train st h = leaf_values f train st h) /\
  (forall leaf s ups refit h, gen_model_run leaf s ups refit h = model_run leaf s ups refit h).
Proof.
  exact (conj bridge_fit_state (conj bridge_update_state (conj bridge_pred_index
        (conj bridge_leaf_values bridge_model_run)))).
Qed.
Print Assumptions C03_code_is_model.

(* every place in the scope that labels a forecast does so by cutoff + step *)
Theorem C03_code_every_index_site : Forall (fun f => forall c r, f c r = c + r) gen_index_sites.
Proof. exact bridge_index_sites. Qed.
Print Assumptions C03_code_every_index_site.

Theorem C03_code_predict_index : forall st h,
  length (gen_pred_index st h) = length (hlist h) /\
  (forall l, h = Rel l -> gen_pred_index st h = map (fun r => cutoff st + r) l) /\
  (forall l, h = Abs l -> gen_pred_index st h = l) /\
  (sorted_lt (hlist h) -> sorted_lt (gen_pred_index st h)).
Proof. intros st h. rewrite bridge_pred_index. exact (C03_predict_index st h). Qed.
Print Assumptions C03_code_predict_index.

Theorem C03_code_cutoff_after_fit : forall s, cutoff (gen_fit_state s) = t0 s + zlen (ys s) - 1.
Proof. intro s. rewrite bridge_fit_state. exact (C03_cutoff_after_fit s). Qed.
Print Assumptions C03_code_cutoff_after_fit.

Theorem C03_code_cutoff_after_update : forall st tb b,
  cutoff (gen_update_state st (tb, b)) = match b with [] => cutoff st | _ => tb + zlen b - 1 end.
Proof. intros st tb b. rewrite bridge_update_state. exact (C03_cutoff_after_update st tb b). Qed.
Print Assumptions C03_code_cutoff_after_update.

Theorem C03_code_cutoff_after_history : forall s ups,
  cutoff (gen_run_state s ups) = fold_left next_cutoff ups (t0 s + zlen (ys s) - 1).
Proof. intros s ups. rewrite bridge_run_state. exact (proj1 (C03_cutoff_after_history s ups)). Qed.
Print Assumptions C03_code_cutoff_after_history.

(* the horizon predict uses, by the regenerated _set_fh: the one passed to predict, else the one
   remembered from fit; hf / hp = the validated horizons passed to fit / predict (None = not passed) *)
Theorem C03_code_horizon_used : forall hf hp,
  code_horizon hf hp =
  match used_fh (option_map Rel hf) (option_map Rel hp) with
  | Ok h => Ok (Some (hlist h))
  | Err => Err
  end.
Proof. exact bridge_horizon_used. Qed.
Print Assumptions C03_code_horizon_used.

Theorem C03_code_run_finite_for_finite : forall f s ups refit h trace idx vals,
  1 <= zlen (ys s) -> finite (ys s) -> (forall b, In b ups -> finite (snd b)) ->
  sorted_lt (to_relative (cutoff (run_state s ups)) h) ->
  all_pos (to_relative (cutoff (run_state s ups)) h) ->
  gen_model_run (Some f) s ups refit h = (trace, idx, Some (Ok vals)) -> finite vals.
Proof.
  intros f s ups refit h trace idx vals H1 H2 H3 H4 H5 H6. rewrite bridge_model_run in H6.
  exact (C03_run_finite_for_finite f s ups refit h trace idx vals H1 H2 H3 H4 H5 H6).
Qed.
Print Assumptions C03_code_run_finite_for_finite.

Theorem C03_code_shift_equivariance : forall k leaf s ups refit h,
  gen_model_run leaf (shift_series k s) (map (shift_batch k) ups) refit (shift_h k h)
  = let '(trace, idx, v) := gen_model_run leaf s ups refit h in
    (map (fun c => c + k) trace, map (fun t => t + k) idx, v).
Proof. intros k leaf s ups refit h. rewrite !bridge_model_run. exact (C03_shift_equivariance k leaf s ups refit h). Qed.
Print Assumptions C03_code_shift_equivariance.

(* non-vacuity: a program with two updates (one empty), a gapped absolute horizon, seasonal mean *)
Example C03_nonvacuous :
  let s := {| t0 := 7; ys := [Some 1; Some 2; Some 4; Some 8; Some 16]%Q |} in
  let ups := [(12, [Some 32; Some 64]%Q); (14, [])] in
  contiguous (fit_state s) ups /\
  model_run (Some (FNaive SMean 2 (Some 3))) s ups false (Abs [14; 17])
  = ([11; 13; 13], [14; 17], Some (Ok [Some 32%Q; Some (80 # 2)%Q])) /\
  (* refit on every update, horizon only passed to predict; drift on the default window *)
  program_run (Some (FNaive SDrift 1 None)) s ups true None (Some (Rel [1; 3]))
  = Ok ([11; 13; 13], [14; 16], Some (Ok [Some (447 # 6)%Q; Some (573 # 6)%Q])) /\
  (* the configurations fit rejects have no values *)
  program_run (Some (FNaive SDrift 1 None)) {| t0 := 0; ys := [Some 5%Q] |} [] false None
              (Some (Rel [1])) = Ok ([0], [1], Some Err).
Proof. vm_compute. repeat split; try reflexivity; right; reflexivity. Qed.
