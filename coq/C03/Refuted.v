(* C03 open findings expressible in the model: finite data, NaN forecast.  The model agrees with
   the real code on these programs in every run (correspondence); witnesses by computation. *)
From Coq Require Import ZArith QArith List Bool Lia.
Require Import SkV.Lib.Base SkV.Lib.ZRange SkV.C11.Model SkV.C03.Model.
Import ListNotations.
Open Scope Z_scope.

Definition q (z : Z) : oq := Some (inject_Z z).

(* F-C03-2: drift fitted on a single observation: window_length_ = 1, every forecast is NaN *)
Lemma drift_single_observation_refuted :
  exists s h, ys s = [q 5] /\ h = Rel [1; 2] /\
    leaf_values (FNaive SDrift 1 None) s (fit_state s) h = Ok [None; None].
Proof. exists {| t0 := 0; ys := [q 5] |}, (Rel [1; 2]). repeat split. Qed.

(* F-C03-4: seasonal mean with the default window on a series shorter than one season is accepted
   by fit and forecasts NaN for the seasons without an observation *)
Lemma seasonal_mean_short_series_refuted :
  exists s h, ys s = [q 1; q 2] /\ h = Rel [1; 2; 3] /\
    leaf_values (FNaive SMean 4 None) s (fit_state s) h = Ok [None; None; Some (1 / 1)%Q].
Proof. exists {| t0 := 0; ys := [q 1; q 2] |}, (Rel [1; 2; 3]). repeat split. Qed.
