From Coq Require Import ZArith QArith List Bool Lia.
Require Import SkV.Lib.Base SkV.Lib.ZRange SkV.C11.Model SkV.C03.Model.
Import ListNotations.
Open Scope Z_scope.
