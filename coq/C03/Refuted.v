(* C03, historical witnesses (no open finding is expressed here any more; F-C03-1 is about the
   horizon bookkeeping of update(update_params=True), which the model does not embed).
   `old_resolve_wl` is NaiveForecaster.fit BEFORE the fixes 9814f9c / ae04e61: the default window
   (the whole training series) was not checked, so drift was accepted on a single observation and
   the seasonal mean on a series shorter than one season; with finite data the forecasts were NaN.
   The current `resolve_wl` rejects both, which is what makes C03_leaf_finite_for_finite hold
   without exceptions.  A revert of either fix makes the implementation accept the configuration
   again: the correspondence run then disagrees (model: rejected) and the Python oracle reports
   `finite-for-finite-data-...`. *)
From Coq Require Import ZArith QArith List Bool Lia.
Require Import SkV.Lib.Base SkV.Lib.ZRange SkV.C11.Model SkV.C03.Model.
Import ListNotations.
Open Scope Z_scope.

Definition q (z : Z) : oq := Some (inject_Z z).

Definition old_resolve_wl (s : strategy) (sp : Z) (wlo : option Z) (n : Z) : res Z :=
  let r := match s with
    | SLast => Ok (if sp =? 1 then 1 else sp)
    | SMean => match wlo with
               | Some w => if negb (sp =? 1) && (w <? sp) then Err else Ok w
               | None => Ok n
               end
    | SDrift => match wlo with
                | Some w => if w =? 1 then Err else Ok w
                | None => Ok n
                end
    end in
  match r with Ok w => if n <? w then Err else Ok w | Err => Err end.

(* former F-C03-2 (fixed by 9814f9c): drift fitted on a single observation: window_length_ = 1,
   every forecast NaN; now rejected at fit *)
Lemma old_drift_single_observation_refuted :
  exists s wl, ys s = [q 5] /\ old_resolve_wl SDrift 1 None (zlen (ys s)) = Ok wl /\
    naive_predict_wl SDrift 1 wl (ys s) [1; 2] = Ok [None; None] /\
    leaf_values (FNaive SDrift 1 None) s (fit_state s) (Rel [1; 2]) = Err.
Proof. exists {| t0 := 0; ys := [q 5] |}, 1. repeat split. Qed.

(* former F-C03-4 (fixed by ae04e61): seasonal mean with the default window on a series shorter than
   one season was accepted and forecast NaN for the seasons without an observation; now rejected *)
Lemma old_seasonal_mean_short_series_refuted :
  exists s wl, ys s = [q 1; q 2] /\ old_resolve_wl SMean 4 None (zlen (ys s)) = Ok wl /\
    naive_predict_wl SMean 4 wl (ys s) [1; 2; 3] = Ok [None; None; Some (1 / 1)%Q] /\
    leaf_values (FNaive SMean 4 None) s (fit_state s) (Rel [1; 2; 3]) = Err.
Proof. exists {| t0 := 0; ys := [q 1; q 2] |}, 2. repeat split. Qed.
