(* C04 bridge (finite, regenerated): every row of the class table extracted from /repo on THIS run
   obeys the constructor contract, the guard-first contract and the parameters-are-never-reassigned
   contract, except for the committed, explicitly listed known deviations (Known.v). *)
From Coq Require Import List String Bool.
Require Import SkV.C04.Model SkV.C04.Cases SkV.C04.Table SkV.C04.Known SkV.C04.Gen.
Import ListNotations.
Open Scope string_scope.

(* what param_ok means when there are no exceptions: the argument ends up stored as passed under its
   own name - directly, through a reviewed validator that returns its argument or raises, or through
   a chain of parent constructors that each forward it under that name *)
Inductive stored_verbatim (vals : list string) (t : list class_row) : string -> store -> Prop :=
  | sv_here p : stored_verbatim vals t p SV
  | sv_validated p f : In f vals -> stored_verbatim vals t p (SC f)
  | sv_sklearn p : stored_verbatim vals t p (SX p)
  | sv_parent p parent pr ps st' :
      lookup_row t parent = Some pr -> r_init pr = Some ps -> assoc ps p = Some st' ->
      stored_verbatim vals t p st' -> stored_verbatim vals t p (SF parent p).

Lemma smem1_In x l : smem1 x l = true -> In x l.
Proof.
  unfold smem1. rewrite existsb_exists. intros [y [Hin H]]. apply String.eqb_eq in H. now subst.
Qed.

Lemma param_ok_sound vals t : forall fuel cls p st,
  param_ok vals [] t fuel cls p st = true -> stored_verbatim vals t p st.
Proof.
  induction fuel as [|fuel IH]; intros cls p st H; cbn in H.
  - destruct st as [|f|h|parent q|q|]; try discriminate.
    + constructor.
    + constructor. now apply smem1_In.
    + rewrite andb_false_r in H. discriminate.
    + apply String.eqb_eq in H. subst. constructor.
  - destruct st as [|f|h|parent q|q|]; try discriminate.
    + constructor.
    + constructor. now apply smem1_In.
    + apply andb_true_iff in H. destruct H as [Hq H]. apply String.eqb_eq in Hq. subst q.
      destruct (lookup_row t parent) as [pr|] eqn:E1; [|discriminate].
      destruct (r_init pr) as [ps|] eqn:E2; [|discriminate].
      destruct (assoc ps p) as [st'|] eqn:E3; [|discriminate].
      eapply sv_parent; eauto.
    + apply String.eqb_eq in H. subst. constructor.
Qed.

Lemma mem2_In known a b : mem2 known a b = true <-> In (a, b) known.
Proof.
  unfold mem2. rewrite existsb_exists. split.
  - intros [[x y] [Hin H]]. cbn in H. apply andb_true_iff in H. destruct H as [H1 H2].
    apply String.eqb_eq in H1, H2. subst. exact Hin.
  - intro Hin. exists (a, b). split; [exact Hin|]. cbn. unfold str_eqb. now rewrite !String.eqb_refl.
Qed.

(* finite theorems over the regenerated table (vm_compute, lifted with forallb_forall) *)
Theorem all_classes_store_verbatim_or_known :
  forall row, In row class_table -> stores_ok_or_known identity_validators known_ctor class_table row = true.
Proof. apply forallb_forall. vm_compute. reflexivity. Qed.

Theorem all_apply_methods_guarded_or_known :
  forall row, In row class_table -> guarded_ok_or_known guard_exceptions row = true.
Proof. apply forallb_forall. vm_compute. reflexivity. Qed.

Theorem no_method_reassigns_a_parameter_or_known :
  forall row, In row class_table -> params_stable_ok_or_known known_mutation row = true.
Proof. apply forallb_forall. vm_compute. reflexivity. Qed.

(* readable corollaries *)
Theorem ctor_param_verbatim_or_known : forall row ps p st,
  In row class_table -> r_init row = Some ps -> In (p, st) ps ->
  param_ok identity_validators known_ctor class_table FUEL (r_key row) p st = true.
Proof.
  intros row ps p st Hin Hi Hp. pose proof (all_classes_store_verbatim_or_known row Hin) as H.
  unfold stores_ok_or_known in H. rewrite Hi in H. rewrite forallb_forall in H.
  exact (H (p, st) Hp).
Qed.

Theorem apply_method_guard_first_or_known : forall row m g,
  In row class_table -> In (m, g) (r_methods row) ->
  (exists o, g = GG o \/ g = GA o \/ g = GX o) \/
  (exists o, (g = GR o \/ exists w, g = GU o w) /\ gmem guard_exceptions (r_key row) o m = true).
Proof.
  intros row m g Hin Hm. pose proof (all_apply_methods_guarded_or_known row Hin) as H.
  unfold guarded_ok_or_known in H. rewrite forallb_forall in H. specialize (H (m, g) Hm).
  cbn in H. destruct g as [o|o|o|o|o w]; cbn in H.
  - left. exists o. auto.
  - left. exists o. auto.
  - left. exists o. auto.
  - right. exists o. split; [left; reflexivity|exact H].
  - right. exists o. split; [right; exists w; reflexivity|exact H].
Qed.

Theorem parameter_reassignment_known : forall row e o q,
  In row class_table -> In (e, o, q) (r_mutates row) -> In (o, q) known_mutation.
Proof.
  intros row e o q Hin Hm. pose proof (no_method_reassigns_a_parameter_or_known row Hin) as H.
  unfold params_stable_ok_or_known in H. rewrite forallb_forall in H. specialize (H (e, o, q) Hm).
  cbn in H. apply mem2_In. exact H.
Qed.

(* fit (own or inherited) of every class returns self on every completing path and has executed
   `self._is_fitted = True` as its last act, except the (owner, returns, flag) triples of
   fit_exceptions *)
Theorem all_fits_return_self_and_set_flag_or_known :
  forall row, In row class_table -> fit_ok_or_known fit_exceptions row = true.
Proof. apply forallb_forall. vm_compute. reflexivity. Qed.

Theorem fit_contract_or_known : forall row o ret flag early,
  In row class_table -> r_fit row = FF o ret flag early ->
  early = false /\
  ((ret = "self" /\ flag = "set") \/ In (o, ret, flag) fit_exceptions).
Proof.
  intros row o ret flag early Hin Hf. pose proof (all_fits_return_self_and_set_flag_or_known row Hin) as H.
  unfold fit_ok_or_known in H. rewrite Hf in H. apply orb_true_iff in H. destruct H as [H|H].
  - rewrite !andb_true_iff, negb_true_iff in H. destruct H as [[H1 H2] H3].
    apply String.eqb_eq in H1, H2. auto.
  - rewrite andb_true_iff, negb_true_iff in H. destruct H as [H1 H2]. split; [exact H2|]. right.
    unfold mem3 in H1. apply existsb_exists in H1. destruct H1 as [[[a b] c] [Hin3 H3]].
    rewrite !andb_true_iff in H3. destruct H3 as [[Ha Hb] Hc]. unfold str_eqb in *.
    apply String.eqb_eq in Ha, Hb, Hc. now subst.
Qed.

(* every set_params written in the package (the composites') reaches the validation of the names
   on every completing path: no early return before `_set_params` / scikit-learn's set_params *)
Theorem all_set_params_validate_names :
  forall row, In row class_table -> setparams_ok row = true.
Proof. apply forallb_forall. vm_compute. reflexivity. Qed.

Theorem set_params_validates_or_is_sklearns : forall row,
  In row class_table ->
  r_setparams row = PX \/ (exists o, r_setparams row = PA o) \/ (exists o a, r_setparams row = PV o a).
Proof.
  intros row Hin. pose proof (all_set_params_validate_names row Hin) as H. unfold setparams_ok in H.
  destruct (r_setparams row) as [|o|o a|o w]; [auto|right; left; eauto|right; right; eauto|discriminate].
Qed.

(* the composite descriptions the model is run with (Cases.sk_meta) carry, per class, the very key
   with which that class's set_params delegates to _set_params in the source of this run *)
Theorem model_meta_keys_are_the_delegation_keys :
  forall row, In row class_table -> meta_tie_ok sk_meta ["FeatureUnion"] row = true.
Proof. apply forallb_forall. vm_compute. reflexivity. Qed.

(* the fitted-state model (Model.v step) is the one of sktime/base/_base.py as regenerated on this
   run: a fresh object carries the flag BaseEstimator.__init__ stores, is_fitted returns that flag,
   and an apply-type method of the model raises NotFitted exactly when check_is_fitted raises, which
   is sktime.exceptions.NotFittedError *)
Theorem base_class_facts_match_model :
  (forall e, base_init_flag = Some (o_fitted (fresh e))) /\
  base_is_fitted_reads_flag = true /\
  (forall o m, snd (step o (EApply m)) = NotFitted <-> base_guard_raises (o_fitted o) = true) /\
  (forall o m, snd (step o (EApply m)) = Result <-> base_guard_raises (o_fitted o) = false) /\
  base_guard_exception = "sktime.exceptions.NotFittedError".
Proof.
  split; [reflexivity|]. split; [reflexivity|]. split; [|split; [|reflexivity]].
  - intros o m. cbn. destruct (o_fitted o); cbn; split; congruence.
  - intros o m. cbn. destruct (o_fitted o); cbn; split; congruence.
Qed.

(* the table is not empty and the exception lists are not what makes the theorems true for the
   bulk of the table: most rows pass with NO exception at all (counts are evaluated, not assumed) *)
Definition n_rows := List.length class_table.
Definition n_rows_clean :=
  List.length (filter (fun r => stores_ok class_table r && guarded_ok r && params_stable_ok r && fit_ok r && setparams_ok r) class_table).
