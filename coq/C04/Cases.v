(* C04 correspondence: cases carry the canonicalised behaviour of the real estimators (parameter
   trees read back through get_params(deep=False), dicts as key-path lists, exceptions as None);
   `mism` lists the indices on which the model disagrees. *)
From Coq Require Import ZArith List Bool String.
Require Import SkV.Lib.Base SkV.C04.Model.
Import ListNotations.
Open Scope string_scope.
Open Scope list_scope.

(* the composite classes of sktime 0.6.0: (key of the whole list in _set_params, parameter) *)
Definition sk_meta : meta_info := fun cls =>
  if smem cls ["EnsembleForecaster"; "MultiplexForecaster"; "StackingForecaster";
               "OnlineEnsembleForecaster"] then Some ("forecasters", "forecasters")
  else if String.eqb cls "TransformedTargetForecaster" then Some ("steps", "steps")
  else if String.eqb cls "ColumnEnsembleClassifier" then Some ("_estimators", "estimators")
  else if String.eqb cls "FeatureUnion" then Some ("transformer_list", "transformer_list")
  else None.

(* dict equality: same number of keys and every model binding found with an equal value *)
Definition dict_eqb (m i : list kv) : bool :=
  (List.length m =? List.length i)%nat &&
  forallb (fun x : kv => match lookup (fst x) i with
                         | Some v => value_eqb (snd x) v
                         | None => false
                         end) m.

Definition outcome_eqb (a b : outcome) : bool :=
  match a, b with
  | NotFitted, NotFitted | Result, Result | ReturnsSelf, ReturnsSelf | FitFailed, FitFailed
  | NewObject, NewObject => true
  | _, _ => false
  end.

Fixpoint outcomes_eqb (a b : list outcome) : bool :=
  match a, b with
  | [], [] => true
  | x :: a', y :: b' => outcome_eqb x y && outcomes_eqb a' b'
  | _, _ => false
  end.

Inductive case :=
  | CGet (deep : bool) (e : est) (impl : list kv)           (* e.get_params(deep) *)
  | CSet (e : est) (kvs : list kv) (impl : option est)      (* e.set_params( **kvs ); None = raised *)
  | CSetGet (e : est) (d : list kv) (impl : option est)     (* d = e.get_params(True); e.set_params( **d ) *)
  | CClone (e : est) (impl : est)                           (* clone(e), read back *)
  | CHist (e : est) (evs : list event) (impl : list outcome) (impl_fitted : bool)
  | CNames (e : est) (dunder : list string) (accepted : bool).

Definition check (c : case) : bool :=
  match c with
  | CGet deep e impl => dict_eqb (get_params sk_meta deep e) impl
  | CSet e kvs impl =>
      match set_params sk_meta e kvs, impl with
      | Ok a, Some b => est_eqb a b
      | Err, None => true
      | _, _ => false
      end
  | CSetGet e d impl =>
      (* the tree satisfies the hypothesis of C04_set_get_id, the real dict is the model's, and the
         real call on the real dict gives what the model gives (the theorem says: e itself) *)
      wf sk_meta e && dict_eqb (get_params sk_meta true e) d &&
      match set_params sk_meta e d, impl with
      | Ok a, Some b => est_eqb a b && est_eqb a e
      | _, _ => false
      end
  | CClone e impl => est_eqb (clone_est e) impl
  | CHist e evs impl fitted =>
      let (o, rs) := run (fresh e) evs in outcomes_eqb rs impl && Bool.eqb (o_fitted o) fitted
  | CNames e dl acc => Bool.eqb (check_names sk_meta e (fun n => smem n dl)) acc
  end.

Fixpoint mism (cs : list (Z * case)) : list Z :=
  match cs with
  | [] => []
  | (i, c) :: t => if check c then mism t else i :: mism t
  end.
