(* C04: the committed exception lists of the static half = known deviations of the unchanged tree
   (sktime 0.6.0 + the fix: commits of /repo; entries repaired there - MeanSquaredScaledError.sp,
   ColumnEnsembleClassifier.remainder, (Mini)Rocket.random_state, the update_predict and
   Detrender.update guards, ContractableBOSS time_limit / n_parameter_samples - have been removed, so
   their return makes the Bridge theorems fail).  Every entry is also an open finding in findings.d/C04.json with a matcher.
   A class / parameter / method NOT listed here that deviates makes the Bridge theorems fail. *)
From Coq Require Import List String.
Require Import SkV.C04.Table.
Import ListNotations.
Open Scope string_scope.

(* Reviewed one-argument validators f such that `self.p = f(p)` stores p itself whenever the
   constructor returns: f returns its argument unchanged or raises.  An sktime function is pinned by
   a hash of its source (ast): any edit of the function changes the name the class table carries and
   the Bridge theorem fails until the function has been reviewed again.
   - check_sp(sp, enforce_list=False): `if sp is not None: ... elif is_int(sp) and sp >= 1: pass
     else: raise ValueError ...; return sp` (the only rebinding, `sp = [sp]`, needs enforce_list).
   - sklearn.neighbors._base._check_weights (scikit-learn 0.24, the release sktime 0.6.0 pins):
     `if weights in (None, 'uniform', 'distance'): return weights; elif callable(weights): return
     weights; else: raise ValueError`.  Not importable under scikit-learn 1.7: trusted as read. *)
Definition identity_validators : list string := [
  "sktime.utils.validation.forecasting.check_sp#29c48371d4";
  "ext:sklearn.neighbors._base._check_weights" ].

(* (class, parameter): the constructor does not store the argument verbatim under its own name.
   "**" = the constructor takes **kwargs (invisible to get_params). *)
Definition known_ctor : list (string * string) := [
  ("ARIMA", "**"); ("AutoARIMA", "**"); ("AutoETS", "**"); ("PCATransformer", "**");
  ("KNeighborsTimeSeriesClassifier", "**");
  ("BaseStrategy", "estimator"); ("BaseStrategy", "name");
  ("ElasticEnsemble", "distance_measures");
  ("HIVECOTEV1", "stc_params"); ("HIVECOTEV1", "tsf_params"); ("HIVECOTEV1", "rise_params");
  ("HIVECOTEV1", "cboss_params");
  ("Prophet", "changepoint_prior_scale"); ("Prophet", "holidays_prior_scale");
  ("Prophet", "seasonality_prior_scale");
  ("ProximityStump", "get_exemplars");
  ("ProximityTree", "distance_measure"); ("ProximityTree", "get_distance_measure");
  ("ROCKETClassifier", "n_estimators");
  ("SFA", "word_length");
  ("_MetricFunctionWrapper", "func"); ("_MetricFunctionWrapper", "name") ].

(* (class or "*", owner of the executed body, method): fitted state is touched (or the method
   returns) before the fitted-state guard is reached. *)
Definition known_guard : gknown := [
  ("*", "BaseSupervisedLearningStrategy", "predict");
  ("*", "ProximityForest", "predict_proba");
  ("*", "ProximityStump", "predict_proba");
  ("*", "ProximityTree", "predict_proba");
  ("*", "RotationForest", "predict"); ("*", "RotationForest", "predict_proba");
  ("*", "ShapeDTW", "predict"); ("*", "ShapeDTW", "predict_proba");
  ("ShapeDTW", "BaseClassifier", "score");
  ("*", "_CachedTransformer", "transform") ].

(* Reported by the (conservative) guard analysis but compliant with the property: reviewed, and
   confirmed on the real object by the p_apply cases of every run (NotFittedError required).
   - OnlineEnsembleForecaster.update_predict -> _predict_moving_cutoff reads `self.cutoff` (a plain
     attribute set to None by the constructor: cannot raise) and sets it inside
     `with self._detached_cutoff()` (restored in `finally`) before the first nested
     `self.update(...)`, whose first statement is check_is_fitted(): the caller gets NotFittedError
     and the object is left as it was. *)
Definition benign_guard : gknown := [
  ("*", "OnlineEnsembleForecaster", "update_predict") ].

Definition guard_exceptions : gknown := List.app known_guard benign_guard.

(* (owner, parameter): code of class `owner` reachable from fit / an apply-type method assigns to
   the constructor parameter. *)
Definition known_mutation : list (string * string) := [
  ("CanonicalIntervalForest", "min_interval"); ("DrCIF", "min_interval");
  ("BaseTimeSeriesForest@sktime.series_as_features.base.estimators.interval_based._tsf",
   "min_interval");
  ("TemporalDictionaryEnsemble", "n_parameter_samples"); ("TemporalDictionaryEnsemble", "time_limit");
  ("KNeighborsTimeSeriesClassifier", "distance_params");
  ("_ProphetAdapter", "changepoints"); ("_ProphetAdapter", "n_changepoints");
  ("ProximityForest", "distance_measure"); ("ProximityForest", "get_distance_measure");
  ("ProximityForest", "random_state");
  ("ProximityStump", "distance_measure"); ("ProximityStump", "get_distance_measure");
  ("ProximityStump", "random_state");
  ("ProximityTree", "distance_measure"); ("ProximityTree", "get_distance_measure");
  ("ProximityTree", "random_state"); ("ProximityTree", "find_stump");
  ("ShapeDTW", "metric_params");
  ("_TSFreshFeatureExtractor", "n_jobs") ].

(* (owner of the executed fit body, what the completing paths return, flag state): fit does not return
   the estimator itself and / or never sets the fitted flag. *)
Definition known_fit : list (string * string * string) := [
  ("BaseStrategy", "self._fit(data)", "unset");
  ("BaseStrategy", "self.estimator.fit(X, y)", "unset");
  ("RotationForest", "none", "unset");
  ("ShapeDTW", "self", "unset") ].

(* Reported by the (syntactic) fit analysis but compliant: KNeighborsTimeSeriesClassifier.fit ends
   `fx = self._fit(X); ...; self._is_fitted = True; return fx`, where `_fit` is scikit-learn 0.24's
   NeighborsBase._fit, whose last statement is `return self` (read; not runnable under 1.7). *)
Definition benign_fit : list (string * string * string) := [
  ("KNeighborsTimeSeriesClassifier", "fx", "set") ].

Definition fit_exceptions : list (string * string * string) := List.app known_fit benign_fit.
