(* C04 model: estimator parameter trees, scikit-learn's get_params / set_params / clone and sktime's
   named-component ordering (_HeterogenousMetaEstimator._get_params/_set_params/_replace_estimator),
   plus the fitted-flag state machine.  Executable definitions only.

   Keys are modelled as PATHS (list of segments): Python's "a__b__c" is ["a";"b";"c"]; the split on
   "__" (str.partition in sklearn.base.BaseEstimator.set_params) is done by the harness encoder. *)
From Coq Require Import ZArith List Bool String.
Require Import SkV.Lib.Base.
Import ListNotations.
Open Scope string_scope.
Open Scope list_scope.

Inductive atom := AInt (z : Z) | AStr (s : string) | ANone.

Inductive est := Est (cls : string) (ps : list (string * value))
with value := VAtom (a : atom) | VEst (e : est) | VSteps (l : list (string * est)).

Definition path := list string.
Definition kv := (path * value)%type.

Definition cls_of (e : est) : string := match e with Est c _ => c end.
Definition params_of (e : est) : list (string * value) := match e with Est _ ps => ps end.

(* ---------------------------------------------------------------- decidable equality *)
Definition atom_eqb (a b : atom) : bool :=
  match a, b with
  | AInt x, AInt y => Z.eqb x y
  | AStr x, AStr y => String.eqb x y
  | ANone, ANone => true
  | _, _ => false
  end.

Fixpoint est_eqb (a b : est) {struct a} : bool :=
  match a, b with
  | Est c1 p1, Est c2 p2 =>
      String.eqb c1 c2 &&
      (fix go (l1 : list (string * value)) (l2 : list (string * value)) : bool :=
         match l1, l2 with
         | [], [] => true
         | (k1, v1) :: t1, (k2, v2) :: t2 => String.eqb k1 k2 && value_eqb v1 v2 && go t1 t2
         | _, _ => false
         end) p1 p2
  end
with value_eqb (a b : value) {struct a} : bool :=
  match a, b with
  | VAtom x, VAtom y => atom_eqb x y
  | VEst x, VEst y => est_eqb x y
  | VSteps l1, VSteps l2 =>
      (fix go (l1 : list (string * est)) (l2 : list (string * est)) : bool :=
         match l1, l2 with
         | [], [] => true
         | (k1, e1) :: t1, (k2, e2) :: t2 => String.eqb k1 k2 && est_eqb e1 e2 && go t1 t2
         | _, _ => false
         end) l1 l2
  | _, _ => false
  end.

Fixpoint path_eqb (a b : path) : bool :=
  match a, b with
  | [], [] => true
  | x :: a', y :: b' => String.eqb x y && path_eqb a' b'
  | _, _ => false
  end.

Definition smem (x : string) (l : list string) : bool := existsb (String.eqb x) l.

(* ---------------------------------------------------------------- class descriptions *)
(* For a composite class: (key under which _set_params looks for the whole list, parameter that
   holds the named components).  Both are "forecasters" / "steps" / "transformer_list"; they differ
   for ColumnEnsembleClassifier ("_estimators" / "estimators"). *)
Definition meta_info := string -> option (string * string).

Section WithMeta.
Variable meta : meta_info.

Definition steps_param (cls : string) : option string :=
  match meta cls with Some (_, p) => Some p | None => None end.

Definition is_steps_param (cls k : string) : bool :=
  match steps_param cls with Some p => String.eqb p k | None => false end.

(* ---------------------------------------------------------------- construction *)
(* klass( **args ): the constructor contract (static half) says every argument is stored verbatim *)
Definition construct (cls : string) (args : list (string * value)) : est := Est cls args.

(* ---------------------------------------------------------------- get_params *)
Definition prefix (k : string) (x : kv) : kv := (k :: fst x, snd x).

Fixpoint get_params (deep : bool) (e : est) {struct e} : list kv :=
  match e with
  | Est cls ps =>
      flat_map (fun kvp : string * value =>
        let (k, v) := kvp in
        match v with
        | VAtom _ => [([k], v)]
        | VEst c =>
            (if deep then map (prefix k) (get_params true c) else []) ++ [([k], v)]
        | VSteps l =>
            ([k], v) ::
            (if deep && is_steps_param cls k then
               map (fun ne : string * est => ([fst ne], VEst (snd ne))) l ++
               flat_map (fun ne : string * est => map (prefix (fst ne)) (get_params true (snd ne))) l
             else [])
        end) ps
  end.

Fixpoint lookup (p : path) (l : list kv) : option value :=
  match l with
  | [] => None
  | (q, v) :: t => if path_eqb q p then Some v else lookup p t
  end.

(* ---------------------------------------------------------------- pieces of set_params *)
Fixpoint assoc_v (k : string) (ps : list (string * value)) : option value :=
  match ps with
  | [] => None
  | (k', v) :: t => if String.eqb k' k then Some v else assoc_v k t
  end.

Fixpoint assoc_e (k : string) (l : list (string * est)) : option est :=
  match l with
  | [] => None
  | (k', e) :: t => if String.eqb k' k then Some e else assoc_e k t
  end.

(* setattr(self, k, v) on a parameter that exists (first binding) *)
Fixpoint put_v (k : string) (v : value) (ps : list (string * value)) : list (string * value) :=
  match ps with
  | [] => []
  | (k', v') :: t => if String.eqb k' k then (k', v) :: t else (k', v') :: put_v k v t
  end.

(* _replace_estimator: first component with that name *)
Fixpoint put_e (k : string) (e : est) (l : list (string * est)) : list (string * est) :=
  match l with
  | [] => []
  | (k', e') :: t => if String.eqb k' k then (k', e) :: t else (k', e') :: put_e k e t
  end.

Definition param_names (e : est) : list string := map fst (params_of e).

Definition steps_of (e : est) : list (string * est) :=
  match steps_param (cls_of e) with
  | Some p => match assoc_v p (params_of e) with Some (VSteps l) => l | _ => [] end
  | None => []
  end.

Definition step_names (e : est) : list string := map fst (steps_of e).

(* heads accepted by set_params = keys of get_params(deep=True) without "__" *)
Definition valid_heads (e : est) : list string := param_names e ++ step_names e.

Definition set_attr (e : est) (k : string) (v : value) : est :=
  match e with Est c ps => Est c (put_v k v ps) end.

Definition set_steps (e : est) (l : list (string * est)) : est :=
  match steps_param (cls_of e) with
  | Some p => set_attr e p (VSteps l)
  | None => e
  end.

(* valid_params[h] for a nested key: a parameter holding an estimator, else a named component *)
Definition component (e : est) (h : string) : option est :=
  match assoc_v h (params_of e) with
  | Some (VEst c) => Some c
  | Some _ => None
  | None => assoc_e h (steps_of e)
  end.

Definition put_component (e : est) (h : string) (c : est) : est :=
  match assoc_v h (params_of e) with
  | Some _ => set_attr e h (VEst c)
  | None => set_steps e (put_e h c (steps_of e))
  end.

Definition is_flat (x : kv) : bool := match fst x with [_] => true | _ => false end.
Definition head_of (x : kv) : string := match fst x with h :: _ => h | [] => "" end.

(* sub-assignments of head h, in order: h__rest = v *)
Definition subs (h : string) (kvs : list kv) : list kv :=
  flat_map (fun x : kv => match fst x with
                          | h' :: (_ :: _) as rest' =>
                              if String.eqb h' h then [(tl (fst x), snd x)] else []
                          | _ => []
                          end) kvs.

Fixpoint nodup_s (l : list string) (seen : list string) : list string :=
  match l with
  | [] => []
  | x :: t => if smem x seen then nodup_s t seen else x :: nodup_s t (x :: seen)
  end.

Definition nested_heads (kvs : list kv) : list string :=
  nodup_s (map head_of (filter (fun x => negb (is_flat x)) kvs)) [].

(* sklearn.base.BaseEstimator.set_params, with `rec` = set_params of the components *)
Definition plain_phase (rec : est -> list kv -> res est) (e : est) (kvs : list kv) : res est :=
  match kvs with
  | [] => Ok e
  | _ =>
    if forallb (fun x : kv => match fst x with [] => false | h :: _ => smem h (valid_heads e) end) kvs
    then
      let e1 := fold_left (fun acc (x : kv) => if is_flat x then set_attr acc (head_of x) (snd x) else acc)
                          kvs e in
      fold_left (fun (r : res est) (h : string) =>
                   match r with
                   | Err => Err
                   | Ok e' =>
                       match component e' h with
                       | Some c => match rec c (subs h kvs) with
                                   | Ok c' => Ok (put_component e' h c')
                                   | Err => Err
                                   end
                       | None => Err      (* AttributeError: no set_params on a non-estimator *)
                       end
                   end) (nested_heads kvs) (Ok e1)
    else Err
  end.

(* sktime _set_params step 1: the whole list *)
Definition meta_step1 (e : est) (kvs : list kv) : est * list kv :=
  match meta (cls_of e) with
  | None => (e, kvs)
  | Some (akey, _) =>
      match lookup [akey] kvs with
      | Some (VSteps l) => (set_steps e l, filter (fun x => negb (path_eqb (fst x) [akey])) kvs)
      | Some _ => (e, kvs)               (* not generated: non-list value for the component list *)
      | None => (e, kvs)
      end
  end.

(* step 2: replacement of whole components by name (names read once, after step 1) *)
Definition meta_step2 (e : est) (kvs : list kv) : res (est * list kv) :=
  match meta (cls_of e) with
  | None => Ok (e, kvs)
  | Some _ =>
      let names := step_names e in
      fold_left (fun (r : res (est * list kv)) (x : kv) =>
                   match r with
                   | Err => Err
                   | Ok (e', rest) =>
                       if is_flat x && smem (head_of x) names then
                         match snd x with
                         | VEst c => Ok (set_steps e' (put_e (head_of x) c (steps_of e')), rest)
                         | _ => Err      (* outside the model: "drop"/None components *)
                         end
                       else Ok (e', rest ++ [x])
                   end) kvs (Ok (e, []))
  end.

Fixpoint set_params_fuel (fuel : nat) (e : est) (kvs : list kv) : res est :=
  match fuel with
  | O => Err
  | S f =>
      let (e1, kvs1) := meta_step1 e kvs in
      match meta_step2 e1 kvs1 with
      | Err => Err
      | Ok (e2, kvs2) => plain_phase (set_params_fuel f) e2 kvs2
      end
  end.

Definition max_len (kvs : list kv) : nat := fold_right (fun x m => Nat.max (List.length (fst x)) m) O kvs.

(* est.set_params( **kvs ): every nested call strips one segment, so this fuel never runs out *)
Definition set_params (e : est) (kvs : list kv) : res est := set_params_fuel (S (max_len kvs)) e kvs.

(* ---------------------------------------------------------------- clone *)
(* sklearn.base.clone: klass( **{name: clone(param, safe=False)} ) from get_params(deep=False) *)
Fixpoint clone_est (e : est) {struct e} : est :=
  match e with
  | Est cls ps => construct cls (map (fun kvp : string * value =>
                                        (fst kvp, match snd kvp with
                                                  | VAtom a => VAtom a
                                                  | VEst c => VEst (clone_est c)
                                                  | VSteps l => VSteps (map (fun ne : string * est => (fst ne, clone_est (snd ne))) l)
                                                  end)) ps)
  end.

(* ---------------------------------------------------------------- component names (_check_names) *)
Definition has_dunder_free (names : list string) (dunder : string -> bool) : bool :=
  forallb (fun n => negb (dunder n)) names.

Fixpoint nodupb (l : list string) : bool :=
  match l with
  | [] => true
  | x :: t => negb (smem x t) && nodupb t
  end.

(* unique, not shadowing a constructor parameter, no "__" (the latter as a predicate on names) *)
Definition check_names (e : est) (dunder : string -> bool) : bool :=
  nodupb (step_names e) && forallb (fun n => negb (smem n (param_names e))) (step_names e) &&
  has_dunder_free (step_names e) dunder.

(* ---------------------------------------------------------------- well-formed trees *)
(* What Python and _check_names guarantee: distinct parameter names; for a composite the component
   list is present, component names are distinct and do not shadow a parameter; a private list key
   (ColumnEnsembleClassifier's "_estimators") is not itself a parameter or component name. *)
Definition wf_here (e : est) : bool :=
  nodupb (param_names e) &&
  match meta (cls_of e) with
  | None => true
  | Some (akey, sp) =>
      match assoc_v sp (params_of e) with Some (VSteps _) => true | _ => false end &&
      nodupb (step_names e) &&
      forallb (fun n => negb (smem n (param_names e))) (step_names e) &&
      (String.eqb akey sp || negb (smem akey (valid_heads e)))
  end.

Fixpoint wf (e : est) {struct e} : bool :=
  wf_here e &&
  match e with
  | Est _ ps => forallb (fun kvp : string * value =>
                           match snd kvp with
                           | VAtom _ => true
                           | VEst c => wf c
                           | VSteps l => forallb (fun ne : string * est => wf (snd ne)) l
                           end) ps
  end.

End WithMeta.

(* ---------------------------------------------------------------- fitted-state machine *)
Record obj := Obj { o_est : est; o_fitted : bool }.

Inductive outcome := NotFitted | Result | ReturnsSelf | FitFailed | NewObject.

Inductive event :=
  | EFit (succeeds : bool)          (* fit(...); `succeeds` = the class-specific fitting returns *)
  | EApply (m : string)             (* predict / predict_proba / transform / inverse_transform /
                                       update / update_predict / update_predict_single / score *)
  | EClone.                         (* continue with sklearn.base.clone(obj) *)

Definition fresh (e : est) : obj := Obj e false.

Definition step (o : obj) (ev : event) : obj * outcome :=
  match ev with
  | EFit true => (Obj (o_est o) true, ReturnsSelf)       (* _is_fitted = True at the END of fit *)
  | EFit false => (o, FitFailed)
  | EApply _ => (o, if o_fitted o then Result else NotFitted)   (* guard first *)
  | EClone => (Obj (clone_est (o_est o)) false, NewObject)
  end.

Fixpoint run (o : obj) (evs : list event) : obj * list outcome :=
  match evs with
  | [] => (o, [])
  | ev :: t => let (o1, r) := step o ev in let (o2, rs) := run o1 t in (o2, r :: rs)
  end.
