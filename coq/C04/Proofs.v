From Coq Require Import ZArith List Bool String Lia.
Require Import SkV.Lib.Base SkV.C04.Model.
Import ListNotations.
