(* C04 proofs about the model (Model.v): for ALL parameter trees, any nesting depth. *)
From Coq Require Import ZArith List Bool String Lia Arith.
Require Import SkV.Lib.Base SkV.C04.Model.
Import ListNotations.
Open Scope string_scope.
Open Scope list_scope.

(* ------------------------------------------------------------------ induction on trees *)
Section EstInd.
  Variables (P : est -> Prop) (Q : value -> Prop).
  Hypothesis HEst : forall cls ps, Forall (fun kvp => Q (snd kvp)) ps -> P (Est cls ps).
  Hypothesis HAtom : forall a, Q (VAtom a).
  Hypothesis HVEst : forall e, P e -> Q (VEst e).
  Hypothesis HSteps : forall l, Forall (fun ne => P (snd ne)) l -> Q (VSteps l).

  Fixpoint est_ind2 (e : est) : P e :=
    match e with
    | Est cls ps =>
        HEst cls ps
          ((fix go (ps : list (string * value)) : Forall (fun kvp => Q (snd kvp)) ps :=
              match ps with
              | [] => Forall_nil _
              | kvp :: t => Forall_cons kvp (value_ind2 (snd kvp)) (go t)
              end) ps)
    end
  with value_ind2 (v : value) : Q v :=
    match v with
    | VAtom a => HAtom a
    | VEst e => HVEst e (est_ind2 e)
    | VSteps l =>
        HSteps l
          ((fix go (l : list (string * est)) : Forall (fun ne => P (snd ne)) l :=
              match l with
              | [] => Forall_nil _
              | ne :: t => Forall_cons ne (est_ind2 (snd ne)) (go t)
              end) l)
    end.
End EstInd.

(* ------------------------------------------------------------------ small list lemmas *)
Lemma assoc_v_put_same k v ps : assoc_v k ps <> None -> assoc_v k (put_v k v ps) = Some v.
Proof.
  induction ps as [|[k' v'] t IH]; cbn; [congruence|].
  destruct (String.eqb k' k) eqn:E; cbn; rewrite E; [reflexivity|exact IH].
Qed.

Lemma assoc_v_put_other k k' v ps : k' <> k -> assoc_v k' (put_v k v ps) = assoc_v k' ps.
Proof.
  intro Hne. induction ps as [|[k2 v2] t IH]; cbn; [reflexivity|].
  destruct (String.eqb k2 k) eqn:E; cbn.
  - apply String.eqb_eq in E. subst k2.
    destruct (String.eqb k k') eqn:E2; [apply String.eqb_eq in E2; congruence|reflexivity].
  - destruct (String.eqb k2 k'); [reflexivity|exact IH].
Qed.

Lemma put_v_same k v ps : assoc_v k ps = Some v -> put_v k v ps = ps.
Proof.
  induction ps as [|[k' v'] t IH]; cbn; [reflexivity|].
  destruct (String.eqb k' k) eqn:E.
  - intro H. injection H as ->. reflexivity.
  - intro H. rewrite (IH H). reflexivity.
Qed.

Lemma assoc_e_put_same k c l : assoc_e k l <> None -> assoc_e k (put_e k c l) = Some c.
Proof.
  induction l as [|[k' c'] t IH]; cbn; [congruence|].
  destruct (String.eqb k' k) eqn:E; cbn; rewrite E; [reflexivity|exact IH].
Qed.

Lemma assoc_e_put_other k k' c l : k' <> k -> assoc_e k' (put_e k c l) = assoc_e k' l.
Proof.
  intro Hne. induction l as [|[k2 c2] t IH]; cbn; [reflexivity|].
  destruct (String.eqb k2 k) eqn:E; cbn.
  - apply String.eqb_eq in E. subst k2.
    destruct (String.eqb k k') eqn:E2; [apply String.eqb_eq in E2; congruence|reflexivity].
  - destruct (String.eqb k2 k'); [reflexivity|exact IH].
Qed.

Lemma put_e_same k c l : assoc_e k l = Some c -> put_e k c l = l.
Proof.
  induction l as [|[k' c'] t IH]; cbn; [reflexivity|].
  destruct (String.eqb k' k) eqn:E.
  - intro H. injection H as ->. reflexivity.
  - intro H. rewrite (IH H). reflexivity.
Qed.

Lemma map_fst_put_v k v ps : map fst (put_v k v ps) = map fst ps.
Proof.
  induction ps as [|[k' v'] t IH]; cbn; [reflexivity|].
  destruct (String.eqb k' k); cbn; [reflexivity|now rewrite IH].
Qed.

Lemma map_fst_put_e k c l : map fst (put_e k c l) = map fst l.
Proof.
  induction l as [|[k' c'] t IH]; cbn; [reflexivity|].
  destruct (String.eqb k' k); cbn; [reflexivity|now rewrite IH].
Qed.

Lemma smem_In x l : smem x l = true <-> In x l.
Proof.
  unfold smem. rewrite existsb_exists. split.
  - intros [y [Hin H]]. apply String.eqb_eq in H. subst. exact Hin.
  - intro H. exists x. split; [exact H|apply String.eqb_refl].
Qed.

Lemma assoc_v_In_names k ps : assoc_v k ps <> None <-> In k (map fst ps).
Proof.
  induction ps as [|[k' v'] t IH]; cbn; [tauto|].
  destruct (String.eqb k' k) eqn:E.
  - apply String.eqb_eq in E. subst. split; [auto|congruence].
  - apply String.eqb_neq in E. rewrite IH. split; [auto|]. intros [H|H]; [congruence|exact H].
Qed.

Lemma assoc_e_In_names k l : assoc_e k l <> None <-> In k (map fst l).
Proof.
  induction l as [|[k' v'] t IH]; cbn; [tauto|].
  destruct (String.eqb k' k) eqn:E.
  - apply String.eqb_eq in E. subst. split; [auto|congruence].
  - apply String.eqb_neq in E. rewrite IH. split; [auto|]. intros [H|H]; [congruence|exact H].
Qed.

Lemma path_eqb_refl p : path_eqb p p = true.
Proof. induction p as [|x t IH]; cbn; [reflexivity|]. now rewrite String.eqb_refl, IH. Qed.

Lemma path_eqb_eq p q : path_eqb p q = true <-> p = q.
Proof.
  revert q. induction p as [|x t IH]; destruct q as [|y u]; cbn; try (split; congruence).
  rewrite andb_true_iff, String.eqb_eq, IH. split; [intros [-> ->]; reflexivity|].
  intro H. injection H as -> ->. auto.
Qed.

(* ------------------------------------------------------------------ decidable equality is equality *)
Lemma atom_eqb_eq a b : atom_eqb a b = true <-> a = b.
Proof.
  destruct a, b; cbn; try (split; congruence).
  - rewrite Z.eqb_eq. split; congruence.
  - rewrite String.eqb_eq. split; congruence.
Qed.

Lemma est_eqb_eq : forall a b, est_eqb a b = true <-> a = b.
Proof.
  apply (est_ind2 (fun a => forall b, est_eqb a b = true <-> a = b)
                  (fun v => forall w, value_eqb v w = true <-> v = w)).
  - intros cls ps IH [cls2 ps2]. cbn [est_eqb]. rewrite andb_true_iff, String.eqb_eq.
    assert (Hgo : forall l2,
      (fix go (l1 l2 : list (string * value)) : bool :=
         match l1, l2 with
         | [], [] => true
         | (k1, v1) :: t1, (k2, v2) :: t2 => String.eqb k1 k2 && value_eqb v1 v2 && go t1 t2
         | _, _ => false
         end) ps l2 = true <-> ps = l2).
    { induction IH as [|[k1 v1] t1 Hv _ IHt]; intros [|[k2 v2] t2]; try (split; congruence).
      cbn [snd] in Hv. rewrite !andb_true_iff, String.eqb_eq, (Hv v2), IHt.
      split; [intros [[-> ->] ->]; reflexivity|]. intro H. injection H as -> -> ->. auto. }
    rewrite Hgo. split; [intros [-> ->]; reflexivity|]. intro H. injection H as -> ->. auto.
  - intros a [b| |]; cbn; try (split; congruence). rewrite atom_eqb_eq. split; congruence.
  - intros e IH [|e2|]; cbn; try (split; congruence). rewrite IH. split; congruence.
  - intros l IH [| |l2]; try (cbn; split; congruence). cbn [value_eqb].
    assert (Hgo : forall l2,
      (fix go (l1 l2 : list (string * est)) : bool :=
         match l1, l2 with
         | [], [] => true
         | (k1, e1) :: t1, (k2, e2) :: t2 => String.eqb k1 k2 && est_eqb e1 e2 && go t1 t2
         | _, _ => false
         end) l l2 = true <-> l = l2).
    { clear l2. induction IH as [|[k1 e1] t1 He _ IHt]; intros [|[k2 e2] t2]; try (split; congruence).
      cbn [snd] in He. rewrite !andb_true_iff, String.eqb_eq, (He e2), IHt.
      split; [intros [[-> ->] ->]; reflexivity|]. intro H. injection H as -> -> ->. auto. }
    rewrite Hgo. split; congruence.
Qed.

(* ------------------------------------------------------------------ clone *)
Lemma clone_est_id : forall e, clone_est e = e.
Proof.
  apply (est_ind2 (fun e => clone_est e = e)
                  (fun v => match v with
                            | VAtom a => True
                            | VEst c => clone_est c = c
                            | VSteps l => map (fun ne : string * est => (fst ne, clone_est (snd ne))) l = l
                            end)).
  - intros cls ps IH. cbn [clone_est]. unfold construct. f_equal.
    induction IH as [|[k v] t Hv _ IHt]; cbn [map]; [reflexivity|]. rewrite IHt. f_equal.
    cbn [fst snd] in *. destruct v as [a|c|l]; cbn; [reflexivity| |]; now rewrite Hv.
  - intros; exact I.
  - intros e H. exact H.
  - intros l IH. induction IH as [|[n c] t Hc _ IHt]; cbn [map]; [reflexivity|].
    cbn [fst snd] in *. now rewrite Hc, IHt.
Qed.

Section WithMeta.
Variable meta : meta_info.

(* ------------------------------------------------------------------ get_params after construction *)
Lemma get_after_construct cls args :
  get_params meta false (construct cls args) = map (fun kvp => ([fst kvp], snd kvp)) args.
Proof.
  unfold construct. cbn [get_params]. induction args as [|[k v] t IH]; cbn [flat_map map]; [reflexivity|].
  rewrite IH. cbn [fst snd]. destruct v as [a|c|l]; cbn; reflexivity.
Qed.

Lemma get_deep_contains_args cls args k v :
  In (k, v) args -> In ([k], v) (get_params meta true (construct cls args)).
Proof.
  unfold construct. cbn [get_params]. intro Hin. apply in_flat_map. exists (k, v). split; [exact Hin|].
  destruct v as [a|c|l]; cbn.
  - left; reflexivity.
  - apply in_or_app. right. left. reflexivity.
  - left; reflexivity.
Qed.

(* every key of get_params is a non-empty path *)
Lemma get_params_paths_nonempty : forall e deep x, In x (get_params meta deep e) -> fst x <> [].
Proof.
  intros [cls ps] deep x. cbn [get_params]. rewrite in_flat_map. intros [[k v] [_ Hx]].
  destruct v as [a|c|l].
  - destruct Hx as [<-|[]]. cbn. congruence.
  - apply in_app_or in Hx. destruct Hx as [Hx|[<-|[]]]; [|cbn; congruence].
    destruct deep; [|destruct Hx]. apply in_map_iff in Hx. destruct Hx as [y [<- _]]. cbn. congruence.
  - destruct Hx as [<-|Hx]; [cbn; congruence|].
    destruct (deep && is_steps_param meta cls k); [|destruct Hx].
    apply in_app_or in Hx. destruct Hx as [Hx|Hx].
    + apply in_map_iff in Hx. destruct Hx as [y [<- _]]. cbn. congruence.
    + apply in_flat_map in Hx. destruct Hx as [ne [_ Hx]]. apply in_map_iff in Hx.
      destruct Hx as [y [<- _]]. cbn. congruence.
Qed.

(* ------------------------------------------------------------------ reading one key structurally *)
(* get_params(deep=True)[p] read along the path: a component name shadows a parameter of the same
   name (dict.update in _get_params) *)
Fixpoint get_path (p : path) (e : est) : option value :=
  match p with
  | [] => None
  | [k] => match assoc_e k (steps_of meta e) with
           | Some c => Some (VEst c)
           | None => assoc_v k (params_of e)
           end
  | h :: rest => match component meta e h with
                 | Some c => get_path rest c
                 | None => None
                 end
  end.

Lemma steps_of_set_steps e l :
  steps_of meta e <> [] -> steps_of meta (set_steps meta e l) = l.
Proof.
  destruct e as [cls ps]. unfold steps_of, set_steps, steps_param. cbn [cls_of params_of].
  destruct (meta cls) as [[a sp]|] eqn:Em; [|congruence].
  destruct (assoc_v sp ps) as [v|] eqn:E; [|congruence]. intros _.
  cbn [set_attr cls_of params_of]. rewrite Em. rewrite assoc_v_put_same; congruence.
Qed.

Lemma assoc_e_nonempty k (l : list (string * est)) c : assoc_e k l = Some c -> l <> [].
Proof. destruct l; cbn; congruence. Qed.

Lemma set_steps_params_other e l k :
  ~ (is_steps_param meta (cls_of e) k = true) ->
  assoc_v k (params_of (set_steps meta e l)) = assoc_v k (params_of e).
Proof.
  destruct e as [cls ps]. unfold set_steps, is_steps_param, steps_param. cbn [cls_of].
  destruct (meta cls) as [[a sp]|]; [|reflexivity]. intro H. cbn [set_attr params_of].
  apply assoc_v_put_other. intro Heq. apply H. subst. apply String.eqb_refl.
Qed.

Lemma cls_of_set_attr e k v : cls_of (set_attr e k v) = cls_of e.
Proof. destruct e; reflexivity. Qed.

Lemma cls_of_set_steps e l : cls_of (set_steps meta e l) = cls_of e.
Proof. destruct e as [c ps]. unfold set_steps. cbn. destruct (steps_param meta c); reflexivity. Qed.

(* a component name is never the name of the parameter holding the components, when it is found
   as a component (assoc_v on it is None) *)
Lemma component_put e h c c' :
  component meta e h = Some c -> component meta (put_component meta e h c') h = Some c'.
Proof.
  unfold component, put_component. destruct e as [cls ps]. cbn [params_of].
  destruct (assoc_v h ps) as [v|] eqn:E.
  - destruct v as [a|c0|l]; try discriminate. intros _. cbn [set_attr params_of].
    rewrite assoc_v_put_same; [reflexivity|congruence].
  - intro Hs. pose proof (assoc_e_nonempty _ _ _ Hs) as Hne.
    assert (Hnsp : ~ (is_steps_param meta (cls_of (Est cls ps)) h = true)).
    { unfold is_steps_param, steps_param. cbn [cls_of]. unfold steps_of, steps_param in Hne. cbn in Hne.
      destruct (meta cls) as [[a sp]|]; [|congruence]. intro Heq. apply String.eqb_eq in Heq. subst sp.
      rewrite E in Hne. congruence. }
    pose proof (set_steps_params_other (Est cls ps) (put_e h c' (steps_of meta (Est cls ps))) h Hnsp) as H1.
    cbn [params_of] in H1. destruct (set_steps meta (Est cls ps) _) as [cls' ps'] eqn:Es.
    cbn [params_of] in *. rewrite H1, E.
    rewrite <- Es, steps_of_set_steps by exact Hne. apply assoc_e_put_same. congruence.
Qed.

(* ------------------------------------------------------------------ one assignment at any depth *)
Lemma max_len_single (p : path) (v : value) : max_len [(p, v)] = List.length p.
Proof. unfold max_len. cbn. lia. Qed.

Lemma nodup_s_single h : nodup_s [h] [] = [h].
Proof. reflexivity. Qed.

Lemma set_params_fuel_S f e kvs :
  set_params_fuel meta (S f) e kvs =
  (let (e1, kvs1) := meta_step1 meta e kvs in
   match meta_step2 meta e1 kvs1 with
   | Err => Err
   | Ok (e2, kvs2) => plain_phase meta (set_params_fuel meta f) e2 kvs2
   end).
Proof. reflexivity. Qed.

Lemma plain_single_flat rec e k v :
  plain_phase meta rec e [([k], v)] =
  if smem k (valid_heads meta e) then Ok (set_attr e k v) else Err.
Proof.
  unfold plain_phase. cbn [forallb fst]. rewrite andb_true_r.
  destruct (smem k (valid_heads meta e)); reflexivity.
Qed.

Lemma plain_single_nested rec e h r rest v :
  plain_phase meta rec e [(h :: r :: rest, v)] =
  if smem h (valid_heads meta e) then
    match component meta e h with
    | Some c => match rec c [(r :: rest, v)] with
                | Ok c' => Ok (put_component meta e h c')
                | Err => Err
                end
    | None => Err
    end
  else Err.
Proof.
  unfold plain_phase. cbn [forallb fst]. rewrite andb_true_r.
  destruct (smem h (valid_heads meta e)); [|reflexivity].
  cbn [fold_left is_flat fst]. unfold nested_heads.
  cbn [filter is_flat fst negb map head_of nodup_s smem existsb fold_left].
  destruct (component meta e h) as [c|]; [|reflexivity].
  unfold subs. cbn [flat_map fst snd tl]. rewrite String.eqb_refl. reflexivity.
Qed.

(* unfolding set_params on a single nested assignment h__rest = v *)
Lemma set_single_nested e h r rest v :
  set_params meta e [(h :: r :: rest, v)] =
  if smem h (valid_heads meta e) then
    match component meta e h with
    | Some c => match set_params meta c [(r :: rest, v)] with
                | Ok c' => Ok (put_component meta e h c')
                | Err => Err
                end
    | None => Err
    end
  else Err.
Proof.
  unfold set_params at 1. rewrite max_len_single. cbn [List.length]. rewrite set_params_fuel_S.
  assert (H1 : meta_step1 meta e [(h :: r :: rest, v)] = (e, [(h :: r :: rest, v)])).
  { unfold meta_step1. destruct (meta (cls_of e)) as [[a sp]|]; [|reflexivity].
    cbn [lookup path_eqb fst]. rewrite andb_false_r. reflexivity. }
  rewrite H1.
  assert (H2 : meta_step2 meta e [(h :: r :: rest, v)] = Ok (e, [(h :: r :: rest, v)])).
  { unfold meta_step2. destruct (meta (cls_of e)); reflexivity. }
  rewrite H2. rewrite plain_single_nested.
  unfold set_params. rewrite max_len_single. cbn [List.length]. reflexivity.
Qed.

(* unfolding set_params on a single flat assignment k = v *)
Lemma set_single_flat e k v :
  set_params meta e [([k], v)] =
  match meta (cls_of e) with
  | Some (akey, _) =>
      match (if String.eqb akey k then match v with VSteps l => Some l | _ => None end else None) with
      | Some l => Ok (set_steps meta e l)
      | None =>
          if smem k (step_names meta e) then
            match v with
            | VEst c => Ok (set_steps meta e (put_e k c (steps_of meta e)))
            | _ => Err
            end
          else if smem k (valid_heads meta e) then Ok (set_attr e k v) else Err
      end
  | None => if smem k (valid_heads meta e) then Ok (set_attr e k v) else Err
  end.
Proof.
  unfold set_params. rewrite max_len_single. cbn [List.length]. rewrite set_params_fuel_S.
  unfold meta_step1, meta_step2.
  destruct (meta (cls_of e)) as [[akey sp]|] eqn:Em.
  - cbn [lookup path_eqb fst]. rewrite andb_true_r. rewrite (String.eqb_sym k akey).
    destruct (String.eqb akey k) eqn:Ek.
    + destruct v as [a|c|l].
      * rewrite Em. cbn [fold_left is_flat fst head_of snd andb].
        destruct (smem k (step_names meta e)); [reflexivity|]. cbn [app].
        apply plain_single_flat.
      * rewrite Em. cbn [fold_left is_flat fst head_of snd andb].
        destruct (smem k (step_names meta e)); [reflexivity|]. cbn [app].
        apply plain_single_flat.
      * cbn [filter fst path_eqb negb]. rewrite (String.eqb_sym k akey), Ek. cbn [andb negb].
        rewrite cls_of_set_steps, Em. cbn [fold_left]. reflexivity.
    + rewrite Em. cbn [fold_left is_flat fst head_of snd andb].
      destruct (smem k (step_names meta e)).
      * destruct v; reflexivity.
      * cbn [app]. apply plain_single_flat.
  - rewrite Em. apply plain_single_flat.
Qed.

(* ------------------------------------------------------------------ well-formedness *)
Lemma nodupb_NoDup l : nodupb l = true <-> NoDup l.
Proof.
  induction l as [|x t IH]; cbn; [split; [constructor|reflexivity]|].
  rewrite andb_true_iff, negb_true_iff, IH. split.
  - intros [H1 H2]. constructor; [|exact H2]. intro Hin. apply smem_In in Hin. congruence.
  - intro H. inversion H as [|? ? Hn Hd]; subst. split; [|exact Hd].
    destruct (smem x t) eqn:E; [apply smem_In in E; contradiction|reflexivity].
Qed.

Lemma assoc_v_In k v ps : assoc_v k ps = Some v -> In (k, v) ps.
Proof.
  induction ps as [|[k' v'] t IH]; cbn; [congruence|].
  destruct (String.eqb k' k) eqn:E.
  - apply String.eqb_eq in E. subst. intro H. injection H as ->. left; reflexivity.
  - intro H. right. exact (IH H).
Qed.

Lemma assoc_e_In k c l : assoc_e k l = Some c -> In (k, c) l.
Proof.
  induction l as [|[k' c'] t IH]; cbn; [congruence|].
  destruct (String.eqb k' k) eqn:E.
  - apply String.eqb_eq in E. subst. intro H. injection H as ->. left; reflexivity.
  - intro H. right. exact (IH H).
Qed.

Lemma wf_unfold e :
  wf meta e = wf_here meta e &&
              forallb (fun kvp : string * value =>
                         match snd kvp with
                         | VAtom _ => true
                         | VEst c => wf meta c
                         | VSteps l => forallb (fun ne : string * est => wf meta (snd ne)) l
                         end) (params_of e).
Proof. destruct e; reflexivity. Qed.

Lemma wf_component e h c : wf meta e = true -> component meta e h = Some c -> wf meta c = true.
Proof.
  rewrite wf_unfold, andb_true_iff. intros [_ Hall] Hc. rewrite forallb_forall in Hall.
  unfold component in Hc. destruct (assoc_v h (params_of e)) as [v|] eqn:E.
  - destruct v as [a|c0|l]; try discriminate. injection Hc as ->.
    exact (Hall _ (assoc_v_In _ _ _ E)).
  - unfold steps_of in Hc. destruct (steps_param meta (cls_of e)) as [sp|]; [|discriminate].
    destruct (assoc_v sp (params_of e)) as [[a|c0|l]|] eqn:E2; try discriminate.
    pose proof (Hall _ (assoc_v_In _ _ _ E2)) as Hl. cbn [snd] in Hl. rewrite forallb_forall in Hl.
    exact (Hl _ (assoc_e_In _ _ _ Hc)).
Qed.

(* component names never shadow parameters in a well-formed tree *)
Lemma wf_here_step_not_param e n :
  wf_here meta e = true -> In n (step_names meta e) -> ~ In n (param_names e).
Proof.
  unfold wf_here. rewrite andb_true_iff. intros [_ H] Hin.
  unfold step_names, steps_of, steps_param in *.
  destruct (meta (cls_of e)) as [[a sp]|]; [|destruct Hin].
  rewrite !andb_true_iff in H. destruct H as [[[_ _] H] _]. rewrite forallb_forall in H.
  specialize (H n Hin). rewrite negb_true_iff in H. intro Hp. apply smem_In in Hp. congruence.
Qed.

Lemma param_names_set_attr e k v : param_names (set_attr e k v) = param_names e.
Proof. destruct e as [c ps]. unfold param_names. cbn. apply map_fst_put_v. Qed.

Lemma param_names_set_steps e l : param_names (set_steps meta e l) = param_names e.
Proof.
  destruct e as [c ps]. unfold set_steps. cbn [cls_of]. destruct (steps_param meta c); [|reflexivity].
  apply param_names_set_attr.
Qed.

Lemma In_valid_heads e k : In k (valid_heads meta e) <-> In k (param_names e) \/ In k (step_names meta e).
Proof. unfold valid_heads. apply in_app_iff. Qed.

(* the key is a public one: not the private alias under which _set_params looks for the list *)
Fixpoint public_key (p : path) (e : est) : Prop :=
  match p with
  | [] => True
  | [k] => forall a sp, meta (cls_of e) = Some (a, sp) -> a = sp \/ k <> a
  | h :: rest => forall c, component meta e h = Some c -> public_key rest c
  end.

(* ------------------------------------------------------------------ lens law 1: get after set *)
Lemma get_after_set_flat e k v e' :
  set_params meta e [([k], v)] = Ok e' -> wf_here meta e' = true -> public_key [k] e ->
  get_path [k] e' = Some v.
Proof.
  rewrite set_single_flat. intros Hset Hwf Hpub. cbn [get_path public_key] in *.
  assert (Hplain : smem k (step_names meta e) = false -> smem k (valid_heads meta e) = true ->
                   e' = set_attr e k v ->
                   match assoc_e k (steps_of meta e') with
                   | Some c => Some (VEst c)
                   | None => assoc_v k (params_of e')
                   end = Some v).
  { intros Hns Hv ->. apply smem_In, In_valid_heads in Hv.
    destruct Hv as [Hv|Hv]; [|apply smem_In in Hv; congruence].
    destruct (assoc_e k (steps_of meta (set_attr e k v))) as [c|] eqn:Ec.
    - exfalso. assert (Hin : In k (step_names meta (set_attr e k v))).
      { unfold step_names. apply assoc_e_In_names. congruence. }
      apply (wf_here_step_not_param _ _ Hwf Hin). rewrite param_names_set_attr. exact Hv.
    - destruct e as [c ps]. cbn [set_attr params_of]. apply assoc_v_put_same.
      apply assoc_v_In_names. exact Hv. }
  destruct (meta (cls_of e)) as [[akey sp]|] eqn:Em.
  - destruct (String.eqb akey k) eqn:Ek.
    + apply String.eqb_eq in Ek. subst akey.
      destruct v as [a|c|l].
      * destruct (smem k (step_names meta e)) eqn:Hs; [discriminate|].
        destruct (smem k (valid_heads meta e)) eqn:Hv; [|discriminate]. injection Hset as <-. auto.
      * destruct (smem k (step_names meta e)) eqn:Hs.
        -- injection Hset as <-. apply smem_In in Hs.
           assert (Hne : steps_of meta e <> []).
           { unfold step_names in Hs. destruct (steps_of meta e); [destruct Hs|congruence]. }
           rewrite steps_of_set_steps by exact Hne.
           rewrite assoc_e_put_same; [reflexivity|]. apply assoc_e_In_names. exact Hs.
        -- destruct (smem k (valid_heads meta e)) eqn:Hv; [|discriminate]. injection Hset as <-. auto.
      * (* the whole list *)
        injection Hset as <-. destruct (Hpub k sp eq_refl) as [<-|Hne]; [|congruence].
        (* k = sp is a parameter of e' (wf), hence not a component name *)
        assert (Hp : In k (param_names (set_steps meta e l))).
        { unfold wf_here in Hwf. rewrite andb_true_iff in Hwf. destruct Hwf as [_ Hwf].
          rewrite cls_of_set_steps, Em in Hwf. rewrite !andb_true_iff in Hwf.
          destruct Hwf as [[[Hpres _] _] _]. unfold param_names. apply assoc_v_In_names.
          destruct (assoc_v k (params_of (set_steps meta e l))); congruence. }
        destruct (assoc_e k (steps_of meta (set_steps meta e l))) as [c|] eqn:Ec.
        -- exfalso. apply (wf_here_step_not_param _ k Hwf); [|exact Hp].
           unfold step_names. apply assoc_e_In_names. congruence.
        -- rewrite param_names_set_steps in Hp. destruct e as [cls ps]. unfold set_steps, steps_param.
           cbn [cls_of] in *. rewrite Em. cbn [set_attr params_of]. apply assoc_v_put_same.
           apply assoc_v_In_names. exact Hp.
    + destruct (smem k (step_names meta e)) eqn:Hs.
      * destruct v as [a|c|l]; try discriminate. injection Hset as <-. apply smem_In in Hs.
        assert (Hne : steps_of meta e <> []).
        { unfold step_names in Hs. destruct (steps_of meta e); [destruct Hs|congruence]. }
        rewrite steps_of_set_steps by exact Hne.
        rewrite assoc_e_put_same; [reflexivity|]. apply assoc_e_In_names. exact Hs.
      * destruct (smem k (valid_heads meta e)) eqn:Hv; [|discriminate]. injection Hset as <-. auto.
  - destruct (smem k (valid_heads meta e)) eqn:Hv; [|discriminate]. injection Hset as <-.
    apply Hplain; [|reflexivity|reflexivity].
    unfold step_names, steps_of, steps_param. rewrite Em. reflexivity.
Qed.

Theorem get_after_set : forall (p : list string) e v e',
  set_params meta e [(p, v)] = Ok e' -> wf meta e' = true -> public_key p e ->
  get_path p e' = Some v.
Proof.
  induction p as [|h rest IH]; intros e v e' Hset Hwf Hpub.
  - (* the empty key is rejected *)
    exfalso. unfold set_params in Hset. rewrite max_len_single in Hset. cbn [List.length] in Hset.
    rewrite set_params_fuel_S in Hset.
    unfold meta_step1, meta_step2 in Hset.
    destruct (meta (cls_of e)) as [[a sp]|] eqn:Em; cbn [lookup path_eqb fst] in Hset;
      try rewrite Em in Hset; cbn in Hset; discriminate.
  - destruct rest as [|r rest].
    + apply (get_after_set_flat e h v e' Hset); [|exact Hpub].
      rewrite wf_unfold, andb_true_iff in Hwf. tauto.
    + rewrite set_single_nested in Hset.
      destruct (smem h (valid_heads meta e)); [|discriminate].
      destruct (component meta e h) as [c|] eqn:Ec; [|discriminate].
      destruct (set_params meta c [(r :: rest, v)]) as [c'|] eqn:Es; [|discriminate].
      injection Hset as <-.
      change (get_path (h :: r :: rest) (put_component meta e h c'))
        with (match component meta (put_component meta e h c') h with
              | Some c0 => get_path (r :: rest) c0
              | None => None
              end).
      pose proof (component_put e h c c' Ec) as Hc. rewrite Hc.
      apply (IH c v c' Es).
      * exact (wf_component _ _ _ Hwf Hc).
      * cbn [public_key] in Hpub. exact (Hpub c Ec).
Qed.

(* ------------------------------------------------------------------ lens law 2: set what is there *)
Lemma set_attr_same e k v : assoc_v k (params_of e) = Some v -> set_attr e k v = e.
Proof. destruct e as [c ps]. cbn. intro H. now rewrite put_v_same. Qed.

Lemma set_steps_same e : steps_of meta e <> [] -> set_steps meta e (steps_of meta e) = e.
Proof.
  unfold steps_of, set_steps. destruct (steps_param meta (cls_of e)) as [sp|]; [|congruence].
  destruct (assoc_v sp (params_of e)) as [[a|c|l]|] eqn:E; try congruence. intros _.
  now apply set_attr_same.
Qed.

Lemma put_component_same e h c : component meta e h = Some c -> put_component meta e h c = e.
Proof.
  unfold component, put_component. destruct (assoc_v h (params_of e)) as [v|] eqn:E.
  - destruct v as [a|c0|l]; try discriminate. intro H. injection H as ->. now apply set_attr_same.
  - intro H. rewrite (put_e_same _ _ _ H). apply set_steps_same. eapply assoc_e_nonempty; eauto.
Qed.

Lemma component_valid_head e h c : component meta e h = Some c -> smem h (valid_heads meta e) = true.
Proof.
  unfold component. intro H. apply smem_In, In_valid_heads.
  destruct (assoc_v h (params_of e)) as [v|] eqn:E.
  - left. unfold param_names. apply assoc_v_In_names. congruence.
  - right. unfold step_names. apply assoc_e_In_names. congruence.
Qed.

Lemma set_same_flat e k v :
  wf_here meta e = true -> get_path [k] e = Some v -> set_params meta e [([k], v)] = Ok e.
Proof.
  intros Hwf Hget. cbn [get_path] in Hget. rewrite set_single_flat.
  destruct (assoc_e k (steps_of meta e)) as [c|] eqn:Ec.
  - (* k names a component *)
    injection Hget as <-.
    assert (Hs : smem k (step_names meta e) = true).
    { apply smem_In. unfold step_names. apply assoc_e_In_names. congruence. }
    assert (Hst : set_steps meta e (put_e k c (steps_of meta e)) = e).
    { rewrite (put_e_same _ _ _ Ec). apply set_steps_same. eapply assoc_e_nonempty; eauto. }
    destruct (meta (cls_of e)) as [[akey sp]|] eqn:Em.
    + destruct (String.eqb akey k); rewrite Hs, Hst; reflexivity.
    + unfold steps_of, steps_param in Ec. rewrite Em in Ec. discriminate.
  - assert (Hs : smem k (step_names meta e) = false).
    { destruct (smem k (step_names meta e)) eqn:E; [|reflexivity]. apply smem_In in E.
      unfold step_names in E. apply assoc_e_In_names in E. congruence. }
    assert (Hv : smem k (valid_heads meta e) = true).
    { apply smem_In, In_valid_heads. left. unfold param_names. apply assoc_v_In_names. congruence. }
    destruct (meta (cls_of e)) as [[akey sp]|] eqn:Em.
    + destruct (String.eqb akey k) eqn:Ek.
      * apply String.eqb_eq in Ek. subst akey. destruct v as [a|c|l].
        -- rewrite Hs, Hv. now rewrite set_attr_same.
        -- rewrite Hs, Hv. now rewrite set_attr_same.
        -- (* the whole list, unchanged: k must be the list parameter itself *)
           unfold wf_here in Hwf. rewrite Em in Hwf. rewrite !andb_true_iff in Hwf.
           destruct Hwf as [_ [_ Hk]]. rewrite orb_true_iff in Hk. destruct Hk as [Hk|Hk].
           ++ apply String.eqb_eq in Hk. subst sp. unfold set_steps, steps_param. rewrite Em.
              now rewrite set_attr_same.
           ++ rewrite negb_true_iff in Hk. congruence.
      * rewrite Hs, Hv. now rewrite set_attr_same.
    + rewrite Hv. now rewrite set_attr_same.
Qed.

Theorem set_same_is_noop : forall (p : list string) e v,
  wf meta e = true -> get_path p e = Some v -> set_params meta e [(p, v)] = Ok e.
Proof.
  induction p as [|h rest IH]; intros e v Hwf Hget; [discriminate|].
  destruct rest as [|r rest].
  - apply set_same_flat; [|exact Hget]. rewrite wf_unfold, andb_true_iff in Hwf. tauto.
  - rewrite set_single_nested.
    change (get_path (h :: r :: rest) e)
      with (match component meta e h with Some c => get_path (r :: rest) c | None => None end) in Hget.
    destruct (component meta e h) as [c|] eqn:Ec; [|discriminate].
    rewrite (component_valid_head _ _ _ Ec).
    rewrite (IH c v (wf_component _ _ _ Hwf Ec) Hget). now rewrite put_component_same.
Qed.

(* ------------------------------------------------------------------ lens law 3: frame *)
(* the two keys do not overlap: different heads that do not address the component list as a whole,
   or the same component and non-overlapping keys below it *)
Definition list_key (cls k : string) : bool :=
  match meta cls with
  | Some (a, sp) => String.eqb a k || String.eqb sp k
  | None => false
  end.

Fixpoint indep (p q : path) (e : est) : Prop :=
  match p, q with
  | h :: rp, h' :: rq =>
      if String.eqb h h' then
        rp <> [] /\ rq <> [] /\
        match component meta e h with Some c => indep rp rq c | None => False end
      else list_key (cls_of e) h = false /\ list_key (cls_of e) h' = false
  | _, _ => False
  end.

Lemma list_key_steps_param cls k : list_key cls k = false -> is_steps_param meta cls k = false.
Proof.
  unfold list_key, is_steps_param, steps_param. destruct (meta cls) as [[a sp]|]; [|reflexivity].
  rewrite orb_false_iff. tauto.
Qed.

Lemma steps_of_set_attr_other e k v :
  is_steps_param meta (cls_of e) k = false -> steps_of meta (set_attr e k v) = steps_of meta e.
Proof.
  destruct e as [cls ps]. unfold steps_of, is_steps_param. cbn [cls_of set_attr params_of].
  destruct (steps_param meta cls) as [sp|]; [|reflexivity]. intro H. apply String.eqb_neq in H.
  rewrite assoc_v_put_other by congruence. reflexivity.
Qed.

(* reading a key whose head is h' after a change confined to head h <> h' *)
Lemma get_path_set_attr_other e k v h' rq :
  h' <> k -> is_steps_param meta (cls_of e) k = false ->
  get_path (h' :: rq) (set_attr e k v) = get_path (h' :: rq) e.
Proof.
  intros Hne Hk.
  assert (Hs : steps_of meta (set_attr e k v) = steps_of meta e) by (now apply steps_of_set_attr_other).
  assert (Hp : assoc_v h' (params_of (set_attr e k v)) = assoc_v h' (params_of e)).
  { destruct e as [c ps]. cbn. now apply assoc_v_put_other. }
  destruct rq as [|r rq].
  - cbn [get_path]. now rewrite Hs, Hp.
  - change (get_path (h' :: r :: rq) ?x)
      with (match component meta x h' with Some c => get_path (r :: rq) c | None => None end).
    unfold component. now rewrite Hs, Hp.
Qed.

Lemma put_v_absent k v ps : assoc_v k ps = None -> put_v k v ps = ps.
Proof.
  induction ps as [|[k' v'] t IH]; cbn; [reflexivity|].
  destruct (String.eqb k' k); [discriminate|]. intro H. now rewrite IH.
Qed.

Lemma steps_of_set_steps_gen e l :
  steps_of meta (set_steps meta e l) = l \/ set_steps meta e l = e.
Proof.
  destruct e as [cls ps]. unfold steps_of, set_steps, steps_param. cbn [cls_of params_of].
  destruct (meta cls) as [[a sp]|] eqn:Em; [|right; reflexivity].
  cbn [set_attr cls_of params_of]. rewrite Em.
  destruct (assoc_v sp ps) as [v0|] eqn:E.
  - left. rewrite assoc_v_put_same; congruence.
  - right. now rewrite put_v_absent.
Qed.

Lemma get_path_set_steps_other e k c h' rq :
  h' <> k -> is_steps_param meta (cls_of e) h' = false ->
  get_path (h' :: rq) (set_steps meta e (put_e k c (steps_of meta e))) = get_path (h' :: rq) e.
Proof.
  intros Hne Hk. set (l := put_e k c (steps_of meta e)).
  destruct (steps_of_set_steps_gen e l) as [Hs|Hs]; [|now rewrite Hs].
  assert (Hp : assoc_v h' (params_of (set_steps meta e l)) = assoc_v h' (params_of e)).
  { apply set_steps_params_other. congruence. }
  assert (He : assoc_e h' (steps_of meta (set_steps meta e l)) = assoc_e h' (steps_of meta e)).
  { rewrite Hs. unfold l. now apply assoc_e_put_other. }
  destruct rq as [|r rq].
  - cbn [get_path]. now rewrite He, Hp.
  - change (get_path (h' :: r :: rq) ?x)
      with (match component meta x h' with Some c => get_path (r :: rq) c | None => None end).
    unfold component. now rewrite He, Hp.
Qed.

Lemma get_path_put_component_other e h c' h' rq :
  h' <> h -> list_key (cls_of e) h = false -> list_key (cls_of e) h' = false ->
  get_path (h' :: rq) (put_component meta e h c') = get_path (h' :: rq) e.
Proof.
  intros Hne Hh Hh'. unfold put_component. destruct (assoc_v h (params_of e)).
  - apply get_path_set_attr_other; [exact Hne|now apply list_key_steps_param].
  - apply get_path_set_steps_other; [exact Hne|now apply list_key_steps_param].
Qed.

Theorem set_preserves_other_keys : forall (p q : list string) e v e',
  set_params meta e [(p, v)] = Ok e' -> indep p q e -> get_path q e' = get_path q e.
Proof.
  induction p as [|h rp IH]; intros q e v e' Hset Hind; [destruct Hind|].
  destruct q as [|h' rq]; [destruct Hind|]. cbn [indep] in Hind.
  destruct (String.eqb h h') eqn:Eh.
  - (* same component, both keys go below it *)
    apply String.eqb_eq in Eh. subst h'. destruct Hind as [Hrp [Hrq Hc]].
    destruct rp as [|r rp]; [congruence|]. destruct rq as [|r' rq]; [congruence|].
    rewrite set_single_nested in Hset.
    destruct (smem h (valid_heads meta e)); [|discriminate].
    destruct (component meta e h) as [c|] eqn:Ec; [|destruct Hc].
    destruct (set_params meta c [(r :: rp, v)]) as [c'|] eqn:Es; [|discriminate].
    injection Hset as <-.
    change (get_path (h :: r' :: rq) ?x)
      with (match component meta x h with Some c0 => get_path (r' :: rq) c0 | None => None end).
    rewrite (component_put e h c c' Ec), Ec. exact (IH (r' :: rq) c v c' Es Hc).
  - apply String.eqb_neq in Eh. destruct Hind as [Hh Hh'].
    assert (Hne : h' <> h) by congruence.
    destruct rp as [|r rp].
    + (* a flat assignment that is not the component list *)
      rewrite set_single_flat in Hset. unfold list_key in Hh.
      destruct (meta (cls_of e)) as [[akey sp]|] eqn:Em.
      * rewrite orb_false_iff in Hh. destruct Hh as [Ha Hsp]. rewrite Ha in Hset.
        destruct (smem h (step_names meta e)).
        -- destruct v as [a|c|l]; try discriminate. injection Hset as <-.
           apply get_path_set_steps_other; [exact Hne|]. apply list_key_steps_param. exact Hh'.
        -- destruct (smem h (valid_heads meta e)); [|discriminate]. injection Hset as <-.
           apply get_path_set_attr_other; [exact Hne|].
           unfold is_steps_param, steps_param. now rewrite Em.
      * destruct (smem h (valid_heads meta e)); [|discriminate]. injection Hset as <-.
        apply get_path_set_attr_other; [exact Hne|].
        unfold is_steps_param, steps_param. now rewrite Em.
    + rewrite set_single_nested in Hset.
      destruct (smem h (valid_heads meta e)); [|discriminate].
      destruct (component meta e h) as [c|] eqn:Ec; [|discriminate].
      destruct (set_params meta c [(r :: rp, v)]) as [c'|] eqn:Es; [|discriminate].
      injection Hset as <-. now apply get_path_put_component_other.
Qed.

(* ------------------------------------------------------------------ unknown names are rejected *)
Theorem unknown_flat_rejected e k v :
  ~ In k (param_names e) -> ~ In k (step_names meta e) ->
  (forall a sp, meta (cls_of e) = Some (a, sp) -> k <> a) ->
  set_params meta e [([k], v)] = Err.
Proof.
  intros Hp Hs Ha. rewrite set_single_flat.
  assert (Hv : smem k (valid_heads meta e) = false).
  { destruct (smem k (valid_heads meta e)) eqn:E; [|reflexivity].
    apply smem_In, In_valid_heads in E. tauto. }
  assert (Hsn : smem k (step_names meta e) = false).
  { destruct (smem k (step_names meta e)) eqn:E; [|reflexivity]. apply smem_In in E. tauto. }
  destruct (meta (cls_of e)) as [[akey sp]|] eqn:Em.
  - assert (Hk : String.eqb akey k = false).
    { apply String.eqb_neq. intro Heq. exact (Ha akey sp eq_refl (eq_sym Heq)). }
    now rewrite Hk, Hsn, Hv.
  - now rewrite Hv.
Qed.

Theorem unknown_head_rejected e h r rest v :
  ~ In h (param_names e) -> ~ In h (step_names meta e) ->
  set_params meta e [(h :: r :: rest, v)] = Err.
Proof.
  intros Hp Hs. rewrite set_single_nested.
  destruct (smem h (valid_heads meta e)) eqn:E; [|reflexivity].
  apply smem_In, In_valid_heads in E. tauto.
Qed.

(* ... at any depth: a rejection below a component is a rejection of the whole call *)
Theorem unknown_nested_rejected e h c r rest v :
  component meta e h = Some c -> set_params meta c [(r :: rest, v)] = Err ->
  set_params meta e [(h :: r :: rest, v)] = Err.
Proof.
  intros Hc Hs. rewrite set_single_nested, Hc, Hs.
  destruct (smem h (valid_heads meta e)); reflexivity.
Qed.

(* a key below something that is not an estimator is rejected *)
Theorem nested_below_non_estimator_rejected e h r rest v :
  component meta e h = None -> set_params meta e [(h :: r :: rest, v)] = Err.
Proof.
  intro Hc. rewrite set_single_nested, Hc. destruct (smem h (valid_heads meta e)); reflexivity.
Qed.

(* ------------------------------------------------------------------ replacing a component by name *)
Theorem replace_component_by_name e n c :
  In n (step_names meta e) ->
  (forall a sp, meta (cls_of e) = Some (a, sp) -> n <> a) ->
  set_params meta e [([n], VEst c)] = Ok (set_steps meta e (put_e n c (steps_of meta e))).
Proof.
  intros Hin Ha. rewrite set_single_flat. apply smem_In in Hin.
  destruct (meta (cls_of e)) as [[akey sp]|] eqn:Em.
  - assert (Hk : String.eqb akey n = false).
    { apply String.eqb_neq. intro Heq. exact (Ha akey sp eq_refl (eq_sym Heq)). }
    now rewrite Hk, Hin.
  - unfold step_names, steps_of, steps_param in Hin. rewrite Em in Hin. discriminate.
Qed.

Theorem replaced_component_is_read_back e n c :
  In n (step_names meta e) ->
  assoc_e n (steps_of meta (set_steps meta e (put_e n c (steps_of meta e)))) = Some c /\
  step_names meta (set_steps meta e (put_e n c (steps_of meta e))) = step_names meta e /\
  (forall n', n' <> n ->
     assoc_e n' (steps_of meta (set_steps meta e (put_e n c (steps_of meta e)))) =
     assoc_e n' (steps_of meta e)).
Proof.
  intro Hin.
  assert (Hne : steps_of meta e <> []).
  { unfold step_names in Hin. destruct (steps_of meta e); [destruct Hin|congruence]. }
  rewrite steps_of_set_steps by exact Hne. unfold step_names. rewrite steps_of_set_steps by exact Hne.
  split; [|split].
  - apply assoc_e_put_same. apply assoc_e_In_names. exact Hin.
  - apply map_fst_put_e.
  - intros n' Hn. now apply assoc_e_put_other.
Qed.

(* ------------------------------------------------------------------ documented order of one call *)
(* One call carrying the whole component list, a replacement for one of ITS components and a
   parameter of THAT component - in any of the six dict orders - acts like three calls in the order
   whole list -> component -> component parameter. *)
Section Order.
  Variables (e : est) (sp n k : string) (L : list (string * est)) (c : est) (v : value).
  Hypothesis Hmeta : meta (cls_of e) = Some (sp, sp).
  Hypothesis Hsp : In sp (param_names e).
  Hypothesis Hn : In n (map fst L).
  Hypothesis Hnsp : n <> sp.

  Let e1 := set_steps meta e L.
  Let e2 := set_steps meta e1 (put_e n c (steps_of meta e1)).
  Let kL : kv := ([sp], VSteps L).
  Let kC : kv := ([n], VEst c).
  Let kP : kv := ([n; k], v).

  Lemma order_steps_e1 : steps_of meta e1 = L.
  Proof.
    unfold e1. destruct e as [cls ps]. unfold steps_of, set_steps, steps_param. cbn [cls_of] in *.
    rewrite Hmeta. cbn [set_attr cls_of params_of]. rewrite Hmeta.
    rewrite assoc_v_put_same; [reflexivity|]. apply assoc_v_In_names. exact Hsp.
  Qed.

  Lemma order_first : set_params meta e [kL] = Ok e1.
  Proof. unfold kL. rewrite set_single_flat, Hmeta, String.eqb_refl. reflexivity. Qed.

  Lemma order_second : set_params meta e1 [kC] = Ok e2.
  Proof.
    unfold kC. rewrite set_single_flat. unfold e1 at 1. rewrite cls_of_set_steps, Hmeta.
    assert (Hk : String.eqb sp n = false) by (apply String.eqb_neq; congruence). rewrite Hk.
    unfold step_names, e2. rewrite order_steps_e1. apply smem_In in Hn. rewrite Hn. reflexivity.
  Qed.

  Lemma order_any (kvs : list kv) :
    lookup [sp] kvs = Some (VSteps L) ->
    filter (fun x : kv => negb (path_eqb (fst x) [sp])) kvs = [kC; kP] \/
    filter (fun x : kv => negb (path_eqb (fst x) [sp])) kvs = [kP; kC] ->
    max_len kvs = 2%nat ->
    set_params meta e kvs = set_params meta e2 [kP].
  Proof.
    intros Hl Hf Hm. unfold set_params at 1. rewrite Hm, set_params_fuel_S.
    unfold meta_step1. rewrite Hmeta, Hl. fold e1.
    assert (Hs2 : forall rest, rest = [kC; kP] \/ rest = [kP; kC] ->
                  meta_step2 meta e1 rest = Ok (e2, [kP])).
    { intros rest Hr. unfold meta_step2. unfold e1 at 1. rewrite cls_of_set_steps, Hmeta.
      unfold step_names. rewrite order_steps_e1. apply smem_In in Hn.
      unfold e2. rewrite order_steps_e1.
      destruct Hr as [-> | ->]; unfold kC, kP; cbn [fold_left is_flat fst head_of snd andb app];
        rewrite Hn; cbn [andb app]; try rewrite order_steps_e1; reflexivity. }
    match goal with |- context [meta_step2 meta e1 ?r] => rewrite (Hs2 r Hf) end.
    (* right-hand side: a single nested key passes steps 1 and 2 untouched *)
    unfold set_params. unfold kP at 2. rewrite max_len_single. cbn [List.length].
    rewrite set_params_fuel_S.
    assert (H1 : meta_step1 meta e2 [kP] = (e2, [kP])).
    { unfold meta_step1, kP. destruct (meta (cls_of e2)) as [[a sp']|]; [|reflexivity].
      cbn [lookup path_eqb fst]. rewrite andb_false_r. reflexivity. }
    rewrite H1.
    assert (H2 : meta_step2 meta e2 [kP] = Ok (e2, [kP])).
    { unfold meta_step2, kP. destruct (meta (cls_of e2)); reflexivity. }
    rewrite H2. reflexivity.
  Qed.

  Theorem order_list_component_param :
    forall kvs, In kvs [[kL; kC; kP]; [kL; kP; kC]; [kC; kL; kP]; [kC; kP; kL]; [kP; kL; kC]; [kP; kC; kL]] ->
    set_params meta e kvs = set_params meta e2 [kP].
  Proof.
    assert (Hk : String.eqb n sp = false) by (apply String.eqb_neq; congruence).
    intros kvs Hin. apply order_any.
    - cbn [In] in Hin. unfold kL, kC, kP in Hin.
      repeat (destruct Hin as [<-|Hin]; [cbn [lookup path_eqb]; rewrite ?Hk, ?String.eqb_refl; reflexivity|]).
      destruct Hin.
    - cbn [In] in Hin. unfold kL, kC, kP in *.
      repeat (destruct Hin as [<-|Hin];
              [cbn [filter fst path_eqb negb]; rewrite ?Hk, ?String.eqb_refl; cbn [andb negb]; auto|]).
      destruct Hin.
    - cbn [In] in Hin. unfold kL, kC, kP in Hin.
      repeat (destruct Hin as [<-|Hin]; [reflexivity|]). destruct Hin.
  Qed.
End Order.

End WithMeta.
