(* C04 property theorems.  Nothing but statements closed by `exact`, each followed by
   Print Assumptions.  `class_table` is the table regenerated from /repo's source on this run
   (build/coq/C04/Gen.v); `meta` is any description of the composite classes (which parameter holds
   the named components and under which key _set_params looks for the whole list); `sk_meta`
   (Cases.v) is the one of sktime 0.6.0 that the correspondence run uses. *)
From Coq Require Import ZArith List Bool String.
Require Import SkV.Lib.Base SkV.C04.Model SkV.C04.Cases SkV.C04.Table SkV.C04.Known SkV.C04.Gen
               SkV.C04.Bridge SkV.C04.Proofs SkV.C04.SetGet SkV.C04.State.
Import ListNotations.
Open Scope string_scope.
Open Scope list_scope.

(* ---- parameters: construction, get_params ---------------------------------------------------- *)

(* a constructor that stores every argument under its own name: get_params(deep=False) returns
   exactly the constructor arguments, in order, each under its own name *)
Theorem C04_get_after_construct : forall meta cls args,
  get_params meta false (construct cls args) = map (fun kvp => ([fst kvp], snd kvp)) args.
Proof. exact get_after_construct. Qed.
Print Assumptions C04_get_after_construct.

(* ... and get_params(deep=True) still contains every argument under its own name *)
Theorem C04_get_deep_contains_args : forall meta cls args k v,
  In (k, v) args -> In ([k], v) (get_params meta true (construct cls args)).
Proof. exact get_deep_contains_args. Qed.
Print Assumptions C04_get_deep_contains_args.

(* every key of get_params(deep=True), of any depth, denotes the value found by walking the tree
   along the key: component__param is the parameter `param` of the component `component` *)
Theorem C04_nested_get_reads_component_param : forall meta (p : list string) e v,
  wf meta e = true -> In (p, v) (get_params meta true e) -> get_path meta p e = Some v.
Proof. exact get_params_reads_path. Qed.
Print Assumptions C04_nested_get_reads_component_param.

(* ---- set_params( **get_params() ) and clone ---------------------------------------------------- *)

(* est.set_params( **est.get_params() ) succeeds and changes nothing, for every well-formed tree of
   any nesting depth: the call carries the whole component list, every component under its name,
   every plain parameter and every nested key at once *)
Theorem C04_set_get_id : forall meta e,
  wf meta e = true -> set_params meta e (get_params meta true e) = Ok e.
Proof. exact set_get_id. Qed.
Print Assumptions C04_set_get_id.

(* clone(est) has the same class and equal parameters, at every depth *)
Theorem C04_clone_equal_params : forall meta deep e,
  get_params meta deep (clone_est e) = get_params meta deep e /\ cls_of (clone_est e) = cls_of e.
Proof. exact clone_equal_params. Qed.
Print Assumptions C04_clone_equal_params.

(* ---- unknown names ---------------------------------------------------------------------------- *)

Theorem C04_unknown_name_rejected : forall meta e k v,
  ~ In k (param_names e) -> ~ In k (step_names meta e) ->
  (forall a sp, meta (cls_of e) = Some (a, sp) -> k <> a) ->
  set_params meta e [([k], v)] = Err.
Proof. exact unknown_flat_rejected. Qed.
Print Assumptions C04_unknown_name_rejected.

Theorem C04_unknown_component_rejected : forall meta e h r rest v,
  ~ In h (param_names e) -> ~ In h (step_names meta e) ->
  set_params meta e [(h :: r :: rest, v)] = Err.
Proof. exact unknown_head_rejected. Qed.
Print Assumptions C04_unknown_component_rejected.

(* a name unknown to a component at ANY depth makes the whole call fail *)
Theorem C04_unknown_nested_name_rejected : forall meta e h c r rest v,
  component meta e h = Some c -> set_params meta c [(r :: rest, v)] = Err ->
  set_params meta e [(h :: r :: rest, v)] = Err.
Proof. exact unknown_nested_rejected. Qed.
Print Assumptions C04_unknown_nested_name_rejected.

Theorem C04_nested_key_below_non_estimator_rejected : forall meta e h r rest v,
  component meta e h = None -> set_params meta e [(h :: r :: rest, v)] = Err.
Proof. exact nested_below_non_estimator_rejected. Qed.
Print Assumptions C04_nested_key_below_non_estimator_rejected.

(* ---- component__param lens laws, to any depth --------------------------------------------------- *)

(* what was written is read back *)
Theorem C04_nested_get_after_set : forall meta (p : list string) e v e',
  set_params meta e [(p, v)] = Ok e' -> wf meta e' = true -> public_key meta p e ->
  get_path meta p e' = Some v.
Proof. exact get_after_set. Qed.
Print Assumptions C04_nested_get_after_set.

(* writing what is already there changes nothing *)
Theorem C04_nested_set_same_is_noop : forall meta (p : list string) e v,
  wf meta e = true -> get_path meta p e = Some v -> set_params meta e [(p, v)] = Ok e.
Proof. exact set_same_is_noop. Qed.
Print Assumptions C04_nested_set_same_is_noop.

(* a write leaves every independent key untouched *)
Theorem C04_nested_set_preserves_other_keys : forall meta (p q : list string) e v e',
  set_params meta e [(p, v)] = Ok e' -> indep meta p q e -> get_path meta q e' = get_path meta q e.
Proof. exact set_preserves_other_keys. Qed.
Print Assumptions C04_nested_set_preserves_other_keys.

(* ---- whole components by name, documented order ------------------------------------------------ *)

Theorem C04_replace_component_by_name : forall meta e n c,
  In n (step_names meta e) ->
  (forall a sp, meta (cls_of e) = Some (a, sp) -> n <> a) ->
  set_params meta e [([n], VEst c)] = Ok (set_steps meta e (put_e n c (steps_of meta e))).
Proof. exact replace_component_by_name. Qed.
Print Assumptions C04_replace_component_by_name.

(* the replaced component is read back under its name; names and all other components unchanged *)
Theorem C04_replaced_component_is_read_back : forall meta e n c,
  In n (step_names meta e) ->
  assoc_e n (steps_of meta (set_steps meta e (put_e n c (steps_of meta e)))) = Some c /\
  step_names meta (set_steps meta e (put_e n c (steps_of meta e))) = step_names meta e /\
  (forall n', n' <> n ->
     assoc_e n' (steps_of meta (set_steps meta e (put_e n c (steps_of meta e)))) =
     assoc_e n' (steps_of meta e)).
Proof. exact replaced_component_is_read_back. Qed.
Print Assumptions C04_replaced_component_is_read_back.

(* one call carrying the whole list L, a replacement c for the component n of L and a parameter
   n__k = v - in any of the six dict orders - acts as: set the list, then replace n in THAT list,
   then set k on THAT replacement *)
Theorem C04_order_list_component_param : forall meta e sp n k L c v,
  meta (cls_of e) = Some (sp, sp) -> In sp (param_names e) -> In n (map fst L) -> n <> sp ->
  let kL : kv := ([sp], VSteps L) in
  let kC : kv := ([n], VEst c) in
  let kP : kv := ([n; k], v) in
  let e1 := set_steps meta e L in
  let e2 := set_steps meta e1 (put_e n c (steps_of meta e1)) in
  (set_params meta e [kL] = Ok e1 /\ set_params meta e1 [kC] = Ok e2) /\
  forall kvs, In kvs [[kL; kC; kP]; [kL; kP; kC]; [kC; kL; kP]; [kC; kP; kL]; [kP; kL; kC]; [kP; kC; kL]] ->
    set_params meta e kvs = set_params meta e2 [kP].
Proof.
  intros meta e sp n k L c v Hm Hsp Hn Hne. cbv zeta. split; [split|].
  - exact (order_first meta e sp L Hm).
  - exact (order_second meta e sp n L c Hm Hsp Hn Hne).
  - exact (order_list_component_param meta e sp n k L c v Hm Hsp Hn Hne).
Qed.
Print Assumptions C04_order_list_component_param.

(* ---- component names ----------------------------------------------------------------------------- *)

(* _check_names accepts exactly: distinct names, none equal to a constructor parameter, none
   containing "__" *)
Theorem C04_names_validated : forall meta e dunder,
  check_names meta e dunder = true <->
  NoDup (step_names meta e) /\
  (forall n, In n (step_names meta e) -> ~ In n (param_names e)) /\
  (forall n, In n (step_names meta e) -> dunder n = false).
Proof. exact names_validated. Qed.
Print Assumptions C04_names_validated.

(* ---- fitted state -------------------------------------------------------------------------------- *)

Theorem C04_fresh_or_cloned_not_fitted : forall e o,
  o_fitted (fresh e) = false /\
  o_fitted (fst (step o EClone)) = false /\ snd (step o EClone) = NewObject.
Proof. intros e o. split; [exact (fresh_not_fitted e)|exact (cloned_not_fitted o)]. Qed.
Print Assumptions C04_fresh_or_cloned_not_fitted.

(* every apply-type method after ANY history without a successful fit (failed fits, other
   apply-type calls, clones) raises NotFittedError and changes nothing *)
Theorem C04_apply_before_fit_raises : forall o evs m,
  o_fitted o = false -> forallb (fun ev => negb (successful_fit ev)) evs = true ->
  let o' := fst (run o evs) in
  snd (step o' (EApply m)) = NotFitted /\ fst (step o' (EApply m)) = o'.
Proof. exact apply_before_fit_raises. Qed.
Print Assumptions C04_apply_before_fit_raises.

(* whatever happened before (including successful fits), after a clone and no successful fit since,
   the apply-type call raises NotFittedError *)
Theorem C04_apply_after_clone_raises : forall o before between m after,
  forallb (fun ev => negb (successful_fit ev)) between = true ->
  nth (List.length before + 1 + List.length between)
      (snd (run o (before ++ [EClone] ++ between ++ [EApply m] ++ after))) Result = NotFitted.
Proof. exact apply_after_clone_raises. Qed.
Print Assumptions C04_apply_after_clone_raises.

Theorem C04_fit_returns_self_sets_flag_keeps_params : forall meta o deep,
  let o' := fst (step o (EFit true)) in
  snd (step o (EFit true)) = ReturnsSelf /\ o_fitted o' = true /\ o_est o' = o_est o /\
  get_params meta deep (o_est o') = get_params meta deep (o_est o).
Proof. exact fit_returns_self_sets_flag_keeps_params. Qed.
Print Assumptions C04_fit_returns_self_sets_flag_keeps_params.

Theorem C04_clone_of_fitted_is_unfitted_with_equal_params : forall meta deep o,
  let o' := fst (step (fst (step o (EFit true))) EClone) in
  o_fitted o' = false /\ get_params meta deep (o_est o') = get_params meta deep (o_est o).
Proof. exact clone_after_fit_unfitted_same_params. Qed.
Print Assumptions C04_clone_of_fitted_is_unfitted_with_equal_params.

(* ---- the class table regenerated from /repo on this run (finite, vm_compute) ------------------- *)

(* every constructor parameter of every estimator class of sktime/**/*.py is stored as passed under
   its own name (directly, through a reviewed identity-or-raise validator, or through parent
   constructors forwarding it under that name), except the (class, parameter) pairs of known_ctor *)
Theorem C04_all_classes_store_verbatim_or_known :
  forall row, In row class_table ->
    stores_ok_or_known identity_validators known_ctor class_table row = true.
Proof. exact all_classes_store_verbatim_or_known. Qed.
Print Assumptions C04_all_classes_store_verbatim_or_known.

(* what that boolean means when no exception is used *)
Theorem C04_stores_ok_means_stored_as_passed : forall vals t fuel cls p st,
  param_ok vals [] t fuel cls p st = true -> stored_verbatim vals t p st.
Proof. exact param_ok_sound. Qed.
Print Assumptions C04_stores_ok_means_stored_as_passed.

(* every apply-type method of every class reaches the fitted-state guard before touching fitted
   state on every completing path (or is abstract / scikit-learn's), except known_guard (open
   findings) and benign_guard (reviewed compliant, confirmed dynamically) *)
Theorem C04_all_apply_methods_guarded_or_known : forall row m g,
  In row class_table -> In (m, g) (r_methods row) ->
  (exists o, g = GG o \/ g = GA o \/ g = GX o) \/
  (exists o, (g = GR o \/ exists w, g = GU o w) /\ gmem guard_exceptions (r_key row) o m = true).
Proof. exact apply_method_guard_first_or_known. Qed.
Print Assumptions C04_all_apply_methods_guarded_or_known.

(* no code reachable from fit or an apply-type method assigns to a constructor parameter, except
   the (owner, parameter) pairs of known_mutation *)
Theorem C04_no_method_reassigns_a_parameter_or_known : forall row e o q,
  In row class_table -> In (e, o, q) (r_mutates row) -> In (o, q) known_mutation.
Proof. exact parameter_reassignment_known. Qed.
Print Assumptions C04_no_method_reassigns_a_parameter_or_known.

(* fit (own or inherited) of every class: every completing path returns self and has executed
   `self._is_fitted = True` as its last act - except the (owner, returns, flag) triples of known_fit
   (open findings) and benign_fit (reviewed compliant) *)
Theorem C04_all_fits_return_self_and_set_flag_or_known : forall row o ret flag early,
  In row class_table -> r_fit row = FF o ret flag early ->
  early = false /\
  ((ret = "self" /\ flag = "set") \/ In (o, ret, flag) fit_exceptions).
Proof. exact fit_contract_or_known. Qed.
Print Assumptions C04_all_fits_return_self_and_set_flag_or_known.

(* every set_params written in the package (the composites') is either abstract or reaches the
   validation of the names - scikit-learn's set_params through _set_params - on EVERY completing
   path: no early return before unknown names are rejected; all other classes inherit scikit-learn's *)
Theorem C04_all_set_params_validate_names : forall row,
  In row class_table ->
  r_setparams row = PX \/ (exists o, r_setparams row = PA o) \/ (exists o a, r_setparams row = PV o a).
Proof. exact set_params_validates_or_is_sklearns. Qed.
Print Assumptions C04_all_set_params_validate_names.

(* the composite descriptions sk_meta, under which the model is compared with the real objects, use
   per class the very key with which that class's set_params delegates to _set_params in the source *)
Theorem C04_model_meta_keys_are_the_delegation_keys :
  forall row, In row class_table -> meta_tie_ok sk_meta ["FeatureUnion"] row = true.
Proof. exact model_meta_keys_are_the_delegation_keys. Qed.
Print Assumptions C04_model_meta_keys_are_the_delegation_keys.

(* the state machine the fitted-state theorems above are about is the one written in
   sktime/base/_base.py on this run: flag False after construction, is_fitted returns the flag,
   apply-type methods raise exactly when check_is_fitted raises, and what it raises is
   sktime.exceptions.NotFittedError *)
Theorem C04_state_machine_is_base_estimators :
  (forall e, base_init_flag = Some (o_fitted (fresh e))) /\
  base_is_fitted_reads_flag = true /\
  (forall o m, snd (step o (EApply m)) = NotFitted <-> base_guard_raises (o_fitted o) = true) /\
  (forall o m, snd (step o (EApply m)) = Result <-> base_guard_raises (o_fitted o) = false) /\
  base_guard_exception = "sktime.exceptions.NotFittedError".
Proof. exact base_class_facts_match_model. Qed.
Print Assumptions C04_state_machine_is_base_estimators.

(* ---- non-vacuity --------------------------------------------------------------------------------- *)
(* a depth-3 composition of sktime classes is well formed, so the hypotheses above are satisfiable;
   the class table is not empty and more than half of its rows need no exception at all *)
Definition ex_tree : est :=
  Est "TransformedTargetForecaster"
    [("steps", VSteps
       [("a", Est "Detrender" [("forecaster", VEst (Est "PolynomialTrendForecaster"
                                  [("degree", VAtom (AInt 2)); ("regressor", VAtom ANone);
                                   ("with_intercept", VAtom (AInt 1))]))]);
        ("f", Est "EnsembleForecaster"
                [("aggfunc", VAtom (AStr "mean"));
                 ("forecasters", VSteps [("n1", Est "NaiveForecaster" [("sp", VAtom (AInt 1));
                                                                       ("strategy", VAtom (AStr "last"));
                                                                       ("window_length", VAtom ANone)])]);
                 ("n_jobs", VAtom ANone)])])].

Example C04_nonvacuous :
  wf sk_meta ex_tree = true /\
  List.length (get_params sk_meta true ex_tree) = 14%nat /\
  get_path sk_meta ["f"; "n1"; "strategy"] ex_tree = Some (VAtom (AStr "last")) /\
  (exists e', set_params sk_meta ex_tree [(["f"; "n1"; "strategy"], VAtom (AStr "mean"))] = Ok e' /\
              get_path sk_meta ["f"; "n1"; "strategy"] e' = Some (VAtom (AStr "mean"))) /\
  set_params sk_meta ex_tree [(["f"; "zz"; "strategy"], VAtom ANone)] = Err /\
  snd (run (fresh ex_tree) [EApply "predict"; EFit true; EApply "predict"; EClone; EApply "predict"]) =
    [NotFitted; ReturnsSelf; Result; NewObject; NotFitted] /\
  (100 <=? n_rows)%nat = true /\ (n_rows <=? 2 * n_rows_clean)%nat = true.
Proof.
  repeat split; try (vm_compute; reflexivity).
  eexists. split; vm_compute; reflexivity.
Qed.
