From Coq Require Import ZArith List Bool String.
Require Import SkV.Lib.Base SkV.C04.Model SkV.C04.Table SkV.C04.Known SkV.C04.Gen SkV.C04.Bridge SkV.C04.Proofs.
Import ListNotations.
