(* C04: set_params( **get_params(deep=True) ) is the identity on every well-formed parameter tree, of
   any nesting depth and for every composite class description (Model.v).  The call carries, all at
   once, the whole component list, every component under its name, every plain parameter and every
   nested component__param key; the proof follows the three phases of the real code
   (whole list -> components by name -> parameters, recursively). *)
From Coq Require Import ZArith List Bool String Lia Arith.
Require Import SkV.Lib.Base SkV.C04.Model SkV.C04.Proofs.
Import ListNotations.
Open Scope string_scope.
Open Scope list_scope.

(* ------------------------------------------------------------------ generic list facts *)
Lemma flat_map_nil_all {A B} (g : A -> list B) l : (forall x, In x l -> g x = []) -> flat_map g l = [].
Proof.
  induction l as [|a t IH]; intro H; cbn [flat_map]; [reflexivity|].
  rewrite (H a (or_introl eq_refl)), IH; [reflexivity|]. intros x Hx. apply H. now right.
Qed.

(* exactly one entry of an association list with distinct keys contributes *)
Lemma flat_map_single {V B} (g : string * V -> list B) (l : list (string * V)) k v :
  NoDup (map fst l) -> In (k, v) l ->
  (forall x, In x l -> fst x <> k -> g x = []) ->
  flat_map g l = g (k, v).
Proof.
  induction l as [|a t IH]; intros Hnd Hin Hg; [destruct Hin|].
  cbn [map] in Hnd. inversion Hnd as [|? ? Hnotin Hnd']; subst. cbn [flat_map].
  destruct Hin as [->|Hin].
  - rewrite flat_map_nil_all; [apply app_nil_r|].
    intros x Hx. apply Hg; [now right|]. cbn [fst] in Hnotin. intro Heq. apply Hnotin.
    rewrite <- Heq. apply in_map. exact Hx.
  - assert (Hne : fst a <> k).
    { intro Heq. apply Hnotin. rewrite Heq. change k with (fst (k, v)). apply in_map. exact Hin. }
    rewrite (Hg a (or_introl eq_refl) Hne). cbn [app].
    apply IH; [exact Hnd'|exact Hin|]. intros x Hx. apply Hg. now right.
Qed.

Lemma In_assoc_v k v ps : NoDup (map fst ps) -> In (k, v) ps -> assoc_v k ps = Some v.
Proof.
  induction ps as [|[k' v'] t IH]; intros Hnd Hin; [destruct Hin|].
  cbn [map fst] in Hnd. inversion Hnd as [|? ? Hnotin Hnd']; subst. cbn [assoc_v].
  destruct Hin as [Heq|Hin].
  - injection Heq as -> ->. now rewrite String.eqb_refl.
  - destruct (String.eqb k' k) eqn:E; [|now apply IH].
    apply String.eqb_eq in E. subst k'. exfalso. apply Hnotin.
    change k with (fst (k, v)). apply in_map. exact Hin.
Qed.

Lemma In_assoc_e k c l : NoDup (map fst l) -> In (k, c) l -> assoc_e k l = Some c.
Proof.
  induction l as [|[k' c'] t IH]; intros Hnd Hin; [destruct Hin|].
  cbn [map fst] in Hnd. inversion Hnd as [|? ? Hnotin Hnd']; subst. cbn [assoc_e].
  destruct Hin as [Heq|Hin].
  - injection Heq as -> ->. now rewrite String.eqb_refl.
  - destruct (String.eqb k' k) eqn:E; [|now apply IH].
    apply String.eqb_eq in E. subst k'. exfalso. apply Hnotin.
    change k with (fst (k, c)). apply in_map. exact Hin.
Qed.

Lemma lookup_In p v l : lookup p l = Some v -> In (p, v) l.
Proof.
  induction l as [|[q w] t IH]; cbn [lookup]; [discriminate|].
  destruct (path_eqb q p) eqn:E.
  - apply path_eqb_eq in E. subst q. intro H. injection H as ->. now left.
  - intro H. right. exact (IH H).
Qed.

(* ------------------------------------------------------------------ max_len *)
Lemma max_len_ge x kvs : In x kvs -> (List.length (fst x) <= max_len kvs)%nat.
Proof.
  induction kvs as [|a t IH]; [intros []|]. unfold max_len in *. cbn [fold_right].
  intros [->|H]; [lia|]. specialize (IH H). lia.
Qed.

Lemma max_len_lt n kvs : (0 < n)%nat -> (forall x, In x kvs -> (List.length (fst x) < n)%nat) ->
  (max_len kvs < n)%nat.
Proof.
  intros Hn. induction kvs as [|a t IH]; intro H; unfold max_len in *; cbn [fold_right]; [exact Hn|].
  pose proof (H a (or_introl eq_refl)). assert (forall x, In x t -> (List.length (fst x) < n)%nat).
  { intros x Hx. apply H. now right. }
  specialize (IH H1). lia.
Qed.

(* ------------------------------------------------------------------ subs / nested_heads *)
Lemma subs_app h a b : subs h (a ++ b) = subs h a ++ subs h b.
Proof. unfold subs. apply flat_map_app. Qed.

Lemma subs_cons h x t : subs h (x :: t) = subs h [x] ++ subs h t.
Proof. unfold subs. cbn [flat_map]. now rewrite app_nil_r. Qed.

Lemma subs_flat_map {A} h (g : A -> list kv) l : subs h (flat_map g l) = flat_map (fun a => subs h (g a)) l.
Proof.
  induction l as [|a t IH]; cbn [flat_map]; [reflexivity|]. now rewrite subs_app, IH.
Qed.

Lemma subs_prefix h k l :
  (forall x, In x l -> fst x <> []) ->
  subs h (map (prefix k) l) = if String.eqb k h then l else [].
Proof.
  intro Hne. induction l as [|[p v] t IH]; [now destruct (String.eqb k h)|].
  cbn [map]. rewrite subs_cons, IH by (intros; apply Hne; now right).
  assert (Hp : p <> []) by (apply (Hne (p, v)); now left).
  destruct p as [|r rest]; [congruence|].
  unfold subs at 1, prefix. cbn [flat_map fst snd tl].
  destruct (String.eqb k h); reflexivity.
Qed.

Lemma subs_all_flat h l : (forall x, In x l -> is_flat x = true) -> subs h l = [].
Proof.
  intro H. unfold subs. apply flat_map_nil_all. intros [p v] Hx. specialize (H _ Hx).
  unfold is_flat in H. cbn [fst] in *. destruct p as [|a [|b r]]; try discriminate; reflexivity.
Qed.

Lemma subs_In h y kvs : In y (subs h kvs) -> exists x, In x kvs /\ fst x = h :: fst y /\ fst y <> [].
Proof.
  unfold subs. rewrite in_flat_map. intros [x [Hx Hy]]. exists x. split; [exact Hx|].
  destruct x as [p v]. cbn [fst snd] in *. destruct p as [|h' [|r rest]]; try (destruct Hy; fail).
  destruct (String.eqb h' h) eqn:E; [|destruct Hy]. apply String.eqb_eq in E. subst h'.
  destruct Hy as [<-|[]]. cbn. split; [reflexivity|congruence].
Qed.

Lemma subs_len h y kvs : In y (subs h kvs) -> (S (List.length (fst y)) <= max_len kvs)%nat.
Proof.
  intro H. destruct (subs_In _ _ _ H) as [x [Hx [Hf _]]]. pose proof (max_len_ge _ _ Hx) as Hl.
  destruct x as [p v]. cbn [fst] in *. subst p. cbn [List.length] in Hl. exact Hl.
Qed.

(* removing flat keys changes neither the nested sub-assignments nor the nested heads *)
Lemma filter_keeps_nested (q : kv -> bool) kvs :
  (forall x, is_flat x = false -> q x = true) ->
  (forall h, subs h (filter q kvs) = subs h kvs) /\
  filter (fun x => negb (is_flat x)) (filter q kvs) = filter (fun x => negb (is_flat x)) kvs.
Proof.
  intro Hq. induction kvs as [|x t [IH1 IH2]]; [split; reflexivity|]. cbn [filter].
  destruct (q x) eqn:E.
  - split.
    + intro h. rewrite subs_cons, (subs_cons h x t), IH1. reflexivity.
    + cbn [filter]. now rewrite IH2.
  - assert (Hf : is_flat x = true).
    { destruct (is_flat x) eqn:F; [reflexivity|]. rewrite (Hq x F) in E. discriminate. }
    split.
    + intro h. rewrite (subs_cons h x t), IH1.
      unfold is_flat in Hf. destruct x as [p v]. cbn [fst] in Hf.
      destruct p as [|a [|b r]]; try discriminate. reflexivity.
    + rewrite Hf. cbn [negb]. exact IH2.
Qed.

Lemma nodup_s_In x l seen : In x (nodup_s l seen) -> In x l.
Proof.
  revert seen. induction l as [|a t IH]; intros seen; cbn [nodup_s]; [intros []|].
  destruct (smem a seen).
  - intro H. right. exact (IH _ H).
  - intros [->|H]; [now left|]. right. exact (IH _ H).
Qed.

Lemma nested_heads_In h kvs : In h (nested_heads kvs) ->
  exists x, In x kvs /\ is_flat x = false /\ head_of x = h.
Proof.
  unfold nested_heads. intro H. apply nodup_s_In in H. apply in_map_iff in H.
  destruct H as [x [Hh Hx]]. apply filter_In in Hx. destruct Hx as [Hx Hf].
  exists x. rewrite negb_true_iff in Hf. auto.
Qed.

Section WithMeta.
Variable meta : meta_info.
Notation G := (get_params meta true).

(* ------------------------------------------------------------------ membership in get_params *)
Lemma G_in cls ps x : In x (G (Est cls ps)) ->
  exists k v, In (k, v) ps /\
    (x = ([k], v) \/
     (exists c y, v = VEst c /\ In y (G c) /\ x = prefix k y) \/
     (exists l n c, v = VSteps l /\ is_steps_param meta cls k = true /\ In (n, c) l /\
        (x = ([n], VEst c) \/ exists y, In y (G c) /\ x = prefix n y))).
Proof.
  cbn [get_params]. rewrite in_flat_map. intros [[k v] [Hin Hx]]. exists k, v. split; [exact Hin|].
  destruct v as [a|c|l].
  - destruct Hx as [<-|[]]. now left.
  - apply in_app_or in Hx. destruct Hx as [Hx|[<-|[]]]; [|now left].
    apply in_map_iff in Hx. destruct Hx as [y [<- Hy]]. right. left. exists c, y. auto.
  - destruct Hx as [<-|Hx]; [now left|]. cbn [andb] in Hx.
    destruct (is_steps_param meta cls k) eqn:E; [|destruct Hx].
    right. right. apply in_app_or in Hx. destruct Hx as [Hx|Hx].
    + apply in_map_iff in Hx. destruct Hx as [[n c] [<- Hn]]. exists l, n, c. cbn [fst snd]. auto.
    + apply in_flat_map in Hx. destruct Hx as [[n c] [Hn Hx]]. apply in_map_iff in Hx.
      destruct Hx as [y [<- Hy]]. exists l, n, c. cbn [fst snd]. repeat split; auto. right. eauto.
Qed.

Lemma prefix_not_flat k y : fst y <> [] -> is_flat (prefix k y) = false.
Proof. destruct y as [[|a r] v]; cbn; [congruence|reflexivity]. Qed.

(* ------------------------------------------------------------------ what wf_here gives *)
Lemma wf_here_unpack e : wf_here meta e = true ->
  NoDup (param_names e) /\
  match meta (cls_of e) with
  | None => True
  | Some (akey, sp) =>
      (exists l, assoc_v sp (params_of e) = Some (VSteps l)) /\
      NoDup (step_names meta e) /\
      (forall n, In n (step_names meta e) -> ~ In n (param_names e)) /\
      (akey = sp \/ ~ In akey (valid_heads meta e))
  end.
Proof.
  unfold wf_here. rewrite andb_true_iff. intros [H1 H2]. split; [now apply nodupb_NoDup|].
  destruct (meta (cls_of e)) as [[akey sp]|]; [|exact I].
  rewrite !andb_true_iff in H2. destruct H2 as [[[Ha Hb] Hc] Hd]. repeat split.
  - destruct (assoc_v sp (params_of e)) as [[a|c|l]|]; try discriminate. eauto.
  - now apply nodupb_NoDup.
  - intros n Hn. rewrite forallb_forall in Hc. specialize (Hc n Hn). rewrite negb_true_iff in Hc.
    intro Hp. apply smem_In in Hp. congruence.
  - rewrite orb_true_iff in Hd. destruct Hd as [Hd|Hd]; [left; now apply String.eqb_eq|].
    right. rewrite negb_true_iff in Hd. intro Hin. apply smem_In in Hin. congruence.
Qed.

Lemma step_names_no_meta e : meta (cls_of e) = None -> step_names meta e = [].
Proof. intro H. unfold step_names, steps_of, steps_param. now rewrite H. Qed.

(* the component list of a well-formed composite, read from an entry of its parameters *)
Lemma steps_of_entry cls ps k l :
  NoDup (map fst ps) -> In (k, VSteps l) ps -> is_steps_param meta cls k = true ->
  steps_of meta (Est cls ps) = l.
Proof.
  intros Hnd Hin Hs. unfold steps_of, is_steps_param in *. cbn [cls_of params_of].
  destruct (steps_param meta cls) as [sp|]; [|discriminate]. apply String.eqb_eq in Hs. subst sp.
  now rewrite (In_assoc_v _ _ _ Hnd Hin).
Qed.

(* ------------------------------------------------------------------ flat keys of get_params *)
Definition flat_ok (e : est) (x : kv) : Prop :=
  assoc_v (head_of x) (params_of e) = Some (snd x) \/
  (exists c, snd x = VEst c /\ assoc_e (head_of x) (steps_of meta e) = Some c /\
             In (head_of x) (step_names meta e)).

Lemma G_flat e x : wf_here meta e = true -> In x (G e) -> is_flat x = true -> flat_ok e x.
Proof.
  intros Hwf Hin Hf. destruct e as [cls ps]. destruct (wf_here_unpack _ Hwf) as [Hnd Hm].
  unfold param_names in Hnd. cbn [params_of cls_of] in *.
  destruct (G_in _ _ _ Hin) as [k [v [Hkv Hx]]].
  destruct Hx as [->|[[c [y [-> [Hy ->]]]]|[l [n [c [-> [Hs [Hn Hx]]]]]]]].
  - left. cbn [head_of fst snd]. now apply In_assoc_v.
  - rewrite prefix_not_flat in Hf; [discriminate|]. eapply get_params_paths_nonempty; eauto.
  - destruct Hx as [->|[y [Hy ->]]].
    + right. exists c. cbn [head_of fst snd params_of].
      pose proof (steps_of_entry cls ps k l Hnd Hkv Hs) as Hso.
      assert (Hnds : NoDup (map fst l)).
      { unfold is_steps_param, steps_param in Hs. destruct (meta cls) as [[akey sp]|]; [|discriminate].
        destruct Hm as [_ [Hnds _]]. unfold step_names in Hnds. now rewrite Hso in Hnds. }
      rewrite Hso. split; [reflexivity|]. split; [now apply In_assoc_e|].
      unfold step_names. rewrite Hso. change n with (fst (n, c)). now apply in_map.
    + rewrite prefix_not_flat in Hf; [discriminate|]. eapply get_params_paths_nonempty; eauto.
Qed.

Lemma G_heads e x : wf_here meta e = true -> In x (G e) ->
  fst x <> [] /\ In (head_of x) (valid_heads meta e).
Proof.
  intros Hwf Hin. split; [eapply get_params_paths_nonempty; eauto|].
  destruct e as [cls ps]. destruct (wf_here_unpack _ Hwf) as [Hnd _].
  unfold param_names in Hnd. cbn [params_of] in Hnd.
  destruct (G_in _ _ _ Hin) as [k [v [Hkv Hx]]]. apply In_valid_heads.
  assert (Hk : In k (param_names (Est cls ps))).
  { unfold param_names. cbn [params_of]. change k with (fst (k, v)). now apply in_map. }
  destruct Hx as [->|[[c [y [-> [Hy ->]]]]|[l [n [c [-> [Hs [Hn Hx]]]]]]]].
  - now left.
  - left. destruct y as [p w]. exact Hk.
  - right. unfold step_names. rewrite (steps_of_entry cls ps k l Hnd Hkv Hs).
    assert (Hh : head_of x = n) by (destruct Hx as [->|[[p w] [_ ->]]]; reflexivity).
    rewrite Hh. change n with (fst (n, c)). now apply in_map.
Qed.

(* a nested key of get_params goes through a component, and below it lies the component's own
   get_params *)
Lemma G_nested_component e x : wf_here meta e = true -> In x (G e) -> is_flat x = false ->
  exists c, component meta e (head_of x) = Some c.
Proof.
  intros Hwf Hin Hf. destruct e as [cls ps]. destruct (wf_here_unpack _ Hwf) as [Hnd Hm].
  unfold param_names in Hnd. cbn [params_of cls_of] in *.
  destruct (G_in _ _ _ Hin) as [k [v [Hkv Hx]]].
  destruct Hx as [->|[[c [y [-> [Hy ->]]]]|[l [n [c [-> [Hs [Hn Hx]]]]]]]].
  - discriminate.
  - exists c. destruct y as [p w]. cbn [prefix head_of fst]. unfold component. cbn [params_of].
    now rewrite (In_assoc_v _ _ _ Hnd Hkv).
  - destruct Hx as [->|[[p w] [Hy ->]]]; [discriminate|]. exists c. cbn [prefix head_of fst].
    pose proof (steps_of_entry cls ps k l Hnd Hkv Hs) as Hso.
    unfold is_steps_param, steps_param in Hs. destruct (meta cls) as [[akey sp]|] eqn:Em; [|discriminate].
    destruct Hm as [_ [Hnds [Hsh _]]]. unfold step_names in Hnds, Hsh. rewrite Hso in Hnds, Hsh.
    assert (Hnn : In n (map fst l)) by (change n with (fst (n, c)); now apply in_map).
    unfold component. cbn [params_of].
    destruct (assoc_v n ps) as [v0|] eqn:Ea.
    + exfalso. apply (Hsh n Hnn). unfold param_names. cbn [params_of]. apply assoc_v_In_names. congruence.
    + rewrite Hso. now apply In_assoc_e.
Qed.

Lemma subs_G e h c : wf_here meta e = true -> component meta e h = Some c -> subs h (G e) = G c.
Proof.
  intros Hwf Hc. destruct e as [cls ps]. destruct (wf_here_unpack _ Hwf) as [Hnd Hm].
  unfold param_names in Hnd. cbn [params_of cls_of] in *.
  cbn [get_params]. rewrite subs_flat_map.
  assert (Hne : forall c0 x, In x (G c0) -> fst x <> []).
  { intros c0 x Hx. eapply get_params_paths_nonempty; eauto. }
  unfold component in Hc. cbn [params_of] in Hc.
  destruct (assoc_v h ps) as [v|] eqn:Ea.
  - (* a parameter holding an estimator *)
    destruct v as [a|c0|l]; try discriminate. injection Hc as ->.
    rewrite (flat_map_single _ ps h (VEst c) Hnd (assoc_v_In _ _ _ Ea)).
    + rewrite subs_app, (subs_prefix h h _ (Hne c)), String.eqb_refl. cbn. apply app_nil_r.
    + intros [k v] Hin Hk. cbn [fst] in Hk. destruct v as [a|c0|l].
      * reflexivity.
      * rewrite subs_app, (subs_prefix h k _ (Hne c0)).
        destruct (String.eqb k h) eqn:E; [apply String.eqb_eq in E; congruence|reflexivity].
      * rewrite subs_cons. cbn [andb]. destruct (is_steps_param meta cls k) eqn:Es; [|reflexivity].
        cbn [subs flat_map fst app]. rewrite subs_app.
        (* h is a parameter, hence not a component name *)
        pose proof (steps_of_entry cls ps k l Hnd Hin Es) as Hso.
        unfold is_steps_param, steps_param in Es. destruct (meta cls) as [[akey sp]|]; [|discriminate].
        destruct Hm as [_ [_ [Hsh _]]]. unfold step_names in Hsh. rewrite Hso in Hsh.
        assert (Hh : ~ In h (map fst l)).
        { intro Hin2. apply (Hsh h Hin2). unfold param_names. cbn [params_of].
          apply assoc_v_In_names. congruence. }
        rewrite (subs_all_flat h (map _ l))
          by (intros x Hx; apply in_map_iff in Hx; destruct Hx as [ne [<- _]]; reflexivity).
        cbn [app]. rewrite subs_flat_map. apply flat_map_nil_all. intros [n c1] Hn. cbn [fst snd].
        rewrite (subs_prefix h n _ (Hne c1)).
        destruct (String.eqb n h) eqn:E; [|reflexivity]. apply String.eqb_eq in E. subst n.
        exfalso. apply Hh. change h with (fst (h, c1)). now apply in_map.
  - (* a named component *)
    unfold steps_of, steps_param in Hc. cbn [cls_of params_of] in Hc.
    destruct (meta cls) as [[akey sp]|] eqn:Em; [|discriminate].
    destruct Hm as [[l Hl] [Hnds _]]. rewrite Hl in Hc.
    unfold step_names, steps_of, steps_param in Hnds. cbn [cls_of params_of] in Hnds.
    rewrite Em, Hl in Hnds.
    rewrite (flat_map_single _ ps sp (VSteps l) Hnd (assoc_v_In _ _ _ Hl)).
    + rewrite subs_cons. cbn [andb].
      assert (Es : is_steps_param meta cls sp = true).
      { unfold is_steps_param, steps_param. rewrite Em. apply String.eqb_refl. }
      rewrite Es. cbn [subs flat_map fst app]. rewrite subs_app.
      rewrite (subs_all_flat h (map _ l))
        by (intros x Hx; apply in_map_iff in Hx; destruct Hx as [ne [<- _]]; reflexivity).
      cbn [app]. rewrite subs_flat_map.
      rewrite (flat_map_single _ l h c Hnds (assoc_e_In _ _ _ Hc)).
      * cbn [fst snd]. rewrite (subs_prefix h h _ (Hne c)), String.eqb_refl. reflexivity.
      * intros [n c1] Hn Hk. cbn [fst snd] in *. rewrite (subs_prefix h n _ (Hne c1)).
        destruct (String.eqb n h) eqn:E; [apply String.eqb_eq in E; congruence|reflexivity].
    + intros [k v] Hin Hk. cbn [fst] in Hk. destruct v as [a|c0|l0].
      * reflexivity.
      * rewrite subs_app, (subs_prefix h k _ (Hne c0)).
        destruct (String.eqb k h) eqn:E; [|reflexivity]. apply String.eqb_eq in E. subst k.
        rewrite (In_assoc_v _ _ _ Hnd Hin) in Ea. discriminate.
      * cbn [andb]. assert (Es : is_steps_param meta cls k = false).
        { unfold is_steps_param, steps_param. rewrite Em. apply String.eqb_neq. congruence. }
        rewrite Es. reflexivity.
Qed.

(* ------------------------------------------------------------------ the three phases on G e *)
Definition reduct (kvs0 kvs : list kv) : Prop :=
  (forall x, In x kvs -> In x kvs0) /\
  (forall h, subs h kvs = subs h kvs0) /\
  nested_heads kvs = nested_heads kvs0.

Lemma reduct_refl kvs : reduct kvs kvs.
Proof. repeat split; auto. Qed.

Lemma reduct_filter (q : kv -> bool) kvs0 kvs :
  (forall x, is_flat x = false -> q x = true) -> reduct kvs0 kvs -> reduct kvs0 (filter q kvs).
Proof.
  intros Hq [H1 [H2 H3]]. destruct (filter_keeps_nested q kvs Hq) as [F1 F2]. repeat split.
  - intros x Hx. apply filter_In in Hx. apply H1. tauto.
  - intro h. now rewrite F1, H2.
  - unfold nested_heads in *. now rewrite F2.
Qed.

Lemma step1_G e : wf_here meta e = true ->
  exists kvs1, meta_step1 meta e (G e) = (e, kvs1) /\ reduct (G e) kvs1.
Proof.
  intro Hwf. unfold meta_step1. destruct (meta (cls_of e)) as [[akey sp]|] eqn:Em.
  2:{ eexists. split; [reflexivity|apply reduct_refl]. }
  destruct (lookup [akey] (G e)) as [[a|c|l]|] eqn:El;
    try (eexists; split; [reflexivity|apply reduct_refl]).
  pose proof (lookup_In _ _ _ El) as Hin.
  pose proof (G_flat e _ Hwf Hin eq_refl) as Hok. unfold flat_ok in Hok. cbn [head_of fst snd] in Hok.
  destruct Hok as [Ha|[c [Hc _]]]; [|discriminate].
  destruct (wf_here_unpack _ Hwf) as [_ Hm]. rewrite Em in Hm. destruct Hm as [_ [_ [_ Hk]]].
  assert (akey = sp).
  { destruct Hk as [Hk|Hk]; [exact Hk|]. exfalso. apply Hk. apply In_valid_heads. left.
    unfold param_names. apply assoc_v_In_names. congruence. }
  subst akey. exists (filter (fun x : kv => negb (path_eqb (fst x) [sp])) (G e)). split.
  - f_equal. unfold set_steps, steps_param. rewrite Em. now apply set_attr_same.
  - apply reduct_filter; [|apply reduct_refl]. intros [p v] Hf. cbn [fst].
    destruct (path_eqb p [sp]) eqn:E; [|reflexivity]. apply path_eqb_eq in E. subst p. discriminate.
Qed.

Lemma step2_fold e names kvs : forall acc,
  (forall x, In x kvs -> is_flat x = true -> In (head_of x) names ->
     exists c, snd x = VEst c /\ set_steps meta e (put_e (head_of x) c (steps_of meta e)) = e) ->
  fold_left (fun (r : res (est * list kv)) (x : kv) =>
               match r with
               | Err => Err
               | Ok (e', rest) =>
                   if is_flat x && smem (head_of x) names then
                     match snd x with
                     | VEst c => Ok (set_steps meta e' (put_e (head_of x) c (steps_of meta e')), rest)
                     | _ => Err
                     end
                   else Ok (e', rest ++ [x])
               end) kvs (Ok (e, acc)) =
  Ok (e, acc ++ filter (fun x => negb (is_flat x && smem (head_of x) names)) kvs).
Proof.
  induction kvs as [|x t IH]; intros acc H; cbn [fold_left filter]; [now rewrite app_nil_r|].
  destruct (is_flat x && smem (head_of x) names) eqn:E; cbn [negb].
  - apply andb_true_iff in E. destruct E as [Ef Es]. apply smem_In in Es.
    destruct (H x (or_introl eq_refl) Ef Es) as [c [-> Hsame]]. rewrite Hsame.
    apply IH. intros y Hy. apply H. now right.
  - rewrite IH by (intros y Hy; apply H; now right). now rewrite <- app_assoc.
Qed.

Lemma step2_G e kvs1 : wf_here meta e = true -> (forall x, In x kvs1 -> In x (G e)) ->
  exists kvs2, meta_step2 meta e kvs1 = Ok (e, kvs2) /\ reduct kvs1 kvs2 /\
    (forall x, In x kvs2 -> is_flat x = true -> ~ In (head_of x) (step_names meta e)).
Proof.
  intros Hwf Hsub. unfold meta_step2. destruct (meta (cls_of e)) as [[akey sp]|] eqn:Em.
  - exists (filter (fun x => negb (is_flat x && smem (head_of x) (step_names meta e))) kvs1).
    split; [|split].
    + rewrite step2_fold; [reflexivity|]. intros x Hx Hf Hn.
      pose proof (G_flat e x Hwf (Hsub x Hx) Hf) as [Ha|[c [Hv [Hc _]]]].
      * exfalso. destruct (wf_here_unpack _ Hwf) as [_ Hm]. rewrite Em in Hm.
        destruct Hm as [_ [_ [Hsh _]]]. apply (Hsh _ Hn). unfold param_names.
        apply assoc_v_In_names. congruence.
      * exists c. split; [exact Hv|]. rewrite (put_e_same _ _ _ Hc). apply set_steps_same.
        eapply assoc_e_nonempty; eauto.
    + apply reduct_filter; [|apply reduct_refl]. intros x Hf. now rewrite Hf.
    + intros x Hx Hf Hn. apply filter_In in Hx. destruct Hx as [_ Hq]. rewrite Hf in Hq. cbn [andb] in Hq.
      rewrite negb_true_iff in Hq. apply smem_In in Hn. congruence.
  - exists kvs1. split; [reflexivity|]. split; [apply reduct_refl|].
    intros x _ _. rewrite (step_names_no_meta e Em). intros [].
Qed.

Lemma fold_set_attr_same e kvs :
  (forall x, In x kvs -> is_flat x = true -> set_attr e (head_of x) (snd x) = e) ->
  fold_left (fun acc (x : kv) => if is_flat x then set_attr acc (head_of x) (snd x) else acc) kvs e = e.
Proof.
  induction kvs as [|x t IH]; intro H; cbn [fold_left]; [reflexivity|].
  destruct (is_flat x) eqn:E.
  - rewrite (H x (or_introl eq_refl) E). apply IH. intros y Hy. apply H. now right.
  - apply IH. intros y Hy. apply H. now right.
Qed.

Lemma fold_components_same (rec : est -> list kv -> res est) e kvs hs :
  (forall h, In h hs -> exists c, component meta e h = Some c /\ rec c (subs h kvs) = Ok c) ->
  fold_left (fun (r : res est) (h : string) =>
               match r with
               | Err => Err
               | Ok e' =>
                   match component meta e' h with
                   | Some c => match rec c (subs h kvs) with
                               | Ok c' => Ok (put_component meta e' h c')
                               | Err => Err
                               end
                   | None => Err
                   end
               end) hs (Ok e) = Ok e.
Proof.
  induction hs as [|h t IH]; intro H; cbn [fold_left]; [reflexivity|].
  destruct (H h (or_introl eq_refl)) as [c [Hc Hr]]. rewrite Hc, Hr, (put_component_same meta _ _ _ Hc).
  apply IH. intros h' Hh'. apply H. now right.
Qed.

(* ------------------------------------------------------------------ the theorem *)
Definition P (e : est) : Prop :=
  wf meta e = true -> forall f, (max_len (G e) < f)%nat -> set_params_fuel meta f e (G e) = Ok e.

Lemma P_step e : (forall h c, component meta e h = Some c -> P c) -> P e.
Proof.
  intros IH Hwf f Hf. destruct f as [|f]; [lia|]. rewrite set_params_fuel_S.
  assert (Hwh : wf_here meta e = true) by (rewrite wf_unfold, andb_true_iff in Hwf; tauto).
  destruct (step1_G e Hwh) as [kvs1 [-> R1]].
  destruct (step2_G e kvs1 Hwh (proj1 R1)) as [kvs2 [-> [R2 Hnn]]].
  assert (Hsub : forall x, In x kvs2 -> In x (G e)).
  { intros x Hx. apply (proj1 R1), (proj1 R2), Hx. }
  assert (Hsubs : forall h, subs h kvs2 = subs h (G e)).
  { intro h. rewrite (proj1 (proj2 R2)). apply (proj1 (proj2 R1)). }
  assert (Hnh : nested_heads kvs2 = nested_heads (G e)).
  { rewrite (proj2 (proj2 R2)). apply (proj2 (proj2 R1)). }
  unfold plain_phase. destruct kvs2 as [|x0 t0] eqn:Ek; [reflexivity|]. rewrite <- Ek in *.
  assert (Hall : forallb (fun x : kv => match fst x with
                                       | [] => false
                                       | h :: _ => smem h (valid_heads meta e)
                                       end) kvs2 = true).
  { apply forallb_forall. intros x Hx. destruct (G_heads e x Hwh (Hsub x Hx)) as [Hne Hh].
    destruct x as [[|h r] v]; cbn [fst head_of] in *; [congruence|]. now apply smem_In. }
  rewrite Hall.
  rewrite fold_set_attr_same.
  - apply fold_components_same. intros h Hh. rewrite Hnh in Hh.
    destruct (nested_heads_In _ _ Hh) as [x [Hx [Hfl Hhd]]].
    destruct (G_nested_component e x Hwh Hx Hfl) as [c Hc]. rewrite Hhd in Hc.
    exists c. split; [exact Hc|]. rewrite Hsubs, (subs_G e h c Hwh Hc).
    apply (IH h c Hc (wf_component meta _ _ _ Hwf Hc)).
    apply max_len_lt.
    + (* the nested key x has at least two segments *)
      pose proof (max_len_ge _ _ Hx) as Hl.
      pose proof (get_params_paths_nonempty meta _ _ _ Hx) as Hne0.
      destruct x as [[|a [|b r]] v]; cbn [fst] in *; [congruence|discriminate|].
      cbn [List.length] in Hl. lia.
    + intros y Hy. rewrite <- (subs_G e h c Hwh Hc) in Hy. pose proof (subs_len _ _ _ Hy) as Hsl.
      unfold lt in *. apply le_S_n. exact (Nat.le_trans _ _ _ (le_n_S _ _ Hsl) Hf).
  - intros x Hx Hfl. pose proof (G_flat e x Hwh (Hsub x Hx) Hfl) as [Ha|[c [_ [_ Hn]]]].
    + now apply set_attr_same.
    + exfalso. exact (Hnn x Hx Hfl Hn).
Qed.

Theorem set_get_id_fuel : forall e, P e.
Proof.
  apply (est_ind2 P (fun v => match v with
                              | VAtom _ => True
                              | VEst c => P c
                              | VSteps l => Forall (fun ne => P (snd ne)) l
                              end)).
  - intros cls ps IH. apply P_step. intros h c Hc. rewrite Forall_forall in IH.
    unfold component in Hc. cbn [params_of] in Hc. destruct (assoc_v h ps) as [v|] eqn:Ea.
    + destruct v as [a|c0|l]; try discriminate. injection Hc as ->.
      exact (IH _ (assoc_v_In _ _ _ Ea)).
    + unfold steps_of in Hc. cbn [cls_of params_of] in Hc.
      destruct (steps_param meta cls) as [sp|]; [|discriminate].
      destruct (assoc_v sp ps) as [[a|c0|l]|] eqn:E2; try discriminate.
      pose proof (IH _ (assoc_v_In _ _ _ E2)) as Hl. cbn [snd] in Hl. rewrite Forall_forall in Hl.
      exact (Hl _ (assoc_e_In _ _ _ Hc)).
  - intros; exact I.
  - intros e H. exact H.
  - intros l H. exact H.
Qed.

(* est.set_params( **est.get_params() ) leaves every parameter, at every depth, as it was *)
Theorem set_get_id : forall e, wf meta e = true -> set_params meta e (G e) = Ok e.
Proof. intros e Hwf. unfold set_params. apply set_get_id_fuel; [exact Hwf|lia]. Qed.

(* ------------------------------------------------------------------ get_params reads along the path *)
Lemma subs_intro h r rest v kvs : In (h :: r :: rest, v) kvs -> In (r :: rest, v) (subs h kvs).
Proof.
  intro H. unfold subs. apply in_flat_map. exists (h :: r :: rest, v). split; [exact H|].
  cbn [fst snd tl]. rewrite String.eqb_refl. now left.
Qed.

(* every binding key -> value of get_params(deep=True) is what the structural read along the key
   finds: component__param denotes the parameter `param` of the component `component`, to any depth *)
Theorem get_params_reads_path : forall (p : list string) e v,
  wf meta e = true -> In (p, v) (G e) -> get_path meta p e = Some v.
Proof.
  induction p as [|h rest IH]; intros e v Hwf Hin.
  - exfalso. exact (get_params_paths_nonempty meta _ _ _ Hin eq_refl).
  - assert (Hwh : wf_here meta e = true) by (rewrite wf_unfold, andb_true_iff in Hwf; tauto).
    destruct rest as [|r rest].
    + cbn [get_path]. pose proof (G_flat e _ Hwh Hin eq_refl) as Hok. unfold flat_ok in Hok.
      cbn [head_of fst snd] in Hok. destruct Hok as [Ha|[c [-> [Hc _]]]]; [|now rewrite Hc].
      destruct (assoc_e h (steps_of meta e)) as [c|] eqn:Ec; [|exact Ha].
      exfalso. apply (wf_here_step_not_param meta e h Hwh).
      * unfold step_names. apply assoc_e_In_names. congruence.
      * unfold param_names. apply assoc_v_In_names. congruence.
    + destruct (G_nested_component e _ Hwh Hin eq_refl) as [c Hc]. cbn [head_of fst] in Hc.
      change (get_path meta (h :: r :: rest) e)
        with (match component meta e h with Some c0 => get_path meta (r :: rest) c0 | None => None end).
      rewrite Hc. apply IH; [exact (wf_component meta _ _ _ Hwf Hc)|].
      rewrite <- (subs_G e h c Hwh Hc). now apply subs_intro.
Qed.

End WithMeta.
