(* C04: component-name validation and the fitted-flag state machine (Model.v): fresh and cloned
   objects are not fitted, apply-type methods raise NotFittedError on every history without a
   successful fit since construction / the last clone, fit returns self, sets the flag and keeps
   the parameters. *)
From Coq Require Import ZArith List Bool String Lia.
Require Import SkV.Lib.Base SkV.C04.Model SkV.C04.Proofs.
Import ListNotations.
Open Scope string_scope.
Open Scope list_scope.

(* ------------------------------------------------------------------ _check_names *)
Theorem names_validated meta e dunder :
  check_names meta e dunder = true <->
  NoDup (step_names meta e) /\
  (forall n, In n (step_names meta e) -> ~ In n (param_names e)) /\
  (forall n, In n (step_names meta e) -> dunder n = false).
Proof.
  unfold check_names, has_dunder_free. rewrite !andb_true_iff, nodupb_NoDup, !forallb_forall.
  split.
  - intros [[H1 H2] H3]. split; [exact H1|]. split.
    + intros n Hn Hp. specialize (H2 n Hn). rewrite negb_true_iff in H2. apply smem_In in Hp. congruence.
    + intros n Hn. specialize (H3 n Hn). now rewrite negb_true_iff in H3.
  - intros [H1 [H2 H3]]. repeat split; [exact H1| |].
    + intros n Hn. rewrite negb_true_iff. destruct (smem n (param_names e)) eqn:E; [|reflexivity].
      apply smem_In in E. exfalso. exact (H2 n Hn E).
    + intros n Hn. rewrite negb_true_iff. exact (H3 n Hn).
Qed.

(* each kind of bad name is rejected *)
Corollary duplicate_name_rejected meta e dunder : ~ NoDup (step_names meta e) -> check_names meta e dunder = false.
Proof. intro H. destruct (check_names meta e dunder) eqn:E; [|reflexivity]. apply names_validated in E. tauto. Qed.

Corollary shadowing_name_rejected meta e dunder n :
  In n (step_names meta e) -> In n (param_names e) -> check_names meta e dunder = false.
Proof.
  intros H1 H2. destruct (check_names meta e dunder) eqn:E; [|reflexivity].
  apply names_validated in E. destruct E as [_ [E _]]. exfalso. exact (E n H1 H2).
Qed.

Corollary dunder_name_rejected meta e dunder n :
  In n (step_names meta e) -> dunder n = true -> check_names meta e dunder = false.
Proof.
  intros H1 H2. destruct (check_names meta e dunder) eqn:E; [|reflexivity].
  apply names_validated in E. destruct E as [_ [_ E]]. rewrite (E n H1) in H2. discriminate.
Qed.

(* ------------------------------------------------------------------ fitted state *)
Definition successful_fit (ev : event) : bool := match ev with EFit true => true | _ => false end.

Lemma run_app o a b :
  run o (a ++ b) = let (o1, r1) := run o a in let (o2, r2) := run o1 b in (o2, r1 ++ r2).
Proof.
  revert o. induction a as [|ev t IH]; intro o; cbn [app run].
  - destruct (run o b). reflexivity.
  - destruct (step o ev) as [o1 r]. rewrite IH. destruct (run o1 t) as [o2 rs].
    destruct (run o2 b). reflexivity.
Qed.

Theorem fresh_not_fitted e : o_fitted (fresh e) = false.
Proof. reflexivity. Qed.

Theorem cloned_not_fitted o : o_fitted (fst (step o EClone)) = false /\ snd (step o EClone) = NewObject.
Proof. split; reflexivity. Qed.

(* no successful fit: the object stays unfitted whatever else happens (failed fits, apply-type
   calls, clones) *)
Lemma unfitted_stays o evs :
  o_fitted o = false -> forallb (fun ev => negb (successful_fit ev)) evs = true ->
  o_fitted (fst (run o evs)) = false.
Proof.
  revert o. induction evs as [|ev t IH]; intros o Ho Hall; cbn [run]; [exact Ho|].
  cbn [forallb] in Hall. apply andb_true_iff in Hall. destruct Hall as [Hev Ht].
  destruct (step o ev) as [o1 r] eqn:Es. destruct (run o1 t) as [o2 rs] eqn:Er. cbn [fst].
  assert (Ho1 : o_fitted o1 = false).
  { destruct ev as [[|]|m|]; cbn in Es; injection Es as <- _; try exact Ho; try reflexivity.
    discriminate. }
  specialize (IH o1 Ho1 Ht). rewrite Er in IH. exact IH.
Qed.

(* every apply-type method, after any history without a successful fit, raises NotFittedError and
   leaves the object unfitted *)
Theorem apply_before_fit_raises o evs m :
  o_fitted o = false -> forallb (fun ev => negb (successful_fit ev)) evs = true ->
  let o' := fst (run o evs) in
  snd (step o' (EApply m)) = NotFitted /\ fst (step o' (EApply m)) = o'.
Proof.
  intros Ho Hall o'. pose proof (unfitted_stays o evs Ho Hall) as H. fold o' in H.
  cbn [step fst snd]. now rewrite H.
Qed.

(* the same inside a longer history: an apply-type call anywhere after a clone (or construction)
   with no successful fit in between raises NotFittedError, whatever came before the clone *)
Theorem apply_after_clone_raises o before between m after :
  forallb (fun ev => negb (successful_fit ev)) between = true ->
  nth (List.length before + 1 + List.length between)
      (snd (run o (before ++ [EClone] ++ between ++ [EApply m] ++ after))) Result = NotFitted.
Proof.
  intro Hall. rewrite run_app. destruct (run o before) as [o1 r1] eqn:E1.
  rewrite run_app. cbn [run app]. destruct (step o1 EClone) as [o2 rc] eqn:Ec.
  cbn in Ec. injection Ec as <- <-.
  rewrite run_app.
  destruct (run (Obj (clone_est (o_est o1)) false) between) as [o3 r3] eqn:E3.
  pose proof (unfitted_stays (Obj (clone_est (o_est o1)) false) between eq_refl Hall) as H3.
  rewrite E3 in H3. cbn [fst] in H3.
  cbn [run]. cbn [step]. rewrite H3. destruct (run o3 after) as [o4 r4]. cbn [snd].
  assert (Hl1 : List.length r1 = List.length before).
  { clear -E1. revert o o1 r1 E1. induction before as [|ev t IH]; intros o o1 r1 E1; cbn [run] in E1.
    - injection E1 as _ <-. reflexivity.
    - destruct (step o ev) as [oa ra]. destruct (run oa t) as [ob rb] eqn:Eb. injection E1 as _ <-.
      cbn [List.length]. f_equal. exact (IH _ _ _ Eb). }
  assert (Hl3 : List.length r3 = List.length between).
  { clear -E3. revert E3. generalize (Obj (clone_est (o_est o1)) false) as oo. revert o3 r3.
    induction between as [|ev t IH]; intros o3 r3 oo E3; cbn [run] in E3.
    - injection E3 as _ <-. reflexivity.
    - destruct (step oo ev) as [oa ra]. destruct (run oa t) as [ob rb] eqn:Eb. injection E3 as _ <-.
      cbn [List.length]. f_equal. exact (IH _ _ _ Eb). }
  rewrite app_nth2 by lia. rewrite Hl1.
  replace (List.length before + 1 + List.length between - List.length before)%nat
    with (S (List.length between)) by lia.
  cbn [app nth]. rewrite app_nth2 by lia. rewrite Hl3, Nat.sub_diag. reflexivity.
Qed.

(* fit returns self, sets the flag and keeps every parameter *)
Theorem fit_returns_self_sets_flag_keeps_params meta o deep :
  let o' := fst (step o (EFit true)) in
  snd (step o (EFit true)) = ReturnsSelf /\ o_fitted o' = true /\ o_est o' = o_est o /\
  get_params meta deep (o_est o') = get_params meta deep (o_est o).
Proof. cbn. auto. Qed.

(* a fit that raises changes nothing *)
Theorem failed_fit_changes_nothing o : step o (EFit false) = (o, FitFailed).
Proof. reflexivity. Qed.

(* after a successful fit apply-type methods return results until the next clone *)
Theorem apply_after_fit_returns o m :
  snd (step (fst (step o (EFit true))) (EApply m)) = Result.
Proof. reflexivity. Qed.

(* clone gives an estimator with the same parameters (the model is a value tree: equal = same tree) *)
Theorem clone_equal_params meta deep e :
  get_params meta deep (clone_est e) = get_params meta deep e /\ cls_of (clone_est e) = cls_of e.
Proof. now rewrite clone_est_id. Qed.

Theorem clone_after_fit_unfitted_same_params meta deep o :
  let o' := fst (step (fst (step o (EFit true))) EClone) in
  o_fitted o' = false /\ get_params meta deep (o_est o') = get_params meta deep (o_est o).
Proof. cbn. now rewrite clone_est_id. Qed.
