(* C04 static half: the shape of the class table regenerated from /repo by translator/classtable.py
   (build/coq/C04/Gen.v) and the boolean predicates deciding whether a row obeys the constructor
   contract and the guard-first contract.  Executable definitions only. *)
From Coq Require Import List String Bool.
Import ListNotations.
Open Scope string_scope.

(* how __init__ treats one of its parameters *)
Inductive store :=
  | SV                                  (* self.p = p, the only store, p never rebound *)
  | SC (validator : string)             (* self.p = f(p), the only store: f's identity (+ source hash) *)
  | SM (how : string)                   (* stored under its name but not verbatim *)
  | SF (parent : string) (q : string)   (* forwarded to parent.__init__ (a class of the table) as q *)
  | SX (q : string)                     (* forwarded to a scikit-learn parent as keyword q *)
  | SN.                                 (* neither stored under its own name nor forwarded *)

(* does an apply-type method reach the fitted-state guard before touching fitted state?
   `owner` = class of the table whose body is executed for this class (MRO) *)
Inductive guard :=
  | GG (owner : string)                 (* every completing path reaches the guard first *)
  | GA (owner : string)                 (* abstract: the body only raises *)
  | GX (owner : string)                 (* inherited from scikit-learn *)
  | GR (owner : string)                 (* some path completes without reaching the guard *)
  | GU (owner : string) (what : string). (* fitted state `what` touched before the guard *)

(* what fit (own or inherited; `owner` = class whose body runs) does on its completing paths *)
Inductive fitfact :=
  | FNone                               (* no fit in the table's code *)
  | FA (owner : string)                 (* abstract: the body only raises *)
  | FX (base : string)                  (* scikit-learn's fit *)
  | FF (owner : string)
       (returns : string)               (* "self" iff every completing path returns self *)
       (flag : string)                  (* "set" iff self._is_fitted = True was executed on every such path *)
       (early : bool).                  (* such an assignment is followed by more than `return` *)

(* does set_params (when it is written in the package: the composites) reach the validation of the
   names on every completing path? *)
Inductive spfact :=
  | PX                                  (* scikit-learn's BaseEstimator.set_params, inherited *)
  | PA (owner : string)                 (* abstract: the body only raises *)
  | PV (owner : string) (attr : string) (* every completing path validates; `attr` = constant first
                                           argument of the _set_params delegation ("" if none) *)
  | PR (owner : string) (what : string). (* some path completes before the names are validated *)

Record class_row := Row {
  r_key : string;                        (* class name (name@module when ambiguous) *)
  r_module : string;
  r_bases : list string;                 (* "~X" = external base X *)
  r_init : option (list (string * store)); (* None: no own __init__; "*" / "**" = *args / **kwargs *)
  r_methods : list (string * guard);
  (* (entry, owner, p): public method `entry` reaches code of class `owner` assigning self.p,
     p a constructor parameter of this class *)
  r_mutates : list (string * string * string);
  r_fit : fitfact;
  r_setparams : spfact }.

Definition str_eqb := String.eqb.

Fixpoint lookup_row (t : list class_row) (k : string) : option class_row :=
  match t with
  | [] => None
  | r :: t' => if str_eqb (r_key r) k then Some r else lookup_row t' k
  end.

Fixpoint assoc {A} (l : list (string * A)) (k : string) : option A :=
  match l with
  | [] => None
  | (k', v) :: l' => if str_eqb k' k then Some v else assoc l' k
  end.

Definition mem2 (l : list (string * string)) (a b : string) : bool :=
  existsb (fun x => str_eqb (fst x) a && str_eqb (snd x) b) l.

Definition smem1 (x : string) (l : list string) : bool := existsb (str_eqb x) l.

(* constructor contract for parameter p of class cls, treated as st.  `known` = committed exceptions,
   `vals` = reviewed validators that return their argument unchanged or raise.
   Forwarding is followed through the table (fuel = inheritance depth bound). *)
Fixpoint param_ok (vals : list string) (known : list (string * string)) (t : list class_row)
         (fuel : nat) (cls p : string) (st : store) : bool :=
  mem2 known cls p ||
  match st with
  | SV => true
  | SC f => smem1 f vals
  | SX q => str_eqb q p
  | SF parent q =>
      str_eqb q p &&
      match fuel with
      | O => false
      | S fuel' =>
          match lookup_row t parent with
          | Some pr =>
              match r_init pr with
              | Some ps => match assoc ps q with
                           | Some st' => param_ok vals known t fuel' parent q st'
                           | None => false
                           end
              | None => false
              end
          | None => false
          end
      end
  | SM _ => false
  | SN => false
  end.

Definition FUEL : nat := 12.

Definition stores_ok_or_known (vals : list string) (known : list (string * string))
           (t : list class_row) (r : class_row) : bool :=
  match r_init r with
  | None => true
  | Some ps => forallb (fun x => param_ok vals known t FUEL (r_key r) (fst x) (snd x)) ps
  end.

Definition stores_ok := stores_ok_or_known [] [].

(* guard contract.  A known exception is (class-or-"*", owner, method). *)
Definition gknown := list (string * string * string).

Definition gmem (known : gknown) (cls owner m : string) : bool :=
  existsb (fun x => match x with (c, o, m') =>
     (str_eqb c "*" || str_eqb c cls) && str_eqb o owner && str_eqb m' m end) known.

Definition method_ok (known : gknown) (cls m : string) (g : guard) : bool :=
  match g with
  | GG _ | GA _ | GX _ => true
  | GR o => gmem known cls o m
  | GU o _ => gmem known cls o m
  end.

Definition guarded_ok_or_known (known : gknown) (r : class_row) : bool :=
  forallb (fun x => method_ok known (r_key r) (fst x) (snd x)) (r_methods r).

Definition guarded_ok := guarded_ok_or_known [].

(* fit / apply-type methods never assign to a constructor parameter; exception = (owner, param) *)
Definition params_stable_ok_or_known (known : list (string * string)) (r : class_row) : bool :=
  forallb (fun x => match x with (_, o, q) => mem2 known o q end) (r_mutates r).

Definition params_stable_ok := params_stable_ok_or_known [].

(* fit returns self and sets the fitted flag last; exception = (owner, returns, flag) *)
Definition mem3 (l : list (string * string * string)) (a b c : string) : bool :=
  existsb (fun x => match x with (p, q, r) => str_eqb p a && str_eqb q b && str_eqb r c end) l.

Definition fit_ok_or_known (known : list (string * string * string)) (r : class_row) : bool :=
  match r_fit r with
  | FNone | FA _ | FX _ => true
  | FF o ret flag early =>
      (str_eqb ret "self" && str_eqb flag "set" && negb early) ||
      (mem3 known o ret flag && negb early)
  end.

Definition fit_ok := fit_ok_or_known [].

(* set_params validates the names on every completing path (no exception list: none is known) *)
Definition setparams_ok (r : class_row) : bool :=
  match r_setparams r with
  | PX | PA _ | PV _ _ => true
  | PR _ _ => false
  end.

(* the key under which a composite's set_params hands the whole component list to _set_params is the
   one the model uses for that class (`meta`, e.g. Cases.sk_meta): classes the model treats as
   composites delegate with exactly that key (or inherit scikit-learn's set_params: `sklearn_composites`),
   and a concrete class that delegates with a key is a composite of the model with that key *)
Definition is_private_or_base (n : string) : bool :=
  String.prefix "_" n || String.prefix "Base" n.

Definition meta_tie_ok (meta : string -> option (string * string)) (sklearn_composites : list string)
           (r : class_row) : bool :=
  match r_setparams r, meta (r_key r) with
  | PV _ attr, Some (akey, _) => str_eqb attr akey
  | PV _ attr, None => str_eqb attr "" || is_private_or_base (r_key r)
  | PX, Some _ => existsb (str_eqb (r_key r)) sklearn_composites
  | PX, None => true
  | PA _, Some _ => false
  | PA _, None => true
  | PR _ _, _ => false
  end.
