(* C05 bridge: the integer expressions regenerated from the source on this run (C05/Gen.v, written
   by translator/reduce_c05.py by symbolic execution: canonical linear forms over the base symbols
   wl, fm, n, k, h, i, q, c) are, for all arguments, the expressions the model is built from.
   The proofs are semantic (`unfold; lia`): any source expression with the same value proves, an
   expression with another value does not.  If an index expression of _sliding_window_transform, of
   the recursive / dirrec feedback loops or of _get_last_window changes its VALUE in the source, the
   corresponding lemma stops checking. *)
From Coq Require Import ZArith List Bool Lia ZifyBool.
Require Import SkV.C05.Model SkV.C05.Proofs SkV.C05.Hist SkV.C05.Gen.
Open Scope Z_scope.

(* _sliding_window_transform; e = effective_window_length = swt_ewl wl fm, whether or not the source
   holds it in a variable *)
Lemma bridge_reject wl fm n : gen_reject wl fm n = swt_reject wl fm n.
Proof. unfold gen_reject, swt_reject. lia. Qed.
Lemma bridge_alloc_rows wl fm n : gen_alloc_rows wl fm n = swt_alloc_rows n (swt_ewl wl fm).
Proof. unfold gen_alloc_rows, swt_alloc_rows, swt_ewl. lia. Qed.
Lemma bridge_alloc_cols wl fm : gen_alloc_cols wl fm = swt_alloc_cols (swt_ewl wl fm).
Proof. unfold gen_alloc_cols, swt_alloc_cols, swt_ewl. lia. Qed.
Lemma bridge_nk wl fm : gen_nk wl fm = swt_nk (swt_ewl wl fm).
Proof. unfold gen_nk, swt_nk, swt_ewl. lia. Qed.
Lemma bridge_i wl fm k : gen_i wl fm k = swt_i (swt_ewl wl fm) k.
Proof. unfold gen_i, swt_i, swt_ewl. lia. Qed.
Lemma bridge_j wl fm n k : gen_j wl fm n k = swt_j n (swt_ewl wl fm) k.
Proof. unfold gen_j, swt_j, swt_ewl. lia. Qed.
Lemma bridge_trunc_lo wl fm : gen_trunc_lo wl fm = swt_trunc_lo (swt_ewl wl fm).
Proof. unfold gen_trunc_lo, swt_trunc_lo, swt_ewl. lia. Qed.
(* the (absolute) stop of the truncation Zt[e:-e]: the allocated rows minus e *)
Lemma bridge_trunc_stop wl fm n :
  gen_trunc_stop wl fm n = swt_alloc_rows n (swt_ewl wl fm) - swt_trunc_hi (swt_ewl wl fm).
Proof. unfold gen_trunc_stop, swt_alloc_rows, swt_trunc_hi, swt_ewl. lia. Qed.
Lemma bridge_tgt_col wl h : gen_tgt_col wl h = swt_tgt_col wl h.
Proof. unfold gen_tgt_col, swt_tgt_col. lia. Qed.
Lemma bridge_feat_hi wl : gen_feat_hi wl = swt_feat_hi wl.
Proof. unfold gen_feat_hi, swt_feat_hi. lia. Qed.

(* the recursive and dirrec prediction loops *)
Lemma bridge_rec_lo wl i : gen_rec_lo wl i = rec_lo wl i.
Proof. unfold gen_rec_lo, rec_lo. lia. Qed.
Lemma bridge_rec_hi wl i : gen_rec_hi wl i = rec_hi wl i.
Proof. unfold gen_rec_hi, rec_hi. lia. Qed.
Lemma bridge_rec_fb wl i : gen_rec_fb wl i = rec_fb wl i.
Proof. unfold gen_rec_fb, rec_fb. lia. Qed.
(* length of the pre-allocated buffer: the model's `window ++ zeros fm` *)
Lemma bridge_rec_buf (w : list Z) fm : 0 <= fm -> zlen (w ++ zeros fm) = gen_rec_buf (zlen w) fm.
Proof. intro H. rewrite zlen_app, zlen_zeros. unfold gen_rec_buf. lia. Qed.
Lemma bridge_dr_hi wl i : gen_dr_hi wl i = dr_hi wl i.
Proof. unfold gen_dr_hi, dr_hi. lia. Qed.
Lemma bridge_dr_fb wl i : gen_dr_fb wl i = dr_fb wl i.
Proof. unfold gen_dr_fb, dr_fb. lia. Qed.
Lemma bridge_dr_fit_hi wl i : gen_dr_fit_hi wl i = dr_fit_hi wl i.
Proof. unfold gen_dr_fit_hi, dr_fit_hi. lia. Qed.
Lemma bridge_dr_buf (w : list Z) q : 0 <= q -> zlen (w ++ zeros q) = gen_dr_buf (zlen w) q.
Proof. intro H. rewrite zlen_app, zlen_zeros. unfold gen_dr_buf. lia. Qed.

(* the window `_get_last_window` selects for every reducer class (resolved through the class
   hierarchy, see translator/reduce_c05.py): the rows of the remembered series whose LABEL lies in
   [cutoff - window_length + 1, cutoff] - the model's get_last_window *)
Lemma bridge_lw_lo wl c : gen_lw_lo wl c = c + lw_shift wl.
Proof. unfold gen_lw_lo, lw_shift. lia. Qed.
Lemma bridge_lw_hi wl c : gen_lw_hi wl c = c.
Proof. unfold gen_lw_hi. lia. Qed.
Lemma bridge_last_window_by_label wl c s :
  tloc s (gen_lw_lo wl c) (gen_lw_hi wl c) = get_last_window wl c s.
Proof. unfold get_last_window. rewrite bridge_lw_lo, bridge_lw_hi. reflexivity. Qed.
