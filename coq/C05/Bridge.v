(* C05 bridge: the integer expressions regenerated from the source on this run (C05/Gen.v, written
   by translator/reduce_c05.py) are, for all arguments, the expressions the model is built from.
   If an index expression of _sliding_window_transform, of the recursive / dirrec feedback loops or
   of _get_last_window changes in the source, the corresponding lemma stops checking. *)
From Coq Require Import ZArith Bool Lia ZifyBool.
Require Import SkV.C05.Model SkV.C05.Hist SkV.C05.Gen.
Open Scope Z_scope.

Lemma bridge_reject wl fm n : gen_reject wl fm n = swt_reject wl fm n.
Proof. unfold gen_reject, swt_reject. lia. Qed.
Lemma bridge_ewl wl fm : gen_ewl wl fm = swt_ewl wl fm.
Proof. unfold gen_ewl, swt_ewl. lia. Qed.
Lemma bridge_alloc_rows n e : gen_alloc_rows n e = swt_alloc_rows n e.
Proof. unfold gen_alloc_rows, swt_alloc_rows. lia. Qed.
Lemma bridge_alloc_cols e : gen_alloc_cols e = swt_alloc_cols e.
Proof. unfold gen_alloc_cols, swt_alloc_cols. lia. Qed.
Lemma bridge_nk e : gen_nk e = swt_nk e.
Proof. unfold gen_nk, swt_nk. lia. Qed.
Lemma bridge_i e k : gen_i e k = swt_i e k.
Proof. unfold gen_i, swt_i. lia. Qed.
Lemma bridge_j n e k : gen_j n e k = swt_j n e k.
Proof. unfold gen_j, swt_j. lia. Qed.
Lemma bridge_trunc_lo e : gen_trunc_lo e = swt_trunc_lo e.
Proof. unfold gen_trunc_lo, swt_trunc_lo. lia. Qed.
Lemma bridge_trunc_hi e : gen_trunc_hi e = swt_trunc_hi e.
Proof. unfold gen_trunc_hi, swt_trunc_hi. lia. Qed.
Lemma bridge_tgt_col wl h : gen_tgt_col wl h = swt_tgt_col wl h.
Proof. unfold gen_tgt_col, swt_tgt_col. lia. Qed.
Lemma bridge_feat_hi wl : gen_feat_hi wl = swt_feat_hi wl.
Proof. unfold gen_feat_hi, swt_feat_hi. lia. Qed.
Lemma bridge_rec_lo wl i : gen_rec_lo wl i = rec_lo wl i.
Proof. unfold gen_rec_lo, rec_lo. lia. Qed.
Lemma bridge_rec_hi wl i : gen_rec_hi wl i = rec_hi wl i.
Proof. unfold gen_rec_hi, rec_hi. lia. Qed.
Lemma bridge_rec_fb wl i : gen_rec_fb wl i = rec_fb wl i.
Proof. unfold gen_rec_fb, rec_fb. lia. Qed.
Lemma bridge_dr_hi wl i : gen_dr_hi wl i = dr_hi wl i.
Proof. unfold gen_dr_hi, dr_hi. lia. Qed.
Lemma bridge_dr_fb wl i : gen_dr_fb wl i = dr_fb wl i.
Proof. unfold gen_dr_fb, dr_fb. lia. Qed.
Lemma bridge_dr_fit_hi wl i : gen_dr_fit_hi wl i = dr_fit_hi wl i.
Proof. unfold gen_dr_fit_hi, dr_fit_hi. lia. Qed.
Lemma bridge_lw_shift wl : gen_lw_shift wl = lw_shift wl.
Proof. unfold gen_lw_shift, lw_shift. lia. Qed.

(* the window `_get_last_window` selects for every reducer class (inherited from
   _BaseWindowForecaster, see translator/reduce_c05.py): the rows of the remembered series whose
   LABEL lies in [cutoff - window_length + 1, cutoff] - the model's get_last_window *)
Lemma bridge_lw_lo wl c : gen_lw_lo wl c = c + lw_shift wl.
Proof. unfold gen_lw_lo, lw_shift. lia. Qed.
Lemma bridge_lw_hi wl c : gen_lw_hi wl c = c.
Proof. unfold gen_lw_hi. lia. Qed.
Lemma bridge_last_window_by_label wl c s :
  tloc s (gen_lw_lo wl c) (gen_lw_hi wl c) = get_last_window wl c s.
Proof. unfold get_last_window. rewrite bridge_lw_lo, bridge_lw_hi. reflexivity. Qed.
