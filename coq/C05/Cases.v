(* C05 correspondence: every case carries the inputs and what the REAL code did with the recording
   test-double regressors of props/c05.py (all arrays handed to fit/predict, the returned
   forecast and its index).  The model is run with the same doubles, written here in Gallina;
   `mism` lists the indices on which it disagrees. *)
From Coq Require Import ZArith List Bool.
Require Import SkV.Lib.Base SkV.Lib.ZRange SkV.C05.Model SkV.C05.Hist.
Require SkV.C10.Model.
Import ListNotations.
Open Scope Z_scope.

Fixpoint list_eqb {A} (eqb : A -> A -> bool) (a b : list A) : bool :=
  match a, b with
  | [], [] => true
  | x :: a', y :: b' => eqb x y && list_eqb eqb a' b'
  | _, _ => false
  end.
Definition zl_eqb := list_eqb Z.eqb.
Definition zll_eqb := list_eqb zl_eqb.
Definition zlll_eqb := list_eqb zll_eqb.

Definition xrow_eqb (a b : xrow) : bool :=
  match a, b with
  | RTab x, RTab y => zl_eqb x y
  | RPan x, RPan y => zll_eqb x y
  | _, _ => false
  end.
Definition fitcall_eqb (a b : fitcall) : bool :=
  match a, b with
  | Fit1 X t, Fit1 X' t' => list_eqb xrow_eqb X X' && zl_eqb t t'
  | FitM X T, FitM X' T' => list_eqb xrow_eqb X X' && zll_eqb T T'
  | _, _ => false
  end.
Definition pcall_eqb (a b : Z * xrow) : bool := (fst a =? fst b) && xrow_eqb (snd a) (snd b).
Definition scitype_eqb (a b : scitype) : bool :=
  match a, b with Tabular, Tabular => true | TimeSeries, TimeSeries => true | _, _ => false end.

(* the test doubles of props/c05.py: positional weighted sums (weights 1, 2, 3, ...) of the input plus
   a digest of the training data plus 1/2 - the outputs are deliberately NOT whole numbers, so that an
   integer-typed buffer between the regressor and the next window shows.  All VALUES in the cases
   (observations, inputs, outputs, forecasts) are given in the unit 1/2, i.e. doubled, hence integers:
   2 * (wsum x + (wsum t + rows) + 1/2) = wsum (2x) + (wsum (2t) + 2 * rows) + 1.  The model only moves
   values around, so it is indifferent to the unit; time labels, positions, horizons are not scaled. *)
Fixpoint wsum_from (i : Z) (l : list Z) : Z :=
  match l with [] => 0 | v :: t => i * v + wsum_from (i + 1) t end.
Definition wsum (l : list Z) : Z := wsum_from 1 l.
Definition flat (x : xrow) : list Z := match x with RTab l => l | RPan p => concat p end.
Definition dM : Type := (Z * Z)%type.      (* digest of the training target, number of targets *)
Definition d_fit1 (X : list xrow) (t : list Z) : dM := (wsum t + 2 * zlen X, 1).
Definition d_fitm (X : list xrow) (T : list (list Z)) : dM :=
  (wsum (concat T) + 2 * zlen X, zlen (hd [] T)).
Definition d_pred1 (m : dM) (x : xrow) : Z := wsum (flat x) + fst m + 1.
Definition d_predm (m : dM) (x : xrow) : list Z :=
  map (fun j => wsum (flat x) + fst m + 1 + 14 * (j + 1)) (zrange 0 (snd m) 1).

Definition model_run := reduce dM d_fit1 d_fitm d_pred1 d_predm.

(* histories (Hist.v) with the same doubles *)
Definition model_hist := hist dM d_fit1 d_fitm d_pred1 d_predm.
Definition tser_eqb (a b : tser) : bool :=
  list_eqb (fun p q => (fst p =? fst q) && (snd p =? snd q)) a b.
Definition hev_eqb (a b : hev) : bool :=
  match a, b with
  | EvFit f, EvFit g => fitcall_eqb f g
  | EvPred c k x, EvPred c' k' x' => (c =? c') && (k =? k') && xrow_eqb x x'
  | _, _ => false
  end.
Definition fcast_eqb (a b : fcast) : bool :=
  zl_eqb (fst a) (fst b) &&
  match snd a, snd b with
  | Some v, Some w => zl_eqb v w
  | None, None => true
  | _, _ => false
  end.
Definition hres_eqb (a b : hres) : bool :=
  match a, b with
  | RNone, RNone => true
  | RPred f, RPred g => fcast_eqb f g
  | RMoving l, RMoving m => list_eqb fcast_eqb l m
  | RErr, RErr => true
  | _, _ => false
  end.
(* a call that raised is compared by that fact only (the history stops there) *)
Definition hout_eqb (a b : hout) : bool :=
  let '(ev, r, c, m) := a in
  let '(ev', r', c', m') := b in
  match r, r' with
  | RErr, RErr => true
  | _, _ => list_eqb hev_eqb ev ev' && hres_eqb r r' && (c =? c') && tser_eqb m m'
  end.
(* Sliding/ExpandingWindowSplitter(fh, window_length / initial_window, step_length, start_with_window) *)
Definition mk_cv (sliding : bool) (fh : list Z) (wl step : Z) (sww : bool) : SkV.C10.Model.cvc :=
  {| SkV.C10.Model.cv_kind := if sliding then SkV.C01.Model.Sliding else SkV.C01.Model.Expanding;
     SkV.C10.Model.cv_fh := fh; SkV.C10.Model.cv_wl := wl; SkV.C10.Model.cv_step := step;
     SkV.C10.Model.cv_sww := sww |}.

(* implementation output of a run: None = rejected (ValueError / NotImplementedError) *)
Definition impl_run := option (list fitcall * list (Z * xrow) * list Z * list Z).

Inductive case :=
  (* make_reduction(..).fit(y, X, fh) [.update(news, update_params=False)] .predict(fh, Xfut);
     news = per variable the appended observations ([] each when there is no update) *)
  | CRun (st : strategy) (sc : scitype) (y : list Z) (xs : list (list Z)) (wl : Z) (fh : list Z)
         (xfut : list (list Z)) (news : list (list Z)) (off : Z) (o : impl_run)
  (* a call history: fit(y, X, fh) at labels t0, t0+1, .. followed by update / predict /
     update_predict_single / update_predict calls; per call the regressor events (with the
     forecaster's cutoff at the time of every predict call), the returned forecast(s), the cutoff
     and the remembered target series afterwards; None = fit refused *)
  | CHist (st : strategy) (sc : scitype) (wl t0 : Z) (y : list Z) (xs : list (list Z))
          (fh : option (list Z)) (ops : list hop) (o : option (list hout))
  (* direct call of _sliding_window_transform(y, wl, fh, X, scitype) *)
  | CSwt (sc : scitype) (y : list Z) (xs : list (list Z)) (wl : Z) (fh : list Z)
         (o : option (list (list Z) * list xrow))
  (* _infer_scitype on an estimator that is / is not a BaseRegressor / RegressorMixin *)
  | CInfer (is_base is_mixin : bool) (o : option scitype).

Definition agree_run (m : res run) (ix : list Z) (o : impl_run) : bool :=
  match m, o with
  | Err, None => true
  | Ok r, Some (f, p, fc, ix') =>
      list_eqb fitcall_eqb (fits r) f && list_eqb pcall_eqb (pcalls r) p &&
      zl_eqb (forecast r) fc && zl_eqb ix ix'
  | _, _ => false
  end.

Definition swt_view (sc : scitype) (y : list Z) (xs : list (list Z)) (wl : Z) (fh : list Z)
  : res (list (list Z) * list xrow) :=
  match swt (y :: xs) wl (fh_indexer fh) with
  | Err => Err
  | Ok (yt, Xt) => Ok (yt, map (enc sc) Xt)
  end.

Definition check (c : case) : bool :=
  match c with
  | CRun st sc y xs wl fh xfut news off o =>
      agree_run (model_run st sc y xs wl fh xfut news)
                (forecast_index off (zlen y + zlen (hd [] news)) fh) o
  | CHist st sc wl t0 y xs fh ops o =>
      match model_hist st sc wl t0 y xs fh ops, o with
      | Err, None => true
      | Ok l, Some l' => list_eqb hout_eqb l l'
      | _, _ => false
      end
  | CSwt sc y xs wl fh o =>
      match swt_view sc y xs wl fh, o with
      | Err, None => true
      | Ok (yt, X), Some (yt', X') => zll_eqb yt yt' && list_eqb xrow_eqb X X'
      | _, _ => false
      end
  | CInfer b1 b2 o =>
      match infer_scitype b1 b2, o with
      | Err, None => true
      | Ok s, Some s' => scitype_eqb s s'
      | _, _ => false
      end
  end.

Fixpoint mism (cs : list (Z * case)) : list Z :=
  match cs with
  | [] => []
  | (i, c) :: t => if check c then mism t else i :: mism t
  end.
