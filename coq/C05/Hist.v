(* C05 history model: a reduction forecaster as a STATE with an explicit cutoff.

   The remembered data (`self._y`, the columns of `self._X`) are time-indexed series: lists of
   (time label, value) with strictly increasing labels; the cutoff (`self._cutoff`) is a separate
   component of the state and may lie anywhere inside the remembered data, not only at its end:
     - update(y_new) merges y_new by label (`y_new.combine_first(self._y)`) and moves the cutoff to
       the last label of y_new, which may be older than the remembered end;
     - update_predict runs `_predict_moving_cutoff` inside `_detached_cutoff`: the cutoff moves
       over the windows of the splitter (windows from the C01 splitter model, via SkV.C10.Model) and
       is put back afterwards, while the data of the windows stay remembered;
     - update(.., update_params=True) refits on everything remembered (`fit(self._y, self._X,
       self._fh)`), after which the cutoff is the last remembered label.
   `_get_last_window` selects BY LABEL: `self._y.loc[cutoff - window_length + 1 : cutoff]`.

   Every call the wrapped regressor receives is an event: EvFit (a fit call) or EvPred c k x (a
   predict call made while the forecaster's cutoff was c, on the k-th regressor ever fitted, with
   input x).  Executable definitions only; the theorems are in HistProofs.v / Props.v. *)
From Coq Require Import ZArith List Bool Lia.
Require Import SkV.Lib.Base SkV.Lib.ZRange SkV.C05.Model.
Require SkV.C10.Model.
Import ListNotations.
Open Scope Z_scope.

(* ---------------------------------------------------------------------------------------------- *)
(* time-indexed series *)

Definition tser := list (Z * Z).                 (* (time label, value) *)
Definition ttimes (s : tser) : list Z := map fst s.
Definition tvals (s : tser) : list Z := map snd s.
Definition tlast (s : tser) : Z := zlast (ttimes s).

(* value at label t (0 when the label is absent) *)
Definition tget (s : tser) (t : Z) : Z :=
  match find (fun p => fst p =? t) s with Some p => snd p | None => 0 end.

(* insert-or-overwrite into a label-sorted series *)
Fixpoint tupsert (t v : Z) (s : tser) : tser :=
  match s with
  | [] => [(t, v)]
  | (t', v') :: r =>
      if t <? t' then (t, v) :: s
      else if t =? t' then (t, v) :: r
      else (t', v') :: tupsert t v r
  end.

(* new.combine_first(old): union of the labels, `new` wins where both have a value *)
Definition tcfirst (new old : tser) : tser :=
  fold_right (fun p acc => tupsert (fst p) (snd p) acc) old new.

(* vs observed at the consecutive labels t0, t0 + 1, ... *)
Definition tblock (t0 : Z) (vs : list Z) : tser := combine (zrange t0 (t0 + zlen vs) 1) vs.

(* series.loc[a:b] on a sorted integer index: the rows whose LABEL lies in [a, b] *)
Definition trows (s : tser) (a b : Z) : tser :=
  filter (fun p => (a <=? fst p) && (fst p <=? b)) s.
Definition tloc (s : tser) (a b : Z) : list Z := tvals (trows s a b).

(* what the series looked like up to (and including) label c *)
Definition upto (c : Z) (s : tser) : tser := filter (fun p => fst p <=? c) s.

(* _BaseWindowForecaster._get_last_window at cutoff c:
   start = _shift(cutoff, by=-window_length_ + 1); self._y.loc[start:cutoff] *)
Definition get_last_window (wl c : Z) (s : tser) : list Z := tloc s (c + lw_shift wl) c.

(* y.iloc[window] for a window of positions inside the series (the splitters yield no others) *)
Definition ttake (y : tser) (w : list Z) : tser :=
  flat_map (fun i => if 0 <=? i then match nth_error y (Z.to_nat i) with Some p => [p] | None => [] end
                     else []) w.

(* ---------------------------------------------------------------------------------------------- *)
(* the strategies split into their fit part and their predict part; the predict part takes the
   last window (per variable, y first) as an argument *)

Inductive hev :=
  | EvFit (f : fitcall)
  | EvPred (cut k : Z) (x : xrow).

(* a forecast: its index labels and its values (None: _predict_nan, no usable window) *)
Definition fcast := (list Z * option (list Z))%type.

Inductive hres :=
  | RNone                          (* update returns the forecaster *)
  | RPred (f : fcast)              (* predict / update_predict_single *)
  | RMoving (l : list fcast)       (* update_predict: one forecast per moving cutoff *)
  | RErr.                          (* ValueError / NotImplementedError *)

Inductive hop :=
  | HUpdate (y : tser) (xs : option (list tser)) (up : bool)
  | HPredict (fh : option (list Z)) (xfut : list (list Z))
  | HUps (y : tser) (fh : option (list Z)) (up : bool)                       (* update_predict_single *)
  | HUpdPred (y : tser) (cv : option SkV.C10.Model.cvc) (up : bool).        (* update_predict *)

Fixpoint zlist_eqb (a b : list Z) : bool :=
  match a, b with
  | [], [] => true
  | x :: a', y :: b' => (x =? y) && zlist_eqb a' b'
  | _, _ => false
  end.

Section Hist.
  Variable M : Type.
  Variable fit1 : list xrow -> list Z -> M.
  Variable fitm : list xrow -> list (list Z) -> M.
  Variable pred1 : M -> xrow -> Z.
  Variable predm : M -> xrow -> list Z.

  (* the fit calls and the fitted regressors, in order *)
  Definition fit_part (st : strategy) (sc : scitype) (zs : list (list Z)) (wl : Z) (fh : list Z)
    : res (list fitcall * list M) :=
    match st with
    | Direct =>
        match swt zs wl (fh_indexer fh) with
        | Err => Err
        | Ok (yt, Xt) =>
            let X := map (enc sc) Xt in
            let idx := zrange 0 (zlen fh) 1 in
            Ok (map (fun i => Fit1 X (col i yt)) idx, map (fun i => fit1 X (col i yt)) idx)
        end
    | Multioutput =>
        match swt zs wl (fh_indexer fh) with
        | Err => Err
        | Ok (yt, Xt) => let X := map (enc sc) Xt in Ok ([FitM X yt], [fitm X yt])
        end
    | Recursive =>
        match swt zs wl (fh_indexer [1]) with
        | Err => Err
        | Ok (yt, Xt) =>
            let X := map (enc sc) Xt in let t := concat yt in Ok ([Fit1 X t], [fit1 X t])
        end
    | DirRec =>
        match zs with
        | [y] =>
            match swt [y] wl (fh_indexer fh) with
            | Err => Err
            | Ok (yt, Xt) =>
                let full := map (fun p => hd [] (fst p) ++ snd p) (combine Xt yt) in
                let idx := zrange 0 (zlen fh) 1 in
                let Xfit := fun i => map (fun row => enc sc [zslice row 0 (dr_fit_hi wl i)]) full in
                Ok (map (fun i => Fit1 (Xfit i) (col i yt)) idx,
                    map (fun i => fit1 (Xfit i) (col i yt)) idx)
            end
        | _ => Err
        end
    end.

  (* the predict calls as (position of the regressor among the fitted ones, input) and the returned
     values, given the last window `win` (one list per variable, y first) *)
  Definition predict_part (st : strategy) (sc : scitype) (wl : Z) (fh : list Z) (ms : list M)
             (win : panel) (xfut : list (list Z)) : list (Z * xrow) * list Z :=
    match st with
    | Direct =>
        let xp := enc sc win in
        (map (fun i => (i, xp)) (zrange 0 (zlen fh) 1), map (fun m => pred1 m xp) ms)
    | Multioutput =>
        let xp := enc sc win in
        match ms with
        | m :: _ => ([(0, xp)], predm m xp)
        | [] => ([], [])
        end
    | Recursive =>
        match ms with
        | m :: _ =>
            let fm := zlast fh in
            let yb := hd [] win ++ zeros fm in
            let xb := map (fun p => fst p ++ snd p) (combine (tl win) xfut) in
            let steps := rec_steps M pred1 m sc wl xb (zrange 0 fm 1) yb in
            let y_pred := map snd steps in
            (map (fun s => (0, fst s)) steps, map (fun h => znth y_pred h) (fh_indexer fh))
        | [] => ([], [])
        end
    | DirRec =>
        let buf := hd [] win ++ zeros (zlen fh) in
        let steps := dirrec_steps M pred1 sc wl ms 0 buf in
        (combine (zrange 0 (zlen fh) 1) (map fst steps), map snd steps)
    end.

  (* ------------------------------------------------------------------------------------------ *)
  (* the forecaster's state *)

  Record hstate := mkH {
    h_mem : list tser;           (* self._y :: the columns of self._X *)
    h_cut : Z;                   (* self._cutoff *)
    h_fh : option (list Z);      (* self._fh *)
    h_ms : list M;               (* the fitted regressor(s) *)
    h_base : Z;                  (* how many regressors had been fitted before those *)
    h_nfit : Z }.                (* how many have been fitted so far *)

  Definition set_cut (s : hstate) (c : Z) : hstate :=
    mkH (h_mem s) c (h_fh s) (h_ms s) (h_base s) (h_nfit s).
  Definition set_fh (s : hstate) (fh : option (list Z)) : hstate :=
    match fh with
    | Some h => mkH (h_mem s) (h_cut s) (Some h) (h_ms s) (h_base s) (h_nfit s)
    | None => s
    end.

  Section Cfg.
    Variable st : strategy.
    Variable sc : scitype.
    Variable wl : Z.

    (* the horizon the regressors are fitted for: the recursive strategy always fits one step
       ahead; the others need a horizon (ValueError otherwise) *)
    Definition fit_horizon (fh : option (list Z)) : res (list Z) :=
      match st, fh with
      | Recursive, _ => Ok [1]
      | _, Some h => Ok h
      | _, None => Err
      end.

    (* fit(y, X, fh) on a fresh forecaster: the data are observed at t0, t0 + 1, ... *)
    Definition h_fit (t0 : Z) (zs : list (list Z)) (fh : option (list Z))
      : res (hstate * list hev) :=
      match fit_horizon fh with
      | Err => Err
      | Ok h =>
          match fit_part st sc zs wl h with
          | Err => Err
          | Ok (fc, ms) =>
              Ok (mkH (map (tblock t0) zs) (t0 + zlen (hd [] zs) - 1) fh ms 0 (zlen fc),
                  map EvFit fc)
          end
      end.

    (* the refit of update(update_params=True): fit(self._y, self._X, self._fh); _set_y_X puts the
       cutoff at the last remembered label *)
    Definition h_refit (s : hstate) : res (hstate * list hev) :=
      match fit_horizon (h_fh s) with
      | Err => Err
      | Ok h =>
          match fit_part st sc (map tvals (h_mem s)) wl h with
          | Err => Err
          | Ok (fc, ms) =>
              Ok (mkH (h_mem s) (tlast (hd [] (h_mem s))) (h_fh s) ms (h_nfit s)
                      (h_nfit s + zlen fc),
                  map EvFit fc)
          end
      end.

    (* _update_y_X: only for non-empty y; the cutoff moves to the last label of the NEW data *)
    Definition mem_update (s : hstate) (y : tser) (xs : option (list tser)) : hstate :=
      match y with
      | [] => s
      | _ =>
          let my := tcfirst y (hd [] (h_mem s)) in
          let mx := match xs with
                    | None => tl (h_mem s)
                    | Some cols => map (fun p => tcfirst (fst p) (snd p)) (combine cols (tl (h_mem s)))
                    end in
          mkH (my :: mx) (tlast y) (h_fh s) (h_ms s) (h_base s) (h_nfit s)
      end.

    Definition h_update (s : hstate) (y : tser) (xs : option (list tser)) (up : bool)
      : res (hstate * list hev) :=
      let s1 := mem_update s y xs in
      if up then h_refit s1 else Ok (s1, []).

    (* the window handed to the strategy at the current cutoff, per variable *)
    Definition h_window (s : hstate) : panel := map (get_last_window wl (h_cut s)) (h_mem s).

    (* _predict(fh) for an out-of-sample relative horizon: _predict_fixed_cutoff; the forecast is
       labelled cutoff + h; without a full window (_is_predictable) it is NaN and no regressor is
       asked *)
    Definition h_forecast (s : hstate) (fh : list Z) (xfut : list (list Z)) : list hev * fcast :=
      let c := h_cut s in
      let win := h_window s in
      let ix := map (fun h => c + h) fh in
      if zlen (hd [] win) =? wl then
        let '(pc, v) := predict_part st sc wl fh (h_ms s) win xfut in
        (map (fun p => EvPred c (h_base s + fst p) (snd p)) pc, (ix, Some v))
      else ([], (ix, None)).

    (* _set_fh: the recursive strategy takes any horizon at predict time; the others insist on the
       one seen in fit *)
    Definition h_set_fh (s : hstate) (fh : option (list Z)) : res hstate :=
      match st, fh, h_fh s with
      | Recursive, _, _ => Ok (set_fh s fh)
      | _, Some h, Some h0 => if zlist_eqb h h0 then Ok s else Err
      | _, _, _ => Ok s
      end.

    Definition h_predict (s : hstate) (fh : option (list Z)) (xfut : list (list Z))
      : hstate * list hev * hres :=
      match h_set_fh s fh with
      | Err => (s, [], RErr)
      | Ok s1 =>
          match h_fh s1 with
          | None => (s1, [], RErr)
          | Some h => let '(ev, f) := h_forecast s1 h xfut in (s1, ev, RPred f)
          end
      end.

    (* update_predict_single(y_new, fh, update_params): _set_fh, update, _predict(self.fh) *)
    Definition h_ups (s : hstate) (y : tser) (fh : option (list Z)) (up : bool)
      : hstate * list hev * hres :=
      match h_set_fh s fh with
      | Err => (s, [], RErr)
      | Ok s1 =>
          match h_fh s1 with
          | None => (s1, [], RErr)
          | Some h =>
              match h_update s1 y None up with
              | Err => (mem_update s1 y None, [], RErr)
              | Ok (s2, ev1) => let '(ev2, f) := h_forecast s2 h [] in (s2, ev1 ++ ev2, RPred f)
              end
          end
      end.

    (* body of the loop of _predict_moving_cutoff: _update_predict_single(y_new, fh) =
       update(y_new, update_params) then _predict(fh) *)
    Definition mc_step (fh : list Z) (up : bool)
               (acc : hstate * list hev * list fcast * bool) (yw : tser)
      : hstate * list hev * list fcast * bool :=
      let '(s, evs, out, ok) := acc in
      if ok then
        match h_update s yw None up with
        | Err => (mem_update s yw None, evs, out, false)
        | Ok (s1, ev1) =>
            let '(ev2, f) := h_forecast s1 fh [] in (s1, evs ++ ev1 ++ ev2, out ++ [f], true)
        end
      else acc.

    (* update_predict(cv=None) of a window forecaster:
       SlidingWindowSplitter(self.fh, window_length=self.window_length_, start_with_window=False) *)
    Definition default_cv (s : hstate) : option SkV.C10.Model.cvc :=
      match h_fh s with
      | Some h => Some {| SkV.C10.Model.cv_kind := SkV.C01.Model.Sliding; SkV.C10.Model.cv_fh := h;
                          SkV.C10.Model.cv_wl := wl; SkV.C10.Model.cv_step := 1;
                          SkV.C10.Model.cv_sww := false |}
      | None => None
      end.

    Definition h_updpred (s : hstate) (y : tser) (cv : option SkV.C10.Model.cvc) (up : bool)
      : hstate * list hev * hres :=
      match (match cv with Some c => Some c | None => default_cv s end) with
      | None => (s, [], RErr)
      | Some c =>
          match SkV.C10.Model.cv_windows c (zlen y) with
          | Err => (s, [], RErr)
          | Ok ws =>
              let c0 := h_cut s in                                       (* _detached_cutoff *)
              let s0 := set_cut s (zfirst (ttimes y) - 1) in             (* time point before data *)
              let '(s1, evs, out, ok) :=
                fold_left (mc_step (SkV.C10.Model.cv_fh c) up) (map (ttake y) ws) (s0, [], [], true) in
              (set_cut s1 c0, evs, if ok then RMoving out else RErr)
          end
      end.

    Definition h_step (s : hstate) (o : hop) : hstate * list hev * hres :=
      match o with
      | HUpdate y xs up =>
          match h_update s y xs up with
          | Err => (mem_update s y xs, [], RErr)
          | Ok (s1, ev) => (s1, ev, RNone)
          end
      | HPredict fh xfut => h_predict s fh xfut
      | HUps y fh up => h_ups s y fh up
      | HUpdPred y cv up => h_updpred s y cv up
      end.

    (* observer: per call the regressor events, what the call returned, the cutoff and the remembered
       target series afterwards; a history stops at the first error *)
    Definition hout := (list hev * hres * Z * tser)%type.
    Definition out_of (s : hstate) (ev : list hev) (r : hres) : hout :=
      (ev, r, h_cut s, hd [] (h_mem s)).

    Fixpoint h_run (s : hstate) (ops : list hop) : list hout :=
      match ops with
      | [] => []
      | o :: rest =>
          let '(s1, ev, r) := h_step s o in
          out_of s1 ev r :: match r with RErr => [] | _ => h_run s1 rest end
      end.

    Definition hist (t0 : Z) (y : list Z) (xs : list (list Z)) (fh : option (list Z))
               (ops : list hop) : res (list hout) :=
      match h_fit t0 (y :: xs) fh with
      | Err => Err
      | Ok (s0, ev0) => Ok (out_of s0 ev0 RNone :: h_run s0 ops)
      end.

    (* the state after a history *)
    Definition h_after (s : hstate) (ops : list hop) : hstate :=
      fold_left (fun s o => fst (fst (h_step s o))) ops s.
  End Cfg.
End Hist.
