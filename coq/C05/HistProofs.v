(* C05 history proofs.  Part A: time-indexed series and the label-based last window.  Part B: the
   strategies' predict side from an arbitrary window, and the old list model as the special case
   "cutoff = last remembered observation".  Part C: forecasts at an arbitrary cutoff inside the
   remembered data, update_predict's detached cutoff. *)
From Coq Require Import ZArith List Bool Lia ZifyBool.
Require Import SkV.Lib.Base SkV.Lib.ZRange SkV.C05.Model SkV.C05.Proofs SkV.C05.Hist.
Require SkV.C10.Model.
Import ListNotations.
Open Scope Z_scope.

(* ---------------------------------------------------------------------------------------------- *)
(* Part A: time-indexed series *)

Lemma tget_cons t0 v0 r t : tget ((t0, v0) :: r) t = if t0 =? t then v0 else tget r t.
Proof. unfold tget. cbn [find fst]. destruct (t0 =? t); reflexivity. Qed.

Lemma trows_spec s a b p : In p (trows s a b) <-> In p s /\ a <= fst p <= b.
Proof. unfold trows. rewrite filter_In. split; intros [H1 H2]; (split; [exact H1|lia]). Qed.

Lemma trows_cons p r a b :
  trows (p :: r) a b = if (a <=? fst p) && (fst p <=? b) then p :: trows r a b else trows r a b.
Proof. reflexivity. Qed.

Lemma trows_empty : forall s a b, b < a -> trows s a b = [].
Proof.
  induction s as [|p r IH]; intros a b H; [reflexivity|].
  rewrite trows_cons. destruct ((a <=? fst p) && (fst p <=? b)) eqn:E; [lia|]. apply IH. exact H.
Qed.

Lemma sorted_lt_cons a l : (forall x, In x l -> a < x) -> sorted_lt l -> sorted_lt (a :: l).
Proof.
  intros H Hs. destruct l as [|b t]; [exact I|]. cbn. split; [apply H; left; reflexivity|exact Hs].
Qed.

(* on a label-sorted series that holds every label of [a, b], .loc[a:b] is the observations at the
   labels a, a+1, .., b in this order *)
Lemma trows_contiguous : forall s a b, sorted_lt (ttimes s) ->
  (forall t, a <= t <= b -> In t (ttimes s)) ->
  trows s a b = map (fun t => (t, tget s t)) (zrange a (b + 1) 1).
Proof.
  induction s as [|[t0 v0] r IH]; intros a b Hs Hin.
  - destruct (Z_lt_ge_dec b a) as [Hlt|Hge].
    + rewrite zrange_nil by lia. reflexivity.
    + destruct (Hin a ltac:(lia)).
  - destruct (Z_lt_ge_dec b a) as [Hlt|Hge].
    { rewrite trows_empty by exact Hlt. rewrite zrange_nil by lia. reflexivity. }
    cbn [ttimes map fst] in Hs, Hin. fold (ttimes r) in Hs, Hin.
    assert (Ht0 : t0 <= a).
    { pose proof (sorted_lt_first_min (t0 :: ttimes r) a Hs (Hin a ltac:(lia))) as H. cbn in H. exact H. }
    assert (Hgt : forall p, In p r -> t0 < fst p).
    { intros p Hp. apply (sorted_lt_head_lt (ttimes r) t0); [exact Hs|]. apply in_map. exact Hp. }
    pose proof (sorted_lt_tail _ _ Hs) as Hs'.
    rewrite trows_cons. cbn [fst].
    destruct (Z.eq_dec t0 a) as [->|Hne].
    + replace ((a <=? a) && (a <=? b)) with true by lia.
      rewrite zrange_cons by lia. cbn [map]. rewrite tget_cons. rewrite Z.eqb_refl. f_equal.
      assert (E : trows r a b = trows r (a + 1) b).
      { unfold trows. apply filter_ext_in. intros p Hp. specialize (Hgt p Hp). lia. }
      rewrite E. rewrite IH; [|exact Hs'|].
      * apply map_ext_in. intros t Ht. apply zrange1_in in Ht. rewrite tget_cons.
        destruct (a =? t) eqn:E2; [lia|reflexivity].
      * intros t Ht. destruct (Hin t ltac:(lia)) as [<-|H]; [lia|exact H].
    + replace ((a <=? t0) && (t0 <=? b)) with false by lia.
      rewrite IH; [|exact Hs'|].
      * apply map_ext_in. intros t Ht. apply zrange1_in in Ht. rewrite tget_cons.
        destruct (t0 =? t) eqn:E2; [lia|reflexivity].
      * intros t Ht. destruct (Hin t Ht) as [<-|H]; [lia|exact H].
Qed.

Lemma znth_map_zrange_from (f : Z -> Z) a b i : 0 <= i < b - a ->
  znth (map f (zrange a b 1)) i = f (a + i).
Proof.
  intro H. rewrite (zrange_from0 a b). rewrite map_map. unfold znth.
  rewrite (nth_map_zrange (fun x => f (x + a)) 0 (b - a) i H). f_equal. lia.
Qed.

(* the window fed at cutoff c is y[c - wl + 1 .. c] BY TIME LABEL: exactly wl values, position i
   holds the observation labelled c - wl + 1 + i, the newest lag is the observation AT the cutoff *)
Lemma last_window_ends_at_cutoff s c wl : sorted_lt (ttimes s) -> 1 <= wl ->
  (forall t, c - wl + 1 <= t <= c -> In t (ttimes s)) ->
  let w := get_last_window wl c s in
  w = map (tget s) (zrange (c - wl + 1) (c + 1) 1) /\
  zlen w = wl /\
  (forall i, 0 <= i < wl -> znth w i = tget s (c - wl + 1 + i)) /\
  znth w (wl - 1) = tget s c.
Proof.
  intros Hs Hwl Hin w.
  assert (E : w = map (tget s) (zrange (c - wl + 1) (c + 1) 1)).
  { unfold w, get_last_window, tloc, lw_shift.
    replace (c + (- wl + 1)) with (c - wl + 1) by lia.
    rewrite trows_contiguous by assumption. unfold tvals. rewrite map_map. reflexivity. }
  split; [exact E|]. rewrite E. split; [|split].
  - rewrite zlen_map, zlen_zrange1. lia.
  - intros i Hi. apply znth_map_zrange_from. lia.
  - rewrite znth_map_zrange_from by lia. f_equal. lia.
Qed.

(* never the future: every row of the window is a remembered observation whose label lies in
   [c - wl + 1, c], and every label of the forecast lies after c *)
Lemma last_window_no_future s c wl fh : wf_fh fh ->
  get_last_window wl c s = tvals (trows s (c - wl + 1) c) /\
  (forall p, In p (trows s (c - wl + 1) c) -> In p s /\ c - wl + 1 <= fst p <= c) /\
  (forall l, In l (map (fun h => c + h) fh) -> c < l).
Proof.
  intro Hfh. split; [|split].
  - unfold get_last_window, tloc, lw_shift. do 2 f_equal. lia.
  - intros p Hp. apply trows_spec in Hp. exact Hp.
  - intros l Hl. apply in_map_iff in Hl. destruct Hl as [h [<- Hh]].
    pose proof (wf_fh_bounds fh h Hfh Hh). lia.
Qed.

Lemma upto_cons p r c : upto c (p :: r) = if fst p <=? c then p :: upto c r else upto c r.
Proof. reflexivity. Qed.

Lemma trows_upto : forall s a c, trows (upto c s) a c = trows s a c.
Proof.
  induction s as [|p r IH]; intros a c; [reflexivity|].
  rewrite upto_cons, (trows_cons p r). destruct (fst p <=? c) eqn:E.
  - rewrite trows_cons, IH, E. reflexivity.
  - rewrite IH. rewrite andb_false_r. reflexivity.
Qed.

(* the window at cutoff c depends only on what was observed up to c *)
Lemma last_window_ignores_future s1 s2 c wl : upto c s1 = upto c s2 ->
  get_last_window wl c s1 = get_last_window wl c s2.
Proof.
  intro H. unfold get_last_window, tloc. rewrite <- (trows_upto s1), <- (trows_upto s2), H. reflexivity.
Qed.

Lemma upto_tupsert_later : forall s t v c, c < t -> upto c (tupsert t v s) = upto c s.
Proof.
  induction s as [|[t' v'] r IH]; intros t v c H.
  - cbn [tupsert]. rewrite upto_cons. cbn [fst]. replace (t <=? c) with false by lia. reflexivity.
  - cbn [tupsert]. destruct (t <? t') eqn:E1.
    + rewrite upto_cons. cbn [fst]. replace (t <=? c) with false by lia. reflexivity.
    + destruct (t =? t') eqn:E2.
      * rewrite !upto_cons. cbn [fst]. replace (t <=? c) with false by lia.
        replace (t' <=? c) with false by lia. reflexivity.
      * rewrite !upto_cons. cbn [fst]. rewrite IH by exact H. reflexivity.
Qed.

(* remembering observations labelled after c does not change the data up to c *)
Lemma upto_tcfirst_later : forall new s c, (forall p, In p new -> c < fst p) ->
  upto c (tcfirst new s) = upto c s.
Proof.
  induction new as [|p new IH]; intros s c H; [reflexivity|].
  unfold tcfirst. cbn [fold_right]. fold (tcfirst new s).
  rewrite upto_tupsert_later by (apply H; left; reflexivity).
  apply IH. intros q Hq. apply H. right. exact Hq.
Qed.

(* label-sortedness is kept by every operation on the remembered data *)
Lemma tupsert_times : forall s t v x, In x (ttimes (tupsert t v s)) -> x = t \/ In x (ttimes s).
Proof.
  induction s as [|[t' v'] r IH]; intros t v x H.
  - cbn in H. destruct H as [<-|[]]. left. reflexivity.
  - cbn [tupsert] in H. destruct (t <? t') eqn:E1.
    + cbn in H. destruct H as [<-|H]; [left; reflexivity|right; exact H].
    + destruct (t =? t') eqn:E2.
      * cbn in H. destruct H as [<-|H]; [left; reflexivity|right; right; exact H].
      * cbn [ttimes map fst] in H. destruct H as [<-|H]; [right; left; reflexivity|].
        destruct (IH t v x H) as [->|H']; [left; reflexivity|right; right; exact H'].
Qed.

Lemma tupsert_sorted : forall s t v, sorted_lt (ttimes s) -> sorted_lt (ttimes (tupsert t v s)).
Proof.
  induction s as [|[t' v'] r IH]; intros t v Hs; [exact I|].
  cbn [tupsert]. cbn [ttimes map fst] in Hs. fold (ttimes r) in Hs.
  destruct (t <? t') eqn:E1.
  - cbn [ttimes map fst]. fold (ttimes r). apply sorted_lt_cons; [|exact Hs].
    intros x [<-|Hx]; [lia|]. pose proof (sorted_lt_head_lt _ _ x Hs Hx). lia.
  - destruct (t =? t') eqn:E2.
    + cbn [ttimes map fst]. fold (ttimes r). apply sorted_lt_cons; [|eapply sorted_lt_tail; eauto].
      intros x Hx. pose proof (sorted_lt_head_lt _ _ x Hs Hx). lia.
    + cbn [ttimes map fst]. apply sorted_lt_cons; [|apply IH; eapply sorted_lt_tail; eauto].
      intros x Hx. destruct (tupsert_times r t v x Hx) as [->|H']; [lia|].
      apply (sorted_lt_head_lt _ _ x Hs H').
Qed.

Lemma tcfirst_sorted : forall new s, sorted_lt (ttimes s) -> sorted_lt (ttimes (tcfirst new s)).
Proof.
  induction new as [|p new IH]; intros s Hs; [exact Hs|].
  unfold tcfirst. cbn [fold_right]. apply tupsert_sorted. apply IH. exact Hs.
Qed.

Lemma tblock_cons t0 v vs : tblock t0 (v :: vs) = (t0, v) :: tblock (t0 + 1) vs.
Proof.
  unfold tblock. assert (E : zlen (v :: vs) = zlen vs + 1) by (unfold zlen; cbn [length]; lia).
  rewrite E. pose proof (zlen_nonneg vs). rewrite zrange_cons by lia. cbn [combine].
  do 3 f_equal. lia.
Qed.

Lemma tblock_times : forall vs t0, ttimes (tblock t0 vs) = zrange t0 (t0 + zlen vs) 1.
Proof.
  induction vs as [|v vs IH]; intro t0.
  - unfold tblock, zlen. cbn [length]. rewrite zrange_nil by lia. reflexivity.
  - rewrite tblock_cons. cbn [ttimes map fst]. fold (ttimes (tblock (t0 + 1) vs)). rewrite IH.
    assert (E : zlen (v :: vs) = zlen vs + 1) by (unfold zlen; cbn [length]; lia).
    rewrite E. pose proof (zlen_nonneg vs). rewrite (zrange_cons t0) by lia. do 2 f_equal. lia.
Qed.

Lemma tblock_sorted t0 vs : sorted_lt (ttimes (tblock t0 vs)).
Proof. rewrite tblock_times. apply zrange_sorted. lia. Qed.

Lemma tget_tblock : forall vs t0 t, t0 <= t < t0 + zlen vs -> tget (tblock t0 vs) t = znth vs (t - t0).
Proof.
  induction vs as [|v vs IH]; intros t0 t H.
  - unfold zlen in H. cbn in H. lia.
  - rewrite tblock_cons, tget_cons.
    assert (E : zlen (v :: vs) = zlen vs + 1) by (unfold zlen; cbn [length]; lia).
    destruct (t0 =? t) eqn:E2.
    + replace (t - t0) with 0 by lia. reflexivity.
    + rewrite IH by lia. replace (t - t0) with ((t - (t0 + 1)) + 1) by lia.
      rewrite znth_cons_succ by lia. reflexivity.
Qed.

(* the special case of the list model (Model.v): when the cutoff is the label of the LAST remembered
   observation, the label-based window is the positional tail *)
Lemma last_window_at_end t0 vs wl : 1 <= wl <= zlen vs ->
  get_last_window wl (t0 + zlen vs - 1) (tblock t0 vs) = last_window (zlen vs) wl vs.
Proof.
  intro H. set (n := zlen vs).
  destruct (last_window_ends_at_cutoff (tblock t0 vs) (t0 + n - 1) wl (tblock_sorted t0 vs) ltac:(lia))
    as [E _].
  { intros t Ht. rewrite tblock_times. apply zrange1_in. fold n. lia. }
  rewrite E. rewrite last_window_eq.
  replace (t0 + n - 1 + 1) with (t0 + n - wl + wl) by lia.
  replace (t0 + n - 1 - wl + 1) with (t0 + n - wl) by lia.
  rewrite (zrange_from0 (t0 + n - wl)). rewrite map_map.
  replace (t0 + n - wl + wl - (t0 + n - wl)) with wl by lia.
  transitivity (zslice vs (n - wl) ((n - wl) + wl)); [|f_equal; lia].
  rewrite <- map_znth_zrange by (fold n; lia).
  apply map_ext_zrange. intros x Hx. rewrite tget_tblock by (fold n; lia). f_equal. lia.
Qed.

(* ---------------------------------------------------------------------------------------------- *)
(* Part B: the predict side of the strategies from an arbitrary window *)

Lemma hd_map_nil {A B} (f : list A -> list B) (l : list (list A)) : f [] = [] ->
  hd [] (map f l) = f (hd [] l).
Proof. intro H. destruct l; [symmetry; exact H|reflexivity]. Qed.

Lemma tl_map {A B} (f : A -> B) (l : list A) : tl (map f l) = map f (tl l).
Proof. destruct l; reflexivity. Qed.

Lemma combine_map_l {A B C} (f : A -> B) : forall (a : list A) (b : list C),
  combine (map f a) b = map (fun p => (f (fst p), snd p)) (combine a b).
Proof.
  induction a as [|x a IH]; intros b; [reflexivity|]. destruct b as [|y b]; [reflexivity|].
  cbn [map combine fst snd]. rewrite IH. reflexivity.
Qed.

Lemma last_window_nil n wl : last_window n wl [] = [].
Proof. unfold last_window, zslice. rewrite skipn_nil, firstn_nil. reflexivity. Qed.

Local Arguments h_mem {M} _.
Local Arguments h_cut {M} _.
Local Arguments h_fh {M} _.
Local Arguments h_ms {M} _.
Local Arguments h_base {M} _.
Local Arguments h_nfit {M} _.

Section HistProofs.
  Variable M : Type.
  Variable fit1 : list xrow -> list Z -> M.
  Variable fitm : list xrow -> list (list Z) -> M.
  Variable pred1 : M -> xrow -> Z.
  Variable predm : M -> xrow -> list Z.

  Notation fit_part := (fit_part M fit1 fitm).
  Notation predict_part := (predict_part M pred1 predm).

  (* the list model of Model.v (fit, update that appends, predict; cutoff = end of the list) is the
     fit part followed by the predict part on the positional tail: all data-flow theorems of
     Proofs.v about `reduce` are theorems about fit_part / predict_part *)
  Lemma reduce_is_fit_then_predict st sc y xs wl fh xfut news :
    reduce M fit1 fitm pred1 predm st sc y xs wl fh xfut news =
      let zs := y :: xs in
      let zp := extend zs news in
      let n := zlen (hd [] zp) in
      match fit_part st sc zs wl fh with
      | Err => Err
      | Ok (fc, ms) =>
          let '(pc, v) := predict_part st sc wl fh ms (map (last_window n wl) zp) xfut in
          Ok (mkRun fc pc v)
      end.
  Proof.
    cbv zeta. unfold reduce. set (zs := y :: xs). set (zp := extend zs news).
    destruct st; unfold fit_part, predict_part.
    - unfold direct_run. destruct (swt zs wl (fh_indexer fh)) as [[yt Xt]|]; reflexivity.
    - unfold recursive_run. destruct (swt zs wl (fh_indexer [1])) as [[yt Xt]|]; [|reflexivity].
      rewrite (hd_map_nil (last_window (zlen (hd [] zp)) wl)) by apply last_window_nil.
      rewrite tl_map, combine_map_l, map_map. reflexivity.
    - unfold multioutput_run. destruct (swt zs wl (fh_indexer fh)) as [[yt Xt]|]; reflexivity.
    - unfold dirrec_run. subst zs. destruct xs as [|x xs']; [|reflexivity].
      destruct (swt [y] wl (fh_indexer fh)) as [[yt Xt]|]; [|reflexivity].
      rewrite (hd_map_nil (last_window (zlen (hd [] zp)) wl)) by apply last_window_nil.
      reflexivity.
  Qed.

  (* direct / multioutput: every regressor is given the window itself *)
  Lemma direct_predict_from_window sc wl fh ms win xfut :
    predict_part Direct sc wl fh ms win xfut =
      (map (fun i => (i, enc sc win)) (zrange 0 (zlen fh) 1), map (fun m => pred1 m (enc sc win)) ms).
  Proof. reflexivity. Qed.

  Lemma multioutput_predict_from_window sc wl fh m ms win xfut :
    predict_part Multioutput sc wl fh (m :: ms) win xfut = ([(0, enc sc win)], predm m (enc sc win)).
  Proof. reflexivity. Qed.

  (* recursive: call i + 1 is given the window extended by the earlier predictions (exogenous
     columns by the rows of the X passed to predict), positions i .. i + wl - 1; the forecast for
     step h is the output of call h *)
  Lemma recursive_predict_from_window sc wl fh m ms win xfut : wf_fh fh ->
    zlen (hd [] win) = wl ->
    exists steps,
      predict_part Recursive sc wl fh (m :: ms) win xfut =
        (map (fun s => (0, fst s)) steps,
         map (fun h => snd (nth (Z.to_nat (h - 1)) steps dflt)) fh) /\
      zlen steps = zlast fh /\
      forall i, 0 <= i < zlast fh ->
        nth (Z.to_nat i) steps dflt =
          let ext := (hd [] win ++ map snd steps) ::
                     map (fun p => fst p ++ snd p) (combine (tl win) xfut) in
          let x := enc sc (map (fun s => zslice s i (wl + i)) ext) in
          (x, pred1 m x).
  Proof.
    intros Hfh Hw. pose proof (wf_fh_last fh Hfh) as Hfm.
    set (xb := map (fun p => fst p ++ snd p) (combine (tl win) xfut)).
    pose proof (rec_steps_spec M pred1 m sc wl xb (Z.to_nat (zlast fh)) 0 (hd [] win) ltac:(lia)
                  ltac:(lia)) as Hs.
    cbv zeta in Hs. rewrite Z2Nat.id in Hs by lia. rewrite Z.add_0_l in Hs.
    set (steps := rec_steps M pred1 m sc wl xb (zrange 0 (zlast fh) 1) (hd [] win ++ zeros (zlast fh)))
      in *.
    destruct Hs as [Hlen Hnth]. exists steps. split; [|split].
    - unfold predict_part. fold xb. fold steps. f_equal.
      unfold fh_indexer. rewrite map_map. apply map_ext_in. intros h Hh.
      pose proof (wf_fh_bounds fh h Hfh Hh) as Hb. unfold znth.
      rewrite (nth_indep _ 0 (snd dflt)) by (rewrite map_length; lia).
      apply map_nth.
    - unfold zlen. lia.
    - intros i Hi. rewrite Hnth by lia. cbv zeta. rewrite Z2Nat.id by lia.
      replace (0 + i) with i by lia. replace (wl + 0 + i) with (wl + i) by lia. reflexivity.
  Qed.

  (* dirrec: regressor i is given the window followed by the outputs of regressors 0 .. i-1 *)
  Lemma dirrec_predict_from_window sc wl fh ms win xfut : zlen ms = zlen fh ->
    zlen (hd [] win) = wl ->
    exists steps,
      predict_part DirRec sc wl fh ms win xfut =
        (combine (zrange 0 (zlen fh) 1) (map fst steps), map snd steps) /\
      zlen steps = zlen fh /\
      forall i m0, 0 <= i < zlen fh ->
        nth (Z.to_nat i) steps dflt =
          let x := enc sc [hd [] win ++ firstn (Z.to_nat i) (map snd steps)] in
          (x, pred1 (nth (Z.to_nat i) ms m0) x).
  Proof.
    intros Hms Hw.
    pose proof (dirrec_steps_spec M pred1 sc wl ms 0 (hd [] win) ltac:(lia) ltac:(lia)) as Hs.
    cbv zeta in Hs. rewrite Hms in Hs.
    set (steps := dirrec_steps M pred1 sc wl ms 0 (hd [] win ++ zeros (zlen fh))) in *.
    destruct Hs as [Hlen Hnth]. exists steps. split; [|split].
    - reflexivity.
    - unfold zlen in *. lia.
    - intros i m0 Hi. apply Hnth. unfold zlen in *. lia.
  Qed.

  (* ------------------------------------------------------------------------------------------ *)
  (* Part C: forecasts at an arbitrary cutoff inside the remembered data *)

  Notation hstate := (hstate M).
  Notation h_forecast := (h_forecast M pred1 predm).
  Notation h_window := (h_window M).
  Notation mem_update := (mem_update M).
  Notation h_update := (h_update M fit1 fitm).
  Notation mc_step := (mc_step M fit1 fitm pred1 predm).
  Notation h_updpred := (h_updpred M fit1 fitm pred1 predm).
  Notation set_cut := (set_cut M).

  (* the observations with the labels c - wl + 1 .. c of every remembered variable *)
  Definition window_by_label (wl c : Z) (mem : list tser) : panel :=
    map (fun v => map (tget v) (zrange (c - wl + 1) (c + 1) 1)) mem.

  (* a state whose remembered variables are label-sorted and hold the labels c - wl + 1 .. c *)
  Definition window_remembered (wl : Z) (s : hstate) : Prop :=
    h_mem s <> [] /\
    forall v, In v (h_mem s) -> sorted_lt (ttimes v) /\
      forall t, h_cut s - wl + 1 <= t <= h_cut s -> In t (ttimes v).

  (* the forecast made at cutoff c = h_cut s, wherever c lies in the remembered data: the
     regressors are asked on the window BY LABEL ending at c, every call is made at cutoff c, the
     forecast is labelled c + fh *)
  Lemma forecast_at_cutoff st sc wl (s : hstate) fh xfut : 1 <= wl -> window_remembered wl s ->
    let c := h_cut s in
    let win := window_by_label wl c (h_mem s) in
    h_forecast st sc wl s fh xfut =
      (map (fun p => EvPred c (h_base s + fst p) (snd p))
           (fst (predict_part st sc wl fh (h_ms s) win xfut)),
       (map (fun h => c + h) fh, Some (snd (predict_part st sc wl fh (h_ms s) win xfut)))).
  Proof.
    intros Hwl [Hne Hall] c win. unfold h_forecast. fold c.
    assert (Ew : h_window wl s = win).
    { unfold h_window, win, window_by_label. fold c. apply map_ext_in. intros v Hv.
      destruct (Hall v Hv) as [Hs Hin].
      apply (last_window_ends_at_cutoff v c wl Hs Hwl Hin). }
    rewrite Ew.
    assert (El : zlen (hd [] win) = wl).
    { unfold win, window_by_label. destruct (h_mem s) as [|v0 r]; [congruence|]. cbn [map hd].
      rewrite zlen_map, zlen_zrange1. lia. }
    rewrite El, Z.eqb_refl.
    destruct (predict_part st sc wl fh (h_ms s) win xfut) as [pc v]. reflexivity.
  Qed.

  (* two states that agree on everything observed up to the cutoff *)
  Definition agree_upto (c : Z) (m1 m2 : list tser) : Prop :=
    Forall2 (fun a b => upto c a = upto c b) m1 m2.

  Lemma agree_upto_refl c m : agree_upto c m m.
  Proof. induction m; constructor; auto. Qed.

  Lemma h_window_ignores_future wl (s1 s2 : hstate) : h_cut s1 = h_cut s2 ->
    agree_upto (h_cut s1) (h_mem s1) (h_mem s2) -> h_window wl s1 = h_window wl s2.
  Proof.
    intros Hc Hag. unfold h_window. rewrite <- Hc. induction Hag as [|a b l1 l2 Hab _ IH]; [reflexivity|].
    cbn [map]. rewrite IH. f_equal. apply last_window_ignores_future. exact Hab.
  Qed.

  (* never the future, as non-interference: the regressor calls and the forecast made at cutoff c
     are the same whatever was observed after c *)
  Lemma forecast_ignores_future st sc wl (s1 s2 : hstate) fh xfut :
    h_cut s1 = h_cut s2 -> h_ms s1 = h_ms s2 -> h_base s1 = h_base s2 ->
    agree_upto (h_cut s1) (h_mem s1) (h_mem s2) ->
    h_forecast st sc wl s1 fh xfut = h_forecast st sc wl s2 fh xfut.
  Proof.
    intros Hc Hm Hb Hag. unfold h_forecast.
    rewrite (h_window_ignores_future wl s1 s2 Hc Hag), Hc, Hm, Hb. reflexivity.
  Qed.

  Lemma ttake_in y w p : In p (ttake y w) -> In p y.
  Proof.
    unfold ttake. rewrite in_flat_map. intros [i [_ Hp]].
    destruct (0 <=? i); [|destruct Hp].
    destruct (nth_error y (Z.to_nat i)) as [q|] eqn:E; [|destruct Hp].
    destruct Hp as [<-|[]]. eapply nth_error_In. exact E.
  Qed.

  Lemma fold_left_inv {A B} (f : A -> B -> A) (P : A -> Prop) : forall l a,
    P a -> (forall a x, In x l -> P a -> P (f a x)) -> P (fold_left f l a).
  Proof.
    induction l as [|x l IH]; intros a Ha Hf; [exact Ha|]. cbn [fold_left]. apply IH.
    - apply Hf; [left; reflexivity|exact Ha].
    - intros a' x' Hx. apply Hf. right. exact Hx.
  Qed.

  (* _detached_cutoff: whatever happens inside update_predict, the cutoff afterwards is the cutoff
     before *)
  Lemma update_predict_restores_cutoff st sc wl (s : hstate) y cv up :
    h_cut (fst (fst (h_updpred st sc wl s y cv up))) = h_cut s.
  Proof.
    unfold h_updpred.
    destruct (match cv with Some c => Some c | None => default_cv M wl s end) as [c|]; [|reflexivity].
    destruct (SkV.C10.Model.cv_windows c (zlen y)) as [ws|]; [|reflexivity].
    destruct (fold_left _ _ _) as [[[s1 evs] out] ok]. reflexivity.
  Qed.

  (* update without refit: the regressors stay, the new data are merged by label, the cutoff moves
     to the last label of the new data *)
  Lemma mem_update_spec (s : hstate) y xs : y <> [] ->
    h_cut (mem_update s y xs) = tlast y /\ h_ms (mem_update s y xs) = h_ms s /\
    h_base (mem_update s y xs) = h_base s /\ h_fh (mem_update s y xs) = h_fh s /\
    hd [] (h_mem (mem_update s y xs)) = tcfirst y (hd [] (h_mem s)).
  Proof. intro H. destruct y; [congruence|]. cbn. repeat split. Qed.

  (* one step of the moving cutoff (no refit): the window's observations are merged, the cutoff is
     the last label of the window, and the forecast is the ordinary forecast of that state - so
     forecast_at_cutoff and forecast_ignores_future apply at every moving cutoff *)
  Lemma moving_cutoff_step st sc wl fh (s : hstate) evs out yw :
    let s1 := mem_update s yw None in
    mc_step st sc wl fh false (s, evs, out, true) yw =
      (s1, evs ++ fst (h_forecast st sc wl s1 fh []), out ++ [snd (h_forecast st sc wl s1 fh [])], true)
    /\ fst (snd (h_forecast st sc wl s1 fh [])) = map (fun h => h_cut s1 + h) fh
    /\ (yw <> [] -> h_cut s1 = tlast yw).
  Proof.
    cbv zeta. split; [|split].
    - unfold mc_step, Hist.h_update. destruct (h_forecast st sc wl (mem_update s yw None) fh []) as [e f].
      reflexivity.
    - unfold h_forecast. destruct (zlen _ =? wl); [|reflexivity].
      destruct (predict_part _ _ _ _ _ _ _); reflexivity.
    - intro H. apply mem_update_spec. exact H.
  Qed.

  (* predict after update_predict(update_params=False) over data observed AFTER the cutoff: the
     data are remembered, the cutoff is back, and the forecast (regressor calls and values) is
     exactly the forecast that would have been made before *)
  Lemma predict_after_update_predict st sc wl (s : hstate) y cv fh xfut :
    h_mem s <> [] -> (forall p, In p y -> h_cut s < fst p) ->
    let s' := fst (fst (h_updpred st sc wl s y cv false)) in
    h_cut s' = h_cut s /\
    h_forecast st sc wl s' fh xfut = h_forecast st sc wl s fh xfut.
  Proof.
    intros Hne Hy s'. split; [apply update_predict_restores_cutoff|].
    subst s'. unfold h_updpred.
    destruct (match cv with Some c => Some c | None => default_cv M wl s end) as [c|]; [|reflexivity].
    destruct (SkV.C10.Model.cv_windows c (zlen y)) as [ws|]; [|reflexivity].
    set (c0 := h_cut s).
    set (P := fun acc : hstate * list hev * list fcast * bool =>
                let s1 := fst (fst (fst acc)) in
                h_ms s1 = h_ms s /\ h_base s1 = h_base s /\ h_mem s1 <> [] /\
                agree_upto c0 (h_mem s1) (h_mem s)).
    assert (HP : P (fold_left (mc_step st sc wl (SkV.C10.Model.cv_fh c) false) (map (ttake y) ws)
                      (set_cut s (zfirst (ttimes y) - 1), [], [], true))).
    { apply fold_left_inv.
      - unfold P. cbn. repeat split; [exact Hne|apply agree_upto_refl].
      - intros [[[s1 evs] out] ok] yw Hyw [Hm [Hb [Hn Hag]]]. unfold P in *. cbn [fst] in *.
        apply in_map_iff in Hyw. destruct Hyw as [w [<- _]].
        destruct ok; [|cbn [mc_step fst]; repeat split; assumption].
        destruct (moving_cutoff_step st sc wl (SkV.C10.Model.cv_fh c) s1 evs out (ttake y w)) as [E _].
        rewrite E. cbn [fst].
        destruct (ttake y w) as [|p0 yw'] eqn:Et; [cbn; repeat split; assumption|].
        unfold Hist.mem_update. cbn [h_ms h_base h_mem]. repeat split; try assumption; [discriminate|].
        destruct (h_mem s1) as [|v1 r1]; [congruence|].
        inversion Hag as [|? b ? l2 Hab Hrest Eq1 Eq2]; subst. cbn [hd tl]. constructor; [|exact Hrest].
        rewrite upto_tcfirst_later; [exact Hab|].
        intros p Hp. apply Hy. apply (ttake_in y w). rewrite Et. exact Hp. }
    destruct (fold_left _ _ _) as [[[s1 evs] out] ok]. unfold P in HP. cbn [fst] in *.
    destruct HP as [Hm [Hb [Hn Hag]]].
    apply forecast_ignores_future; cbn; first [assumption|reflexivity].
  Qed.
  (* ------------------------------------------------------------------------------------------ *)
  (* the remembered variables stay label-sorted through every call (whatever the order of the
     labels in the data handed in), so the label-based window is well defined in every reachable
     state *)
  Definition mem_sorted (s : hstate) : Prop := Forall (fun v => sorted_lt (ttimes v)) (h_mem s).

  Lemma hd_sorted (m : list tser) : Forall (fun v => sorted_lt (ttimes v)) m ->
    sorted_lt (ttimes (hd [] m)).
  Proof. intro H. destruct H; [exact I|assumption]. Qed.

  Lemma tl_sorted (m : list tser) : Forall (fun v => sorted_lt (ttimes v)) m ->
    Forall (fun v => sorted_lt (ttimes v)) (tl m).
  Proof. intro H. destruct H; [constructor|assumption]. Qed.

  Lemma mem_update_sorted (s : hstate) y xs : mem_sorted s -> mem_sorted (mem_update s y xs).
  Proof.
    intro H. unfold Hist.mem_update. destruct y as [|p y']; [exact H|]. unfold mem_sorted. cbn [h_mem].
    constructor; [apply tcfirst_sorted; apply hd_sorted; exact H|].
    destruct xs as [cols|]; [|apply tl_sorted; exact H].
    apply Forall_forall. intros v Hv. apply in_map_iff in Hv. destruct Hv as [[a b] [<- Hab]].
    cbn [fst snd]. apply tcfirst_sorted. apply in_combine_r in Hab.
    pose proof (tl_sorted _ H) as Ht. rewrite Forall_forall in Ht. apply Ht. exact Hab.
  Qed.

  Lemma h_refit_sorted st sc wl (s s1 : hstate) ev : mem_sorted s ->
    h_refit M fit1 fitm st sc wl s = Ok (s1, ev) -> mem_sorted s1.
  Proof.
    intros H E. unfold h_refit in E. destruct (fit_horizon st (h_fh s)) as [h|]; [|discriminate E].
    destruct (fit_part st sc (map tvals (h_mem s)) wl h) as [[fc ms]|]; [|discriminate E].
    injection E as <- _. exact H.
  Qed.

  Lemma h_update_sorted st sc wl (s s1 : hstate) y xs up ev : mem_sorted s ->
    h_update st sc wl s y xs up = Ok (s1, ev) -> mem_sorted s1.
  Proof.
    intros H E. unfold Hist.h_update in E. destruct up.
    - eapply h_refit_sorted; [|exact E]. apply mem_update_sorted. exact H.
    - injection E as <- _. apply mem_update_sorted. exact H.
  Qed.

  Lemma h_step_sorted st sc wl (s : hstate) o : mem_sorted s ->
    mem_sorted (fst (fst (h_step M fit1 fitm pred1 predm st sc wl s o))).
  Proof.
    intro H. destruct o as [y xs up|fh xfut|y fh up|y cv up]; cbn [h_step].
    - destruct (h_update st sc wl s y xs up) as [[s1 ev]|] eqn:E; cbn [fst].
      + eapply h_update_sorted; eauto.
      + apply mem_update_sorted. exact H.
    - unfold h_predict. destruct (h_set_fh M st s fh) as [s1|] eqn:E; [|exact H].
      assert (H1 : mem_sorted s1).
      { unfold h_set_fh, Hist.set_fh in E.
        destruct st, fh as [h|], (h_fh s) as [h0|]; try (injection E as <-; exact H);
          destruct (zlist_eqb h h0); try discriminate E; injection E as <-; exact H. }
      destruct (h_fh s1); [|exact H1].
      destruct (h_forecast st sc wl s1 l xfut). exact H1.
    - unfold h_ups. destruct (h_set_fh M st s fh) as [s1|] eqn:E; [|exact H].
      assert (H1 : mem_sorted s1).
      { unfold h_set_fh, Hist.set_fh in E.
        destruct st, fh as [h|], (h_fh s) as [h0|]; try (injection E as <-; exact H);
          destruct (zlist_eqb h h0); try discriminate E; injection E as <-; exact H. }
      destruct (h_fh s1); [|exact H1].
      destruct (h_update st sc wl s1 y None up) as [[s2 ev]|] eqn:E2.
      + destruct (h_forecast st sc wl s2 l []). cbn [fst]. eapply h_update_sorted; eauto.
      + cbn [fst]. apply mem_update_sorted. exact H1.
    - unfold Hist.h_updpred.
      destruct (match cv with Some c => Some c | None => default_cv M wl s end) as [c|]; [|exact H].
      destruct (SkV.C10.Model.cv_windows c (zlen y)) as [ws|]; [|exact H].
      assert (HP : mem_sorted (fst (fst (fst
                 (fold_left (mc_step st sc wl (SkV.C10.Model.cv_fh c) up) (map (ttake y) ws)
                            (set_cut s (zfirst (ttimes y) - 1), [], [], true)))))).
      { apply (fold_left_inv _ (fun acc => mem_sorted (fst (fst (fst acc))))); [exact H|].
        intros [[[s1 evs] out] ok] yw _ H1. cbn [fst] in *. unfold Hist.mc_step.
        destruct ok; [|exact H1].
        destruct (h_update st sc wl s1 yw None up) as [[s2 ev]|] eqn:E2.
        - destruct (h_forecast st sc wl s2 (SkV.C10.Model.cv_fh c) []). cbn [fst].
          eapply h_update_sorted; eauto.
        - cbn [fst]. apply mem_update_sorted. exact H1. }
      destruct (fold_left _ _ _) as [[[s1 evs] out] ok]. exact HP.
  Qed.

  Lemma h_fit_sorted st sc wl t0 zs fh (s : hstate) ev :
    h_fit M fit1 fitm st sc wl t0 zs fh = Ok (s, ev) -> mem_sorted s.
  Proof.
    unfold h_fit. intro E. destruct (fit_horizon st fh) as [h|]; [|discriminate E].
    destruct (fit_part st sc zs wl h) as [[fc ms]|]; [|discriminate E].
    injection E as <- _. unfold mem_sorted. cbn [h_mem]. apply Forall_forall. intros v Hv.
    apply in_map_iff in Hv. destruct Hv as [z [<- _]]. apply tblock_sorted.
  Qed.

  Lemma history_keeps_memory_sorted st sc wl t0 zs fh (s : hstate) ev ops :
    h_fit M fit1 fitm st sc wl t0 zs fh = Ok (s, ev) ->
    mem_sorted (h_after M fit1 fitm pred1 predm st sc wl s ops).
  Proof.
    intro E. pose proof (h_fit_sorted _ _ _ _ _ _ _ _ E) as H. clear E. revert s H.
    unfold h_after. induction ops as [|o ops IH]; intros s H; [exact H|].
    cbn [fold_left]. apply IH. apply h_step_sorted. exact H.
  Qed.
End HistProofs.

(* ---------------------------------------------------------------------------------------------- *)
(* non-vacuity: a concrete history in which the cutoff is NOT the last remembered label.  The
   regressor double answers (number of training rows) + (newest lag).  fit on labels 0..6, then
   update_predict over labels 7..10 (sliding windows of 2, step 1), then predict: the four
   observations 18..21 are remembered, the cutoff is back at 6, and predict is fed [16; 17] - the
   window ending at label 6 - not the remembered tail [20; 21]. *)
Definition ex_newest (x : xrow) : Z := match x with RTab l => zlast l | RPan p => zlast (concat p) end.
Definition ex_fit1 (X : list xrow) (t : list Z) : Z := zlen X.
Definition ex_fitm (X : list xrow) (T : list (list Z)) : Z := zlen X.
Definition ex_pred1 (m : Z) (x : xrow) : Z := m + ex_newest x.
Definition ex_predm (m : Z) (x : xrow) : list Z := [m + ex_newest x].
Definition ex_cv : SkV.C10.Model.cvc :=
  {| SkV.C10.Model.cv_kind := SkV.C01.Model.Sliding; SkV.C10.Model.cv_fh := [1];
     SkV.C10.Model.cv_wl := 2; SkV.C10.Model.cv_step := 1; SkV.C10.Model.cv_sww := true |}.
Definition ex_state : hstate Z :=
  match h_fit Z ex_fit1 ex_fitm Direct Tabular 2 0 [[11; 12; 13; 14; 15; 16; 17]] (Some [1]) with
  | Ok (s, _) =>
      fst (fst (h_updpred Z ex_fit1 ex_fitm ex_pred1 ex_predm Direct Tabular 2 s
                          (tblock 7 [18; 19; 20; 21]) (Some ex_cv) false))
  | Err => mkH Z [] 0 None [] 0 0
  end.

Lemma ex_history :
  h_cut ex_state = 6 /\ tlast (hd [] (h_mem ex_state)) = 9 /\
  window_remembered Z 2 ex_state /\ mem_sorted Z ex_state /\
  window_by_label 2 6 (h_mem ex_state) = [[16; 17]] /\
  h_forecast Z ex_pred1 ex_predm Direct Tabular 2 ex_state [1] [] =
    ([EvPred 6 0 (RTab [16; 17])], ([7], Some [22])) /\
  hist Z ex_fit1 ex_fitm ex_pred1 ex_predm Direct Tabular 2 0 [11; 12; 13; 14; 15; 16; 17] [] (Some [1])
       [HUpdPred (tblock 7 [18; 19; 20; 21]) (Some ex_cv) false; HPredict None []] =
    Ok [([EvFit (Fit1 [RTab [11; 12]; RTab [12; 13]; RTab [13; 14]; RTab [14; 15]; RTab [15; 16]]
                      [13; 14; 15; 16; 17])],
         RNone, 6, tblock 0 [11; 12; 13; 14; 15; 16; 17]);
        ([EvPred 8 0 (RTab [18; 19]); EvPred 9 0 (RTab [19; 20])],
         RMoving [([9], Some [24]); ([10], Some [25])], 6,
         tblock 0 [11; 12; 13; 14; 15; 16; 17; 18; 19; 20]);
        ([EvPred 6 0 (RTab [16; 17])], RPred ([7], Some [22]), 6,
         tblock 0 [11; 12; 13; 14; 15; 16; 17; 18; 19; 20])].
Proof.
  assert (Hs : mem_sorted Z ex_state).
  { constructor; [|constructor]. vm_compute. repeat split; reflexivity. }
  split; [vm_compute; reflexivity|]. split; [vm_compute; reflexivity|]. split; [|split; [exact Hs|]].
  - split; [vm_compute; discriminate|]. intros v Hv. split.
    + unfold mem_sorted in Hs. rewrite Forall_forall in Hs. apply Hs. exact Hv.
    + intros t Ht. assert (Hc : h_cut ex_state = 6) by (vm_compute; reflexivity). rewrite Hc in Ht.
      vm_compute in Hv. destruct Hv as [<-|[]].
      assert (E : t = 5 \/ t = 6) by lia. destruct E as [-> | ->]; vm_compute; tauto.
  - split; [vm_compute; reflexivity|]. split; vm_compute; reflexivity.
Qed.
