(* C05 model: sktime/forecasting/compose/_reduce.py (sliding-window tabularisation and the four
   reduction strategies) and _BaseWindowForecaster._get_last_window, as list functions over Z.

   Observations are integers (values are just data: the code never does arithmetic on them, it only
   moves them around), time positions are 0-based.  `zs = y :: xs` is the variable-major view of
   `_concat_y_X(y, X)` (column 0 = y, then the exogenous columns in order), every variable a list of
   the same length n.  The wrapped regressor is abstract: Section variables fit1/fitm/pred1/predm,
   any deterministic functions.  Executable definitions only; theorems are in Proofs.v/Props.v. *)
From Coq Require Import ZArith List Bool Lia.
Require Import SkV.Lib.Base SkV.Lib.ZRange.
Import ListNotations.
Open Scope Z_scope.

(* ---------------------------------------------------------------------------------------------- *)
(* numpy-ish primitives on lists *)

Definition zlen {A} (l : list A) : Z := Z.of_nat (length l).
Definition znth (l : list Z) (i : Z) : Z := nth (Z.to_nat i) l 0.
(* l[lo:hi] for 0 <= lo *)
Definition zslice {A} (l : list A) (lo hi : Z) : list A :=
  firstn (Z.to_nat (hi - lo)) (skipn (Z.to_nat lo) l).
Definition zeros (k : Z) : list Z := repeat 0 (Z.to_nat k).
(* l[i] = v (in place) for 0 <= i < len l *)
Definition zupd (l : list Z) (i v : Z) : list Z :=
  firstn (Z.to_nat i) l ++ v :: skipn (S (Z.to_nat i)) l.
(* column i of a 2-d array given as a list of rows: T[:, i] *)
Definition col (i : Z) (T : list (list Z)) : list Z := map (fun t => znth t i) T.

(* ---------------------------------------------------------------------------------------------- *)
(* _sliding_window_transform: the integer expressions of the source (regenerated from the source on
   every run as C05/Gen.v and proved equal to these in Bridge.v) *)

Definition swt_reject (wl fm n : Z) : bool := wl + fm >=? n. (* window_length + fh_max >= n_timepoints *)
Definition swt_ewl (wl fm : Z) : Z := wl + fm.               (* effective_window_length *)
Definition swt_alloc_rows (n e : Z) : Z := n + e.            (* np.zeros((n + e, n_variables, e + 1)) *)
Definition swt_alloc_cols (e : Z) : Z := e + 1.
Definition swt_nk (e : Z) : Z := e + 1.                      (* for k in range(e + 1) *)
Definition swt_i (e k : Z) : Z := e - k.                     (* i = e - k *)
Definition swt_j (n e k : Z) : Z := n + e - k.               (* j = n + e - k *)
Definition swt_trunc_lo (e : Z) : Z := e.                    (* Zt[e:-e] *)
Definition swt_trunc_hi (e : Z) : Z := e.
Definition swt_tgt_col (wl h : Z) : Z := wl + h.             (* Zt[:, 0, window_length + fh] *)
Definition swt_feat_hi (wl : Z) : Z := wl.                   (* Zt[:, :, :window_length] *)

(* the feedback loops and the last window *)
Definition rec_lo (wl i : Z) : Z := i.                       (* last[:, :, i : window_length + i] *)
Definition rec_hi (wl i : Z) : Z := wl + i.
Definition rec_fb (wl i : Z) : Z := wl + i.                  (* last[:, 0, window_length + i] = y_pred[i] *)
Definition dr_hi (wl i : Z) : Z := wl + i.                   (* X_full[:, :, : window_length + i] *)
Definition dr_fb (wl i : Z) : Z := wl + i.                   (* X_full[:, :, window_length + i] = y_pred[i] *)
Definition dr_fit_hi (wl i : Z) : Z := wl + i.               (* X_full[:, :, : n_timepoints + i], n_timepoints = wl *)
Definition lw_shift (wl : Z) : Z := - wl + 1.                (* _shift(cutoff, by=-window_length_ + 1) *)

(* column k of variable zv after `Zt[i:j, :, k] = z` on the zero array: rows [0,i) and [j, n+e)
   keep their zeros *)
Definition fill_col (n e : Z) (zv : list Z) (k : Z) : list Z :=
  zeros (swt_i e k) ++ zv ++ zeros (swt_alloc_rows n e - swt_j n e k).

(* Zt[row, v, k] after the loop (columns the loop does not reach stay zero) *)
Definition zt_cell (n e : Z) (zv : list Z) (row k : Z) : Z :=
  if k <? swt_nk e then znth (fill_col n e zv k) row else 0.

(* Zt[row, :, :] : variables x (e + 1) *)
Definition zt_row (n e : Z) (zs : list (list Z)) (row : Z) : list (list Z) :=
  map (fun zv => map (zt_cell n e zv row) (zrange 0 (swt_alloc_cols e) 1)) zs.

(* Zt[e:-e] *)
Definition zt_trunc (n e : Z) (zs : list (list Z)) : list (list (list Z)) :=
  map (zt_row n e zs) (zrange (swt_trunc_lo e) (swt_alloc_rows n e - swt_trunc_hi e) 1).

(* returns (yt, Xt) with Xt the 3-d panel rows x variables x window_length; `fhi` is the zero-based
   indexer of the relative horizon (fh - 1) *)
Definition swt (zs : list (list Z)) (wl : Z) (fhi : list Z)
  : res (list (list Z) * list (list (list Z))) :=
  let n := zlen (hd [] zs) in
  let fm := zlast fhi in
  if swt_reject wl fm n then Err else
  let e := swt_ewl wl fm in
  let Zt := zt_trunc n e zs in
  Ok (map (fun R => map (fun h => znth (hd [] R) (swt_tgt_col wl h)) fhi) Zt,
      map (fun R => map (fun v => zslice v 0 (swt_feat_hi wl)) R) Zt).

(* ForecastingHorizon(relative).to_indexer(): step h sits at position h - 1 *)
Definition fh_indexer (fh : list Z) : list Z := map (fun h => h - 1) fh.

(* ---------------------------------------------------------------------------------------------- *)
(* what a regressor is handed: a flat feature vector (tabular scitype, 2-d array row) or a
   variables x time panel instance (time-series scitype, 3-d array row) *)

Definition panel := list (list Z).
Inductive xrow := RTab (l : list Z) | RPan (p : panel).
Inductive scitype := Tabular | TimeSeries.
Inductive strategy := Direct | Recursive | Multioutput | DirRec.

(* Xt.reshape(rows, -1) on a C-ordered (rows, variables, time) array: variable-major *)
Definition enc (sc : scitype) (p : panel) : xrow :=
  match sc with Tabular => RTab (concat p) | TimeSeries => RPan p end.

Inductive fitcall :=
  | Fit1 (X : list xrow) (t : list Z)            (* estimator.fit(X, 1-d target) *)
  | FitM (X : list xrow) (T : list (list Z)).    (* estimator.fit(X, 2-d target) *)

(* fits: the fit calls in order; pcalls: the predict calls in order as (position of the fitted
   estimator in `fits`, input); forecast: the values returned by forecaster.predict *)
Record run := mkRun { fits : list fitcall; pcalls : list (Z * xrow); forecast : list Z }.

(* _get_last_window on a series with n observations: cutoff = position n - 1,
   start = cutoff - window_length + 1, .loc[start:cutoff] is inclusive *)
Definition last_window (n wl : Z) (zv : list Z) : list Z :=
  let cutoff := n - 1 in
  let start := cutoff + lw_shift wl in
  zslice zv start (cutoff + 1).

(* index of the returned forecast: fh.to_absolute(cutoff), cutoff label = off + n - 1 *)
Definition forecast_index (off n : Z) (fh : list Z) : list Z := map (fun h => off + n - 1 + h) fh.

(* _infer_scitype: BaseRegressor is tested first *)
Definition infer_scitype (is_base_regressor is_regressor_mixin : bool) : res scitype :=
  if is_base_regressor then Ok TimeSeries
  else if is_regressor_mixin then Ok Tabular else Err.

Section Strategies.
  Variable M : Type.                                  (* a fitted regressor *)
  Variable fit1 : list xrow -> list Z -> M.
  Variable fitm : list xrow -> list (list Z) -> M.
  Variable pred1 : M -> xrow -> Z.                    (* predict on one row, single target *)
  Variable predm : M -> xrow -> list Z.               (* predict on one row, one value per target *)

  (* zs: the variables seen by fit; zp: the variables at prediction time (zs itself, or zs extended by
     the observations handed to update(..., update_params=False)) *)
  Definition direct_run (sc : scitype) (zs zp : list (list Z)) (wl : Z) (fh : list Z) : res run :=
    let n := zlen (hd [] zp) in
    match swt zs wl (fh_indexer fh) with
    | Err => Err
    | Ok (yt, Xt) =>
        let X := map (enc sc) Xt in
        let idx := zrange 0 (zlen fh) 1 in
        let ms := map (fun i => fit1 X (col i yt)) idx in
        let xp := enc sc (map (last_window n wl) zp) in
        Ok (mkRun (map (fun i => Fit1 X (col i yt)) idx)
                  (map (fun i => (i, xp)) idx)
                  (map (fun m => pred1 m xp) ms))
    end.

  Definition multioutput_run (sc : scitype) (zs zp : list (list Z)) (wl : Z) (fh : list Z) : res run :=
    let n := zlen (hd [] zp) in
    match swt zs wl (fh_indexer fh) with
    | Err => Err
    | Ok (yt, Xt) =>
        let X := map (enc sc) Xt in
        let m := fitm X yt in
        let xp := enc sc (map (last_window n wl) zp) in
        Ok (mkRun [FitM X yt] [(0, xp)] (predm m xp))
    end.

  (* the prediction loop of _RecursiveReducer: `yb` is last[0, 0, :], `xb` is last[0, 1:, :] *)
  Fixpoint rec_steps (m : M) (sc : scitype) (wl : Z) (xb : list (list Z)) (steps : list Z)
           (yb : list Z) : list (xrow * Z) :=
    match steps with
    | [] => []
    | i :: rest =>
        let x := enc sc (map (fun b => zslice b (rec_lo wl i) (rec_hi wl i)) (yb :: xb)) in
        let p := pred1 m x in
        (x, p) :: rec_steps m sc wl xb rest (zupd yb (rec_fb wl i) p)
    end.

  (* xfut: the rows of the X passed to predict, per exogenous column (fh_max values each) *)
  Definition recursive_run (sc : scitype) (zs zp : list (list Z)) (wl : Z) (fh : list Z)
             (xfut : list (list Z)) : res run :=
    let n := zlen (hd [] zp) in
    match swt zs wl (fh_indexer [1]) with
    | Err => Err
    | Ok (yt, Xt) =>
        let X := map (enc sc) Xt in
        let t := concat yt in                          (* yt.ravel() *)
        let m := fit1 X t in
        let fm := zlast fh in                          (* fh.to_relative(cutoff)[-1] *)
        let yb := last_window n wl (hd [] zp) ++ zeros fm in
        let xb := map (fun p => last_window n wl (fst p) ++ snd p) (combine (tl zp) xfut) in
        let steps := rec_steps m sc wl xb (zrange 0 fm 1) yb in
        let y_pred := map snd steps in
        Ok (mkRun [Fit1 X t] (map (fun s => (0, fst s)) steps)
                  (map (fun h => znth y_pred h) (fh_indexer fh)))   (* y_pred[fh_idx] *)
    end.

  (* the prediction loop of _DirRecReducer: `buf` is X_full[0, 0, :] *)
  Fixpoint dirrec_steps (sc : scitype) (wl : Z) (ms : list M) (i : Z) (buf : list Z)
    : list (xrow * Z) :=
    match ms with
    | [] => []
    | m :: rest =>
        let x := enc sc [zslice buf 0 (dr_hi wl i)] in
        let p := pred1 m x in
        (x, p) :: dirrec_steps sc wl rest (i + 1) (zupd buf (dr_fb wl i) p)
    end.

  Definition dirrec_run (sc : scitype) (zs zp : list (list Z)) (wl : Z) (fh : list Z) : res run :=
    match zs with
    | [y] =>
        let n := zlen (hd [] zp) in
        match swt [y] wl (fh_indexer fh) with
        | Err => Err
        | Ok (yt, Xt) =>
            (* np.concatenate([Xt, yt[:, None, :]], axis=2), one variable *)
            let full := map (fun p => hd [] (fst p) ++ snd p) (combine Xt yt) in
            let idx := zrange 0 (zlen fh) 1 in
            let Xfit := fun i => map (fun row => enc sc [zslice row 0 (dr_fit_hi wl i)]) full in
            let ms := map (fun i => fit1 (Xfit i) (col i yt)) idx in
            let buf := last_window n wl (hd [] zp) ++ zeros (zlen fh) in
            let steps := dirrec_steps sc wl ms 0 buf in
            Ok (mkRun (map (fun i => Fit1 (Xfit i) (col i yt)) idx)
                      (combine idx (map fst steps))
                      (map snd steps))
        end
    | _ => Err   (* NotImplementedError: exogenous variables with dirrec *)
    end.

  (* fit(y, X, fh); optionally update(ynew, Xnew, update_params=False); predict(fh, Xfut).
     `news` holds, per variable (y first), the observations appended by update ([] when there is no
     update) *)
  Definition extend (zs news : list (list Z)) : list (list Z) :=
    map (fun p => fst p ++ snd p) (combine zs news).

  Definition reduce (st : strategy) (sc : scitype) (y : list Z) (xs : list (list Z)) (wl : Z)
             (fh : list Z) (xfut : list (list Z)) (news : list (list Z)) : res run :=
    let zs := y :: xs in
    let zp := extend zs news in
    match st with
    | Direct => direct_run sc zs zp wl fh
    | Multioutput => multioutput_run sc zs zp wl fh
    | Recursive => recursive_run sc zs zp wl fh xfut
    | DirRec => dirrec_run sc zs zp wl fh
    end.
End Strategies.
