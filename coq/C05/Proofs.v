(* C05 proofs.  Part 1: list/range toolkit.  Part 2: the sliding-window transform in closed form
   and the property's sentences about it.  Part 3: data flow of the four strategies. *)
From Coq Require Import ZArith List Bool Lia ZifyBool.
Require Import SkV.Lib.Base SkV.Lib.ZRange SkV.C05.Model.
Import ListNotations.
Open Scope Z_scope.

(* ---------------------------------------------------------------------------------------------- *)
(* Part 1: toolkit *)

Lemma zlen_nonneg {A} (l : list A) : 0 <= zlen l.
Proof. unfold zlen. lia. Qed.

Lemma zlen_app {A} (a b : list A) : zlen (a ++ b) = zlen a + zlen b.
Proof. unfold zlen. rewrite app_length. lia. Qed.

Lemma zlen_map {A B} (f : A -> B) l : zlen (map f l) = zlen l.
Proof. unfold zlen. rewrite map_length. reflexivity. Qed.

Lemma zlen_zeros k : zlen (zeros k) = Z.max 0 k.
Proof. unfold zlen, zeros. rewrite repeat_length. lia. Qed.

Lemma zlen_zrange1 a b : zlen (zrange a b 1) = Z.max 0 (b - a).
Proof. unfold zlen. apply zrange_length1. Qed.

Lemma nth_skipn' {A} (d : A) : forall a l i, nth i (skipn a l) d = nth (a + i) l d.
Proof.
  induction a as [|a IH]; intros l i; [reflexivity|].
  destruct l as [|x l]; [destruct i; reflexivity|]. cbn [skipn]. rewrite IH. reflexivity.
Qed.

Lemma nth_firstn' {A} (d : A) : forall k l i, (i < k)%nat -> nth i (firstn k l) d = nth i l d.
Proof.
  induction k as [|k IH]; intros l i H; [lia|].
  destruct l as [|x l]; [reflexivity|]. destruct i as [|i]; [reflexivity|].
  cbn [firstn nth]. apply IH. lia.
Qed.

Lemma znth_app_l a b i : 0 <= i < zlen a -> znth (a ++ b) i = znth a i.
Proof. unfold znth, zlen. intro H. apply app_nth1. lia. Qed.

Lemma znth_app_r a b i : zlen a <= i -> znth (a ++ b) i = znth b (i - zlen a).
Proof.
  unfold znth, zlen. intro H. rewrite app_nth2 by lia. f_equal. lia.
Qed.

Lemma zlen_zslice {A} (l : list A) lo hi : 0 <= lo -> lo <= hi <= zlen l -> zlen (zslice l lo hi) = hi - lo.
Proof.
  unfold zlen, zslice. intros H0 H. rewrite firstn_length, skipn_length. lia.
Qed.

Lemma znth_zslice l lo hi i : 0 <= lo -> 0 <= i < hi - lo -> znth (zslice l lo hi) i = znth l (lo + i).
Proof.
  unfold znth, zslice. intros H0 H. rewrite nth_firstn' by lia. rewrite nth_skipn'. f_equal. lia.
Qed.

(* element r of a map over range(m) *)
Lemma nth_map_zrange {B} (f : Z -> B) (d : B) m r : 0 <= r < m ->
  nth (Z.to_nat r) (map f (zrange 0 m 1)) d = f r.
Proof.
  intro H. rewrite (nth_indep _ d (f 0)) by (rewrite map_length; pose proof (zrange_length1 0 m); lia).
  rewrite map_nth. f_equal. rewrite zrange_nth1 by lia. lia.
Qed.

Lemma map_ext_zrange {B} (f g : Z -> B) a b : (forall x, a <= x < b -> f x = g x) ->
  map f (zrange a b 1) = map g (zrange a b 1).
Proof. intro H. apply map_ext_in. intros x Hx. apply H. apply zrange1_in. exact Hx. Qed.

Lemma zrange_from0 a b : zrange a b 1 = map (fun x => x + a) (zrange 0 (b - a) 1).
Proof. rewrite zrange_shift. f_equal; lia. Qed.

(* [l[a + k] for k in range(w)] = l[a : a + w] *)
Lemma map_znth_zrange l a w : 0 <= a -> 0 <= w -> a + w <= zlen l ->
  map (fun k => znth l (a + k)) (zrange 0 w 1) = zslice l a (a + w).
Proof.
  intros Ha Hw Hl. apply (nth_ext _ _ 0 0).
  - pose proof (zlen_zslice l a (a + w) Ha ltac:(lia)) as H1.
    pose proof (zlen_zrange1 0 w) as H2. unfold zlen in *. rewrite map_length. lia.
  - intros i Hi. rewrite map_length in Hi. pose proof (zrange_length1 0 w) as H2.
    replace i with (Z.to_nat (Z.of_nat i)) by lia.
    rewrite nth_map_zrange by lia.
    change (znth l (a + Z.of_nat i) = znth (zslice l a (a + w)) (Z.of_nat i)).
    rewrite znth_zslice by lia. reflexivity.
Qed.

(* the first w entries of a map over range(m) *)
Lemma firstn_map_zrange {B} (f : Z -> B) w m : 0 <= w <= m ->
  firstn (Z.to_nat w) (map f (zrange 0 m 1)) = map f (zrange 0 w 1).
Proof.
  intro H. rewrite firstn_map. f_equal.
  rewrite <- (zrange_app1 w m ltac:(lia) 0 ltac:(lia)).
  rewrite firstn_app. pose proof (zrange_length1 0 w) as HL.
  replace (Z.to_nat w - length (zrange 0 w 1))%nat with O by lia.
  rewrite firstn_O, app_nil_r. apply firstn_all2. lia.
Qed.

Lemma zslice_0_map_zrange {B} (f : Z -> B) w m : 0 <= w <= m ->
  zslice (map f (zrange 0 m 1)) 0 w = map f (zrange 0 w 1).
Proof.
  intro H. unfold zslice. cbn [Z.to_nat skipn]. rewrite Z.sub_0_r. apply firstn_map_zrange. exact H.
Qed.

(* ---------------------------------------------------------------------------------------------- *)
(* Part 2: the sliding-window transform *)

(* after the diagonal fill, a cell of a kept row holds the observation `row - e + k` *)
Lemma zt_cell_eq n e zv row k : zlen zv = n -> 0 <= k <= e -> e <= row < n ->
  zt_cell n e zv row k = znth zv (row - e + k).
Proof.
  intros Hl Hk Hr. unfold zt_cell, swt_nk. destruct (k <? e + 1) eqn:E; [|lia].
  unfold fill_col, swt_i, swt_j, swt_alloc_rows.
  rewrite znth_app_r by (rewrite zlen_zeros; lia). rewrite zlen_zeros.
  rewrite znth_app_l by lia. f_equal. lia.
Qed.

(* the slice assignment `Zt[i:j, :, k] = z` is well-formed: it covers exactly n rows inside the
   allocated array *)
Lemma fill_slice_wellformed n e k : 0 <= n -> 0 <= k <= e ->
  0 <= swt_i e k /\ swt_j n e k - swt_i e k = n /\ swt_j n e k <= swt_alloc_rows n e.
Proof. unfold swt_i, swt_j, swt_alloc_rows. lia. Qed.

(* well-formed input: all variables have the length of y, window >= 1, horizon indexer non-empty,
   strictly increasing, non-negative *)
Definition wf_zs (zs : list (list Z)) : Prop :=
  zs <> [] /\ forall zv, In zv zs -> zlen zv = zlen (hd [] zs).
Definition wf_fhi (fhi : list Z) : Prop :=
  fhi <> [] /\ sorted_lt fhi /\ 0 <= zfirst fhi.

Lemma wf_fhi_bounds fhi h : wf_fhi fhi -> In h fhi -> 0 <= h <= zlast fhi.
Proof.
  intros [Hne [Hs H0]] Hin. split.
  - pose proof (sorted_lt_first_min fhi h Hs Hin). lia.
  - apply sorted_lt_last_max; assumption.
Qed.

Lemma wf_fhi_last_nonneg fhi : wf_fhi fhi -> 0 <= zlast fhi.
Proof. intro H. apply (wf_fhi_bounds fhi (zlast fhi) H). apply zlast_in. apply H. Qed.

(* number of rows *)
Definition swt_nrows (n wl : Z) (fhi : list Z) : Z := n - wl - zlast fhi.

(* closed form: row r holds, per variable, the observations r .. r+wl-1, and its targets are the
   observations of y at r + wl + h for the indexer entries h *)
Lemma swt_closed zs wl fhi : wf_zs zs -> 1 <= wl -> wf_fhi fhi ->
  let n := zlen (hd [] zs) in
  swt zs wl fhi =
    if wl + zlast fhi >=? n then Err else
    Ok (map (fun r => map (fun h => znth (hd [] zs) (r + wl + h)) fhi) (zrange 0 (swt_nrows n wl fhi) 1),
        map (fun r => map (fun zv => zslice zv r (r + wl)) zs) (zrange 0 (swt_nrows n wl fhi) 1)).
Proof.
  intros [Hne Hlen] Hwl Hfh n. unfold swt. fold n. unfold swt_reject.
  pose proof (wf_fhi_last_nonneg fhi Hfh) as Hfm.
  destruct (wl + zlast fhi >=? n) eqn:E; [reflexivity|].
  unfold swt_ewl, zt_trunc, swt_trunc_lo, swt_trunc_hi, swt_alloc_rows, swt_nrows.
  set (e := wl + zlast fhi).
  replace (n + e - e) with n by lia.
  rewrite (zrange_from0 e n). rewrite !map_map.
  replace (n - e) with (n - wl - zlast fhi) by lia.
  apply f_equal. apply f_equal2.
  - (* targets *)
    apply map_ext_zrange. intros r Hr. apply map_ext_in. intros h Hh.
    pose proof (wf_fhi_bounds fhi h Hfh Hh) as Hb.
    destruct zs as [|y rest]; [congruence|]. cbn [zt_row map hd].
    unfold swt_tgt_col, swt_alloc_cols.
    change (znth (map (zt_cell n e y (r + e)) (zrange 0 (e + 1) 1)) (wl + h)) with
      (nth (Z.to_nat (wl + h)) (map (zt_cell n e y (r + e)) (zrange 0 (e + 1) 1)) 0).
    rewrite nth_map_zrange by lia.
    rewrite zt_cell_eq; [f_equal; lia| |lia|lia].
    apply (Hlen y). left. reflexivity.
  - (* lag windows *)
    apply map_ext_zrange. intros r Hr. unfold zt_row. rewrite map_map.
    apply map_ext_in. intros zv Hin. unfold swt_feat_hi, swt_alloc_cols.
    rewrite zslice_0_map_zrange by lia.
    rewrite <- map_znth_zrange; [|lia|lia|rewrite (Hlen zv Hin); fold n; lia].
    apply map_ext_zrange. intros k Hk.
    rewrite zt_cell_eq; [f_equal; lia| |lia|lia].
    apply Hlen. exact Hin.
Qed.

(* --- the same in terms of the relative horizon fh (steps ahead, >= 1) --- *)

Definition wf_fh (fh : list Z) : Prop := fh <> [] /\ sorted_lt fh /\ 1 <= zfirst fh.

(* number of full windows: starts s with s + wl - 1 + max fh <= n - 1 *)
Definition n_windows (n wl : Z) (fh : list Z) : Z := n - wl - zlast fh + 1.

(* the lag window starting at r, all variables; its target for step h *)
Definition window_at (zs : list (list Z)) (wl r : Z) : panel := map (fun zv => zslice zv r (r + wl)) zs.
Definition target_at (y : list Z) (wl r h : Z) : Z := znth y (r + wl - 1 + h).

Lemma sorted_lt_map_pred : forall l, sorted_lt l -> sorted_lt (map (fun h => h - 1) l).
Proof.
  induction l as [|a t IH]; intro H; [exact I|].
  destruct t as [|b t']; [exact I|]. cbn [map]. cbn in H. destruct H as [Hab Hs].
  split; [lia|]. apply IH. exact Hs.
Qed.

Lemma zlast_map_pred : forall l, l <> [] -> zlast (map (fun h => h - 1) l) = zlast l - 1.
Proof.
  unfold zlast. induction l as [|a t IH]; intro H; [congruence|].
  destruct t as [|b t']; [reflexivity|].
  change (last (map (fun h => h - 1) (a :: b :: t')) 0) with (last (map (fun h => h - 1) (b :: t')) 0).
  change (last (a :: b :: t') 0) with (last (b :: t') 0). apply IH. congruence.
Qed.

Lemma wf_fh_indexer fh : wf_fh fh -> wf_fhi (fh_indexer fh).
Proof.
  intros [Hne [Hs H1]]. unfold wf_fhi, fh_indexer. split; [|split].
  - destruct fh; [congruence|]. cbn. congruence.
  - apply sorted_lt_map_pred. exact Hs.
  - destruct fh; [congruence|]. cbn in *. lia.
Qed.

Lemma wf_fh_bounds fh h : wf_fh fh -> In h fh -> 1 <= h <= zlast fh.
Proof.
  intros [Hne [Hs H1]] Hin. split.
  - pose proof (sorted_lt_first_min fh h Hs Hin). lia.
  - apply sorted_lt_last_max; assumption.
Qed.

Lemma wf_fh_last fh : wf_fh fh -> 1 <= zlast fh.
Proof. intro H. apply (wf_fh_bounds fh (zlast fh) H). apply zlast_in. apply H. Qed.

Lemma swt_fh_closed zs wl fh : wf_zs zs -> 1 <= wl -> wf_fh fh ->
  let n := zlen (hd [] zs) in
  swt zs wl (fh_indexer fh) =
    if n_windows n wl fh <=? 0 then Err else
    Ok (map (fun r => map (target_at (hd [] zs) wl r) fh) (zrange 0 (n_windows n wl fh) 1),
        map (window_at zs wl) (zrange 0 (n_windows n wl fh) 1)).
Proof.
  intros Hz Hwl Hfh n. pose proof (swt_closed zs wl (fh_indexer fh) Hz Hwl (wf_fh_indexer fh Hfh)) as H.
  cbv zeta in H. fold n in H. rewrite H. unfold swt_nrows, n_windows.
  assert (Hl : zlast (fh_indexer fh) = zlast fh - 1) by (apply zlast_map_pred; apply Hfh).
  rewrite !Hl.
  destruct (wl + (zlast fh - 1) >=? n) eqn:E1; destruct (n - wl - zlast fh + 1 <=? 0) eqn:E2; try lia;
    [reflexivity|].
  replace (n - wl - (zlast fh - 1)) with (n - wl - zlast fh + 1) by lia.
  apply f_equal. apply f_equal2; [|reflexivity].
  apply map_ext. intro r. unfold fh_indexer. rewrite map_map. apply map_ext. intro h.
  unfold target_at. f_equal. lia.
Qed.

(* sentence: "rejected exactly when no full window fits" *)
Lemma swt_rejects_iff zs wl fh : wf_zs zs -> 1 <= wl -> wf_fh fh ->
  (swt zs wl (fh_indexer fh) = Err <-> n_windows (zlen (hd [] zs)) wl fh <= 0).
Proof.
  intros Hz Hwl Hfh. rewrite (swt_fh_closed zs wl fh Hz Hwl Hfh). cbv zeta.
  destruct (n_windows (zlen (hd [] zs)) wl fh <=? 0) eqn:E; split; intro H; try lia; try reflexivity.
  discriminate H.
Qed.

Lemma swt_ok_inv zs wl fh yt Xt : wf_zs zs -> 1 <= wl -> wf_fh fh ->
  swt zs wl (fh_indexer fh) = Ok (yt, Xt) ->
  let n := zlen (hd [] zs) in
  0 < n_windows n wl fh /\
  yt = map (fun r => map (target_at (hd [] zs) wl r) fh) (zrange 0 (n_windows n wl fh) 1) /\
  Xt = map (window_at zs wl) (zrange 0 (n_windows n wl fh) 1).
Proof.
  intros Hz Hwl Hfh H n. rewrite (swt_fh_closed zs wl fh Hz Hwl Hfh) in H. cbv zeta in H. fold n in H.
  destruct (n_windows n wl fh <=? 0) eqn:E; [discriminate H|].
  injection H as <- <-. split; [lia|]. split; reflexivity.
Qed.

(* sentence: "every training row consists of window_length consecutive observations" *)
Lemma swt_rows zs wl fh yt Xt r : wf_zs zs -> 1 <= wl -> wf_fh fh ->
  swt zs wl (fh_indexer fh) = Ok (yt, Xt) ->
  0 <= r < n_windows (zlen (hd [] zs)) wl fh ->
  nth (Z.to_nat r) Xt [] = window_at zs wl r /\
  forall zv, In zv zs -> zlen (zslice zv r (r + wl)) = wl /\
                         forall c, 0 <= c < wl -> znth (zslice zv r (r + wl)) c = znth zv (r + c).
Proof.
  intros Hz Hwl Hfh H Hr. destruct (swt_ok_inv zs wl fh yt Xt Hz Hwl Hfh H) as [Hn [_ ->]].
  split; [apply nth_map_zrange; exact Hr|].
  intros zv Hin. pose proof (proj2 Hz zv Hin) as Hl. pose proof (wf_fh_last fh Hfh) as Hm.
  unfold n_windows in Hr. split.
  - rewrite zlen_zslice; lia.
  - intros c Hc. apply znth_zslice; lia.
Qed.

(* sentence: "its target is the observation exactly h steps after the end of that window" *)
Lemma swt_targets zs wl fh yt Xt r : wf_zs zs -> 1 <= wl -> wf_fh fh ->
  swt zs wl (fh_indexer fh) = Ok (yt, Xt) ->
  0 <= r < n_windows (zlen (hd [] zs)) wl fh ->
  nth (Z.to_nat r) yt [] = map (fun h => znth (hd [] zs) ((r + wl - 1) + h)) fh.
Proof.
  intros Hz Hwl Hfh H Hr. destruct (swt_ok_inv zs wl fh yt Xt Hz Hwl Hfh H) as [Hn [-> _]].
  rewrite nth_map_zrange by exact Hr. reflexivity.
Qed.

Lemma zrange_NoDup a b : NoDup (zrange a b 1).
Proof.
  apply (zrange_ind_fuel (fun s l => NoDup l) b 1); [lia| |].
  - intros. constructor.
  - intros s Hs IH. constructor; [|exact IH]. rewrite zrange1_in. lia.
Qed.

(* sentence: "all full windows of the series are used once": the rows are the windows at the
   starts 0, 1, ..., each start once, and a start is used iff its window and all its targets lie
   inside the series *)
Lemma swt_all_full_windows_once zs wl fh yt Xt : wf_zs zs -> 1 <= wl -> wf_fh fh ->
  swt zs wl (fh_indexer fh) = Ok (yt, Xt) ->
  let n := zlen (hd [] zs) in
  let starts := zrange 0 (n_windows n wl fh) 1 in
  Xt = map (window_at zs wl) starts /\
  zlen Xt = n - wl - zlast fh + 1 /\ zlen yt = n - wl - zlast fh + 1 /\
  NoDup starts /\
  forall s, In s starts <-> (0 <= s /\ (s + wl - 1) + zlast fh <= n - 1).
Proof.
  intros Hz Hwl Hfh H n starts. destruct (swt_ok_inv zs wl fh yt Xt Hz Hwl Hfh H) as [Hn [Hy Hx]].
  fold n in Hn, Hy, Hx. split; [exact Hx|]. subst yt Xt.
  rewrite !zlen_map, zlen_zrange1. unfold n_windows in *. repeat split; try lia.
  - apply zrange_NoDup.
  - apply zrange1_in in H0. lia.
  - apply zrange1_in in H0. lia.
  - intros [H1 H2]. apply zrange1_in. lia.
Qed.

(* sentence: "no row contains its own target or any later value": the cell (r, v, c) is the
   observation at position r + c, target j is the observation at r + wl - 1 + fh_j, and
   r + c < r + wl - 1 + fh_j <= n - 1.  The positions do not depend on the data. *)
Lemma swt_no_future zs wl fh yt Xt r c h : wf_zs zs -> 1 <= wl -> wf_fh fh ->
  swt zs wl (fh_indexer fh) = Ok (yt, Xt) ->
  0 <= r < n_windows (zlen (hd [] zs)) wl fh -> 0 <= c < wl -> In h fh ->
  let a := r + c in let b := (r + wl - 1) + h in
  0 <= a /\ a < b /\ b <= zlen (hd [] zs) - 1 /\
  (forall v d, (v < length zs)%nat ->
     znth (nth v (nth (Z.to_nat r) Xt []) d) c = znth (nth v zs d) a) /\
  (forall j : nat, (j < length fh)%nat -> nth j fh 0 = h ->
     nth j (nth (Z.to_nat r) yt []) 0 = znth (hd [] zs) b).
Proof.
  intros Hz Hwl Hfh H Hr Hc Hh a b.
  destruct (swt_ok_inv zs wl fh yt Xt Hz Hwl Hfh H) as [Hn [-> ->]].
  pose proof (wf_fh_bounds fh h Hfh Hh) as Hb. unfold n_windows in *.
  subst a b. repeat split; try lia.
  - intros v d Hv. rewrite nth_map_zrange by (unfold n_windows; lia). unfold window_at.
    rewrite (nth_indep _ d (zslice d r (r + wl))) by (rewrite map_length; exact Hv).
    rewrite (map_nth (fun zv => zslice zv r (r + wl))).
    apply znth_zslice; lia.
  - intros j Hj Hjh. rewrite nth_map_zrange by (unfold n_windows; lia).
    rewrite (nth_indep _ 0 (target_at (hd [] zs) wl r 0)) by (rewrite map_length; exact Hj).
    rewrite (map_nth (target_at (hd [] zs) wl r)). rewrite Hjh. reflexivity.
Qed.

(* corollary on the series whose observations are their own time positions: inside a row every
   feature is smaller than every target *)
Lemma swt_no_future_positions n wl fh yt Xt : 1 <= wl -> wf_fh fh -> 0 <= n ->
  swt [zrange 0 n 1] wl (fh_indexer fh) = Ok (yt, Xt) ->
  forall r, 0 <= r < n_windows n wl fh ->
  forall t x w, In t (nth (Z.to_nat r) yt []) -> In w (nth (Z.to_nat r) Xt []) -> In x w -> x < t.
Proof.
  intros Hwl Hfh Hn H r Hr t x w Ht Hw Hx.
  assert (Hz : wf_zs [zrange 0 n 1]).
  { split; [congruence|]. intros zv [<-|[]]. reflexivity. }
  assert (Hlen : zlen (hd [] [zrange 0 n 1]) = n) by (cbn [hd]; rewrite zlen_zrange1; lia).
  destruct (swt_ok_inv _ wl fh yt Xt Hz Hwl Hfh H) as [Hnw [Hy Hx']]. rewrite Hlen in *.
  subst yt Xt. rewrite nth_map_zrange in Ht by exact Hr. rewrite nth_map_zrange in Hw by exact Hr.
  apply in_map_iff in Ht. destruct Ht as [h [<- Hh]].
  unfold window_at in Hw. destruct Hw as [<-|[]].
  pose proof (wf_fh_bounds fh h Hfh Hh) as Hb. unfold n_windows in *.
  unfold target_at. cbn [hd]. unfold znth at 1.
  rewrite zrange_nth1 by lia.
  unfold zslice in Hx. apply (In_nth _ _ 0) in Hx. destruct Hx as [i [Hi <-]].
  rewrite firstn_length, skipn_length in Hi. pose proof (zrange_length1 0 n) as HL.
  rewrite nth_firstn' by lia. rewrite nth_skipn'. rewrite zrange_nth1 by lia. lia.
Qed.

(* ---------------------------------------------------------------------------------------------- *)
(* Part 3: the four strategies *)

Lemma znth_cons_succ a t x : 0 <= x -> znth (a :: t) (x + 1) = znth t x.
Proof. intro H. unfold znth. replace (Z.to_nat (x + 1)) with (S (Z.to_nat x)) by lia. reflexivity. Qed.

(* iterating over positions = iterating over elements *)
Lemma map_index {B} (g : Z -> B) : forall l : list Z,
  map (fun i => g (znth l i)) (zrange 0 (zlen l) 1) = map g l.
Proof.
  induction l as [|a t IH]; [reflexivity|].
  unfold zlen. cbn [length]. rewrite Nat2Z.inj_succ. rewrite zrange_cons by lia. cbn [map].
  f_equal. replace (Z.succ (Z.of_nat (length t))) with (Z.of_nat (length t) + 1) by lia.
  rewrite <- (zrange_shift 1 0 (Z.of_nat (length t))). rewrite map_map. rewrite <- IH.
  apply map_ext_zrange. intros x Hx. rewrite znth_cons_succ by lia. reflexivity.
Qed.

Lemma znth_map_in (f : Z -> Z) : forall l i, 0 <= i < zlen l -> znth (map f l) i = f (znth l i).
Proof.
  intros l i H. unfold znth. rewrite (nth_indep _ 0 (f 0)) by (rewrite map_length; unfold zlen in H; lia).
  apply map_nth.
Qed.

Lemma col_of_map {R} (T : R -> Z -> Z) (fh : list Z) (rows : list R) i : 0 <= i < zlen fh ->
  col i (map (fun r => map (T r) fh) rows) = map (fun r => T r (znth fh i)) rows.
Proof.
  intro H. unfold col. rewrite map_map. apply map_ext. intro r. apply znth_map_in. exact H.
Qed.

Lemma last_window_eq n wl zv : last_window n wl zv = zslice zv (n - wl) n.
Proof. unfold last_window, lw_shift. f_equal; lia. Qed.

Lemma zslice_app_l {A} (a b : list A) lo hi : 0 <= lo -> hi <= zlen a ->
  zslice (a ++ b) lo hi = zslice a lo hi.
Proof.
  intros H0 H. unfold zslice, zlen in *. rewrite skipn_app, firstn_app, skipn_length.
  replace (Z.to_nat (hi - lo) - (length a - Z.to_nat lo))%nat with O by lia.
  rewrite firstn_O, app_nil_r. reflexivity.
Qed.

Lemma zslice_app_skip {A} (a b : list A) lo hi : zlen a <= lo ->
  zslice (a ++ b) lo hi = zslice b (lo - zlen a) (hi - zlen a).
Proof.
  intro H. unfold zslice, zlen in *. rewrite skipn_app.
  rewrite (skipn_all2 a) by lia. cbn [app]. f_equal; [lia|f_equal; lia].
Qed.

Lemma zslice_full {A} (l : list A) lo : 0 <= lo -> zslice l lo (zlen l) = skipn (Z.to_nat lo) l.
Proof.
  intro H. unfold zslice, zlen. apply firstn_all2. rewrite skipn_length. lia.
Qed.

(* a tail slice followed by more data: (l ++ p)[lo:hi] = l[lo:] ++ p[:hi - len l] *)
Lemma zslice_app_mid {A} (a b : list A) lo hi : 0 <= lo <= zlen a -> zlen a <= hi ->
  zslice (a ++ b) lo hi = zslice a lo (zlen a) ++ zslice b 0 (hi - zlen a).
Proof.
  intros H0 H. unfold zslice, zlen in *. rewrite skipn_app, firstn_app, skipn_length.
  f_equal.
  - rewrite !firstn_all2; try reflexivity; rewrite skipn_length; lia.
  - cbn [Z.to_nat skipn]. replace (Z.to_nat lo - length a)%nat with O by lia. cbn [skipn].
    f_equal. lia.
Qed.

Lemma zupd_app_zeros (H : list Z) k p : 1 <= k ->
  zupd (H ++ zeros k) (zlen H) p = (H ++ [p]) ++ zeros (k - 1).
Proof.
  intro Hk. unfold zupd, zlen. rewrite Nat2Z.id.
  rewrite firstn_app, firstn_all, Nat.sub_diag, firstn_O, app_nil_r.
  rewrite skipn_app. rewrite (skipn_all2 H) by lia. cbn [app].
  replace (S (length H) - length H)%nat with 1%nat by lia.
  unfold zeros. replace (Z.to_nat k) with (S (Z.to_nat (k - 1))) by lia. cbn [repeat skipn].
  rewrite <- app_assoc. reflexivity.
Qed.

Section StrategyProofs.
  Variable M : Type.
  Variable fit1 : list xrow -> list Z -> M.
  Variable fitm : list xrow -> list (list Z) -> M.
  Variable pred1 : M -> xrow -> Z.
  Variable predm : M -> xrow -> list Z.

  (* what the property says the regressor must be given *)
  Definition train_X (sc : scitype) (zs : list (list Z)) (wl nw : Z) : list xrow :=
    map (fun r => enc sc (window_at zs wl r)) (zrange 0 nw 1).
  Definition train_t (y : list Z) (wl nw h : Z) : list Z :=
    map (fun r => target_at y wl r h) (zrange 0 nw 1).
  Definition train_T (y : list Z) (wl nw : Z) (fh : list Z) : list (list Z) :=
    map (fun r => map (target_at y wl r) fh) (zrange 0 nw 1).
  (* the last wl observations of every variable *)
  Definition last_obs (zs : list (list Z)) (wl : Z) : panel :=
    let n := zlen (hd [] zs) in map (fun zv => zslice zv (n - wl) n) zs.

  Lemma last_obs_eq zs wl : map (last_window (zlen (hd [] zs)) wl) zs = last_obs zs wl.
  Proof. unfold last_obs. apply map_ext. intro zv. apply last_window_eq. Qed.

  Lemma direct_flow sc zs zp wl fh : wf_zs zs -> 1 <= wl -> wf_fh fh ->
    let y := hd [] zs in
    let nw := n_windows (zlen y) wl fh in
    let X := train_X sc zs wl nw in
    let xp := enc sc (last_obs zp wl) in
    direct_run M fit1 pred1 sc zs zp wl fh =
      if nw <=? 0 then Err else
      Ok (mkRun (map (fun h => Fit1 X (train_t y wl nw h)) fh)
                (map (fun i => (i, xp)) (zrange 0 (zlen fh) 1))
                (map (fun h => pred1 (fit1 X (train_t y wl nw h)) xp) fh)).
  Proof.
    intros Hz Hwl Hfh y nw X xp. unfold direct_run. cbv zeta. rewrite last_obs_eq.
    rewrite (swt_fh_closed zs wl fh Hz Hwl Hfh). cbv zeta. fold y. fold nw.
    destruct (nw <=? 0); [reflexivity|].
    fold xp. rewrite map_map. fold (train_X sc zs wl nw). fold X.
    apply f_equal. rewrite map_map. f_equal.
    - rewrite <- (map_index (fun h => Fit1 X (train_t y wl nw h)) fh).
      apply map_ext_zrange. intros i Hi. f_equal. apply col_of_map. lia.
    - rewrite <- (map_index (fun h => pred1 (fit1 X (train_t y wl nw h)) xp) fh).
      apply map_ext_zrange. intros i Hi. f_equal. f_equal. apply col_of_map. lia.
  Qed.

  Lemma multioutput_flow sc zs zp wl fh : wf_zs zs -> 1 <= wl -> wf_fh fh ->
    let y := hd [] zs in
    let nw := n_windows (zlen y) wl fh in
    let X := train_X sc zs wl nw in
    let xp := enc sc (last_obs zp wl) in
    multioutput_run M fitm predm sc zs zp wl fh =
      if nw <=? 0 then Err else
      Ok (mkRun [FitM X (train_T y wl nw fh)] [(0, xp)] (predm (fitm X (train_T y wl nw fh)) xp)).
  Proof.
    intros Hz Hwl Hfh y nw X xp. unfold multioutput_run. cbv zeta. rewrite last_obs_eq.
    rewrite (swt_fh_closed zs wl fh Hz Hwl Hfh). cbv zeta. fold y. fold nw.
    destruct (nw <=? 0); [reflexivity|].
    fold xp. rewrite map_map. fold (train_X sc zs wl nw). fold X.
    reflexivity.
  Qed.

  (* ------------------------------------------------------------------------------------------ *)
  (* recursive *)

  Definition dflt : xrow * Z := (RTab [], 0).

  (* loop invariant of the recursive prediction loop: before step i the buffer holds the window
     history H (last window followed by the i predictions made so far) and then only zeros that are
     never read; the result is described without buffer or zeros *)
  Lemma rec_steps_spec m sc wl xb : forall (k : nat) i H, 0 <= i -> zlen H = wl + i ->
    let L := rec_steps M pred1 m sc wl xb (zrange i (i + Z.of_nat k) 1) (H ++ zeros (Z.of_nat k)) in
    length L = k /\
    forall j : nat, (j < k)%nat ->
      nth j L dflt =
        let x := enc sc (map (fun b => zslice b (i + Z.of_nat j) (wl + i + Z.of_nat j))
                             ((H ++ map snd L) :: xb)) in
        (x, pred1 m x).
  Proof.
    induction k as [|k IH]; intros i H Hi HH L.
    - subst L. rewrite Z.add_0_r, zrange_nil by lia. split; [reflexivity|]. intros j Hj. lia.
    - subst L. rewrite zrange_cons by lia. cbn [rec_steps]. unfold rec_lo, rec_hi, rec_fb.
      set (x0 := enc sc (map (fun b => zslice b i (wl + i)) ((H ++ zeros (Z.of_nat (S k))) :: xb))).
      set (p0 := pred1 m x0).
      assert (Eupd : zupd (H ++ zeros (Z.of_nat (S k))) (wl + i) p0 = (H ++ [p0]) ++ zeros (Z.of_nat k)).
      { rewrite <- HH. rewrite zupd_app_zeros by lia. do 2 f_equal. lia. }
      rewrite Eupd.
      replace (i + Z.of_nat (S k)) with ((i + 1) + Z.of_nat k) by lia.
      assert (HH' : zlen (H ++ [p0]) = wl + (i + 1)) by (rewrite zlen_app; unfold zlen at 2; cbn; lia).
      specialize (IH (i + 1) (H ++ [p0]) ltac:(lia) HH'). cbv zeta in IH.
      set (L' := rec_steps M pred1 m sc wl xb (zrange (i + 1) (i + 1 + Z.of_nat k) 1)
                   ((H ++ [p0]) ++ zeros (Z.of_nat k))) in *.
      destruct IH as [IHlen IHnth]. split; [cbn [length]; lia|].
      intros j Hj. destruct j as [|j].
      + cbn [nth]. cbv zeta. rewrite !Z.add_0_r.
        assert (Ex : x0 = enc sc (map (fun b => zslice b i (wl + i))
                                   ((H ++ map snd ((x0, p0) :: L')) :: xb))).
        { unfold x0. cbn [map]. rewrite !(zslice_app_l H) by lia. reflexivity. }
        rewrite <- Ex. reflexivity.
      + cbn [nth]. rewrite IHnth by lia. cbv zeta. cbn [map snd].
        replace ((H ++ [p0]) ++ map snd L') with (H ++ p0 :: map snd L')
          by (rewrite <- app_assoc; reflexivity).
        replace (i + 1 + Z.of_nat j) with (i + Z.of_nat (S j)) by lia.
        replace (wl + (i + 1) + Z.of_nat j) with (wl + i + Z.of_nat (S j)) by lia.
        reflexivity.
  Qed.

  Lemma concat_map_singleton {A B} (f : A -> B) l : concat (map (fun r => [f r]) l) = map f l.
  Proof. induction l as [|a t IH]; [reflexivity|]. cbn. rewrite IH. reflexivity. Qed.

  (* the window at the end of a series extended by more data *)
  Lemma zslice_tail_ext (y P : list Z) wl j : 0 <= wl <= zlen y -> 0 <= j ->
    zslice (zslice y (zlen y - wl) (zlen y) ++ P) j (wl + j) =
    zslice (y ++ P) (zlen y - wl + j) (zlen y + j).
  Proof.
    intros Hw Hj. rewrite zslice_full by lia.
    assert (Ey : y ++ P = firstn (Z.to_nat (zlen y - wl)) y ++ (skipn (Z.to_nat (zlen y - wl)) y ++ P))
      by (rewrite app_assoc, firstn_skipn; reflexivity).
    assert (HL : zlen (firstn (Z.to_nat (zlen y - wl)) y) = zlen y - wl).
    { unfold zlen. rewrite firstn_length. unfold zlen in Hw. lia. }
    rewrite Ey. rewrite (zslice_app_skip (firstn (Z.to_nat (zlen y - wl)) y)) by lia.
    rewrite HL. f_equal; lia.
  Qed.

  Lemma wf_fh_one : wf_fh [1].
  Proof. unfold wf_fh. cbn. split; [congruence|]. split; [exact I|lia]. Qed.

  (* recursive strategy, complete data flow: one regressor fitted on ALL n - wl windows with the
     next observation as target; step i+1 (i = 0 .. max fh - 1) is predicted from the last wl values
     of the series extended by the predictions made so far (exogenous columns: extended by the rows
     of the X passed to predict); the forecast for step h is the output of call h *)
  Lemma recursive_flow sc zs zp wl fh xfut : wf_zs zs -> 1 <= wl -> wf_fh fh ->
    wf_zs zp -> wl <= zlen (hd [] zp) ->
    let y := hd [] zs in
    let nw := zlen y - wl in
    let X := train_X sc zs wl nw in
    let t := train_t y wl nw 1 in
    let m := fit1 X t in
    let yp := hd [] zp in
    let n := zlen yp in
    if nw <=? 0 then recursive_run M fit1 pred1 sc zs zp wl fh xfut = Err else
    exists steps,
      recursive_run M fit1 pred1 sc zs zp wl fh xfut =
        Ok (mkRun [Fit1 X t] (map (fun s => (0, fst s)) steps)
                  (map (fun h => snd (nth (Z.to_nat (h - 1)) steps dflt)) fh)) /\
      zlen steps = zlast fh /\
      forall i, 0 <= i < zlast fh ->
        nth (Z.to_nat i) steps dflt =
          let ext := (yp ++ map snd steps) :: map (fun p => fst p ++ snd p) (combine (tl zp) xfut) in
          let x := enc sc (map (fun s => zslice s (n - wl + i) (n + i)) ext) in
          (x, pred1 m x).
  Proof.
    intros Hz Hwl Hfh Hzp Hnp y nw X t m yp n. unfold recursive_run. cbv zeta.
    rewrite (swt_fh_closed zs wl [1] Hz Hwl wf_fh_one). cbv zeta. fold y. fold yp. fold n.
    replace (n_windows (zlen y) wl [1]) with nw by (unfold n_windows, zlast, nw; cbn; lia).
    destruct (nw <=? 0) eqn:E; [reflexivity|].
    rewrite map_map. fold (train_X sc zs wl nw). fold X.
    change (fun r => map (target_at y wl r) [1]) with (fun r => [target_at y wl r 1]).
    rewrite concat_map_singleton. fold (train_t y wl nw 1). fold t. fold m.
    pose proof (wf_fh_last fh Hfh) as Hfm.
    set (xb := map (fun p => last_window n wl (fst p) ++ snd p) (combine (tl zp) xfut)).
    set (Hw := last_window n wl yp).
    assert (HHw : zlen Hw = wl + 0).
    { unfold Hw. rewrite last_window_eq. rewrite zlen_zslice; unfold n, yp in *; lia. }
    pose proof (rec_steps_spec m sc wl xb (Z.to_nat (zlast fh)) 0 Hw ltac:(lia) HHw) as Hs.
    cbv zeta in Hs. rewrite Z2Nat.id in Hs by lia. rewrite Z.add_0_l in Hs.
    set (steps := rec_steps M pred1 m sc wl xb (zrange 0 (zlast fh) 1) (Hw ++ zeros (zlast fh))) in *.
    destruct Hs as [Hlen Hnth].
    exists steps. split; [|split].
    - apply f_equal. f_equal. unfold fh_indexer. rewrite map_map. apply map_ext_in. intros h Hh.
      pose proof (wf_fh_bounds fh h Hfh Hh) as Hb. unfold znth.
      rewrite (nth_indep _ 0 (snd dflt)) by (rewrite map_length; lia).
      apply map_nth.
    - unfold zlen. lia.
    - intros i Hi. rewrite Hnth by lia. cbv zeta. rewrite Z2Nat.id by lia.
      assert (Ein : map (fun b => zslice b (0 + i) (wl + 0 + i)) ((Hw ++ map snd steps) :: xb) =
                    map (fun s => zslice s (n - wl + i) (n + i))
                        ((yp ++ map snd steps) :: map (fun p => fst p ++ snd p) (combine (tl zp) xfut))).
      { cbn [map]. f_equal.
        - unfold Hw. rewrite last_window_eq. replace (wl + 0 + i) with (wl + (0 + i)) by lia.
          unfold n. rewrite zslice_tail_ext; [f_equal; lia| |lia]. fold n. unfold n, yp. lia.
        - unfold xb. rewrite !map_map. apply map_ext_in. intros [xv xf] Hp. cbn [fst snd].
          assert (Hxv : zlen xv = n).
          { apply in_combine_l in Hp. destruct Hzp as [Hne Hall]. unfold n, yp.
            apply Hall. destruct zp as [|z0 zr]; [congruence|]. right. exact Hp. }
          rewrite last_window_eq. replace (wl + 0 + i) with (wl + (0 + i)) by lia.
          rewrite <- Hxv. rewrite zslice_tail_ext; [f_equal; lia| |lia]. rewrite Hxv. unfold n, yp. lia. }
      rewrite Ein. reflexivity.
  Qed.

  (* ------------------------------------------------------------------------------------------ *)
  (* dirrec *)

  Lemma zslice_0_all {A} (l : list A) : zslice l 0 (zlen l) = l.
  Proof. rewrite zslice_full by lia. reflexivity. Qed.

  Lemma dirrec_steps_spec sc wl : forall ms i H, 0 <= i -> zlen H = wl + i ->
    let L := dirrec_steps M pred1 sc wl ms i (H ++ zeros (zlen ms)) in
    length L = length ms /\
    forall (j : nat) m0, (j < length ms)%nat ->
      nth j L dflt =
        let x := enc sc [H ++ firstn j (map snd L)] in (x, pred1 (nth j ms m0) x).
  Proof.
    induction ms as [|m ms IH]; intros i H Hi HH L.
    - subst L. split; [reflexivity|]. intros j m0 Hj. cbn in Hj. lia.
    - subst L. cbn [dirrec_steps]. unfold dr_hi, dr_fb.
      rewrite <- HH.
      rewrite zslice_app_l by lia. rewrite zslice_0_all.
      set (x0 := enc sc [H]). set (p0 := pred1 m x0).
      rewrite zupd_app_zeros by (unfold zlen; cbn [length]; lia).
      replace (zlen (m :: ms) - 1) with (zlen ms) by (unfold zlen; cbn [length]; lia).
      assert (HH' : zlen (H ++ [p0]) = wl + (i + 1)) by (rewrite zlen_app; unfold zlen at 2; cbn; lia).
      specialize (IH (i + 1) (H ++ [p0]) ltac:(lia) HH'). cbv zeta in IH.
      set (L' := dirrec_steps M pred1 sc wl ms (i + 1) ((H ++ [p0]) ++ zeros (zlen ms))) in *.
      destruct IH as [IHlen IHnth]. split; [cbn [length]; lia|].
      intros j m0 Hj. destruct j as [|j].
      + cbn [nth firstn]. cbv zeta. rewrite app_nil_r. reflexivity.
      + cbn [nth length] in *. rewrite (IHnth j m0) by lia. cbv zeta. cbn [map snd firstn].
        rewrite <- app_assoc. reflexivity.
  Qed.

  Lemma combine_map_same {A B C} (f : A -> B) (g : A -> C) l :
    combine (map f l) (map g l) = map (fun x => (f x, g x)) l.
  Proof. induction l as [|a t IH]; [reflexivity|]. cbn. rewrite IH. reflexivity. Qed.

  (* what the regressor for step index i is trained on: the window followed by the observed
     targets of the earlier requested steps *)
  Definition dirrec_X (sc : scitype) (y : list Z) (wl nw : Z) (fh : list Z) (i : Z) : list xrow :=
    map (fun r => enc sc [zslice y r (r + wl) ++ map (target_at y wl r) (firstn (Z.to_nat i) fh)])
        (zrange 0 nw 1).

  Lemma dirrec_flow sc y zp wl fh : 1 <= wl -> wf_fh fh -> wl <= zlen (hd [] zp) ->
    let yp := hd [] zp in
    let n := zlen yp in
    let nw := n_windows (zlen y) wl fh in
    let idx := zrange 0 (zlen fh) 1 in
    let ms := map (fun i => fit1 (dirrec_X sc y wl nw fh i) (train_t y wl nw (znth fh i))) idx in
    if nw <=? 0 then dirrec_run M fit1 pred1 sc [y] zp wl fh = Err else
    exists steps,
      dirrec_run M fit1 pred1 sc [y] zp wl fh =
        Ok (mkRun (map (fun i => Fit1 (dirrec_X sc y wl nw fh i) (train_t y wl nw (znth fh i))) idx)
                  (combine idx (map fst steps)) (map snd steps)) /\
      zlen steps = zlen fh /\
      forall i m0, 0 <= i < zlen fh ->
        nth (Z.to_nat i) steps dflt =
          let x := enc sc [zslice yp (n - wl) n ++ firstn (Z.to_nat i) (map snd steps)] in
          (x, pred1 (nth (Z.to_nat i) ms m0) x).
  Proof.
    intros Hwl Hfh Hnp yp n nw idx ms. unfold dirrec_run.
    assert (Hz : wf_zs [y]) by (split; [congruence|]; intros zv [<-|[]]; reflexivity).
    rewrite (swt_fh_closed [y] wl fh Hz Hwl Hfh). cbv zeta. cbn [hd]. fold yp. fold n. fold nw.
    destruct (nw <=? 0) eqn:E; [reflexivity|].
    pose proof (wf_fh_last fh Hfh) as Hfm.
    rewrite combine_map_same, map_map. cbn [fst snd]. fold idx.
    (* the fit inputs *)
    assert (EX : forall i, 0 <= i < zlen fh ->
      map (fun row => enc sc [zslice row 0 (dr_fit_hi wl i)])
          (map (fun x => hd [] (window_at [y] wl x) ++ map (target_at y wl x) fh) (zrange 0 nw 1)) =
      dirrec_X sc y wl nw fh i).
    { intros i Hi. rewrite map_map. unfold dirrec_X. apply map_ext_zrange. intros r Hr.
      unfold window_at. cbn [map hd]. unfold dr_fit_hi.
      assert (Hl : zlen (zslice y r (r + wl)) = wl).
      { rewrite zlen_zslice; unfold nw, n_windows in *; lia. }
      rewrite zslice_app_mid by lia. rewrite Hl.
      assert (E0 : zslice (zslice y r (r + wl)) 0 wl = zslice y r (r + wl)).
      { pose proof (zslice_0_all (zslice y r (r + wl))) as E0. rewrite Hl in E0. exact E0. }
      rewrite E0.
      do 3 f_equal. unfold zslice. cbn [Z.to_nat skipn]. rewrite firstn_map. f_equal. f_equal. lia. }
    assert (ET : forall i, 0 <= i < zlen fh ->
      col i (map (fun x => map (target_at y wl x) fh) (zrange 0 nw 1)) = train_t y wl nw (znth fh i)).
    { intros i Hi. apply col_of_map. exact Hi. }
    set (msR := map (fun i => fit1 _ _) idx).
    assert (Ems : msR = ms).
    { unfold msR, ms. apply map_ext_zrange. intros i Hi. rewrite EX, ET by lia. reflexivity. }
    rewrite Ems.
    set (Hw := last_window n wl yp).
    assert (HHw : zlen Hw = wl + 0).
    { unfold Hw. rewrite last_window_eq. rewrite zlen_zslice; unfold n, yp in *; lia. }
    assert (Hmslen : zlen ms = zlen fh).
    { unfold ms. rewrite zlen_map. unfold idx. rewrite zlen_zrange1. pose proof (zlen_nonneg fh). lia. }
    pose proof (dirrec_steps_spec sc wl ms 0 Hw ltac:(lia) HHw) as Hs. cbv zeta in Hs.
    rewrite Hmslen in Hs.
    set (steps := dirrec_steps M pred1 sc wl ms 0 (Hw ++ zeros (zlen fh))) in *.
    destruct Hs as [Hlen Hnth]. exists steps. split; [|split].
    - apply f_equal. f_equal. apply map_ext_zrange. intros i Hi. rewrite EX, ET by lia. reflexivity.
    - unfold zlen in *. lia.
    - intros i m0 Hi. rewrite (Hnth (Z.to_nat i) m0) by (unfold zlen in *; lia). cbv zeta.
      unfold Hw. rewrite last_window_eq. reflexivity.
  Qed.

  (* exogenous data is refused by dirrec *)
  Lemma dirrec_rejects_exog sc y x xs zp wl fh :
    dirrec_run M fit1 pred1 sc (y :: x :: xs) zp wl fh = Err.
  Proof. reflexivity. Qed.
End StrategyProofs.

(* ---------------------------------------------------------------------------------------------- *)
(* Part 4: readable corollaries *)

(* the row given to predict by direct/multioutput is laid out exactly like a training row: it is the
   window starting at n - wl, encoded by the same `enc` (variable-major for the tabular scitype) *)
Lemma last_obs_is_window zs wl : last_obs zs wl = window_at zs wl (zlen (hd [] zs) - wl).
Proof.
  unfold last_obs, window_at. apply map_ext. intro zv. f_equal. lia.
Qed.

(* shape of the window at the end of the series extended by predictions P, at step i (0-based):
   while i <= wl it is the last wl - i observations followed by the first i predictions (newest
   last); afterwards it consists of the wl most recent predictions only *)
Lemma feedback_window_shape (y P : list Z) wl i : 0 <= wl <= zlen y -> 0 <= i ->
  zslice (y ++ P) (zlen y - wl + i) (zlen y + i) =
    if i <=? wl then zslice y (zlen y - wl + i) (zlen y) ++ zslice P 0 i
    else zslice P (i - wl) i.
Proof.
  intros Hw Hi. destruct (i <=? wl) eqn:E.
  - rewrite zslice_app_mid by lia. f_equal. f_equal. lia.
  - rewrite zslice_app_skip by lia. f_equal; lia.
Qed.

Lemma sorted_firstn_lt : forall l (i : nat) h, sorted_lt l -> (i < length l)%nat ->
  In h (firstn i l) -> h < nth i l 0.
Proof.
  induction l as [|a t IH]; intros i h Hs Hi Hin; [cbn in Hi; lia|].
  destruct i as [|i]; [destruct Hin|]. cbn [firstn nth] in *. cbn [length] in Hi.
  destruct Hin as [<-|Hin].
  - apply (sorted_lt_head_lt t a); [exact Hs|]. apply nth_In. lia.
  - apply IH; [eapply sorted_lt_tail; eauto|lia|exact Hin].
Qed.

(* dirrec: every value in a training row of the regressor for step index i lies strictly before
   that regressor's target: the window positions r .. r+wl-1 and the earlier targets
   r+wl-1+h (h an earlier requested step) are all < r+wl-1+fh_i *)
Lemma dirrec_row_no_future fh wl r i h c : wf_fh fh -> 1 <= wl -> 0 <= i < zlen fh ->
  0 <= c < wl -> In h (firstn (Z.to_nat i) fh) ->
  r + c < (r + wl - 1) + znth fh i /\ (r + wl - 1) + h < (r + wl - 1) + znth fh i.
Proof.
  intros Hfh Hwl Hi Hc Hin.
  assert (Hlt : h < znth fh i).
  { unfold znth. apply sorted_firstn_lt; [apply Hfh|unfold zlen in Hi; lia|exact Hin]. }
  assert (H1 : 1 <= h).
  { apply (wf_fh_bounds fh h Hfh). rewrite <- (firstn_skipn (Z.to_nat i) fh).
    apply in_or_app. left. exact Hin. }
  lia.
Qed.

Lemma extend_spec (zs news : list (list Z)) : length news = length zs ->
  (forall (v : nat) d, (v < length zs)%nat -> nth v (extend zs news) d = nth v zs d ++ nth v news d) /\
  (Forall (fun a => a = []) news -> extend zs news = zs).
Proof.
  unfold extend. revert news. induction zs as [|z zs IH]; intros news Hl.
  - split; [intros v d Hv; cbn in Hv; lia|]. intros _. reflexivity.
  - destruct news as [|a news]; [discriminate Hl|]. cbn [length] in Hl.
    destruct (IH news ltac:(lia)) as [IH1 IH2]. split.
    + intros v d Hv. destruct v as [|v]; [reflexivity|]. cbn [combine map nth].
      apply IH1. cbn [length] in Hv. lia.
    + intro Hall. inversion Hall as [|? ? Ha Hrest]; subst. cbn [combine map fst snd].
      rewrite app_nil_r. f_equal. apply IH2. exact Hrest.
Qed.

Lemma infer_scitype_spec b1 b2 :
  infer_scitype b1 b2 = if b1 then Ok TimeSeries else if b2 then Ok Tabular else Err.
Proof. reflexivity. Qed.

(* non-vacuity: a gapped horizon on a 7-point series with one exogenous column *)
Definition ex_zs : list (list Z) := [[11; 12; 13; 14; 15; 16; 17]; [21; 22; 23; 24; 25; 26; 27]].
Lemma ex_nonvacuous :
  wf_zs ex_zs /\ wf_fh [1; 3] /\
  swt ex_zs 2 (fh_indexer [1; 3]) =
    Ok ([[13; 15]; [14; 16]; [15; 17]],
        [[[11; 12]; [21; 22]]; [[12; 13]; [22; 23]]; [[13; 14]; [23; 24]]]) /\
  enc Tabular (last_obs ex_zs 2) = RTab [16; 17; 26; 27].
Proof.
  split; [|split; [|split]].
  - split; [discriminate|]. intros zv [<-|[<-|[]]]; reflexivity.
  - unfold wf_fh. cbn. split; [discriminate|]. split; [lia|lia].
  - vm_compute. reflexivity.
  - vm_compute. reflexivity.
Qed.
