(* C05 property theorems (statements closed by `exact`, each followed by Print Assumptions). *)
From Coq Require Import ZArith List Bool.
Require Import SkV.Lib.Base SkV.Lib.ZRange SkV.C05.Model SkV.C05.Proofs.
Import ListNotations.
Open Scope Z_scope.

Theorem C05_swt_rejects_iff_no_window : forall zs wl fh, wf_zs zs -> 1 <= wl -> wf_fh fh ->
  (swt zs wl (fh_indexer fh) = Err <-> n_windows (zlen (hd [] zs)) wl fh <= 0).
Proof. exact swt_rejects_iff. Qed.
Print Assumptions C05_swt_rejects_iff_no_window.
