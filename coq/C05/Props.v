(* C05 property theorems.  Nothing but statements closed by `exact`, each followed by
   Print Assumptions.

   Vocabulary (Model.v / Proofs.v): zs = y :: exogenous columns, all of length n; fh = requested
   steps ahead (>= 1, strictly increasing, contiguous or gapped); `swt` = _sliding_window_transform
   (built from the zero-padded diagonal fill, truncation and split of the source, whose index
   expressions are regenerated and bridged in Bridge.v); window_at zs wl r = per variable the
   observations r .. r+wl-1; target_at y wl r h = y[(r+wl-1) + h]; n_windows n wl fh =
   n - wl - max fh + 1; enc = tabular (variable-major flat row) or time-series (panel) layout;
   train_X / train_t / train_T = the lag windows 0 .. n_windows-1 and their targets; last_obs = the
   last wl observations of every variable.  zp = the variables as known at prediction time: zs
   itself, or zs extended by the observations handed to update(.., update_params=False)
   (`extend`).  The regressor (M, fit1, fitm, pred1, predm) is universally quantified: any
   deterministic functions.

   Second part (Hist.v / HistProofs.v): the forecaster as a STATE with an explicit cutoff.  The
   remembered variables h_mem (y first) are time-indexed series `tser` = list of (label, value),
   label-sorted; h_cut is the cutoff, which may lie anywhere inside the remembered data (after
   update with older data, inside and after update_predict, whose cutoff is detached);
   get_last_window wl c s = the rows of s whose LABEL lies in [c - wl + 1, c] (`.loc`), tget s t =
   the value labelled t; h_forecast = _predict(fh) at the current cutoff: the regressor events
   EvPred c k x (call made while the cutoff was c) and the forecast (labels c + fh, values);
   fit_part / predict_part = the fit side and the predict side of the four strategies, the latter
   as a function of the last window; upto c s = what s held up to label c. *)
From Coq Require Import ZArith List Bool.
Require Import SkV.Lib.Base SkV.Lib.ZRange SkV.C05.Model SkV.C05.Proofs SkV.C05.Hist SkV.C05.HistProofs.
Require SkV.C10.Model.
Import ListNotations.
Open Scope Z_scope.

(* "every training row consists of window_length consecutive observations" *)
Theorem C05_swt_rows : forall zs wl fh yt Xt r, wf_zs zs -> 1 <= wl -> wf_fh fh ->
  swt zs wl (fh_indexer fh) = Ok (yt, Xt) ->
  0 <= r < n_windows (zlen (hd [] zs)) wl fh ->
  nth (Z.to_nat r) Xt [] = window_at zs wl r /\
  forall zv, In zv zs -> zlen (zslice zv r (r + wl)) = wl /\
                         forall c, 0 <= c < wl -> znth (zslice zv r (r + wl)) c = znth zv (r + c).
Proof. exact swt_rows. Qed.
Print Assumptions C05_swt_rows.

(* "its target is the observation exactly h steps after the end of that window" *)
Theorem C05_swt_targets : forall zs wl fh yt Xt r, wf_zs zs -> 1 <= wl -> wf_fh fh ->
  swt zs wl (fh_indexer fh) = Ok (yt, Xt) ->
  0 <= r < n_windows (zlen (hd [] zs)) wl fh ->
  nth (Z.to_nat r) yt [] = map (fun h => znth (hd [] zs) ((r + wl - 1) + h)) fh.
Proof. exact swt_targets. Qed.
Print Assumptions C05_swt_targets.

(* "all full windows of the series are used once": exactly n - wl - max fh + 1 rows, the windows
   starting at pairwise distinct positions; a start is used iff its window and all of its targets
   lie inside the series *)
Theorem C05_swt_all_full_windows_once : forall zs wl fh yt Xt, wf_zs zs -> 1 <= wl -> wf_fh fh ->
  swt zs wl (fh_indexer fh) = Ok (yt, Xt) ->
  let n := zlen (hd [] zs) in
  let starts := zrange 0 (n_windows n wl fh) 1 in
  Xt = map (window_at zs wl) starts /\
  zlen Xt = n - wl - zlast fh + 1 /\ zlen yt = n - wl - zlast fh + 1 /\
  NoDup starts /\
  forall s, In s starts <-> (0 <= s /\ (s + wl - 1) + zlast fh <= n - 1).
Proof. exact swt_all_full_windows_once. Qed.
Print Assumptions C05_swt_all_full_windows_once.

(* "no row contains its own target or any later value": cell (r, v, c) is the observation at time
   r + c, target j the observation at (r + wl - 1) + fh_j, data-independent positions with
   r + c < (r + wl - 1) + fh_j <= n - 1 *)
Theorem C05_swt_no_future : forall zs wl fh yt Xt r c h, wf_zs zs -> 1 <= wl -> wf_fh fh ->
  swt zs wl (fh_indexer fh) = Ok (yt, Xt) ->
  0 <= r < n_windows (zlen (hd [] zs)) wl fh -> 0 <= c < wl -> In h fh ->
  let a := r + c in let b := (r + wl - 1) + h in
  0 <= a /\ a < b /\ b <= zlen (hd [] zs) - 1 /\
  (forall v d, (v < length zs)%nat ->
     znth (nth v (nth (Z.to_nat r) Xt []) d) c = znth (nth v zs d) a) /\
  (forall j : nat, (j < length fh)%nat -> nth j fh 0 = h ->
     nth j (nth (Z.to_nat r) yt []) 0 = znth (hd [] zs) b).
Proof. exact swt_no_future. Qed.
Print Assumptions C05_swt_no_future.

(* the same on the series whose observations are their own time positions: inside a row every
   feature is smaller than every target *)
Theorem C05_swt_no_future_positions : forall n wl fh yt Xt, 1 <= wl -> wf_fh fh -> 0 <= n ->
  swt [zrange 0 n 1] wl (fh_indexer fh) = Ok (yt, Xt) ->
  forall r, 0 <= r < n_windows n wl fh ->
  forall t x w, In t (nth (Z.to_nat r) yt []) -> In w (nth (Z.to_nat r) Xt []) -> In x w -> x < t.
Proof. exact swt_no_future_positions. Qed.
Print Assumptions C05_swt_no_future_positions.

(* rejected exactly when no full window fits *)
Theorem C05_swt_rejects_iff_no_window : forall zs wl fh, wf_zs zs -> 1 <= wl -> wf_fh fh ->
  (swt zs wl (fh_indexer fh) = Err <-> n_windows (zlen (hd [] zs)) wl fh <= 0).
Proof. exact swt_rejects_iff. Qed.
Print Assumptions C05_swt_rejects_iff_no_window.

(* direct: one regressor per requested step h, each fitted on the lag windows with the
   observation h steps after the window as target; every regressor is given the last wl
   observations; the forecast for step h is the output of the regressor fitted for step h *)
Theorem C05_direct_data_flow : forall (M : Type) (fit1 : list xrow -> list Z -> M)
  (pred1 : M -> xrow -> Z) sc zs zp wl fh, wf_zs zs -> 1 <= wl -> wf_fh fh ->
  let y := hd [] zs in
  let nw := n_windows (zlen y) wl fh in
  let X := train_X sc zs wl nw in
  let xp := enc sc (last_obs zp wl) in
  direct_run M fit1 pred1 sc zs zp wl fh =
    if nw <=? 0 then Err else
    Ok (mkRun (map (fun h => Fit1 X (train_t y wl nw h)) fh)
              (map (fun i => (i, xp)) (zrange 0 (zlen fh) 1))
              (map (fun h => pred1 (fit1 X (train_t y wl nw h)) xp) fh)).
Proof. exact direct_flow. Qed.
Print Assumptions C05_direct_data_flow.

(* multioutput: one regressor fitted on the lag windows with the vector of all requested targets;
   it is given the last wl observations; the forecast is its output vector *)
Theorem C05_multioutput_data_flow : forall (M : Type) (fitm : list xrow -> list (list Z) -> M)
  (predm : M -> xrow -> list Z) sc zs zp wl fh, wf_zs zs -> 1 <= wl -> wf_fh fh ->
  let y := hd [] zs in
  let nw := n_windows (zlen y) wl fh in
  let X := train_X sc zs wl nw in
  let xp := enc sc (last_obs zp wl) in
  multioutput_run M fitm predm sc zs zp wl fh =
    if nw <=? 0 then Err else
    Ok (mkRun [FitM X (train_T y wl nw fh)] [(0, xp)] (predm (fitm X (train_T y wl nw fh)) xp)).
Proof. exact multioutput_flow. Qed.
Print Assumptions C05_multioutput_data_flow.

(* the row handed to predict has the layout of a training row: it is the window starting at
   n - wl under the same encoding *)
Theorem C05_predict_row_has_training_layout : forall zs wl,
  last_obs zs wl = window_at zs wl (zlen (hd [] zs) - wl).
Proof. exact last_obs_is_window. Qed.
Print Assumptions C05_predict_row_has_training_layout.

(* recursive: one regressor fitted on all n - wl windows with the next observation as target;
   call i+1 (i = 0 .. max fh - 1) is given the last wl values of the series extended by the
   predictions made so far (exogenous columns extended by the rows of the X passed to predict);
   its output is the prediction for step i+1 and is what is fed back; the forecast for step h is
   the output of call h (also for gapped horizons) *)
Theorem C05_recursive_data_flow : forall (M : Type) (fit1 : list xrow -> list Z -> M)
  (pred1 : M -> xrow -> Z) sc zs zp wl fh xfut, wf_zs zs -> 1 <= wl -> wf_fh fh ->
  wf_zs zp -> wl <= zlen (hd [] zp) ->
  let y := hd [] zs in
  let nw := zlen y - wl in
  let X := train_X sc zs wl nw in
  let t := train_t y wl nw 1 in
  let m := fit1 X t in
  let yp := hd [] zp in
  let n := zlen yp in
  if nw <=? 0 then recursive_run M fit1 pred1 sc zs zp wl fh xfut = Err else
  exists steps,
    recursive_run M fit1 pred1 sc zs zp wl fh xfut =
      Ok (mkRun [Fit1 X t] (map (fun s => (0, fst s)) steps)
                (map (fun h => snd (nth (Z.to_nat (h - 1)) steps dflt)) fh)) /\
    zlen steps = zlast fh /\
    forall i, 0 <= i < zlast fh ->
      nth (Z.to_nat i) steps dflt =
        let ext := (yp ++ map snd steps) :: map (fun p => fst p ++ snd p) (combine (tl zp) xfut) in
        let x := enc sc (map (fun s => zslice s (n - wl + i) (n + i)) ext) in
        (x, pred1 m x).
Proof. exact recursive_flow. Qed.
Print Assumptions C05_recursive_data_flow.

(* "feed each earlier prediction back as the newest lag": the window of the extended series at
   step i (0-based) is the last wl - i observations followed by the first i predictions, newest
   last; from step wl on it is the wl most recent predictions *)
Theorem C05_feedback_window_shape : forall (y P : list Z) wl i, 0 <= wl <= zlen y -> 0 <= i ->
  zslice (y ++ P) (zlen y - wl + i) (zlen y + i) =
    if i <=? wl then zslice y (zlen y - wl + i) (zlen y) ++ zslice P 0 i
    else zslice P (i - wl) i.
Proof. exact feedback_window_shape. Qed.
Print Assumptions C05_feedback_window_shape.

(* dirrec: regressor i is fitted on the lag window followed by the observed targets of the earlier
   requested steps, target = observation fh_i steps after the window; at prediction time regressor
   i is given the last window followed by the outputs of regressors 0 .. i-1 (newest last) and its
   output is the forecast for step fh_i *)
Theorem C05_dirrec_data_flow : forall (M : Type) (fit1 : list xrow -> list Z -> M)
  (pred1 : M -> xrow -> Z) sc y zp wl fh, 1 <= wl -> wf_fh fh -> wl <= zlen (hd [] zp) ->
  let yp := hd [] zp in
  let n := zlen yp in
  let nw := n_windows (zlen y) wl fh in
  let idx := zrange 0 (zlen fh) 1 in
  let ms := map (fun i => fit1 (dirrec_X sc y wl nw fh i) (train_t y wl nw (znth fh i))) idx in
  if nw <=? 0 then dirrec_run M fit1 pred1 sc [y] zp wl fh = Err else
  exists steps,
    dirrec_run M fit1 pred1 sc [y] zp wl fh =
      Ok (mkRun (map (fun i => Fit1 (dirrec_X sc y wl nw fh i) (train_t y wl nw (znth fh i))) idx)
                (combine idx (map fst steps)) (map snd steps)) /\
    zlen steps = zlen fh /\
    forall i m0, 0 <= i < zlen fh ->
      nth (Z.to_nat i) steps dflt =
        let x := enc sc [zslice yp (n - wl) n ++ firstn (Z.to_nat i) (map snd steps)] in
        (x, pred1 (nth (Z.to_nat i) ms m0) x).
Proof. exact dirrec_flow. Qed.
Print Assumptions C05_dirrec_data_flow.

(* dirrec training rows hold nothing at or after their own target: window positions r + c and the
   earlier targets (r + wl - 1) + h are strictly before (r + wl - 1) + fh_i *)
Theorem C05_dirrec_row_no_future : forall fh wl r i h c, wf_fh fh -> 1 <= wl -> 0 <= i < zlen fh ->
  0 <= c < wl -> In h (firstn (Z.to_nat i) fh) ->
  r + c < (r + wl - 1) + znth fh i /\ (r + wl - 1) + h < (r + wl - 1) + znth fh i.
Proof. exact dirrec_row_no_future. Qed.
Print Assumptions C05_dirrec_row_no_future.

(* dirrec refuses exogenous data (NotImplementedError in the source) *)
Theorem C05_dirrec_rejects_exogenous : forall (M : Type) (fit1 : list xrow -> list Z -> M)
  (pred1 : M -> xrow -> Z) sc y x xs zp wl fh,
  dirrec_run M fit1 pred1 sc (y :: x :: xs) zp wl fh = Err.
Proof. exact dirrec_rejects_exog. Qed.
Print Assumptions C05_dirrec_rejects_exogenous.

(* prediction-time data: update appends to every variable; with nothing appended it is the
   training data itself *)
Theorem C05_prediction_time_series : forall (zs news : list (list Z)),
  length news = length zs ->
  (forall (v : nat) d, (v < length zs)%nat -> nth v (extend zs news) d = nth v zs d ++ nth v news d) /\
  (Forall (fun a => a = []) news -> extend zs news = zs).
Proof. exact extend_spec. Qed.
Print Assumptions C05_prediction_time_series.

(* scitype inference: a sktime BaseRegressor is a time-series regressor even if it also is a
   sklearn RegressorMixin; otherwise a RegressorMixin is tabular; anything else is refused *)
Theorem C05_infer_scitype : forall b1 b2,
  infer_scitype b1 b2 = if b1 then Ok TimeSeries else if b2 then Ok Tabular else Err.
Proof. exact infer_scitype_spec. Qed.
Print Assumptions C05_infer_scitype.

(* the hypotheses are satisfiable by a non-trivial instance (gapped horizon, exogenous column) *)
Example C05_nonvacuous :
  wf_zs ex_zs /\ wf_fh [1; 3] /\
  swt ex_zs 2 (fh_indexer [1; 3]) =
    Ok ([[13; 15]; [14; 16]; [15; 17]],
        [[[11; 12]; [21; 22]]; [[12; 13]; [22; 23]]; [[13; 14]; [23; 24]]]) /\
  enc Tabular (last_obs ex_zs 2) = RTab [16; 17; 26; 27].
Proof. exact ex_nonvacuous. Qed.

(* ============================================================================================== *)
(* the cutoff made explicit: "the last window_length observed values" are the observations ENDING
   AT THE CUTOFF (the time the forecast is labelled from), never an observation after it *)

(* the window fed at cutoff c is y[c - wl + 1 .. c] by time label: exactly wl values, position i
   holds the observation labelled c - wl + 1 + i, the newest lag is the observation AT the cutoff -
   wherever c lies inside the remembered series *)
Theorem C05_last_window_ends_at_cutoff : forall (s : tser) c wl, sorted_lt (ttimes s) -> 1 <= wl ->
  (forall t, c - wl + 1 <= t <= c -> In t (ttimes s)) ->
  let w := get_last_window wl c s in
  w = map (tget s) (zrange (c - wl + 1) (c + 1) 1) /\
  zlen w = wl /\
  (forall i, 0 <= i < wl -> znth w i = tget s (c - wl + 1 + i)) /\
  znth w (wl - 1) = tget s c.
Proof. exact last_window_ends_at_cutoff. Qed.
Print Assumptions C05_last_window_ends_at_cutoff.

(* never the future: every row of the window is a remembered observation whose time label is
   <= the cutoff (and > cutoff - wl); every label of the forecast is > the cutoff *)
Theorem C05_last_window_no_future : forall (s : tser) c wl fh, wf_fh fh ->
  get_last_window wl c s = tvals (trows s (c - wl + 1) c) /\
  (forall p, In p (trows s (c - wl + 1) c) -> In p s /\ c - wl + 1 <= fst p <= c) /\
  (forall l, In l (map (fun h => c + h) fh) -> c < l).
Proof. exact last_window_no_future. Qed.
Print Assumptions C05_last_window_no_future.

(* ... as non-interference: the window at cutoff c is the same for any two series that agree on
   everything labelled <= c; remembering observations labelled after c changes nothing up to c *)
Theorem C05_last_window_ignores_future : forall (s1 s2 new : tser) c wl,
  (upto c s1 = upto c s2 -> get_last_window wl c s1 = get_last_window wl c s2) /\
  ((forall p, In p new -> c < fst p) -> upto c (tcfirst new s1) = upto c s1).
Proof.
  intros s1 s2 new c wl. split; [apply last_window_ignores_future|apply upto_tcfirst_later].
Qed.
Print Assumptions C05_last_window_ignores_future.

(* the list model of the first part is the special case "cutoff = label of the last remembered
   observation": there the label-based window is the positional tail, and `reduce` is the fit part
   followed by the predict part on that tail *)
Theorem C05_cutoff_at_end_is_positional_tail : forall t0 vs wl, 1 <= wl <= zlen vs ->
  get_last_window wl (t0 + zlen vs - 1) (tblock t0 vs) = last_window (zlen vs) wl vs.
Proof. exact last_window_at_end. Qed.
Print Assumptions C05_cutoff_at_end_is_positional_tail.

Theorem C05_list_model_is_fit_then_predict : forall (M : Type) (fit1 : list xrow -> list Z -> M)
  (fitm : list xrow -> list (list Z) -> M) (pred1 : M -> xrow -> Z) (predm : M -> xrow -> list Z)
  st sc y xs wl fh xfut news,
  reduce M fit1 fitm pred1 predm st sc y xs wl fh xfut news =
    let zs := y :: xs in
    let zp := extend zs news in
    let n := zlen (hd [] zp) in
    match fit_part M fit1 fitm st sc zs wl fh with
    | Err => Err
    | Ok (fc, ms) =>
        let '(pc, v) := predict_part M pred1 predm st sc wl fh ms (map (last_window n wl) zp) xfut in
        Ok (mkRun fc pc v)
    end.
Proof. exact reduce_is_fit_then_predict. Qed.
Print Assumptions C05_list_model_is_fit_then_predict.

(* the forecast made in ANY state whose remembered variables hold the labels c - wl + 1 .. c
   (c = the state's cutoff, anywhere inside the remembered data): the regressors are asked on the
   window BY LABEL ending at c, every call is made at cutoff c, the forecast is labelled c + fh and
   its values are the predict part's outputs on that window *)
Theorem C05_forecast_at_cutoff : forall (M : Type) (pred1 : M -> xrow -> Z) (predm : M -> xrow -> list Z)
  st sc wl (s : hstate M) fh xfut, 1 <= wl -> window_remembered M wl s ->
  let c := h_cut M s in
  let win := window_by_label wl c (h_mem M s) in
  h_forecast M pred1 predm st sc wl s fh xfut =
    (map (fun p => EvPred c (h_base M s + fst p) (snd p))
         (fst (predict_part M pred1 predm st sc wl fh (h_ms M s) win xfut)),
     (map (fun h => c + h) fh, Some (snd (predict_part M pred1 predm st sc wl fh (h_ms M s) win xfut)))).
Proof. exact forecast_at_cutoff. Qed.
Print Assumptions C05_forecast_at_cutoff.

(* never the future, for the whole forecast: regressor calls and values made at cutoff c are the
   same in two states that agree on everything observed up to c (same regressors) *)
Theorem C05_forecast_ignores_future : forall (M : Type) (pred1 : M -> xrow -> Z)
  (predm : M -> xrow -> list Z) st sc wl (s1 s2 : hstate M) fh xfut,
  h_cut M s1 = h_cut M s2 -> h_ms M s1 = h_ms M s2 -> h_base M s1 = h_base M s2 ->
  agree_upto (h_cut M s1) (h_mem M s1) (h_mem M s2) ->
  h_forecast M pred1 predm st sc wl s1 fh xfut = h_forecast M pred1 predm st sc wl s2 fh xfut.
Proof. exact forecast_ignores_future. Qed.
Print Assumptions C05_forecast_ignores_future.

(* direct / multioutput from an arbitrary window: every regressor is given the window itself *)
Theorem C05_direct_multioutput_from_window : forall (M : Type) (pred1 : M -> xrow -> Z)
  (predm : M -> xrow -> list Z) sc wl fh m ms win xfut,
  predict_part M pred1 predm Direct sc wl fh ms win xfut =
    (map (fun i => (i, enc sc win)) (zrange 0 (zlen fh) 1), map (fun m => pred1 m (enc sc win)) ms) /\
  predict_part M pred1 predm Multioutput sc wl fh (m :: ms) win xfut =
    ([(0, enc sc win)], predm m (enc sc win)).
Proof. intros. split; reflexivity. Qed.
Print Assumptions C05_direct_multioutput_from_window.

(* recursive from an arbitrary window: call i + 1 is given positions i .. i + wl - 1 of the window
   extended by the earlier predictions (exogenous columns: by the rows of the X passed to
   predict); the forecast for step h is the output of call h *)
Theorem C05_recursive_feedback_from_window : forall (M : Type) (pred1 : M -> xrow -> Z)
  (predm : M -> xrow -> list Z) sc wl fh m ms win xfut, wf_fh fh -> zlen (hd [] win) = wl ->
  exists steps,
    predict_part M pred1 predm Recursive sc wl fh (m :: ms) win xfut =
      (map (fun s => (0, fst s)) steps, map (fun h => snd (nth (Z.to_nat (h - 1)) steps dflt)) fh) /\
    zlen steps = zlast fh /\
    forall i, 0 <= i < zlast fh ->
      nth (Z.to_nat i) steps dflt =
        let ext := (hd [] win ++ map snd steps) :: map (fun p => fst p ++ snd p) (combine (tl win) xfut) in
        let x := enc sc (map (fun s => zslice s i (wl + i)) ext) in
        (x, pred1 m x).
Proof. exact recursive_predict_from_window. Qed.
Print Assumptions C05_recursive_feedback_from_window.

(* dirrec from an arbitrary window: regressor i is given the window followed by the outputs of
   regressors 0 .. i-1, its output is forecast i *)
Theorem C05_dirrec_feedback_from_window : forall (M : Type) (pred1 : M -> xrow -> Z)
  (predm : M -> xrow -> list Z) sc wl fh ms win xfut, zlen ms = zlen fh -> zlen (hd [] win) = wl ->
  exists steps,
    predict_part M pred1 predm DirRec sc wl fh ms win xfut =
      (combine (zrange 0 (zlen fh) 1) (map fst steps), map snd steps) /\
    zlen steps = zlen fh /\
    forall i m0, 0 <= i < zlen fh ->
      nth (Z.to_nat i) steps dflt =
        let x := enc sc [hd [] win ++ firstn (Z.to_nat i) (map snd steps)] in
        (x, pred1 (nth (Z.to_nat i) ms m0) x).
Proof. exact dirrec_predict_from_window. Qed.
Print Assumptions C05_dirrec_feedback_from_window.

(* update_predict runs with a DETACHED cutoff: afterwards the cutoff is what it was before, whatever
   data, splitter and update_params *)
Theorem C05_update_predict_restores_cutoff : forall (M : Type) (fit1 : list xrow -> list Z -> M)
  (fitm : list xrow -> list (list Z) -> M) (pred1 : M -> xrow -> Z) (predm : M -> xrow -> list Z)
  st sc wl (s : hstate M) y cv up,
  h_cut M (fst (fst (h_updpred M fit1 fitm pred1 predm st sc wl s y cv up))) = h_cut M s.
Proof. exact update_predict_restores_cutoff. Qed.
Print Assumptions C05_update_predict_restores_cutoff.

(* one moving cutoff (no refit): the window's observations are merged by label, the cutoff is the
   last label of the window, and the forecast is the ordinary forecast of that state (labels
   cutoff + fh) - so C05_forecast_at_cutoff / C05_forecast_ignores_future hold at every moving
   cutoff, also on a second pass over data that are already remembered *)
Theorem C05_moving_cutoff_step : forall (M : Type) (fit1 : list xrow -> list Z -> M)
  (fitm : list xrow -> list (list Z) -> M) (pred1 : M -> xrow -> Z) (predm : M -> xrow -> list Z)
  st sc wl fh (s : hstate M) evs out yw,
  let s1 := mem_update M s yw None in
  mc_step M fit1 fitm pred1 predm st sc wl fh false (s, evs, out, true) yw =
    (s1, evs ++ fst (h_forecast M pred1 predm st sc wl s1 fh []),
     out ++ [snd (h_forecast M pred1 predm st sc wl s1 fh [])], true) /\
  fst (snd (h_forecast M pred1 predm st sc wl s1 fh [])) = map (fun h => h_cut M s1 + h) fh /\
  (yw <> [] -> h_cut M s1 = tlast yw).
Proof. exact moving_cutoff_step. Qed.
Print Assumptions C05_moving_cutoff_step.

(* predict after update_predict(update_params=False) over data observed after the cutoff: the data
   stay remembered, the cutoff is back, and the forecast - regressor calls and values - is exactly
   the one that would have been made before: nothing observed after the cutoff reaches a regressor *)
Theorem C05_predict_after_update_predict : forall (M : Type) (fit1 : list xrow -> list Z -> M)
  (fitm : list xrow -> list (list Z) -> M) (pred1 : M -> xrow -> Z) (predm : M -> xrow -> list Z)
  st sc wl (s : hstate M) (y : tser) cv fh xfut,
  h_mem M s <> [] -> (forall p, In p y -> h_cut M s < fst p) ->
  let s' := fst (fst (h_updpred M fit1 fitm pred1 predm st sc wl s y cv false)) in
  h_cut M s' = h_cut M s /\
  h_forecast M pred1 predm st sc wl s' fh xfut = h_forecast M pred1 predm st sc wl s fh xfut.
Proof. exact predict_after_update_predict. Qed.
Print Assumptions C05_predict_after_update_predict.

(* the remembered variables stay label-sorted through every call history (whatever the order of the
   labels handed in), so the label-based window is well defined in every reachable state *)
Theorem C05_memory_stays_label_sorted : forall (M : Type) (fit1 : list xrow -> list Z -> M)
  (fitm : list xrow -> list (list Z) -> M) (pred1 : M -> xrow -> Z) (predm : M -> xrow -> list Z)
  st sc wl t0 zs fh (s : hstate M) ev ops,
  h_fit M fit1 fitm st sc wl t0 zs fh = Ok (s, ev) ->
  mem_sorted M (h_after M fit1 fitm pred1 predm st sc wl s ops).
Proof. exact history_keeps_memory_sorted. Qed.
Print Assumptions C05_memory_stays_label_sorted.

(* non-vacuity of the second part: a reachable state whose cutoff (6) is NOT the last remembered
   label (9) - after update_predict - satisfying window_remembered; predict is fed the window
   ending at label 6, [16; 17], not the remembered tail [20; 21] *)
Example C05_history_nonvacuous :
  h_cut Z ex_state = 6 /\ tlast (hd [] (h_mem Z ex_state)) = 9 /\
  window_remembered Z 2 ex_state /\ mem_sorted Z ex_state /\
  window_by_label 2 6 (h_mem Z ex_state) = [[16; 17]] /\
  h_forecast Z ex_pred1 ex_predm Direct Tabular 2 ex_state [1] [] =
    ([EvPred 6 0 (RTab [16; 17])], ([7], Some [22])) /\
  hist Z ex_fit1 ex_fitm ex_pred1 ex_predm Direct Tabular 2 0 [11; 12; 13; 14; 15; 16; 17] [] (Some [1])
       [HUpdPred (tblock 7 [18; 19; 20; 21]) (Some ex_cv) false; HPredict None []] =
    Ok [([EvFit (Fit1 [RTab [11; 12]; RTab [12; 13]; RTab [13; 14]; RTab [14; 15]; RTab [15; 16]]
                      [13; 14; 15; 16; 17])],
         RNone, 6, tblock 0 [11; 12; 13; 14; 15; 16; 17]);
        ([EvPred 8 0 (RTab [18; 19]); EvPred 9 0 (RTab [19; 20])],
         RMoving [([9], Some [24]); ([10], Some [25])], 6,
         tblock 0 [11; 12; 13; 14; 15; 16; 17; 18; 19; 20]);
        ([EvPred 6 0 (RTab [16; 17])], RPred ([7], Some [22]), 6,
         tblock 0 [11; 12; 13; 14; 15; 16; 17; 18; 19; 20])].
Proof. exact ex_history. Qed.
