(* C06: lemmas about the aggregators of Model.v (sums, means, medians, sklearn's weighted
   percentile) over Q.  Equality on Q is Qeq (==); lists are related pointwise by Forall2 Qeq. *)
From Coq Require Import QArith Qabs List Bool ZArith Lia Lqa Permutation.
Require Import SkV.C06.Model.
Import ListNotations.
Open Scope Q_scope.

Definition nonneg (x : Q) : Prop := 0 <= x.
Notation all_nonneg := (Forall nonneg).
Notation eql := (Forall2 Qeq).

Lemma EPS_pos : 0 < EPS.
Proof. reflexivity. Qed.

(* ---------------------------------------------------------------- booleans *)

Lemma qltb_true a b : qltb a b = true <-> a < b.
Proof.
  unfold qltb. rewrite negb_true_iff. split; intro H.
  - apply Qnot_le_lt. intro L. apply Qle_bool_iff in L. congruence.
  - destruct (Qle_bool b a) eqn:E; [|reflexivity]. apply Qle_bool_iff in E. lra.
Qed.
Lemma qltb_false a b : qltb a b = false <-> b <= a.
Proof.
  unfold qltb. rewrite negb_false_iff. apply Qle_bool_iff.
Qed.
Lemma Qle_bool_false a b : Qle_bool a b = false <-> b < a.
Proof.
  split; intro H.
  - apply Qnot_le_lt. intro L. apply Qle_bool_iff in L. congruence.
  - destruct (Qle_bool a b) eqn:E; [|reflexivity]. apply Qle_bool_iff in E. lra.
Qed.

Lemma Qle_bool_compat a a' b b' : a == a' -> b == b' -> Qle_bool a b = Qle_bool a' b'.
Proof.
  intros Ha Hb. destruct (Qle_bool a b) eqn:E, (Qle_bool a' b') eqn:E'; try reflexivity.
  - apply Qle_bool_iff in E. apply Qle_bool_false in E'. lra.
  - apply Qle_bool_iff in E'. apply Qle_bool_false in E. lra.
Qed.
Lemma Qeq_bool_compat a a' b b' : a == a' -> b == b' -> Qeq_bool a b = Qeq_bool a' b'.
Proof.
  intros Ha Hb. destruct (Qeq_bool a b) eqn:E, (Qeq_bool a' b') eqn:E'; try reflexivity.
  - apply Qeq_bool_iff in E. apply Qeq_bool_neq in E'. exfalso. apply E'. lra.
  - apply Qeq_bool_iff in E'. apply Qeq_bool_neq in E. exfalso. apply E. lra.
Qed.
Lemma qltb_compat a a' b b' : a == a' -> b == b' -> qltb a b = qltb a' b'.
Proof. intros. unfold qltb. f_equal. apply Qle_bool_compat; assumption. Qed.

Lemma Qle_bool_scale c x y : 0 < c -> Qle_bool (c * x) (c * y) = Qle_bool x y.
Proof.
  intro Hc. destruct (Qle_bool x y) eqn:E.
  - apply Qle_bool_iff. apply Qle_bool_iff in E. nra.
  - apply Qle_bool_false. apply Qle_bool_false in E. nra.
Qed.

Lemma qmax_case a b : (a <= b /\ qmax a b = b) \/ (b < a /\ qmax a b = a).
Proof.
  unfold qmax. destruct (Qle_bool a b) eqn:E.
  - left. split; [apply Qle_bool_iff; exact E | reflexivity].
  - right. split; [apply Qle_bool_false; exact E | reflexivity].
Qed.
Lemma qmin_case a b : (a <= b /\ qmin a b = a) \/ (b < a /\ qmin a b = b).
Proof.
  unfold qmin. destruct (Qle_bool a b) eqn:E.
  - left. split; [apply Qle_bool_iff; exact E | reflexivity].
  - right. split; [apply Qle_bool_false; exact E | reflexivity].
Qed.
Lemma qmax_ge_r a b : b <= qmax a b.
Proof. destruct (qmax_case a b) as [[H ->]|[H ->]]; lra. Qed.
Lemma qmax_ge_l a b : a <= qmax a b.
Proof. destruct (qmax_case a b) as [[H ->]|[H ->]]; lra. Qed.
Lemma qmax_eps_pos a : 0 < qmax a EPS.
Proof. pose proof (qmax_ge_r a EPS). pose proof EPS_pos. lra. Qed.
Lemma qmax_compat a a' b b' : a == a' -> b == b' -> qmax a b == qmax a' b'.
Proof.
  intros Ha Hb. unfold qmax. rewrite (Qle_bool_compat a a' b b' Ha Hb).
  destruct (Qle_bool a' b'); assumption.
Qed.
Lemma qmin_compat a a' b b' : a == a' -> b == b' -> qmin a b == qmin a' b'.
Proof.
  intros Ha Hb. unfold qmin. rewrite (Qle_bool_compat a a' b b' Ha Hb).
  destruct (Qle_bool a' b'); assumption.
Qed.
Lemma qmax_hyp a : EPS <= a -> qmax a EPS == a.
Proof. intro H. destruct (qmax_case a EPS) as [[L ->]|[L ->]]; lra. Qed.

(* ---------------------------------------------------------------- pointwise-equal lists *)

Lemma eql_refl l : eql l l.
Proof. induction l; constructor; [reflexivity | assumption]. Qed.
Lemma eql_sym l l' : eql l l' -> eql l' l.
Proof. induction 1; constructor; [symmetry|]; assumption. Qed.
Lemma eql_trans l1 l2 l3 : eql l1 l2 -> eql l2 l3 -> eql l1 l3.
Proof.
  intros H; revert l3; induction H; intros l3 H3; inversion H3; subst; constructor.
  - etransitivity; eassumption.
  - apply IHForall2; assumption.
Qed.
Lemma eql_length l l' : eql l l' -> length l = length l'.
Proof. induction 1; simpl; congruence. Qed.
Lemma eql_nth l l' i : eql l l' -> nth i l 0 == nth i l' 0.
Proof.
  intros H; revert i; induction H; intros [|i]; simpl; try reflexivity; auto.
Qed.
Lemma eql_map (f g : Q -> Q) l l' :
  (forall x y, x == y -> f x == g y) -> eql l l' -> eql (map f l) (map g l').
Proof. intros Hf; induction 1; simpl; constructor; auto. Qed.
Lemma eql_map_same (f g : Q -> Q) l : (forall x, f x == g x) -> eql (map f l) (map g l).
Proof. intros Hf; induction l; simpl; constructor; auto. Qed.
Lemma eql_app a a' b b' : eql a a' -> eql b b' -> eql (a ++ b) (a' ++ b').
Proof. induction 1; simpl; intros; [assumption | constructor; auto]. Qed.

Lemma Forall_nth (P : Q -> Prop) l i d : Forall P l -> P d -> P (nth i l d).
Proof.
  intros H Hd; revert i; induction H; intros [|i]; simpl; auto.
Qed.

Lemma all_nonneg_compat l l' : eql l l' -> all_nonneg l -> all_nonneg l'.
Proof.
  induction 1; intros HF; inversion HF; subst; constructor; auto.
  unfold nonneg in *. lra.
Qed.

(* ---------------------------------------------------------------- sums and means *)

Lemma qsum_nonneg l : all_nonneg l -> 0 <= qsum l.
Proof. induction 1; simpl; [lra | unfold nonneg in *; lra]. Qed.
Lemma qsum_eql l l' : eql l l' -> qsum l == qsum l'.
Proof. induction 1; simpl; [reflexivity | lra]. Qed.
Lemma qsum_scale c l : qsum (map (Qmult c) l) == c * qsum l.
Proof. induction l; simpl; [ring | rewrite IHl; ring]. Qed.
Lemma qsum_app a b : qsum (a ++ b) == qsum a + qsum b.
Proof. induction a; simpl; [ring | rewrite IHa; ring]. Qed.
Lemma qsum_zero l : Forall (fun x => x == 0) l -> qsum l == 0.
Proof. induction 1; simpl; [reflexivity | lra]. Qed.
Lemma qsum_upper hi l : Forall (fun x => x <= hi) l -> qsum l <= hi * qlen l.
Proof.
  unfold qlen. induction 1; simpl length.
  - change (0 <= hi * 0). lra.
  - rewrite Nat2Z.inj_succ, <- Z.add_1_r, inject_Z_plus. cbn [qsum fold_right].
    fold (qsum l). change (inject_Z 1) with 1. lra.
Qed.
Lemma qsum_perm l l' : Permutation l l' -> qsum l == qsum l'.
Proof. induction 1; simpl; lra. Qed.

Lemma qlen_nonneg l : 0 <= qlen l.
Proof.
  unfold qlen. change 0 with (inject_Z 0). rewrite <- Zle_Qle. lia.
Qed.
Lemma qlen_pos l : l <> [] -> 0 < qlen l.
Proof.
  intro H. unfold qlen. change 0 with (inject_Z 0). rewrite <- Zlt_Qlt.
  destruct l; [congruence | simpl; lia].
Qed.
Lemma qlen_map (f : Q -> Q) l : qlen (map f l) = qlen l.
Proof. unfold qlen. rewrite map_length. reflexivity. Qed.
Lemma qlen_eql l l' : eql l l' -> qlen l = qlen l'.
Proof. intro H. unfold qlen. rewrite (eql_length _ _ H). reflexivity. Qed.

Lemma div_nonneg a b : 0 <= a -> 0 <= b -> 0 <= a / b.
Proof.
  intros Ha Hb. unfold Qdiv. apply Qmult_le_0_compat; [assumption|].
  apply Qinv_le_0_compat. assumption.
Qed.
Lemma div_zero_den a b : b == 0 -> a / b == 0.
Proof. intro H. unfold Qdiv. rewrite H. change (/ 0) with 0. ring. Qed.
Lemma div_le_hi a b hi : 0 <= hi -> 0 <= b -> a <= hi * b -> a / b <= hi.
Proof.
  intros Hh Hb H. destruct (Qlt_le_dec 0 b) as [P|N].
  - apply Qle_shift_div_r; assumption.
  - rewrite div_zero_den; [assumption | lra].
Qed.

Lemma mean_nonneg l : all_nonneg l -> 0 <= mean l.
Proof. intro H. apply div_nonneg; [apply qsum_nonneg; assumption | apply qlen_nonneg]. Qed.
Lemma mean_upper hi l : 0 <= hi -> Forall (fun x => x <= hi) l -> mean l <= hi.
Proof.
  intros Hh H. apply div_le_hi; [assumption | apply qlen_nonneg | apply qsum_upper; assumption].
Qed.
Lemma mean_zero l : Forall (fun x => x == 0) l -> mean l == 0.
Proof. intro H. unfold mean. rewrite (qsum_zero _ H). unfold Qdiv. ring. Qed.
Lemma mean_scale c l : mean (map (Qmult c) l) == c * mean l.
Proof. unfold mean. rewrite qsum_scale, qlen_map. unfold Qdiv. ring. Qed.
Lemma mean_eql l l' : eql l l' -> mean l == mean l'.
Proof. intro H. unfold mean. rewrite (qsum_eql _ _ H), (qlen_eql _ _ H). reflexivity. Qed.

(* weighted sums *)
Lemma map2_nil_r {A B C} (f : A -> B -> C) l : map2 f l [] = [].
Proof. unfold map2. destruct l; reflexivity. Qed.
Lemma map2_cons {A B C} (f : A -> B -> C) a l b l' :
  map2 f (a :: l) (b :: l') = f a b :: map2 f l l'.
Proof. reflexivity. Qed.

Lemma wsum_nonneg w l : all_nonneg w -> all_nonneg l -> 0 <= qsum (map2 Qmult w l).
Proof.
  revert l; induction w as [|a w IH]; intros l Hw Hl.
  - cbn. lra.
  - destruct l as [|y l]; [rewrite map2_nil_r; cbn; lra|].
    rewrite map2_cons. cbn [qsum fold_right]. fold (qsum (map2 Qmult w l)).
    inversion Hw; subst. inversion Hl; subst. specialize (IH l H2 H4).
    unfold nonneg in *. nra.
Qed.
Lemma wsum_upper hi w l : 0 <= hi -> all_nonneg w -> Forall (fun x => x <= hi) l ->
  qsum (map2 Qmult w l) <= hi * qsum w.
Proof.
  intro Hh. revert l; induction w as [|a w IH]; intros l Hw Hl.
  - cbn. lra.
  - inversion Hw; subst. pose proof (qsum_nonneg w H2) as Hq. destruct l as [|y l].
    + rewrite map2_nil_r. cbn [qsum fold_right]. fold (qsum w). unfold nonneg in *. nra.
    + rewrite map2_cons. cbn [qsum fold_right]. fold (qsum (map2 Qmult w l)). fold (qsum w).
      inversion Hl; subst. specialize (IH l H2 H4). unfold nonneg in *. nra.
Qed.
Lemma wsum_scale c w l : qsum (map2 Qmult w (map (Qmult c) l)) == c * qsum (map2 Qmult w l).
Proof.
  revert l; induction w as [|a w IH]; intros l; [simpl; ring|].
  destruct l as [|y l]; [rewrite !map2_nil_r; simpl; ring|].
  simpl map. rewrite !map2_cons. simpl. rewrite IH. ring.
Qed.
Lemma wsum_scale_w c w l : qsum (map2 Qmult (map (Qmult c) w) l) == c * qsum (map2 Qmult w l).
Proof.
  revert l; induction w as [|a w IH]; intros l; [simpl; ring|].
  destruct l as [|y l]; [rewrite !map2_nil_r; simpl; ring|].
  simpl map. rewrite !map2_cons. simpl. rewrite IH. ring.
Qed.
Lemma wsum_eql w w' l l' : eql w w' -> eql l l' ->
  qsum (map2 Qmult w l) == qsum (map2 Qmult w' l').
Proof.
  intros Hw; revert l l'; induction Hw as [|a a' w w' Ha Hw IH]; intros l l' Hl; [reflexivity|].
  destruct Hl as [|y y' l l' Hy Hl]; [rewrite !map2_nil_r; reflexivity|].
  rewrite !map2_cons. cbn [qsum fold_right].
  fold (qsum (map2 Qmult w l)). fold (qsum (map2 Qmult w' l')).
  rewrite (IH _ _ Hl), Ha, Hy. reflexivity.
Qed.
Lemma wsum_zero w l : Forall (fun x => x == 0) l -> qsum (map2 Qmult w l) == 0.
Proof.
  intros Hl; revert w; induction Hl as [|y l Hy Hl IH]; intros w; [rewrite map2_nil_r; reflexivity|].
  destruct w as [|a w]; [reflexivity|]. rewrite map2_cons. cbn [qsum fold_right].
  fold (qsum (map2 Qmult w l)). rewrite IH, Hy. ring.
Qed.
Lemma wsum_const c n l : length l = n ->
  qsum (map2 Qmult (repeat c n) l) == c * qsum l.
Proof.
  revert l; induction n; intros l Hl; destruct l; try discriminate; simpl repeat.
  - simpl. ring.
  - rewrite map2_cons. simpl. rewrite IHn; [ring | simpl in Hl; lia].
Qed.
Lemma qsum_repeat c n : qsum (repeat c n) == c * inject_Z (Z.of_nat n).
Proof.
  induction n; [simpl; ring|].
  rewrite Nat2Z.inj_succ, <- Z.add_1_r, inject_Z_plus. simpl. rewrite IHn.
  change (inject_Z 1) with 1. ring.
Qed.

Lemma wmean_nonneg w l : all_nonneg w -> all_nonneg l -> 0 <= wmean w l.
Proof.
  intros Hw Hl. apply div_nonneg; [apply wsum_nonneg; assumption | apply qsum_nonneg; assumption].
Qed.
Lemma wmean_upper hi w l : 0 <= hi -> all_nonneg w -> Forall (fun x => x <= hi) l ->
  wmean w l <= hi.
Proof.
  intros Hh Hw Hl. apply div_le_hi; [assumption | apply qsum_nonneg; assumption|].
  apply wsum_upper; assumption.
Qed.
Lemma wmean_zero w l : Forall (fun x => x == 0) l -> wmean w l == 0.
Proof. intro H. unfold wmean. rewrite (wsum_zero _ _ H). unfold Qdiv. ring. Qed.
Lemma wmean_scale c w l : wmean w (map (Qmult c) l) == c * wmean w l.
Proof. unfold wmean. rewrite wsum_scale. unfold Qdiv. ring. Qed.
Lemma wmean_eql w l l' : eql l l' -> wmean w l == wmean w l'.
Proof.
  intro H. unfold wmean. rewrite (wsum_eql w w l l' (eql_refl w) H). reflexivity.
Qed.
(* horizon weights are scale free, and equal weights are no weights *)
Lemma wmean_scale_weights c w l : ~ c == 0 -> wmean (map (Qmult c) w) l == wmean w l.
Proof.
  intro Hc. unfold wmean. rewrite wsum_scale_w, qsum_scale.
  destruct (Qeq_dec (qsum w) 0) as [Z|NZ].
  - rewrite Z. unfold Qdiv. setoid_replace (c * 0) with 0 by ring. change (/ 0) with 0. ring.
  - field. split; assumption.
Qed.
Lemma wmean_equal_weights c l : ~ c == 0 -> wmean (repeat c (length l)) l == mean l.
Proof.
  intro Hc. unfold wmean, mean, qlen. rewrite (wsum_const c (length l) l eq_refl), qsum_repeat.
  destruct l as [|x l].
  - cbn [qsum fold_right length Z.of_nat]. change (inject_Z 0) with 0. unfold Qdiv. ring.
  - field. split; [|assumption]. intro E.
    assert (0 < inject_Z (Z.of_nat (length (x :: l)))) as P.
    { change 0 with (inject_Z 0). rewrite <- Zlt_Qlt. simpl. lia. }
    lra.
Qed.
(* a horizon step with weight zero does not influence a weighted mean *)
Lemma wmean_zero_weight w l x : wmean (0 :: w) (x :: l) == wmean w l.
Proof. unfold wmean. rewrite map2_cons. cbn [qsum fold_right].
  fold (qsum (map2 Qmult w l)). fold (qsum w). unfold Qdiv.
  setoid_replace (0 * x + qsum (map2 Qmult w l)) with (qsum (map2 Qmult w l)) by ring.
  setoid_replace (0 + qsum w) with (qsum w) by ring. reflexivity.
Qed.

(* ---------------------------------------------------------------- sorting and the median *)

Lemma insert_In x l y : In y (insert x l) <-> y = x \/ In y l.
Proof.
  induction l as [|a l IH]; simpl; [intuition congruence|].
  destruct (Qle_bool x a); simpl; [intuition congruence | rewrite IH; intuition congruence].
Qed.
Lemma isort_In l y : In y (isort l) <-> In y l.
Proof.
  induction l as [|a l IH]; simpl; [tauto|]. rewrite insert_In, IH. intuition congruence.
Qed.
Lemma insert_length x l : length (insert x l) = S (length l).
Proof.
  induction l as [|a l IH]; simpl; [reflexivity|]. destruct (Qle_bool x a); simpl; congruence.
Qed.
Lemma isort_length l : length (isort l) = length l.
Proof. induction l; simpl; [reflexivity | rewrite insert_length; congruence]. Qed.
Lemma isort_Forall (P : Q -> Prop) l : Forall P l -> Forall P (isort l).
Proof.
  intro H. apply Forall_forall. intros y Hy. apply (proj1 (isort_In _ _)) in Hy.
  rewrite Forall_forall in H. apply H. exact Hy.
Qed.
Lemma insert_perm x l : Permutation (x :: l) (insert x l).
Proof.
  induction l as [|a l IH]; simpl; [reflexivity|].
  destruct (Qle_bool x a); [reflexivity|].
  rewrite perm_swap. apply perm_skip. assumption.
Qed.
Lemma isort_perm l : Permutation l (isort l).
Proof.
  induction l; simpl; [constructor|]. rewrite <- insert_perm. apply perm_skip. assumption.
Qed.

Lemma insert_scale c x l : 0 < c ->
  insert (c * x) (map (Qmult c) l) = map (Qmult c) (insert x l).
Proof.
  intro Hc. induction l as [|a l IH]; simpl; [reflexivity|].
  rewrite (Qle_bool_scale c x a Hc). destruct (Qle_bool x a); simpl; [reflexivity|].
  rewrite IH. reflexivity.
Qed.
Lemma isort_scale c l : 0 < c -> isort (map (Qmult c) l) = map (Qmult c) (isort l).
Proof.
  intro Hc. induction l; simpl; [reflexivity|]. rewrite IHl, insert_scale; auto.
Qed.
Lemma insert_eql x x' l l' : x == x' -> eql l l' -> eql (insert x l) (insert x' l').
Proof.
  intros Hx H; induction H; simpl; [repeat constructor; assumption|].
  rewrite (Qle_bool_compat x x' x0 y Hx H).
  destruct (Qle_bool x' y); repeat constructor; assumption.
Qed.
Lemma isort_eql l l' : eql l l' -> eql (isort l) (isort l').
Proof. induction 1; simpl; [constructor | apply insert_eql; assumption]. Qed.

Lemma nth_scale c l i : nth i (map (Qmult c) l) 0 == c * nth i l 0.
Proof.
  revert i; induction l; intros [|i]; simpl; try ring. apply IHl.
Qed.

(* sortedness, used to characterise the median as an order statistic *)
Inductive sorted : list Q -> Prop :=
  | sorted_nil : sorted []
  | sorted_cons x l : sorted l -> Forall (fun y => x <= y) l -> sorted (x :: l).
Lemma insert_sorted x l : sorted l -> sorted (insert x l).
Proof.
  induction 1 as [|a l Hs IH Ha]; simpl.
  - constructor; constructor.
  - destruct (Qle_bool x a) eqn:E.
    + apply Qle_bool_iff in E. constructor; [constructor; assumption|].
      constructor; [assumption|]. eapply Forall_impl; [|exact Ha]. simpl. intros. lra.
    + apply Qle_bool_false in E. constructor; [assumption|].
      apply Forall_forall. intros y Hy. apply (proj1 (insert_In _ _ _)) in Hy. destruct Hy as [->|Hy]; [lra|].
      rewrite Forall_forall in Ha. apply Ha. exact Hy.
Qed.
Lemma isort_sorted l : sorted (isort l).
Proof. induction l; simpl; [constructor | apply insert_sorted; assumption]. Qed.

Lemma median_nonneg l : all_nonneg l -> 0 <= median l.
Proof.
  intro H. unfold median. pose proof (isort_Forall _ _ H) as Hs.
  assert (forall i, 0 <= nth i (isort l) 0) as N.
  { intro i. apply (Forall_nth nonneg); [assumption | unfold nonneg; lra]. }
  destruct (Nat.even _).
  - pose proof (N (length (isort l) / 2 - 1)%nat). pose proof (N (length (isort l) / 2)%nat).
    apply div_nonneg; lra.
  - apply N.
Qed.
Lemma median_upper hi l : 0 <= hi -> Forall (fun x => x <= hi) l -> median l <= hi.
Proof.
  intros Hh H. unfold median. pose proof (isort_Forall _ _ H) as Hs.
  assert (forall i, nth i (isort l) 0 <= hi) as N.
  { intro i. apply (Forall_nth (fun x => x <= hi)); assumption. }
  destruct (Nat.even _).
  - pose proof (N (length (isort l) / 2 - 1)%nat). pose proof (N (length (isort l) / 2)%nat).
    apply Qle_shift_div_r; lra.
  - apply N.
Qed.
Lemma median_zero l : Forall (fun x => x == 0) l -> median l == 0.
Proof.
  intro H. unfold median. pose proof (isort_Forall _ _ H) as Hs.
  assert (forall i, nth i (isort l) 0 == 0) as N.
  { intro i. apply (Forall_nth (fun x => x == 0)); [assumption | reflexivity]. }
  destruct (Nat.even _); [rewrite !N; reflexivity | apply N].
Qed.
Lemma median_scale c l : 0 < c -> median (map (Qmult c) l) == c * median l.
Proof.
  intro Hc. unfold median. rewrite (isort_scale c l Hc), map_length.
  destruct (Nat.even _); rewrite ?nth_scale; [field | reflexivity].
Qed.
Lemma median_eql l l' : eql l l' -> median l == median l'.
Proof.
  intro H. unfold median. pose proof (isort_eql _ _ H) as Hs.
  rewrite (eql_length _ _ Hs).
  destruct (Nat.even _); rewrite ?(eql_nth _ _ _ Hs); reflexivity.
Qed.

(* ---------------------------------------------------------------- weighted percentile *)

Definition peq (p q : Q * Q) : Prop := fst p == fst q /\ snd p == snd q.
Notation eqlp := (Forall2 peq).

Lemma pinsert_In x l y : In y (pinsert x l) <-> y = x \/ In y l.
Proof.
  induction l as [|a l IH]; simpl; [intuition congruence|].
  destruct (Qle_bool (fst x) (fst a)); simpl; [intuition congruence | rewrite IH; intuition congruence].
Qed.
Lemma psort_In l y : In y (psort l) <-> In y l.
Proof.
  induction l as [|a l IH]; simpl; [tauto|]. rewrite pinsert_In, IH. intuition congruence.
Qed.
Lemma pinsert_perm x l : Permutation (x :: l) (pinsert x l).
Proof.
  induction l as [|a l IH]; simpl; [reflexivity|].
  destruct (Qle_bool (fst x) (fst a)); [reflexivity|].
  rewrite perm_swap. apply perm_skip. assumption.
Qed.
Lemma psort_perm l : Permutation l (psort l).
Proof.
  induction l; simpl; [constructor|]. rewrite <- pinsert_perm. apply perm_skip. assumption.
Qed.

Definition pscale (c : Q) (p : Q * Q) : Q * Q := (c * fst p, snd p).
Lemma pinsert_scale c x l : 0 < c ->
  pinsert (pscale c x) (map (pscale c) l) = map (pscale c) (pinsert x l).
Proof.
  intro Hc. induction l as [|a l IH]; simpl; [reflexivity|].
  rewrite (Qle_bool_scale c (fst x) (fst a) Hc).
  destruct (Qle_bool (fst x) (fst a)); simpl; [reflexivity|]. rewrite IH. reflexivity.
Qed.
Lemma psort_scale c l : 0 < c -> psort (map (pscale c) l) = map (pscale c) (psort l).
Proof.
  intro Hc. induction l; simpl; [reflexivity|]. rewrite IHl, pinsert_scale; auto.
Qed.
Lemma combine_scale c l w : combine (map (Qmult c) l) w = map (pscale c) (combine l w).
Proof.
  revert w; induction l; intros [|b w]; simpl; try reflexivity. rewrite IHl. reflexivity.
Qed.
Lemma map_snd_pscale c l : map snd (map (pscale c) l) = map snd l.
Proof. rewrite map_map. apply map_ext. reflexivity. Qed.

Lemma wpick_scale c t acc l d :
  wpick t acc (map (pscale c) l) (c * d) == c * wpick t acc l d.
Proof.
  revert acc d; induction l as [|[v w] l IH]; intros acc d; simpl; [reflexivity|].
  destruct (reach t (acc + w)); [reflexivity | apply IH].
Qed.

Lemma wpick_dflt t acc l d d' : d == d' -> wpick t acc l d == wpick t acc l d'.
Proof. destruct l as [|[v x] l]; simpl; intro H; [assumption | reflexivity]. Qed.

Lemma wpercentile_scale c w l : 0 < c -> wpercentile w (map (Qmult c) l) == c * wpercentile w l.
Proof.
  intro Hc. unfold wpercentile.
  rewrite combine_scale, (psort_scale c _ Hc), map_snd_pscale.
  set (s := psort (combine l w)). set (t := qsum (map snd s) * (1 # 2)).
  rewrite (wpick_dflt t 0 (map (pscale c) s) 0 (c * 0)) by ring. apply wpick_scale.
Qed.

Lemma wpick_In t acc l d : wpick t acc l d = d \/ In (wpick t acc l d) (map fst l).
Proof.
  revert acc d; induction l as [|[v w] l IH]; intros acc d; simpl; [left; reflexivity|].
  destruct (reach t (acc + w)); [right; left; reflexivity|].
  destruct (IH (acc + w) v) as [E|E]; [right; left; symmetry; exact E | right; right; exact E].
Qed.

Lemma in_combine_fst (l w : list Q) v : In v (map fst (combine l w)) -> In v l.
Proof.
  intro H. apply in_map_iff in H. destruct H as [[a b] [E H]]. simpl in E. subst.
  eapply in_combine_l. exact H.
Qed.

Lemma wpercentile_In w l : wpercentile w l = 0 \/ In (wpercentile w l) l.
Proof.
  unfold wpercentile.
  destruct (wpick_In (qsum (map snd (psort (combine l w))) * (1 # 2)) 0 (psort (combine l w)) 0)
    as [E|E]; [left; exact E | right].
  apply in_map_iff in E. destruct E as [[a b] [E H]]. simpl in E. rewrite <- E.
  apply (proj1 (psort_In _ _)) in H. eapply in_combine_l. exact H.
Qed.
Lemma wpercentile_Forall (P : Q -> Prop) w l : Forall P l -> P 0 -> P (wpercentile w l).
Proof.
  intros H H0. destruct (wpercentile_In w l) as [E|E]; [rewrite E; assumption|].
  rewrite Forall_forall in H. apply H. exact E.
Qed.

Lemma reach_compat t t' c c' : t == t' -> c == c' -> reach t c = reach t' c'.
Proof.
  intros Ht Hc. unfold reach. rewrite (Qeq_bool_compat t t' 0 0 Ht (Qeq_refl 0)).
  destruct (Qeq_bool t' 0); [apply qltb_compat | apply Qle_bool_compat]; auto; reflexivity.
Qed.
Lemma wpick_eql t t' acc acc' l l' d d' :
  t == t' -> acc == acc' -> eqlp l l' -> d == d' -> wpick t acc l d == wpick t' acc' l' d'.
Proof.
  intros Ht Ha H; revert acc acc' d d' Ha; induction H as [|[v w] [v' w'] l l' [Hv Hw] H IH];
    intros acc acc' d d' Ha Hd; simpl; [assumption|]. simpl in Hv, Hw.
  assert (acc + w == acc' + w') as Hs by (rewrite Ha, Hw; reflexivity).
  rewrite (reach_compat t t' _ _ Ht Hs). destruct (reach t' (acc' + w')); [assumption|].
  apply IH; assumption.
Qed.
Lemma pinsert_eql x x' l l' : peq x x' -> eqlp l l' -> eqlp (pinsert x l) (pinsert x' l').
Proof.
  intros Hx H; induction H as [|a a' l l' Ha H IH]; simpl;
    [constructor; [assumption | constructor]|].
  rewrite (Qle_bool_compat (fst x) (fst x') (fst a) (fst a') (proj1 Hx) (proj1 Ha)).
  destruct (Qle_bool (fst x') (fst a')).
  - constructor; [assumption|]. constructor; assumption.
  - constructor; assumption.
Qed.
Lemma psort_eql l l' : eqlp l l' -> eqlp (psort l) (psort l').
Proof. induction 1; simpl; [constructor | apply pinsert_eql; assumption]. Qed.
Lemma combine_eql l l' w : eql l l' -> eqlp (combine l w) (combine l' w).
Proof.
  intros H; revert w; induction H; intros [|b w]; simpl; constructor; auto.
  split; simpl; [assumption | reflexivity].
Qed.
Lemma eqlp_snd l l' : eqlp l l' -> eql (map snd l) (map snd l').
Proof. induction 1; simpl; constructor; [apply H | assumption]. Qed.

Lemma wpercentile_eql w l l' : eql l l' -> wpercentile w l == wpercentile w l'.
Proof.
  intro H. unfold wpercentile.
  pose proof (psort_eql _ _ (combine_eql _ _ w H)) as Hs.
  apply wpick_eql; try reflexivity; [|assumption].
  rewrite (qsum_eql _ _ (eqlp_snd _ _ Hs)). reflexivity.
Qed.

(* the weights only matter up to a common positive factor *)
Definition pscale_w (c : Q) (p : Q * Q) : Q * Q := (fst p, c * snd p).
Lemma pinsert_scale_w c x l :
  pinsert (pscale_w c x) (map (pscale_w c) l) = map (pscale_w c) (pinsert x l).
Proof.
  induction l as [|a l IH]; simpl; [reflexivity|].
  destruct (Qle_bool (fst x) (fst a)); simpl; [reflexivity|]. rewrite IH. reflexivity.
Qed.
Lemma psort_scale_w c l : psort (map (pscale_w c) l) = map (pscale_w c) (psort l).
Proof. induction l; simpl; [reflexivity|]. rewrite IHl, pinsert_scale_w; auto. Qed.
Lemma combine_scale_w c l w : combine l (map (Qmult c) w) = map (pscale_w c) (combine l w).
Proof.
  revert w; induction l; intros [|b w]; simpl; try reflexivity. rewrite IHl. reflexivity.
Qed.
Lemma reach_scale c t a : 0 < c -> reach (c * t) (c * a) = reach t a.
Proof.
  intro Hc. unfold reach.
  assert (Qeq_bool (c * t) 0 = Qeq_bool t 0) as E.
  { destruct (Qeq_bool t 0) eqn:E0.
    - apply Qeq_bool_iff in E0. apply Qeq_bool_iff. rewrite E0. ring.
    - apply Qeq_bool_neq in E0. destruct (Qeq_bool (c * t) 0) eqn:E1; [|reflexivity].
      apply Qeq_bool_iff in E1. exfalso. apply E0. nra. }
  rewrite E. destruct (Qeq_bool t 0).
  - destruct (qltb 0 a) eqn:F.
    + apply qltb_true in F. apply qltb_true. nra.
    + apply qltb_false in F. apply qltb_false. nra.
  - apply Qle_bool_scale. assumption.
Qed.
Lemma wpick_scale_w c t acc acc' l d : 0 < c -> acc' == c * acc ->
  wpick (c * t) acc' (map (pscale_w c) l) d == wpick t acc l d.
Proof.
  intro Hc. revert acc acc' d; induction l as [|[v w] l IH]; intros acc acc' d Ha; simpl;
    [reflexivity|].
  assert (reach (c * t) (acc' + c * w) = reach t (acc + w)) as E.
  { rewrite <- (reach_scale c t (acc + w) Hc). apply reach_compat; [reflexivity | rewrite Ha; ring]. }
  rewrite E. destruct (reach t (acc + w)); [reflexivity|]. apply IH. rewrite Ha; ring.
Qed.
Lemma eqlp_refl l : eqlp l l.
Proof. induction l; constructor; [split; reflexivity | assumption]. Qed.
Lemma map_snd_pscale_w c l : map snd (map (pscale_w c) l) = map (Qmult c) (map snd l).
Proof. rewrite !map_map. apply map_ext. reflexivity. Qed.
Lemma wpercentile_scale_weights c w l : 0 < c ->
  wpercentile (map (Qmult c) w) l == wpercentile w l.
Proof.
  intro Hc. unfold wpercentile.
  rewrite combine_scale_w, psort_scale_w, map_snd_pscale_w.
  set (s := psort (combine l w)).
  rewrite <- (wpick_scale_w c (qsum (map snd s) * (1 # 2)) 0 0 s 0 Hc) by ring.
  apply wpick_eql; try reflexivity; [|apply eqlp_refl].
  rewrite qsum_scale. ring.
Qed.

(* ---------------------------------------------------------------- what the weighted percentile is *)

Inductive psorted : list (Q * Q) -> Prop :=
  | psorted_nil : psorted []
  | psorted_cons x l : psorted l -> Forall (fun y => fst x <= fst y) l -> psorted (x :: l).
Lemma pinsert_sorted x l : psorted l -> psorted (pinsert x l).
Proof.
  induction 1 as [|a l Hs IH Ha]; simpl.
  - constructor; constructor.
  - destruct (Qle_bool (fst x) (fst a)) eqn:E.
    + apply Qle_bool_iff in E. constructor; [constructor; assumption|].
      constructor; [assumption|]. eapply Forall_impl; [|exact Ha]. simpl. intros. lra.
    + apply Qle_bool_false in E. constructor; [assumption|].
      apply Forall_forall. intros y Hy. apply (proj1 (pinsert_In _ _ _)) in Hy.
      destruct Hy as [->|Hy]; [lra|]. rewrite Forall_forall in Ha. apply Ha. exact Hy.
Qed.
Lemma psort_sorted l : psorted (psort l).
Proof. induction l; simpl; [constructor | apply pinsert_sorted; assumption]. Qed.

Lemma reach_pos t c : 0 < t -> reach t c = Qle_bool t c.
Proof.
  intro H. unfold reach. destruct (Qeq_bool t 0) eqn:E; [|reflexivity].
  apply Qeq_bool_iff in E. lra.
Qed.

Lemma wpick_spec t : 0 < t -> forall l acc d, acc < t -> t <= acc + qsum (map snd l) ->
  exists l1 v wv l2, l = l1 ++ (v, wv) :: l2 /\ wpick t acc l d = v /\
    acc + qsum (map snd l1) < t /\ t <= acc + qsum (map snd l1) + wv.
Proof.
  intros Ht. induction l as [|[v w] l IH]; intros acc d Ha Hs.
  - cbn in Hs. lra.
  - cbn [wpick]. rewrite (reach_pos t _ Ht). cbn [map snd qsum fold_right] in Hs.
    fold (qsum (map snd l)) in Hs. destruct (Qle_bool t (acc + w)) eqn:E.
    + apply Qle_bool_iff in E. exists [], v, w, l. cbn [app map qsum fold_right].
      split; [reflexivity|]. split; [reflexivity|]. split; lra.
    + apply Qle_bool_false in E.
      destruct (IH (acc + w) v E ltac:(lra)) as (l1 & v' & wv & l2 & El & Hp & H1 & H2).
      subst l. exists ((v, w) :: l1), v', wv, l2. cbn [app map snd qsum fold_right].
      fold (qsum (map snd l1)). split; [reflexivity|]. split; [exact Hp|]. split; lra.
Qed.

Lemma map_snd_combine (l w : list Q) : length w = length l -> map snd (combine l w) = w.
Proof.
  revert w; induction l as [|x l IH]; intros [|y w] H; simpl in *; try discriminate;
    [reflexivity|]. rewrite IH; [reflexivity | lia].
Qed.

(* sklearn's weighted median is the LOWER weighted median: in value order, the first element at
   which the cumulative weight reaches half of the total weight *)
Theorem wpercentile_spec w l : length w = length l -> 0 < qsum w ->
  exists s1 v wv s2,
    Permutation (combine l w) (s1 ++ (v, wv) :: s2) /\ psorted (s1 ++ (v, wv) :: s2) /\
    wpercentile w l = v /\
    qsum (map snd s1) < qsum w * (1 # 2) /\ qsum w * (1 # 2) <= qsum (map snd s1) + wv.
Proof.
  intros Hlen Hpos. unfold wpercentile. set (s := psort (combine l w)).
  assert (qsum (map snd s) == qsum w) as ET.
  { unfold s. rewrite <- (qsum_perm _ _ (Permutation_map snd (psort_perm (combine l w)))).
    rewrite map_snd_combine by assumption. reflexivity. }
  destruct (wpick_spec (qsum (map snd s) * (1 # 2)) ltac:(lra) s 0 0 ltac:(lra) ltac:(lra))
    as (s1 & v & wv & s2 & Es & Hp & H1 & H2).
  exists s1, v, wv, s2. rewrite <- Es. split; [apply psort_perm|]. split; [apply psort_sorted|].
  split; [exact Hp|]. split; lra.
Qed.

(* np.median: the middle order statistic (mean of the two middle ones for an even count) *)
Theorem median_spec l : exists s, Permutation l s /\ sorted s /\
  median l = (let n := length l in
              if Nat.even n then (nth (n / 2 - 1) s 0 + nth (n / 2) s 0) / 2 else nth (n / 2) s 0).
Proof.
  exists (isort l). split; [apply isort_perm|]. split; [apply isort_sorted|].
  unfold median. rewrite isort_length. reflexivity.
Qed.
