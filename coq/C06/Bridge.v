(* C06 bridge: what the translator regenerated from _functions.py on this run (Gen.v) is the
   hand-written textbook model, for all arguments. *)
From Coq Require Import QArith Qabs List Bool ZArith String.
Require Import SkV.C06.Model SkV.C06.Gen SkV.C06.Wrap SkV.C06.WrapSem SkV.C06.GenWrap.
Import ListNotations.
Open Scope Q_scope.

(* the per-step loss each function computes (all private helpers inlined, whatever they are called
   and wherever they live) is the loss of the structure claimed for it in gen_struct - hence, with
   gen_struct_eq below, the published point loss: percentage error with symmetric switch and EPS
   clamp, relative error with signed EPS clamp, asymmetric threshold switch, absolute / squared *)
Theorem gen_point_eq : forall n o t p bn e, gen_point n o t p bn = Some e ->
  match fam (gen_struct n o) with
  | FSimple b k _ => e = point1 b k t p bn
  | _ => False
  end.
Proof.
  intros n o t p bn e H. destruct o as [sym rt sp thr lf rf rk ra].
  destruct n; cbn in H; try discriminate H; injection H as <-; cbn;
    try reflexivity; destruct sym; reflexivity.
Qed.

(* ... and the model's loss vectors are exactly that loss applied per horizon step *)
Theorem pt_is_pointwise : forall b k c,
  pt b k c = match b with
             | BRel => map3 (point1 b k) (c_true c) (c_pred c) (c_bench c)
             | _ => map2 (fun t p => point1 b k t p 0) (c_true c) (c_pred c)
             end.
Proof.
  intros b k c. destruct b; unfold pt, base_errs, map2, map3, point1, base1;
    rewrite map_map; reflexivity.
Qed.

(* every public function has the structure of its published definition *)
Theorem gen_struct_eq : forall n o, gen_struct n o = textbook n o.
Proof. intros n o. destruct n; reflexivity. Qed.

Theorem gen_defaults_eq : forall n, gen_defaults n = documented_defaults n.
Proof. intros n. destruct n; reflexivity. Qed.

(* the regenerated class table covers the 18 functions, each class wrapping the function whose
   signature was extracted for it *)
Theorem gen_wrappers_cover :
  List.length gen_wrappers = 18%nat /\
  forallb (fun ws => String.eqb (w_func (fst ws)) (s_name (snd ws))) gen_wrappers = true.
Proof. split; vm_compute; reflexivity. Qed.

(* the rows of gen_struct / gen_defaults were read from the functions of these names *)
Theorem gen_fname_eq : forall n, gen_fname n = fname n.
Proof. intros n. destruct n; reflexivity. Qed.

(* every class of the regenerated table is a well-formed wrapper: its __call__ accepts the extra
   series if its function needs one, every attribute it reads was stored by the constructor, and
   every constructor argument reaches the function under its own name *)
Theorem gen_wrappers_all_ok :
  forallb (fun ws => wrapper_ok (fst ws) (snd ws)) gen_wrappers = true.
Proof. vm_compute. reflexivity. Qed.

(* ... and every function is wrapped exactly once *)
Theorem gen_wrappers_one_class_per_function :
  forallb (fun n => Nat.eqb (List.length (filter (fun ws => String.eqb (s_name (snd ws)) (fname n))
                                                 gen_wrappers)) 1) all_mnames = true.
Proof. vm_compute. reflexivity. Qed.

(* what a class computes: for every class of the table and every choice `user` of option values,
   the class constructed with them and called with the series its function needs evaluates the
   published formula of that function under exactly these options (options the formula does not
   depend on are irrelevant).  gen_defaults are the regenerated defaults of the function: they
   fill the options that are not forwarded - the theorem says there is no such option that
   matters. *)
Ltac class_row :=
  let user := fresh "user" in
  eexists; split; [vm_compute; reflexivity|]; intro user; destruct user;
  vm_compute; reflexivity.

Theorem gen_class_metric_eq : forall w s, In (w, s) gen_wrappers ->
  exists n, mname_of (s_name s) = Some n /\
    forall user, class_metric gen_defaults w s user = Some (textbook n user).
Proof.
  intros w s H. unfold gen_wrappers in H.
  repeat (destruct H as [H|H]; [injection H as <- <-; class_row|]).
  contradiction.
Qed.

(* a default-constructed class uses the defaults of its function *)
Theorem gen_ctor_defaults_agree :
  List.length gen_ctor_defaults = 18%nat /\
  forallb (fun row => match mname_of (snd (fst row)) with
                      | Some n => defaults_agree (gen_defaults n) (snd row)
                      | None => false
                      end) gen_ctor_defaults = true /\
  map (fun row => (fst (fst row), snd (fst row))) gen_ctor_defaults =
  map (fun ws => (w_class (fst ws), w_func (fst ws))) gen_wrappers /\
  forallb (fun p => Nat.eqb (List.length (snd (fst p))) (List.length (w_ctor (fst (snd p)))))
          (combine gen_ctor_defaults gen_wrappers) = true.
Proof. repeat split; vm_compute; reflexivity. Qed.

(* ---------------------------------------------------------------- consequences, in the form the
   property states them *)

Lemma in_gen_wrappers_ok w s : In (w, s) gen_wrappers -> wrapper_ok w s = true.
Proof.
  intro H. pose proof gen_wrappers_all_ok as A. rewrite forallb_forall in A.
  exact (A (w, s) H).
Qed.

Theorem class_eq_function : forall w s, In (w, s) gen_wrappers ->
  exists b, class_call w s (s_series s) = Calls (s_name s) b /\
            same_bindings b (same_options w) = true.
Proof. intros w s H. apply wrapper_ok_sound. apply in_gen_wrappers_ok. exact H. Qed.

Theorem class_metric_is_textbook : forall w s, In (w, s) gen_wrappers ->
  exists n, fname n = s_name s /\
    forall user, class_metric gen_defaults w s user = Some (textbook n user).
Proof.
  intros w s H. destruct (gen_class_metric_eq w s H) as [n [Hn Hu]].
  exists n. split; [apply mname_of_sound; exact Hn | exact Hu].
Qed.

(* the extra series: exactly the ones the function requires *)
Theorem class_series_required : forall w s given, In (w, s) gen_wrappers ->
  subset given (s_series s) && subset (s_series s) given = false -> class_call w s given = TypeErr.
Proof.
  intros w s given Hin H. apply in_gen_wrappers_ok in Hin. unfold wrapper_ok in Hin.
  unfold class_call.
  destruct (negb (w_call_kwargs w) && negb match given with [] => true | _ => false end);
    [reflexivity|].
  destruct (read_attrs (w_attrs w) (w_forwards w)) as [b|].
  - destruct (negb (subset (map fst b) (s_opts s))); [reflexivity|].
    destruct (subset given (s_series s)); simpl in *; [rewrite H; reflexivity | reflexivity].
  - rewrite andb_false_r in Hin. discriminate.
Qed.

Theorem ctor_defaults_documented : forall cls f cd, In (cls, f, cd) gen_ctor_defaults ->
  exists n, fname n = f /\ defaults_agree (documented_defaults n) cd = true.
Proof.
  intros cls f cd H. destruct gen_ctor_defaults_agree as [_ [A _]].
  rewrite forallb_forall in A. specialize (A _ H). simpl in A.
  destruct (mname_of f) as [n|] eqn:E; [|discriminate].
  exists n. split; [apply mname_of_sound; exact E|]. rewrite <- gen_defaults_eq. exact A.
Qed.

Lemma in_all_mnames n : In n all_mnames.
Proof. destruct n; simpl; tauto. Qed.

Theorem every_function_has_a_class :
  List.length gen_wrappers = 18%nat /\
  forallb (fun ws => String.eqb (w_func (fst ws)) (s_name (snd ws))) gen_wrappers = true /\
  forall n, exists w s, In (w, s) gen_wrappers /\ s_name s = fname n.
Proof.
  destruct gen_wrappers_cover as [L F]. split; [exact L | split; [exact F|]].
  assert (forallb (fun n => existsb (fun ws => String.eqb (s_name (snd ws)) (fname n)) gen_wrappers)
                  all_mnames = true) as A by (vm_compute; reflexivity).
  rewrite forallb_forall in A. intro n. specialize (A n (in_all_mnames n)).
  apply existsb_exists in A. destruct A as [[w s] [Hin He]].
  exists w, s. split; [exact Hin | apply String.eqb_eq; exact He].
Qed.
