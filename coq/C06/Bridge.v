(* C06 bridge: what the translator regenerated from _functions.py on this run (Gen.v) is the
   hand-written textbook model, for all arguments. *)
From Coq Require Import QArith Qabs List Bool ZArith.
Require Import SkV.C06.Model SkV.C06.Gen SkV.C06.Wrap SkV.C06.GenWrap.
Import ListNotations.
Open Scope Q_scope.

Theorem gen_percentage_error_eq : forall t p s, gen_percentage_error t p s = pct_err s t p.
Proof. intros t p s. destruct s; reflexivity. Qed.

Theorem gen_relative_error_eq : forall t p b, gen_relative_error t p b = rel_err t p b.
Proof. intros. reflexivity. Qed.

Theorem gen_asymmetric_error_eq : forall t p thr l r,
  gen_asymmetric_error t p thr l r = pwf (PAsym thr l r) (t - p).
Proof. intros. reflexivity. Qed.

(* every public function has the structure of its published definition *)
Theorem gen_struct_eq : forall n o, gen_struct n o = textbook n o.
Proof. intros n o. destruct n; reflexivity. Qed.

Theorem gen_defaults_eq : forall n, gen_defaults n = documented_defaults n.
Proof. intros n. destruct n; reflexivity. Qed.

(* the regenerated class table covers the 18 functions, each class wrapping the function whose
   signature was extracted for it *)
Theorem gen_wrappers_cover :
  length gen_wrappers = 18%nat /\
  forallb (fun ws => String.eqb (w_func (fst ws)) (s_name (snd ws))) gen_wrappers = true.
Proof. split; vm_compute; reflexivity. Qed.
