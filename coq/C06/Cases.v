(* C06 correspondence: each case carries the inputs AND the implementation's outputs:
     val  - what the function returned (a scalar is a one-element list)
     wit  - the implementation's own per-output values after the root (the same call with
            multioutput='raw_values'; equal to val for scaled / relative-loss metrics), used only
            when the metric takes a square root / geometric mean: the model checks that they ARE
            the roots (wit_j >= 0 and wit_j ^ deg ~ pre_j) and that val ~ post(wit).
   Floats are compared in Q with relative tolerance 1e-9. *)
From Coq Require Import QArith Qabs List Bool ZArith String.
Require Import SkV.C06.Model SkV.C06.Wrap.
Import ListNotations.
Open Scope Q_scope.

Definition tol : Q := 1 # 1000000000.

Definition approx (a b : Q) : bool :=
  Qle_bool (Qabs (Qred (a - b))) (tol * qmax (Qabs a) (Qabs b)).

Fixpoint approx_list (a b : list Q) : bool :=
  match a, b with
  | [], [] => true
  | x :: a', y :: b' => approx x y && approx_list a' b'
  | _, _ => false
  end.

Fixpoint roots_ok (deg : Z) (wit pre : list Q) : bool :=
  match wit, pre with
  | [], [] => true
  | s :: w', x :: p' => Qle_bool 0 s && approx (Qpower s deg) x && roots_ok deg w' p'
  | _, _ => false
  end.

Record vcase := mkcase {
  k_name : mname; k_opts : opts; k_mo : mout; k_hw : option (list Q); k_cols : list col;
  k_val : list Q; k_wit : list Q }.

Definition fcase_of (c : vcase) : fcase :=
  mkfcase (textbook (k_name c) (k_opts c)) (k_mo c) (k_hw c) (k_cols c).

Definition uses_gmean (c : fcase) : bool :=
  match fam_agg (fam (f_m c)) with GMean => true | _ => false end.

Definition check_value (c : vcase) : bool :=
  let fc := fcase_of c in
  let pre := pre_values fc in
  let deg := root_deg fc in
  (if uses_gmean fc then gm_weights_ok (f_hw fc) else true) &&
  if Z.eqb deg 1 then approx_list (post fc pre) (k_val c)
  else roots_ok deg (k_wit c) pre && approx_list (post fc (k_wit c)) (k_val c).

(* what the model says, for replay files *)
Definition model_says (c : vcase) := (root_deg (fcase_of c), pre_values (fcase_of c)).

(* what a class did when called: the two exception families of the findings, anything else, or a
   value together with whether it was identical to what the function returned *)
Inductive obs := ObsTypeErr | ObsAttrErr | ObsOther | ObsValue (same_as_function : bool).

Inductive case :=
  | CFunc (c : vcase)
  (* a class call: the wrapper facts extracted from _classes.py, the extra series passed *)
  | CClass (w : wrapper) (s : fsig) (given : list string) (o : obs)
  | CPair (a b : case).

Definition check_class (w : wrapper) (s : fsig) (given : list string) (o : obs) : bool :=
  match class_call w s given, o with
  | TypeErr, ObsTypeErr => true
  | AttrErr, ObsAttrErr => true
  | Calls f b, ObsValue same =>
      (* bindings as the user wrote them => identical to the function; otherwise the class may
         still agree on this particular input *)
      if same_bindings b (same_options w) && String.eqb f (s_name s) then same else true
  | _, _ => false
  end.

Fixpoint check (c : case) : bool :=
  match c with
  | CFunc v => check_value v
  | CClass w s given o => check_class w s given o
  | CPair a b => check a && check b
  end.

Fixpoint mism (cs : list (Z * case)) : list Z :=
  match cs with
  | [] => []
  | (i, c) :: t => if check c then mism t else i :: mism t
  end.
