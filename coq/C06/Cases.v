(* C06 correspondence: each case carries the inputs AND the implementation's outputs:
     val  - what the function returned (a scalar is a one-element list)
     wit  - the implementation's own per-output values after the root (the same call with
            multioutput='raw_values'; equal to val for scaled / relative-loss metrics), used only
            when the metric takes a square root / geometric mean: the model checks that they ARE
            the roots (wit_j >= 0 and wit_j ^ deg ~ pre_j) and that val ~ post(wit).
   Floats are compared in Q with relative tolerance 1e-9. *)
From Coq Require Import QArith Qabs List Bool ZArith.
Require Import SkV.C06.Model.
Import ListNotations.
Open Scope Q_scope.

Definition tol : Q := 1 # 1000000000.

Definition approx (a b : Q) : bool :=
  Qle_bool (Qabs (Qred (a - b))) (tol * qmax (Qabs a) (Qabs b)).

Fixpoint approx_list (a b : list Q) : bool :=
  match a, b with
  | [], [] => true
  | x :: a', y :: b' => approx x y && approx_list a' b'
  | _, _ => false
  end.

Fixpoint roots_ok (deg : Z) (wit pre : list Q) : bool :=
  match wit, pre with
  | [], [] => true
  | s :: w', x :: p' => Qle_bool 0 s && approx (Qpower s deg) x && roots_ok deg w' p'
  | _, _ => false
  end.

Record case := mkcase {
  k_name : mname; k_opts : opts; k_mo : mout; k_hw : option (list Q); k_cols : list col;
  k_val : list Q; k_wit : list Q }.

Definition fcase_of (c : case) : fcase :=
  mkfcase (textbook (k_name c) (k_opts c)) (k_mo c) (k_hw c) (k_cols c).

Definition uses_gmean (c : fcase) : bool :=
  match fam_agg (fam (f_m c)) with GMean => true | _ => false end.

Definition check (c : case) : bool :=
  let fc := fcase_of c in
  let pre := pre_values fc in
  let deg := root_deg fc in
  (if uses_gmean fc then gm_weights_ok (f_hw fc) else true) &&
  if Z.eqb deg 1 then approx_list (post fc pre) (k_val c)
  else roots_ok deg (k_wit c) pre && approx_list (post fc (k_wit c)) (k_val c).

(* what the model says, for replay files *)
Definition model_says (c : case) := (root_deg (fcase_of c), pre_values (fcase_of c)).

Fixpoint mism (cs : list (Z * case)) : list Z :=
  match cs with
  | [] => []
  | (i, c) :: t => if check c then mism t else i :: mism t
  end.
