(* C06: horizon weights of the geometric-mean metrics.

   The model represents the weighted geometric mean  exp(sum w_i log x_i / sum w_i)  by integer
   weights W proportional to w: the value s >= 0 is characterised by  s ^ (sum W) == prod x_i ^ W_i.
   This file proves that the characterisation does not depend on WHICH proportional integer weights
   are used, and from that the two horizon-weight laws for geometric means: rescaling all weights
   by c > 0 changes nothing, and equal weights are no weights. *)
From Coq Require Import QArith Qabs Qpower List Bool ZArith Lia Lqa.
Require Import SkV.C06.Model SkV.C06.Agg SkV.C06.Proofs.
Import ListNotations.
Open Scope Q_scope.

(* ---------------------------------------------------------------- integer weights *)

Lemma lcm_den_pos w : (0 < lcm_den w)%Z.
Proof.
  induction w as [|q w IH]; simpl; [lia|].
  pose proof (Z.lcm_nonneg (Zpos (Qden q)) (lcm_den w)) as N.
  assert (Z.lcm (Zpos (Qden q)) (lcm_den w) <> 0)%Z as NZ.
  { intro E. apply Z.lcm_eq_0 in E. destruct E; lia. }
  lia.
Qed.

Lemma lcm_den_divide w q : In q w -> (Zpos (Qden q) | lcm_den w)%Z.
Proof.
  induction w as [|x w IH]; simpl; [tauto|]. intros [->|H].
  - apply Z.divide_lcm_l.
  - eapply Z.divide_trans; [apply IH; exact H | apply Z.divide_lcm_r].
Qed.

(* W_q * den q = num q * D : the integer weights are the rational weights times D *)
Lemma int_weight_spec w q : In q w ->
  (Qnum q * (lcm_den w / Zpos (Qden q)) * Zpos (Qden q) = Qnum q * lcm_den w)%Z.
Proof.
  intro H. destruct (lcm_den_divide w q H) as [k Hk]. rewrite Hk.
  rewrite Z.div_mul by lia. ring.
Qed.

(* rescaled rational weights have proportional integer weights *)
Lemma int_weights_scale c w : 0 < c ->
  exists a b, (0 < a)%Z /\ (0 < b)%Z /\
    map (Z.mul a) (int_weights (map (Qmult c) w)) = map (Z.mul b) (int_weights w).
Proof.
  intro Hc. assert (0 < Qnum c)%Z as Hn by (unfold Qlt in Hc; simpl in Hc; lia).
  set (D := lcm_den w). set (D' := lcm_den (map (Qmult c) w)).
  exists (D * Zpos (Qden c))%Z, (Qnum c * D')%Z.
  pose proof (lcm_den_pos w). pose proof (lcm_den_pos (map (Qmult c) w)).
  split; [unfold D; lia|]. split; [unfold D'; lia|].
  unfold int_weights. fold D D'. rewrite !map_map. apply map_ext_in. intros q Hq.
  pose proof (int_weight_spec w q Hq) as H2. fold D in H2.
  assert (In (c * q) (map (Qmult c) w)) as Hq' by (apply in_map; exact Hq).
  pose proof (int_weight_spec _ _ Hq') as H1. fold D' in H1.
  set (W' := (Qnum (c * q) * (D' / Zpos (Qden (c * q))))%Z) in *.
  set (W := (Qnum q * (D / Zpos (Qden q)))%Z) in *.
  change (Qnum (c * q)) with (Qnum c * Qnum q)%Z in H1.
  change (Zpos (Qden (c * q))) with (Zpos (Qden c) * Zpos (Qden q))%Z in H1.
  apply (Z.mul_reg_r _ _ (Zpos (Qden q))); [lia|].
  replace (D * Zpos (Qden c) * W' * Zpos (Qden q))%Z
    with (D * (W' * (Zpos (Qden c) * Zpos (Qden q))))%Z by ring.
  rewrite H1.
  replace (Qnum c * D' * W * Zpos (Qden q))%Z with (Qnum c * D' * (W * Zpos (Qden q)))%Z by ring.
  rewrite H2. ring.
Qed.

(* equal rational weights: the integer weights are a positive multiple of all-ones *)
Lemma int_weights_equal c n : 0 < c ->
  exists b, (0 < b)%Z /\ int_weights (repeat c n) = map (Z.mul b) (repeat 1%Z n).
Proof.
  intro Hc. assert (0 < Qnum c)%Z as Hn by (unfold Qlt in Hc; simpl in Hc; lia).
  destruct n as [|n]; [exists 1%Z; split; [lia | reflexivity]|].
  set (w := repeat c (S n)).
  exists (Qnum c * (lcm_den w / Zpos (Qden c)))%Z. split.
  - assert (In c w) as Hin by (left; reflexivity).
    pose proof (int_weight_spec w c Hin) as E. pose proof (lcm_den_pos w). nia.
  - unfold int_weights. fold w. unfold w at 2.
    generalize (lcm_den w). intro D. generalize (S n). intro m.
    induction m as [|m IH]; simpl; [reflexivity|]. rewrite IH. f_equal. ring.
Qed.

(* ---------------------------------------------------------------- products and degrees *)

Lemma gm_deg_scale k W : gm_deg (map (Z.mul k) W) = (k * gm_deg W)%Z.
Proof. unfold gm_deg. induction W as [|w W IH]; simpl; [ring | rewrite IH; ring]. Qed.

Lemma gm_pre_scale k W l : gm_pre (map (Z.mul k) W) l == (gm_pre W l) ^ k.
Proof.
  unfold gm_pre. revert W; induction l as [|x l IH]; intros W.
  - unfold map2. simpl. rewrite Qpower_1. reflexivity.
  - destruct W as [|w W]; [unfold map2; simpl; rewrite Qpower_1; reflexivity|].
    simpl map. rewrite !map2_cons. cbn [fold_right]. rewrite IH.
    rewrite Qmult_power. rewrite (Z.mul_comm k w), Qpower_mult. reflexivity.
Qed.

Lemma pow_inj (k : Z) x y : (0 < k)%Z -> 0 <= x -> 0 <= y -> x ^ k == y ^ k -> x == y.
Proof. intros Hk Hx Hy H. destruct k as [|p|p]; try lia. apply (root_unique p); assumption. Qed.

(* the characterisation of the geometric mean does not depend on which proportional integer
   weights are used; r2 = 1, or 2 when the square root is taken as well *)
Theorem gm_roots_proportional a b r2 W W' l s : (0 < a)%Z -> (0 < b)%Z ->
  map (Z.mul a) W' = map (Z.mul b) W -> all_nonneg l -> 0 <= s ->
  (s ^ (r2 * gm_deg W') == gm_pre W' l <-> s ^ (r2 * gm_deg W) == gm_pre W l).
Proof.
  intros Ha Hb HW Hl Hs.
  assert (forall k V, (s ^ (r2 * gm_deg V)) ^ k == s ^ (r2 * gm_deg (map (Z.mul k) V))) as P.
  { intros k V. rewrite gm_deg_scale, <- Qpower_mult.
    replace (r2 * (k * gm_deg V))%Z with (r2 * gm_deg V * k)%Z by ring. reflexivity. }
  assert (forall V, 0 <= s ^ (r2 * gm_deg V)) as N by (intro V; apply Qpower_0_le; assumption).
  assert (forall V, 0 <= gm_pre V l) as G by (intro V; apply Qlt_le_weak, gm_pre_pos; assumption).
  split; intro H.
  - apply (pow_inj b); [assumption | apply N | apply G|].
    rewrite P, <- gm_pre_scale, <- HW, gm_pre_scale, <- P. rewrite H. reflexivity.
  - apply (pow_inj a); [assumption | apply N | apply G|].
    rewrite P, <- gm_pre_scale, HW, gm_pre_scale, <- P. rewrite H. reflexivity.
Qed.

(* ---------------------------------------------------------------- the laws, on values *)

Lemma gm_roots_cols (b : base) (k : pw) (rt : bool) (W W' : list Z) (a0 b0 : Z) (cols : list col)
  (r : list Q) : (0 < a0)%Z -> (0 < b0)%Z ->
  map (Z.mul a0) W' = map (Z.mul b0) W ->
  (roots_of ((if rt then 2 else 1) * gm_deg W') r (map (fun cl => gm_pre W' (pt b k cl)) cols) <->
   roots_of ((if rt then 2 else 1) * gm_deg W) r (map (fun cl => gm_pre W (pt b k cl)) cols)).
Proof.
  intros Ha Hb HW. unfold roots_of. revert r.
  induction cols as [|cl cols IH]; intros r; simpl.
  - split; intro H; inversion H; constructor.
  - split; intro H; inversion H as [|s x r0 p [Hs Hx] Hr]; subst; constructor;
      try (apply IH; assumption); (split; [assumption|]).
    + apply (gm_roots_proportional a0 b0 _ W W'); try assumption. apply pt_nonneg.
    + apply (gm_roots_proportional a0 b0 _ W W'); try assumption. apply pt_nonneg.
Qed.

(* rescaling all horizon weights by c > 0 does not change a geometric-mean metric *)
Theorem gmean_weights_scale_free b k rt mo w cols c v : 0 < c ->
  let m := mkmetric (FSimple b k GMean) rt in
  is_value (mkfcase m mo (Some (map (Qmult c) w)) cols) v <->
  is_value (mkfcase m mo (Some w) cols) v.
Proof.
  intros Hc m. destruct (int_weights_scale c w Hc) as [a0 [b0 [Ha [Hb HW]]]].
  unfold is_value, root_deg, pre_values, post. simpl. unfold col_agg, gm_weights.
  split; intros [r [Hr Hv]]; exists r; (split; [|exact Hv]).
  - exact (proj1 (gm_roots_cols b k rt _ _ a0 b0 cols r Ha Hb HW) Hr).
  - exact (proj2 (gm_roots_cols b k rt _ _ a0 b0 cols r Ha Hb HW) Hr).
Qed.

(* equal horizon weights are no horizon weights *)
Theorem gmean_equal_weights b k rt mo cols n c v : 0 < c -> Forall (shaped n) cols ->
  let m := mkmetric (FSimple b k GMean) rt in
  is_value (mkfcase m mo (Some (repeat c n)) cols) v <-> is_value (mkfcase m mo None cols) v.
Proof.
  intros Hc Hs m. destruct (int_weights_equal c n Hc) as [b0 [Hb HW]].
  assert (map (Z.mul 1) (int_weights (repeat c n)) = map (Z.mul b0) (repeat 1%Z n)) as HW1.
  { rewrite <- HW. rewrite <- (map_id (int_weights (repeat c n))) at 2. apply map_ext.
    intro z. destruct z; reflexivity. }
  unfold is_value, root_deg, pre_values, post, horizon. simpl. unfold col_agg, gm_weights.
  (* every column has horizon n *)
  assert (map (fun cl => gm_pre (repeat 1%Z (length (pt b k cl))) (pt b k cl)) cols =
          map (fun cl => gm_pre (repeat 1%Z n) (pt b k cl)) cols) as E.
  { apply map_ext_in. intros cl Hin. rewrite Forall_forall in Hs.
    destruct (Hs cl Hin) as [L1 [L2 L3]].
    rewrite pt_length; [rewrite L1; reflexivity | congruence | intros; congruence]. }
  rewrite E. clear E.
  destruct cols as [|cl0 cols].
  { simpl. split; intros [r [Hr Hv]]; exists r; (split; [|exact Hv]); inversion Hr; constructor. }
  assert (length (c_true cl0) = n) as L0 by (inversion Hs as [|? ? [L _] _]; exact L).
  rewrite L0.
  split; intros [r [Hr Hv]]; exists r; (split; [|exact Hv]).
  - exact (proj1 (gm_roots_cols b k rt _ _ 1%Z b0 (cl0 :: cols) r Z.lt_0_1 Hb HW1) Hr).
  - exact (proj2 (gm_roots_cols b k rt _ _ 1%Z b0 (cl0 :: cols) r Z.lt_0_1 Hb HW1) Hr).
Qed.

(* a step with horizon weight 0 does not contribute to a geometric-mean metric *)
Theorem gm_zero_weight_step W l x : gm_pre (0%Z :: W) (x :: l) == gm_pre W l /\
  gm_deg (0%Z :: W) = gm_deg W.
Proof.
  split; [|reflexivity]. unfold gm_pre. rewrite map2_cons. cbn [fold_right].
  change (clamp0 x ^ 0) with 1. ring.
Qed.

(* non-vacuity: weights 1/2, 1/2, 1 on errors 4, 1, 2 -> integer weights 1, 1, 2, degree 4,
   product 4 * 1 * 4 = 16, value 2; the same value with the weights multiplied by 3/2 *)
Example gmean_weighted_example :
  let cols := [mkcol [5; 2; 3] [1; 1; 1] [4; 1; 2] []] in
  let m := mkmetric (FSimple BRel (P0 PAbs) GMean) false in
  gm_weights (Some [1 # 2; 1 # 2; 1]) 3 = [1; 1; 2]%Z /\
  is_value (mkfcase m Raw (Some [1 # 2; 1 # 2; 1]) cols) [2] /\
  is_value (mkfcase m Raw (Some (map (Qmult (3 # 2)) [1 # 2; 1 # 2; 1])) cols) [2].
Proof.
  cbv zeta. split; [reflexivity|]. split.
  - exists [2]. split; [apply roots_okb_sound; vm_compute; reflexivity | apply eql_refl].
  - exists [2]. split; [apply roots_okb_sound; vm_compute; reflexivity | apply eql_refl].
Qed.
