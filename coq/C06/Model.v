(* C06 model: forecasting accuracy metrics over the rationals.

   Executable definitions only.  Everything is exact arithmetic in Q; numpy's float64 rounding is
   outside the model (the correspondence check compares with a relative tolerance).

   What is modelled (hand-written from the published definitions, tied to the code by the
   correspondence run and, for the three private helpers and the per-function structure, by the
   regenerated Gen.v + Bridge.v):

     point error      e_i  = y_true_i - y_pred_i
     percentage error      = e_i / max(|y_true_i|, EPS)                       (symmetric = False)
                           = 2|e_i| / max(|y_true_i| + |y_pred_i|, EPS)       (symmetric = True)
     relative error        = e_i / d_i,  d_i = y_true_i - y_bench_i clamped away from 0 by
                             +-EPS keeping its sign (0 counts as positive)
     asymmetric loss       = left(e_i) if e_i < threshold else right(e_i)
     aggregates            = mean / weighted mean (np.average), median (np.median), sklearn's
                             _weighted_percentile(., 50) (lower weighted median), geometric mean
     scaled errors         = aggregate(loss of forecast) / max(aggregate(loss of in-sample seasonal
                             naive forecast), EPS)
     relative loss         = loss(forecast) / max(loss(benchmark), EPS)

   Square roots and geometric means are not rational.  The model therefore exposes the *pre-root*
   quantity `pre_values` together with the degree `root_deg` of the root the implementation takes
   (2 for a square root, sum of the integer-scaled horizon weights for a geometric mean, their
   product for both), and `post`, the aggregation applied after the root.  A value v is "the metric" iff there
   are roots s_j >= 0 with s_j ^ deg == pre_j and v == post(s). *)
From Coq Require Import QArith Qabs List Bool ZArith.
Import ListNotations.
Open Scope Q_scope.

(* numpy float64 machine epsilon, exactly *)
Definition EPS : Q := 1 # 4503599627370496.   (* 2^-52 *)

Definition qltb (a b : Q) : bool := negb (Qle_bool b a).
Definition qmax (a b : Q) : Q := if Qle_bool a b then b else a.
Definition qmin (a b : Q) : Q := if Qle_bool a b then a else b.

Definition map2 {A B C} (f : A -> B -> C) (l1 : list A) (l2 : list B) : list C :=
  map (fun p => f (fst p) (snd p)) (combine l1 l2).
Definition map3 {A B C D} (f : A -> B -> C -> D) (l1 : list A) (l2 : list B) (l3 : list C) : list D :=
  map (fun p => f (fst p) (fst (snd p)) (snd (snd p))) (combine l1 (combine l2 l3)).

(* ---------------------------------------------------------------- aggregators *)

Definition qsum (l : list Q) : Q := fold_right Qplus 0 l.
Definition qlen (l : list Q) : Q := inject_Z (Z.of_nat (length l)).

(* np.mean / np.average(weights=None) *)
Definition mean (l : list Q) : Q := qsum l / qlen l.
(* np.average(l, weights=w) *)
Definition wmean (w l : list Q) : Q := qsum (map2 Qmult w l) / qsum w.

Fixpoint insert (x : Q) (l : list Q) : list Q :=
  match l with
  | [] => [x]
  | y :: t => if Qle_bool x y then x :: y :: t else y :: insert x t
  end.
Fixpoint isort (l : list Q) : list Q :=
  match l with [] => [] | x :: t => insert x (isort t) end.

(* np.median: middle order statistic, mean of the two middle ones for even length *)
Definition median (l : list Q) : Q :=
  let s := isort l in
  let n := length s in
  if Nat.even n then (nth (n / 2 - 1) s 0 + nth (n / 2) s 0) / 2 else nth (n / 2) s 0.

(* sklearn.utils.stats._weighted_percentile(array, sample_weight, 50) as installed (1.7):
   sort by value, cumulate the weights, take the first position whose cumulative weight reaches
   half of the total (if the total is 0 the target is bumped to the next float after 0, i.e. the
   first strictly positive cumulative weight), clip to the last position. *)
Fixpoint pinsert (x : Q * Q) (l : list (Q * Q)) : list (Q * Q) :=
  match l with
  | [] => [x]
  | y :: t => if Qle_bool (fst x) (fst y) then x :: y :: t else y :: pinsert x t
  end.
Fixpoint psort (l : list (Q * Q)) : list (Q * Q) :=
  match l with [] => [] | x :: t => pinsert x (psort t) end.

Definition reach (target c : Q) : bool :=
  if Qeq_bool target 0 then qltb 0 c else Qle_bool target c.

Fixpoint wpick (target acc : Q) (l : list (Q * Q)) (dflt : Q) : Q :=
  match l with
  | [] => dflt
  | (v, w) :: t => if reach target (acc + w) then v else wpick target (acc + w) t v
  end.

Definition wpercentile (w l : list Q) : Q :=
  let s := psort (combine l w) in
  wpick (qsum (map snd s) * (1 # 2)) 0 s 0.

Inductive aggk := Mean | Median | GMean.

(* arithmetic aggregates with optional horizon weights *)
Definition agg (a : aggk) (hw : option (list Q)) (l : list Q) : Q :=
  match a, hw with
  | Median, None => median l
  | Median, Some w => wpercentile w l
  | _, None => mean l
  | _, Some w => wmean w l
  end.

(* geometric mean: zero errors are replaced by EPS (the documented floor).  The weighted
   geometric mean  exp(sum_i w_i log x_i / sum_i w_i)  is not rational; the model keeps the product
   prod_i x_i ^ W_i  and the degree  sum_i W_i  for INTEGER weights W_i proportional to the
   horizon weights: W_i = w_i * D with D the least common multiple of the weights' denominators
   (all 1 when unweighted).  Which common multiple is used does not matter (GMean.v:
   gm_roots_proportional), zero weights drop the step (x ^ 0 = 1). *)
Definition clamp0 (x : Q) : Q := if Qeq_bool x 0 then EPS else x.
Definition lcm_den (w : list Q) : Z := fold_right (fun q d => Z.lcm (Zpos (Qden q)) d) 1%Z w.
Definition int_weights (w : list Q) : list Z :=
  let D := lcm_den w in map (fun q => (Qnum q * (D / Zpos (Qden q)))%Z) w.
Definition gm_weights (hw : option (list Q)) (n : nat) : list Z :=
  match hw with None => repeat 1%Z n | Some w => int_weights w end.
Definition gm_pre (W : list Z) (l : list Q) : Q :=
  fold_right Qmult 1 (map2 (fun x w => Qpower (clamp0 x) w) l W).
Definition gm_deg (W : list Z) : Z := fold_right Z.add 0%Z W.
(* valid horizon weights for np.average: non-negative, not all zero *)
Definition gm_weights_ok (hw : option (list Q)) : bool :=
  match hw with
  | None => true
  | Some w => forallb (fun q => Z.leb 0 (Qnum q)) w && Z.ltb 0 (gm_deg (int_weights w))
  end.

(* ---------------------------------------------------------------- point errors *)

Inductive pw0 := PAbs | PSq.
Definition pwf0 (k : pw0) (e : Q) : Q := match k with PAbs => Qabs e | PSq => e * e end.

(* loss applied to a signed error *)
Inductive pw := P0 (k : pw0) | PAsym (thr : Q) (lf rf : pw0).
Definition pwf (k : pw) (e : Q) : Q :=
  match k with
  | P0 k => pwf0 k e
  | PAsym thr lf rf => if qltb e thr then pwf0 lf e else pwf0 rf e    (* _asymmetric_error *)
  end.

(* _percentage_error *)
Definition pct_err (sym : bool) (t p : Q) : Q :=
  if sym then 2 * Qabs (t - p) / qmax (Qabs t + Qabs p) EPS
  else (t - p) / qmax (Qabs t) EPS.

(* _relative_error *)
Definition rel_den (t b : Q) : Q :=
  if Qle_bool 0 (t - b) then qmax (t - b) EPS else qmin (t - b) (- EPS).
Definition rel_err (t p b : Q) : Q := (t - p) / rel_den t b.

Record col := mkcol { c_true : list Q; c_pred : list Q; c_bench : list Q; c_train : list Q }.

(* signed base error per horizon step *)
Inductive base := BPlain | BPct (sym : bool) | BRel.
Definition base_errs (b : base) (c : col) : list Q :=
  match b with
  | BPlain => map2 (fun t p => t - p) (c_true c) (c_pred c)
  | BPct s => map2 (pct_err s) (c_true c) (c_pred c)
  | BRel => map3 rel_err (c_true c) (c_pred c) (c_bench c)
  end.
Definition pt (b : base) (k : pw) (c : col) : list Q := map (pwf k) (base_errs b c).

(* the same per horizon step: the loss of one (truth, forecast, benchmark) triple *)
Definition base1 (b : base) (t p bn : Q) : Q :=
  match b with BPlain => t - p | BPct s => pct_err s t p | BRel => rel_err t p bn end.
Definition point1 (b : base) (k : pw) (t p bn : Q) : Q := pwf k (base1 b t p bn).

(* in-sample seasonal naive errors: y_train[sp:] - y_train[:-sp] *)
Definition naive_errs (k : pw0) (sp : nat) (train : list Q) : list Q :=
  map2 (fun a b => pwf0 k (a - b)) (skipn sp train) train.

(* ---------------------------------------------------------------- metrics *)

Inductive family :=
  | FSimple (b : base) (k : pw) (a : aggk)
  | FScaled (k : pw0) (a : aggk) (sp : nat)
  | FRelLoss (k : pw0) (a : aggk).
Record metric := mkmetric { fam : family; rooted : bool }.

Inductive mout := Raw | Uniform | Weights (w : list Q).
Definition mo_avg (mo : mout) (l : list Q) : list Q :=
  match mo with Raw => l | Uniform => [mean l] | Weights w => [wmean w l] end.

Record fcase := mkfcase { f_m : metric; f_mo : mout; f_hw : option (list Q); f_cols : list col }.

Definition col_agg (a : aggk) (hw : option (list Q)) (l : list Q) : Q :=
  match a with
  | GMean => gm_pre (gm_weights hw (length l)) l
  | _ => agg a hw l
  end.

Definition ratio (num den : list Q) : list Q := map2 (fun x y => x / qmax y EPS) num den.

(* the quantity whose root (of degree root_deg) the implementation returns, per output *)
Definition pre_values (c : fcase) : list Q :=
  let hw := f_hw c in
  match fam (f_m c) with
  | FSimple b k a => map (fun cl => col_agg a hw (pt b k cl)) (f_cols c)
  | FScaled k a sp =>
      ratio (mo_avg (f_mo c) (map (fun cl => agg a hw (pt BPlain (P0 k) cl)) (f_cols c)))
            (mo_avg (f_mo c) (map (fun cl => agg a None (naive_errs k sp (c_train cl))) (f_cols c)))
  | FRelLoss k a =>
      ratio (mo_avg (f_mo c) (map (fun cl => agg a hw (pt BPlain (P0 k) cl)) (f_cols c)))
            (mo_avg (f_mo c)
               (map (fun cl => agg a hw (pt BPlain (P0 k) (mkcol (c_true cl) (c_bench cl) [] [])))
                    (f_cols c)))
  end.

Definition fam_agg (f : family) : aggk :=
  match f with FSimple _ _ a => a | FScaled _ a _ => a | FRelLoss _ a => a end.

Definition horizon (c : fcase) : nat :=
  match f_cols c with [] => O | cl :: _ => length (c_true cl) end.

Definition root_deg (c : fcase) : Z :=
  (if rooted (f_m c) then 2 else 1) *
  match fam (f_m c) with
  | FSimple _ _ GMean => gm_deg (gm_weights (f_hw c) (horizon c))
  | _ => 1
  end.

(* aggregation over outputs applied after the root *)
Definition post (c : fcase) (roots : list Q) : list Q :=
  match fam (f_m c) with
  | FSimple _ _ _ => mo_avg (f_mo c) roots
  | _ => roots
  end.

(* ---------------------------------------------------------------- the 18 published metrics *)

Inductive mname :=
  | MAE | MSE | MdAE | MdSE
  | MAPE | MdAPE | MSPE | MdSPE
  | MRAE | MdRAE | GMRAE | GMRSE
  | MASE | MdASE | MSSE | MdSSE
  | MAsym | RelLoss.

Record opts := mkopts {
  o_symmetric : bool; o_square_root : bool; o_sp : nat;
  o_thr : Q; o_left : pw0; o_right : pw0;
  o_rl_k : pw0; o_rl_a : aggk   (* relative_loss_function: mean/median absolute/squared error *)
}.

Definition textbook (n : mname) (o : opts) : metric :=
  let sym := o_symmetric o in
  let rt := o_square_root o in
  match n with
  | MAE => mkmetric (FSimple BPlain (P0 PAbs) Mean) false
  | MSE => mkmetric (FSimple BPlain (P0 PSq) Mean) rt
  | MdAE => mkmetric (FSimple BPlain (P0 PAbs) Median) false
  | MdSE => mkmetric (FSimple BPlain (P0 PSq) Median) rt
  | MAPE => mkmetric (FSimple (BPct sym) (P0 PAbs) Mean) false
  | MdAPE => mkmetric (FSimple (BPct sym) (P0 PAbs) Median) false
  | MSPE => mkmetric (FSimple (BPct sym) (P0 PSq) Mean) rt
  | MdSPE => mkmetric (FSimple (BPct sym) (P0 PSq) Median) rt
  | MRAE => mkmetric (FSimple BRel (P0 PAbs) Mean) false
  | MdRAE => mkmetric (FSimple BRel (P0 PAbs) Median) false
  | GMRAE => mkmetric (FSimple BRel (P0 PAbs) GMean) false
  | GMRSE => mkmetric (FSimple BRel (P0 PSq) GMean) rt
  | MASE => mkmetric (FScaled PAbs Mean (o_sp o)) false
  | MdASE => mkmetric (FScaled PAbs Median (o_sp o)) false
  | MSSE => mkmetric (FScaled PSq Mean (o_sp o)) rt
  | MdSSE => mkmetric (FScaled PSq Median (o_sp o)) rt
  | MAsym => mkmetric (FSimple BPlain (PAsym (o_thr o) (o_left o) (o_right o)) Mean) false
  | RelLoss => mkmetric (FRelLoss (o_rl_k o) (o_rl_a o)) false
  end.

(* documented defaults of the option parameters (the same for every function that has them):
   symmetric=True, square_root=False, sp=1, asymmetric_threshold=0.0, left='squared',
   right='absolute', relative_loss_function=mean_absolute_error *)
Definition documented_defaults (n : mname) : opts := mkopts true false 1%nat 0 PSq PAbs PAbs Mean.
