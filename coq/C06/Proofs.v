From Coq Require Import QArith Qabs List Bool ZArith Lqa.
Require Import SkV.C06.Model.
Import ListNotations.
Open Scope Q_scope.

Lemma EPS_pos : 0 < EPS.
Proof. reflexivity. Qed.
