(* C06: the laws of the metrics, proved for all rational inputs. *)
From Coq Require Import QArith Qabs Qpower List Bool ZArith Lia Lqa Permutation.
Require Import SkV.C06.Model SkV.C06.Agg.
Import ListNotations.
Open Scope Q_scope.

(* ---------------------------------------------------------------- point losses *)

Lemma pwf0_nonneg k e : 0 <= pwf0 k e.
Proof. destruct k; simpl; [apply Qabs_nonneg | nra]. Qed.
Lemma pwf_nonneg k e : 0 <= pwf k e.
Proof. destruct k; simpl; [|destruct (qltb e thr)]; apply pwf0_nonneg. Qed.
Lemma pwf0_compat k e e' : e == e' -> pwf0 k e == pwf0 k e'.
Proof. intro H. destruct k; simpl; rewrite H; reflexivity. Qed.
Lemma pwf_compat k e e' : e == e' -> pwf k e == pwf k e'.
Proof.
  intro H. destruct k; simpl; [apply pwf0_compat; assumption|].
  rewrite (qltb_compat e e' thr thr H (Qeq_refl thr)).
  destruct (qltb e' thr); apply pwf0_compat; assumption.
Qed.
Lemma pwf0_zero k e : e == 0 -> pwf0 k e == 0.
Proof. intro H. rewrite (pwf0_compat k e 0 H). destruct k; reflexivity. Qed.
Lemma pwf_zero k e : e == 0 -> pwf k e == 0.
Proof.
  intro H. destruct k; simpl; [|destruct (qltb e thr)]; apply pwf0_zero; assumption.
Qed.

Definition sc (k : pw0) (c : Q) : Q := match k with PAbs => c | PSq => c * c end.
Lemma sc_pos k c : 0 < c -> 0 < sc k c.
Proof. destruct k; simpl; nra. Qed.
Lemma pwf0_scale k c e : 0 < c -> pwf0 k (c * e) == sc k c * pwf0 k e.
Proof.
  intro Hc. destruct k; cbn [pwf0 sc]; [|ring].
  rewrite Qabs_Qmult, (Qabs_pos c); [reflexivity | lra].
Qed.

(* the asymmetric threshold switch *)
Lemma asym_left thr lf rf e : e < thr -> pwf (PAsym thr lf rf) e = pwf0 lf e.
Proof. intro H. simpl. apply qltb_true in H. rewrite H. reflexivity. Qed.
Lemma asym_right thr lf rf e : thr <= e -> pwf (PAsym thr lf rf) e = pwf0 rf e.
Proof. intro H. simpl. apply qltb_false in H. rewrite H. reflexivity. Qed.
Lemma asym_same thr f e : pwf (PAsym thr f f) e = pwf (P0 f) e.
Proof. simpl. destruct (qltb e thr); reflexivity. Qed.

(* ---------------------------------------------------------------- percentage error *)

Lemma abs_diff_le t p : Qabs (t - p) <= Qabs t + Qabs p.
Proof.
  setoid_replace (t - p) with (t + - p) by ring.
  eapply Qle_trans; [apply Qabs_triangle|]. rewrite Qabs_opp. lra.
Qed.

Lemma pct_sym_swap t p : pct_err true t p == pct_err true p t.
Proof.
  unfold pct_err. rewrite (Qabs_Qminus t p).
  rewrite (qmax_compat (Qabs t + Qabs p) (Qabs p + Qabs t) EPS EPS); [reflexivity | ring | reflexivity].
Qed.
Lemma pct_sym_range t p : 0 <= pct_err true t p <= 2.
Proof.
  unfold pct_err. pose proof (qmax_eps_pos (Qabs t + Qabs p)) as D.
  pose proof (qmax_ge_l (Qabs t + Qabs p) EPS) as G.
  pose proof (Qabs_nonneg (t - p)) as N. pose proof (abs_diff_le t p) as L. split.
  - apply Qle_shift_div_l; [assumption | lra].
  - apply Qle_shift_div_r; [assumption | lra].
Qed.
Lemma pct_sym_zero t p : t == p -> pct_err true t p == 0.
Proof.
  intro H. unfold pct_err. setoid_replace (t - p) with 0 by lra.
  change (Qabs 0) with 0. unfold Qdiv. ring.
Qed.
Lemma pct_asym_zero t p : t == p -> pct_err false t p == 0.
Proof. intro H. unfold pct_err. setoid_replace (t - p) with 0 by lra. unfold Qdiv. ring. Qed.
Lemma pct_zero s t p : t == p -> pct_err s t p == 0.
Proof. destruct s; [apply pct_sym_zero | apply pct_asym_zero]. Qed.
(* away from the clamp these are the published formulas *)
Lemma pct_asym_unclamped t p : EPS <= Qabs t -> pct_err false t p == (t - p) / Qabs t.
Proof. intro H. unfold pct_err. rewrite (qmax_hyp _ H). reflexivity. Qed.
Lemma pct_sym_unclamped t p : EPS <= Qabs t + Qabs p ->
  pct_err true t p == 2 * Qabs (t - p) / (Qabs t + Qabs p).
Proof. intro H. unfold pct_err. rewrite (qmax_hyp _ H). reflexivity. Qed.

(* ---------------------------------------------------------------- relative error *)

Lemma rel_den_spec t b :
  (0 <= t - b -> EPS <= rel_den t b /\ rel_den t b == qmax (t - b) EPS) /\
  (t - b < 0 -> rel_den t b <= - EPS /\ rel_den t b == qmin (t - b) (- EPS)) /\
  (EPS <= Qabs (t - b) -> rel_den t b == t - b).
Proof.
  unfold rel_den. pose proof EPS_pos as E. destruct (Qle_bool 0 (t - b)) eqn:S.
  - apply Qle_bool_iff in S. split; [|split].
    + intros _. split; [apply qmax_ge_r | reflexivity].
    + intro H. lra.
    + intro H. rewrite (Qabs_pos _ S) in H. apply qmax_hyp. assumption.
  - apply Qle_bool_false in S. split; [|split].
    + intro H. lra.
    + intros _. split; [|reflexivity].
      destruct (qmin_case (t - b) (- EPS)) as [[L ->]|[L ->]]; lra.
    + intro H. rewrite (Qabs_neg (t - b)) in H by lra.
      destruct (qmin_case (t - b) (- EPS)) as [[L ->]|[L ->]]; lra.
Qed.
Lemma rel_den_abs t b : EPS <= Qabs (rel_den t b).
Proof.
  pose proof EPS_pos as E.
  destruct (rel_den_spec t b) as [P [N _]]. destruct (Qlt_le_dec (t - b) 0) as [H|H].
  - destruct (N H) as [L _]. rewrite Qabs_neg; lra.
  - destruct (P H) as [L _]. rewrite Qabs_pos; lra.
Qed.
Lemma rel_err_zero t p b : t == p -> rel_err t p b == 0.
Proof. intro H. unfold rel_err. setoid_replace (t - p) with 0 by lra. unfold Qdiv. ring. Qed.
Lemma rel_err_bound t p b : Qabs (rel_err t p b) <= Qabs (t - p) / EPS.
Proof.
  unfold rel_err, Qdiv. rewrite Qabs_Qmult, Qabs_Qinv.
  pose proof (rel_den_abs t b) as D. pose proof EPS_pos as E. pose proof (Qabs_nonneg (t - p)) as N.
  set (a := Qabs (t - p)) in *. set (d := Qabs (rel_den t b)) in *.
  change (a / d <= a / EPS). apply Qle_shift_div_r; [lra|].
  setoid_replace (a / EPS * d) with (a * d / EPS) by (field; lra).
  apply Qle_shift_div_l; [lra | nra].
Qed.

(* ---------------------------------------------------------------- lists built with map2/map3 *)

Lemma map2_Forall {A B} (P : Q -> Prop) (f : A -> B -> Q) l1 l2 :
  (forall a b, P (f a b)) -> Forall P (map2 f l1 l2).
Proof.
  intro H. unfold map2. apply Forall_forall. intros x Hx. apply in_map_iff in Hx.
  destruct Hx as [[a b] [<- _]]. apply H.
Qed.
Lemma map_Forall (P : Q -> Prop) (f : Q -> Q) l : (forall a, P (f a)) -> Forall P (map f l).
Proof.
  intro H. apply Forall_forall. intros x Hx. apply in_map_iff in Hx.
  destruct Hx as [a [<- _]]. apply H.
Qed.
Lemma combine_same {A} (l : list A) a b : In (a, b) (combine l l) -> a = b.
Proof.
  induction l as [|x l IH]; simpl; [tauto|]. intros [E|H]; [congruence | auto].
Qed.
Lemma combine3_same {A B} (l : list A) (lb : list B) a b c :
  In (a, (b, c)) (combine l (combine l lb)) -> a = b.
Proof.
  revert lb; induction l as [|x l IH]; intros [|y lb]; simpl; try tauto.
  intros [E|H]; [congruence | eauto].
Qed.
Lemma map2_same (P : Q -> Prop) (f : Q -> Q -> Q) l : (forall a, P (f a a)) -> Forall P (map2 f l l).
Proof.
  intro H. unfold map2. apply Forall_forall. intros x Hx. apply in_map_iff in Hx.
  destruct Hx as [[a b] [<- Hin]]. apply combine_same in Hin. subst. apply H.
Qed.
Lemma map3_same (P : Q -> Prop) (f : Q -> Q -> Q -> Q) l lb :
  (forall a c, P (f a a c)) -> Forall P (map3 f l l lb).
Proof.
  intro H. unfold map3. apply Forall_forall. intros x Hx. apply in_map_iff in Hx.
  destruct Hx as [[a [b c]] [<- Hin]]. apply combine3_same in Hin. subst. apply H.
Qed.
Lemma map2_swap (f g : Q -> Q -> Q) l1 l2 :
  (forall a b, f a b == g b a) -> eql (map2 f l1 l2) (map2 g l2 l1).
Proof.
  intro H. revert l2; induction l1 as [|a l1 IH]; intros [|b l2]; try constructor.
  - apply H.
  - apply IH.
Qed.
Lemma map2_scale (f : Q -> Q -> Q) c s l1 l2 :
  (forall a b, f (c * a) (c * b) == s * f a b) ->
  eql (map2 f (map (Qmult c) l1) (map (Qmult c) l2)) (map (Qmult s) (map2 f l1 l2)).
Proof.
  intro H. revert l2; induction l1 as [|a l1 IH]; intros [|b l2]; try constructor.
  - apply H.
  - apply IH.
Qed.

(* ---------------------------------------------------------------- aggregates *)

Definition hw_ok (hw : option (list Q)) : Prop :=
  match hw with None => True | Some w => all_nonneg w end.

Lemma agg_nonneg a hw l : hw_ok hw -> all_nonneg l -> 0 <= agg a hw l.
Proof.
  intros Hw Hl. destruct a, hw as [w|]; simpl in *;
    try (apply mean_nonneg; assumption); try (apply wmean_nonneg; assumption);
    try (apply median_nonneg; assumption).
  apply (wpercentile_Forall nonneg); [assumption | unfold nonneg; lra].
Qed.
Lemma agg_upper hi a hw l : 0 <= hi -> hw_ok hw -> Forall (fun x => x <= hi) l -> agg a hw l <= hi.
Proof.
  intros Hh Hw Hl. destruct a, hw as [w|]; simpl in *;
    try (apply mean_upper; assumption); try (apply wmean_upper; assumption);
    try (apply median_upper; assumption).
  apply (wpercentile_Forall (fun x => x <= hi)); assumption.
Qed.
Lemma agg_zero a hw l : Forall (fun x => x == 0) l -> agg a hw l == 0.
Proof.
  intros Hl. destruct a, hw as [w|]; simpl;
    try (apply mean_zero; assumption); try (apply wmean_zero; assumption);
    try (apply median_zero; assumption).
  apply (wpercentile_Forall (fun x => x == 0)); [assumption | reflexivity].
Qed.
Lemma agg_scale c a hw l : 0 < c -> agg a hw (map (Qmult c) l) == c * agg a hw l.
Proof.
  intros Hc. destruct a, hw as [w|]; simpl;
    try apply mean_scale; try apply wmean_scale;
    try (apply median_scale; assumption); apply wpercentile_scale; assumption.
Qed.
Lemma agg_eql a hw l l' : eql l l' -> agg a hw l == agg a hw l'.
Proof.
  intros H. destruct a, hw as [w|]; simpl;
    try (apply mean_eql; assumption); try (apply wmean_eql; assumption);
    try (apply median_eql; assumption); apply wpercentile_eql; assumption.
Qed.
(* horizon weights: only their proportions matter; equal weights are no weights for means *)
Lemma agg_weights_scale_free c a w l : 0 < c ->
  agg a (Some (map (Qmult c) w)) l == agg a (Some w) l.
Proof.
  intros Hc. destruct a; simpl; try (apply wmean_scale_weights; lra).
  apply wpercentile_scale_weights; assumption.
Qed.
Lemma agg_equal_weights c l : ~ c == 0 -> agg Mean (Some (repeat c (length l))) l == agg Mean None l.
Proof. intro Hc. simpl. apply wmean_equal_weights. assumption. Qed.

Definition mo_ok (mo : mout) : Prop :=
  match mo with Weights w => all_nonneg w | _ => True end.

Lemma mo_avg_nonneg mo l : mo_ok mo -> all_nonneg l -> all_nonneg (mo_avg mo l).
Proof.
  intros Hm Hl. destruct mo; simpl in *; [assumption | |]; constructor; try constructor.
  - apply mean_nonneg; assumption.
  - apply wmean_nonneg; assumption.
Qed.
Lemma mo_avg_upper hi mo l : 0 <= hi -> mo_ok mo -> Forall (fun x => x <= hi) l ->
  Forall (fun x => x <= hi) (mo_avg mo l).
Proof.
  intros Hh Hm Hl. destruct mo; simpl in *; [assumption | |]; constructor; try constructor.
  - apply mean_upper; assumption.
  - apply wmean_upper; assumption.
Qed.
Lemma mo_avg_zero mo l : Forall (fun x => x == 0) l -> Forall (fun x => x == 0) (mo_avg mo l).
Proof.
  intros Hl. destruct mo; simpl; [assumption | |]; constructor; try constructor.
  - apply mean_zero; assumption.
  - apply wmean_zero; assumption.
Qed.
Lemma mo_avg_scale c mo l : eql (mo_avg mo (map (Qmult c) l)) (map (Qmult c) (mo_avg mo l)).
Proof.
  destruct mo; simpl; [apply eql_refl | |]; constructor; try constructor.
  - apply mean_scale.
  - apply wmean_scale.
Qed.
Lemma mo_avg_eql mo l l' : eql l l' -> eql (mo_avg mo l) (mo_avg mo l').
Proof.
  intro H. destruct mo; simpl; [assumption | |]; constructor; try constructor.
  - apply mean_eql; assumption.
  - apply wmean_eql; assumption.
Qed.

(* ---------------------------------------------------------------- geometric mean *)

Lemma clamp0_pos x : 0 <= x -> 0 < clamp0 x.
Proof.
  intro H. unfold clamp0. destruct (Qeq_bool x 0) eqn:E; [apply EPS_pos|].
  apply Qeq_bool_neq in E. destruct (Qle_lt_or_eq _ _ H) as [L|L]; [assumption|].
  exfalso. apply E. symmetry. assumption.
Qed.
Lemma clamp0_zero x : x == 0 -> clamp0 x = EPS.
Proof. intro H. unfold clamp0. apply Qeq_bool_iff in H. rewrite H. reflexivity. Qed.

Lemma gm_pre_pos W l : all_nonneg l -> 0 < gm_pre W l.
Proof.
  unfold gm_pre. revert W; induction l as [|x l IH]; intros W Hl.
  - unfold map2. simpl. lra.
  - destruct W as [|w W]; [unfold map2; simpl; lra|].
    rewrite map2_cons. cbn [fold_right]. inversion Hl; subst.
    apply Qmult_lt_0_compat; [|apply IH; assumption].
    apply Qpower_0_lt. apply clamp0_pos. assumption.
Qed.
(* perfect forecast: every term sits at the EPS floor, so the product is EPS ^ (sum of weights) *)
Lemma gm_pre_floor W l : Forall (fun x => x == 0) l -> length W = length l ->
  gm_pre W l == EPS ^ gm_deg W.
Proof.
  unfold gm_pre, gm_deg. revert W; induction l as [|x l IH]; intros W Hl Hlen.
  - destruct W; [|discriminate]. unfold map2. simpl. reflexivity.
  - destruct W as [|w W]; [discriminate|]. rewrite map2_cons. cbn [fold_right].
    inversion Hl; subst. rewrite (clamp0_zero x H1), (IH W H2) by (simpl in Hlen; lia).
    rewrite Qpower_plus; [reflexivity|]. intro E. discriminate E.
Qed.

(* a non-negative number is determined by its n-th power: links the pre-root quantities of the
   model to the values the implementation returns *)
Lemma pow_pos_mono (n : positive) a b : 0 <= a -> a < b -> a ^ Zpos n < b ^ Zpos n.
Proof.
  intros Ha Hab. induction n using Pos.peano_ind.
  - rewrite !Qpower_1_r. assumption.
  - rewrite Pos2Z.inj_succ, <- Z.add_1_r.
    assert (0 < b) as Hb by lra.
    rewrite (Qpower_plus' a), (Qpower_plus' b) by lia. rewrite !Qpower_1_r.
    assert (0 <= a ^ Z.pos n) by (apply Qpower_0_le; assumption).
    nra.
Qed.
Lemma root_unique (n : positive) s s' : 0 <= s -> 0 <= s' -> s ^ Zpos n == s' ^ Zpos n -> s == s'.
Proof.
  intros Hs Hs' H. destruct (Q_dec s s') as [[L|L]|E]; [| |assumption].
  - pose proof (pow_pos_mono n s s' Hs L). lra.
  - pose proof (pow_pos_mono n s' s Hs' L). lra.
Qed.
Lemma root_zero (n : positive) s : s ^ Zpos n == 0 -> s == 0.
Proof.
  intro H. destruct (Qeq_dec s 0) as [E|E]; [assumption|].
  exfalso. apply (Qpower_not_0 s (Zpos n) E). assumption.
Qed.
Lemma root_le (n : positive) s b : 0 <= s -> 0 <= b -> s ^ Zpos n <= b ^ Zpos n -> s <= b.
Proof.
  intros Hs Hb H. destruct (Qlt_le_dec b s) as [L|L]; [|assumption].
  pose proof (pow_pos_mono n b s Hb L). lra.
Qed.

(* ---------------------------------------------------------------- base errors *)

Definition perfect (c : col) : Prop := c_pred c = c_true c.
Definition swap_col (c : col) : col := mkcol (c_pred c) (c_true c) (c_bench c) (c_train c).
Definition scale_col (k : Q) (c : col) : col :=
  mkcol (map (Qmult k) (c_true c)) (map (Qmult k) (c_pred c)) (map (Qmult k) (c_bench c))
        (map (Qmult k) (c_train c)).

Lemma base_errs_perfect b c : perfect c -> Forall (fun x => x == 0) (base_errs b c).
Proof.
  unfold perfect. intro H. destruct b; simpl; rewrite H.
  - apply map2_same. intro a. ring.
  - apply map2_same. intro a. apply pct_zero. reflexivity.
  - apply map3_same. intros a x. apply rel_err_zero. reflexivity.
Qed.
Lemma pt_perfect b k c : perfect c -> Forall (fun x => x == 0) (pt b k c).
Proof.
  intro H. unfold pt. pose proof (base_errs_perfect b c H) as Z.
  induction Z; simpl; constructor; [apply pwf_zero; assumption | assumption].
Qed.
Lemma pt_nonneg b k c : all_nonneg (pt b k c).
Proof. unfold pt. apply map_Forall. intro a. apply pwf_nonneg. Qed.

Lemma pt_swap k c : eql (pt (BPct true) k (swap_col c)) (pt (BPct true) k c).
Proof.
  unfold pt. simpl. apply eql_map; [intros; apply pwf_compat; assumption|].
  apply map2_swap. intros. apply pct_sym_swap.
Qed.
Lemma pt_pct_abs_range c :
  Forall (fun x => x <= 2) (pt (BPct true) (P0 PAbs) c).
Proof.
  unfold pt. apply Forall_forall. intros x Hx. apply in_map_iff in Hx. destruct Hx as [e [<- He]].
  cbn [base_errs] in He. unfold map2 in He. apply in_map_iff in He. destruct He as [[t p] [<- _]].
  cbn [pwf pwf0 fst snd]. destruct (pct_sym_range t p). rewrite Qabs_pos; assumption.
Qed.
Lemma pt_pct_sq_range c :
  Forall (fun x => x <= 4) (pt (BPct true) (P0 PSq) c).
Proof.
  unfold pt. apply Forall_forall. intros x Hx. apply in_map_iff in Hx. destruct Hx as [e [<- He]].
  cbn [base_errs] in He. unfold map2 in He. apply in_map_iff in He. destruct He as [[t p] [<- _]].
  cbn [pwf pwf0 fst snd]. destruct (pct_sym_range t p). nra.
Qed.

Lemma pt_plain_scale k c cl : 0 < c ->
  eql (pt BPlain (P0 k) (scale_col c cl)) (map (Qmult (sc k c)) (pt BPlain (P0 k) cl)).
Proof.
  intro Hc. unfold pt. simpl. unfold map2. rewrite !map_map.
  generalize (c_pred cl). induction (c_true cl) as [|t l IH]; intros [|p l']; try constructor.
  - simpl. rewrite <- (pwf0_scale k c (t - p) Hc). apply pwf0_compat. ring.
  - apply IH.
Qed.
Lemma skipn_map {A B} (f : A -> B) n l : skipn n (map f l) = map f (skipn n l).
Proof. revert l; induction n; intros [|x l]; simpl; auto. Qed.
Lemma naive_scale k sp c l : 0 < c ->
  eql (naive_errs k sp (map (Qmult c) l)) (map (Qmult (sc k c)) (naive_errs k sp l)).
Proof.
  intro Hc. unfold naive_errs. rewrite skipn_map.
  apply (map2_scale (fun a b => pwf0 k (a - b)) c (sc k c)).
  intros a b. rewrite <- (pwf0_scale k c (a - b) Hc). apply pwf0_compat. ring.
Qed.

(* ---------------------------------------------------------------- metric-level statements *)

Definition wf (c : fcase) : Prop := hw_ok (f_hw c) /\ mo_ok (f_mo c).

Lemma ratio_nonneg num den : all_nonneg num -> all_nonneg (ratio num den).
Proof.
  intro H. unfold ratio, map2. revert den; induction H as [|x l Hx Hl IH]; intros [|d den];
    simpl; constructor; [|apply IH].
  apply div_nonneg; [assumption|]. pose proof (qmax_eps_pos d). unfold nonneg. lra.
Qed.
Lemma ratio_zero num den : Forall (fun x => x == 0) num -> Forall (fun x => x == 0) (ratio num den).
Proof.
  intro H. unfold ratio, map2. revert den; induction H as [|x l Hx Hl IH]; intros [|d den];
    simpl; constructor; [|apply IH].
  rewrite Hx. unfold Qdiv. ring.
Qed.

Lemma map_all_nonneg {A} (f : A -> Q) l : (forall a, 0 <= f a) -> all_nonneg (map f l).
Proof. intro H. induction l; simpl; constructor; [apply H | assumption]. Qed.
Lemma map_all_zero {A} (f : A -> Q) (P : A -> Prop) l :
  Forall P l -> (forall a, P a -> f a == 0) -> Forall (fun x => x == 0) (map f l).
Proof. intros Hl H. induction Hl; simpl; constructor; [apply H; assumption | assumption]. Qed.

(* every loss is non-negative *)
Theorem pre_values_nonneg c : wf c -> all_nonneg (pre_values c).
Proof.
  intros [Hw Hm]. unfold pre_values. destruct (fam (f_m c)) as [b k a|k a sp|k a].
  - apply map_all_nonneg. intro cl. unfold col_agg. destruct a;
      try (apply agg_nonneg; [assumption | apply pt_nonneg]).
    apply Qlt_le_weak. apply gm_pre_pos. apply pt_nonneg.
  - apply ratio_nonneg. apply mo_avg_nonneg; [assumption|]. apply map_all_nonneg.
    intro cl. apply agg_nonneg; [assumption | apply pt_nonneg].
  - apply ratio_nonneg. apply mo_avg_nonneg; [assumption|]. apply map_all_nonneg.
    intro cl. apply agg_nonneg; [assumption | apply pt_nonneg].
Qed.
Theorem post_nonneg c roots : wf c -> all_nonneg roots -> all_nonneg (post c roots).
Proof.
  intros [Hw Hm] H. unfold post. destruct (fam (f_m c)); [apply mo_avg_nonneg|..]; assumption.
Qed.

(* ... and zero for a perfect forecast; geometric means sit at the EPS floor *)
Theorem pre_values_perfect c : Forall perfect (f_cols c) -> fam_agg (fam (f_m c)) <> GMean ->
  Forall (fun x => x == 0) (pre_values c).
Proof.
  intros Hp Hg. unfold pre_values. destruct (fam (f_m c)) as [b k a|k a sp|k a]; simpl in Hg.
  - apply (map_all_zero _ perfect); [assumption|]. intros cl Hcl. unfold col_agg.
    destruct a; try congruence; apply agg_zero; apply pt_perfect; assumption.
  - apply ratio_zero. apply mo_avg_zero. apply (map_all_zero _ perfect); [assumption|].
    intros cl Hcl. apply agg_zero. apply pt_perfect. assumption.
  - apply ratio_zero. apply mo_avg_zero. apply (map_all_zero _ perfect); [assumption|].
    intros cl Hcl. apply agg_zero. apply pt_perfect. assumption.
Qed.
Theorem post_zero c roots : Forall (fun x => x == 0) roots -> Forall (fun x => x == 0) (post c roots).
Proof.
  intro H. unfold post. destruct (fam (f_m c)); [apply mo_avg_zero|..]; assumption.
Qed.

Lemma pt_length b k cl : length (c_true cl) = length (c_pred cl) ->
  (b = BRel -> length (c_bench cl) = length (c_true cl)) ->
  length (pt b k cl) = length (c_true cl).
Proof.
  intros H1 H2. unfold pt. rewrite map_length. destruct b; simpl; unfold map2, map3;
    rewrite map_length, !combine_length; try lia.
  specialize (H2 eq_refl). lia.
Qed.

Definition shaped (n : nat) (cl : col) : Prop :=
  length (c_true cl) = n /\ length (c_pred cl) = n /\ length (c_bench cl) = n.

Theorem gmean_perfect_floor b k rt mo hw cols n :
  Forall perfect cols -> Forall (shaped n) cols ->
  (forall w, hw = Some w -> length w = n) ->
  let c := mkfcase (mkmetric (FSimple b k GMean) rt) mo hw cols in
  Forall (fun x => x == EPS ^ gm_deg (gm_weights hw n)) (pre_values c).
Proof.
  intros Hp Hs Hw c. unfold pre_values, c. simpl.
  apply Forall_forall. intros x Hx. apply in_map_iff in Hx. destruct Hx as [cl [<- Hin]].
  rewrite Forall_forall in Hp, Hs. specialize (Hp cl Hin). destruct (Hs cl Hin) as [L1 [L2 L3]].
  assert (length (pt b k cl) = n) as Hl.
  { rewrite pt_length; [assumption | congruence | intros; congruence]. }
  rewrite Hl. apply gm_pre_floor; [apply pt_perfect; assumption|]. rewrite Hl.
  unfold gm_weights. destruct hw as [w|]; [unfold int_weights; rewrite map_length; apply Hw; reflexivity|].
  apply repeat_length.
Qed.

(* symmetric percentage errors: swapping truth and forecast changes nothing, values in [0, 2] *)
Theorem pct_symmetric_swap k a rt mo hw cols : a <> GMean ->
  let m := mkmetric (FSimple (BPct true) k a) rt in
  eql (pre_values (mkfcase m mo hw (map swap_col cols))) (pre_values (mkfcase m mo hw cols)).
Proof.
  intros Ha m. unfold pre_values. simpl. rewrite map_map.
  induction cols as [|cl cols IH]; simpl; constructor; [|assumption].
  unfold col_agg. destruct a; try congruence; apply agg_eql; apply pt_swap.
Qed.
Theorem pct_symmetric_abs_range a mo hw cols : a <> GMean -> hw_ok hw ->
  let m := mkmetric (FSimple (BPct true) (P0 PAbs) a) false in
  Forall (fun x => 0 <= x <= 2) (pre_values (mkfcase m mo hw cols)).
Proof.
  intros Ha Hw m. unfold pre_values. simpl. apply Forall_forall. intros x Hx.
  apply in_map_iff in Hx. destruct Hx as [cl [<- _]]. unfold col_agg.
  destruct a; try congruence; (split; [apply agg_nonneg; [assumption | apply pt_nonneg] |
    apply agg_upper; [lra | assumption | apply pt_pct_abs_range]]).
Qed.
Theorem pct_symmetric_sq_range a rt mo hw cols : a <> GMean -> hw_ok hw ->
  let m := mkmetric (FSimple (BPct true) (P0 PSq) a) rt in
  Forall (fun x => 0 <= x <= 4) (pre_values (mkfcase m mo hw cols)).
Proof.
  intros Ha Hw m. unfold pre_values. simpl. apply Forall_forall. intros x Hx.
  apply in_map_iff in Hx. destruct Hx as [cl [<- _]]. unfold col_agg.
  destruct a; try congruence; (split; [apply agg_nonneg; [assumption | apply pt_nonneg] |
    apply agg_upper; [lra | assumption | apply pt_pct_sq_range]]).
Qed.
(* the square root of a value in [0,4] lies in [0,2]; averaging over outputs keeps the bounds *)
Lemma sqrt_le_2 s x : 0 <= s -> s ^ 2 == x -> x <= 4 -> s <= 2.
Proof.
  intros Hs H Hx. apply (root_le 2 s 2); [assumption | lra|]. rewrite H.
  change (2 ^ 2) with 4. assumption.
Qed.
Theorem post_range hi c roots : 0 <= hi -> mo_ok (f_mo c) ->
  Forall (fun x => 0 <= x <= hi) roots -> Forall (fun x => 0 <= x <= hi) (post c roots).
Proof.
  intros Hh Hm H.
  assert (all_nonneg roots) as N by (eapply Forall_impl; [|exact H]; simpl; intros ? [? ?]; assumption).
  assert (Forall (fun x => x <= hi) roots) as U
    by (eapply Forall_impl; [|exact H]; simpl; intros ? [? ?]; assumption).
  unfold post. destruct (fam (f_m c)); try assumption.
  pose proof (mo_avg_nonneg _ _ Hm N) as N'. pose proof (mo_avg_upper hi _ _ Hh Hm U) as U'.
  clear - N' U'. induction N'; inversion U'; subst; constructor; [split; assumption | auto].
Qed.

(* scaled errors: invariant under rescaling all series by c > 0, provided the in-sample naive
   error is not clamped (>= EPS) before and after *)
Definition scaled_den (k : pw0) (a : aggk) (sp : nat) (mo : mout) (cols : list col) : list Q :=
  mo_avg mo (map (fun cl => agg a None (naive_errs k sp (c_train cl))) cols).
Definition scaled_num (k : pw0) (a : aggk) (mo : mout) hw (cols : list col) : list Q :=
  mo_avg mo (map (fun cl => agg a hw (pt BPlain (P0 k) cl)) cols).

Lemma scaled_den_scale k a sp mo cols c : 0 < c ->
  eql (scaled_den k a sp mo (map (scale_col c) cols))
      (map (Qmult (sc k c)) (scaled_den k a sp mo cols)).
Proof.
  intro Hc. unfold scaled_den. eapply eql_trans; [|apply mo_avg_scale]. apply mo_avg_eql.
  rewrite !map_map. induction cols as [|cl cols IH]; simpl; constructor; [|assumption].
  rewrite <- (agg_scale (sc k c) a None _ (sc_pos k c Hc)). apply agg_eql. apply naive_scale.
  assumption.
Qed.
Lemma scaled_num_scale k a mo hw cols c : 0 < c ->
  eql (scaled_num k a mo hw (map (scale_col c) cols))
      (map (Qmult (sc k c)) (scaled_num k a mo hw cols)).
Proof.
  intro Hc. unfold scaled_num. eapply eql_trans; [|apply mo_avg_scale]. apply mo_avg_eql.
  rewrite !map_map. induction cols as [|cl cols IH]; simpl; constructor; [|assumption].
  rewrite <- (agg_scale (sc k c) a hw _ (sc_pos k c Hc)). apply agg_eql. apply pt_plain_scale.
  assumption.
Qed.
Lemma ratio_scale s num : 0 < s -> forall den num' den',
  eql num' (map (Qmult s) num) -> eql den' (map (Qmult s) den) ->
  Forall (fun d => EPS <= d) den -> Forall (fun d => EPS <= d) den' ->
  eql (ratio num' den') (ratio num den).
Proof.
  intro Hs. unfold ratio, map2. induction num as [|x num IH]; intros den num' den' Hn Hd H1 H2.
  - inversion Hn; subst. constructor.
  - inversion Hn as [|x' y l' ln Hx Hn']; subst. destruct den as [|d den].
    + inversion Hd; subst. simpl. constructor.
    + inversion Hd as [|d' dy dl' dl Hdx Hd']; subst.
      inversion H1; subst. inversion H2; subst. cbn [combine map fst snd]. constructor.
      * rewrite (qmax_hyp _ H3), (qmax_hyp _ H5), Hx, Hdx.
        pose proof EPS_pos. field. split; lra.
      * apply IH; assumption.
Qed.
Theorem scaled_scale_invariant k a sp rt mo hw cols c : 0 < c ->
  let m := mkmetric (FScaled k a sp) rt in
  Forall (fun d => EPS <= d) (scaled_den k a sp mo cols) ->
  Forall (fun d => EPS <= d) (scaled_den k a sp mo (map (scale_col c) cols)) ->
  eql (pre_values (mkfcase m mo hw (map (scale_col c) cols))) (pre_values (mkfcase m mo hw cols)).
Proof.
  intros Hc m H1 H2. unfold pre_values. simpl.
  apply (ratio_scale (sc k c)); try assumption.
  - apply sc_pos. assumption.
  - apply (scaled_num_scale k a mo hw cols c Hc).
  - apply (scaled_den_scale k a sp mo cols c Hc).
Qed.

(* multi-output: raw values are the univariate metric of each column *)
Theorem raw_is_columnwise m hw cols :
  pre_values (mkfcase m Raw hw cols) =
  flat_map (fun cl => pre_values (mkfcase m Raw hw [cl])) cols.
Proof.
  unfold pre_values. cbn [f_m f_mo f_hw f_cols mo_avg]. destruct (fam m) as [b k a|k a sp|k a].
  - induction cols as [|cl cols IH]; cbn [map flat_map app]; [reflexivity | f_equal; exact IH].
  - unfold ratio, map2. induction cols as [|cl cols IH]; cbn [map flat_map app combine fst snd];
      [reflexivity | f_equal; exact IH].
  - unfold ratio, map2. induction cols as [|cl cols IH]; cbn [map flat_map app combine fst snd];
      [reflexivity | f_equal; exact IH].
Qed.
Theorem simple_ignores_mo b k a rt mo hw cols :
  let m := mkmetric (FSimple b k a) rt in
  pre_values (mkfcase m mo hw cols) = pre_values (mkfcase m Raw hw cols) /\
  forall roots, post (mkfcase m mo hw cols) roots = mo_avg mo roots.
Proof. split; reflexivity. Qed.

(* ---------------------------------------------------------------- values returned *)

(* v is the value of the metric on case c: the implementation's per-output results are the
   non-negative roots of the pre-root quantities, aggregated over outputs by `post` *)
Definition roots_of (deg : Z) (roots pre : list Q) : Prop :=
  Forall2 (fun s x => 0 <= s /\ s ^ deg == x) roots pre.
Definition is_value (c : fcase) (v : list Q) : Prop :=
  exists roots, roots_of (root_deg c) roots (pre_values c) /\ eql v (post c roots).

Lemma roots_nonneg deg r pre : roots_of deg r pre -> all_nonneg r.
Proof. induction 1; constructor; [destruct H; assumption | assumption]. Qed.
Lemma roots_unique deg r r' pre pre' : (0 < deg)%Z -> eql pre pre' ->
  roots_of deg r pre -> roots_of deg r' pre' -> eql r r'.
Proof.
  intros Hd He Hr; revert r' pre' He. destruct deg as [|n|n]; try lia.
  induction Hr as [|s x r pre [Hs Hx] Hr IH]; intros r' pre' He Hr'.
  - inversion He; subst. inversion Hr'; subst. constructor.
  - inversion He as [|? x' ? pre2 Exx He2]; subst. inversion Hr' as [|s' ? r2 ? [Hs' Hx'] Hr2]; subst.
    constructor; [|apply (IH r2 pre2); assumption].
    apply (root_unique n); try assumption. rewrite Hx, Hx', Exx. reflexivity.
Qed.
Lemma roots_compat deg r pre pre' : eql pre pre' -> roots_of deg r pre -> roots_of deg r pre'.
Proof.
  intros He Hr; revert pre' He. induction Hr as [|s x r pre [Hs Hx] Hr IH]; intros pre' He;
    inversion He; subst; constructor; [|apply IH; assumption].
  split; [assumption|]. rewrite Hx. assumption.
Qed.
Lemma roots_deg1 pre : all_nonneg pre -> roots_of 1 pre pre.
Proof. induction 1; constructor; [split; [assumption | apply Qpower_1_r] | assumption]. Qed.
Lemma post_eql c r r' : eql r r' -> eql (post c r) (post c r').
Proof. intro H. unfold post. destruct (fam (f_m c)); [apply mo_avg_eql|..]; assumption. Qed.

(* the value is determined by the model *)
Theorem value_unique c v v' : (0 < root_deg c)%Z -> is_value c v -> is_value c v' -> eql v v'.
Proof.
  intros Hd [r [Hr Hv]] [r' [Hr' Hv']].
  pose proof (roots_unique _ _ _ _ _ Hd (eql_refl _) Hr Hr') as E.
  eapply eql_trans; [exact Hv|]. eapply eql_trans; [apply post_eql; exact E|].
  apply eql_sym. exact Hv'.
Qed.
(* without a root the value is just the rational formula *)
Theorem value_unrooted c : wf c -> root_deg c = 1%Z -> is_value c (post c (pre_values c)).
Proof.
  intros Hw Hd. exists (pre_values c). split; [|apply eql_refl].
  rewrite Hd. apply roots_deg1. apply pre_values_nonneg. assumption.
Qed.

Theorem value_nonneg c v : wf c -> is_value c v -> all_nonneg v.
Proof.
  intros Hw [r [Hr Hv]]. apply (all_nonneg_compat (post c r)); [apply eql_sym; assumption|].
  apply post_nonneg; [assumption | eapply roots_nonneg; eassumption].
Qed.

Lemma root_deg_simple c : fam_agg (fam (f_m c)) <> GMean -> root_deg c = 1%Z \/ root_deg c = 2%Z.
Proof.
  unfold root_deg. intro H. destruct (fam (f_m c)) as [b k a|k a sp|k a]; simpl in H;
    try destruct a; try congruence; destruct (rooted (f_m c)); auto.
Qed.

Theorem value_zero_at_perfect c v : Forall perfect (f_cols c) -> fam_agg (fam (f_m c)) <> GMean ->
  is_value c v -> Forall (fun x => x == 0) v.
Proof.
  intros Hp Hg [r [Hr Hv]]. pose proof (pre_values_perfect c Hp Hg) as Z.
  assert (Forall (fun x => x == 0) r) as Zr.
  { destruct (root_deg_simple c Hg) as [E|E]; rewrite E in Hr; clear - Hr Z;
      induction Hr as [|s x r pre [Hs Hx] Hr IH]; inversion Z; subst; constructor; auto.
    - rewrite Qpower_1_r in Hx. rewrite Hx. assumption.
    - apply (root_zero 2). rewrite Hx. assumption. }
  pose proof (post_zero c r Zr) as Zp. clear - Hv Zp.
  induction Hv; inversion Zp; subst; constructor; auto. rewrite H. assumption.
Qed.

(* geometric means at a perfect forecast: every per-output value is the EPS floor (its square is,
   when the square root is requested) *)
Theorem gmean_value_floor b k rt mo hw cols n r :
  Forall perfect cols -> Forall (shaped n) cols -> (forall w, hw = Some w -> length w = n) ->
  (0 < gm_deg (gm_weights hw n))%Z -> cols <> [] ->
  let c := mkfcase (mkmetric (FSimple b k GMean) rt) mo hw cols in
  roots_of (root_deg c) r (pre_values c) ->
  Forall (fun s => (if rt then s * s else s) == EPS) r.
Proof.
  intros Hp Hs Hw Hd Hne c Hr.
  pose proof (gmean_perfect_floor b k rt mo hw cols n Hp Hs Hw) as F. fold c in F.
  assert (horizon c = n) as Hh.
  { unfold horizon, c. simpl. destruct cols as [|cl cols]; [congruence|].
    inversion Hs; subst. destruct H1 as [L _]. exact L. }
  unfold root_deg in Hr. rewrite Hh in Hr. simpl in Hr.
  remember (gm_deg (gm_weights hw n)) as K0 eqn:EK.
  destruct K0 as [|K|K]; try lia.
  cbv zeta in F. revert Hr F. generalize (pre_values c). clear. intros pre Hr F.
  induction Hr as [|s x r pre [Hs Hx] Hr IH]; inversion F; subst; constructor; auto.
  destruct rt.
  - apply (root_unique K); [nra | apply Qlt_le_weak; apply EPS_pos|].
    rewrite <- H1, <- Hx. change (s * s) with (s ^ 2) at 1. rewrite <- Qpower_mult. reflexivity.
  - apply (root_unique K); [assumption | apply Qlt_le_weak; apply EPS_pos|].
    rewrite <- H1, <- Hx. rewrite Z.mul_1_l. reflexivity.
Qed.

(* transport of values along pointwise-equal pre-root quantities *)
Lemma value_transfer c c' v : root_deg c = root_deg c' -> (forall r, post c r = post c' r) ->
  eql (pre_values c) (pre_values c') -> is_value c v -> is_value c' v.
Proof.
  intros Hd Hp He [r [Hr Hv]]. exists r. rewrite <- Hd, <- Hp. split; [|assumption].
  eapply roots_compat; eassumption.
Qed.

Theorem pct_symmetric_value k a rt mo hw cols v : a <> GMean ->
  let m := mkmetric (FSimple (BPct true) k a) rt in
  is_value (mkfcase m mo hw (map swap_col cols)) v <-> is_value (mkfcase m mo hw cols) v.
Proof.
  intros Ha m.
  assert (forall cs cs', root_deg (mkfcase m mo hw cs) = root_deg (mkfcase m mo hw cs')) as Hd.
  { intros. unfold root_deg. simpl. destruct a; congruence. }
  split; apply value_transfer; try apply Hd; try reflexivity.
  - apply pct_symmetric_swap. assumption.
  - apply eql_sym. apply pct_symmetric_swap. assumption.
Qed.

Theorem pct_symmetric_value_range k a rt mo hw cols v : a <> GMean -> hw_ok hw -> mo_ok mo ->
  let m := mkmetric (FSimple (BPct true) (P0 k) a) rt in
  is_value (mkfcase m mo hw cols) v ->
  Forall (fun x => 0 <= x <= (if rt then 2 else match k with PAbs => 2 | PSq => 4 end)) v.
Proof.
  intros Ha Hw Hm m [r [Hr Hv]].
  set (hi := if rt then 2 else match k with PAbs => 2 | PSq => 4 end).
  assert (0 <= hi) as Hh by (unfold hi; destruct rt, k; lra).
  assert (Forall (fun x => 0 <= x <= hi) r) as R.
  { assert (Forall (fun x => 0 <= x <= match k with PAbs => 2 | PSq => 4 end)
                   (pre_values (mkfcase m mo hw cols))) as P.
    { destruct k; [|apply pct_symmetric_sq_range; assumption].
      pose proof (pct_symmetric_abs_range a mo hw cols Ha Hw) as P0.
      unfold m. unfold pre_values in *. simpl in *. exact P0. }
    unfold root_deg in Hr. simpl in Hr.
    assert ((if rt then 2 else 1) * match a with GMean => gm_deg (gm_weights hw (horizon (mkfcase m mo hw cols))) | _ => 1 end
            = if rt then 2 else 1)%Z as Ed by (destruct a, rt; try congruence; reflexivity).
    rewrite Ed in Hr. clear Ed.
    clear Hv. revert Hr P. generalize (pre_values (mkfcase m mo hw cols)). intros pre0 Hr P.
    induction Hr as [|s x r pre [Hs Hx] Hr IH]; [constructor|].
    inversion P as [|? ? Px Pt]; subst. constructor; [|apply IH; exact Pt].
    unfold hi. destruct rt.
    - split; [assumption|]. apply (sqrt_le_2 s x); [assumption | assumption|].
      destruct k; lra.
    - rewrite Qpower_1_r in Hx. rewrite Hx. assumption. }
  pose proof (post_range hi (mkfcase m mo hw cols) r Hh Hm R) as PR. clear - Hv PR.
  induction Hv; inversion PR; subst; constructor; auto. rewrite H. assumption.
Qed.

Theorem scaled_value_invariant k a sp rt mo hw cols c v : 0 < c ->
  let m := mkmetric (FScaled k a sp) rt in
  Forall (fun d => EPS <= d) (scaled_den k a sp mo cols) ->
  Forall (fun d => EPS <= d) (scaled_den k a sp mo (map (scale_col c) cols)) ->
  (is_value (mkfcase m mo hw (map (scale_col c) cols)) v <-> is_value (mkfcase m mo hw cols) v).
Proof.
  intros Hc m H1 H2.
  split; apply value_transfer; try reflexivity.
  - apply scaled_scale_invariant; assumption.
  - apply eql_sym. apply scaled_scale_invariant; assumption.
Qed.

(* horizon weights only matter up to a common positive factor *)
Lemma map_eql {A} (f g : A -> Q) l : (forall a, f a == g a) -> eql (map f l) (map g l).
Proof. intro H. induction l; simpl; constructor; [apply H | assumption]. Qed.
Lemma ratio_eql n n' d d' : eql n n' -> eql d d' -> eql (ratio n d) (ratio n' d').
Proof.
  intros Hn; revert d d'. unfold ratio, map2.
  induction Hn as [|x y l l' Hx Hn IH]; intros d d' Hd; [constructor|].
  inversion Hd as [|dx dy dl dl' Hdx Hd']; subst; simpl; constructor; [|apply IH; assumption].
  rewrite Hx. rewrite (qmax_compat dx dy EPS EPS Hdx (Qeq_refl EPS)). reflexivity.
Qed.
Theorem horizon_weights_scale_free m mo w cols c : 0 < c -> fam_agg (fam m) <> GMean ->
  eql (pre_values (mkfcase m mo (Some (map (Qmult c) w)) cols))
      (pre_values (mkfcase m mo (Some w) cols)).
Proof.
  intros Hc Hg. unfold pre_values. simpl. destruct (fam m) as [b k a|k a sp|k a]; simpl in Hg.
  - apply map_eql. intro cl. unfold col_agg.
    destruct a; try congruence; apply agg_weights_scale_free; assumption.
  - apply ratio_eql; [|apply eql_refl]. apply mo_avg_eql. apply map_eql. intro cl.
    apply agg_weights_scale_free; assumption.
  - apply ratio_eql; apply mo_avg_eql; apply map_eql; intro cl;
      apply agg_weights_scale_free; assumption.
Qed.

(* ---------------------------------------------------------------- a concrete instance *)

Fixpoint roots_okb (deg : Z) (r pre : list Q) : bool :=
  match r, pre with
  | [], [] => true
  | s :: r', x :: p' => Qle_bool 0 s && Qeq_bool (s ^ deg) x && roots_okb deg r' p'
  | _, _ => false
  end.
Lemma roots_okb_sound deg r pre : roots_okb deg r pre = true -> roots_of deg r pre.
Proof.
  revert pre; induction r as [|s r IH]; intros [|x pre] H; simpl in H; try discriminate.
  - constructor.
  - apply andb_true_iff in H. destruct H as [H H3]. apply andb_true_iff in H. destruct H as [H1 H2].
    constructor; [|apply IH; assumption]. split; [apply Qle_bool_iff | apply Qeq_bool_iff]; assumption.
Qed.
Lemma Forall_ge_eps l : forallb (Qle_bool EPS) l = true -> Forall (fun d => EPS <= d) l.
Proof.
  intro H. apply Forall_forall. intros x Hx. rewrite forallb_forall in H.
  apply Qle_bool_iff. apply H. exact Hx.
Qed.

Lemma nonvacuous_example :
  let cols := [mkcol [3; 1] [1; 1] [] [0; 2; 4]; mkcol [0; 2] [2; 2] [] [5; 2; 5]] in
  let m := mkmetric (FScaled PSq Mean 1) true in
  wf (mkfcase m Raw (Some [1; 3]) cols) /\
  Forall (fun d => EPS <= d) (scaled_den PSq Mean 1 Raw cols) /\
  Forall (fun d => EPS <= d) (scaled_den PSq Mean 1 Raw (map (scale_col 3) cols)) /\
  is_value (mkfcase m Raw (Some [1; 3]) cols) [1 # 2; 1 # 3] /\
  is_value (mkfcase m Raw (Some [1; 3]) (map (scale_col 3) cols)) [1 # 2; 1 # 3].
Proof.
  cbv zeta. split.
  { split; simpl; [|exact I]. repeat constructor; unfold nonneg; lra. }
  split; [apply Forall_ge_eps; vm_compute; reflexivity|].
  split; [apply Forall_ge_eps; vm_compute; reflexivity|].
  split.
  - exists [1 # 2; 1 # 3]. split; [apply roots_okb_sound; vm_compute; reflexivity | apply eql_refl].
  - exists [1 # 2; 1 # 3]. split; [apply roots_okb_sound; vm_compute; reflexivity | apply eql_refl].
Qed.
