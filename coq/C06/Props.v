(* C06 property theorems.  Nothing but statements closed by `exact`, each followed by
   Print Assumptions.  `gen_*` are regenerated from _functions.py on this run (Gen.v).

   Reading guide.  A metric call is an `fcase` (metric, multioutput mode, optional horizon weights,
   one `col` per output with its y_true / y_pred / y_bench / y_train).  `pre_values c` is the
   rational quantity under the root, `root_deg c` the degree of the root (1 = none, 2 = square
   root, sum of weights for a geometric mean), `post` the averaging over outputs applied after the
   root, and `is_value c v` says that v is what the metric returns: v = post(roots) for the
   non-negative roots of pre_values.  sqrt / exp / log are never computed: they are characterised. *)
From Coq Require Import QArith Qabs List Bool ZArith Permutation.
From Coq Require String.
Require Import SkV.C06.Model SkV.C06.Gen SkV.C06.Bridge SkV.C06.Agg SkV.C06.Proofs SkV.C06.GMean.
Require Import SkV.C06.Wrap SkV.C06.WrapSem SkV.C06.GenWrap.
Import ListNotations.
Open Scope Q_scope.

(* ---- the code is the published definition (regenerated from the source, all arguments) *)

Theorem C06_code_point_losses : forall n o t p bn e, gen_point n o t p bn = Some e ->
  match fam (gen_struct n o) with
  | FSimple b k _ => e = point1 b k t p bn
  | _ => False
  end.
Proof. exact gen_point_eq. Qed.
Print Assumptions C06_code_point_losses.

Theorem C06_point_loss_is_per_step : forall b k c,
  pt b k c = match b with
             | BRel => map3 (point1 b k) (c_true c) (c_pred c) (c_bench c)
             | _ => map2 (fun t p => point1 b k t p 0) (c_true c) (c_pred c)
             end.
Proof. exact pt_is_pointwise. Qed.
Print Assumptions C06_point_loss_is_per_step.

(* each of the 18 functions: helper, point loss, aggregate, root and output handling as published *)
Theorem C06_code_structure_is_textbook : forall n o, gen_struct n o = textbook n o.
Proof. exact gen_struct_eq. Qed.
Print Assumptions C06_code_structure_is_textbook.

Theorem C06_code_defaults_as_documented : forall n, gen_defaults n = documented_defaults n.
Proof. exact gen_defaults_eq. Qed.
Print Assumptions C06_code_defaults_as_documented.

(* ---- the helpers are the published formulas; the EPS clamps only act where those are undefined *)

Theorem C06_percentage_error_published : forall t p,
  (EPS <= Qabs t -> pct_err false t p == (t - p) / Qabs t) /\
  (EPS <= Qabs t + Qabs p -> pct_err true t p == 2 * Qabs (t - p) / (Qabs t + Qabs p)).
Proof. exact (fun t p => conj (pct_asym_unclamped t p) (pct_sym_unclamped t p)). Qed.
Print Assumptions C06_percentage_error_published.

(* relative error: the denominator y_true - y_bench keeps its sign (0 counts as positive), is
   pushed away from 0 to +-EPS, and is untouched when |y_true - y_bench| >= EPS *)
Theorem C06_relative_error_sign_clamp : forall t p b,
  rel_err t p b == (t - p) / rel_den t b /\
  (0 <= t - b -> EPS <= rel_den t b /\ rel_den t b == qmax (t - b) EPS) /\
  (t - b < 0 -> rel_den t b <= - EPS /\ rel_den t b == qmin (t - b) (- EPS)) /\
  (EPS <= Qabs (t - b) -> rel_den t b == t - b).
Proof. exact (fun t p b => conj (Qeq_refl _) (rel_den_spec t b)). Qed.
Print Assumptions C06_relative_error_sign_clamp.

Theorem C06_asymmetric_switch : forall thr lf rf e,
  (e < thr -> pwf (PAsym thr lf rf) e = pwf0 lf e) /\
  (thr <= e -> pwf (PAsym thr lf rf) e = pwf0 rf e) /\
  pwf (PAsym thr lf lf) e = pwf (P0 lf) e.
Proof.
  exact (fun thr lf rf e => conj (asym_left thr lf rf e) (conj (asym_right thr lf rf e)
                                                                (asym_same thr lf e))).
Qed.
Print Assumptions C06_asymmetric_switch.

(* ---- aggregates *)

Theorem C06_median_is_middle_order_statistic : forall l, exists s, Permutation l s /\ sorted s /\
  median l = (let n := length l in
              if Nat.even n then (nth (n / 2 - 1) s 0 + nth (n / 2) s 0) / 2 else nth (n / 2) s 0).
Proof. exact median_spec. Qed.
Print Assumptions C06_median_is_middle_order_statistic.

(* horizon-weighted medians are sklearn's LOWER weighted median *)
Theorem C06_weighted_median_is_lower_weighted_median : forall w l,
  length w = length l -> 0 < qsum w ->
  exists s1 v wv s2,
    Permutation (combine l w) (s1 ++ (v, wv) :: s2) /\ psorted (s1 ++ (v, wv) :: s2) /\
    wpercentile w l = v /\
    qsum (map snd s1) < qsum w * (1 # 2) /\ qsum w * (1 # 2) <= qsum (map snd s1) + wv.
Proof. exact wpercentile_spec. Qed.
Print Assumptions C06_weighted_median_is_lower_weighted_median.

Theorem C06_horizon_weights_scale_free : forall m mo w cols c,
  0 < c -> fam_agg (fam m) <> GMean ->
  eql (pre_values (mkfcase m mo (Some (map (Qmult c) w)) cols))
      (pre_values (mkfcase m mo (Some w) cols)).
Proof. exact horizon_weights_scale_free. Qed.
Print Assumptions C06_horizon_weights_scale_free.

Theorem C06_equal_horizon_weights_are_no_weights : forall c l,
  ~ c == 0 -> agg Mean (Some (repeat c (length l))) l == agg Mean None l.
Proof. exact agg_equal_weights. Qed.
Print Assumptions C06_equal_horizon_weights_are_no_weights.

Theorem C06_zero_weight_step_is_ignored : forall w l x, wmean (0 :: w) (x :: l) == wmean w l.
Proof. exact wmean_zero_weight. Qed.
Print Assumptions C06_zero_weight_step_is_ignored.

(* geometric means: the model uses integer weights proportional to the horizon weights; which
   common multiple is used does not matter (r2 = 2 when the square root is taken as well) *)
Theorem C06_gmean_any_proportional_integer_weights : forall a b r2 W W' l s,
  (0 < a)%Z -> (0 < b)%Z -> map (Z.mul a) W' = map (Z.mul b) W -> Forall (fun x => 0 <= x) l ->
  0 <= s ->
  (s ^ (r2 * gm_deg W') == gm_pre W' l <-> s ^ (r2 * gm_deg W) == gm_pre W l).
Proof. exact gm_roots_proportional. Qed.
Print Assumptions C06_gmean_any_proportional_integer_weights.

Theorem C06_gmean_horizon_weights_scale_free : forall b k rt mo w cols c v, 0 < c ->
  let m := mkmetric (FSimple b k GMean) rt in
  is_value (mkfcase m mo (Some (map (Qmult c) w)) cols) v <->
  is_value (mkfcase m mo (Some w) cols) v.
Proof. exact gmean_weights_scale_free. Qed.
Print Assumptions C06_gmean_horizon_weights_scale_free.

Theorem C06_gmean_equal_horizon_weights_are_no_weights : forall b k rt mo cols n c v,
  0 < c -> Forall (shaped n) cols ->
  let m := mkmetric (FSimple b k GMean) rt in
  is_value (mkfcase m mo (Some (repeat c n)) cols) v <-> is_value (mkfcase m mo None cols) v.
Proof. exact gmean_equal_weights. Qed.
Print Assumptions C06_gmean_equal_horizon_weights_are_no_weights.

Theorem C06_gmean_zero_weight_step_is_ignored : forall W l x,
  gm_pre (0%Z :: W) (x :: l) == gm_pre W l /\ gm_deg (0%Z :: W) = gm_deg W.
Proof. exact gm_zero_weight_step. Qed.
Print Assumptions C06_gmean_zero_weight_step_is_ignored.

(* ---- values *)

(* the model determines the returned value *)
Theorem C06_value_determined : forall c v v',
  (0 < root_deg c)%Z -> is_value c v -> is_value c v' -> eql v v'.
Proof. exact value_unique. Qed.
Print Assumptions C06_value_determined.

Theorem C06_value_without_root_is_the_formula : forall c,
  wf c -> root_deg c = 1%Z -> is_value c (post c (pre_values c)).
Proof. exact value_unrooted. Qed.
Print Assumptions C06_value_without_root_is_the_formula.

Theorem C06_loss_nonneg : forall c v, wf c -> is_value c v -> Forall (fun x => 0 <= x) v.
Proof. exact value_nonneg. Qed.
Print Assumptions C06_loss_nonneg.

Theorem C06_loss_zero_at_perfect_forecast : forall c v,
  Forall perfect (f_cols c) -> fam_agg (fam (f_m c)) <> GMean ->
  is_value c v -> Forall (fun x => x == 0) v.
Proof. exact value_zero_at_perfect. Qed.
Print Assumptions C06_loss_zero_at_perfect_forecast.

Theorem C06_gmean_floor_at_perfect_forecast : forall b k rt mo hw cols n r,
  Forall perfect cols -> Forall (shaped n) cols -> (forall w, hw = Some w -> length w = n) ->
  (0 < gm_deg (gm_weights hw n))%Z -> cols <> [] ->
  let c := mkfcase (mkmetric (FSimple b k GMean) rt) mo hw cols in
  roots_of (root_deg c) r (pre_values c) ->
  Forall (fun s => (if rt then s * s else s) == EPS) r.
Proof. exact gmean_value_floor. Qed.
Print Assumptions C06_gmean_floor_at_perfect_forecast.

Theorem C06_symmetric_percentage_swap_invariant : forall k a rt mo hw cols v, a <> GMean ->
  let m := mkmetric (FSimple (BPct true) k a) rt in
  is_value (mkfcase m mo hw (map swap_col cols)) v <-> is_value (mkfcase m mo hw cols) v.
Proof. exact pct_symmetric_value. Qed.
Print Assumptions C06_symmetric_percentage_swap_invariant.

(* sMAPE, sMdAPE and the rooted squared versions lie in [0,2]; the unrooted squared ones in [0,4] *)
Theorem C06_symmetric_percentage_range : forall k a rt mo hw cols v,
  a <> GMean -> hw_ok hw -> mo_ok mo ->
  let m := mkmetric (FSimple (BPct true) (P0 k) a) rt in
  is_value (mkfcase m mo hw cols) v ->
  Forall (fun x => 0 <= x <= (if rt then 2 else match k with PAbs => 2 | PSq => 4 end)) v.
Proof. exact pct_symmetric_value_range. Qed.
Print Assumptions C06_symmetric_percentage_range.

(* scaled errors: invariant under rescaling by c > 0 when the in-sample naive error is not clamped
   (Refuted.v: false without that hypothesis) *)
Theorem C06_scaled_error_scale_invariant : forall k a sp rt mo hw cols c v, 0 < c ->
  let m := mkmetric (FScaled k a sp) rt in
  Forall (fun d => EPS <= d) (scaled_den k a sp mo cols) ->
  Forall (fun d => EPS <= d) (scaled_den k a sp mo (map (scale_col c) cols)) ->
  (is_value (mkfcase m mo hw (map (scale_col c) cols)) v <-> is_value (mkfcase m mo hw cols) v).
Proof. exact scaled_value_invariant. Qed.
Print Assumptions C06_scaled_error_scale_invariant.

(* multi-output: raw values are the univariate metric of each column; averages are taken after *)
Theorem C06_multioutput_raw_is_columnwise : forall m hw cols,
  pre_values (mkfcase m Raw hw cols) =
  flat_map (fun cl => pre_values (mkfcase m Raw hw [cl])) cols.
Proof. exact raw_is_columnwise. Qed.
Print Assumptions C06_multioutput_raw_is_columnwise.

Theorem C06_multioutput_average_of_columns : forall b k a rt mo hw cols,
  let m := mkmetric (FSimple b k a) rt in
  pre_values (mkfcase m mo hw cols) = pre_values (mkfcase m Raw hw cols) /\
  forall roots, post (mkfcase m mo hw cols) roots = mo_avg mo roots.
Proof. exact simple_ignores_mo. Qed.
Print Assumptions C06_multioutput_average_of_columns.

(* ---- classes.  `gen_wrappers` is the table of wrapper facts regenerated from _classes.py (which
   function a class wraps, its constructor parameters, what the constructor stores, whether
   __call__ takes and forwards **kwargs, which attribute it passes under which keyword).  Bridge.v
   proves on every run that all 18 rows are well-formed wrappers; the theorems below are therefore
   unconditional over the table. *)

(* each class, called with the series its function needs, calls that function with every
   constructor argument under its own name: "the function with the same options" *)
Theorem C06_class_eq_function : forall w s, In (w, s) gen_wrappers ->
  exists b, class_call w s (s_series s) = Calls (s_name s) b /\
            same_bindings b (same_options w) = true.
Proof. exact class_eq_function. Qed.
Print Assumptions C06_class_eq_function.

(* ... and what it computes is the published formula of that function under the options given to
   the constructor, whatever they are: no option the formula depends on is dropped, renamed or
   replaced by a constant *)
Theorem C06_class_computes_the_function_formula : forall w s, In (w, s) gen_wrappers ->
  exists n, fname n = s_name s /\
    forall user, class_metric gen_defaults w s user = Some (textbook n user).
Proof. exact class_metric_is_textbook. Qed.
Print Assumptions C06_class_computes_the_function_formula.

(* without the series the function needs, a class call is the function's own TypeError; a series
   the function does not take is a TypeError as well *)
Theorem C06_class_needs_exactly_its_series : forall w s given, In (w, s) gen_wrappers ->
  subset given (s_series s) && subset (s_series s) given = false -> class_call w s given = TypeErr.
Proof. exact class_series_required. Qed.
Print Assumptions C06_class_needs_exactly_its_series.

(* a default-constructed class runs with the documented defaults of its function *)
Theorem C06_class_defaults_are_function_defaults :
  forall cls f cd, In (cls, f, cd) gen_ctor_defaults ->
  exists n, fname n = f /\ defaults_agree (documented_defaults n) cd = true.
Proof. exact ctor_defaults_documented. Qed.
Print Assumptions C06_class_defaults_are_function_defaults.

(* the criterion is discriminating: a wrapper that fails it either raises or loses / renames an
   argument (Refuted.v lists the four shapes 0.6.0 had before the fix commits) *)
Theorem C06_class_not_ok_is_visible : forall w s, wrapper_ok w s = false ->
  match class_call w s (s_series s) with
  | Calls f b => same_bindings b (same_options w) = false \/ f <> s_name s
  | _ => True
  end.
Proof. exact wrapper_not_ok. Qed.
Print Assumptions C06_class_not_ok_is_visible.

(* every metric function has exactly one class in the regenerated table *)
Theorem C06_every_function_has_a_class :
  length gen_wrappers = 18%nat /\
  forallb (fun ws => String.eqb (w_func (fst ws)) (s_name (snd ws))) gen_wrappers = true /\
  forall n, exists w s, In (w, s) gen_wrappers /\ s_name s = fname n.
Proof. exact every_function_has_a_class. Qed.
Print Assumptions C06_every_function_has_a_class.

(* non-vacuity: RMSSE on a concrete two-output instance satisfies every hypothesis above and has
   a value, which the scale-invariance theorem transports to the data rescaled by 3 *)
Example C06_nonvacuous :
  let cols := [mkcol [3; 1] [1; 1] [] [0; 2; 4]; mkcol [0; 2] [2; 2] [] [5; 2; 5]] in
  let m := mkmetric (FScaled PSq Mean 1) true in
  wf (mkfcase m Raw (Some [1; 3]) cols) /\
  Forall (fun d => EPS <= d) (scaled_den PSq Mean 1 Raw cols) /\
  Forall (fun d => EPS <= d) (scaled_den PSq Mean 1 Raw (map (scale_col 3) cols)) /\
  is_value (mkfcase m Raw (Some [1; 3]) cols) [1 # 2; 1 # 3] /\
  is_value (mkfcase m Raw (Some [1; 3]) (map (scale_col 3) cols)) [1 # 2; 1 # 3].
Proof. exact nonvacuous_example. Qed.
Print Assumptions C06_nonvacuous.

(* non-vacuity of the geometric-mean theorems: horizon weights 1/2, 1/2, 1 on relative errors
   4, 1, 2 give integer weights 1, 1, 2, degree 4, product 16, value 2 - and the same value when
   all weights are multiplied by 3/2 *)
Example C06_nonvacuous_gmean :
  let cols := [mkcol [5; 2; 3] [1; 1; 1] [4; 1; 2] []] in
  let m := mkmetric (FSimple BRel (P0 PAbs) GMean) false in
  gm_weights (Some [1 # 2; 1 # 2; 1]) 3 = [1; 1; 2]%Z /\
  is_value (mkfcase m Raw (Some [1 # 2; 1 # 2; 1]) cols) [2] /\
  is_value (mkfcase m Raw (Some (map (Qmult (3 # 2)) [1 # 2; 1 # 2; 1])) cols) [2].
Proof. exact gmean_weighted_example. Qed.
Print Assumptions C06_nonvacuous_gmean.
