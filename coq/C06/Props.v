From Coq Require Import QArith Qabs List Bool ZArith.
Require Import SkV.C06.Model SkV.C06.Proofs.
Import ListNotations.
Open Scope Q_scope.

Theorem C06_eps_pos : 0 < EPS.
Proof. exact EPS_pos. Qed.
Print Assumptions C06_eps_pos.
