(* C06: statements that are FALSE, with witnesses.
   1. scale invariance of scaled errors without the "naive error not clamped" hypothesis (this is
      a limit of the property, not a defect: it shows the hypothesis of the theorem is needed);
   2. HISTORICAL: the wrapper shapes four metric classes had in sktime 0.6.0 before the fix
      commits (findings F-C06-1..5, all repaired - see notes/C06.md).  They are kept only to show
      that the criterion `wrapper_ok`, which Bridge.v now proves for every class of the regenerated
      table, rejects exactly these shapes: if one of them came back, gen_wrappers_all_ok would stop
      checking.  Nothing here describes the current code. *)
From Coq Require Import QArith Qabs List Bool ZArith.
Require Import SkV.C06.Model SkV.C06.Agg SkV.C06.Proofs.
Import ListNotations.
Open Scope Q_scope.

(* constant training series: the in-sample naive error is 0 and is clamped to EPS, so
   MASE = MAE / EPS, which scales with the data *)
Theorem scaled_scale_invariant_needs_hyp_refuted :
  exists k a sp rt mo hw cols c, 0 < c /\
    let m := mkmetric (FScaled k a sp) rt in
    ~ eql (pre_values (mkfcase m mo hw (map (scale_col c) cols)))
          (pre_values (mkfcase m mo hw cols)).
Proof.
  exists PAbs, Mean, 1%nat, false, Uniform, None, [mkcol [1] [0] [] [1; 1]], 2.
  split; [reflexivity|]. intros m H. pose proof (eql_nth _ _ 0%nat H) as E.
  vm_compute in E. discriminate E.
Qed.

(* ---------------------------------------------------------------- HISTORICAL wrapper shapes

   Hand-copied from the tree as it was before the fix commits.  The current classes are in the
   regenerated GenWrap.v and all pass (Bridge.gen_wrappers_all_ok). *)
Require Import SkV.C06.Wrap SkV.C06.WrapSem.
From Coq Require Import String.
Open Scope string_scope.

Definition old_mase := mkwrapper "MeanAbsoluteScaledError" "mean_absolute_scaled_error"
  ["sp"] [("sp", FromArg "sp")] false [].
Definition mase_sig := mkfsig "mean_absolute_scaled_error" ["sp"] ["y_train"].

(* was F-C06-1 / F-C06-2: __call__(y_true, y_pred) without **kwargs - the extra series cannot be
   passed, and without it the function refuses *)
Theorem old_call_without_kwargs_rejected :
  class_call old_mase mase_sig ["y_train"] = TypeErr /\ class_call old_mase mase_sig [] = TypeErr /\
  wrapper_ok old_mase mase_sig = false.
Proof. repeat split; reflexivity. Qed.

(* ... and the shape "accepts **kwargs but does not forward the stored sp" (a half repair) is
   rejected too: the call goes through with the function's default sp *)
Definition half_mase := mkwrapper "MeanAbsoluteScaledError" "mean_absolute_scaled_error"
  ["sp"] [("sp", FromArg "sp")] true [].
Theorem half_repaired_scaled_wrapper_rejected :
  wrapper_ok half_mase mase_sig = false /\
  class_metric documented_defaults half_mase mase_sig (mkopts true false 2 0 PSq PAbs PAbs Mean)
  = Some (textbook MASE (documented_defaults MASE)) /\
  textbook MASE (documented_defaults MASE) <>
  textbook MASE (mkopts true false 2 0 PSq PAbs PAbs Mean).
Proof. repeat split; try reflexivity. intro H. discriminate H. Qed.

Definition old_masym := mkwrapper "MeanAsymmetricError" "mean_asymmetric_error"
  ["asymmetric_threshold"; "left_error_function"; "right_error_function"]
  [("asymmetric_threshold", FromArg "asymmetric_threshold");
   ("left_error_function", FromArg "left_error_function");
   ("right_error_function", FromArg "right_error_function")] false
  [("asymmetric_threshold", "asymmetric_treshold"); ("left_error_function", "left_error_function");
   ("right_error_function", "right_error_function")].
Definition masym_sig := mkfsig "mean_asymmetric_error"
  ["asymmetric_threshold"; "left_error_function"; "right_error_function"] [].

(* was F-C06-3: attribute typo *)
Theorem old_attribute_typo_rejected :
  class_call old_masym masym_sig [] = AttrErr /\ wrapper_ok old_masym masym_sig = false.
Proof. split; reflexivity. Qed.

Definition old_relloss := mkwrapper "RelativeLoss" "relative_loss" ["relative_loss_function"]
  [("relative_loss_function", FromArg "relative_loss_function")] false
  [("loss_function", "_relative_func")].
Definition relloss_sig := mkfsig "relative_loss" ["relative_loss_function"] ["y_pred_benchmark"].

(* was F-C06-4: keyword and attribute that do not exist *)
Theorem old_relative_loss_call_rejected :
  class_call old_relloss relloss_sig [] = AttrErr /\
  class_call old_relloss relloss_sig ["y_pred_benchmark"] = TypeErr /\
  wrapper_ok old_relloss relloss_sig = false.
Proof. repeat split; reflexivity. Qed.

Definition old_msse := mkwrapper "MeanSquaredScaledError" "mean_squared_scaled_error"
  ["sp"; "square_root"] [("sp", Fixed); ("square_root", FromArg "square_root")] true
  [("sp", "sp"); ("square_root", "square_root")].
Definition msse_sig := mkfsig "mean_squared_scaled_error" ["sp"; "square_root"] ["y_train"].

(* was F-C06-5: the constructor stores a constant instead of its sp argument (shown here with the
   repaired __call__, i.e. the shape the tree has with every fix but that one) *)
Theorem old_constant_sp_rejected :
  lookup "sp" (w_attrs old_msse) = Some Fixed /\ wrapper_ok old_msse msse_sig = false /\
  forall user, class_metric documented_defaults old_msse msse_sig user = None.
Proof. repeat split; reflexivity. Qed.
