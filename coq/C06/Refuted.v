(* C06: statements that are FALSE, with witnesses.
   1. scale invariance of scaled errors without the "naive error not clamped" hypothesis;
   2. faithful models of the open findings on the metric classes (see notes/C06.md). *)
From Coq Require Import QArith Qabs List Bool ZArith.
Require Import SkV.C06.Model SkV.C06.Agg SkV.C06.Proofs.
Import ListNotations.
Open Scope Q_scope.

(* constant training series: the in-sample naive error is 0 and is clamped to EPS, so
   MASE = MAE / EPS, which scales with the data *)
Theorem scaled_scale_invariant_needs_hyp_refuted :
  exists k a sp rt mo hw cols c, 0 < c /\
    let m := mkmetric (FScaled k a sp) rt in
    ~ eql (pre_values (mkfcase m mo hw (map (scale_col c) cols)))
          (pre_values (mkfcase m mo hw cols)).
Proof.
  exists PAbs, Mean, 1%nat, false, Uniform, None, [mkcol [1] [0] [] [1; 1]], 2.
  split; [reflexivity|]. intros m H. pose proof (eql_nth _ _ 0%nat H) as E.
  vm_compute in E. discriminate E.
Qed.
