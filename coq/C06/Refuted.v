(* C06: statements that are FALSE, with witnesses.
   1. scale invariance of scaled errors without the "naive error not clamped" hypothesis;
   2. faithful models of the open findings on the metric classes (see notes/C06.md). *)
From Coq Require Import QArith Qabs List Bool ZArith.
Require Import SkV.C06.Model SkV.C06.Agg SkV.C06.Proofs.
Import ListNotations.
Open Scope Q_scope.

(* constant training series: the in-sample naive error is 0 and is clamped to EPS, so
   MASE = MAE / EPS, which scales with the data *)
Theorem scaled_scale_invariant_needs_hyp_refuted :
  exists k a sp rt mo hw cols c, 0 < c /\
    let m := mkmetric (FScaled k a sp) rt in
    ~ eql (pre_values (mkfcase m mo hw (map (scale_col c) cols)))
          (pre_values (mkfcase m mo hw cols)).
Proof.
  exists PAbs, Mean, 1%nat, false, Uniform, None, [mkcol [1] [0] [] [1; 1]], 2.
  split; [reflexivity|]. intros m H. pose proof (eql_nth _ _ 0%nat H) as E.
  vm_compute in E. discriminate E.
Qed.

(* ---------------------------------------------------------------- the metric classes of 0.6.0

   Faithful wrapper facts of four classes as they are in the unchanged tree (hand-copied; the
   regenerated table is GenWrap.v, and the correspondence run checks that the real classes behave
   as `class_call` predicts from the regenerated facts).  Each violates "the class returns what the
   function returns with the same options". *)
Require Import SkV.C06.Wrap.
From Coq Require Import String.
Open Scope string_scope.

Definition mase_060 := mkwrapper "MeanAbsoluteScaledError" "mean_absolute_scaled_error"
  ["sp"] [("sp", FromArg "sp")] false [].
Definition mase_sig := mkfsig "mean_absolute_scaled_error" ["sp"] ["y_train"].

(* F-C06-1 / F-C06-2: the extra series cannot be passed, and without it the function refuses *)
Theorem class_cannot_receive_series_refuted :
  class_call mase_060 mase_sig ["y_train"] = TypeErr /\ class_call mase_060 mase_sig [] = TypeErr /\
  wrapper_ok mase_060 mase_sig = false.
Proof. repeat split; reflexivity. Qed.

Definition masym_060 := mkwrapper "MeanAsymmetricError" "mean_asymmetric_error"
  ["asymmetric_threshold"; "left_error_function"; "right_error_function"]
  [("asymmetric_threshold", FromArg "asymmetric_threshold");
   ("left_error_function", FromArg "left_error_function");
   ("right_error_function", FromArg "right_error_function")] false
  [("asymmetric_threshold", "asymmetric_treshold"); ("left_error_function", "left_error_function");
   ("right_error_function", "right_error_function")].
Definition masym_sig := mkfsig "mean_asymmetric_error"
  ["asymmetric_threshold"; "left_error_function"; "right_error_function"] [].

(* F-C06-3 *)
Theorem asymmetric_class_attribute_typo_refuted :
  class_call masym_060 masym_sig [] = AttrErr /\ wrapper_ok masym_060 masym_sig = false.
Proof. split; reflexivity. Qed.

Definition relloss_060 := mkwrapper "RelativeLoss" "relative_loss" ["relative_loss_function"]
  [("relative_loss_function", FromArg "relative_loss_function")] false
  [("loss_function", "_relative_func")].
Definition relloss_sig := mkfsig "relative_loss" ["relative_loss_function"] ["y_pred_benchmark"].

(* F-C06-4 *)
Theorem relative_loss_class_refuted :
  class_call relloss_060 relloss_sig [] = AttrErr /\
  class_call relloss_060 relloss_sig ["y_pred_benchmark"] = TypeErr /\
  wrapper_ok relloss_060 relloss_sig = false.
Proof. repeat split; reflexivity. Qed.

Definition msse_060 := mkwrapper "MeanSquaredScaledError" "mean_squared_scaled_error"
  ["sp"; "square_root"] [("sp", Fixed); ("square_root", FromArg "square_root")] false
  [("square_root", "square_root")].
Definition msse_sig := mkfsig "mean_squared_scaled_error" ["sp"; "square_root"] ["y_train"].

(* F-C06-5: sp is replaced by a constant in the constructor (and is not forwarded either) *)
Theorem msse_class_drops_sp_refuted :
  lookup "sp" (w_attrs msse_060) = Some Fixed /\ wrapper_ok msse_060 msse_sig = false.
Proof. split; reflexivity. Qed.
