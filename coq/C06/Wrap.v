(* C06: the metric classes as wrappers around the metric functions.

   A metric class stores constructor arguments in attributes and its __call__ forwards some
   attributes to the function under keywords.  `wrapper` records exactly these facts (they are
   extracted from _classes.py by translator/metricq.py; the correspondence run compares the
   outcome predicted from the extracted facts with what the real class does).  `class_call` is the
   outcome of  Cls(args...)(y_true, y_pred, series...)  under Python's calling rules:
     - a keyword the callee does not accept is a TypeError (raised before the body runs);
     - reading an attribute that was never stored is an AttributeError (arguments are evaluated
       before the function is called);
     - a required series that is not passed is the function's TypeError;
     - otherwise the function is called, each forwarded keyword bound to what the attribute holds. *)
From Coq Require Import String List Bool.
Import ListNotations.
Open Scope string_scope.

Inductive src := FromArg (p : string) | Fixed.   (* a constructor argument, or something else *)

Record wrapper := mkwrapper {
  w_class : string;
  w_func : string;
  w_ctor : list string;                  (* constructor parameters *)
  w_attrs : list (string * src);         (* attribute -> what the constructor stores in it *)
  w_call_kwargs : bool;                  (* __call__ takes **kwargs and forwards them *)
  w_forwards : list (string * string)    (* keyword given to the function -> attribute read *)
}.

Record fsig := mkfsig {
  s_name : string;
  s_opts : list string;                  (* option keywords of the function *)
  s_series : list string                 (* required extra series: y_train / y_pred_benchmark *)
}.

Inductive outcome :=
  | TypeErr
  | AttrErr
  | Calls (f : string) (bind : list (string * src)).

Fixpoint lookup (k : string) (l : list (string * src)) : option src :=
  match l with
  | [] => None
  | (k', v) :: t => if String.eqb k k' then Some v else lookup k t
  end.
Definition mem (k : string) (l : list string) : bool := existsb (String.eqb k) l.
Definition subset (a b : list string) : bool := forallb (fun k => mem k b) a.

(* read the attributes: None = some attribute does not exist *)
Fixpoint read_attrs (attrs : list (string * src)) (fw : list (string * string))
  : option (list (string * src)) :=
  match fw with
  | [] => Some []
  | (kw, a) :: t =>
      match lookup a attrs, read_attrs attrs t with
      | Some v, Some r => Some ((kw, v) :: r)
      | _, _ => None
      end
  end.

Definition class_call (w : wrapper) (s : fsig) (given : list string) : outcome :=
  if negb (w_call_kwargs w) && negb (match given with [] => true | _ => false end) then TypeErr
  else match read_attrs (w_attrs w) (w_forwards w) with
       | None => AttrErr
       | Some b =>
           if negb (subset (map fst b) (s_opts s)) then TypeErr           (* unknown keyword *)
           else if negb (subset given (s_series s)) then TypeErr          (* unknown series *)
           else if negb (subset (s_series s) given) then TypeErr          (* missing series *)
           else Calls (w_func w) b
       end.

(* what "the function with the same options" is: every constructor argument under its own name *)
Definition same_options (w : wrapper) : list (string * src) :=
  map (fun p => (p, FromArg p)) (w_ctor w).

Definition src_eqb (a b : src) : bool :=
  match a, b with
  | FromArg p, FromArg q => String.eqb p q
  | Fixed, Fixed => true
  | _, _ => false
  end.
Definition bind_eqb (a b : string * src) : bool :=
  String.eqb (fst a) (fst b) && src_eqb (snd a) (snd b).
Definition bind_mem (x : string * src) (l : list (string * src)) : bool := existsb (bind_eqb x) l.
(* same bindings up to the order of the keywords *)
Definition same_bindings (a b : list (string * src)) : bool :=
  forallb (fun x => bind_mem x b) a && forallb (fun x => bind_mem x a) b &&
  Nat.eqb (length a) (length b).

(* the decidable well-formedness of a wrapper *)
Definition wrapper_ok (w : wrapper) (s : fsig) : bool :=
  String.eqb (w_func w) (s_name s) &&
  (w_call_kwargs w || match s_series s with [] => true | _ => false end) &&
  match read_attrs (w_attrs w) (w_forwards w) with
  | None => false
  | Some b => same_bindings b (same_options w) && subset (map fst b) (s_opts s)
  end.

Lemma subset_refl l : subset l l = true.
Proof.
  unfold subset. apply forallb_forall. intros x Hx. unfold mem. apply existsb_exists.
  exists x. split; [assumption | apply String.eqb_refl].
Qed.

(* a well-formed wrapper, called with exactly the series its function needs, calls that function
   with the constructor arguments under their own names *)
Theorem wrapper_ok_sound w s : wrapper_ok w s = true ->
  exists b, class_call w s (s_series s) = Calls (s_name s) b /\
            same_bindings b (same_options w) = true.
Proof.
  unfold wrapper_ok, class_call. intro H.
  apply andb_true_iff in H. destruct H as [H H3]. apply andb_true_iff in H. destruct H as [H1 H2].
  apply String.eqb_eq in H1.
  destruct (read_attrs (w_attrs w) (w_forwards w)) as [b|]; [|discriminate].
  apply andb_true_iff in H3. destruct H3 as [Hb Hs]. exists b.
  rewrite Hs, subset_refl. simpl.
  assert (negb (w_call_kwargs w) && negb match s_series s with [] => true | _ :: _ => false end
          = false) as E.
  { destruct (w_call_kwargs w); [reflexivity|]. simpl in H2. rewrite H2. reflexivity. }
  rewrite E, H1. split; [reflexivity | assumption].
Qed.

(* conversely a wrapper that is not well-formed does not: either the call raises, or some
   constructor argument does not reach the function under its own name *)
Theorem wrapper_not_ok w s : wrapper_ok w s = false ->
  match class_call w s (s_series s) with
  | Calls f b => same_bindings b (same_options w) = false \/ f <> s_name s
  | _ => True
  end.
Proof.
  unfold wrapper_ok, class_call. intro H.
  destruct (negb (w_call_kwargs w) && negb match s_series s with [] => true | _ :: _ => false end)
    eqn:E; [exact I|].
  destruct (read_attrs (w_attrs w) (w_forwards w)) as [b|]; [|exact I].
  destruct (subset (map fst b) (s_opts s)) eqn:Hs; simpl; [|exact I].
  rewrite subset_refl. simpl.
  destruct (String.eqb (w_func w) (s_name s)) eqn:Hf.
  - left. simpl in H.
    assert ((w_call_kwargs w || match s_series s with [] => true | _ :: _ => false end) = true) as K.
    { destruct (w_call_kwargs w); [reflexivity|]. simpl in *.
      destruct (s_series s); [reflexivity | discriminate]. }
    rewrite K in H. simpl in H. rewrite andb_true_r in H. exact H.
  - right. apply String.eqb_neq. exact Hf.
Qed.
