(* C06: what a metric class COMPUTES, on top of the calling-rules model of Wrap.v.

   Wrap.class_call says which function is called and which keyword is bound to which constructor
   argument.  Here the bindings are interpreted as option VALUES: the user's constructor arguments
   are an `opts` record `user`; a binding (kw, FromArg p) gives the function's option `kw` the value
   of constructor argument `p`; options that are not bound keep the function's own default.  The
   metric the class computes is then `textbook n o'` for the resulting options o' - to be compared
   with `textbook n user`, the published formula under the options the user asked for. *)
From Coq Require Import QArith String List Bool.
Require Import SkV.C06.Model SkV.C06.Wrap.
Import ListNotations.
Open Scope string_scope.

(* the python names of the 18 functions *)
Definition fname (n : mname) : string :=
  match n with
  | MAE => "mean_absolute_error" | MSE => "mean_squared_error"
  | MdAE => "median_absolute_error" | MdSE => "median_squared_error"
  | MAPE => "mean_absolute_percentage_error" | MdAPE => "median_absolute_percentage_error"
  | MSPE => "mean_squared_percentage_error" | MdSPE => "median_squared_percentage_error"
  | MRAE => "mean_relative_absolute_error" | MdRAE => "median_relative_absolute_error"
  | GMRAE => "geometric_mean_relative_absolute_error"
  | GMRSE => "geometric_mean_relative_squared_error"
  | MASE => "mean_absolute_scaled_error" | MdASE => "median_absolute_scaled_error"
  | MSSE => "mean_squared_scaled_error" | MdSSE => "median_squared_scaled_error"
  | MAsym => "mean_asymmetric_error" | RelLoss => "relative_loss"
  end.

Definition all_mnames : list mname :=
  [MAE; MSE; MdAE; MdSE; MAPE; MdAPE; MSPE; MdSPE; MRAE; MdRAE; GMRAE; GMRSE; MASE; MdASE; MSSE;
   MdSSE; MAsym; RelLoss].

Definition mname_of (s : string) : option mname :=
  find (fun n => String.eqb (fname n) s) all_mnames.

Lemma mname_of_fname n : mname_of (fname n) = Some n.
Proof. destruct n; reflexivity. Qed.

Lemma mname_of_sound s n : mname_of s = Some n -> fname n = s.
Proof.
  unfold mname_of. intro H. apply find_some in H. destruct H as [_ H].
  apply String.eqb_eq. exact H.
Qed.

(* option values *)
Inductive oval :=
  | VBool (b : bool) | VNat (k : nat) | VQ (q : Q) | VPw (k : pw0) | VLoss (k : pw0) (a : aggk).

Definition pw0_eqb (a b : pw0) : bool :=
  match a, b with PAbs, PAbs | PSq, PSq => true | _, _ => false end.
Definition aggk_eqb (a b : aggk) : bool :=
  match a, b with Mean, Mean | Median, Median | GMean, GMean => true | _, _ => false end.
Definition oval_eqb (a b : oval) : bool :=
  match a, b with
  | VBool x, VBool y => Bool.eqb x y
  | VNat x, VNat y => Nat.eqb x y
  | VQ x, VQ y => Qeq_bool x y
  | VPw x, VPw y => pw0_eqb x y
  | VLoss k a, VLoss k' a' => pw0_eqb k k' && aggk_eqb a a'
  | _, _ => false
  end.

Definition get_opt (p : string) (o : opts) : option oval :=
  if p =? "symmetric" then Some (VBool (o_symmetric o))
  else if p =? "square_root" then Some (VBool (o_square_root o))
  else if p =? "sp" then Some (VNat (o_sp o))
  else if p =? "asymmetric_threshold" then Some (VQ (o_thr o))
  else if p =? "left_error_function" then Some (VPw (o_left o))
  else if p =? "right_error_function" then Some (VPw (o_right o))
  else if p =? "relative_loss_function" then Some (VLoss (o_rl_k o) (o_rl_a o))
  else None.

Definition set_opt (p : string) (v : oval) (o : opts) : option opts :=
  let '(mkopts sym rt sp thr lf rf rk ra) := o in
  match v with
  | VBool b =>
      if p =? "symmetric" then Some (mkopts b rt sp thr lf rf rk ra)
      else if p =? "square_root" then Some (mkopts sym b sp thr lf rf rk ra) else None
  | VNat k => if p =? "sp" then Some (mkopts sym rt k thr lf rf rk ra) else None
  | VQ q => if p =? "asymmetric_threshold" then Some (mkopts sym rt sp q lf rf rk ra) else None
  | VPw k =>
      if p =? "left_error_function" then Some (mkopts sym rt sp thr k rf rk ra)
      else if p =? "right_error_function" then Some (mkopts sym rt sp thr lf k rk ra) else None
  | VLoss k a =>
      if p =? "relative_loss_function" then Some (mkopts sym rt sp thr lf rf k a) else None
  end.

(* the options the function runs with: its defaults, overridden by the bound keywords.  A keyword
   bound to something that is not a constructor argument (Fixed) has no known value: None *)
Fixpoint bind_opts (user : opts) (b : list (string * src)) (acc : opts) : option opts :=
  match b with
  | [] => Some acc
  | (kw, FromArg p) :: t =>
      match get_opt p user with
      | Some v => match set_opt kw v acc with Some acc' => bind_opts user t acc' | None => None end
      | None => None
      end
  | (_, Fixed) :: _ => None
  end.

(* the metric a class computes when constructed with `user` and called with the series its function
   needs; None = the call raises, or an option has no known value *)
Definition class_metric (defaults : mname -> opts) (w : wrapper) (s : fsig) (user : opts)
  : option metric :=
  match mname_of (s_name s), class_call w s (s_series s) with
  | Some n, Calls f b =>
      if String.eqb f (fname n) then
        match bind_opts user b (defaults n) with
        | Some o' => Some (textbook n o')
        | None => None
        end
      else None
  | _, _ => None
  end.

(* constructor defaults against the function's defaults *)
Definition defaults_agree (fdef : opts) (cd : list (string * oval)) : bool :=
  forallb (fun pv => match get_opt (fst pv) fdef with
                     | Some v => oval_eqb v (snd pv)
                     | None => false
                     end) cd.
