(* C07 bridge: the fold step regenerated from evaluate() / _split() (Site.v) IS the model's fold
   step, for every series, forecaster, metric, fold number, call history and split.  These lemmas
   are the proof obligations that tie the theorems of Props.v to what the source says now; they
   stop checking if, e.g., the arguments of scoring(...) or of forecaster.fit/update/predict are
   permuted, the fit-or-update condition changes, predict moves before fit, or len_train_window /
   cutoff are computed from something else. *)
From Coq Require Import ZArith QArith List Bool Lia.
Require Import SkV.Lib.Base SkV.Lib.ZRange SkV.C01.Model SkV.C07.Model SkV.C07.Site.
Import ListNotations.
Open Scope Z_scope.

Section Bridge.
  Variable XV : Type.
  Variable tm : Z -> Z.
  Variable yv : Z -> Q.
  Variable xv : option (Z -> XV).
  Variable respond : list (call XV) -> ydata.
  Variable cutoff_after : list (call XV) -> Z.
  Variable metric : list Q -> list Q -> Q.

  Lemma y_at_times ps : map fst (y_at tm yv ps) = map tm ps.
  Proof. unfold y_at. rewrite map_map. reflexivity. Qed.
  Lemma y_at_values ps : map snd (y_at tm yv ps) = map yv ps.
  Proof. unfold y_at. rewrite map_map. reflexivity. Qed.

  Lemma y_at_length ps : length (y_at tm yv ps) = length ps.
  Proof. unfold y_at. apply map_length. Qed.

  (* _split hands out y at the train / test positions, X at the train positions, and X at every
     position after the cutoff up to the last test position *)
  Theorem bridge_split fhmin train test :
    gen_split XV (y_at tm yv) (x_at XV tm xv) fhmin train test =
    (y_at tm yv train, y_at tm yv test, x_at XV tm xv train,
     x_at XV tm xv (xtest_positions fhmin test)).
  Proof. reflexivity. Qed.

  (* with fit_params: the regenerated step hands them to the fit call of EVERY fold (this is the
     lemma that stops checking when a fit call loses its **fit_params) *)
  Theorem bridge_step_fp fp st fhmin i tr s :
    gen_step XV (y_at tm yv) (x_at XV tm xv) respond cutoff_after metric fp fhmin i (is_refit st) tr
             (fst s) (snd s) =
    fold_step_fp XV tm yv xv respond cutoff_after metric fp st fhmin i tr s.
  Proof.
    (* semantic: unfold both sides, normalise the slices, decide the fit-or-update condition by
       cases on its atoms (any boolean rearrangement of the condition still proves) *)
    unfold gen_step, fold_step_fp, row_of, data_call_fp, pred_call. rewrite ?bridge_split.
    cbv beta iota zeta. rewrite ?y_at_times, ?y_at_values, ?y_at_length.
    destruct (i =? 0); destruct st; reflexivity.
  Qed.

  Theorem bridge_step st fhmin i tr s :
    gen_step XV (y_at tm yv) (x_at XV tm xv) respond cutoff_after metric None fhmin i (is_refit st)
             tr (fst s) (snd s) =
    fold_step XV tm yv xv respond cutoff_after metric st fhmin i tr s.
  Proof.
    unfold gen_step, fold_step, row_of, data_call, pred_call, fit_call. rewrite ?bridge_split.
    cbv beta iota zeta. rewrite ?y_at_times, ?y_at_values, ?y_at_length.
    destruct (i =? 0); destruct st; reflexivity.
  Qed.

  (* the tie that catches a swap of the metric's arguments: whatever the metric, the score stored in
     the row is metric(values of y_test, values of the returned forecast), in this order *)
  Theorem bridge_scoring_order st fhmin i tr s :
    let '(r, tr') := gen_step XV (y_at tm yv) (x_at XV tm xv) respond cutoff_after metric None
                              fhmin i (is_refit st) tr (fst s) (snd s) in
    r_score r = metric (map yv (snd s)) (map snd (respond tr')) /\
    r_len r = Z.of_nat (length (fst s)) /\ r_cutoff r = cutoff_after tr'.
  Proof.
    rewrite bridge_step. unfold fold_step, row_of. cbn [r_score r_len r_cutoff].
    repeat split; reflexivity.
  Qed.
End Bridge.

(* evaluate() insists on start_with_window=True *)
Theorem bridge_enforce_start_with_window : gen_enforce_start_with_window = true.
Proof. reflexivity. Qed.
