(* C07 correspondence: concrete forecasters (Coq twins of the recording test double and of
   NaiveForecaster last/mean) and concrete metrics instantiate the abstract model; cases carry the
   real evaluate()'s table and the calls logged by the test double; `mism` lists disagreements. *)
From Coq Require Import ZArith QArith Qabs Qminmax List Bool.
Require Import SkV.Lib.Base SkV.Lib.ZRange SkV.C01.Model SkV.C07.Model.
Import ListNotations.
Open Scope Z_scope.

(* ---- rational helpers ------------------------------------------------------------------------- *)
Definition qsum (l : list Q) : Q := fold_left Qplus l 0%Q.
Definition qmean (l : list Q) : Q := Qred (qsum l / inject_Z (Z.of_nat (length l)))%Q.
Definition EPS : Q := 1 # 4503599627370496.        (* np.finfo(np.float64).eps = 2^-52 *)
Definition TOL : Q := 1 # 1000000000.
Definition qclose (a b : Q) : bool :=
  Qle_bool (Qabs (a - b)) (TOL * Qmax 1 (Qmax (Qabs a) (Qabs b)))%Q.
Definition map2 {A B C} (f : A -> B -> C) (a : list A) (b : list B) : list C :=
  map (fun p => f (fst p) (snd p)) (combine a b).

(* ---- metrics: metric y_true y_pred ------------------------------------------------------------ *)
Inductive mspec := MsMAPE | MMAPE | MMAE | MMSE | MAsym | MNegMAE.
Definition metric_of (m : mspec) (yt yp : list Q) : Q :=
  match m with
  | MsMAPE => qmean (map2 (fun a b => Qabs (2 * Qabs (a - b) / Qmax (Qabs a + Qabs b) EPS)) yt yp)
  | MMAPE => qmean (map2 (fun a b => Qabs ((a - b) / Qmax (Qabs a) EPS)) yt yp)
  | MMAE => qmean (map2 (fun a b => Qabs (a - b)) yt yp)
  | MMSE => qmean (map2 (fun a b => (a - b) * (a - b)) yt yp)
  | MAsym => qmean (map2 (fun a b => 2 * a - b) yt yp)
  | MNegMAE => (- qmean (map2 (fun a b => Qabs (a - b)) yt yp))
  end%Q.

(* ---- forecasters as state machines over the calls they receive --------------------------------- *)
Inductive fcspec :=
  | FDouble (a b c d e : Z)                 (* the recording test double of props/c07.py *)
  | FNaive (mean : bool) (wl : option Z).   (* NaiveForecaster(strategy=last|mean, window_length) *)

Record fstate := mkst {
  s_first : ydata;     (* the window given to the last fit *)
  s_latest : ydata;    (* the window given to the latest fit / update *)
  s_merged : ydata;    (* _y of a real sktime forecaster: combine_first of everything since fit *)
  s_cnt : Z;           (* windows received since (and including) the last fit *)
  s_xsum : Q;          (* sum of the exogenous column of the latest window *)
  s_boost : Z }.       (* the `boost` keyword of the last fit (fit_params), 0 when not given *)
Definition st0 : fstate := mkst [] [] [] 0 0 0.

Definition xsum (x : xdata Q) : Q := match x with Some l => qsum (map snd l) | None => 0%Q end.
Definition first_time (d : ydata) : Z := fst (hd (0, 0%Q) d).
Definition last_time (d : ydata) : Z := fst (last d (0, 0%Q)).
Definition last_val (d : ydata) : Q := snd (last d (0, 0%Q)).
Definition first_val (d : ydata) : Q := snd (hd (0, 0%Q) d).
(* y.combine_first(old) when y covers a contiguous stretch of the index *)
Definition combine_first (y old : ydata) : ydata :=
  filter (fun o => fst o <? first_time y) old ++ y ++ filter (fun o => last_time y <? fst o) old.

Fixpoint xlookup (l : list (Z * Q)) (t : Z) : Q :=
  match l with [] => 0%Q | (t', v) :: r => if t' =? t then v else xlookup r t end.

Definition forecast (f : fcspec) (s : fstate) (fhabs : list Z) (x : xdata Q) : ydata :=
  let cut := last_time (s_latest s) in
  combine fhabs match f with
  | FDouble a b c d e =>
      let base := (inject_Z a * last_val (s_latest s) + inject_Z b * qsum (map snd (s_latest s))
                   + inject_Z c * first_val (s_first s) + inject_Z (d * s_cnt s) + s_xsum s
                   + inject_Z (s_boost s))%Q in
      map (fun t => (base + inject_Z (e * (t - cut))
                     + match x with Some l => xlookup l t | None => 0 end)%Q) fhabs
  | FNaive false _ => map (fun _ => last_val (s_merged s)) fhabs
  | FNaive true wl =>
      let w := match wl with Some w => w | None => Z.of_nat (length (s_merged s)) end in
      let sel := filter (fun o => cut - w + 1 <=? fst o) (s_merged s) in
      map (fun _ => qmean (map snd sel)) fhabs
  end.

Definition fstep (f : fcspec) (so : fstate * ydata) (c : call Q) : fstate * ydata :=
  let s := fst so in
  match c with
  | Fit y x _ => (mkst y y y 1 (xsum x) 0, [])
  | FitP y x _ p => (mkst y y y 1 (xsum x) p, [])
  | Update y x =>
      (mkst (s_first s) y (combine_first y (s_merged s)) (s_cnt s + 1) (xsum x) (s_boost s), [])
  | Predict fhabs x => (s, forecast f s fhabs x)
  end.
Definition frun (f : fcspec) (h : list (call Q)) : fstate * ydata := fold_left (fstep f) h (st0, []).
Definition respond_of (f : fcspec) (h : list (call Q)) : ydata := snd (frun f h).
Definition cutoff_of (f : fcspec) (h : list (call Q)) : Z := last_time (s_latest (fst (frun f h))).

(* ---- cases ---------------------------------------------------------------------------------- *)
Record impl_row := mkir {
  i_score : Q; i_cutoff : Z; i_len : Z;
  i_data : option (ydata * ydata * list (Z * Q)) }.    (* return_data=True columns *)

Inductive case :=
  | CEval (sp : splitter) (off : Z) (ys : list Q) (xs : option (list Q)) (st : strategy)
          (m : mspec) (f : fcspec)
          (o : option (list impl_row * option (list (call Q))))    (* None: ValueError *)
  (* evaluate(..., fit_params=fp): None = no / empty fit_params, Some k = {"boost": k} *)
  | CEvalP (fp : option Z) (sp : splitter) (off : Z) (ys : list Q) (xs : option (list Q))
           (st : strategy) (m : mspec) (f : fcspec)
           (o : option (list impl_row * option (list (call Q))))
  (* the same on an integer index with gaps: position p has the time label off + stride * p *)
  | CEvalS (stride : Z) (fp : option Z) (sp : splitter) (off : Z) (ys : list Q)
           (xs : option (list Q)) (st : strategy) (m : mspec) (f : fcspec)
           (o : option (list impl_row * option (list (call Q)))).

Definition zlist_eqb (a b : list Z) : bool :=
  (length a =? length b)%nat && forallb (fun p => fst p =? snd p) (combine a b).
Definition ydata_eqb (a b : ydata) : bool :=
  (length a =? length b)%nat &&
  forallb (fun p => (fst (fst p) =? fst (snd p)) && Qeq_bool (snd (fst p)) (snd (snd p))) (combine a b).
Definition ydata_close (a b : ydata) : bool :=
  (length a =? length b)%nat &&
  forallb (fun p => (fst (fst p) =? fst (snd p)) && qclose (snd (fst p)) (snd (snd p))) (combine a b).
Definition xdata_eqb (a b : xdata Q) : bool :=
  match a, b with
  | None, None => true | Some x, Some y => ydata_eqb x y | _, _ => false
  end.
Definition call_eqb (a b : call Q) : bool :=
  match a, b with
  | Fit y x f, Fit y' x' f' => ydata_eqb y y' && xdata_eqb x x' && zlist_eqb f f'
  | Update y x, Update y' x' => ydata_eqb y y' && xdata_eqb x x'
  | Predict f x, Predict f' x' => zlist_eqb f f' && xdata_eqb x x'
  | FitP y x f p, FitP y' x' f' p' => ydata_eqb y y' && xdata_eqb x x' && zlist_eqb f f' && (p =? p')
  | _, _ => false
  end.
Definition trace_eqb (a b : list (call Q)) : bool :=
  (length a =? length b)%nat && forallb (fun p => call_eqb (fst p) (snd p)) (combine a b).

Definition row_agree (r : row) (i : impl_row) : bool :=
  qclose (r_score r) (i_score i) && (r_cutoff r =? i_cutoff i) && (r_len r =? i_len i) &&
  match i_data i with
  | None => true
  | Some (ytr, yte, ypr) =>
      ydata_eqb (r_ytrain r) ytr && ydata_eqb (r_ytest r) yte && ydata_close (r_ypred r) ypr
  end.
Definition rows_agree (a : list row) (b : list impl_row) : bool :=
  (length a =? length b)%nat && forallb (fun p => row_agree (fst p) (snd p)) (combine a b).

Definition series (l : list Q) (p : Z) : Q := nth (Z.to_nat p) l 0%Q.

Definition model_eval (sp : splitter) (off : Z) (ys : list Q) (xs : option (list Q))
           (st : strategy) (m : mspec) (f : fcspec) : res (list row * list (call Q)) :=
  evaluate Q (fun p => p + off) (series ys)
           (match xs with Some l => Some (series l) | None => None end)
           (respond_of f) (cutoff_of f) (metric_of m) sp st.

Definition model_eval_fp (fp : option Z) (sp : splitter) (off : Z) (ys : list Q)
           (xs : option (list Q)) (st : strategy) (m : mspec) (f : fcspec)
  : res (list row * list (call Q)) :=
  evaluate_fp Q (fun p => p + off) (series ys)
              (match xs with Some l => Some (series l) | None => None end)
              (respond_of f) (cutoff_of f) (metric_of m) fp sp st.

Definition model_eval_s (stride : Z) (fp : option Z) (sp : splitter) (off : Z) (ys : list Q)
           (xs : option (list Q)) (st : strategy) (m : mspec) (f : fcspec)
  : res (list row * list (call Q)) :=
  evaluate_fp Q (fun p => p * stride + off) (series ys)
              (match xs with Some l => Some (series l) | None => None end)
              (respond_of f) (cutoff_of f) (metric_of m) fp sp st.

Definition agree (m : res (list row * list (call Q)))
           (o : option (list impl_row * option (list (call Q)))) : bool :=
  match m, o with
  | Err, None => true
  | Ok (rows, tr), Some (irows, itr) =>
      rows_agree rows irows &&
      match itr with Some t => trace_eqb tr t | None => true end
  | _, _ => false
  end.

Definition check (c : case) : bool :=
  match c with
  | CEval sp off ys xs st m f o => agree (model_eval sp off ys xs st m f) o
  | CEvalP fp sp off ys xs st m f o => agree (model_eval_fp fp sp off ys xs st m f) o
  | CEvalS stride fp sp off ys xs st m f o => agree (model_eval_s stride fp sp off ys xs st m f) o
  end.

Fixpoint mism (cs : list (Z * case)) : list Z :=
  match cs with
  | [] => []
  | (i, c) :: t => if check c then mism t else i :: mism t
  end.
