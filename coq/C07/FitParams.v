(* C07, fit_params: evaluate(..., fit_params=fp) hands the SAME fit_params to the fit call of EVERY
   fold.  Everything is reduced to the fit_params-free model: the run with fit_params fp IS the run
   of `evaluate` for "the forecaster whose every fit receives fp", so all theorems of Proofs.v apply
   to its rows.  The variant that passes them to the first fit only (regression C07-d) is refuted. *)
From Coq Require Import ZArith QArith List Bool Lia.
Require Import SkV.Lib.Base SkV.Lib.ZRange SkV.C01.Model SkV.C07.Model SkV.C07.Cases SkV.C07.Proofs.
Import ListNotations.
Open Scope Z_scope.

Section FitParams.
  Variable XV : Type.
  Variable tm : Z -> Z.
  Variable yv : Z -> Q.
  Variable xv : option (Z -> XV).
  Variable respond : list (call XV) -> ydata.
  Variable cutoff_after : list (call XV) -> Z.
  Variable metric : list Q -> list Q -> Q.
  Variable fp : option Z.

  Notation tag := (with_fit_params fp).
  (* the forecaster "whose every fit receives fp", as a function of the fit_params-free history *)
  Definition respond_fp (tr : list (call XV)) : ydata := respond (map tag tr).
  Definition cutoff_fp (tr : list (call XV)) : Z := cutoff_after (map tag tr).

  Lemma tag_data_call st b s :
    tag (data_call XV tm yv xv st b s) = data_call_fp XV tm yv xv fp st b s.
  Proof.
    unfold data_call, data_call_fp, fit_call, with_fit_params.
    destruct (b || is_refit st), fp; reflexivity.
  Qed.
  Lemma tag_pred_call fhmin s : tag (pred_call XV tm xv fhmin s) = pred_call XV tm xv fhmin s.
  Proof. unfold pred_call, with_fit_params. destruct fp; reflexivity. Qed.

  (* the run with fit_params = the fit_params-free run of that forecaster; the trace is the
     fit_params-free trace with fp attached to every fit *)
  Lemma eval_folds_fp_tag st fhmin : forall ss i tr,
    eval_folds_fp XV tm yv xv respond cutoff_after metric fp st fhmin i (map tag tr) ss =
    (fst (eval_folds XV tm yv xv respond_fp cutoff_fp metric st fhmin i tr ss),
     map tag (snd (eval_folds XV tm yv xv respond_fp cutoff_fp metric st fhmin i tr ss))).
  Proof.
    induction ss as [|s r IH]; intros i tr; [reflexivity|].
    cbn [eval_folds eval_folds_fp]. unfold fold_step, fold_step_fp.
    set (tr2 := (tr ++ [data_call XV tm yv xv st (i =? 0) s]) ++ [pred_call XV tm xv fhmin s]).
    assert (E : (map tag tr ++ [data_call_fp XV tm yv xv fp st (i =? 0) s])
                ++ [pred_call XV tm xv fhmin s] = map tag tr2).
    { unfold tr2. rewrite !map_app. cbn [map]. rewrite tag_data_call, tag_pred_call. reflexivity. }
    rewrite E. rewrite (IH (i + 1) tr2).
    destruct (eval_folds XV tm yv xv respond_fp cutoff_fp metric st fhmin (i + 1) tr2 r) as [rs trf].
    cbn [fst snd]. reflexivity.
  Qed.

  Theorem evaluate_fp_is_evaluate_of_tagged_forecaster sp st :
    evaluate_fp XV tm yv xv respond cutoff_after metric fp sp st =
    match evaluate XV tm yv xv respond_fp cutoff_fp metric sp st with
    | Ok (rows, tr) => Ok (rows, map tag tr)
    | Err => Err
    end.
  Proof.
    unfold evaluate_fp, evaluate, evaluate_splits. destruct (splitter_splits sp) as [ss|]; [|reflexivity].
    pose proof (eval_folds_fp_tag st (zmin_list (splitter_fh sp)) ss 0 []) as H. cbn [map] in H.
    rewrite H. destruct (eval_folds _ _ _ _ _ _ _ _ _ _ _ ss) as [rows tr]. reflexivity.
  Qed.

  (* every Fit event of the run carries the SAME fit_params, the ones given to evaluate(); the
     sequence of calls is the honest history (a fit per fold for refit; one fit then updates) *)
  Theorem every_fit_carries_the_fit_params sp st rows tr :
    evaluate_fp XV tm yv xv respond cutoff_after metric fp sp st = Ok (rows, tr) ->
    exists ss, splitter_splits sp = Ok ss /\ length rows = length ss /\
      tr = map tag (history XV tm yv xv st (zmin_list (splitter_fh sp)) ss) /\
      Forall (fun c => fit_params_of c = None \/ fit_params_of c = Some fp) tr.
  Proof.
    rewrite evaluate_fp_is_evaluate_of_tagged_forecaster.
    destruct (evaluate XV tm yv xv respond_fp cutoff_fp metric sp st) as [[rows0 tr0]|] eqn:E;
      [|discriminate].
    intro H. injection H as <- <-.
    destruct (evaluate_rows_are_splits _ _ _ _ _ _ _ _ _ _ _ E) as (ss & Hss & Hlen & Htr & _).
    exists ss. split; [exact Hss|]. split; [exact Hlen|]. split; [rewrite Htr; reflexivity|].
    apply Forall_forall. intros c Hc. apply in_map_iff in Hc. destruct Hc as (c0 & <- & Hc0).
    rewrite Htr in Hc0.
    destruct (in_history XV tm yv xv st _ c0 ss Hc0) as (s' & b & _ & [->| ->]).
    - rewrite tag_data_call. unfold data_call_fp, fit_call, fit_params_of.
      destruct (b || is_refit st), fp; auto.
    - rewrite tag_pred_call. left. reflexivity.
  Qed.
End FitParams.

(* without fit_params (None or the empty dict) nothing changes *)
Theorem evaluate_fp_None XV tm yv xv respond cutoff_after metric sp st :
  evaluate_fp XV tm yv xv respond cutoff_after metric None sp st =
  evaluate XV tm yv xv respond cutoff_after metric sp st.
Proof.
  rewrite evaluate_fp_is_evaluate_of_tagged_forecaster. unfold respond_fp, cutoff_fp.
  assert (Hid : forall l : list (call XV), map (with_fit_params None) l = l).
  { induction l as [|c t IH]; [reflexivity|]. cbn [map]. rewrite IH. reflexivity. }
  assert (E : forall (f : list (call XV) -> ydata) (g : list (call XV) -> Z),
            evaluate XV tm yv xv (fun tr => f (map (with_fit_params None) tr))
                     (fun tr => g (map (with_fit_params None) tr)) metric sp st =
            evaluate XV tm yv xv f g metric sp st).
  { intros f g. unfold evaluate, evaluate_splits. destruct (splitter_splits sp) as [ss|]; [|reflexivity].
    f_equal. generalize (@nil (call XV)) at 1 2. generalize 0 at 1 2.
    induction ss as [|s r IH]; intros i tr; [reflexivity|].
    cbn [eval_folds]. unfold fold_step, row_of. rewrite !Hid. rewrite IH. reflexivity. }
  rewrite E. destruct (evaluate XV tm yv xv respond cutoff_after metric sp st) as [[rows tr]|];
    [rewrite Hid|]; reflexivity.
Qed.

(* ---- fit_params handed to the FIRST fit only (regression C07-d) ------------------------------ *)

(* it goes unnoticed without fit_params and with strategy="update" (folds after the first update) *)
Theorem first_only_harmless_for_update XV tm yv xv respond cutoff_after metric fp fhmin :
  forall ss i tr, 0 <= i ->
  eval_folds_first_only XV tm yv xv respond cutoff_after metric fp UpdateS fhmin i tr ss =
  eval_folds_fp XV tm yv xv respond cutoff_after metric fp UpdateS fhmin i tr ss.
Proof.
  induction ss as [|s r IH]; intros i tr Hi; [reflexivity|].
  cbn [eval_folds_first_only eval_folds_fp]. unfold fold_step_fp.
  assert (E : data_call_fp XV tm yv xv (if i =? 0 then fp else None) UpdateS (i =? 0) s =
              data_call_fp XV tm yv xv fp UpdateS (i =? 0) s).
  { unfold data_call_fp. destruct (i =? 0) eqn:Ei; reflexivity. }
  rewrite E. rewrite IH by lia. reflexivity.
Qed.

(* ... and is wrong for refit: on the double `last value + boost`, fit_params {boost: 5}, MAE, the
   second fold is fitted WITHOUT the boost: its fit event carries no fit_params and its score
   differs from the honest one *)
Definition ex_splits2 : list split := [([0; 1; 2], [3; 4]); ([2; 3; 4], [5; 6])].
Definition ex_honest := eval_folds_fp Q (fun p => p + 7) (series ex_y) None
  (respond_of (FDouble 1 0 0 0 0)) (cutoff_of (FDouble 1 0 0 0 0)) (metric_of MMAE) (Some 5) Refit
  1 0 [] ex_splits2.
Definition ex_first_only := eval_folds_first_only Q (fun p => p + 7) (series ex_y) None
  (respond_of (FDouble 1 0 0 0 0)) (cutoff_of (FDouble 1 0 0 0 0)) (metric_of MMAE) (Some 5) Refit
  1 0 [] ex_splits2.

Theorem first_only_refuted :
  map fit_params_of (snd ex_honest) = [Some (Some 5); None; Some (Some 5); None] /\
  map fit_params_of (snd ex_first_only) = [Some (Some 5); None; Some None; None] /\
  (* fold 0 agrees, fold 1 is scored on a fit without the requested fit_params *)
  map (fun p => Qeq_bool (r_score (fst p)) (r_score (snd p)))
      (combine (fst ex_honest) (fst ex_first_only)) = [true; false].
Proof. vm_compute. repeat split; reflexivity. Qed.
