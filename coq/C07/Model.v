(* C07 model: evaluate() as a fold over the splits of a C01 splitter.

   Everything the fold touches that is not evaluate()'s own logic is ABSTRACT:
   - the series:      position p  |->  time label `tm p`, value `yv p`, exogenous row `xv p`
   - the forecaster:  any deterministic object, i.e. a function of the history of calls it has
                      received (`respond` = the series the last call, a Predict, returns; `cutoff_after` =
                      what its .cutoff attribute reads after these calls)
   - the metric:      a function of (y_true, y_pred), NOT assumed symmetric.
   The model returns the table rows AND the trace of calls received by the forecaster. *)
From Coq Require Import ZArith QArith List Bool.
Require Import SkV.Lib.Base SkV.Lib.ZRange SkV.C01.Model.
Import ListNotations.
Open Scope Z_scope.

Definition ydata := list (Z * Q).               (* (time label, observed value) *)

Inductive strategy := Refit | UpdateS.
Definition is_refit (s : strategy) : bool := match s with Refit => true | UpdateS => false end.

Inductive splitter :=
  | SWindow (k : kind) (c : cfg)                       (* Sliding / Expanding window splitter *)
  | SSingle (nn : Z) (f : list Z) (wlo : option Z).    (* SingleWindowSplitter on nn points *)

Definition splitter_fh (sp : splitter) : list Z :=
  match sp with SWindow _ c => fh c | SSingle _ f _ => f end.

(* check_cv(cv, enforce_start_with_window=True) followed by cv.split(y) *)
Definition splitter_splits (sp : splitter) : res (list split) :=
  match sp with
  | SWindow k c => if sww c then window_split k c else Err
  | SSingle nn f wlo => Ok (single_split nn f wlo)
  end.

Definition zmin_list (l : list Z) : Z := fold_left Z.min (tl l) (zfirst l).

(* _split: positions of the exogenous rows handed to predict *)
Definition xtest_positions (fhmin : Z) (test : list Z) : list Z :=
  map (fun v => v + 1) (zrange (zfirst test - fhmin) (zlast test) 1).

Section Evaluate.
  Variable XV : Type.                                   (* one exogenous row *)
  Definition xdata := option (list (Z * XV)).           (* None: no exogenous data given *)

  Inductive call :=
    | Fit (y : ydata) (x : xdata) (fhabs : list Z)      (* forecaster.fit(y_train, X_train, fh=fh) *)
    | Update (y : ydata) (x : xdata)                    (* forecaster.update(y_train, X_train) *)
    | Predict (fhabs : list Z) (x : xdata)              (* forecaster.predict(fh, X=X_test) *)
    (* forecaster.fit(y_train, X_train, fh=fh, **fit_params) with a NON-EMPTY fit_params dict; the
       payload p stands for that dict (one integer keyword in the correspondence run) *)
    | FitP (y : ydata) (x : xdata) (fhabs : list Z) (p : Z).

  Definition call_ydata (c : call) : ydata :=
    match c with Fit y _ _ => y | Update y _ => y | Predict _ _ => [] | FitP y _ _ _ => y end.
  Definition call_xtrain_times (c : call) : list Z :=
    match c with
    | Fit _ (Some x) _ => map fst x | Update _ (Some x) => map fst x
    | FitP _ (Some x) _ _ => map fst x | _ => []
    end.

  (* fit(..., **fit_params): fit_params None / {} (no keyword) or the dict coded by p *)
  Definition fit_call (fp : option Z) (y : ydata) (x : xdata) (fhabs : list Z) : call :=
    match fp with Some p => FitP y x fhabs p | None => Fit y x fhabs end.
  (* the fit_params a fit event carries; None for calls that are not a fit *)
  Definition fit_params_of (c : call) : option (option Z) :=
    match c with Fit _ _ _ => Some None | FitP _ _ _ p => Some (Some p) | _ => None end.
  (* the same history when every fit is given fit_params fp *)
  Definition with_fit_params (fp : option Z) (c : call) : call :=
    match fp, c with Some p, Fit y x f => FitP y x f p | _, _ => c end.

  Variable tm : Z -> Z.                  (* y.index[p] *)
  Variable yv : Z -> Q.                  (* y.iloc[p] *)
  Variable xv : option (Z -> XV).        (* X.iloc[p, :] when X is given *)
  Variable respond : list call -> ydata.  (* the series returned by the last call, a Predict *)
  Variable cutoff_after : list call -> Z.
  Variable metric : list Q -> list Q -> Q.       (* metric y_true y_pred *)

  Definition y_at (ps : list Z) : ydata := map (fun p => (tm p, yv p)) ps.
  Definition x_at (ps : list Z) : xdata :=
    match xv with Some f => Some (map (fun p => (tm p, f p)) ps) | None => None end.

  Record row := mkrow {
    r_score : Q; r_cutoff : Z; r_len : Z;
    r_ytrain : ydata; r_ytest : ydata; r_ypred : ydata }.

  (* the call that hands fold data over, and the predict call, for one split *)
  Definition data_call (st : strategy) (first : bool) (s : split) : call :=
    if first || is_refit st
    then Fit (y_at (fst s)) (x_at (fst s)) (map tm (snd s))
    else Update (y_at (fst s)) (x_at (fst s)).
  Definition pred_call (fhmin : Z) (s : split) : call :=
    Predict (map tm (snd s)) (x_at (xtest_positions fhmin (snd s))).

  (* the row of split `s` when `tr` is everything the forecaster has been told up to and including
     this fold's Predict *)
  Definition row_of (s : split) (tr : list call) : row :=
    let y_pred := respond tr in
    mkrow (metric (map yv (snd s)) (map snd y_pred)) (cutoff_after tr) (Z.of_nat (length (fst s)))
          (y_at (fst s)) (y_at (snd s)) y_pred.

  (* one fold: i is the fold number (enumerate) *)
  Definition fold_step (st : strategy) (fhmin : Z) (i : Z) (tr : list call) (s : split)
    : row * list call :=
    let tr2 := (tr ++ [data_call st (i =? 0) s]) ++ [pred_call fhmin s] in
    (row_of s tr2, tr2).

  Fixpoint eval_folds (st : strategy) (fhmin : Z) (i : Z) (tr : list call)
           (ss : list split) : list row * list call :=
    match ss with
    | [] => ([], tr)
    | s :: rest =>
        let '(r, tr2) := fold_step st fhmin i tr s in
        let '(rs, trf) := eval_folds st fhmin (i + 1) tr2 rest in
        (r :: rs, trf)
    end.

  Definition evaluate_splits (st : strategy) (fhmin : Z) (ss : list split) :=
    eval_folds st fhmin 0 [] ss.

  (* ---- evaluate(..., fit_params=fp): the SAME fit_params go to the fit call of EVERY fold ------- *)
  Definition data_call_fp (fp : option Z) (st : strategy) (first : bool) (s : split) : call :=
    if first || is_refit st
    then fit_call fp (y_at (fst s)) (x_at (fst s)) (map tm (snd s))
    else Update (y_at (fst s)) (x_at (fst s)).
  Definition fold_step_fp (fp : option Z) (st : strategy) (fhmin : Z) (i : Z) (tr : list call)
             (s : split) : row * list call :=
    let tr2 := (tr ++ [data_call_fp fp st (i =? 0) s]) ++ [pred_call fhmin s] in
    (row_of s tr2, tr2).
  Fixpoint eval_folds_fp (fp : option Z) (st : strategy) (fhmin : Z) (i : Z) (tr : list call)
           (ss : list split) : list row * list call :=
    match ss with
    | [] => ([], tr)
    | s :: rest =>
        let '(r, tr2) := fold_step_fp fp st fhmin i tr s in
        let '(rs, trf) := eval_folds_fp fp st fhmin (i + 1) tr2 rest in
        (r :: rs, trf)
    end.
  Definition evaluate_fp (fp : option Z) (sp : splitter) (st : strategy)
    : res (list row * list call) :=
    match splitter_splits sp with
    | Ok ss => Ok (eval_folds_fp fp st (zmin_list (splitter_fh sp)) 0 [] ss)
    | Err => Err
    end.

  (* NOT evaluate: fit_params reach only the fit of the first fold (regression C07-d) *)
  Fixpoint eval_folds_first_only (fp : option Z) (st : strategy) (fhmin : Z) (i : Z)
           (tr : list call) (ss : list split) : list row * list call :=
    match ss with
    | [] => ([], tr)
    | s :: rest =>
        let '(r, tr2) := fold_step_fp (if i =? 0 then fp else None) st fhmin i tr s in
        let '(rs, trf) := eval_folds_first_only fp st fhmin (i + 1) tr2 rest in
        (r :: rs, trf)
    end.

  Definition evaluate (sp : splitter) (st : strategy) : res (list row * list call) :=
    match splitter_splits sp with
    | Ok ss => Ok (evaluate_splits st (zmin_list (splitter_fh sp)) ss)
    | Err => Err
    end.
End Evaluate.

Arguments Fit {XV} y x fhabs.
Arguments Update {XV} y x.
Arguments Predict {XV} fhabs x.
Arguments FitP {XV} y x fhabs p.
Arguments fit_call {XV} fp y x fhabs.
Arguments fit_params_of {XV} c.
Arguments with_fit_params {XV} fp c.
Arguments call_ydata {XV} c.
Arguments call_xtrain_times {XV} c.
