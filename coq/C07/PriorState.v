(* C07, the state of the forecaster OBJECT handed to evaluate(): an object that has already received
   calls (fitted on the full series, on another series, used by an earlier evaluate) is a forecaster
   whose history of calls does not start empty.  `evaluate_from pre` is evaluate() on such an object.
   For every forecaster whose fit forgets what came before (the contract of the refit clause, proved
   for the twins) the rows do not depend on that prior history, for BOTH strategies: the first fold
   is fitted, never updated.  The variant that skips the first fit when the object is already fitted
   (regression C07-g) is the same function on fresh objects and under refit, and is refuted on an
   object fitted on the full series. *)
From Coq Require Import ZArith QArith List Bool Lia.
Require Import SkV.Lib.Base SkV.Lib.ZRange SkV.C01.Model SkV.C07.Model SkV.C07.Cases SkV.C07.Proofs.
Import ListNotations.
Open Scope Z_scope.

Section PriorState.
  Variable XV : Type.
  Variable tm : Z -> Z.
  Variable yv : Z -> Q.
  Variable xv : option (Z -> XV).
  Variable respond : list (call XV) -> ydata.
  Variable cutoff_after : list (call XV) -> Z.
  Variable metric : list Q -> list Q -> Q.
  Variable st : strategy.
  Variable fhmin : Z.

  Notation folds := (eval_folds XV tm yv xv respond cutoff_after metric st fhmin).
  Notation rowof := (row_of XV tm yv respond cutoff_after metric).

  (* evaluate() given an object that has already received the calls `pre` *)
  Definition evaluate_from (pre : list (call XV)) (ss : list split) : list row * list (call XV) :=
    folds 0 pre ss.

  Hypothesis forgets : fit_forgets XV respond cutoff_after.

  Lemma row_forgets pre s d x f post :
    rowof s (pre ++ Fit d x f :: post) = rowof s (Fit d x f :: post).
  Proof. unfold row_of. destruct (forgets pre d x f post) as [-> ->]. reflexivity. Qed.

  (* once a fit is in the history, what came before it is invisible in every later row *)
  Lemma folds_forget pre d x f : forall ss i post,
    fst (folds i (pre ++ Fit d x f :: post) ss) = fst (folds i (Fit d x f :: post) ss) /\
    snd (folds i (pre ++ Fit d x f :: post) ss) = pre ++ snd (folds i (Fit d x f :: post) ss).
  Proof.
    induction ss as [|s r IH]; intros i post; [split; reflexivity|].
    cbn [eval_folds]. unfold fold_step.
    set (dc := data_call XV tm yv xv st (i =? 0) s). set (pc := pred_call XV tm xv fhmin s).
    assert (E1 : ((pre ++ Fit d x f :: post) ++ [dc]) ++ [pc] =
                 pre ++ Fit d x f :: ((post ++ [dc]) ++ [pc])).
    { rewrite <- !app_assoc. reflexivity. }
    assert (E2 : ((Fit d x f :: post) ++ [dc]) ++ [pc] = Fit d x f :: ((post ++ [dc]) ++ [pc])).
    { reflexivity. }
    rewrite E1, E2. rewrite row_forgets.
    destruct (IH (i + 1) ((post ++ [dc]) ++ [pc])) as (Hr & Ht).
    destruct (folds (i + 1) (pre ++ Fit d x f :: (post ++ [dc]) ++ [pc]) r) as [rs1 t1].
    destruct (folds (i + 1) (Fit d x f :: (post ++ [dc]) ++ [pc]) r) as [rs2 t2].
    cbn [fst snd] in *. subst. split; reflexivity.
  Qed.

  (* the rows of evaluate() do not depend on what the object was told before; what it is told by
     evaluate() is the honest history, appended to what it had been told *)
  Theorem evaluate_ignores_prior_history pre ss :
    fst (evaluate_from pre ss) = fst (evaluate_from [] ss) /\
    snd (evaluate_from pre ss) = pre ++ snd (evaluate_from [] ss).
  Proof.
    unfold evaluate_from. destruct ss as [|s r]; [split; [reflexivity|symmetry; apply app_nil_r]|].
    cbn [eval_folds]. unfold fold_step, data_call. cbn [Z.eqb orb app].
    set (F := Fit (y_at tm yv (fst s)) (x_at XV tm xv (fst s)) (map tm (snd s))).
    set (pc := pred_call XV tm xv fhmin s).
    assert (E : (pre ++ [F]) ++ [pc] = pre ++ F :: [pc]) by (rewrite <- app_assoc; reflexivity).
    rewrite E. unfold F at 1 2. rewrite row_forgets. fold F.
    pose proof (folds_forget pre (y_at tm yv (fst s)) (x_at XV tm xv (fst s)) (map tm (snd s))
                             r (0 + 1) [pc]) as (Hr & Ht). fold F in Hr, Ht.
    destruct (folds (0 + 1) (pre ++ F :: [pc]) r) as [rs1 t1].
    destruct (folds (0 + 1) (F :: [pc]) r) as [rs2 t2].
    cbn [fst snd] in *. subst. split; reflexivity.
  Qed.
End PriorState.

(* ---- NOT evaluate: "skip the initial fit if the forecaster is already fitted" (C07-g) ----------- *)

Section SkipFit.
  Variable XV : Type.
  Variable tm : Z -> Z.
  Variable yv : Z -> Q.
  Variable xv : option (Z -> XV).
  Variable respond : list (call XV) -> ydata.
  Variable cutoff_after : list (call XV) -> Z.
  Variable metric : list Q -> list Q -> Q.

  (* forecaster.is_fitted: the object has received a fit *)
  Definition is_fitted (tr : list (call XV)) : bool :=
    existsb (fun c => match fit_params_of c with Some _ => true | None => false end) tr.

  Definition data_call_skip (st : strategy) (tr : list (call XV)) (s : split) : call XV :=
    if is_refit st || negb (is_fitted tr)
    then Fit (y_at tm yv (fst s)) (x_at XV tm xv (fst s)) (map tm (snd s))
    else Update (y_at tm yv (fst s)) (x_at XV tm xv (fst s)).

  Fixpoint eval_folds_skip (st : strategy) (fhmin : Z) (tr : list (call XV)) (ss : list split)
    : list row * list (call XV) :=
    match ss with
    | [] => ([], tr)
    | s :: rest =>
        let tr2 := (tr ++ [data_call_skip st tr s]) ++ [pred_call XV tm xv fhmin s] in
        let '(rs, trf) := eval_folds_skip st fhmin tr2 rest in
        (row_of XV tm yv respond cutoff_after metric s tr2 :: rs, trf)
    end.

  Lemma is_fitted_app a b : is_fitted (a ++ b) = is_fitted a || is_fitted b.
  Proof. apply existsb_app. Qed.

  (* it goes unnoticed under refit, whatever the object was told before ... *)
  Theorem skip_harmless_for_refit fhmin : forall ss i tr,
    eval_folds_skip Refit fhmin tr ss =
    eval_folds XV tm yv xv respond cutoff_after metric Refit fhmin i tr ss.
  Proof.
    induction ss as [|s r IH]; intros i tr; [reflexivity|].
    cbn [eval_folds_skip eval_folds]. unfold fold_step, data_call_skip, data_call.
    cbn [is_refit orb]. rewrite orb_true_r. rewrite (IH (i + 1)). reflexivity.
  Qed.

  (* ... and under update when the object is fresh (the documented way to call evaluate) *)
  Lemma skip_after_fit fhmin : forall ss i tr, i <> 0 -> 0 <= i -> is_fitted tr = true ->
    eval_folds_skip UpdateS fhmin tr ss =
    eval_folds XV tm yv xv respond cutoff_after metric UpdateS fhmin i tr ss.
  Proof.
    induction ss as [|s r IH]; intros i tr Hi Hp Hf; [reflexivity|].
    cbn [eval_folds_skip eval_folds]. unfold fold_step, data_call_skip, data_call.
    rewrite Hf. destruct (Z.eqb_spec i 0); [contradiction|]. cbn [is_refit orb negb].
    rewrite (IH (i + 1)); [reflexivity|lia|lia|].
    rewrite !is_fitted_app, Hf. reflexivity.
  Qed.

  Theorem skip_harmless_for_fresh_object st fhmin ss :
    eval_folds_skip st fhmin [] ss =
    eval_folds XV tm yv xv respond cutoff_after metric st fhmin 0 [] ss.
  Proof.
    destruct st; [apply skip_harmless_for_refit|].
    destruct ss as [|s r]; [reflexivity|].
    cbn [eval_folds_skip eval_folds]. unfold fold_step, data_call_skip, data_call.
    cbn [is_fitted existsb negb is_refit orb Z.eqb].
    rewrite (skip_after_fit fhmin r (0 + 1)); [reflexivity|lia|lia|].
    rewrite !is_fitted_app. reflexivity.
  Qed.
End SkipFit.

(* it is wrong for update on an object that was fitted before: the double `last value of the latest
   window + first value of the window of the last fit`, fitted on the FULL series beforehand, is only
   updated on fold 0, keeps the first value it saw in that fit, and fold 0 is scored on it *)
Definition ps_y : list Q := map inject_Z [5; 1; 4; 1; 5; 9; 2; 6].
Definition ps_splits : list split := [([1; 2; 3], [4; 5]); ([3; 4; 5], [6; 7])].
Definition ps_prior : list (call Q) :=
  [Fit (map (fun p => (p + 7, series ps_y p)) [0; 1; 2; 3; 4; 5; 6; 7]) None [15]].
Definition ps_honest := eval_folds Q (fun p => p + 7) (series ps_y) None
  (respond_of (FDouble 1 0 1 0 0)) (cutoff_of (FDouble 1 0 1 0 0)) (metric_of MMAE) UpdateS 1 0
  ps_prior ps_splits.
Definition ps_skip := eval_folds_skip Q (fun p => p + 7) (series ps_y) None
  (respond_of (FDouble 1 0 1 0 0)) (cutoff_of (FDouble 1 0 1 0 0)) (metric_of MMAE) UpdateS 1
  ps_prior ps_splits.
Definition is_fit_call (c : call Q) : bool :=
  match fit_params_of c with Some _ => true | None => false end.

Theorem skip_refuted :
  (* what evaluate() itself tells the object: fit, predict, update, predict vs update first *)
  map is_fit_call (skipn 1 (snd ps_honest)) = [true; false; false; false] /\
  map is_fit_call (skipn 1 (snd ps_skip)) = [false; false; false; false] /\
  map (fun p => Qeq_bool (r_score (fst p)) (r_score (snd p)))
      (combine (fst ps_honest) (fst ps_skip)) = [false; false].
Proof. vm_compute. repeat split; reflexivity. Qed.
