(* C07 proofs: for every series, forecaster, metric, strategy and list of splits. *)
From Coq Require Import ZArith QArith List Bool Lia ZifyBool.
Require Import SkV.Lib.Base SkV.Lib.ZRange SkV.C01.Model SkV.C01.Gen SkV.C01.Bridge SkV.C01.Proofs.
Require Import SkV.C07.Model SkV.C07.Site SkV.C07.Bridge SkV.C07.Cases.
Import ListNotations.
Open Scope Z_scope.

(* ---- list facts ------------------------------------------------------------------------------- *)

Lemma firstn_S_nth {A} (l : list A) k x : nth_error l k = Some x ->
  firstn (S k) l = firstn k l ++ [x].
Proof.
  revert k. induction l as [|a t IH]; intros [|k] H; cbn in H; try discriminate.
  - injection H as <-. reflexivity.
  - change (a :: firstn (S k) t = (a :: firstn k t) ++ [x]). rewrite (IH k H). reflexivity.
Qed.

Lemma in_firstn_nth {A} (l : list A) k x : In x (firstn (S k) l) ->
  exists j, (j <= k)%nat /\ nth_error l j = Some x.
Proof.
  revert k. induction l as [|a t IH]; intros k H; [destruct H|].
  cbn [firstn] in H. destruct H as [<-|H]; [exists O; split; [lia|reflexivity]|].
  destruct k as [|k]; [destruct H|]. destruct (IH k H) as (j & Hj & Hn).
  exists (S j). split; [lia|exact Hn].
Qed.

Lemma zmin_list_le_aux : forall l a, fold_left Z.min l a <= a /\
  (forall x, In x l -> fold_left Z.min l a <= x) /\ In (fold_left Z.min l a) (a :: l).
Proof.
  induction l as [|b t IH]; intros a; cbn [fold_left].
  - repeat split; [lia|intros x []|left; reflexivity].
  - destruct (IH (Z.min a b)) as (H1 & H2 & H3). repeat split.
    + lia.
    + intros x [<-|Hx]; [lia|apply H2; exact Hx].
    + destruct H3 as [H3|H3]; [|right; right; exact H3].
      rewrite <- H3. destruct (Z.min_spec a b) as [[_ E]|[_ E]]; rewrite E; [left|right; left]; reflexivity.
Qed.

Lemma zmin_list_sorted f : valid_fh f -> zmin_list f = zfirst f.
Proof.
  intros (Hne & Hs & H1). destruct f as [|a t]; [congruence|].
  unfold zmin_list, zfirst. cbn [hd tl].
  destruct (zmin_list_le_aux t a) as (Hle & Hall & Hin).
  destruct Hin as [Hin|Hin]; [symmetry; exact Hin|].
  pose proof (sorted_lt_head_lt t a _ Hs Hin). lia.
Qed.

Lemma last_map {A B} (g : A -> B) (l : list A) d : l <> [] -> last (map g l) (g d) = g (last l d).
Proof.
  induction l as [|a t IH]; [congruence|]. intros _. destruct t as [|b t']; [reflexivity|].
  change (last (map g (a :: b :: t')) (g d)) with (last (map g (b :: t')) (g d)).
  change (last (a :: b :: t') d) with (last (b :: t') d). apply IH. discriminate.
Qed.

Lemma last_indep {A} (l : list A) d d' : l <> [] -> last l d = last l d'.
Proof.
  induction l as [|a t IH]; [congruence|]. intros _. destruct t as [|b t']; [reflexivity|].
  change (last (a :: b :: t') d) with (last (b :: t') d).
  change (last (a :: b :: t') d') with (last (b :: t') d'). apply IH. discriminate.
Qed.

(* the exogenous test slice: every position after the cutoff up to the last test position *)
Lemma xtest_positions_eq f cut : valid_fh f ->
  xtest_positions (zmin_list f) (map (fun h => cut + h) f) = zrange (cut + 1) (cut + zlast f + 1) 1.
Proof.
  intro Hf. pose proof Hf as (Hne & _ & _). unfold xtest_positions.
  rewrite zmin_list_sorted by exact Hf.
  assert (H1 : zfirst (map (fun h => cut + h) f) = cut + zfirst f).
  { destruct f; [congruence|reflexivity]. }
  assert (H2 : zlast (map (fun h => cut + h) f) = cut + zlast f).
  { unfold zlast. rewrite (last_indep _ 0 (cut + 0)) by (destruct f; [congruence|discriminate]).
    apply (last_map (fun h => cut + h)). exact Hne. }
  rewrite H1, H2. rewrite (zrange_shift 1). f_equal; lia.
Qed.

(* ---- the fold ---------------------------------------------------------------------------------- *)

Section Folds.
  Variable XV : Type.
  Variable tm : Z -> Z.
  Variable yv : Z -> Q.
  Variable xv : option (Z -> XV).
  Variable respond : list (call XV) -> ydata.
  Variable cutoff_after : list (call XV) -> Z.
  Variable metric : list Q -> list Q -> Q.
  Variable st : strategy.
  Variable fhmin : Z.

  Notation dcall := (data_call XV tm yv xv st).
  Notation pcall := (pred_call XV tm xv fhmin).
  Notation rowof := (row_of XV tm yv respond cutoff_after metric).
  Notation folds := (eval_folds XV tm yv xv respond cutoff_after metric st fhmin).
  Notation yat := (y_at tm yv).
  Notation xat := (x_at XV tm xv).

  (* The honest sequence of calls for a list of splits, written without any accumulator:
     fold 0 is fitted; every later fold is fitted again (refit) or updated (update); every fold is
     followed by its own predict. *)
  Definition later_calls (ss : list split) : list (call XV) :=
    flat_map (fun s => [dcall false s; pcall s]) ss.
  Definition history (ss : list split) : list (call XV) :=
    match ss with [] => [] | s :: r => [dcall true s; pcall s] ++ later_calls r end.
  (* ... up to and including the predict of fold k *)
  Definition history_upto (ss : list split) (k : nat) : list (call XV) := history (firstn (S k) ss).

  Definition hist_from (i : Z) (ss : list split) : list (call XV) :=
    if i =? 0 then history ss else later_calls ss.

  Lemma hist_from_cons i s r : 0 <= i ->
    hist_from i (s :: r) = [dcall (i =? 0) s; pcall s] ++ hist_from (i + 1) r.
  Proof.
    intro Hi. unfold hist_from. destruct (i =? 0) eqn:E; destruct (i + 1 =? 0) eqn:E'; try lia;
      reflexivity.
  Qed.

  Lemma folds_length : forall ss i tr, length (fst (folds i tr ss)) = length ss.
  Proof.
    induction ss as [|s r IH]; intros i tr; [reflexivity|]. cbn [eval_folds]. unfold fold_step.
    destruct (folds (i + 1) _ r) as [rs trf] eqn:E. cbn [fst length].
    specialize (IH (i + 1) ((tr ++ [dcall (i =? 0) s]) ++ [pcall s])). rewrite E in IH. cbn in IH.
    rewrite IH. reflexivity.
  Qed.

  Lemma folds_trace : forall ss i tr, 0 <= i -> snd (folds i tr ss) = tr ++ hist_from i ss.
  Proof.
    induction ss as [|s r IH]; intros i tr Hi.
    - cbn. unfold hist_from. destruct (i =? 0); cbn; rewrite app_nil_r; reflexivity.
    - cbn [eval_folds]. unfold fold_step.
      destruct (folds (i + 1) _ r) as [rs trf] eqn:E. cbn [snd].
      specialize (IH (i + 1) ((tr ++ [dcall (i =? 0) s]) ++ [pcall s])). rewrite E in IH.
      cbn [snd] in IH. rewrite IH by lia. rewrite hist_from_cons by exact Hi.
      rewrite <- !app_assoc. reflexivity.
  Qed.

  Lemma folds_rows : forall ss i tr k s, 0 <= i -> nth_error ss k = Some s ->
    nth_error (fst (folds i tr ss)) k = Some (rowof s (tr ++ hist_from i (firstn (S k) ss))).
  Proof.
    induction ss as [|s0 r IH]; intros i tr k s Hi Hk; [destruct k; discriminate|].
    cbn [eval_folds]. unfold fold_step.
    destruct (folds (i + 1) _ r) as [rs trf] eqn:E. cbn [fst].
    destruct k as [|k].
    - cbn in Hk. injection Hk as ->. cbn [nth_error firstn]. rewrite hist_from_cons by exact Hi.
      f_equal. f_equal. unfold hist_from. destruct (i + 1 =? 0); cbn; rewrite <- !app_assoc; reflexivity.
    - cbn [nth_error] in *. change (firstn (S (S k)) (s0 :: r)) with (s0 :: firstn (S k) r).
      specialize (IH (i + 1) ((tr ++ [dcall (i =? 0) s0]) ++ [pcall s0]) k s). rewrite E in IH.
      cbn [fst] in IH. rewrite IH by (lia || exact Hk). rewrite hist_from_cons by exact Hi.
      f_equal. f_equal. rewrite <- !app_assoc. reflexivity.
  Qed.

  (* one row per split *)
  Theorem splits_rows_count ss :
    length (fst (evaluate_splits XV tm yv xv respond cutoff_after metric st fhmin ss)) = length ss.
  Proof. apply folds_length. Qed.

  (* the forecaster receives exactly the honest sequence of calls, nothing else *)
  Theorem splits_trace ss :
    snd (evaluate_splits XV tm yv xv respond cutoff_after metric st fhmin ss) = history ss.
  Proof. unfold evaluate_splits. rewrite folds_trace by lia. reflexivity. Qed.

  (* row k is computed from split k and from what the forecaster answers after the honest sequence
     of calls up to fold k's predict *)
  Theorem splits_row k s ss : nth_error ss k = Some s ->
    nth_error (fst (evaluate_splits XV tm yv xv respond cutoff_after metric st fhmin ss)) k =
    Some (rowof s (history_upto ss k)).
  Proof. intro H. unfold evaluate_splits. rewrite (folds_rows ss 0 [] k s) by (lia || exact H).
    reflexivity. Qed.

  (* every prefix history is a prefix of the full trace *)
  Lemma later_calls_app a b : later_calls (a ++ b) = later_calls a ++ later_calls b.
  Proof. unfold later_calls. apply flat_map_app. Qed.

  Theorem history_prefix ss k : exists rest, history ss = history_upto ss k ++ rest.
  Proof.
    unfold history_upto. destruct ss as [|s r]; [exists []; destruct k; reflexivity|].
    cbn [firstn]. unfold history. exists (later_calls (skipn k r)).
    rewrite <- app_assoc. rewrite <- later_calls_app. rewrite firstn_skipn. reflexivity.
  Qed.

  (* the last call of the history up to fold k is fold k's predict *)
  Theorem history_upto_ends_with_predict ss k s : nth_error ss k = Some s ->
    exists before, history_upto ss k = before ++ [dcall (Nat.eqb k 0) s; pcall s].
  Proof.
    intro H. unfold history_upto. rewrite (firstn_S_nth ss k s H).
    destruct k as [|k].
    - destruct ss as [|s0 r]; [discriminate|]. cbn in H. injection H as ->. exists []. reflexivity.
    - destruct ss as [|s0 r]; [discriminate|]. cbn [firstn app]. unfold history.
      rewrite later_calls_app. exists ([dcall true s0; pcall s0] ++ later_calls (firstn k r)).
      rewrite <- app_assoc. reflexivity.
  Qed.

  (* ---- what each call carries --------------------------------------------------------------- *)

  Lemma in_later_calls c ss : In c (later_calls ss) ->
    exists s, In s ss /\ (c = dcall false s \/ c = pcall s).
  Proof.
    unfold later_calls. intro H. apply in_flat_map in H. destruct H as (s & Hs & Hc).
    exists s. split; [exact Hs|]. destruct Hc as [<-|[<-|[]]]; [left|right]; reflexivity.
  Qed.

  Lemma in_history c ss : In c (history ss) ->
    exists s b, In s ss /\ (c = dcall b s \/ c = pcall s).
  Proof.
    destruct ss as [|s0 r]; [intros []|]. unfold history. intro H. apply in_app_or in H.
    destruct H as [H|H].
    - exists s0. destruct H as [<-|[<-|[]]]; [exists true|exists true]; (split; [left; reflexivity|]);
        [left|right]; reflexivity.
    - destruct (in_later_calls c r H) as (s & Hs & Hc). exists s, false. split; [right; exact Hs|].
      exact Hc.
  Qed.

  Lemma dcall_ydata b s : call_ydata (dcall b s) = yat (fst s).
  Proof. unfold data_call. destruct (b || is_refit st); reflexivity. Qed.
  Lemma pcall_ydata s : call_ydata (pcall s) = [].
  Proof. reflexivity. Qed.
  Lemma dcall_xtimes b s : call_xtrain_times (dcall b s) =
    match xv with Some _ => map tm (fst s) | None => [] end.
  Proof.
    unfold data_call, x_at. destruct (b || is_refit st); destruct xv; cbn; try reflexivity;
      rewrite map_map; reflexivity.
  Qed.

  (* splits in which no training position of an earlier-or-same fold reaches a test position *)
  Definition no_future (ss : list split) : Prop :=
    forall j i sj si, (j <= i)%nat -> nth_error ss j = Some sj -> nth_error ss i = Some si ->
    forall p q, In p (fst sj) -> In q (snd si) -> p < q.

  (* No leak: everything the forecaster has been handed before (and at) fold k's predict is
     strictly earlier than every test time of fold k. *)
  Theorem no_leak_splits ss : no_future ss -> (forall p q, p < q -> tm p < tm q) ->
    forall k sk, nth_error ss k = Some sk ->
    forall c, In c (history_upto ss k) ->
      (forall t v, In (t, v) (call_ydata c) -> forall q, In q (snd sk) -> t < tm q) /\
      (forall t, In t (call_xtrain_times c) -> forall q, In q (snd sk) -> t < tm q).
  Proof.
    intros Hnf Hmono k sk Hk c Hc. unfold history_upto in Hc.
    destruct (in_history c _ Hc) as (s & b & Hs & Hcs).
    destruct (in_firstn_nth ss k s Hs) as (j & Hj & Hnj).
    assert (Hlt : forall p q, In p (fst s) -> In q (snd sk) -> tm p < tm q).
    { intros p q Hp Hq. apply Hmono. exact (Hnf j k s sk Hj Hnj Hk p q Hp Hq). }
    destruct Hcs as [->| ->].
    - split.
      + intros t v Hin q Hq. rewrite dcall_ydata in Hin. unfold y_at in Hin.
        apply in_map_iff in Hin. destruct Hin as (p & Hp & Hpin). injection Hp as <- _.
        exact (Hlt p q Hpin Hq).
      + intros t Hin q Hq. rewrite dcall_xtimes in Hin. destruct xv; [|destruct Hin].
        apply in_map_iff in Hin. destruct Hin as (p & <- & Hpin). exact (Hlt p q Hpin Hq).
    - split; [intros t v []|intros t []].
  Qed.

  (* ---- refit: a forecaster whose fit forgets everything before it ------------------------------ *)

  Definition fit_forgets : Prop := forall pre d x f post,
    respond (pre ++ Fit d x f :: post) = respond (Fit d x f :: post) /\
    cutoff_after (pre ++ Fit d x f :: post) = cutoff_after (Fit d x f :: post).

  Definition honest_refit_calls (s : split) : list (call XV) :=
    [Fit (yat (fst s)) (xat (fst s)) (map tm (snd s)); pcall s].

  Lemma refit_history_upto ss k s : st = Refit -> nth_error ss k = Some s ->
    exists pre, history_upto ss k = pre ++ honest_refit_calls s.
  Proof.
    intros Hst H. destruct (history_upto_ends_with_predict ss k s H) as (before & ->).
    exists before. unfold honest_refit_calls, data_call. rewrite Hst. cbn [is_refit].
    rewrite orb_true_r. reflexivity.
  Qed.

  Theorem refit_row_is_fresh_fit ss k s : st = Refit -> fit_forgets -> nth_error ss k = Some s ->
    rowof s (history_upto ss k) = rowof s (honest_refit_calls s).
  Proof.
    intros Hst Hff H. destruct (refit_history_upto ss k s Hst H) as (pre & ->).
    unfold row_of, honest_refit_calls. destruct (Hff pre (yat (fst s)) (xat (fst s)) (map tm (snd s)) [pcall s]) as [-> ->].
    reflexivity.
  Qed.

  (* ---- update: fit on fold 0, then one update per later fold ----------------------------------- *)

  Theorem update_history_shape s0 r k : st = UpdateS ->
    history_upto (s0 :: r) k =
    Fit (yat (fst s0)) (xat (fst s0)) (map tm (snd s0)) :: pcall s0 ::
    flat_map (fun s => [Update (yat (fst s)) (xat (fst s)); pcall s]) (firstn k r).
  Proof.
    intro Hst. unfold history_upto. cbn [firstn]. unfold history, later_calls, data_call.
    rewrite Hst. reflexivity.
  Qed.

  (* ---- cutoff ----------------------------------------------------------------------------------- *)

  (* contract of a forecaster's .cutoff: after fit/update on data d (and a predict), it is the last
     time label of d *)
  Definition cutoff_contract : Prop := forall pre c p,
    (exists d x f, c = Fit d x f) \/ (exists d x, c = Update d x) ->
    (exists f x, p = Predict f x) ->
    cutoff_after (pre ++ [c; p]) = fst (last (call_ydata c) (0, 0%Q)).

  Theorem row_cutoff_is_last_training_time ss k s : cutoff_contract -> nth_error ss k = Some s ->
    fst s <> [] ->
    r_cutoff (rowof s (history_upto ss k)) = tm (zlast (fst s)).
  Proof.
    intros Hc H Hne. destruct (history_upto_ends_with_predict ss k s H) as (before & ->).
    unfold row_of. cbn [r_cutoff]. rewrite Hc.
    - rewrite dcall_ydata. unfold y_at, zlast.
      rewrite (last_indep _ (0, 0%Q) (tm 0, yv 0)) by (destruct (fst s); [congruence|discriminate]).
      rewrite (last_map (fun p => (tm p, yv p))) by exact Hne. reflexivity.
    - unfold data_call. destruct (Nat.eqb k 0 || is_refit st); [left|right]; repeat eexists.
    - unfold pred_call. repeat eexists.
  Qed.
End Folds.

(* ---- from C01: what the splitters yield -------------------------------------------------------- *)

Definition valid_splitter (sp : splitter) : Prop :=
  match sp with
  | SWindow _ c => valid c
  | SSingle nn f wlo => valid_fh f /\ zlast f < nn /\ (forall w, wlo = Some w -> 1 <= w)
  end.
Definition splitter_n (sp : splitter) : Z := match sp with SWindow _ c => n c | SSingle nn _ _ => nn end.

Lemma mono_from_steps (cs : list Z) stp : 0 < stp ->
  (forall i : nat, (S i < length cs)%nat -> nth (S i) cs 0 - nth i cs 0 = stp) ->
  forall j i : nat, (j <= i)%nat -> (i < length cs)%nat -> nth j cs 0 <= nth i cs 0.
Proof.
  intros Hst Hstep j i Hji. induction Hji as [|i Hji IH]; intro Hi; [lia|].
  specialize (Hstep i Hi). specialize (IH ltac:(lia)). lia.
Qed.

Lemma split_ok_cutoff nn f s : valid_fh f -> split_ok nn f s ->
  exists cut, split_cutoff f s = cut /\ (forall p, In p (fst s) -> p <= cut) /\
              (forall q, In q (snd s) -> cut < q) /\ snd s = map (fun h => cut + h) f /\
              exists a, 0 <= a <= cut + 1 /\ fst s = zrange a (cut + 1) 1.
Proof.
  intros Hf (cut & a & Ha & Htr & Hte & _). exists cut. destruct s as [tr te]. cbn [fst snd] in *.
  subst tr te. repeat split.
  - apply split_cutoff_test. apply Hf.
  - intros p Hp. apply zrange1_in in Hp. lia.
  - intros q Hq. apply in_map_iff in Hq. destruct Hq as (h & <- & Hh).
    pose proof (valid_fh_pos f h Hf Hh). lia.
  - exists a. split; [exact Ha|reflexivity].
Qed.

Theorem window_no_future k c l : valid c -> window_split k c = Ok l -> no_future l.
Proof.
  intros Hv Hs. pose proof Hv as (Hfh & Hwl & Hst & Hiw).
  pose proof (window_split_sound k c l Hv Hs) as Hok.
  destruct (reported_eq_yielded k c l Hv Hs) as [Hcs _].
  assert (Hf : feasible c = true).
  { unfold window_split in Hs. destruct (feasible c); [reflexivity|discriminate]. }
  destruct (cutoffs_progression c Hv Hf) as (_ & _ & Hstep & _).
  intros j i sj si Hji Hj Hi p q Hp Hq.
  rewrite Forall_forall in Hok.
  destruct (split_ok_cutoff _ _ sj Hfh (Hok sj (nth_error_In _ _ Hj))) as (cj & Hcj & Hpj & _).
  destruct (split_ok_cutoff _ _ si Hfh (Hok si (nth_error_In _ _ Hi))) as (ci & Hci & _ & Hqi & _).
  assert (Hnj : nth j (window_cutoffs c) 0 = cj).
  { rewrite <- Hcs. apply nth_error_nth. rewrite (map_nth_error _ _ _ Hj). f_equal. exact Hcj. }
  assert (Hni : nth i (window_cutoffs c) 0 = ci).
  { rewrite <- Hcs. apply nth_error_nth. rewrite (map_nth_error _ _ _ Hi). f_equal. exact Hci. }
  assert (Hlen : (i < length (window_cutoffs c))%nat).
  { rewrite <- Hcs, map_length. apply nth_error_Some. congruence. }
  pose proof (mono_from_steps (window_cutoffs c) (step c) ltac:(lia) Hstep j i Hji Hlen).
  specialize (Hpj p Hp). specialize (Hqi q Hq). lia.
Qed.

Theorem splitter_sound sp ss : valid_splitter sp -> splitter_splits sp = Ok ss ->
  Forall (split_ok (splitter_n sp) (splitter_fh sp)) ss /\ no_future ss.
Proof.
  destruct sp as [k c|nn f wlo]; cbn [valid_splitter splitter_splits splitter_n splitter_fh].
  - intros Hv Hs. destruct (sww c); [|discriminate]. split.
    + exact (window_split_sound k c ss Hv Hs).
    + exact (window_no_future k c ss Hv Hs).
  - intros (Hf & Hn & Hw) Hs. injection Hs as <-.
    destruct (single_sound nn f wlo Hf Hn Hw) as (Hok & _ & _). split; [exact Hok|].
    intros j i sj si Hji Hj Hi p q Hp Hq. unfold single_split in Hj, Hi, Hok.
    destruct i as [|i]; [|destruct i; discriminate]. destruct j as [|j]; [|lia].
    cbn in Hj, Hi. injection Hj as <-. injection Hi as <-.
    inversion Hok as [|s0 l0 H0 _]; subst. destruct H0 as (cut & a & _ & _ & _ & _ & _ & Hlt).
    exact (Hlt p q Hp Hq).
Qed.

(* a training window of an accepted split is never empty *)
Lemma train_nonempty sp ss s : valid_splitter sp -> splitter_splits sp = Ok ss -> In s ss ->
  fst s <> [].
Proof.
  intros Hv Hss Hk. destruct sp as [kk c|nn f wlo]; cbn in Hss, Hv.
  - destruct (sww c) eqn:Esww; [|discriminate].
    pose proof Hv as (_ & Hwl & Hst & Hiw).
    unfold window_split in Hss. destruct (feasible c) eqn:Hf; [|discriminate].
    injection Hss as <-. apply in_app_or in Hk. destruct Hk as [Hk|Hk].
    + unfold initial_split in Hk. destruct (iw c) as [i|] eqn:Ei; [|destruct Hk].
      destruct Hk as [<-|[]]. cbn [fst]. specialize (Hiw i eq_refl).
      rewrite zrange_cons by lia. discriminate.
    + apply in_map_iff in Hk. destruct Hk as (cut' & <- & Hc).
      destruct (regular_cutoff_bounds c cut' Hv Hc) as [Hlo _]. cbn [fst].
      unfold start_point in Hlo. rewrite Esww in Hlo.
      assert (0 <= cut').
      { destruct (iw c) as [i|] eqn:Ei; [specialize (Hiw i eq_refl)|]; lia. }
      unfold train_at. destruct kk; rewrite zrange_cons by lia; discriminate.
  - injection Hss as <-. destruct Hk as [<-|[]]. cbn [fst]. destruct Hv as (Hf & Hn & Hw).
    unfold single_cutoff. destruct wlo as [w|]; [specialize (Hw w eq_refl)|];
      rewrite zrange_cons by lia; discriminate.
Qed.

(* ---- evaluate(), top level --------------------------------------------------------------------- *)

Section Top.
  Variable XV : Type.
  Variable tm : Z -> Z.
  Variable yv : Z -> Q.
  Variable xv : option (Z -> XV).
  Variable respond : list (call XV) -> ydata.
  Variable cutoff_after : list (call XV) -> Z.
  Variable metric : list Q -> list Q -> Q.

  Notation eval := (evaluate XV tm yv xv respond cutoff_after metric).
  Notation hist sp st := (history XV tm yv xv st (zmin_list (splitter_fh sp))).
  Notation hist_upto sp st := (history_upto XV tm yv xv st (zmin_list (splitter_fh sp))).
  Notation rowof := (row_of XV tm yv respond cutoff_after metric).

  Lemma evaluate_inv sp st rows tr : eval sp st = Ok (rows, tr) ->
    exists ss, splitter_splits sp = Ok ss /\
      (rows, tr) = evaluate_splits XV tm yv xv respond cutoff_after metric st
                                   (zmin_list (splitter_fh sp)) ss.
  Proof.
    unfold evaluate. destruct (splitter_splits sp) as [ss|]; [|discriminate].
    intro H. injection H as H. exists ss. split; [reflexivity|]. symmetry. exact H.
  Qed.

  (* accepted exactly when the splitter starts with a full window and yields splits *)
  Theorem evaluate_rejects_iff sp st :
    eval sp st = Err <-> splitter_splits sp = Err.
  Proof. unfold evaluate. destruct (splitter_splits sp); split; intro H; congruence. Qed.

  Theorem evaluate_requires_start_with_window k c st : sww c = false -> eval (SWindow k c) st = Err.
  Proof. intro H. unfold evaluate. cbn. rewrite H. reflexivity. Qed.

  Theorem evaluate_rows_are_splits sp st rows tr : eval sp st = Ok (rows, tr) ->
    exists ss, splitter_splits sp = Ok ss /\ length rows = length ss /\ tr = hist sp st ss /\
      forall k s, nth_error ss k = Some s ->
        exists r, nth_error rows k = Some r /\ r = rowof s (hist_upto sp st ss k).
  Proof.
    intro H. destruct (evaluate_inv sp st rows tr H) as (ss & Hss & E). exists ss.
    split; [exact Hss|].
    pose proof (splits_rows_count XV tm yv xv respond cutoff_after metric st
                                  (zmin_list (splitter_fh sp)) ss) as Hc.
    pose proof (splits_trace XV tm yv xv respond cutoff_after metric st
                             (zmin_list (splitter_fh sp)) ss) as Ht.
    rewrite <- E in Hc, Ht. cbn [fst snd] in Hc, Ht. split; [exact Hc|]. split; [exact Ht|].
    intros k s Hk. eexists. split; [|reflexivity].
    pose proof (splits_row XV tm yv xv respond cutoff_after metric st
                           (zmin_list (splitter_fh sp)) k s ss Hk) as Hr.
    rewrite <- E in Hr. exact Hr.
  Qed.

  (* for window splitters the number of rows is the number of splits the splitter reports *)
  Theorem evaluate_rows_count_window k c st rows tr : valid c ->
    eval (SWindow k c) st = Ok (rows, tr) -> Z.of_nat (length rows) = window_n_splits c.
  Proof.
    intros Hv H. destruct (evaluate_rows_are_splits _ _ _ _ H) as (ss & Hss & Hlen & _).
    cbn in Hss. destruct (sww c); [|discriminate].
    destruct (reported_eq_yielded k c ss Hv Hss) as [_ Hn]. rewrite Hlen. exact Hn.
  Qed.

  (* the honest row: every field spelled out *)
  Theorem evaluate_row_honest sp st rows tr : valid_splitter sp -> eval sp st = Ok (rows, tr) ->
    exists ss, splitter_splits sp = Ok ss /\
    forall k s, nth_error ss k = Some s ->
      exists r, nth_error rows k = Some r /\
        let H := hist_upto sp st ss k in
        r_score r = metric (map yv (snd s)) (map snd (respond H)) /\     (* metric(y_true, y_pred) *)
        r_ypred r = respond H /\
        r_len r = Z.of_nat (length (fst s)) /\
        r_ytrain r = y_at tm yv (fst s) /\ r_ytest r = y_at tm yv (snd s) /\
        r_cutoff r = cutoff_after H /\
        (cutoff_contract XV cutoff_after -> r_cutoff r = tm (zlast (fst s))) /\
        (* H ends with: fit-or-update on exactly this split's window, then predict on exactly its
           test times *)
        (exists before, H = before ++ [data_call XV tm yv xv st (Nat.eqb k 0) s;
                                       pred_call XV tm xv (zmin_list (splitter_fh sp)) s]) /\
        (* refit: the same as a forecaster that has seen nothing but this window *)
        (st = Refit -> fit_forgets XV respond cutoff_after ->
           r = rowof s (honest_refit_calls XV tm yv xv (zmin_list (splitter_fh sp)) s)) /\
        (* update: fitted on the first window, then updated with each later window in turn *)
        (st = UpdateS -> forall s0 rest, ss = s0 :: rest ->
           H = Fit (y_at tm yv (fst s0)) (x_at XV tm xv (fst s0)) (map tm (snd s0)) ::
               pred_call XV tm xv (zmin_list (splitter_fh sp)) s0 ::
               flat_map (fun s' => [Update (y_at tm yv (fst s')) (x_at XV tm xv (fst s'));
                                    pred_call XV tm xv (zmin_list (splitter_fh sp)) s'])
                        (firstn k rest)).
  Proof.
    intros Hv H. destruct (evaluate_rows_are_splits _ _ _ _ H) as (ss & Hss & Hlen & Htr & Hrows).
    exists ss. split; [exact Hss|]. intros k s Hk. destruct (Hrows k s Hk) as (r & Hr & ->).
    exists (rowof s (hist_upto sp st ss k)). split; [exact Hr|]. cbv zeta.
    destruct (splitter_sound sp ss Hv Hss) as (Hok & _).
    rewrite Forall_forall in Hok. pose proof (Hok s (nth_error_In _ _ Hk)) as Hs.
    assert (Hne : fst s <> []) by exact (train_nonempty sp ss s Hv Hss (nth_error_In _ _ Hk)).
    repeat split; try reflexivity.
    - intro Hc. exact (row_cutoff_is_last_training_time XV tm yv xv respond cutoff_after metric st _
                         ss k s Hc Hk Hne).
    - exact (history_upto_ends_with_predict XV tm yv xv st _ ss k s Hk).
    - intros Hst Hff. exact (refit_row_is_fresh_fit XV tm yv xv respond cutoff_after metric st _
                               ss k s Hst Hff Hk).
    - intros Hst s0 rest ->. apply update_history_shape. exact Hst.
  Qed.

  (* No leak, for the splitters of C01 *)
  Theorem evaluate_no_leak sp st rows tr : valid_splitter sp -> (forall p q, p < q -> tm p < tm q) ->
    eval sp st = Ok (rows, tr) ->
    exists ss, splitter_splits sp = Ok ss /\
    forall k sk, nth_error ss k = Some sk ->
      (exists rest, tr = hist_upto sp st ss k ++ rest) /\        (* the calls made so far ... *)
      forall c, In c (hist_upto sp st ss k) ->                  (* ... up to fold k's predict *)
        (forall t v, In (t, v) (call_ydata c) -> forall q, In q (snd sk) -> t < tm q) /\
        (forall t, In t (call_xtrain_times c) -> forall q, In q (snd sk) -> t < tm q).
  Proof.
    intros Hv Hm H. destruct (evaluate_rows_are_splits _ _ _ _ H) as (ss & Hss & _ & Htr & _).
    exists ss. split; [exact Hss|]. intros k sk Hk. split.
    - rewrite Htr. apply history_prefix.
    - destruct (splitter_sound sp ss Hv Hss) as (_ & Hnf).
      exact (no_leak_splits XV tm yv xv st _ ss Hnf Hm k sk Hk).
  Qed.

  (* exogenous slices: fit/update get the rows at exactly the training positions; predict gets the
     rows at every position after the cutoff up to the last test position; without X, nothing *)
  Definition call_x (c : call XV) : xdata XV :=
    match c with Fit _ x _ => x | Update _ x => x | Predict _ x => x | FitP _ x _ _ => x end.

  Theorem evaluate_exog_slices sp st rows tr : valid_splitter sp -> eval sp st = Ok (rows, tr) ->
    exists ss, splitter_splits sp = Ok ss /\ tr = hist sp st ss /\
    forall s, In s ss ->
      (forall b, call_x (data_call XV tm yv xv st b s) = x_at XV tm xv (fst s)) /\
      call_x (pred_call XV tm xv (zmin_list (splitter_fh sp)) s) =
        x_at XV tm xv (zrange (zlast (fst s) + 1) (zlast (snd s) + 1) 1) /\
      (forall q, In q (snd s) -> In q (zrange (zlast (fst s) + 1) (zlast (snd s) + 1) 1)) /\
      (xv = None -> forall c, In c tr -> call_x c = None).
  Proof.
    intros Hv H. destruct (evaluate_rows_are_splits _ _ _ _ H) as (ss & Hss & _ & Htr & _).
    exists ss. split; [exact Hss|]. split; [exact Htr|]. intros s Hs.
    destruct (splitter_sound sp ss Hv Hss) as (Hok & _). rewrite Forall_forall in Hok.
    assert (Hfh : valid_fh (splitter_fh sp)) by (destruct sp; cbn in Hv |- *; apply Hv).
    destruct (split_ok_cutoff _ _ s Hfh (Hok s Hs)) as (cut & _ & _ & _ & Hte & a & Ha & Htrn).
    assert (Hl1 : zlast (snd s) = cut + zlast (splitter_fh sp)).
    { rewrite Hte. unfold zlast. destruct Hfh as (Hne & _).
      rewrite (last_indep _ 0 (cut + 0)) by (destruct (splitter_fh sp); [congruence|discriminate]).
      apply (last_map (fun h => cut + h)). exact Hne. }
    assert (Hlt : a < cut + 1).
    { pose proof (train_nonempty sp ss s Hv Hss Hs) as Hne. rewrite Htrn in Hne.
      destruct (Z_lt_le_dec a (cut + 1)); [assumption|]. rewrite zrange_nil in Hne by lia. congruence. }
    assert (Hl2 : zlast (fst s) = cut).
    { rewrite Htrn. pose proof (zrange_last_bounds a (cut + 1) 1 ltac:(lia) ltac:(lia)). lia. }
    repeat split.
    - intro b. unfold data_call. destruct (b || is_refit st); reflexivity.
    - unfold pred_call. cbn [call_x]. rewrite Hte at 1. rewrite xtest_positions_eq by exact Hfh.
      rewrite Hl1, Hl2. reflexivity.
    - intros q Hq. rewrite Hte in Hq. apply in_map_iff in Hq. destruct Hq as (h & <- & Hh).
      apply zrange1_in. rewrite Hl1, Hl2.
      pose proof (valid_fh_pos _ h Hfh Hh). pose proof (valid_fh_le_last _ h Hfh Hh). lia.
    - intros Hx c Hc. rewrite Htr in Hc. destruct (in_history XV tm yv xv st _ c ss Hc) as (s' & b & _ & [->| ->]).
      + unfold data_call, x_at. rewrite Hx. destruct (b || is_refit st); reflexivity.
      + unfold pred_call, x_at. rewrite Hx. reflexivity.
  Qed.
End Top.

(* ---- the hypotheses are satisfiable: the Coq twins of the recording test double and of
        NaiveForecaster(last/mean) meet both forecaster contracts ---------------------------------- *)

Lemma frun_app f a b : frun f (a ++ b) = fold_left (fstep f) b (frun f a).
Proof. unfold frun. apply fold_left_app. Qed.

Theorem twins_fit_forgets f : fit_forgets Q (respond_of f) (cutoff_of f).
Proof.
  intros pre d x fh post. unfold respond_of, cutoff_of. rewrite frun_app.
  unfold frun at 2 4. cbn [fold_left fstep]. split; reflexivity.
Qed.

Theorem twins_cutoff_contract f : cutoff_contract Q (cutoff_of f).
Proof.
  intros pre c p Hc (fh & x & ->). unfold cutoff_of. rewrite frun_app. cbn [fold_left].
  destruct Hc as [(d & x' & f' & ->)|(d & x' & ->)]; reflexivity.
Qed.

Definition ex_sp : splitter :=
  SWindow Sliding {| n := 9; fh := [1; 2]; wl := 3; step := 2; iw := None; sww := true |}.
Definition ex_y : list Q := map inject_Z [3; 1; 4; 1; 5; 9; 2; 6; 5].

Example ex_nonvacuous :
  valid_splitter ex_sp /\ (forall p q, p < q -> p + 7 < q + 7) /\
  exists rows tr,
    model_eval ex_sp 7 ex_y None UpdateS MAsym (FDouble 1 1 1 1 1) = Ok (rows, tr) /\
    map r_cutoff rows = [9; 11; 13] /\ map r_len rows = [3; 3; 3] /\ length tr = 6%nat /\
    map (fun r => Qeq_bool (r_score r) (metric_of MAsym (map snd (r_ytest r)) (map snd (r_ypred r)))) rows
      = [true; true; true] /\
    (* the metric is genuinely asymmetric on this run: swapping its arguments changes row 0 *)
    map (fun r => Qeq_bool (r_score r) (metric_of MAsym (map snd (r_ypred r)) (map snd (r_ytest r)))) rows
      = [false; false; false].
Proof.
  split; [|split; [intros; lia|]].
  - cbn. repeat split; cbn; try lia; try discriminate.
  - eexists. eexists. split; [vm_compute; reflexivity|]. repeat split; vm_compute; reflexivity.
Qed.
