(* C07 property theorems.  Nothing but statements closed by `exact`, each followed by
   Print Assumptions.  The forecaster (`respond`, `cutoff_after`: any function of the history of calls
   it received), the metric (any function of (y_true, y_pred), not assumed symmetric), the series
   (`tm`, `yv`, `xv`) are universally quantified.  `evaluate` is the hand model whose fold step is
   proved equal (Bridge.v) to the step regenerated from evaluate()/_split() on this run (Site.v). *)
From Coq Require Import ZArith QArith List Bool.
Require Import SkV.Lib.Base SkV.Lib.ZRange SkV.C01.Model SkV.C01.Gen SkV.C01.Bridge SkV.C01.Proofs.
Require Import SkV.C07.Model SkV.C07.Site SkV.C07.Bridge SkV.C07.Cases SkV.C07.Proofs SkV.C07.FitParams
               SkV.C07.PriorState.
Import ListNotations.
Open Scope Z_scope.

(* the regenerated fold step is the model's fold step (hence: scoring(y_test, y_pred) in this order,
   fit/update(y_train, X_train), predict(fh, X_test), fit on fold 0 or strategy refit) *)
Theorem C07_site_step_is_model_step :
  forall XV tm yv xv respond cutoff_after metric st fhmin i tr s,
  gen_step XV (y_at tm yv) (x_at XV tm xv) respond cutoff_after metric None fhmin i (is_refit st) tr
           (fst s) (snd s) =
  fold_step XV tm yv xv respond cutoff_after metric st fhmin i tr s.
Proof. exact bridge_step. Qed.
Print Assumptions C07_site_step_is_model_step.

Theorem C07_site_metric_called_as_truth_then_forecast :
  forall XV tm yv xv respond cutoff_after metric st fhmin i tr s,
  let '(r, tr') := gen_step XV (y_at tm yv) (x_at XV tm xv) respond cutoff_after metric None fhmin
                            i (is_refit st) tr (fst s) (snd s) in
  r_score r = metric (map yv (snd s)) (map snd (respond tr')) /\
  r_len r = Z.of_nat (length (fst s)) /\ r_cutoff r = cutoff_after tr'.
Proof. exact bridge_scoring_order. Qed.
Print Assumptions C07_site_metric_called_as_truth_then_forecast.

(* ---- fit_params: "fitting ... on exactly that split's training window" with the SAME fit_params
        in every fold -------------------------------------------------------------------------- *)

(* the regenerated fold step hands the fit_params given to evaluate() to the fit call it makes *)
Theorem C07_site_step_passes_fit_params :
  forall XV tm yv xv respond cutoff_after metric fp st fhmin i tr s,
  gen_step XV (y_at tm yv) (x_at XV tm xv) respond cutoff_after metric fp fhmin i (is_refit st) tr
           (fst s) (snd s) =
  fold_step_fp XV tm yv xv respond cutoff_after metric fp st fhmin i tr s.
Proof. exact bridge_step_fp. Qed.
Print Assumptions C07_site_step_passes_fit_params.

(* every Fit event of the run carries the same fit_params, the ones given to evaluate(); the calls
   are the honest history with those fit_params attached to every fit *)
Theorem C07_every_fit_carries_the_fit_params :
  forall XV tm yv xv respond cutoff_after metric fp sp st rows tr,
  evaluate_fp XV tm yv xv respond cutoff_after metric fp sp st = Ok (rows, tr) ->
  exists ss, splitter_splits sp = Ok ss /\ length rows = length ss /\
    tr = map (with_fit_params fp) (history XV tm yv xv st (zmin_list (splitter_fh sp)) ss) /\
    Forall (fun c => fit_params_of c = None \/ fit_params_of c = Some fp) tr.
Proof. exact every_fit_carries_the_fit_params. Qed.
Print Assumptions C07_every_fit_carries_the_fit_params.

(* the run with fit_params fp IS the fit_params-free run for "the forecaster whose every fit receives
   fp": every theorem below applies to its rows; without fit_params nothing changes *)
Theorem C07_fit_params_run_is_honest_run_of_tagged_forecaster :
  forall XV tm yv xv respond cutoff_after metric fp sp st,
  evaluate_fp XV tm yv xv respond cutoff_after metric fp sp st =
  match evaluate XV tm yv xv (respond_fp XV respond fp) (cutoff_fp XV cutoff_after fp) metric sp st with
  | Ok (rows, tr) => Ok (rows, map (with_fit_params fp) tr)
  | Err => Err
  end.
Proof. exact evaluate_fp_is_evaluate_of_tagged_forecaster. Qed.
Print Assumptions C07_fit_params_run_is_honest_run_of_tagged_forecaster.

Theorem C07_no_fit_params_is_plain_evaluate :
  forall XV tm yv xv respond cutoff_after metric sp st,
  evaluate_fp XV tm yv xv respond cutoff_after metric None sp st =
  evaluate XV tm yv xv respond cutoff_after metric sp st.
Proof. exact evaluate_fp_None. Qed.
Print Assumptions C07_no_fit_params_is_plain_evaluate.

(* sensitivity: handing fit_params to the first fit only is invisible with strategy="update" and
   wrong for "refit" (regression C07-d): fold 1's fit event carries no fit_params, its score differs *)
Theorem C07_fit_params_first_fold_only_refuted :
  (forall XV tm yv xv respond cutoff_after metric fp fhmin ss i tr, 0 <= i ->
     eval_folds_first_only XV tm yv xv respond cutoff_after metric fp UpdateS fhmin i tr ss =
     eval_folds_fp XV tm yv xv respond cutoff_after metric fp UpdateS fhmin i tr ss) /\
  map fit_params_of (snd ex_honest) = [Some (Some 5); None; Some (Some 5); None] /\
  map fit_params_of (snd ex_first_only) = [Some (Some 5); None; Some None; None] /\
  map (fun p => Qeq_bool (r_score (fst p)) (r_score (snd p)))
      (combine (fst ex_honest) (fst ex_first_only)) = [true; false].
Proof. exact (conj first_only_harmless_for_update first_only_refuted). Qed.
Print Assumptions C07_fit_params_first_fold_only_refuted.

(* one row per split of the splitter, in order; the forecaster receives exactly the honest sequence
   of calls; row k is computed from split k and the forecaster's answer after that sequence up to
   fold k's predict *)
Theorem C07_rows_are_splits :
  forall XV tm yv xv respond cutoff_after metric sp st rows tr,
  evaluate XV tm yv xv respond cutoff_after metric sp st = Ok (rows, tr) ->
  exists ss, splitter_splits sp = Ok ss /\ length rows = length ss /\
    tr = history XV tm yv xv st (zmin_list (splitter_fh sp)) ss /\
    forall k s, nth_error ss k = Some s ->
      exists r, nth_error rows k = Some r /\
        r = row_of XV tm yv respond cutoff_after metric s
                   (history_upto XV tm yv xv st (zmin_list (splitter_fh sp)) ss k).
Proof. exact evaluate_rows_are_splits. Qed.
Print Assumptions C07_rows_are_splits.

Theorem C07_rows_count_is_reported_n_splits :
  forall XV tm yv xv respond cutoff_after metric k c st rows tr, valid c ->
  evaluate XV tm yv xv respond cutoff_after metric (SWindow k c) st = Ok (rows, tr) ->
  Z.of_nat (length rows) = window_n_splits c.
Proof. exact evaluate_rows_count_window. Qed.
Print Assumptions C07_rows_count_is_reported_n_splits.

(* score = metric(y_true := test values, y_pred := the forecast), len_train_window = window size,
   cutoff = last training time, the forecast being that of a forecaster fitted on exactly this
   window (refit, given that fit forgets) / fitted on window 0 and updated with windows 1..k (update) *)
Theorem C07_row_honest :
  forall XV tm yv xv respond cutoff_after metric sp st rows tr,
  valid_splitter sp -> evaluate XV tm yv xv respond cutoff_after metric sp st = Ok (rows, tr) ->
  exists ss, splitter_splits sp = Ok ss /\
  forall k s, nth_error ss k = Some s ->
    exists r, nth_error rows k = Some r /\
      let H := history_upto XV tm yv xv st (zmin_list (splitter_fh sp)) ss k in
      r_score r = metric (map yv (snd s)) (map snd (respond H)) /\
      r_ypred r = respond H /\
      r_len r = Z.of_nat (length (fst s)) /\
      r_ytrain r = y_at tm yv (fst s) /\ r_ytest r = y_at tm yv (snd s) /\
      r_cutoff r = cutoff_after H /\
      (cutoff_contract XV cutoff_after -> r_cutoff r = tm (zlast (fst s))) /\
      (exists before, H = before ++ [data_call XV tm yv xv st (Nat.eqb k 0) s;
                                     pred_call XV tm xv (zmin_list (splitter_fh sp)) s]) /\
      (st = Refit -> fit_forgets XV respond cutoff_after ->
         r = row_of XV tm yv respond cutoff_after metric s
                    (honest_refit_calls XV tm yv xv (zmin_list (splitter_fh sp)) s)) /\
      (st = UpdateS -> forall s0 rest, ss = s0 :: rest ->
         H = Fit (y_at tm yv (fst s0)) (x_at XV tm xv (fst s0)) (map tm (snd s0)) ::
             pred_call XV tm xv (zmin_list (splitter_fh sp)) s0 ::
             flat_map (fun s' => [Update (y_at tm yv (fst s')) (x_at XV tm xv (fst s'));
                                  pred_call XV tm xv (zmin_list (splitter_fh sp)) s'])
                      (firstn k rest)).
Proof. exact evaluate_row_honest. Qed.
Print Assumptions C07_row_honest.

(* During fold k (and before it) the forecaster is never handed an observation at or after any
   test time of fold k before fold k's predict: corollary of C01's window_split_sound /
   cutoffs_progression / single_sound *)
Theorem C07_no_leak :
  forall XV tm yv xv respond cutoff_after metric sp st rows tr,
  valid_splitter sp -> (forall p q, p < q -> tm p < tm q) ->
  evaluate XV tm yv xv respond cutoff_after metric sp st = Ok (rows, tr) ->
  exists ss, splitter_splits sp = Ok ss /\
  forall k sk, nth_error ss k = Some sk ->
    (exists rest, tr = history_upto XV tm yv xv st (zmin_list (splitter_fh sp)) ss k ++ rest) /\
    forall c, In c (history_upto XV tm yv xv st (zmin_list (splitter_fh sp)) ss k) ->
      (forall t v, In (t, v) (call_ydata c) -> forall q, In q (snd sk) -> t < tm q) /\
      (forall t, In t (call_xtrain_times c) -> forall q, In q (snd sk) -> t < tm q).
Proof. exact evaluate_no_leak. Qed.
Print Assumptions C07_no_leak.

Theorem C07_exog_slices :
  forall XV tm yv xv respond cutoff_after metric sp st rows tr,
  valid_splitter sp -> evaluate XV tm yv xv respond cutoff_after metric sp st = Ok (rows, tr) ->
  exists ss, splitter_splits sp = Ok ss /\
    tr = history XV tm yv xv st (zmin_list (splitter_fh sp)) ss /\
  forall s, In s ss ->
    (forall b, call_x XV (data_call XV tm yv xv st b s) = x_at XV tm xv (fst s)) /\
    call_x XV (pred_call XV tm xv (zmin_list (splitter_fh sp)) s) =
      x_at XV tm xv (zrange (zlast (fst s) + 1) (zlast (snd s) + 1) 1) /\
    (forall q, In q (snd s) -> In q (zrange (zlast (fst s) + 1) (zlast (snd s) + 1) 1)) /\
    (xv = None -> forall c, In c tr -> call_x XV c = None).
Proof. exact evaluate_exog_slices. Qed.
Print Assumptions C07_exog_slices.

(* evaluate() refuses splitters that do not start with a full window, and otherwise rejects exactly
   when the splitter does *)
Theorem C07_requires_start_with_window :
  forall XV tm yv xv respond cutoff_after metric k c st, sww c = false ->
  evaluate XV tm yv xv respond cutoff_after metric (SWindow k c) st = Err.
Proof. exact evaluate_requires_start_with_window. Qed.
Print Assumptions C07_requires_start_with_window.

Theorem C07_rejects_iff_splitter_rejects :
  forall XV tm yv xv respond cutoff_after metric sp st,
  evaluate XV tm yv xv respond cutoff_after metric sp st = Err <-> splitter_splits sp = Err.
Proof. exact evaluate_rejects_iff. Qed.
Print Assumptions C07_rejects_iff_splitter_rejects.

(* the state of the forecaster OBJECT handed to evaluate() (already fitted on the full series / on
   another series / used by an earlier evaluate: an object whose history of calls is `pre`) does not
   show in the rows, for both strategies, for every forecaster whose fit forgets; evaluate() tells it
   the honest history on top of what it had been told *)
Theorem C07_rows_do_not_depend_on_the_state_of_the_forecaster_passed_in :
  forall XV tm yv xv respond cutoff_after metric st fhmin,
  fit_forgets XV respond cutoff_after -> forall pre ss,
  fst (evaluate_from XV tm yv xv respond cutoff_after metric st fhmin pre ss) =
    fst (evaluate_from XV tm yv xv respond cutoff_after metric st fhmin [] ss) /\
  snd (evaluate_from XV tm yv xv respond cutoff_after metric st fhmin pre ss) =
    pre ++ snd (evaluate_from XV tm yv xv respond cutoff_after metric st fhmin [] ss).
Proof. exact evaluate_ignores_prior_history. Qed.
Print Assumptions C07_rows_do_not_depend_on_the_state_of_the_forecaster_passed_in.

(* "skip the initial fit if the forecaster is already fitted" (regression C07-g) is the same
   function on a fresh object and under refit, and scores an object fitted beforehand on a model
   that was never fitted on the first training window *)
Theorem C07_skipping_the_first_fit_is_invisible_on_fresh_objects_and_wrong_on_fitted_ones :
  (forall XV tm yv xv respond cutoff_after metric st fhmin ss,
   eval_folds_skip XV tm yv xv respond cutoff_after metric st fhmin [] ss =
   eval_folds XV tm yv xv respond cutoff_after metric st fhmin 0 [] ss) /\
  map is_fit_call (skipn 1 (snd ps_honest)) = [true; false; false; false] /\
  map is_fit_call (skipn 1 (snd ps_skip)) = [false; false; false; false] /\
  map (fun p => Qeq_bool (r_score (fst p)) (r_score (snd p)))
      (combine (fst ps_honest) (fst ps_skip)) = [false; false].
Proof. exact (conj skip_harmless_for_fresh_object skip_refuted). Qed.
Print Assumptions C07_skipping_the_first_fit_is_invisible_on_fresh_objects_and_wrong_on_fitted_ones.

(* the two forecaster contracts used above are met by the Coq twins of the recording test double
   and of NaiveForecaster(last/mean) that the correspondence run compares with the real classes *)
Theorem C07_twins_meet_contracts : forall f,
  fit_forgets Q (respond_of f) (cutoff_of f) /\ cutoff_contract Q (cutoff_of f).
Proof. exact (fun f => conj (twins_fit_forgets f) (twins_cutoff_contract f)). Qed.
Print Assumptions C07_twins_meet_contracts.

(* hypotheses are satisfiable by a non-trivial run; on it the asymmetric metric tells the two
   argument orders apart *)
Example C07_nonvacuous :
  valid_splitter ex_sp /\ (forall p q, p < q -> p + 7 < q + 7) /\
  exists rows tr,
    model_eval ex_sp 7 ex_y None UpdateS MAsym (FDouble 1 1 1 1 1) = Ok (rows, tr) /\
    map r_cutoff rows = [9; 11; 13] /\ map r_len rows = [3; 3; 3] /\ length tr = 6%nat /\
    map (fun r => Qeq_bool (r_score r) (metric_of MAsym (map snd (r_ytest r)) (map snd (r_ypred r)))) rows
      = [true; true; true] /\
    map (fun r => Qeq_bool (r_score r) (metric_of MAsym (map snd (r_ypred r)) (map snd (r_ytest r)))) rows
      = [false; false; false].
Proof. exact ex_nonvacuous. Qed.
