(* C08 bridge: the selection logic regenerated from BaseGridSearch.fit (Site.v) is the model's.
   The first lemma is the tie that catches `ascending=~scoring.greater_is_better`: the regenerated
   expression must denote boolean negation under Python's truthiness. *)
From Coq Require Import ZArith QArith List Bool.
Require Import SkV.Lib.Base SkV.Lib.ZRange SkV.C01.Model SkV.C07.Model SkV.C08.Model SkV.C08.Site.
Import ListNotations.
Open Scope Z_scope.

Theorem bridge_ascending_is_negation : forall b, truthy (gen_ascending (PyBool b)) = negb b.
Proof. intros []; reflexivity. Qed.

(* the mean column is ranked with that value of `ascending`, best_index_ is the arg-min of the ranks *)
Theorem bridge_select : forall means b,
  gen_select means (PyBool b) = select (gen_ascending (PyBool b)) means.
Proof. reflexivity. Qed.

(* refit: best_forecaster_.fit(y, X, fh) *)
Theorem bridge_refit_call : forall XV (y : ydata) (X : xdata XV) (fh : list Z),
  gen_refit_call y X fh = Fit y X fh.
Proof. reflexivity. Qed.

Require Import Coq.Strings.String.
Open Scope string_scope.

(* _fit_and_score evaluates the clone carrying the candidate's parameters with the tuner's own cv,
   y, X, strategy and scoring: the same for every candidate *)
Theorem bridge_evaluate_args : gen_evaluate_args =
  [("X", "X"); ("cv", "cv"); ("fit_params", "fit_params"); ("forecaster", "forecaster");
   ("scoring", "scoring"); ("strategy", "self.strategy"); ("y", "y")].
Proof. reflexivity. Qed.

(* predict / update hand their own arguments to best_forecaster_ *)
Theorem bridge_predict_args : gen_predict_args =
  [("X", "X"); ("alpha", "alpha"); ("fh", "fh"); ("return_pred_int", "return_pred_int")].
Proof. reflexivity. Qed.

Theorem bridge_update_args : gen_update_args =
  [("X", "X"); ("update_params", "update_params"); ("y", "y")].
Proof. reflexivity. Qed.
