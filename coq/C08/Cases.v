(* C08 correspondence: the abstract forecaster objects are instantiated with the Coq twins of C07
   (test double, NaiveForecaster last/mean), an affine-pipeline wrapper and a multiplexer; candidates
   are the PARTIAL parameter dicts of cv_results_["params"] (lists of single assignments `pset`)
   applied by `apply8` to the case's base forecaster; cases carry the real
   tuner's cv_results_ (means, ranks), best_index_/best_score_/best_params_ and the answers of
   predict / update / cutoff after fit.  The evaluation half is compared with tolerance (floats vs
   exact rationals); the selection half is recomputed EXACTLY on the implementation's own means with
   the regenerated selection function `gen_select`. *)
From Coq Require Import ZArith QArith Qabs List Bool.
Require Import SkV.Lib.Base SkV.Lib.ZRange SkV.C01.Model SkV.C07.Model SkV.C07.Cases.
Require Import SkV.C08.Model SkV.C08.Site.
Import ListNotations.
Open Scope Z_scope.

Inductive fc8 :=
  | F8 (f : fcspec)
  | F8Pipe (a b : Z) (f : fcspec)    (* TransformedTargetForecaster([y -> a*y+b, f]) *)
  | F8Mux (ms : list fcspec) (sel : Z).   (* MultiplexForecaster(ms, selected_forecaster = ms[sel]) *)

(* one entry of a candidate dict *)
Inductive pset :=
  | PCoef (i v : Z)                  (* a / b / c / d / e (i = 0..4) of the test double *)
  | PTag (v : Z)                     (* the double's inert `tag` *)
  | PStrategy (mean : bool)          (* NaiveForecaster strategy *)
  | PWl (w : option Z)               (* NaiveForecaster window_length *)
  | PTa (v : Z) | PTb (v : Z)        (* t__a / t__b of the pipeline's transformer *)
  | PInner (p : pset)                (* f__<p> of the pipeline *)
  | PMember (i : Z) (p : pset)       (* m<i>__<p> of the multiplexer *)
  | PSelect (i : Z).                 (* selected_forecaster = name of member i *)

(* set_params on a leaf forecaster; an assignment the object has no parameter for never occurs *)
Definition set_fc (f : fcspec) (p : pset) : fcspec :=
  match f, p with
  | FDouble a b c d e, PCoef i v =>
      if i =? 0 then FDouble v b c d e else if i =? 1 then FDouble a v c d e
      else if i =? 2 then FDouble a b v d e else if i =? 3 then FDouble a b c v e
      else FDouble a b c d v
  | FNaive _ w, PStrategy m => FNaive m w
  | FNaive m _, PWl w => FNaive m w
  | _, _ => f
  end.
Fixpoint set_nth (i : nat) (g : fcspec -> fcspec) (l : list fcspec) : list fcspec :=
  match l, i with
  | [], _ => []
  | x :: t, O => g x :: t
  | x :: t, S j => x :: set_nth j g t
  end.
Definition set8 (f : fc8) (p : pset) : fc8 :=
  match f, p with
  | F8 g, _ => F8 (set_fc g p)
  | F8Pipe _ b g, PTa v => F8Pipe v b g
  | F8Pipe a _ g, PTb v => F8Pipe a v g
  | F8Pipe a b g, PInner q => F8Pipe a b (set_fc g q)
  | F8Mux ms _, PSelect i => F8Mux ms i
  | F8Mux ms s, PMember i q => F8Mux (set_nth (Z.to_nat i) (fun g => set_fc g q) ms) s
  | _, _ => f
  end.
(* clone(base).set_params( **dict ): the entries of one dict name distinct parameters *)
Definition apply8 (f : fc8) (pa : list pset) : fc8 := fold_left set8 pa f.
Definition member (ms : list fcspec) (sel : Z) : fcspec :=
  nth (Z.to_nat sel) ms (FNaive false None).

Definition tr_ydata (a b : Z) (d : ydata) : ydata :=
  map (fun o => (fst o, (inject_Z a * snd o + inject_Z b)%Q)) d.
Definition inv_ydata (a b : Z) (d : ydata) : ydata :=
  map (fun o => (fst o, ((snd o - inject_Z b) / inject_Z a)%Q)) d.
Definition tr_call (a b : Z) (c : call Q) : call Q :=
  match c with
  | Fit y x f => Fit (tr_ydata a b y) x f
  | Update y _ => Update (tr_ydata a b y) None     (* TransformedTargetForecaster.update drops X *)
  | Predict f x => Predict f x
  | FitP y x f p => FitP (tr_ydata a b y) x f p
  end.
Definition respond8 (f : fc8) (h : list (call Q)) : ydata :=
  match f with
  | F8 g => respond_of g h
  | F8Pipe a b g => inv_ydata a b (respond_of g (map (tr_call a b) h))
  | F8Mux ms sel => respond_of (member ms sel) h
  end.
Definition cutoff8 (f : fc8) (h : list (call Q)) : Z :=
  match f with
  | F8 g => cutoff_of g h
  | F8Pipe a b g => cutoff_of g (map (tr_call a b) h)
  | F8Mux ms sel => cutoff_of (member ms sel) h
  end.

Record impl := mkimpl {
  im_means : list Q; im_ranks : list Q; im_best_index : Z; im_best_score : Q;
  im_best_cand : Z;                       (* position of best_params_ in the candidate list *)
  im_answers : list (answer) }.

Inductive case :=
  | CTune (sp : splitter) (off : Z) (ys : list Q) (xs : option (list Q)) (st : strategy)
          (m : mspec) (gib : bool) (base : fc8) (cands : list (list pset)) (refit : bool)
          (fitfh : list Z)
          (script : list (op Q)) (o : option impl).

Definition qlist_close (a b : list Q) : bool :=
  (length a =? length b)%nat && forallb (fun p => qclose (fst p) (snd p)) (combine a b).
Definition qlist_eq (a b : list Q) : bool :=
  (length a =? length b)%nat && forallb (fun p => Qeq_bool (fst p) (snd p)) (combine a b).

Definition answer_agree (a b : answer) : bool :=
  match a, b with
  | ASeries x, ASeries y => ydata_close x y
  | ACutoff c, ACutoff d => c =? d
  | ADone, ADone => true
  | ANotFitted, ANotFitted => true
  | _, _ => false
  end.
Definition answers_agree (a b : list answer) : bool :=
  (length a =? length b)%nat && forallb (fun p => answer_agree (fst p) (snd p)) (combine a b).

Definition xfun (xs : option (list Q)) : option (Z -> Q) :=
  match xs with Some l => Some (series l) | None => None end.

Definition model_tune (sp : splitter) (off : Z) (ys : list Q) (xs : option (list Q))
           (st : strategy) (m : mspec) (gib : bool) (base : fc8) (cands : list (list pset))
           (refit : bool) (fitfh : list Z) (script : list (op Q)) :=
  match tuner_fit Q (fun p => p + off) (series ys) (xfun xs) (metric_of m) gib gen_ascending fc8
                  (list pset) apply8 respond8 cutoff8 base sp st cands refit fitfh with
  | Ok t => Ok (tn_search _ _ t, tuner_run Q fc8 (list pset) apply8 respond8 cutoff8 base t script)
  | Err => Err
  end.

Definition check (c : case) : bool :=
  match c with
  | CTune sp off ys xs st m gib base cands refit fitfh script o =>
      match tuner_fit Q (fun p => p + off) (series ys) (xfun xs) (metric_of m) gib gen_ascending
                      fc8 (list pset) apply8 respond8 cutoff8 base sp st cands refit fitfh, o with
      | Err, None => true
      | Ok t, Some im =>
          let s := tn_search _ _ t in
          (* every mean is the mean of an independent evaluate run of that candidate *)
          qlist_close (s_means s) (im_means im) &&
          (* selection, exactly, on the implementation's own means *)
          (let '(rk, bi) := gen_select (im_means im) (PyBool gib) in
           qlist_eq rk (im_ranks im) && (bi =? im_best_index im) &&
           Qeq_bool (nth (Z.to_nat bi) (im_means im) 0%Q) (im_best_score im) &&
           (im_best_cand im =? bi) &&
           (* the tuner after fit behaves as the winner fitted on the whole series *)
           match cands with
           | [] => false
           | c0 :: _ =>
               let t' := mktuner Q (list pset)
                           (mksearch (s_means s) (s_ranks s) bi (s_best_score s)
                                     (nth (Z.to_nat bi) cands c0) cands)
                           (tn_refit _ _ t) (tn_calls _ _ t) in
               answers_agree (tuner_run Q fc8 (list pset) apply8 respond8 cutoff8 base t' script)
                             (im_answers im)
           end)
      | _, _ => false
      end
  end.

Fixpoint mism (cs : list (Z * case)) : list Z :=
  match cs with
  | [] => []
  | (i, c) :: t => if check c then mism t else i :: mism t
  end.
