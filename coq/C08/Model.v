(* C08 model: grid / randomized search = evaluate every candidate with C07's evaluate on the same
   splitter, average the fold scores, rank the averages the way pandas does, take the first
   arg-min of the ranks, optionally refit the winner on the whole series and delegate to it.

   Abstract: series, metric, the forecaster objects `F` (`respond f`, `cutoff_after f` = a forecaster
   instance with constructor parameters f and NO fitted state, as a function of the calls it
   receives), the candidates `PA` = PARTIAL parameter assignments (the dicts of ParameterGrid /
   ParameterSampler; they may name different parameters and leave others alone), and
   `apply_params f p` = clone(f).set_params( **p ).  Every candidate is applied to a fresh clone of the
   SAME base forecaster: parameters a candidate does not name keep the base forecaster's values, never
   those of another candidate.  Concrete: pandas' Series.rank(method="average") + Series.argmin(), and
   Python's truthiness of the `ascending=` argument. *)
From Coq Require Import ZArith QArith List Bool.
Require Import SkV.Lib.Base SkV.Lib.ZRange SkV.C01.Model SkV.C07.Model.
Import ListNotations.
Open Scope Z_scope.

(* ---- just enough of Python's value model for the `ascending=` expression --------------------- *)
Inductive pyval := PyBool (b : bool) | PyInt (z : Z).
Definition py_int (v : pyval) : Z := match v with PyBool b => if b then 1 else 0 | PyInt z => z end.
Definition truthy (v : pyval) : bool := negb (py_int v =? 0).
Definition py_not (v : pyval) : pyval := PyBool (negb (truthy v)).      (* `not v` *)
Definition py_invert (v : pyval) : pyval := PyInt (- py_int v - 1).     (* `~v`: bool is an int *)

(* ---- pandas: Series.rank(ascending=asc) with the default method="average", Series.argmin() ---- *)
Definition qltb (a b : Q) : bool := negb (Qle_bool b a).
(* a is ranked strictly before b *)
Definition before (asc : bool) (a b : Q) : bool := if asc then qltb a b else qltb b a.
Definition qcount (f : Q -> bool) (l : list Q) : Z := Z.of_nat (length (filter f l)).
Definition rank_avg (asc : bool) (l : list Q) (x : Q) : Q :=
  (inject_Z (qcount (fun y => before asc y x) l) + (inject_Z (qcount (Qeq_bool x) l) + 1) * (1 # 2))%Q.
Definition ranks (asc : bool) (l : list Q) : list Q := map (rank_avg asc l) l.

Fixpoint argmin_aux (best : Q) (bi i : Z) (l : list Q) : Z :=
  match l with
  | [] => bi
  | x :: t => if qltb x best then argmin_aux x i (i + 1) t else argmin_aux best bi (i + 1) t
  end.
Definition argmin (l : list Q) : Z := match l with [] => 0 | x :: t => argmin_aux x 0 1 t end.

(* Series.argmax(), only so that a regenerated `argmax` has a meaning (the bridge then fails) *)
Fixpoint argmax_aux (best : Q) (bi i : Z) (l : list Q) : Z :=
  match l with
  | [] => bi
  | x :: t => if qltb best x then argmax_aux x i (i + 1) t else argmax_aux best bi (i + 1) t
  end.
Definition argmax (l : list Q) : Z := match l with [] => 0 | x :: t => argmax_aux x 0 1 t end.

(* rank column and best_index_ from the mean scores, given the VALUE passed as `ascending=` *)
Definition select (ascending : pyval) (means : list Q) : list Q * Z :=
  let rk := ranks (truthy ascending) means in (rk, argmin rk).

Definition qsum (l : list Q) : Q := fold_left Qplus l 0%Q.
Definition qmean (l : list Q) : Q := (qsum l / inject_Z (Z.of_nat (length l)))%Q.

Fixpoint all_ok {A} (l : list (res A)) : res (list A) :=
  match l with
  | [] => Ok []
  | Ok a :: t => rcons a (all_ok t)
  | Err :: _ => Err
  end.

Section Tune.
  Variable XV : Type.
  Variable tm : Z -> Z.
  Variable yv : Z -> Q.
  Variable xv : option (Z -> XV).
  Variable metric : list Q -> list Q -> Q.
  Variable greater_is_better : bool.                      (* scoring.greater_is_better *)
  Variable ascending_expr : pyval -> pyval.               (* the expression passed as ascending= *)
  Variable F : Type.                                      (* a forecaster object: its parameters *)
  Variable P : Type.                                      (* a candidate: PARTIAL parameter dict *)
  Variable apply_params : F -> P -> F.                    (* clone(f).set_params( **p ) *)
  Variable respond : F -> list (call XV) -> ydata.
  Variable cutoff_after : F -> list (call XV) -> Z.
  Variable base : F.                                      (* self.forecaster *)

  (* an independent evaluate() run of forecaster object f, then the mean of the score column *)
  Definition fc_eval (sp : splitter) (st : strategy) (f : F) : res (list row * list (call XV)) :=
    evaluate XV tm yv xv (respond f) (cutoff_after f) metric sp st.
  Definition fc_mean (sp : splitter) (st : strategy) (f : F) : res Q :=
    match fc_eval sp st f with
    | Ok (rows, _) => Ok (qmean (map r_score rows))
    | Err => Err
    end.
  (* _fit_and_score(params): forecaster = clone(self.forecaster); forecaster.set_params( **params ) *)
  Definition cand_eval (sp : splitter) (st : strategy) (p : P) : res (list row * list (call XV)) :=
    fc_eval sp st (apply_params base p).
  Definition cand_mean (sp : splitter) (st : strategy) (p : P) : res Q :=
    fc_mean sp st (apply_params base p).

  (* NOT the search: the loop with ONE forecaster instance shared by all candidates (set_params on
     the object the previous candidate left behind).  Only here so that this regression has a
     meaning in the model: Proofs.v shows when it coincides with the search, Refuted.v that it breaks
     candidate isolation as soon as candidates name different parameters. *)
  Fixpoint shared_means (sp : splitter) (st : strategy) (inst : F) (cands : list P)
    : list (res Q) :=
    match cands with
    | [] => []
    | p :: t => let inst' := apply_params inst p in fc_mean sp st inst' :: shared_means sp st inst' t
    end.

  Record search := mksearch {
    s_means : list Q;          (* cv_results_["mean_test_<metric>"] *)
    s_ranks : list Q;          (* cv_results_["rank_test_<metric>"] *)
    s_best_index : Z;          (* best_index_ *)
    s_best_score : Q;          (* best_score_ *)
    s_best : P;                (* best_params_ *)
    s_params : list P }.       (* cv_results_["params"]: row i = the candidate scored in row i *)

  Definition tune (sp : splitter) (st : strategy) (cands : list P) : res search :=
    match cands with
    | [] => Err                                            (* "No fits were performed" *)
    | c0 :: _ =>
        match all_ok (map (cand_mean sp st) cands) with
        | Err => Err
        | Ok means =>
            let '(rk, bi) := select (ascending_expr (PyBool greater_is_better)) means in
            Ok (mksearch means rk bi (nth (Z.to_nat bi) means 0%Q) (nth (Z.to_nat bi) cands c0) cands)
        end
    end.

  (* ---- where the candidates come from -------------------------------------------------------
     ParameterGrid / ParameterSampler are ITERABLES: one pass yields a list of candidates and may
     consume generator state (random_state=None: numpy's global generator; a RandomState instance).
     evaluate_candidates starts with `candidate_params = list(candidate_params)`: ONE pass; the list
     it yields is what is evaluated AND what the params column shows. *)
  Variable G : Type.                               (* state of the random generator *)
  Variable draw : G -> list P * G.                 (* one pass over the iterable *)

  Definition search_from (g : G) (sp : splitter) (st : strategy) : res search * G :=
    let '(cands, g') := draw g in (tune sp st cands, g').

  (* NOT the search: scores from a first pass, params column (and best_params_) from a SECOND pass
     (regression C08-c).  Proofs.v: equal to the search when the iterable is re-iterable (a grid, an
     integer seed); Refuted.v: rows and params misaligned otherwise. *)
  Definition search_two_pass (g : G) (sp : splitter) (st : strategy) : res search :=
    let '(cands, g') := draw g in
    let '(cands2, _) := draw g' in
    match tune sp st cands, cands2 with
    | Ok s, c0 :: _ =>
        Ok (mksearch (s_means s) (s_ranks s) (s_best_index s) (s_best_score s)
                     (nth (Z.to_nat (s_best_index s)) cands2 c0) cands2)
    | _, _ => Err
    end.

  (* ---- the fitted tuner as an object ---------------------------------------------------------- *)
  Record tuner := mktuner {
    tn_search : search;
    tn_refit : bool;
    tn_calls : list (call XV) }.     (* calls best_forecaster_ has received so far *)

  Definition whole (nn : Z) : list Z := zrange 0 nn 1.

  (* fit(y, X, fh): search, then (refit) best_forecaster_.fit(y, X, fh) on the WHOLE series *)
  Definition tuner_fit (sp : splitter) (st : strategy) (cands : list P) (refit : bool)
             (fhabs : list Z) : res tuner :=
    match tune sp st cands with
    | Err => Err
    | Ok s =>
        let nn := match sp with SWindow _ c => n c | SSingle nn _ _ => nn end in
        Ok (mktuner s refit
              (if refit then [Fit (y_at tm yv (whole nn)) (x_at XV tm xv (whole nn)) fhabs] else []))
    end.

  Inductive op :=
    | OpPredict (fhabs : list Z) (x : xdata XV)
    | OpUpdate (y : ydata) (x : xdata XV)
    | OpCutoff.
  Inductive answer :=
    | ASeries (y : ydata) | ACutoff (c : Z) | ADone
    | ANotFitted.                      (* NotFittedError (predict / update / cutoff) *)

  Definition op_call (o : op) : list (call XV) :=
    match o with OpPredict f x => [Predict f x] | OpUpdate y x => [Update y x] | OpCutoff => [] end.

  (* what the forecaster object p that has received `h` answers to operation o *)
  Definition direct_answer (p : F) (h : list (call XV)) (o : op) : answer :=
    match o with
    | OpPredict _ _ => ASeries (respond p (h ++ op_call o))
    | OpUpdate _ _ => ADone
    | OpCutoff => ACutoff (cutoff_after p h)
    end.
  Fixpoint direct_run (p : F) (h : list (call XV)) (script : list op) : list answer :=
    match script with
    | [] => []
    | o :: t => direct_answer p h o :: direct_run p (h ++ op_call o) t
    end.

  (* best_forecaster_ = clone(self.forecaster).set_params( **best_params_ ): a fresh clone again *)
  Definition best_forecaster (s : search) : F := apply_params base (s_best s).

  (* predict / update / cutoff of the tuner: check_is_fitted(method) then delegate *)
  Definition tuner_step (t : tuner) (o : op) : answer * tuner :=
    if tn_refit t
    then (direct_answer (best_forecaster (tn_search t)) (tn_calls t) o,
          mktuner (tn_search t) (tn_refit t) (tn_calls t ++ op_call o))
    else (ANotFitted, t).
  Fixpoint tuner_run (t : tuner) (script : list op) : list answer :=
    match script with
    | [] => []
    | o :: r => let '(a, t') := tuner_step t o in a :: tuner_run t' r
    end.
End Tune.

Arguments mksearch {P} _ _ _ _ _ _.
Arguments s_means {P} s.
Arguments s_ranks {P} s.
Arguments s_best_index {P} s.
Arguments s_best_score {P} s.
Arguments s_best {P} s.
Arguments s_params {P} s.
Arguments OpPredict {XV} fhabs x.
Arguments OpUpdate {XV} y x.
Arguments OpCutoff {XV}.
