(* C08 proofs: selection (pandas rank + argmin = first best mean), every candidate evaluated by an
   independent evaluate() on the same splits, refit / delegation. *)
From Coq Require Import ZArith QArith Qabs List Bool Lia Lqa.
Require Import SkV.Lib.Base SkV.Lib.ZRange SkV.C01.Model SkV.C01.Gen SkV.C01.Bridge SkV.C01.Proofs.
Require Import SkV.C07.Model SkV.C07.Site SkV.C07.Bridge SkV.C07.Cases SkV.C07.Proofs.
Require Import SkV.C08.Model SkV.C08.Site SkV.C08.Bridge SkV.C08.Cases.
Import ListNotations.
Open Scope Z_scope.

(* ---- order on Q through the booleans of the model --------------------------------------------- *)

Lemma qltb_lt a b : qltb a b = true <-> (a < b)%Q.
Proof.
  unfold qltb. rewrite negb_true_iff. split.
  - intro H. apply Qnot_le_lt. intro Hle. apply Qle_bool_iff in Hle. congruence.
  - intro H. destruct (Qle_bool b a) eqn:E; [|reflexivity]. apply Qle_bool_iff in E.
    exfalso. exact (Qlt_not_le _ _ H E).
Qed.

Lemma qltb_ge a b : qltb a b = false <-> (b <= a)%Q.
Proof.
  unfold qltb. rewrite negb_false_iff. apply Qle_bool_iff.
Qed.

(* a is ranked strictly before b *)
Definition Before (asc : bool) (a b : Q) : Prop := if asc then (a < b)%Q else (b < a)%Q.

Lemma before_iff asc a b : before asc a b = true <-> Before asc a b.
Proof. unfold before, Before. destruct asc; apply qltb_lt. Qed.

Lemma Before_irrefl asc a b : (a == b)%Q -> ~ Before asc a b.
Proof. unfold Before. intros E H. destruct asc; rewrite E in H; exact (Qlt_irrefl _ H). Qed.

Lemma Before_trans asc a b c : Before asc a b -> Before asc b c -> Before asc a c.
Proof. unfold Before. destruct asc; intros; eapply Qlt_trans; eauto. Qed.

Lemma Before_compat_l asc a a' b : (a == a')%Q -> Before asc a b -> Before asc a' b.
Proof. unfold Before. intros E H. destruct asc; rewrite <- E; exact H. Qed.

Lemma Before_compat_r asc a b b' : (b == b')%Q -> Before asc a b -> Before asc a b'.
Proof. unfold Before. intros E H. destruct asc; rewrite <- E; exact H. Qed.

Lemma Before_total asc a b : Before asc a b \/ (a == b)%Q \/ Before asc b a.
Proof.
  unfold Before. destruct (Q_dec a b) as [[H|H]|H]; destruct asc; auto.
Qed.

Lemma bool_ext (x y : bool) : (x = true <-> y = true) -> x = y.
Proof.
  destruct x, y; intros [H1 H2]; try reflexivity;
    [symmetry; apply H1; reflexivity|apply H2; reflexivity].
Qed.

(* ---- average ranks are strictly monotone in the ranked order ---------------------------------- *)

Lemma count_split asc (l : list Q) a b : Before asc a b ->
  qcount (fun y => before asc y a) l + qcount (Qeq_bool a) l <= qcount (fun y => before asc y b) l.
Proof.
  intro Hab. unfold qcount. induction l as [|y t IH]; [cbn; lia|]. cbn [filter].
  destruct (before asc y a) eqn:E1; destruct (Qeq_bool a y) eqn:E2;
    destruct (before asc y b) eqn:E3; cbn [length]; try lia.
  - (* y before a and a == y: impossible *)
    apply before_iff in E1. apply Qeq_bool_iff in E2. exfalso.
    exact (Before_irrefl asc y a (Qeq_sym _ _ E2) E1).
  - apply before_iff in E1. apply Qeq_bool_iff in E2. exfalso.
    exact (Before_irrefl asc y a (Qeq_sym _ _ E2) E1).
  - (* y before a but not before b: contradiction by transitivity *)
    apply before_iff in E1. assert (H : before asc y b = true)
      by (apply before_iff; exact (Before_trans asc y a b E1 Hab)). congruence.
  - apply Qeq_bool_iff in E2. assert (H : before asc y b = true)
      by (apply before_iff; exact (Before_compat_l asc a y b E2 Hab)). congruence.
Qed.

Lemma count_eq_pos (l : list Q) a : In a l -> 1 <= qcount (Qeq_bool a) l.
Proof.
  unfold qcount. induction l as [|y t IH]; [intros []|]. intros [->|H]; cbn [filter].
  - rewrite (proj2 (Qeq_bool_iff a a) (Qeq_refl a)). cbn [length]. lia.
  - specialize (IH H). destruct (Qeq_bool a y); cbn [length]; lia.
Qed.

Lemma qcount_nonneg f l : 0 <= qcount f l.
Proof. unfold qcount. lia. Qed.

Lemma rank_lt asc l a b : In a l -> Before asc a b -> (rank_avg asc l a < rank_avg asc l b)%Q.
Proof.
  intros Ha Hab. unfold rank_avg.
  pose proof (count_split asc l a b Hab) as H1. pose proof (count_eq_pos l a Ha) as H2.
  pose proof (qcount_nonneg (Qeq_bool b) l) as H3.
  set (Ba := qcount (fun y => before asc y a) l) in *. set (Bb := qcount (fun y => before asc y b) l) in *.
  set (Ea := qcount (Qeq_bool a) l) in *. set (Eb := qcount (Qeq_bool b) l) in *.
  assert (Q1 : (inject_Z Ba + inject_Z Ea <= inject_Z Bb)%Q)
    by (rewrite <- inject_Z_plus, <- Zle_Qle; exact H1).
  assert (Q2 : (1 <= inject_Z Ea)%Q) by (change 1%Q with (inject_Z 1); rewrite <- Zle_Qle; exact H2).
  assert (Q3 : (0 <= inject_Z Eb)%Q) by (change 0%Q with (inject_Z 0); rewrite <- Zle_Qle; exact H3).
  lra.
Qed.

Lemma rank_eq asc l a b : (a == b)%Q -> (rank_avg asc l a == rank_avg asc l b)%Q.
Proof.
  intro E. unfold rank_avg, qcount.
  rewrite (filter_ext (fun y => before asc y a) (fun y => before asc y b)).
  - rewrite (filter_ext (Qeq_bool a) (Qeq_bool b)); [reflexivity|].
    intro y. apply bool_ext. rewrite !Qeq_bool_iff. rewrite E. reflexivity.
  - intro y. apply bool_ext. rewrite !before_iff. split; apply Before_compat_r;
      [exact E|apply Qeq_sym; exact E].
Qed.

(* ---- argmin: the first minimal element -------------------------------------------------------- *)

Lemma argmin_aux_spec : forall t pre best mid,
  Forall (fun y => (best < y)%Q) pre -> Forall (fun y => (best <= y)%Q) mid ->
  exists pre' x post,
    pre ++ best :: mid ++ t = pre' ++ x :: post /\
    argmin_aux best (Z.of_nat (length pre)) (Z.of_nat (length pre) + 1 + Z.of_nat (length mid)) t
      = Z.of_nat (length pre') /\
    Forall (fun y => (x < y)%Q) pre' /\ Forall (fun y => (x <= y)%Q) post.
Proof.
  induction t as [|y t IH]; intros pre best mid Hpre Hmid.
  - exists pre, best, mid. rewrite app_nil_r. repeat split; assumption.
  - cbn [argmin_aux]. destruct (qltb y best) eqn:E.
    + apply qltb_lt in E.
      destruct (IH (pre ++ best :: mid) y []) as (pre' & x & post & H1 & H2 & H3 & H4).
      * apply Forall_app. split.
        -- eapply Forall_impl; [|exact Hpre]. intros z Hz. cbv beta in *. lra.
        -- constructor; [exact E|]. eapply Forall_impl; [|exact Hmid]. intros z Hz. cbv beta in *. lra.
      * constructor.
      * exists pre', x, post. repeat split; try assumption.
        -- rewrite <- H1. cbn [app]. rewrite <- !app_assoc. reflexivity.
        -- rewrite <- H2. f_equal; rewrite app_length; cbn [length]; lia.
    + apply qltb_ge in E.
      destruct (IH pre best (mid ++ [y])) as (pre' & x & post & H1 & H2 & H3 & H4).
      * exact Hpre.
      * apply Forall_app. split; [exact Hmid|]. constructor; [exact E|constructor].
      * exists pre', x, post. repeat split; try assumption.
        -- rewrite <- H1. rewrite <- app_assoc. reflexivity.
        -- rewrite <- H2. f_equal. rewrite app_length. cbn [length]. lia.
Qed.

Lemma argmin_spec l : l <> [] ->
  exists pre x post, l = pre ++ x :: post /\ argmin l = Z.of_nat (length pre) /\
    Forall (fun y => (x < y)%Q) pre /\ Forall (fun y => (x <= y)%Q) post.
Proof.
  destruct l as [|a t]; [congruence|]. intros _.
  destruct (argmin_aux_spec t [] a [] (Forall_nil _) (Forall_nil _)) as (pre & x & post & H1 & H2 & H3 & H4).
  exists pre, x, post. cbn in H1, H2. repeat split; assumption.
Qed.

(* ---- rank + argmin = the first best mean ------------------------------------------------------- *)

(* `m` at position |pre| is a first best of pre ++ m :: post in the order `asc` *)
Definition first_best (asc : bool) (pre : list Q) (m : Q) (post : list Q) : Prop :=
  Forall (fun y => Before asc m y) pre /\ Forall (fun y => ~ Before asc y m) post.

Theorem select_first_best ascv means : means <> [] ->
  exists pre m post, means = pre ++ m :: post /\
    snd (select ascv means) = Z.of_nat (length pre) /\
    fst (select ascv means) = ranks (truthy ascv) means /\
    first_best (truthy ascv) pre m post.
Proof.
  intro Hne. unfold select. cbn [fst snd]. set (asc := truthy ascv).
  assert (Hr : ranks asc means <> []) by (unfold ranks; destruct means; [congruence|discriminate]).
  destruct (argmin_spec _ Hr) as (rpre & rx & rpost & H1 & H2 & H3 & H4).
  unfold ranks in H1. apply map_eq_app in H1. destruct H1 as (pre & rest & Hm & Hpre & Hrest).
  apply map_eq_cons in Hrest. destruct Hrest as (m & post & Hrest & Hx & Hpost).
  subst rest. exists pre, m, post. split; [exact Hm|]. split.
  - rewrite H2. rewrite <- Hpre. rewrite map_length. reflexivity.
  - split; [reflexivity|]. split.
    + rewrite <- Hpre in H3. rewrite Forall_map in H3. rewrite Forall_forall in *.
      intros y Hy. specialize (H3 y Hy). cbv beta in H3. rewrite <- Hx in H3.
      destruct (Before_total asc m y) as [H|[H|H]]; [exact H| |].
      * pose proof (rank_eq asc means m y H). lra.
      * assert (In y means) by (rewrite Hm; apply in_or_app; left; exact Hy).
        pose proof (rank_lt asc means y m H0 H). lra.
    + rewrite <- Hpost in H4. rewrite Forall_map in H4. rewrite Forall_forall in *.
      intros y Hy Hb. specialize (H4 y Hy). cbv beta in H4. rewrite <- Hx in H4.
      assert (In y means) by (rewrite Hm; apply in_or_app; right; right; exact Hy).
      pose proof (rank_lt asc means y m H Hb). lra.
Qed.

(* ---- the search -------------------------------------------------------------------------------- *)

Lemma all_ok_Forall2 {A B} (f : A -> res B) : forall l out, all_ok (map f l) = Ok out ->
  Forall2 (fun a b => f a = Ok b) l out.
Proof.
  induction l as [|a t IH]; intros out H; cbn in H.
  - injection H as <-. constructor.
  - destruct (f a) as [b|] eqn:E; [|discriminate]. destruct (all_ok (map f t)) as [o|]; [|discriminate].
    cbn in H. injection H as <-. constructor; [exact E|]. apply IH. reflexivity.
Qed.

Lemma Forall2_len {A B} (R : A -> B -> Prop) l l' : Forall2 R l l' -> length l = length l'.
Proof. induction 1; cbn; congruence. Qed.

Lemma Forall2_imp {A B} (R S : A -> B -> Prop) l l' :
  (forall a b, R a b -> S a b) -> Forall2 R l l' -> Forall2 S l l'.
Proof. intros H. induction 1; constructor; auto. Qed.

Section Search.
  Variable XV : Type.
  Variable tm : Z -> Z.
  Variable yv : Z -> Q.
  Variable xv : option (Z -> XV).
  Variable metric : list Q -> list Q -> Q.
  Variable gib : bool.
  Variable ascending_expr : pyval -> pyval.
  Variable F : Type.
  Variable P : Type.
  Variable apply_params : F -> P -> F.
  Variable respond : F -> list (call XV) -> ydata.
  Variable cutoff_after : F -> list (call XV) -> Z.
  Variable base : F.

  Notation tune_ :=
    (tune XV tm yv xv metric gib ascending_expr F P apply_params respond cutoff_after base).
  Notation cand_mean_ := (cand_mean XV tm yv xv metric F P apply_params respond cutoff_after base).
  Notation fc_mean_ := (fc_mean XV tm yv xv metric F respond cutoff_after).
  Notation shared_ := (shared_means XV tm yv xv metric F P apply_params respond cutoff_after).
  Notation fit_ :=
    (tuner_fit XV tm yv xv metric gib ascending_expr F P apply_params respond cutoff_after base).

  (* the expression passed as ascending= denotes `not greater_is_better` *)
  Definition ascending_is_negation : Prop := forall b, truthy (ascending_expr (PyBool b)) = negb b.

  Lemma tune_inv sp st cands s : tune_ sp st cands = Ok s ->
    exists c0 rest means, cands = c0 :: rest /\
      all_ok (map (cand_mean_ sp st) cands) = Ok means /\
      s = let '(rk, bi) := select (ascending_expr (PyBool gib)) means in
          mksearch means rk bi (nth (Z.to_nat bi) means 0%Q) (nth (Z.to_nat bi) cands c0) cands.
  Proof.
    unfold tune. destruct cands as [|c0 rest]; [discriminate|].
    destruct (all_ok (map (cand_mean_ sp st) (c0 :: rest))) as [means|] eqn:E; [|discriminate].
    intro H. exists c0, rest, means. split; [reflexivity|]. split; [reflexivity|].
    destruct (select (ascending_expr (PyBool gib)) means) as [rk bi]. injection H as <-. reflexivity.
  Qed.

  (* best = first candidate whose mean is lowest (loss) / highest (greater is better) *)
  Theorem best_is_argbest sp st cands s : ascending_is_negation -> tune_ sp st cands = Ok s ->
    length (s_means s) = length cands /\
    exists pre m post (cpre : list P) (cbest : P) (cpost : list P),
      s_means s = pre ++ m :: post /\ cands = cpre ++ cbest :: cpost /\ length cpre = length pre /\
      s_best_index s = Z.of_nat (length pre) /\ s_best_score s = m /\ s_best s = cbest /\
      s_ranks s = ranks (negb gib) (s_means s) /\
      (if gib
       then Forall (fun y => (y < m)%Q) pre /\ Forall (fun y => (y <= m)%Q) post
       else Forall (fun y => (m < y)%Q) pre /\ Forall (fun y => (m <= y)%Q) post).
  Proof.
    intros Hasc H. destruct (tune_inv sp st cands s H) as (c0 & rest & means & Hc & Hall & Hs).
    pose proof (all_ok_Forall2 _ _ _ Hall) as HF. pose proof (Forall2_len _ _ _ HF) as Hlen.
    assert (Hne : means <> []) by (destruct means; [subst cands; discriminate|discriminate]).
    destruct (select_first_best (ascending_expr (PyBool gib)) means Hne)
      as (pre & m & post & Hm & Hbi & Hrk & Hfb & Hfb').
    destruct (select (ascending_expr (PyBool gib)) means) as [rk bi] eqn:Esel. cbn [fst snd] in *.
    subst s. cbn [s_means s_ranks s_best_index s_best_score s_best].
    split; [symmetry; exact Hlen|].
    (* split the candidate list at the same position *)
    assert (Hlt : (length pre < length cands)%nat).
    { rewrite Hlen, Hm, app_length. cbn [length]. lia. }
    destruct (nth_split cands c0 Hlt) as (cpre & cpost & Hcs & Hcl).
    exists pre, m, post, cpre, (nth (length pre) cands c0), cpost.
    rewrite Hbi, Nat2Z.id. repeat split; try assumption; try reflexivity.
    - rewrite Hm. rewrite app_nth2 by lia. rewrite Nat.sub_diag. reflexivity.
    - rewrite Hrk, Hasc. reflexivity.
    - rewrite Hasc in Hfb, Hfb'. unfold Before in *. destruct gib; cbn [negb] in *; split.
      + exact Hfb.
      + eapply Forall_impl; [|exact Hfb']. intros y Hy. cbv beta in Hy. apply Qnot_lt_le. exact Hy.
      + exact Hfb.
      + eapply Forall_impl; [|exact Hfb']. intros y Hy. cbv beta in Hy. apply Qnot_lt_le. exact Hy.
  Qed.

  (* every candidate is evaluated by an independent evaluate() run -- of a FRESH clone of the base
     forecaster carrying that candidate's (partial) parameter dict, starting from an empty call
     history -- on the SAME list of splits, and its cv_results_ mean is the mean of that run's
     score column *)
  Theorem rows_eq_independent_evaluate sp st cands s : tune_ sp st cands = Ok s ->
    exists ss, splitter_splits sp = Ok ss /\
      Forall2 (fun p mean =>
                 exists rows tr,
                   evaluate XV tm yv xv (respond (apply_params base p))
                            (cutoff_after (apply_params base p)) metric sp st = Ok (rows, tr) /\
                   mean = qmean (map r_score rows) /\ length rows = length ss /\
                   tr = history XV tm yv xv st (zmin_list (splitter_fh sp)) ss)
              cands (s_means s).
  Proof.
    intro H. destruct (tune_inv sp st cands s H) as (c0 & rest & means & Hc & Hall & Hs).
    pose proof (all_ok_Forall2 _ _ _ Hall) as HF.
    assert (Hm : s_means s = means).
    { subst s. destruct (select (ascending_expr (PyBool gib)) means). reflexivity. }
    rewrite Hm. clear Hs Hm.
    assert (Hss : exists ss, splitter_splits sp = Ok ss).
    { subst cands. inversion HF as [|a b l l' Hab _]; subst. unfold cand_mean, fc_mean, fc_eval in Hab.
      destruct (evaluate XV tm yv xv (respond (apply_params base c0))
                         (cutoff_after (apply_params base c0)) metric sp st) as [[rows tr]|] eqn:E;
        [|discriminate].
      destruct (evaluate_rows_are_splits _ _ _ _ _ _ _ _ _ _ _ E) as (ss & Hss & _). exists ss. exact Hss. }
    destruct Hss as (ss & Hss). exists ss. split; [exact Hss|].
    eapply Forall2_imp; [|exact HF]. intros p mean Hp. cbv beta in Hp.
    unfold cand_mean, fc_mean, fc_eval in Hp.
    destruct (evaluate XV tm yv xv (respond (apply_params base p))
                       (cutoff_after (apply_params base p)) metric sp st) as [[rows tr]|] eqn:E;
      [|discriminate].
    injection Hp as <-. exists rows, tr. split; [reflexivity|]. split; [reflexivity|].
    destruct (evaluate_rows_are_splits _ _ _ _ _ _ _ _ _ _ _ E) as (ss' & Hss' & Hlen & Htr & _).
    rewrite Hss in Hss'. injection Hss' as <-. split; assumption.
  Qed.

  (* the search is rejected exactly when there is no candidate or evaluate() rejects the splitter *)
  Theorem tune_rejects sp st cands : cands <> [] ->
    (tune_ sp st cands = Err <-> splitter_splits sp = Err).
  Proof.
    intro Hne. unfold tune. destruct cands as [|c0 rest]; [congruence|].
    destruct (splitter_splits sp) as [ss|] eqn:Hss.
    - assert (Hall : forall l, exists means, all_ok (map (cand_mean_ sp st) l) = Ok means).
      { induction l as [|a t [means IH]]; [exists []; reflexivity|]. cbn [map all_ok].
        unfold cand_mean at 1, fc_mean, fc_eval, evaluate. rewrite Hss.
        destruct (evaluate_splits _ _ _ _ _ _ _ _ _ _) as [rows tr]. rewrite IH. eexists. reflexivity. }
      destruct (Hall (c0 :: rest)) as (means & ->).
      destruct (select _ means). split; discriminate.
    - cbn [map all_ok]. unfold cand_mean at 1, fc_mean, fc_eval, evaluate. rewrite Hss. split; reflexivity.
  Qed.

  (* ---- after fit --------------------------------------------------------------------------- *)

  Notation run_ := (tuner_run XV F P apply_params respond cutoff_after base).
  Notation direct_ := (direct_run XV F respond cutoff_after).

  Lemma tuner_run_refit : forall script t, tn_refit XV P t = true ->
    run_ t script =
    direct_ (apply_params base (s_best (tn_search XV P t))) (tn_calls XV P t) script.
  Proof.
    induction script as [|o r IH]; intros t Hr; [reflexivity|].
    cbn [tuner_run direct_run]. unfold tuner_step. rewrite Hr. f_equal.
    rewrite IH by reflexivity. reflexivity.
  Qed.

  (* with refit, predict / update / cutoff of the tuner are those of a FRESH clone of the base
     forecaster with the best parameters set (not of any object used during the search) that was
     fitted on the WHOLE series (and nothing else) *)
  Theorem refit_equals_direct_forecaster sp st cands fhabs t : fit_ sp st cands true fhabs = Ok t ->
    exists s, tune_ sp st cands = Ok s /\ tn_search XV P t = s /\
    let nn := match sp with SWindow _ c => n c | SSingle nn _ _ => nn end in
    forall script,
      run_ t script =
      direct_ (apply_params base (s_best s))
              [Fit (y_at tm yv (zrange 0 nn 1)) (x_at XV tm xv (zrange 0 nn 1)) fhabs] script.
  Proof.
    unfold tuner_fit. destruct (tune_ sp st cands) as [s|]; [|discriminate].
    intro H. injection H as <-. exists s. split; [reflexivity|]. split; [reflexivity|].
    intros script. rewrite tuner_run_refit by reflexivity. reflexivity.
  Qed.

  (* the horizon given to the tuner's fit reaches the winner's fit UNCHANGED (the one and only call
     the winner has received after fit), and it has no influence on the search *)
  Theorem refit_passes_the_given_horizon sp st cands fhabs t : fit_ sp st cands true fhabs = Ok t ->
    let nn := match sp with SWindow _ c => n c | SSingle nn _ _ => nn end in
    tn_calls XV P t = [Fit (y_at tm yv (zrange 0 nn 1)) (x_at XV tm xv (zrange 0 nn 1)) fhabs] /\
    forall fh' t', fit_ sp st cands true fh' = Ok t' -> tn_search XV P t' = tn_search XV P t.
  Proof.
    unfold tuner_fit. destruct (tune_ sp st cands) as [s|]; [|discriminate].
    intro H. injection H as <-. split; [reflexivity|].
    intros fh' t' H'. injection H' as <-. reflexivity.
  Qed.

  (* without refit every delegating method raises NotFittedError, and the winner received nothing *)
  Theorem no_refit_raises_not_fitted sp st cands fhabs t : fit_ sp st cands false fhabs = Ok t ->
    tn_calls XV P t = [] /\ forall script, run_ t script = map (fun _ => ANotFitted) script.
  Proof.
    unfold tuner_fit. destruct (tune_ sp st cands) as [s|]; [|discriminate].
    intro H. injection H as <-. split; [reflexivity|].
    induction script as [|o r IH]; [reflexivity|]. cbn [tuner_run map]. unfold tuner_step.
    cbn [tn_refit]. f_equal. exact IH.
  Qed.
  (* ---- candidate isolation --------------------------------------------------------------- *)

  Lemma all_ok_app {A} (l1 l2 : list (res A)) :
    all_ok (l1 ++ l2) =
    match all_ok l1, all_ok l2 with Ok a, Ok b => Ok (a ++ b) | _, _ => Err end.
  Proof.
    induction l1 as [|x t IH]; cbn [app all_ok].
    - destruct (all_ok l2); reflexivity.
    - destruct x as [a|]; [|reflexivity]. rewrite IH.
      destruct (all_ok t), (all_ok l2); reflexivity.
  Qed.

  Lemma all_ok_length {A} (l : list (res A)) o : all_ok l = Ok o -> length o = length l.
  Proof.
    revert o. induction l as [|x t IH]; intros o H; cbn in H.
    - injection H as <-. reflexivity.
    - destruct x as [a|]; [|discriminate]. destruct (all_ok t) as [o'|]; [|discriminate].
      cbn in H. injection H as <-. cbn. f_equal. apply IH. reflexivity.
  Qed.

  Lemma tune_means sp st cands s : tune_ sp st cands = Ok s ->
    all_ok (map (cand_mean_ sp st) cands) = Ok (s_means s).
  Proof.
    intro H. destruct (tune_inv sp st cands s H) as (c0 & rest & means & Hc & Hall & Hs).
    rewrite Hall. f_equal. subst s. destruct (select (ascending_expr (PyBool gib)) means). reflexivity.
  Qed.

  (* the row of a candidate is a function of that candidate alone: whatever candidates were
     evaluated before it (pre) or come after it (post), its mean is the mean of an evaluate() run
     of `apply_params base p` -- in particular the same as in the one-candidate search [p] *)
  Theorem candidate_isolation sp st pre p post s : tune_ sp st (pre ++ p :: post) = Ok s ->
    exists m, fc_mean_ sp st (apply_params base p) = Ok m /\
      nth (length pre) (s_means s) 0%Q = m /\
      exists s1, tune_ sp st [p] = Ok s1 /\ s_means s1 = [m] /\ s_best s1 = p.
  Proof.
    intro H. pose proof (tune_means sp st _ s H) as Hm. rewrite map_app, all_ok_app in Hm.
    destruct (all_ok (map (cand_mean_ sp st) pre)) as [mpre|] eqn:Epre; [|discriminate].
    cbn [map all_ok] in Hm. unfold cand_mean at 1 in Hm.
    destruct (fc_mean_ sp st (apply_params base p)) as [m|] eqn:Em; [|discriminate].
    destruct (all_ok (map (cand_mean_ sp st) post)) as [mpost|]; [|discriminate].
    cbn in Hm. injection Hm as Hm. exists m. split; [reflexivity|]. split.
    - rewrite <- Hm. rewrite app_nth2; rewrite (all_ok_length _ _ Epre), map_length; [|lia].
      rewrite Nat.sub_diag. reflexivity.
    - unfold tune. cbn [map all_ok]. unfold cand_mean. rewrite Em. cbn [rcons].
      destruct (select (ascending_expr (PyBool gib)) [m]) as [rk bi] eqn:Es.
      eexists. split; [reflexivity|]. cbn [s_means s_best]. split; [reflexivity|].
      assert (Hbi : bi = 0).
      { unfold select in Es. injection Es as _ <-. reflexivity. }
      subst bi. reflexivity.
  Qed.

  (* two searches that contain the same candidate report the same mean for it *)
  Corollary candidate_mean_independent_of_other_candidates sp st pre p post pre' post' s s' :
    tune_ sp st (pre ++ p :: post) = Ok s -> tune_ sp st (pre' ++ p :: post') = Ok s' ->
    nth (length pre) (s_means s) 0%Q = nth (length pre') (s_means s') 0%Q.
  Proof.
    intros H H'. destruct (candidate_isolation _ _ _ _ _ _ H) as (m & Hm & Hn & _).
    destruct (candidate_isolation _ _ _ _ _ _ H') as (m' & Hm' & Hn' & _).
    rewrite Hm in Hm'. injection Hm' as <-. rewrite Hn, Hn'. reflexivity.
  Qed.

  (* why a shared instance goes unnoticed with an ordinary grid: when every candidate overrides
     whatever an earlier candidate set (all dicts name the same parameters), the loop with one shared
     instance computes exactly the search's means *)
  Definition overriding (cands : list P) : Prop :=
    forall q p f, In q cands -> In p cands -> apply_params (apply_params f q) p = apply_params f p.

  Theorem shared_instance_harmless_when_overriding sp st cands : overriding cands ->
    shared_ sp st base cands = map (cand_mean_ sp st) cands.
  Proof.
    intro Hov.
    assert (G : forall l inst, (forall p, In p l -> In p cands) ->
                (forall p, In p l -> apply_params inst p = apply_params base p) ->
                shared_ sp st inst l = map (cand_mean_ sp st) l).
    { induction l as [|p t IH]; intros inst Hin Hinst; [reflexivity|].
      cbn [shared_means map]. cbv zeta. unfold cand_mean at 1.
      rewrite (Hinst p (or_introl eq_refl)). f_equal.
      apply IH.
      - intros q Hq. apply Hin. right. exact Hq.
      - intros q Hq. apply Hov; [apply Hin; left; reflexivity|apply Hin; right; exact Hq]. }
    apply G; [intros p Hp; exact Hp|intros; reflexivity].
  Qed.
  (* ---- rows and params are aligned; the candidates are drawn once ---------------------------- *)

  (* row i of cv_results_ pairs the i-th candidate with the i-th mean: the params column IS the list
     that was evaluated, and best_params_ is its row best_index_ *)
  Theorem rows_pair_params_with_means sp st cands s : tune_ sp st cands = Ok s ->
    s_params s = cands /\
    Forall2 (fun p m => fc_mean_ sp st (apply_params base p) = Ok m) (s_params s) (s_means s) /\
    exists c0, s_best s = nth (Z.to_nat (s_best_index s)) (s_params s) c0.
  Proof.
    intro H. destruct (tune_inv sp st cands s H) as (c0 & rest & means & Hc & Hall & Hs).
    pose proof (all_ok_Forall2 _ _ _ Hall) as HF.
    destruct (select (ascending_expr (PyBool gib)) means) as [rk bi]. subst s.
    cbn [s_params s_means s_best s_best_index]. split; [reflexivity|]. split; [exact HF|].
    exists c0. reflexivity.
  Qed.

  Variable G : Type.
  Variable draw : G -> list P * G.
  Notation from_ := (search_from XV tm yv xv metric gib ascending_expr F P apply_params respond
                                 cutoff_after base G draw).
  Notation two_pass_ := (search_two_pass XV tm yv xv metric gib ascending_expr F P apply_params
                                         respond cutoff_after base G draw).

  (* the search iterates the candidate source exactly once: the generator advances by one pass, and
     the list of that pass is both evaluated and reported *)
  Theorem search_draws_once g sp st s g' : from_ g sp st = (Ok s, g') ->
    draw g = (s_params s, g') /\ tune_ sp st (s_params s) = Ok s.
  Proof.
    unfold search_from. destruct (draw g) as [cands g1] eqn:E. intro H. injection H as H <-.
    destruct (rows_pair_params_with_means sp st cands s H) as (Hp & _). rewrite Hp. split; [reflexivity|exact H].
  Qed.

  (* why a second pass goes unnoticed with a grid or an integer seed: when a second pass yields the
     same list, the two-pass variant is the search *)
  Theorem two_pass_harmless_when_reiterable g sp st :
    (forall g1, fst (draw g1) = fst (draw g)) ->
    two_pass_ g sp st = fst (from_ g sp st).
  Proof.
    intro Hre. unfold search_two_pass, search_from.
    destruct (draw g) as [cands g1] eqn:E. pose proof (Hre g1) as H1. try rewrite E in H1. cbn [fst] in H1.
    destruct (draw g1) as [cands2 g2]. cbn [fst] in *. subst cands2.
    destruct (tune_ sp st cands) as [s|] eqn:Et; [|reflexivity].
    destruct (tune_inv sp st cands s Et) as (c0 & rest & means & Hc & Hall & Hs).
    subst cands. cbn [fst]. f_equal.
    destruct (select (ascending_expr (PyBool gib)) means) as [rk bi]. subst s.
    cbn [s_means s_ranks s_best_index s_best_score]. reflexivity.
  Qed.
End Search.

(* ---- non-vacuity ------------------------------------------------------------------------------- *)

(* base forecaster: the double `last value + 0 * #windows`; a list-of-dicts grid whose candidates
   name DIFFERENT parameters: {d: -2}, {e: 0} (leaves d at the base value 0), {d: -2, tag: 1} *)
Definition ex_base : fc8 := F8 (FDouble 1 0 0 0 0).
Definition ex_cands : list (list pset) := [[PCoef 3 (-2)]; [PCoef 4 0]; [PCoef 3 (-2); PTag 1]].

Example ex_tune_nonvacuous :
  exists s answers,
    model_tune ex_sp 7 ex_y None Refit MMAE false ex_base ex_cands true [17]
               [OpPredict [17; 18] None; OpCutoff] = Ok (s, answers) /\
    s_best_index s = 1 /\ length (s_means s) = 3%nat /\
    map (fun r => Qeq_bool r 1 || Qeq_bool r (5 # 2)) (s_ranks s) = [true; true; true] /\
    length answers = 2%nat.
Proof.
  eexists. eexists. split; [vm_compute; reflexivity|]. repeat split; vm_compute; reflexivity.
Qed.
