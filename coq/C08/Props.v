(* C08 property theorems.  Statements closed by `exact`, each followed by Print Assumptions.
   The series, the metric, the forecaster objects F (`respond f`, `cutoff_after f`: an instance with
   parameters f and no fitted state, as a function of the calls it receives), the candidates P =
   PARTIAL parameter dicts, `apply_params f p` = clone(f).set_params( **p ) and the base forecaster are
   universally quantified; `evaluate` is C07's model.  `gen_ascending` / `gen_select` are regenerated
   from BaseGridSearch.fit on this run (Site.v). *)
From Coq Require Import ZArith QArith List Bool.
Require Import SkV.Lib.Base SkV.Lib.ZRange SkV.C01.Model SkV.C01.Gen SkV.C01.Bridge SkV.C01.Proofs.
Require Import SkV.C07.Model SkV.C07.Site SkV.C07.Bridge SkV.C07.Cases SkV.C07.Proofs.
Require Import SkV.C08.Model SkV.C08.Site SkV.C08.Bridge SkV.C08.Cases SkV.C08.Proofs SkV.C08.Refuted.
Import ListNotations.
Open Scope Z_scope.

(* the expression the code passes as `ascending=` denotes `not greater_is_better` *)
Theorem C08_site_ascending_is_negation : ascending_is_negation gen_ascending.
Proof. exact bridge_ascending_is_negation. Qed.
Print Assumptions C08_site_ascending_is_negation.

(* the code ranks the mean column with it and takes the arg-min of the ranks *)
Theorem C08_site_select_is_model_select : forall means b,
  gen_select means (PyBool b) = select (gen_ascending (PyBool b)) means.
Proof. exact bridge_select. Qed.
Print Assumptions C08_site_select_is_model_select.

(* pandas' average rank followed by argmin picks the FIRST best element in the ranked order *)
Theorem C08_rank_argmin_is_first_best : forall ascv means, means <> [] ->
  exists pre m post, means = pre ++ m :: post /\
    snd (select ascv means) = Z.of_nat (length pre) /\
    fst (select ascv means) = ranks (truthy ascv) means /\
    first_best (truthy ascv) pre m post.
Proof. exact select_first_best. Qed.
Print Assumptions C08_rank_argmin_is_first_best.

(* best_index_ / best_score_ / best_params_ belong to the first candidate whose mean CV score is
   lowest (loss) or highest (greater_is_better); the rank column ranks in that direction *)
Theorem C08_best_is_argbest :
  forall XV tm yv xv metric gib F P apply_params respond cutoff_after base sp st cands s,
  tune XV tm yv xv metric gib gen_ascending F P apply_params respond cutoff_after base sp st cands
    = Ok s ->
  length (s_means s) = length cands /\
  exists pre m post (cpre : list P) (cbest : P) (cpost : list P),
    s_means s = pre ++ m :: post /\ cands = cpre ++ cbest :: cpost /\ length cpre = length pre /\
    s_best_index s = Z.of_nat (length pre) /\ s_best_score s = m /\ s_best s = cbest /\
    s_ranks s = ranks (negb gib) (s_means s) /\
    (if gib
     then Forall (fun y => (y < m)%Q) pre /\ Forall (fun y => (y <= m)%Q) post
     else Forall (fun y => (m < y)%Q) pre /\ Forall (fun y => (m <= y)%Q) post).
Proof.
  exact (fun XV tm yv xv metric gib F P apply_params respond cutoff_after base sp st cands s =>
           best_is_argbest XV tm yv xv metric gib gen_ascending F P apply_params respond cutoff_after
                           base sp st cands s bridge_ascending_is_negation).
Qed.
Print Assumptions C08_best_is_argbest.

(* every candidate is evaluated on the same splits, and each cv_results_ mean is the mean score of an
   independent evaluate() run (whose rows C07 characterises) of a fresh clone of the base forecaster
   with that candidate's partial parameter dict applied: the run's call trace starts from nothing *)
Theorem C08_rows_eq_independent_evaluate_same_splits :
  forall XV tm yv xv metric gib asc F P apply_params respond cutoff_after base sp st cands s,
  tune XV tm yv xv metric gib asc F P apply_params respond cutoff_after base sp st cands = Ok s ->
  exists ss, splitter_splits sp = Ok ss /\
    Forall2 (fun p mean =>
               exists rows tr,
                 evaluate XV tm yv xv (respond (apply_params base p))
                          (cutoff_after (apply_params base p)) metric sp st = Ok (rows, tr) /\
                 mean = qmean (map r_score rows) /\ length rows = length ss /\
                 tr = history XV tm yv xv st (zmin_list (splitter_fh sp)) ss)
            cands (s_means s).
Proof. exact rows_eq_independent_evaluate. Qed.
Print Assumptions C08_rows_eq_independent_evaluate_same_splits.

(* candidate isolation: the row of a candidate does not depend on the candidates evaluated before
   (or after) it -- it is the mean of evaluate() on `apply_params base p`, the same as in the
   one-candidate search [p]; parameters p does not name come from the base forecaster *)
Theorem C08_candidate_isolation :
  forall XV tm yv xv metric gib asc F P apply_params respond cutoff_after base sp st pre p post s,
  tune XV tm yv xv metric gib asc F P apply_params respond cutoff_after base sp st (pre ++ p :: post)
    = Ok s ->
  exists m, fc_mean XV tm yv xv metric F respond cutoff_after sp st (apply_params base p) = Ok m /\
    nth (length pre) (s_means s) 0%Q = m /\
    exists s1, tune XV tm yv xv metric gib asc F P apply_params respond cutoff_after base sp st [p]
               = Ok s1 /\ s_means s1 = [m] /\ s_best s1 = p.
Proof. exact candidate_isolation. Qed.
Print Assumptions C08_candidate_isolation.

Theorem C08_candidate_mean_independent_of_other_candidates :
  forall XV tm yv xv metric gib asc F P apply_params respond cutoff_after base sp st
         pre p post pre' post' s s',
  tune XV tm yv xv metric gib asc F P apply_params respond cutoff_after base sp st (pre ++ p :: post)
    = Ok s ->
  tune XV tm yv xv metric gib asc F P apply_params respond cutoff_after base sp st (pre' ++ p :: post')
    = Ok s' ->
  nth (length pre) (s_means s) 0%Q = nth (length pre') (s_means s') 0%Q.
Proof. exact candidate_mean_independent_of_other_candidates. Qed.
Print Assumptions C08_candidate_mean_independent_of_other_candidates.

(* sensitivity: the loop with ONE instance shared by all candidates coincides with the search when all
   candidates override each other (same parameter names: why ordinary grids do not notice), and is
   refuted by a list-of-dicts grid whose second dict leaves a parameter of the first alone *)
Theorem C08_shared_instance_harmless_only_when_overriding :
  (forall XV tm yv xv metric F P apply_params respond cutoff_after base sp st cands,
     overriding F P apply_params cands ->
     shared_means XV tm yv xv metric F P apply_params respond cutoff_after sp st base cands =
     map (cand_mean XV tm yv xv metric F P apply_params respond cutoff_after base sp st) cands) /\
  exists (base : fc8) (cands : list (list pset)),
    let fresh := map (cand_mean Q (fun p => p + 7) (series ex_y) None (metric_of MMAE) fc8 (list pset)
                                apply8 respond8 cutoff8 base ex_sp Refit) cands in
    let shared := shared_means Q (fun p => p + 7) (series ex_y) None (metric_of MMAE) fc8 (list pset)
                               apply8 respond8 cutoff8 ex_sp Refit base cands in
    resq_eqb (nth 0 fresh Err) (nth 0 shared Err) = true /\
    resq_eqb (nth 1 fresh Err) (Ok 3%Q) = true /\
    resq_eqb (nth 1 shared Err) (Ok (11 # 3)%Q) = true /\
    resq_eqb (nth 1 fresh Err) (nth 1 shared Err) = false.
Proof.
  exact (conj shared_instance_harmless_when_overriding shared_instance_breaks_isolation_refuted).
Qed.
Print Assumptions C08_shared_instance_harmless_only_when_overriding.

(* rows and params are aligned: the params column is the list that was evaluated, row i pairs the i-th
   candidate with the mean of ITS evaluate run, best_params_ is row best_index_ of that column *)
Theorem C08_rows_pair_params_with_means :
  forall XV tm yv xv metric gib asc F P apply_params respond cutoff_after base sp st cands s,
  tune XV tm yv xv metric gib asc F P apply_params respond cutoff_after base sp st cands = Ok s ->
  s_params s = cands /\
  Forall2 (fun p m => fc_mean XV tm yv xv metric F respond cutoff_after sp st (apply_params base p)
                      = Ok m) (s_params s) (s_means s) /\
  exists c0, s_best s = nth (Z.to_nat (s_best_index s)) (s_params s) c0.
Proof. exact rows_pair_params_with_means. Qed.
Print Assumptions C08_rows_pair_params_with_means.

(* the candidate source (grid / sampler: an iterable whose passes may consume generator state) is
   iterated exactly ONCE: the list of that pass is evaluated and reported, the generator state after
   the search is the state after one pass *)
Theorem C08_search_draws_candidates_once :
  forall XV tm yv xv metric gib asc F P apply_params respond cutoff_after base G draw g sp st s g',
  search_from XV tm yv xv metric gib asc F P apply_params respond cutoff_after base G draw g sp st
    = (Ok s, g') ->
  draw g = (s_params s, g') /\
  tune XV tm yv xv metric gib asc F P apply_params respond cutoff_after base sp st (s_params s) = Ok s.
Proof. exact search_draws_once. Qed.
Print Assumptions C08_search_draws_candidates_once.

(* sensitivity: taking the params column from a SECOND pass is the search when passes repeat (grid,
   integer seed), and misaligns rows / best_params_ when they do not (regression C08-c) *)
Theorem C08_second_pass_harmless_only_when_reiterable :
  (forall XV tm yv xv metric gib asc F P apply_params respond cutoff_after base G draw g sp st,
     (forall g1, fst (draw g1) = fst (draw g)) ->
     search_two_pass XV tm yv xv metric gib asc F P apply_params respond cutoff_after base G draw g sp st
     = fst (search_from XV tm yv xv metric gib asc F P apply_params respond cutoff_after base G draw
                        g sp st)) /\
  exists s,
    search_two_pass Q (fun p => p + 7) (series ex_y) None (metric_of MMAE) false gen_ascending fc8
                    (list pset) apply8 respond8 cutoff8 ex_base bool flip_draw true ex_sp Refit = Ok s /\
    let own_mean p := fc_mean Q (fun p => p + 7) (series ex_y) None (metric_of MMAE) fc8 respond8
                              cutoff8 ex_sp Refit (apply8 ex_base p) in
    resq_eqb (own_mean (nth 0 (s_params s) [])) (Ok (nth 0 (s_means s) 0%Q)) = false /\
    s_best_index s = 1 /\ resq_eqb (own_mean (s_best s)) (Ok (s_best_score s)) = false /\
    match fst (search_from Q (fun p => p + 7) (series ex_y) None (metric_of MMAE) false gen_ascending
                           fc8 (list pset) apply8 respond8 cutoff8 ex_base bool flip_draw true ex_sp
                           Refit) with
    | Ok s1 => resq_eqb (own_mean (s_best s1)) (Ok (s_best_score s1)) = true
    | Err => False
    end.
Proof.
  exact (conj two_pass_harmless_when_reiterable second_pass_misaligns_rows_refuted).
Qed.
Print Assumptions C08_second_pass_harmless_only_when_reiterable.

Theorem C08_search_rejects_iff_splitter_rejects :
  forall XV tm yv xv metric gib asc F P apply_params respond cutoff_after base sp st cands,
  cands <> [] ->
  (tune XV tm yv xv metric gib asc F P apply_params respond cutoff_after base sp st cands = Err <->
   splitter_splits sp = Err).
Proof. exact tune_rejects. Qed.
Print Assumptions C08_search_rejects_iff_splitter_rejects.

(* refit: the tuner answers predict / update / cutoff exactly as a fresh clone of the base forecaster
   with the best parameters set (no object used during the search) that was fitted on the whole
   series and received nothing else *)
Theorem C08_refit_equals_direct_forecaster :
  forall XV tm yv xv metric gib asc F P apply_params respond cutoff_after base sp st cands fhabs t,
  tuner_fit XV tm yv xv metric gib asc F P apply_params respond cutoff_after base sp st cands true
            fhabs = Ok t ->
  exists s, tune XV tm yv xv metric gib asc F P apply_params respond cutoff_after base sp st cands
            = Ok s /\
    tn_search XV P t = s /\
    let nn := match sp with SWindow _ c => n c | SSingle nn _ _ => nn end in
    forall script,
      tuner_run XV F P apply_params respond cutoff_after base t script =
      direct_run XV F respond cutoff_after (apply_params base (s_best s))
        [Fit (y_at tm yv (zrange 0 nn 1)) (x_at XV tm xv (zrange 0 nn 1)) fhabs] script.
Proof. exact refit_equals_direct_forecaster. Qed.
Print Assumptions C08_refit_equals_direct_forecaster.

(* the horizon object given to the tuner's fit is the one that reaches the winner's fit: the call is
   the regenerated refit call (Site.v) on the whole series with that very horizon - not a horizon
   derived from it (e.g. made relative to the end of the series) - and the search does not depend on it *)
Theorem C08_refit_passes_the_given_horizon :
  forall XV tm yv xv metric gib asc F P apply_params respond cutoff_after base sp st cands fhabs t,
  tuner_fit XV tm yv xv metric gib asc F P apply_params respond cutoff_after base sp st cands true
            fhabs = Ok t ->
  let nn := match sp with SWindow _ c => n c | SSingle nn _ _ => nn end in
  tn_calls XV P t = [gen_refit_call (y_at tm yv (zrange 0 nn 1)) (x_at XV tm xv (zrange 0 nn 1)) fhabs] /\
  forall fh' t',
    tuner_fit XV tm yv xv metric gib asc F P apply_params respond cutoff_after base sp st cands true
              fh' = Ok t' -> tn_search XV P t' = tn_search XV P t.
Proof. exact refit_passes_the_given_horizon. Qed.
Print Assumptions C08_refit_passes_the_given_horizon.

Theorem C08_no_refit_raises_not_fitted :
  forall XV tm yv xv metric gib asc F P apply_params respond cutoff_after base sp st cands fhabs t,
  tuner_fit XV tm yv xv metric gib asc F P apply_params respond cutoff_after base sp st cands false
            fhabs = Ok t ->
  tn_calls XV P t = [] /\
  forall script, tuner_run XV F P apply_params respond cutoff_after base t script
                 = map (fun _ => ANotFitted) script.
Proof. exact no_refit_raises_not_fitted. Qed.
Print Assumptions C08_no_refit_raises_not_fitted.

(* the pre-fix expression `~greater_is_better` is constantly truthy: the direction theorem fails for
   it (kept as the witness for the fixed finding) *)
Theorem C08_old_expression_refuted :
  (forall b, truthy (py_invert (PyBool b)) = true) /\
  exists means : list Q,
    let '(_, bi) := select (py_invert (PyBool true)) means in
    bi = 0 /\ (nth 0 means 0 < nth 1 means 0)%Q.
Proof. exact (conj old_ascending_always_truthy_refuted best_is_argbest_refuted). Qed.
Print Assumptions C08_old_expression_refuted.

(* hypotheses are satisfiable by a non-trivial search: a list-of-dicts grid [{d: -2}; {e: 0};
   {d: -2, tag: 1}] over a base double (three candidates naming different parameters, a tie for the
   worst rank, the winner is the candidate that leaves d at the base value) *)
Example C08_nonvacuous :
  exists s answers,
    model_tune ex_sp 7 ex_y None Refit MMAE false ex_base ex_cands true [17]
               [OpPredict [17; 18] None; OpCutoff] = Ok (s, answers) /\
    s_best_index s = 1 /\ length (s_means s) = 3%nat /\
    map (fun r => Qeq_bool r 1 || Qeq_bool r (5 # 2)) (s_ranks s) = [true; true; true] /\
    length answers = 2%nat.
Proof. exact ex_tune_nonvacuous. Qed.
