(* C08 property theorems.  Statements closed by `exact`, each followed by Print Assumptions.
   The series, the metric and the base forecaster family (`respond p`, `cutoff_after p`: the clone of
   the base forecaster carrying candidate parameters p, as a function of the calls it receives) are
   universally quantified; `evaluate` is C07's model.  `gen_ascending` / `gen_select` are regenerated
   from BaseGridSearch.fit on this run (Site.v). *)
From Coq Require Import ZArith QArith List Bool.
Require Import SkV.Lib.Base SkV.Lib.ZRange SkV.C01.Model SkV.C01.Gen SkV.C01.Bridge SkV.C01.Proofs.
Require Import SkV.C07.Model SkV.C07.Site SkV.C07.Bridge SkV.C07.Cases SkV.C07.Proofs.
Require Import SkV.C08.Model SkV.C08.Site SkV.C08.Bridge SkV.C08.Cases SkV.C08.Proofs SkV.C08.Refuted.
Import ListNotations.
Open Scope Z_scope.

(* the expression the code passes as `ascending=` denotes `not greater_is_better` *)
Theorem C08_site_ascending_is_negation : ascending_is_negation gen_ascending.
Proof. exact bridge_ascending_is_negation. Qed.
Print Assumptions C08_site_ascending_is_negation.

(* the code ranks the mean column with it and takes the arg-min of the ranks *)
Theorem C08_site_select_is_model_select : forall means b,
  gen_select means (PyBool b) = select (gen_ascending (PyBool b)) means.
Proof. exact bridge_select. Qed.
Print Assumptions C08_site_select_is_model_select.

(* pandas' average rank followed by argmin picks the FIRST best element in the ranked order *)
Theorem C08_rank_argmin_is_first_best : forall ascv means, means <> [] ->
  exists pre m post, means = pre ++ m :: post /\
    snd (select ascv means) = Z.of_nat (length pre) /\
    fst (select ascv means) = ranks (truthy ascv) means /\
    first_best (truthy ascv) pre m post.
Proof. exact select_first_best. Qed.
Print Assumptions C08_rank_argmin_is_first_best.

(* best_index_ / best_score_ / best_params_ belong to the first candidate whose mean CV score is
   lowest (loss) or highest (greater_is_better); the rank column ranks in that direction *)
Theorem C08_best_is_argbest :
  forall XV tm yv xv metric gib P respond cutoff_after sp st cands s,
  tune XV tm yv xv metric gib gen_ascending P respond cutoff_after sp st cands = Ok s ->
  length (s_means s) = length cands /\
  exists pre m post (cpre : list P) (cbest : P) (cpost : list P),
    s_means s = pre ++ m :: post /\ cands = cpre ++ cbest :: cpost /\ length cpre = length pre /\
    s_best_index s = Z.of_nat (length pre) /\ s_best_score s = m /\ s_best s = cbest /\
    s_ranks s = ranks (negb gib) (s_means s) /\
    (if gib
     then Forall (fun y => (y < m)%Q) pre /\ Forall (fun y => (y <= m)%Q) post
     else Forall (fun y => (m < y)%Q) pre /\ Forall (fun y => (m <= y)%Q) post).
Proof.
  exact (fun XV tm yv xv metric gib P respond cutoff_after sp st cands s =>
           best_is_argbest XV tm yv xv metric gib gen_ascending P respond cutoff_after sp st cands s
                           bridge_ascending_is_negation).
Qed.
Print Assumptions C08_best_is_argbest.

(* every candidate is evaluated on the same splits, and each cv_results_ mean is the mean score of an
   independent evaluate() run of that candidate (whose rows C07 characterises) *)
Theorem C08_rows_eq_independent_evaluate_same_splits :
  forall XV tm yv xv metric gib asc P respond cutoff_after sp st cands s,
  tune XV tm yv xv metric gib asc P respond cutoff_after sp st cands = Ok s ->
  exists ss, splitter_splits sp = Ok ss /\
    Forall2 (fun p mean =>
               exists rows tr,
                 evaluate XV tm yv xv (respond p) (cutoff_after p) metric sp st = Ok (rows, tr) /\
                 mean = qmean (map r_score rows) /\ length rows = length ss /\
                 tr = history XV tm yv xv st (zmin_list (splitter_fh sp)) ss)
            cands (s_means s).
Proof. exact rows_eq_independent_evaluate. Qed.
Print Assumptions C08_rows_eq_independent_evaluate_same_splits.

Theorem C08_search_rejects_iff_splitter_rejects :
  forall XV tm yv xv metric gib asc P respond cutoff_after sp st cands, cands <> [] ->
  (tune XV tm yv xv metric gib asc P respond cutoff_after sp st cands = Err <->
   splitter_splits sp = Err).
Proof. exact tune_rejects. Qed.
Print Assumptions C08_search_rejects_iff_splitter_rejects.

(* refit: the tuner answers predict / update / cutoff exactly as a forecaster carrying the best
   parameters that was fitted on the whole series *)
Theorem C08_refit_equals_direct_forecaster :
  forall XV tm yv xv metric gib asc P respond cutoff_after sp st cands fhabs t,
  tuner_fit XV tm yv xv metric gib asc P respond cutoff_after sp st cands true fhabs = Ok t ->
  exists s, tune XV tm yv xv metric gib asc P respond cutoff_after sp st cands = Ok s /\
    tn_search XV P t = s /\
    let nn := match sp with SWindow _ c => n c | SSingle nn _ _ => nn end in
    forall script,
      tuner_run XV P respond cutoff_after t script =
      direct_run XV P respond cutoff_after (s_best s)
        [Fit (y_at tm yv (zrange 0 nn 1)) (x_at XV tm xv (zrange 0 nn 1)) fhabs] script.
Proof. exact refit_equals_direct_forecaster. Qed.
Print Assumptions C08_refit_equals_direct_forecaster.

Theorem C08_no_refit_raises_not_fitted :
  forall XV tm yv xv metric gib asc P respond cutoff_after sp st cands fhabs t,
  tuner_fit XV tm yv xv metric gib asc P respond cutoff_after sp st cands false fhabs = Ok t ->
  tn_calls XV P t = [] /\
  forall script, tuner_run XV P respond cutoff_after t script = map (fun _ => ANotFitted) script.
Proof. exact no_refit_raises_not_fitted. Qed.
Print Assumptions C08_no_refit_raises_not_fitted.

(* the pre-fix expression `~greater_is_better` is constantly truthy: the direction theorem fails for
   it (kept as the witness for the fixed finding) *)
Theorem C08_old_expression_refuted :
  (forall b, truthy (py_invert (PyBool b)) = true) /\
  exists means : list Q,
    let '(_, bi) := select (py_invert (PyBool true)) means in
    bi = 0 /\ (nth 0 means 0 < nth 1 means 0)%Q.
Proof. exact (conj old_ascending_always_truthy_refuted best_is_argbest_refuted). Qed.
Print Assumptions C08_old_expression_refuted.

(* hypotheses are satisfiable by a non-trivial search: three candidates, a tie for the worst rank,
   the winner is not the first candidate *)
Example C08_nonvacuous :
  exists s answers,
    model_tune ex_sp 7 ex_y None Refit MMAE false ex_cands true [17]
               [OpPredict [17; 18] None; OpCutoff] = Ok (s, answers) /\
    s_best_index s = 1 /\ length (s_means s) = 3%nat /\
    map (fun r => Qeq_bool r 1 || Qeq_bool r (5 # 2)) (s_ranks s) = [true; true; true] /\
    length answers = 2%nat.
Proof. exact ex_tune_nonvacuous. Qed.
