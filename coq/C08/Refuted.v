(* C08: the expression the code used before the fix, `ascending=~scoring.greater_is_better`
   (fixed in /repo by commit aa8ab0f), in the same value model: `~b` is -1 or -2, both truthy, so
   the ranking was always ascending and a greater-is-better metric selected the WORST candidate.
   Kept as the refutation witness of the direction theorem for that expression. *)
From Coq Require Import ZArith QArith List Bool.
Require Import SkV.Lib.Base SkV.C08.Model.
Import ListNotations.
Open Scope Z_scope.

Lemma old_ascending_always_truthy_refuted : forall b, truthy (py_invert (PyBool b)) = true.
Proof. intros []; reflexivity. Qed.

(* hence it does not denote negation ... *)
Lemma old_ascending_not_negation_refuted :
  exists b, truthy (py_invert (PyBool b)) <> negb b.
Proof. exists true. discriminate. Qed.

(* ... and with greater_is_better = true the selected candidate is the one with the LOWEST mean *)
Lemma best_is_argbest_refuted :
  exists means : list Q,
    let '(_, bi) := select (py_invert (PyBool true)) means in
    bi = 0 /\ (nth 0 means 0 < nth 1 means 0)%Q.
Proof. exists [1%Q; 2%Q]. vm_compute. split; reflexivity. Qed.

(* argmax of the ranks instead of argmin selects the worst candidate as well *)
Lemma argmax_of_ranks_refuted :
  exists means : list Q,
    argmax (ranks (truthy (py_not (PyBool false))) means) = 1 /\
    (nth 0 means 0 < nth 1 means 0)%Q.
Proof. exists [1%Q; 2%Q]. vm_compute. split; reflexivity. Qed.
