(* C08: the expression the code used before the fix, `ascending=~scoring.greater_is_better`
   (fixed in /repo by commit aa8ab0f), in the same value model: `~b` is -1 or -2, both truthy, so
   the ranking was always ascending and a greater-is-better metric selected the WORST candidate.
   Kept as the refutation witness of the direction theorem for that expression. *)
From Coq Require Import ZArith QArith List Bool.
Require Import SkV.Lib.Base SkV.C08.Model.
Import ListNotations.
Open Scope Z_scope.

Lemma old_ascending_always_truthy_refuted : forall b, truthy (py_invert (PyBool b)) = true.
Proof. intros []; reflexivity. Qed.

(* hence it does not denote negation ... *)
Lemma old_ascending_not_negation_refuted :
  exists b, truthy (py_invert (PyBool b)) <> negb b.
Proof. exists true. discriminate. Qed.

(* ... and with greater_is_better = true the selected candidate is the one with the LOWEST mean *)
Lemma best_is_argbest_refuted :
  exists means : list Q,
    let '(_, bi) := select (py_invert (PyBool true)) means in
    bi = 0 /\ (nth 0 means 0 < nth 1 means 0)%Q.
Proof. exists [1%Q; 2%Q]. vm_compute. split; reflexivity. Qed.

(* argmax of the ranks instead of argmin selects the worst candidate as well *)
Lemma argmax_of_ranks_refuted :
  exists means : list Q,
    argmax (ranks (truthy (py_not (PyBool false))) means) = 1 /\
    (nth 0 means 0 < nth 1 means 0)%Q.
Proof. exists [1%Q; 2%Q]. vm_compute. split; reflexivity. Qed.

(* ---- one forecaster instance shared by all candidates (regression C08-a) ------------------------
   `clone(self.forecaster)` hoisted out of _fit_and_score: candidate i is set on the object candidate
   i-1 left behind.  With the list-of-dicts grid [{d: -2}; {e: 0}; {d: -2, tag: 1}] over the double
   `last value` the second candidate does not name d: the search evaluates it with the base value
   d = 0 (mean 3), the shared-instance loop with the leftover d = -2 (mean 11/3), so its row is not
   an independent evaluate() run of `apply_params base p` and candidate isolation fails. *)
Require Import SkV.Lib.ZRange SkV.C01.Model SkV.C07.Model SkV.C07.Cases SkV.C07.Proofs.
Require Import SkV.C08.Site SkV.C08.Cases SkV.C08.Proofs.

Definition resq_eqb (a b : res Q) : bool :=
  match a, b with Ok x, Ok y => Qeq_bool x y | Err, Err => true | _, _ => false end.

Lemma shared_instance_breaks_isolation_refuted :
  exists (base : fc8) (cands : list (list pset)),
    let fresh := map (cand_mean Q (fun p => p + 7) (series ex_y) None (metric_of MMAE) fc8 (list pset)
                                apply8 respond8 cutoff8 base ex_sp Refit) cands in
    let shared := shared_means Q (fun p => p + 7) (series ex_y) None (metric_of MMAE) fc8 (list pset)
                               apply8 respond8 cutoff8 ex_sp Refit base cands in
    resq_eqb (nth 0 fresh Err) (nth 0 shared Err) = true /\
    resq_eqb (nth 1 fresh Err) (Ok 3%Q) = true /\
    resq_eqb (nth 1 shared Err) (Ok (11 # 3)%Q) = true /\
    resq_eqb (nth 1 fresh Err) (nth 1 shared Err) = false.
Proof. exists ex_base, ex_cands. vm_compute. repeat split; reflexivity. Qed.

(* ---- params column from a second pass over the candidate source (regression C08-c) ---------------
   A sampler whose passes differ (random_state=None / a RandomState instance): first pass
   [{d: -2}; {e: 0}], second pass [{e: 0}; {d: -2}].  The two-pass variant scores the first list
   (means 11/3 and 3, best_index_ 1, best_score_ 3) and reports the second: row 0 shows {e: 0} next to
   the mean of {d: -2}, and best_params_ = {d: -2}, whose own mean is 11/3, not best_score_. *)
Definition flip_draw (g : bool) : list (list pset) * bool :=
  (if g then [[PCoef 3 (-2)]; [PCoef 4 0]] else [[PCoef 4 0]; [PCoef 3 (-2)]], negb g).

Lemma second_pass_misaligns_rows_refuted :
  exists s,
    search_two_pass Q (fun p => p + 7) (series ex_y) None (metric_of MMAE) false gen_ascending fc8
                    (list pset) apply8 respond8 cutoff8 ex_base bool flip_draw true ex_sp Refit = Ok s /\
    let own_mean p := fc_mean Q (fun p => p + 7) (series ex_y) None (metric_of MMAE) fc8 respond8
                              cutoff8 ex_sp Refit (apply8 ex_base p) in
    (* row 0: the reported candidate is not the one that was scored *)
    resq_eqb (own_mean (nth 0 (s_params s) [])) (Ok (nth 0 (s_means s) 0%Q)) = false /\
    (* best_params_ does not have the score best_score_ *)
    s_best_index s = 1 /\ resq_eqb (own_mean (s_best s)) (Ok (s_best_score s)) = false /\
    (* while the search proper, from the same generator state, is aligned *)
    match fst (search_from Q (fun p => p + 7) (series ex_y) None (metric_of MMAE) false gen_ascending
                           fc8 (list pset) apply8 respond8 cutoff8 ex_base bool flip_draw true ex_sp
                           Refit) with
    | Ok s1 => resq_eqb (own_mean (s_best s1)) (Ok (s_best_score s1)) = true
    | Err => False
    end.
Proof. eexists. split; [vm_compute; reflexivity|]. vm_compute. repeat split; reflexivity. Qed.
