(* C09 bridge: the composite forecasters REGENERATED on this run by translator/compose_c09.py
   (build/coq/C09/Site.v) from
     sktime/forecasting/base/_meta.py            _fit_forecasters, _predict_forecasters
     sktime/forecasting/compose/_ensemble.py     fit / update / _predict (aggregation dispatch)
     sktime/forecasting/compose/_pipeline.py     fit / _predict / update (iteration over the steps, through the private generator
                                                 _iter_transformers or directly) /
                                                 transform / inverse_transform
     sktime/forecasting/compose/_multiplexer.py  _check_selected_forecaster / _set_forecaster /
                                                 fit / update / _predict
     sktime/forecasting/compose/_stack.py        fit / update / _predict
     sktime/forecasting/base/_sktime.py          _set_y_X, _update_y_X (own data)
   ARE the corresponding cases of Model.v's fit / update / predict, for all kernels and all
   arguments.  In Site.v a member of a composite is abstract (M_fit / M_update / M_predict); here
   the knot is tied with the model's own recursive functions, so each lemma says: the model
   satisfies, at this kind of node, the defining equation that the SOURCE states today.
   An edit of the source that changes which data a member / transformer / the meta-regressor
   receives, the order of the calls, the aggregation chosen for an aggfunc or its axis, the
   direction of the inverse loop, the skip-inverse-transform test, the selection of the
   multiplexer, the hold-out split of the stacking forecaster or the refit of its members makes one
   of these lemmas fail (or the translator raise).

   (Building this bridge showed that Model.v lacked the empty-batch rule of
   TransformedTargetForecaster.update - return right after _update_y_X when len(y) == 0 -; the
   model now has it, bridge_pipe_update holds for every batch.) *)
From Coq Require Import ZArith QArith List Bool Lia ZifyBool.
Require Import SkV.Lib.Base SkV.C09.Model SkV.C09.Cases SkV.C09.Proofs SkV.C09.SiteLib SkV.C09.Site.
Import ListNotations.
Open Scope Z_scope.

(* ---------------------------------------------------------------- generic list lemmas *)

Lemma fold_left_conj {A B C} (p : A -> B) (f : A -> C -> A) (g : B -> C -> B) :
  (forall a x, g (p a) x = p (f a x)) ->
  forall l a, fold_left g l (p a) = p (fold_left f l a).
Proof. intros H l. induction l as [|x l IH]; intros a; [reflexivity|]. cbn. rewrite H. apply IH. Qed.

(* a loop that calls U on every element, appending its events and collecting its result *)
Lemma fold_collect {A B} (U : A -> B * trace) (body : trace * list B -> A -> trace * list B) :
  (forall tc out m, body (tc, out) m = (tc ++ snd (U m), out ++ [fst (U m)])) ->
  forall ms tc out,
    fold_left body ms (tc, out) =
    (tc ++ concat (map (fun m => snd (U m)) ms), out ++ map (fun m => fst (U m)) ms).
Proof.
  intros H ms. induction ms as [|m ms IH]; intros tc out; cbn.
  - rewrite !app_nil_r. reflexivity.
  - rewrite H, IH, <- !app_assoc. reflexivity.
Qed.

Lemma iloc_seq_firstn : forall (y : series) n, iloc y (seq 0 n) = firstn n y \/ (length y < n)%nat.
Proof.
  unfold iloc. induction y as [|a y IH]; intros [|n]; cbn; try (left; reflexivity); try (right; lia).
  rewrite <- seq_shift, map_map. destruct (IH n) as [E|E]; [left; cbn; rewrite E; reflexivity|right; lia].
Qed.

Lemma iloc_train (y : series) k : iloc y (seq 0 (length y - k)) = firstn (length y - k) y.
Proof. destruct (iloc_seq_firstn y (length y - k)) as [E|E]; [exact E|lia]. Qed.

Lemma vals_iloc (y : series) pos : vals (iloc y pos) = map (fun i => nth i (vals y) 0%Q) pos.
Proof.
  unfold vals, iloc. rewrite map_map. apply map_ext. intros i.
  exact (eq_sym (map_nth snd y (0, 0%Q) i)).
Qed.

(* ---------------------------------------------------------------- own data *)

Lemma own_fit y fh :
  B_set_fh (gen_own_set_y_X base B_set_y B_set_cutoff B_empty y) fh = base_fit y fh.
Proof. reflexivity. Qed.

Lemma own_update b y : gen_own_update_y_X base mem B_set_y B_set_cutoff b y = base_upd b y.
Proof.
  unfold gen_own_update_y_X, base_upd. destruct y as [|p y]; [reflexivity|].
  (* whichever way the source writes "the batch is (not) empty": decide the test, the impossible
     branch goes by arithmetic *)
  match goal with |- context [if ?c then _ else _] =>
    let E := fresh "E" in destruct c eqn:E; try (exfalso; cbn [length] in E; lia) end.
  reflexivity.
Qed.

Section Bridge.
  Variable leaf : Type.
  Variable lpar : Type.
  Variable lfit : leaf -> series -> lpar.
  Variable lpred : leaf -> lpar -> series -> Z -> Z -> Q.
  Variable tr : Type.
  Variable tpar : Type.
  Variable tfit : tr -> series -> tpar.
  Variable tupd : tr -> tpar -> series -> bool -> tpar.
  Variable tapp : tr -> tpar -> series -> series.
  Variable tinv : tr -> tpar -> series -> series.
  Variable tskip : tr -> bool.
  Variable thasupd : tr -> bool.
  Variable reg : Type.
  Variable rpar : Type.
  Variable rfit : reg -> list (list Q) -> list Q -> rpar.
  Variable rpred : reg -> rpar -> list Q -> Q.

  Local Notation fcT := (fc leaf tr reg).
  Local Notation stT := (st leaf lpar tr tpar reg rpar).
  Local Notation tstateT := (tstate tr tpar).
  Local Notation fit' := (fit leaf lpar lfit lpred tr tpar tfit tapp tinv tskip reg rpar rfit rpred).
  Local Notation predict' := (predict leaf lpar lpred tr tpar tinv tskip reg rpar rpred).
  Local Notation update' := (update leaf lpar lfit tr tpar tupd tapp thasupd reg rpar).
  Local Notation fit_step' := (fit_step tr tpar tfit tapp).
  Local Notation fit_chain' := (fit_chain tr tpar tfit tapp).
  Local Notation upd_step' := (upd_step tr tpar tupd tapp thasupd).
  Local Notation upd_chain' := (upd_chain tr tpar tupd tapp thasupd).
  Local Notation inv_step' := (inv_step tr tpar tinv tskip).
  Local Notation inv_chain' := (inv_chain tr tpar tinv tskip).
  Local Notation fwd' := (fwd tr tpar tapp).
  Local Notation inv_spec' := (inv_spec tr tpar tinv tskip).
  Local Notation SEns' := (SEns leaf lpar tr tpar reg rpar).
  Local Notation SPipe' := (SPipe leaf lpar tr tpar reg rpar).
  Local Notation SMux' := (SMux leaf lpar tr tpar reg rpar).
  Local Notation SStack' := (SStack leaf lpar tr tpar reg rpar).
  Local Notation SBad' := (SBad leaf lpar tr tpar reg rpar).
  Local Notation Ens' := (Ens leaf tr reg).
  Local Notation Pipe' := (Pipe leaf tr reg).
  Local Notation Mux' := (Mux leaf tr reg).
  Local Notation Stack' := (Stack leaf tr reg).

  (* ---- the regenerated functions, members = the model's own recursive functions ---- *)
  Definition G_fit_forecasters := gen_fit_forecasters leaf lpar tr tpar tfit tupd tapp tinv tskip thasupd reg rpar rfit rpred fit'.
  Definition G_predict_forecasters := gen_predict_forecasters leaf lpar tr tpar tfit tupd tapp tinv tskip thasupd reg rpar rfit rpred predict'.
  Definition G_ens_fit := gen_ens_fit leaf lpar tr tpar tfit tupd tapp tinv tskip thasupd reg rpar rfit rpred fit'.
  Definition G_ens_update := gen_ens_update leaf lpar tr tpar tfit tupd tapp tinv tskip thasupd reg rpar rfit rpred update'.
  Definition G_ens_predict := gen_ens_predict leaf lpar tr tpar tfit tupd tapp tinv tskip thasupd reg rpar rfit rpred predict'.
  Definition G_pipe_fit := gen_pipe_fit leaf lpar tr tpar tfit tupd tapp tinv tskip thasupd reg rpar rfit rpred fit'.
  Definition G_pipe_predict := gen_pipe_predict leaf lpar tr tpar tfit tupd tapp tinv tskip thasupd reg rpar rfit rpred predict'.
  Definition G_pipe_update := gen_pipe_update leaf lpar tr tpar tfit tupd tapp tinv tskip thasupd reg rpar rfit rpred update'.
  Definition G_pipe_transform := gen_pipe_transform leaf lpar tr tpar tfit tupd tapp tinv tskip thasupd reg rpar rfit rpred.
  Definition G_pipe_inverse_transform := gen_pipe_inverse_transform leaf lpar tr tpar tfit tupd tapp tinv tskip thasupd reg rpar rfit rpred.
  Definition G_mux_fit := gen_mux_fit leaf lpar tr tpar tfit tupd tapp tinv tskip thasupd reg rpar rfit rpred fit'.
  Definition G_mux_update := gen_mux_update leaf lpar tr tpar tfit tupd tapp tinv tskip thasupd reg rpar rfit rpred update'.
  Definition G_mux_predict := gen_mux_predict leaf lpar tr tpar tfit tupd tapp tinv tskip thasupd reg rpar rfit rpred predict'.
  Definition G_stack_fit := gen_stack_fit leaf lpar tr tpar tfit tupd tapp tinv tskip thasupd reg rpar rfit rpred fit' predict'.
  Definition G_stack_update := gen_stack_update leaf lpar tr tpar tfit tupd tapp tinv tskip thasupd reg rpar rfit rpred update'.
  Definition G_stack_predict := gen_stack_predict leaf lpar tr tpar tfit tupd tapp tinv tskip thasupd reg rpar rfit rpred predict'.

  (* ================================================================ base/_meta.py *)

  (* _fit_forecasters: every member is cloned and fitted on (y, X, fh), in order *)
  Theorem bridge_fit_forecasters ms y fh :
    G_fit_forecasters ms y fh =
    (map fst (map (fun m => fit' m y fh) ms), concat (map snd (map (fun m => fit' m y fh) ms))).
  Proof.
    unfold G_fit_forecasters, gen_fit_forecasters. cbv zeta.
    rewrite (fold_collect (fun m => fit' m y fh)).
    - rewrite !map_map. reflexivity.
    - intros tc out m. unfold gen_fit_forecasters_loop1. destruct (fit' m y fh). reflexivity.
  Qed.

  (* _predict_forecasters: every fitted member predicts, in order *)
  Theorem bridge_predict_forecasters ms :
    G_predict_forecasters ms = (map fst (map predict' ms), concat (map snd (map predict' ms))).
  Proof.
    unfold G_predict_forecasters, gen_predict_forecasters. cbv zeta.
    rewrite (fold_collect predict').
    - rewrite !map_map. reflexivity.
    - intros tc out m. unfold gen_predict_forecasters_loop1. destruct (predict' m). reflexivity.
  Qed.

  Lemma member_updates ms y up body :
    (forall tc out m, body (tc, out) m =
                      (tc ++ snd (update' m y up), out ++ [fst (update' m y up)])) ->
    fold_left body ms ([], []) =
    (concat (map snd (map (fun m => update' m y up) ms)),
     map fst (map (fun m => update' m y up) ms)).
  Proof.
    intros H. rewrite (fold_collect (fun m => update' m y up) body H). rewrite !map_map. reflexivity.
  Qed.

  (* ================================================================ EnsembleForecaster *)

  Theorem bridge_ens_fit a ms y fh : G_ens_fit a ms y fh = fit' (Ens' a ms) y fh.
  Proof.
    unfold G_ens_fit, gen_ens_fit. cbv zeta. fold G_fit_forecasters.
    rewrite bridge_fit_forecasters, own_fit. reflexivity.
  Qed.

  Theorem bridge_ens_update a b ms y up : G_ens_update a b ms y up = update' (SEns' a b ms) y up.
  Proof.
    unfold G_ens_update, gen_ens_update. cbv zeta. rewrite own_update.
    rewrite (member_updates ms y up).
    - reflexivity.
    - intros tc out m. unfold gen_ens_update_loop1. destruct (update' m y up). reflexivity.
  Qed.

  (* the aggregation dispatch: aggfunc a -> the pandas reduction of the same name, across the
     members (axis=1) of the frame whose columns are the member forecasts *)
  Theorem bridge_ens_predict a b ms : G_ens_predict a b ms = predict' (SEns' a b ms).
  Proof.
    unfold G_ens_predict, gen_ens_predict. cbv zeta. fold G_predict_forecasters.
    rewrite bridge_predict_forecasters. destruct a; reflexivity.
  Qed.

  (* ================================================================ TransformedTargetForecaster *)

  Definition perm3 {A B C} (x : A * B * C) : C * B * A := let '(a, b, c) := x in (c, b, a).

  (* body of the fit loop: clone, fit_transform the RUNNING series, store the fitted clone back *)
  Lemma bridge_pipe_fit_body acc gt :
    gen_pipe_fit_loop1 leaf lpar tr tpar tfit tupd tapp tinv tskip thasupd reg rpar rfit rpred (perm3 acc) gt = perm3 (fit_step' acc gt).
  Proof. destruct acc as [[fs yt] tc], gt as [g t]. reflexivity. Qed.

  Theorem bridge_pipe_fit ts f0 y fh : G_pipe_fit ts f0 y fh = fit' (Pipe' ts f0) y fh.
  Proof.
    unfold G_pipe_fit, gen_pipe_fit. cbv zeta. rewrite own_fit.
    pose (a0 := (([] : list tstateT), y, ([] : trace))).
    change (([] : trace), y, ([] : list tstateT)) with (perm3 a0).
    rewrite (fold_left_conj perm3 fit_step' _ bridge_pipe_fit_body).
    change (fit' (Pipe' ts f0) y fh) with
      (let '(fs, yt, tc) := fold_left fit_step' ts a0 in
       let '(s, tc2) := fit' f0 yt fh in (SPipe' (base_fit y fh) fs s, tc ++ tc2)).
    destruct (fold_left fit_step' ts a0) as [[fs yt] tc]. cbn [perm3].
    destruct (fit' f0 yt fh) as [s tc2]. reflexivity.
  Qed.

  (* body of the inverse loop of _predict: skip tagged transformers, else inverse_transform *)
  Lemma bridge_pipe_inv_fold : forall l pre t0 y,
    fold_left (gen_pipe_predict_loop1 leaf lpar tr tpar tfit tupd tapp tinv tskip thasupd reg rpar rfit rpred) l (pre ++ t0, y) =
    (let '(y', t') := fold_left inv_step' l (y, t0) in (pre ++ t', y')).
  Proof.
    induction l as [|[[g t] p] l IH]; intros pre t0 y; [reflexivity|].
    cbn [fold_left]. unfold gen_pipe_predict_loop1 at 2, inv_step at 2.
    unfold T_has_skip_tag, T_inverse_transform. destruct (tskip t); cbn [negb].
    - apply IH.
    - cbv zeta. rewrite <- app_assoc. apply IH.
  Qed.

  Theorem bridge_pipe_predict b ts f : G_pipe_predict b ts f = predict' (SPipe' b ts f).
  Proof.
    unfold G_pipe_predict, gen_pipe_predict. cbv zeta. cbn [predict].
    destruct (predict' f) as [yp tc].
    change ([] ++ tc) with tc. rewrite <- (app_nil_r tc) at 1.
    rewrite bridge_pipe_inv_fold. unfold inv_chain.
    destruct (fold_left inv_step' (rev ts) (yp, [])) as [yq tc2]. reflexivity.
  Qed.

  (* body of the update loop: update the step (if it can be updated) with the RUNNING series, then
     transform the running series with the updated step *)
  Lemma bridge_pipe_update_body up acc s :
    gen_pipe_update_loop1 leaf lpar tr tpar tfit tupd tapp tinv tskip thasupd reg rpar rfit rpred up (perm3 acc) s = perm3 (upd_step' up acc s).
  Proof.
    destruct acc as [[fs yt] tc], s as [[g t] p].
    unfold gen_pipe_update_loop1, upd_step, perm3, T_hasattr_update, T_update, T_transform.
    destruct (thasupd t); cbv zeta; cbn [app]; rewrite <- ?app_assoc; reflexivity.
  Qed.

  Theorem bridge_pipe_update b ts f y up :
    G_pipe_update b ts f y up = update' (SPipe' b ts f) y up.
  Proof.
    unfold G_pipe_update, gen_pipe_update. cbv zeta. rewrite own_update.
    destruct y as [|p0 y0]; [reflexivity|].
    match goal with |- context [if ?c then _ else _] =>
      let E := fresh "E" in destruct c eqn:E; try (exfalso; cbn [length] in E; lia) end.
    assert (Hy : p0 :: y0 <> []) by discriminate. revert Hy. generalize (p0 :: y0). intros y Hy.
    rewrite (update_pipe_nonempty leaf lpar lfit tr tpar tupd tapp thasupd reg rpar b ts f y up Hy).
    pose (a0 := (([] : list tstateT), y, ([] : trace))).
    change (([] : trace), y, ([] : list tstateT)) with (perm3 a0).
    rewrite (fold_left_conj perm3 (upd_step' up) _ (bridge_pipe_update_body up)).
    change (upd_chain' up ts y) with (fold_left (upd_step' up) ts a0).
    destruct (fold_left (upd_step' up) ts a0) as [[fs yt] tc]. cbn [perm3].
    destruct (update' f yt up) as [s tc2]. reflexivity.
  Qed.

  (* the empty-batch rule of the source: own data untouched (_update_y_X ignores an empty batch),
     no transformer and no forecaster is called *)
  Theorem bridge_pipe_update_empty b ts f up : G_pipe_update b ts f [] up = (SPipe' b ts f, []).
  Proof. reflexivity. Qed.

  (* transform / inverse_transform of the pipeline used as a transformer *)
  Lemma bridge_pipe_transform_fold : forall ts tc z,
    snd (fold_left (gen_pipe_transform_loop1 leaf lpar tr tpar tfit tupd tapp tinv tskip thasupd reg rpar rfit rpred) ts (tc, z)) = fwd' ts z.
  Proof.
    induction ts as [|[[g t] p] ts IH]; intros tc z; [reflexivity|].
    cbn [fold_left fwd]. unfold gen_pipe_transform_loop1 at 2, T_transform. cbv zeta. apply IH.
  Qed.

  Theorem bridge_pipe_transform ts z : fst (G_pipe_transform ts z) = fwd' ts z.
  Proof.
    unfold G_pipe_transform, gen_pipe_transform. cbv zeta.
    match goal with |- fst (let '(_, _) := ?X in _) = _ => transitivity (snd X) end;
      [|apply bridge_pipe_transform_fold].
    destruct (fold_left _ _ _). reflexivity.
  Qed.

  (* T_1^-1(... T_k^-1(z)): every step, tagged or not (unlike _predict) *)
  Fixpoint inv_all (fs : list tstateT) (z : series) : series :=
    match fs with
    | [] => z
    | (_, t, p) :: r => tinv t p (inv_all r z)
    end.

  Lemma bridge_pipe_inverse_fold : forall ts tc z,
    snd (fold_left (gen_pipe_inverse_transform_loop1 leaf lpar tr tpar tfit tupd tapp tinv tskip thasupd reg rpar rfit rpred) (rev ts) (tc, z)) = inv_all ts z.
  Proof.
    induction ts as [|[[g t] p] ts IH]; intros tc z; [reflexivity|].
    cbn [rev inv_all]. rewrite fold_left_app. cbn [fold_left].
    destruct (fold_left (gen_pipe_inverse_transform_loop1 leaf lpar tr tpar tfit tupd tapp tinv tskip thasupd reg rpar rfit rpred) (rev ts) (tc, z))
      as [tc1 z1] eqn:E.
    unfold gen_pipe_inverse_transform_loop1, T_inverse_transform. cbv zeta. cbn [snd].
    f_equal. rewrite <- (IH tc z), E. reflexivity.
  Qed.

  Theorem bridge_pipe_inverse_transform ts z :
    fst (G_pipe_inverse_transform ts z) = inv_all ts z.
  Proof.
    unfold G_pipe_inverse_transform, gen_pipe_inverse_transform. cbv zeta.
    match goal with |- fst (let '(_, _) := ?X in _) = _ => transitivity (snd X) end;
      [|apply bridge_pipe_inverse_fold].
    destruct (fold_left _ _ _). reflexivity.
  Qed.

  Theorem pipe_inverse_transform_is_inv_spec_without_skips ts z :
    (forall g t p, In (g, t, p) ts -> tskip t = false) -> inv_all ts z = inv_spec' ts z.
  Proof.
    induction ts as [|[[g t] p] ts IH]; intros H; [reflexivity|].
    cbn [inv_all inv_spec]. rewrite (H g t p (or_introl eq_refl)), IH; [reflexivity|].
    intros g' t' p' I. apply (H g' t' p'). right. exact I.
  Qed.

  (* ================================================================ MultiplexForecaster *)

  (* the members of Mux sel ms carry their positions as names *)
  Definition named (ms : list fcT) : list (Z * fcT) :=
    List.combine (map Z.of_nat (seq 0 (length ms))) ms.

  Lemma names_fold : forall (l : list (Z * fcT)) out,
    fold_left (gen_mux_check_selected_loop1 leaf lpar tr tpar tfit tupd tapp tinv tskip thasupd reg rpar rfit rpred) l out = out ++ map fst l.
  Proof.
    induction l as [|[n m] l IH]; intros out; cbn; [rewrite app_nil_r; reflexivity|].
    rewrite IH, <- app_assoc. reflexivity.
  Qed.

  Lemma names_of_named : forall (ms : list fcT) k,
    map fst (List.combine (map Z.of_nat (seq k (length ms))) ms) = map Z.of_nat (seq k (length ms)).
  Proof. induction ms as [|m ms IH]; intros k; cbn; [reflexivity|]. rewrite IH. reflexivity. Qed.

  Lemma existsb_seq : forall n k (sel : nat),
    existsb (Z.eqb (Z.of_nat sel)) (map Z.of_nat (seq k n)) = ((k <=? sel) && (sel <? k + n))%nat.
  Proof.
    induction n as [|n IH]; intros k sel; cbn [seq map existsb]; [lia|].
    rewrite IH. lia.
  Qed.

  (* _check_selected_forecaster: the selection must name a member *)
  Theorem bridge_mux_check sel ms :
    gen_mux_check_selected leaf lpar tr tpar tfit tupd tapp tinv tskip thasupd reg rpar rfit rpred (Z.of_nat sel) (named ms) = (sel <? length ms)%nat.
  Proof.
    unfold gen_mux_check_selected. cbv zeta. rewrite names_fold. cbn [app]. unfold named.
    rewrite names_of_named, existsb_seq.
    replace ((0 <=? sel) && (sel <? 0 + length ms))%nat with (sel <? length ms)%nat by lia.
    destruct (sel <? length ms)%nat; reflexivity.
  Qed.

  Lemma select_fold : forall (ms : list fcT) k sel cur,
    fold_left (gen_mux_set_forecaster_loop1 leaf lpar tr tpar tfit tupd tapp tinv tskip thasupd reg rpar rfit rpred (Z.of_nat sel))
              (List.combine (map Z.of_nat (seq k (length ms))) ms) cur =
    match (if (k <=? sel)%nat then nth_error ms (sel - k) else None) with
    | Some m => Some m
    | None => cur
    end.
  Proof.
    induction ms as [|m ms IH]; intros k sel cur.
    - cbn. destruct (k <=? sel)%nat; [destruct (sel - k)%nat|]; reflexivity.
    - cbn [length seq map List.combine fold_left]. rewrite IH.
      unfold gen_mux_set_forecaster_loop1. cbv zeta.
      destruct (Z.of_nat sel =? Z.of_nat k) eqn:E.
      + assert (sel = k) by lia. subst sel.
        replace (S k <=? k)%nat with false by lia. replace (k <=? k)%nat with true by lia.
        replace (k - k)%nat with 0%nat by lia. reflexivity.
      + destruct (k <=? sel)%nat eqn:E1.
        * assert (S k <=? sel = true)%nat as -> by lia.
          replace (sel - k)%nat with (S (sel - S k)) by lia. reflexivity.
        * assert (S k <=? sel = false)%nat as -> by lia. reflexivity.
  Qed.

  (* _set_forecaster: the member whose name is the selection *)
  Theorem bridge_mux_set_forecaster sel ms :
    gen_mux_set_forecaster leaf lpar tr tpar tfit tupd tapp tinv tskip thasupd reg rpar rfit rpred (Z.of_nat sel) (named ms) =
    if (sel <? length ms)%nat then Some (nth_error ms sel) else None.
  Proof.
    unfold gen_mux_set_forecaster. cbv zeta. rewrite bridge_mux_check.
    destruct (sel <? length ms)%nat; [|reflexivity].
    unfold named. rewrite select_fold. cbn. rewrite Nat.sub_0_r.
    destruct (nth_error ms sel); reflexivity.
  Qed.

  Theorem bridge_mux_fit sel ms y fh :
    G_mux_fit (Z.of_nat sel) (named ms) y fh = fit' (Mux' sel ms) y fh.
  Proof.
    unfold G_mux_fit, gen_mux_fit. cbv zeta. rewrite bridge_mux_set_forecaster, own_fit.
    cbn [fit]. rewrite nth_error_map.
    destruct (sel <? length ms)%nat eqn:E.
    - destruct (nth_error ms sel) as [m|] eqn:En; cbn [option_map]; [|reflexivity].
      destruct (fit' m y fh) as [s tc]. reflexivity.
    - assert (nth_error ms sel = None) as -> by (apply nth_error_None; lia). reflexivity.
  Qed.

  Theorem bridge_mux_update b m y up : G_mux_update b m y up = update' (SMux' b m) y up.
  Proof.
    unfold G_mux_update, gen_mux_update. cbv zeta. rewrite own_update. cbn [update].
    destruct (update' m y up) as [m' tc]. reflexivity.
  Qed.

  Theorem bridge_mux_predict b m : G_mux_predict b m = predict' (SMux' b m).
  Proof.
    unfold G_mux_predict, gen_mux_predict. cbv zeta. cbn [predict].
    destruct (predict' m) as [p tc]. reflexivity.
  Qed.

  (* ================================================================ StackingForecaster *)

  (* fit: members on the series WITHOUT the hold-out window, their forecasts of the hold-out window
     = rows of the meta-regressor's training matrix, targets = the held-out values; then the members
     are fitted again on ALL data *)
  Theorem bridge_stack_fit g r ms y fh :
    G_stack_fit (g, r) ms y fh = fit' (Stack' g r ms) y fh.
  Proof.
    unfold G_stack_fit, gen_stack_fit. cbv zeta. rewrite own_fit.
    unfold sw_first_split, SingleWindowSplitter. cbn [hor base_fit].
    fold G_fit_forecasters. rewrite !bridge_fit_forecasters. cbv zeta.
    fold G_predict_forecasters. rewrite bridge_predict_forecasters.
    rewrite iloc_train, vals_iloc. unfold R_fit, np_column_stack.
    cbn [fit fst snd]. unfold stack_train, stack_ymeta.
    rewrite !map_map. cbn [app]. rewrite <- !app_assoc. reflexivity.
  Qed.

  (* update: own data, every member; the meta-regressor is left alone *)
  Theorem bridge_stack_update g r rp b ms y up :
    G_stack_update b (g, r, rp) ms y up = update' (SStack' g r rp b ms) y up.
  Proof.
    unfold G_stack_update, gen_stack_update. cbv zeta. rewrite own_update.
    rewrite (member_updates ms y up).
    - reflexivity.
    - intros tc out m. unfold gen_stack_update_loop1. destruct (update' m y up). reflexivity.
  Qed.

  Theorem bridge_stack_predict g r rp b ms :
    G_stack_predict b (g, r, rp) ms = predict' (SStack' g r rp b ms).
  Proof.
    unfold G_stack_predict, gen_stack_predict. cbv zeta. fold G_predict_forecasters.
    rewrite bridge_predict_forecasters. unfold R_predict, np_column_stack, pd_Series, fh_to_absolute.
    cbn [predict]. rewrite !map_map. reflexivity.
  Qed.

  (* ================================================================ all nodes at once *)

  Definition G_fit (f : fcT) (y : series) (fh : list Z) : stT * trace :=
    match f with
    | Leaf _ _ _ _ _ => fit' f y fh
    | Ens _ _ _ a ms => G_ens_fit a ms y fh
    | Pipe _ _ _ ts f0 => G_pipe_fit ts f0 y fh
    | Mux _ _ _ sel ms => G_mux_fit (Z.of_nat sel) (named ms) y fh
    | Stack _ _ _ g r ms => G_stack_fit (g, r) ms y fh
    end.
  Definition G_update (s : stT) (y : series) (up : bool) : stT * trace :=
    match s with
    | SEns _ _ _ _ _ _ a b ms => G_ens_update a b ms y up
    | SPipe _ _ _ _ _ _ b ts f => G_pipe_update b ts f y up
    | SMux _ _ _ _ _ _ b m => G_mux_update b m y up
    | SStack _ _ _ _ _ _ g r rp b ms => G_stack_update b (g, r, rp) ms y up
    | _ => update' s y up
    end.
  Definition G_predict (s : stT) : series * trace :=
    match s with
    | SEns _ _ _ _ _ _ a b ms => G_ens_predict a b ms
    | SPipe _ _ _ _ _ _ b ts f => G_pipe_predict b ts f
    | SMux _ _ _ _ _ _ b m => G_mux_predict b m
    | SStack _ _ _ _ _ _ g r rp b ms => G_stack_predict b (g, r, rp) ms
    | _ => predict' s
    end.

  Theorem bridge_fit f y fh : G_fit f y fh = fit' f y fh.
  Proof.
    destruct f; [reflexivity|apply bridge_ens_fit|apply bridge_pipe_fit|apply bridge_mux_fit|
                 apply bridge_stack_fit].
  Qed.
  Theorem bridge_update s y up : G_update s y up = update' s y up.
  Proof.
    destruct s; [reflexivity|apply bridge_ens_update|apply bridge_pipe_update|
                 apply bridge_mux_update|apply bridge_stack_update|reflexivity].
  Qed.
  Theorem bridge_predict s : G_predict s = predict' s.
  Proof.
    destruct s; [reflexivity|apply bridge_ens_predict|apply bridge_pipe_predict|
                 apply bridge_mux_predict|apply bridge_stack_predict|reflexivity].
  Qed.

  (* a history through the regenerated functions *)
  Definition G_state (f : fcT) (y : series) (fh : list Z) (ups : list (series * bool)) : stT :=
    fold_left (fun s u => fst (G_update s (fst u) (snd u))) ups (fst (G_fit f y fh)).

  Local Notation state' :=
    (state_after leaf lpar lfit lpred tr tpar tfit tupd tapp tinv tskip thasupd reg rpar rfit rpred).

  Theorem bridge_state f y fh ups : G_state f y fh ups = state' f y fh ups.
  Proof.
    unfold G_state, state_after, after_updates. rewrite bridge_fit.
    generalize (fst (fit' f y fh)). induction ups as [|u ups IH]; intros s; [reflexivity|].
    cbn [fold_left]. rewrite bridge_update. apply IH.
  Qed.

  (* ---- key theorems of Props.v, restated for the regenerated functions ---- *)

  (* the regenerated ensemble is the model's ensemble, hence: its forecast after fit and any
     updates is the chosen aggregate of the members run alone on the same data *)
  Theorem site_ensemble_is_aggregate_of_members a ms y fh ups :
    fst (G_predict (G_state (Ens' a ms) y fh ups)) =
    agg_series a (map (fun m => fst (G_predict (G_state m y fh ups))) ms).
  Proof.
    rewrite bridge_predict, bridge_state.
    rewrite (map_ext _ (fun m => fst (predict' (state' m y fh ups)))).
    - apply (ensemble_is_aggregate_of_members leaf lpar lfit lpred tr tpar tfit tupd tapp tinv tskip
               thasupd reg rpar rfit rpred).
    - intros m. rewrite bridge_predict, bridge_state. reflexivity.
  Qed.

  (* the regenerated multiplexer behaves as the selected member *)
  Theorem site_multiplex_is_selected sel ms m y fh ups :
    nth_error ms sel = Some m ->
    fst (G_predict (G_state (Mux' sel ms) y fh ups)) = fst (G_predict (G_state m y fh ups)).
  Proof.
    intros Hn. rewrite !bridge_predict, !bridge_state.
    rewrite (multiplex_state leaf lpar lfit lpred tr tpar tfit tupd tapp tinv tskip thasupd reg
               rpar rfit rpred sel ms m y fh ups Hn).
    reflexivity.
  Qed.

  (* the regenerated pipeline: transformers fitted in order on the running transform, the final
     forecaster on the fully transformed series, forecast = inverse chain in reverse order *)
  Theorem site_pipeline_is_chain ts f y fh :
    exists fs, fitted_chain tr tpar tfit tapp ts y fs (fwd' fs y) /\
      fst (G_fit (Pipe' ts f) y fh) = SPipe' (base_fit y fh) fs (fst (fit' f (fwd' fs y) fh)) /\
      fst (G_predict (fst (G_fit (Pipe' ts f) y fh))) =
        inv_spec' fs (fst (predict' (fst (fit' f (fwd' fs y) fh)))).
  Proof.
    rewrite bridge_predict, bridge_fit.
    exact (pipeline_is_chain leaf lpar lfit lpred tr tpar tfit tupd tapp tinv tskip thasupd reg rpar
             rfit rpred ts f y fh).
  Qed.
End Bridge.
