(* C09 correspondence: a case carries a composite built from the recording doubles, the data, the
   updates, and what the REAL composite produced (forecast + trace of calls received by the inner
   estimators, per step); `check` recomputes both with the model and compares (values in Q with
   relative tolerance 1e-9: pandas' mean over three members is not exact). *)
From Coq Require Import ZArith QArith Qabs List Bool.
Require Import SkV.Lib.Base SkV.C09.Model.
Import ListNotations.
Open Scope Z_scope.

Definition qclose (x y : Q) : bool :=
  Qle_bool (Qabs (x - y)) ((1 # 1000000000) * (1 + Qabs x)).

Definition list_close {A} (f : A -> A -> bool) (a b : list A) : bool :=
  (length a =? length b)%nat && forallb (fun p => f (fst p) (snd p)) (List.combine a b).

Definition ser_close (a b : series) : bool :=
  list_close (fun p q => (fst p =? fst q) && qclose (snd p) (snd q)) a b.
Definition zl_eqb (a b : list Z) : bool := list_close Z.eqb a b.
Definition ql_close (a b : list Q) : bool := list_close qclose a b.
Definition mat_close (a b : list (list Q)) : bool := list_close ql_close a b.

Definition ev_close (e1 e2 : ev) : bool :=
  match e1, e2 with
  | EFit g y, EFit g' y' => (g =? g') && ser_close y y'
  | ERefit g y, ERefit g' y' => (g =? g') && ser_close y y'
  | EUpdate g y u, EUpdate g' y' u' => (g =? g') && ser_close y y' && Bool.eqb u u'
  | EPredict g c fh, EPredict g' c' fh' => (g =? g') && (c =? c') && zl_eqb fh fh'
  | ETFit g y, ETFit g' y' => (g =? g') && ser_close y y'
  | ETransform g y, ETransform g' y' => (g =? g') && ser_close y y'
  | ETUpdate g y u, ETUpdate g' y' u' => (g =? g') && ser_close y y' && Bool.eqb u u'
  | EInverse g y, EInverse g' y' => (g =? g') && ser_close y y'
  | ERFit g X y, ERFit g' X' y' => (g =? g') && mat_close X X' && ql_close y y'
  | ERPredict g X, ERPredict g' X' => (g =? g') && mat_close X X'
  | _, _ => false
  end.

Definition step_close (a b : series * trace) : bool :=
  ser_close (fst a) (fst b) && list_close ev_close (snd a) (snd b).

Inductive case :=
  | CRun (f : cfc) (y : series) (fh : list Z) (ups : list (series * bool))
         (out : list (series * trace))
  (* the horizon is (also) handed over at predict: fhs = the horizon in force at each step
     (fit+predict, then each update+predict).  The model's horizon is an argument of the whole run,
     so step i is step i of the run with the horizon in force at step i. *)
  | CRunH (f : cfc) (y : series) (ups : list (series * bool)) (fhs : list (list Z))
          (out : list (series * trace)).

Definition c_run_h (f : cfc) (y : series) (ups : list (series * bool)) (fhs : list (list Z))
  : list (option (series * trace)) :=
  map (fun p => nth_error (c_run f y (snd p) ups) (fst p)) (combine (seq 0 (length fhs)) fhs).

Definition check (c : case) : bool :=
  match c with
  | CRun f y fh ups out => list_close step_close (c_run f y fh ups) out
  | CRunH f y ups fhs out =>
      (length fhs =? S (length ups))%nat &&
      (length out =? length fhs)%nat &&
      forallb (fun p => match fst p with Some st => step_close st (snd p) | None => false end)
              (List.combine (c_run_h f y ups fhs) out)
  end.

Fixpoint mism (cs : list (Z * case)) : list Z :=
  match cs with
  | [] => []
  | (i, c) :: t => if check c then mism t else i :: mism t
  end.
