(* C09 model: composite forecasters over ABSTRACT leaf semantics.

   Integer time, rational values.  A series is a list of (time, value); the theorems assume
   strictly increasing times where they need it.  `cfirst new old` is pandas `new.combine_first(old)`
   (union of the time points, `new` wins on overlap).

   Everything inside `Section Sem` is parametric in
     - the leaf forecasters   (lfit : training series -> fitted parameters,
                               lpred : parameters, remembered data, cutoff, step -> forecast value),
     - the series transformers (tfit / tupd / tapp / tinv, skip-inverse tag, has-update flag),
     - the meta regressor of the stacking forecaster (rfit / rpred).
   The composite constructors are the operational mirror of the loops in
   sktime/forecasting/compose/{_ensemble,_pipeline,_multiplexer,_stack}.py and base/_meta.py; every
   function returns the value AND the trace of calls the inner estimators receive.
   Executable definitions only; Proofs.v states the property's sentences about them. *)
From Coq Require Import ZArith QArith List Bool.
Require Import SkV.Lib.Base SkV.Lib.ZRange.
Import ListNotations.
Open Scope Z_scope.

Definition series := list (Z * Q).
Definition times (s : series) : list Z := map fst s.
Definition vals (s : series) : list Q := map snd s.
Definition last_time (s : series) : Z := zlast (times s).

Fixpoint lookup (t : Z) (s : series) : option Q :=
  match s with
  | [] => None
  | (t', v) :: r => if t =? t' then Some v else lookup t r
  end.

(* insert-or-overwrite into a time-sorted series *)
Fixpoint upsert (t : Z) (v : Q) (s : series) : series :=
  match s with
  | [] => [(t, v)]
  | (t', v') :: r =>
      if t <? t' then (t, v) :: s
      else if t =? t' then (t, v) :: r
      else (t', v') :: upsert t v r
  end.

(* new.combine_first(old) *)
Definition cfirst (new old : series) : series :=
  fold_right (fun p acc => upsert (fst p) (snd p) acc) old new.

(* what every _SktimeForecaster keeps: remembered data, cutoff, horizon *)
Record base := { mem : series; cut : Z; hor : list Z }.
Definition base_fit (y : series) (fh : list Z) : base :=
  {| mem := y; cut := last_time y; hor := fh |}.
(* _update_y_X: only for non-empty data *)
Definition base_upd (b : base) (y : series) : base :=
  match y with
  | [] => b
  | _ => {| mem := cfirst y (mem b); cut := last_time y; hor := hor b |}
  end.

(* ---- aggregation over members (pandas DataFrame.{mean,median,min,max}(axis=1)) ---- *)
Inductive agg := AMean | AMedian | AMin | AMax.

Definition qsum (l : list Q) : Q := fold_right Qplus 0%Q l.
Definition qlen (l : list Q) : Q := inject_Z (Z.of_nat (length l)).
Definition qmean (l : list Q) : Q := (qsum l / qlen l)%Q.
Fixpoint qinsert (x : Q) (l : list Q) : list Q :=
  match l with
  | [] => [x]
  | y :: r => if Qle_bool x y then x :: l else y :: qinsert x r
  end.
Definition qsort (l : list Q) : list Q := fold_right qinsert [] l.
Definition qmedian (l : list Q) : Q :=
  let s := qsort l in
  let n := length s in
  if Nat.even n then ((nth (n / 2 - 1) s 0 + nth (n / 2) s 0) / 2)%Q else nth (n / 2) s 0%Q.
Definition qmin2 (a b : Q) : Q := if Qle_bool a b then a else b.
Definition qmax2 (a b : Q) : Q := if Qle_bool a b then b else a.
Definition qmin_list (l : list Q) : Q := match l with [] => 0%Q | x :: r => fold_left qmin2 r x end.
Definition qmax_list (l : list Q) : Q := match l with [] => 0%Q | x :: r => fold_left qmax2 r x end.
Definition aggf (a : agg) (l : list Q) : Q :=
  match a with
  | AMean => qmean l
  | AMedian => qmedian l
  | AMin => qmin_list l
  | AMax => qmax_list l
  end.

(* np.column_stack / pd.concat(axis=1) of n-point member forecasts: row i holds the i-th forecast of
   every member, in member order *)
Fixpoint rows (n : nat) (ps : list (list Q)) : list (list Q) :=
  match n with
  | O => []
  | S k => map (hd 0%Q) ps :: rows k (map (@tl Q) ps)
  end.

Definition agg_series (a : agg) (ps : list series) : series :=
  match ps with
  | [] => []
  | p0 :: _ => List.combine (times p0) (map (aggf a) (rows (length p0) (map vals ps)))
  end.

(* ---- events received by inner estimators ---- *)
Inductive ev :=
  | EFit (g : Z) (y : series)                  (* forecaster g: fit(y) called from outside *)
  | ERefit (g : Z) (y : series)                (* forecaster g refits itself inside update *)
  | EUpdate (g : Z) (y : series) (up : bool)   (* forecaster g: update(y, update_params=up) *)
  | EPredict (g : Z) (c : Z) (fh : list Z)     (* forecaster g predicts from cutoff c, steps fh *)
  | ETFit (g : Z) (y : series)                 (* transformer g: fit(y) *)
  | ETransform (g : Z) (y : series)
  | ETUpdate (g : Z) (y : series) (up : bool)
  | EInverse (g : Z) (y : series)
  | ERFit (g : Z) (X : list (list Q)) (y : list Q)   (* meta regressor: fit(X_meta, y_meta) *)
  | ERPredict (g : Z) (X : list (list Q)).
Definition trace := list ev.

Section Sem.
  Variable leaf : Type.
  Variable lpar : Type.
  Variable lfit : leaf -> series -> lpar.
  Variable lpred : leaf -> lpar -> series -> Z -> Z -> Q.

  Variable tr : Type.
  Variable tpar : Type.
  Variable tfit : tr -> series -> tpar.
  Variable tupd : tr -> tpar -> series -> bool -> tpar.
  Variable tapp : tr -> tpar -> series -> series.
  Variable tinv : tr -> tpar -> series -> series.
  Variable tskip : tr -> bool.      (* tag skip-inverse-transform *)
  Variable thasupd : tr -> bool.    (* hasattr(transformer, "update") *)

  Variable reg : Type.
  Variable rpar : Type.
  Variable rfit : reg -> list (list Q) -> list Q -> rpar.
  Variable rpred : reg -> rpar -> list Q -> Q.

  (* composite forecasters, any nesting *)
  Inductive fc :=
    | Leaf (g : Z) (l : leaf)
    | Ens (a : agg) (ms : list fc)
    | Pipe (ts : list (Z * tr)) (f : fc)
    | Mux (sel : nat) (ms : list fc)
    | Stack (g : Z) (r : reg) (ms : list fc).

  Definition tstate := (Z * tr * tpar)%type.

  (* fitted states; every node keeps its own remembered data / cutoff / horizon *)
  Inductive st :=
    | SLeaf (g : Z) (l : leaf) (b : base) (p : lpar)
    | SEns (a : agg) (b : base) (ms : list st)
    | SPipe (b : base) (ts : list tstate) (f : st)
    | SMux (b : base) (m : st)
    | SStack (g : Z) (r : reg) (rp : rpar) (b : base) (ms : list st)
    | SBad.   (* multiplexer whose selection names no member: the code raises *)

  (* TransformedTargetForecaster.fit: for each step, clone, fit_transform the running series *)
  Definition fit_step (acc : list tstate * series * trace) (gt : Z * tr)
    : list tstate * series * trace :=
    let '(fs, yt, tc) := acc in
    let '(g, t) := gt in
    let p := tfit t yt in
    (fs ++ [(g, t, p)], tapp t p yt, tc ++ [ETFit g yt; ETransform g yt]).
  Definition fit_chain (ts : list (Z * tr)) (y : series) : list tstate * series * trace :=
    fold_left fit_step ts ([], y, []).

  (* TransformedTargetForecaster.update: each step is updated with, then transforms, the data as
     transformed by the steps before it *)
  Definition upd_step (up : bool) (acc : list tstate * series * trace) (s : tstate)
    : list tstate * series * trace :=
    let '(fs, yt, tc) := acc in
    let '(g, t, p) := s in
    let p' := if thasupd t then tupd t p yt up else p in
    (fs ++ [(g, t, p')], tapp t p' yt,
     tc ++ (if thasupd t then [ETUpdate g yt up] else []) ++ [ETransform g yt]).
  Definition upd_chain (up : bool) (ts : list tstate) (y : series)
    : list tstate * series * trace :=
    fold_left (upd_step up) ts ([], y, []).

  (* TransformedTargetForecaster._predict: inverse transforms in reverse order, skipping tagged ones *)
  Definition inv_step (acc : series * trace) (s : tstate) : series * trace :=
    let '(yp, tc) := acc in
    let '(g, t, p) := s in
    if tskip t then (yp, tc) else (tinv t p yp, tc ++ [EInverse g yp]).
  Definition inv_chain (ts : list tstate) (yp : series) : series * trace :=
    fold_left inv_step (rev ts) (yp, []).

  Fixpoint predict (s : st) : series * trace :=
    match s with
    | SLeaf g l b p =>
        (map (fun h => (cut b + h, lpred l p (mem b) (cut b) h)) (hor b),
         [EPredict g (cut b) (hor b)])
    | SEns a b ms =>
        let r := map predict ms in
        (agg_series a (map fst r), concat (map snd r))
    | SPipe b ts f =>
        let '(yp, tc) := predict f in
        let '(yq, tc2) := inv_chain ts yp in
        (yq, tc ++ tc2)
    | SMux b m => predict m
    | SStack g r rp b ms =>
        let rs := map predict ms in
        let X := rows (length (hor b)) (map (fun q => vals (fst q)) rs) in
        (List.combine (map (fun h => cut b + h) (hor b)) (map (rpred r rp) X),
         concat (map snd rs) ++ [ERPredict g X])
    | SBad => ([], [])
    end.

  (* StackingForecaster.fit hold-out: SingleWindowSplitter(fh) on positions; k = max fh *)
  Definition holdout_k (fh : list Z) : nat := Z.to_nat (zlast fh).
  Definition stack_train (y : series) (fh : list Z) : series :=
    firstn (length y - holdout_k fh) y.
  Definition stack_test_pos (y : series) (fh : list Z) : list nat :=
    map (fun h => (length y - holdout_k fh - 1 + Z.to_nat h)%nat) fh.
  Definition stack_ymeta (y : series) (fh : list Z) : list Q :=
    map (fun i => nth i (vals y) 0%Q) (stack_test_pos y fh).

  Fixpoint fit (f : fc) (y : series) (fh : list Z) {struct f} : st * trace :=
    match f with
    | Leaf g l => (SLeaf g l (base_fit y fh) (lfit l y), [EFit g y])
    | Ens a ms =>
        let r := map (fun m => fit m y fh) ms in
        (SEns a (base_fit y fh) (map fst r), concat (map snd r))
    | Pipe ts f0 =>
        let '(fs, yt, tc) := fit_chain ts y in
        let '(s, tc2) := fit f0 yt fh in
        (SPipe (base_fit y fh) fs s, tc ++ tc2)
    | Mux sel ms =>
        let r := map (fun m => fit m y fh) ms in
        match nth_error r sel with
        | Some (s, tc) => (SMux (base_fit y fh) s, tc)
        | None => (SBad, [])
        end
    | Stack g r ms =>
        let r1 := map (fun m => fit m (stack_train y fh) fh) ms in
        let p1 := map (fun s => predict (fst s)) r1 in
        let X := rows (length fh) (map (fun q => vals (fst q)) p1) in
        let ym := stack_ymeta y fh in
        let r2 := map (fun m => fit m y fh) ms in
        (SStack g r (rfit r X ym) (base_fit y fh) (map fst r2),
         concat (map snd r1) ++ concat (map snd p1) ++ [ERFit g X ym] ++ concat (map snd r2))
    end.

  (* update(y, update_params=up).  A leaf is a _SktimeForecaster with the inherited update: merge,
     move the cutoff, and if up refit on ALL remembered data (which also resets the cutoff to the
     end of the remembered data). Composites merge into their own memory and forward. *)
  Fixpoint update (s : st) (y : series) (up : bool) {struct s} : st * trace :=
    match s with
    | SLeaf g l b p =>
        let b1 := base_upd b y in
        if up then (SLeaf g l (base_fit (mem b1) (hor b1)) (lfit l (mem b1)),
                    [EUpdate g y up; ERefit g (mem b1)])
        else (SLeaf g l b1 p, [EUpdate g y up])
    | SEns a b ms =>
        let r := map (fun m => update m y up) ms in
        (SEns a (base_upd b y) (map fst r), concat (map snd r))
    | SPipe b ts f =>
        match y with
        | [] => (SPipe (base_upd b y) ts f, [])   (* empty batch: returns right after _update_y_X *)
        | _ =>
            let '(ts', yt, tc) := upd_chain up ts y in
            let '(f', tc2) := update f yt up in
            (SPipe (base_upd b y) ts' f', tc ++ tc2)
        end
    | SMux b m =>
        let '(m', tc) := update m y up in
        (SMux (base_upd b y) m', tc)
    | SStack g r rp b ms =>
        let rr := map (fun m => update m y up) ms in
        (SStack g r rp (base_upd b y) (map fst rr), concat (map snd rr))
    | SBad => (SBad, [])
    end.

  (* histories: fit, then a list of updates *)
  Definition upd := (series * bool)%type.
  Definition after_updates (s : st) (ups : list upd) : st :=
    fold_left (fun s u => fst (update s (fst u) (snd u))) ups s.
  Definition state_after (f : fc) (y : series) (fh : list Z) (ups : list upd) : st :=
    after_updates (fst (fit f y fh)) ups.
  Definition forecast_after (f : fc) (y : series) (fh : list Z) (ups : list upd) : series :=
    fst (predict (state_after f y fh ups)).

  (* what an observer sees: forecast and trace of fit+predict, then of every update+predict *)
  Fixpoint run_ups (s : st) (ups : list upd) : list (series * trace) :=
    match ups with
    | [] => []
    | (y, up) :: r =>
        let '(s', tc) := update s y up in
        let '(p, tc2) := predict s' in
        (p, tc ++ tc2) :: run_ups s' r
    end.
  Definition run (f : fc) (y : series) (fh : list Z) (ups : list upd) : list (series * trace) :=
    let '(s, tc) := fit f y fh in
    let '(p, tc2) := predict s in
    (p, tc ++ tc2) :: run_ups s ups.

  Definition own_base (s : st) : option base :=
    match s with
    | SLeaf _ _ b _ | SEns _ b _ | SPipe b _ _ | SMux b _ | SStack _ _ _ b _ => Some b
    | SBad => None
    end.
End Sem.

(* ---- the concrete semantics of the recording test doubles of props/c09.py and of the real
        NaiveForecaster(last / mean) leaves (used by Cases.v and by the non-vacuity example) ---- *)
Inductive cleaf :=
  | LRec (a k : Q)              (* forecast(h) = a * sum(fit data) + remembered value at cutoff + k*h *)
  | LNaiveLast
  | LNaiveMean (w : option Z).  (* mean of the last w remembered values up to the cutoff *)
Definition clpar := (Q * Z)%type.
Definition c_lfit (l : cleaf) (y : series) : clpar :=
  match l with
  | LRec _ _ => (qsum (vals y), 0)
  | LNaiveLast => (0%Q, 1)
  | LNaiveMean (Some w) => (0%Q, w)
  | LNaiveMean None => (0%Q, Z.of_nat (length y))
  end.
Definition at_time (m : series) (t : Z) : Q := match lookup t m with Some v => v | None => 0%Q end.
Definition c_lpred (l : cleaf) (p : clpar) (m : series) (c h : Z) : Q :=
  match l with
  | LRec a k => (a * fst p + at_time m c + k * inject_Z h)%Q
  | LNaiveLast => at_time m c
  | LNaiveMean _ =>
      qmean (vals (filter (fun tv => (c - snd p <? fst tv) && (fst tv <=? c)) m))
  end.

(* affine transformer doubles: v -> a*v + b + c + g*t, c fitted = first value seen at fit,
   update(update_params=True) adds the batch length to c *)
Inductive ctr := TAff (a b g : Q) (skip hasupd : bool).
Definition c_tfit (_ : ctr) (y : series) : Q := hd 0%Q (vals y).
Definition c_tupd (_ : ctr) (c : Q) (y : series) (up : bool) : Q :=
  if up then (c + inject_Z (Z.of_nat (length y)))%Q else c.
Definition c_tapp (t : ctr) (c : Q) (y : series) : series :=
  match t with TAff a b g _ _ =>
    map (fun tv => (fst tv, Qred (a * snd tv + b + c + g * inject_Z (fst tv))%Q)) y end.
Definition c_tinv (t : ctr) (c : Q) (y : series) : series :=
  match t with TAff a b g _ _ =>
    map (fun tv => (fst tv, Qred ((snd tv - b - c - g * inject_Z (fst tv)) / a)%Q)) y end.
Definition c_tskip (t : ctr) : bool := match t with TAff _ _ _ s _ => s end.
Definition c_thasupd (t : ctr) : bool := match t with TAff _ _ _ _ u => u end.

(* regressor double: bias = sum(y_meta) - sum(first column); predict(row) = sum_j (j+1)*row_j + bias *)
Inductive creg := RWsum.
Fixpoint wsum (j : Z) (row : list Q) : Q :=
  match row with [] => 0%Q | x :: r => (inject_Z j * x + wsum (j + 1) r)%Q end.
Definition c_rfit (_ : creg) (X : list (list Q)) (y : list Q) : Q :=
  (qsum y - qsum (map (hd 0%Q) X))%Q.
Definition c_rpred (_ : creg) (bias : Q) (row : list Q) : Q := (wsum 1 row + bias)%Q.

Definition cfc := fc cleaf ctr creg.
Definition cst := st cleaf clpar ctr Q creg Q.
Definition c_fit : cfc -> series -> list Z -> cst * trace :=
  fit cleaf clpar c_lfit c_lpred ctr Q c_tfit c_tapp c_tinv c_tskip creg Q c_rfit c_rpred.
Definition c_predict : cst -> series * trace :=
  predict cleaf clpar c_lpred ctr Q c_tinv c_tskip creg Q c_rpred.
Definition c_update : cst -> series -> bool -> cst * trace :=
  update cleaf clpar c_lfit ctr Q c_tupd c_tapp c_thasupd creg Q.
Definition c_run : cfc -> series -> list Z -> list (series * bool) -> list (series * trace) :=
  run cleaf clpar c_lfit c_lpred ctr Q c_tfit c_tupd c_tapp c_tinv c_tskip c_thasupd creg Q
      c_rfit c_rpred.
