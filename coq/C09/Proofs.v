(* C09 proofs.  Part 1: laws of the memory merge and of the aggregates (no leaf semantics involved).
   Part 2: the composite theorems, for ALL leaf / transformer / regressor semantics. *)
From Coq Require Import ZArith QArith List Bool Lia ZifyBool Permutation Sorted Lqa.
Require Import SkV.Lib.Base SkV.Lib.ZRange SkV.C09.Model.
Import ListNotations.
Open Scope Z_scope.

(* ------------------------------------------------------------------------------------------- *)
(* Part 1a: combine_first *)

Lemma upsert_lookup : forall s t v t',
  lookup t' (upsert t v s) = if t' =? t then Some v else lookup t' s.
Proof.
  induction s as [|[t0 v0] r IH]; intros t v t'; cbn [upsert lookup].
  - destruct (t' =? t); reflexivity.
  - destruct (t <? t0) eqn:E1; cbn [lookup].
    + destruct (t' =? t) eqn:E2; reflexivity.
    + destruct (t =? t0) eqn:E2; cbn [lookup].
      * destruct (t' =? t) eqn:E3; destruct (t' =? t0) eqn:E4; try reflexivity; lia.
      * rewrite IH. destruct (t' =? t0) eqn:E3; destruct (t' =? t) eqn:E4; try reflexivity; lia.
Qed.

(* newer wins, older kept elsewhere *)
Lemma cfirst_lookup : forall new old t,
  lookup t (cfirst new old) =
  match lookup t new with Some v => Some v | None => lookup t old end.
Proof.
  induction new as [|[t0 v0] r IH]; intros old t; cbn [cfirst fold_right lookup fst snd].
  - reflexivity.
  - rewrite upsert_lookup. destruct (t =? t0); [reflexivity|]. apply IH.
Qed.

Lemma upsert_times : forall s t v x,
  In x (times (upsert t v s)) <-> x = t \/ In x (times s).
Proof.
  unfold times. induction s as [|[t0 v0] r IH]; intros t v x; cbn [upsert map In fst].
  - intuition.
  - destruct (t <? t0) eqn:E1; cbn [map In fst]; [intuition|].
    destruct (t =? t0) eqn:E2; cbn [map In fst].
    + assert (t = t0) by lia. subst. intuition.
    + rewrite IH. intuition.
Qed.

(* the remembered time points are exactly the union *)
Lemma cfirst_times : forall new old x,
  In x (times (cfirst new old)) <-> In x (times new) \/ In x (times old).
Proof.
  induction new as [|[t0 v0] r IH]; intros old x; cbn [cfirst fold_right fst snd].
  - cbn. intuition.
  - rewrite upsert_times. fold (cfirst r old). rewrite IH. cbn. intuition.
Qed.

Lemma upsert_sorted : forall s t v, sorted_lt (times s) -> sorted_lt (times (upsert t v s)).
Proof.
  unfold times. induction s as [|[t0 v0] r IH]; intros t v Hs; cbn [upsert map fst].
  - exact I.
  - destruct (t <? t0) eqn:E1.
    + cbn [map fst]. cbn [map fst] in Hs. cbn [sorted_lt]. split; [lia|exact Hs].
    + destruct (t =? t0) eqn:E2.
      * assert (t = t0) by lia. subst. exact Hs.
      * cbn [map fst]. cbn [map fst] in Hs.
        pose proof (IH t v (sorted_lt_tail _ _ Hs)) as IH'.
        destruct (map fst (upsert t v r)) as [|b l] eqn:E; [exact I|].
        cbn [sorted_lt]. split; [|exact IH'].
        assert (Hin : In b (times (upsert t v r))) by (unfold times; rewrite E; left; reflexivity).
        apply upsert_times in Hin. destruct Hin as [->|Hin]; [lia|].
        apply (sorted_lt_head_lt _ _ _ Hs Hin).
Qed.

Lemma cfirst_sorted : forall new old, sorted_lt (times old) -> sorted_lt (times (cfirst new old)).
Proof.
  induction new as [|[t0 v0] r IH]; intros old Hs; cbn [cfirst fold_right fst snd].
  - exact Hs.
  - apply upsert_sorted. apply IH. exact Hs.
Qed.

Lemma lookup_in_times : forall s t v, lookup t s = Some v -> In t (times s).
Proof.
  induction s as [|[t0 v0] r IH]; intros t v H; cbn [lookup] in H; [discriminate|].
  destruct (t =? t0) eqn:E; [left; cbn; lia|right; eapply IH; eauto].
Qed.

Lemma lookup_not_in : forall s t, ~ In t (times s) -> lookup t s = None.
Proof.
  induction s as [|[t0 v0] r IH]; intros t H; cbn [lookup]; [reflexivity|].
  destruct (t =? t0) eqn:E.
  - exfalso. apply H. left. cbn. lia.
  - apply IH. intro Hin. apply H. right. exact Hin.
Qed.

(* a time-sorted series is determined by its lookup function *)
Lemma sorted_lookup_ext : forall a b, sorted_lt (times a) -> sorted_lt (times b) ->
  (forall t, lookup t a = lookup t b) -> a = b.
Proof.
  induction a as [|[t1 v1] a' IH]; intros b Ha Hb Hext.
  - destruct b as [|[t2 v2] b']; [reflexivity|].
    specialize (Hext t2). cbn [lookup] in Hext. rewrite Z.eqb_refl in Hext. discriminate.
  - destruct b as [|[t2 v2] b'].
    + specialize (Hext t1). cbn [lookup] in Hext. rewrite Z.eqb_refl in Hext. discriminate.
    + cbn [times map fst] in Ha, Hb. fold (times a') in Ha. fold (times b') in Hb.
      assert (H1 : lookup t1 ((t2, v2) :: b') = Some v1).
      { rewrite <- Hext. cbn [lookup]. rewrite Z.eqb_refl. reflexivity. }
      assert (H2 : lookup t2 ((t1, v1) :: a') = Some v2).
      { rewrite Hext. cbn [lookup]. rewrite Z.eqb_refl. reflexivity. }
      assert (Ht : t1 = t2).
      { apply lookup_in_times in H1. apply lookup_in_times in H2.
        cbn [times map fst In] in H1, H2.
        destruct H1 as [H1|H1]; [lia|]. destruct H2 as [H2|H2]; [lia|].
        pose proof (sorted_lt_head_lt _ _ _ Hb H1). pose proof (sorted_lt_head_lt _ _ _ Ha H2). lia. }
      subst t2. cbn [lookup] in H1. rewrite Z.eqb_refl in H1. injection H1 as ->.
      f_equal. apply IH.
      * exact (sorted_lt_tail _ _ Ha).
      * exact (sorted_lt_tail _ _ Hb).
      * intro t. specialize (Hext t). cbn [lookup] in Hext.
        destruct (t =? t1) eqn:E; [|exact Hext].
        assert (t = t1) by lia. subst t.
        rewrite !lookup_not_in; [reflexivity| |].
        -- intro Hin. pose proof (sorted_lt_head_lt _ _ _ Hb Hin). lia.
        -- intro Hin. pose proof (sorted_lt_head_lt _ _ _ Ha Hin). lia.
Qed.

(* giving the same observations twice changes nothing *)
Lemma cfirst_idem : forall new old, sorted_lt (times old) ->
  cfirst new (cfirst new old) = cfirst new old.
Proof.
  intros new old Hs. apply sorted_lookup_ext.
  - apply cfirst_sorted, cfirst_sorted, Hs.
  - apply cfirst_sorted, Hs.
  - intro t. rewrite !cfirst_lookup. destruct (lookup t new); reflexivity.
Qed.

(* merging in two steps = merging the merged batch (later batch wins) *)
Lemma cfirst_assoc : forall b2 b1 old, sorted_lt (times old) -> sorted_lt (times b1) ->
  cfirst b2 (cfirst b1 old) = cfirst (cfirst b2 b1) old.
Proof.
  intros b2 b1 old Hs H1. apply sorted_lookup_ext.
  - apply cfirst_sorted, cfirst_sorted, Hs.
  - apply cfirst_sorted, Hs.
  - intro t. rewrite !cfirst_lookup. destruct (lookup t b2); [reflexivity|].
    destruct (lookup t b1); reflexivity.
Qed.

(* a batch that lies strictly after the remembered data is appended *)
Lemma upsert_after : forall s t v, (forall x, In x (times s) -> x < t) -> upsert t v s = s ++ [(t, v)].
Proof.
  induction s as [|[t0 v0] r IH]; intros t v H; cbn [upsert app]; [reflexivity|].
  assert (t0 < t) by (apply H; left; reflexivity).
  destruct (t <? t0) eqn:E1; [lia|]. destruct (t =? t0) eqn:E2; [lia|].
  f_equal. apply IH. intros x Hx. apply H. right. exact Hx.
Qed.

Lemma cfirst_append : forall new old, sorted_lt (times new) ->
  (forall x z, In x (times old) -> In z (times new) -> x < z) -> cfirst new old = old ++ new.
Proof.
  induction new as [|[t0 v0] r IH]; intros old Hs Hlt; cbn [cfirst fold_right fst snd].
  - rewrite app_nil_r. reflexivity.
  - fold (cfirst r old). rewrite IH.
    + assert (Hr : forall x, In x (times r) -> t0 < x).
      { intros x Hx. exact (sorted_lt_head_lt _ _ _ Hs Hx). }
      clear IH Hs. revert Hlt. induction old as [|[t1 v1] o IHo]; intros Hlt.
      * cbn [app]. destruct r as [|[t2 v2] r']; [reflexivity|].
        cbn [upsert]. assert (t0 < t2) by (apply Hr; left; reflexivity).
        destruct (t0 <? t2) eqn:E; [reflexivity|lia].
      * cbn [app upsert]. assert (t1 < t0) by (apply Hlt; left; reflexivity).
        destruct (t0 <? t1) eqn:E1; [lia|]. destruct (t0 =? t1) eqn:E2; [lia|].
        f_equal. apply IHo. intros x z Hx Hz. apply Hlt; [right; exact Hx|exact Hz].
    + exact (sorted_lt_tail _ _ Hs).
    + intros x z Hx Hz. apply Hlt; [exact Hx|right; exact Hz].
Qed.

(* ------------------------------------------------------------------------------------------- *)
(* Part 1b: aggregates *)

Lemma qmin2_spec a b : (qmin2 a b <= a)%Q /\ (qmin2 a b <= b)%Q /\ (qmin2 a b = a \/ qmin2 a b = b).
Proof.
  unfold qmin2. destruct (Qle_bool a b) eqn:E.
  - apply Qle_bool_iff in E. repeat split; [apply Qle_refl|exact E|left; reflexivity].
  - assert (~ (a <= b)%Q) by (intro H; apply Qle_bool_iff in H; congruence).
    repeat split; [apply Qlt_le_weak, Qnot_le_lt; assumption|apply Qle_refl|right; reflexivity].
Qed.

Lemma qmax2_spec a b : (a <= qmax2 a b)%Q /\ (b <= qmax2 a b)%Q /\ (qmax2 a b = a \/ qmax2 a b = b).
Proof.
  unfold qmax2. destruct (Qle_bool a b) eqn:E.
  - apply Qle_bool_iff in E. repeat split; [exact E|apply Qle_refl|right; reflexivity].
  - assert (~ (a <= b)%Q) by (intro H; apply Qle_bool_iff in H; congruence).
    repeat split; [apply Qle_refl|apply Qlt_le_weak, Qnot_le_lt; assumption|left; reflexivity].
Qed.

Lemma fold_qmin2 : forall l x, In (fold_left qmin2 l x) (x :: l) /\
  forall z, In z (x :: l) -> (fold_left qmin2 l x <= z)%Q.
Proof.
  induction l as [|y r IH]; intros x; cbn [fold_left].
  - split; [left; reflexivity|]. intros z [<-|[]]. apply Qle_refl.
  - destruct (IH (qmin2 x y)) as [Hin Hle]. destruct (qmin2_spec x y) as [Hx [Hy Hc]]. split.
    + destruct Hin as [Hin|Hin].
      * rewrite <- Hin. destruct Hc as [->| ->]; [left; reflexivity|right; left; reflexivity].
      * right. right. exact Hin.
    + intros z [<-|[<-|Hz]].
      * eapply Qle_trans; [apply Hle; left; reflexivity|exact Hx].
      * eapply Qle_trans; [apply Hle; left; reflexivity|exact Hy].
      * apply Hle. right. exact Hz.
Qed.

Lemma fold_qmax2 : forall l x, In (fold_left qmax2 l x) (x :: l) /\
  forall z, In z (x :: l) -> (z <= fold_left qmax2 l x)%Q.
Proof.
  induction l as [|y r IH]; intros x; cbn [fold_left].
  - split; [left; reflexivity|]. intros z [<-|[]]. apply Qle_refl.
  - destruct (IH (qmax2 x y)) as [Hin Hle]. destruct (qmax2_spec x y) as [Hx [Hy Hc]]. split.
    + destruct Hin as [Hin|Hin].
      * rewrite <- Hin. destruct Hc as [->| ->]; [left; reflexivity|right; left; reflexivity].
      * right. right. exact Hin.
    + intros z [<-|[<-|Hz]].
      * eapply Qle_trans; [exact Hx|apply Hle; left; reflexivity].
      * eapply Qle_trans; [exact Hy|apply Hle; left; reflexivity].
      * apply Hle. right. exact Hz.
Qed.

(* min / max: a member's value, below / above every member's value *)
Lemma agg_min_spec l : l <> [] -> In (aggf AMin l) l /\ forall z, In z l -> (aggf AMin l <= z)%Q.
Proof. destruct l as [|x r]; [congruence|]. intros _. cbn [aggf qmin_list]. apply fold_qmin2. Qed.
Lemma agg_max_spec l : l <> [] -> In (aggf AMax l) l /\ forall z, In z l -> (z <= aggf AMax l)%Q.
Proof. destruct l as [|x r]; [congruence|]. intros _. cbn [aggf qmax_list]. apply fold_qmax2. Qed.

(* mean: times the number of members it is the sum *)
Lemma agg_mean_spec l : l <> [] -> (aggf AMean l * qlen l == qsum l)%Q.
Proof.
  intro H. cbn [aggf]. unfold qmean. field. unfold qlen.
  destruct l as [|x r]; [congruence|]. cbn [length].
  intro E. assert (E' : inject_Z (Z.of_nat (S (length r))) == inject_Z 0) by exact E.
  rewrite inject_Z_injective in E'. lia.
Qed.

(* median: middle of the sorted values *)
Lemma qinsert_perm x l : Permutation (x :: l) (qinsert x l).
Proof.
  induction l as [|y r IH]; cbn [qinsert]; [apply Permutation_refl|].
  destruct (Qle_bool x y); [apply Permutation_refl|].
  eapply Permutation_trans; [apply perm_swap|]. apply perm_skip. exact IH.
Qed.
Lemma qsort_perm l : Permutation l (qsort l).
Proof.
  induction l as [|x r IH]; cbn [qsort fold_right]; [apply Permutation_refl|].
  eapply Permutation_trans; [apply perm_skip; exact IH|]. apply qinsert_perm.
Qed.
Lemma qinsert_sorted x l : LocallySorted Qle l -> LocallySorted Qle (qinsert x l).
Proof.
  induction 1 as [|a|a b r Hs IH Hab]; cbn [qinsert].
  - constructor.
  - destruct (Qle_bool x a) eqn:E.
    + constructor; [constructor|apply Qle_bool_iff; exact E].
    + constructor; [constructor|].
      apply Qlt_le_weak, Qnot_le_lt. intro H. apply Qle_bool_iff in H. congruence.
  - destruct (Qle_bool x a) eqn:E.
    + constructor; [constructor; assumption|apply Qle_bool_iff; exact E].
    + cbn [qinsert] in IH. destruct (Qle_bool x b) eqn:E2.
      * constructor; [exact IH|].
        apply Qlt_le_weak, Qnot_le_lt. intro H. apply Qle_bool_iff in H. congruence.
      * constructor; [exact IH|exact Hab].
Qed.
Lemma qsort_sorted l : LocallySorted Qle (qsort l).
Proof.
  induction l as [|x r IH]; cbn [qsort fold_right]; [constructor|]. apply qinsert_sorted. exact IH.
Qed.
Lemma agg_median_spec l : exists s, Permutation l s /\ LocallySorted Qle s /\
  (Nat.even (length l) = false -> aggf AMedian l = nth (length l / 2) s 0%Q) /\
  (Nat.even (length l) = true ->
   aggf AMedian l = ((nth (length l / 2 - 1) s 0 + nth (length l / 2) s 0) / 2)%Q).
Proof.
  exists (qsort l). split; [apply qsort_perm|]. split; [apply qsort_sorted|].
  assert (E : length (qsort l) = length l) by (symmetry; apply Permutation_length, qsort_perm).
  cbn [aggf]. unfold qmedian. rewrite E. split; intros ->; reflexivity.
Qed.

(* rows: row i holds the i-th entry of every member's forecast *)
Lemma rows_nth : forall n ps i, (i < n)%nat ->
  nth i (rows n ps) [] = map (fun p => nth i p 0%Q) ps.
Proof.
  induction n as [|k IH]; intros ps i Hi; [lia|]. cbn [rows].
  destruct i as [|j]; cbn [nth].
  - apply map_ext. intros [|a p]; reflexivity.
  - rewrite IH by lia. rewrite map_map. apply map_ext. intros [|a p]; [destruct j|]; reflexivity.
Qed.
Lemma rows_length : forall n ps, length (rows n ps) = n.
Proof. induction n as [|k IH]; intros ps; cbn [rows length]; [reflexivity|]. rewrite IH. reflexivity. Qed.

Lemma combine_nth_snd {A B} : forall (l : list A) (l' : list B) i d',
  length l = length l' -> nth i (map snd (List.combine l l')) d' = nth i l' d'.
Proof.
  induction l as [|a l IH]; intros [|b l'] i d' H; try discriminate; [reflexivity|].
  cbn. destruct i; [reflexivity|]. apply (IH l' i d'). cbn in H. lia.
Qed.
Lemma combine_map_fst {A B} : forall (l : list A) (l' : list B),
  length l = length l' -> map fst (List.combine l l') = l.
Proof.
  induction l as [|a l IH]; intros [|b l'] H; try discriminate; [reflexivity|].
  cbn. f_equal. apply IH. cbn in H. lia.
Qed.

(* the aggregate series: time stamps of the first member, value i = aggregate over the members'
   i-th forecasts *)
Lemma agg_series_pointwise a p0 ps i : (i < length p0)%nat ->
  times (agg_series a (p0 :: ps)) = times p0 /\
  nth i (vals (agg_series a (p0 :: ps))) 0%Q = aggf a (map (fun p => nth i (vals p) 0%Q) (p0 :: ps)).
Proof.
  intro Hi. unfold agg_series.
  assert (L : length (times p0) = length (map (aggf a) (rows (length p0) (map vals (p0 :: ps))))).
  { unfold times. rewrite !map_length, rows_length. reflexivity. }
  split.
  - unfold times at 1. apply combine_map_fst. exact L.
  - unfold vals at 1. rewrite (combine_nth_snd _ _ i 0%Q L).
    rewrite (nth_indep _ 0%Q (aggf a [])) by (rewrite map_length, rows_length; exact Hi).
    rewrite map_nth. f_equal. rewrite rows_nth by exact Hi. rewrite map_map. reflexivity.
Qed.

(* ------------------------------------------------------------------------------------------- *)
(* Part 2: composites, for all leaf semantics *)

Section SemProofs.
  Variable leaf : Type.
  Variable lpar : Type.
  Variable lfit : leaf -> series -> lpar.
  Variable lpred : leaf -> lpar -> series -> Z -> Z -> Q.
  Variable tr : Type.
  Variable tpar : Type.
  Variable tfit : tr -> series -> tpar.
  Variable tupd : tr -> tpar -> series -> bool -> tpar.
  Variable tapp : tr -> tpar -> series -> series.
  Variable tinv : tr -> tpar -> series -> series.
  Variable tskip : tr -> bool.
  Variable thasupd : tr -> bool.
  Variable reg : Type.
  Variable rpar : Type.
  Variable rfit : reg -> list (list Q) -> list Q -> rpar.
  Variable rpred : reg -> rpar -> list Q -> Q.

  Local Notation fcT := (fc leaf tr reg).
  Local Notation stT := (st leaf lpar tr tpar reg rpar).
  Local Notation tstateT := (tstate tr tpar).
  Local Notation fit' := (fit leaf lpar lfit lpred tr tpar tfit tapp tinv tskip reg rpar rfit rpred).
  Local Notation predict' := (predict leaf lpar lpred tr tpar tinv tskip reg rpar rpred).
  Local Notation update' := (update leaf lpar lfit tr tpar tupd tapp thasupd reg rpar).
  Local Notation after' := (after_updates leaf lpar lfit tr tpar tupd tapp thasupd reg rpar).
  Local Notation state' :=
    (state_after leaf lpar lfit lpred tr tpar tfit tupd tapp tinv tskip thasupd reg rpar rfit rpred).
  Local Notation forecast' :=
    (forecast_after leaf lpar lfit lpred tr tpar tfit tupd tapp tinv tskip thasupd reg rpar rfit
                    rpred).
  Local Notation run' :=
    (run leaf lpar lfit lpred tr tpar tfit tupd tapp tinv tskip thasupd reg rpar rfit rpred).
  Local Notation run_ups' :=
    (run_ups leaf lpar lfit lpred tr tpar tupd tapp tinv tskip thasupd reg rpar rpred).
  Local Notation fit_chain' := (fit_chain tr tpar tfit tapp).
  Local Notation upd_chain' := (upd_chain tr tpar tupd tapp thasupd).
  Local Notation inv_chain' := (inv_chain tr tpar tinv tskip).
  Local Notation SEns' := (SEns leaf lpar tr tpar reg rpar).
  Local Notation SPipe' := (SPipe leaf lpar tr tpar reg rpar).
  Local Notation SMux' := (SMux leaf lpar tr tpar reg rpar).
  Local Notation SStack' := (SStack leaf lpar tr tpar reg rpar).
  Local Notation SLeaf' := (SLeaf leaf lpar tr tpar reg rpar).
  Local Notation Ens' := (Ens leaf tr reg).
  Local Notation Pipe' := (Pipe leaf tr reg).
  Local Notation Mux' := (Mux leaf tr reg).
  Local Notation Stack' := (Stack leaf tr reg).
  Local Notation Leaf' := (Leaf leaf tr reg).

  (* the composite's own memory / cutoff after a list of updates *)
  Definition base_after (b : base) (ups : list upd) : base :=
    fold_left (fun b u => base_upd b (fst u)) ups b.

  (* ---------------- ensemble ---------------- *)

  Lemma ens_after : forall ups a b sts,
    after' (SEns' a b sts) ups = SEns' a (base_after b ups) (map (fun s => after' s ups) sts).
  Proof.
    induction ups as [|[y up] r IH]; intros a b sts.
    - cbn. rewrite map_id. reflexivity.
    - unfold after_updates, base_after. cbn [fold_left fst snd update].
      fold (after' (SEns' a (base_upd b y) (map fst (map (fun m => update' m y up) sts))) r).
      rewrite IH. unfold base_after. f_equal. rewrite !map_map. reflexivity.
  Qed.

  Lemma ens_state a ms y fh ups :
    state' (Ens' a ms) y fh ups =
    SEns' a (base_after (base_fit y fh) ups) (map (fun m => state' m y fh ups) ms).
  Proof.
    unfold state_after. cbn [fit fst]. rewrite ens_after. f_equal. rewrite !map_map. reflexivity.
  Qed.

  (* the ensemble forecast, after fit and after any updates, is the pointwise aggregate of the
     forecasts of the members, each fitted and updated on the same data on its own *)
  Lemma ensemble_is_aggregate_of_members a ms y fh ups :
    forecast' (Ens' a ms) y fh ups = agg_series a (map (fun m => forecast' m y fh ups) ms).
  Proof.
    unfold forecast_after. rewrite ens_state. cbn [predict fst]. rewrite !map_map. reflexivity.
  Qed.

  (* no cross-talk: what the inner estimators of the ensemble receive during fit / update / predict
     is the concatenation, in member order, of what each member's inner estimators receive when
     that member is run alone on the same data *)
  Lemma ensemble_members_independent a ms y fh ups y' up :
    snd (fit' (Ens' a ms) y fh) = concat (map (fun m => snd (fit' m y fh)) ms) /\
    snd (update' (state' (Ens' a ms) y fh ups) y' up) =
      concat (map (fun m => snd (update' (state' m y fh ups) y' up)) ms) /\
    snd (predict' (state' (Ens' a ms) y fh ups)) =
      concat (map (fun m => snd (predict' (state' m y fh ups))) ms).
  Proof.
    split; [|split].
    - cbn [fit snd]. rewrite map_map. reflexivity.
    - rewrite ens_state. cbn [update snd]. rewrite !map_map. reflexivity.
    - rewrite ens_state. cbn [predict snd]. rewrite !map_map. reflexivity.
  Qed.

  (* ---------------- multiplexer ---------------- *)

  Lemma mux_run_ups : forall ups b s, run_ups' (SMux' b s) ups = run_ups' s ups.
  Proof.
    induction ups as [|[y up] r IH]; intros b s; [reflexivity|].
    cbn [run_ups update]. destruct (update' s y up) as [s' tc] eqn:E.
    cbn [predict]. destruct (predict' s') as [p tc2]. rewrite IH. reflexivity.
  Qed.

  (* a multiplexer produces, at every step of every history, the forecast of the selected member
     and sends its inner estimators exactly what the selected member run alone sends *)
  Lemma multiplex_is_selected sel ms m y fh ups :
    nth_error ms sel = Some m -> run' (Mux' sel ms) y fh ups = run' m y fh ups.
  Proof.
    intro H. unfold run. cbn [fit].
    rewrite (map_nth_error (fun m => fit' m y fh) sel ms H).
    destruct (fit' m y fh) as [s tc]. cbn [predict].
    destruct (predict' s) as [p tc2]. rewrite mux_run_ups. reflexivity.
  Qed.

  Lemma mux_after : forall ups b s, after' (SMux' b s) ups = SMux' (base_after b ups) (after' s ups).
  Proof.
    induction ups as [|[y up] r IH]; intros b s; [reflexivity|].
    unfold after_updates, base_after. cbn [fold_left fst snd update].
    destruct (update' s y up) as [s' tc] eqn:E. cbn [fst].
    fold (after' (SMux' (base_upd b y) s') r). rewrite IH. reflexivity.
  Qed.

  (* ... and its state is the selected member's state next to its own memory *)
  Lemma multiplex_state sel ms m y fh ups :
    nth_error ms sel = Some m ->
    state' (Mux' sel ms) y fh ups = SMux' (base_after (base_fit y fh) ups) (state' m y fh ups).
  Proof.
    intro H. unfold state_after. cbn [fit].
    rewrite (map_nth_error (fun m => fit' m y fh) sel ms H).
    destruct (fit' m y fh) as [s tc]. cbn [fst]. apply mux_after.
  Qed.

  (* ---------------- pipeline ---------------- *)

  (* declarative chain: transformer i is fitted on the series as transformed by 1..i-1 *)
  Inductive fitted_chain : list (Z * tr) -> series -> list tstateT -> series -> Prop :=
    | fc_nil y : fitted_chain [] y [] y
    | fc_cons g t ts y fs yf :
        fitted_chain ts (tapp t (tfit t y) y) fs yf ->
        fitted_chain ((g, t) :: ts) y ((g, t, tfit t y) :: fs) yf.

  (* T_k(... T_1(y)) for fitted transformers *)
  Fixpoint fwd (fs : list tstateT) (y : series) : series :=
    match fs with
    | [] => y
    | (_, t, p) :: r => fwd r (tapp t p y)
    end.

  (* T_1^-1(... T_k^-1(yp)), leaving out the transformers tagged skip-inverse-transform *)
  Fixpoint inv_spec (fs : list tstateT) (yp : series) : series :=
    match fs with
    | [] => yp
    | (_, t, p) :: r => let z := inv_spec r yp in if tskip t then z else tinv t p z
    end.

  Lemma fit_chain_acc : forall ts fs0 y0 tc0,
    exists fs yt tc, fold_left (fit_step tr tpar tfit tapp) ts (fs0, y0, tc0) = (fs0 ++ fs, yt, tc0 ++ tc) /\
                     fitted_chain ts y0 fs yt.
  Proof.
    induction ts as [|[g t] r IH]; intros fs0 y0 tc0.
    - exists [], y0, []. rewrite !app_nil_r. split; [reflexivity|constructor].
    - cbn [fold_left fit_step].
      destruct (IH (fs0 ++ [(g, t, tfit t y0)]) (tapp t (tfit t y0) y0)
                   (tc0 ++ [ETFit g y0; ETransform g y0])) as [fs [yt [tc [E Hc]]]].
      exists ((g, t, tfit t y0) :: fs), yt, ([ETFit g y0; ETransform g y0] ++ tc).
      split; [|constructor; exact Hc].
      eapply eq_trans; [exact E|]. rewrite <- !app_assoc. reflexivity.
  Qed.

  Lemma fitted_chain_fwd : forall ts y fs yt, fitted_chain ts y fs yt -> yt = fwd fs y.
  Proof. induction 1; cbn [fwd]; [reflexivity|assumption]. Qed.

  Lemma inv_chain_spec : forall fs yp, fst (inv_chain' fs yp) = inv_spec fs yp.
  Proof.
    intros fs yp. unfold inv_chain.
    assert (G : forall l acc tc, fst (fold_left (inv_step tr tpar tinv tskip) l (acc, tc)) =
                            fold_left (fun z s => let '(_, t, p) := s in
                                                  if tskip t then z else tinv t p z) l acc).
    { induction l as [|[[g t] p] r IH]; intros acc tc; [reflexivity|].
      cbn [fold_left inv_step]. destruct (tskip t); apply IH. }
    rewrite G. rewrite <- fold_left_rev_right. rewrite rev_involutive.
    induction fs as [|[[g t] p] r IH]; [reflexivity|].
    cbn [fold_right inv_spec]. rewrite IH. reflexivity.
  Qed.

  (* fit: each transformer fitted in order on the running transform, the final forecaster fitted on
     the fully transformed series; predict: inverse transforms in reverse order, skipping tagged *)
  Lemma fit_chain_eq ts y : exists fs tc,
    fit_chain' ts y = (fs, fwd fs y, tc) /\ fitted_chain ts y fs (fwd fs y).
  Proof.
    destruct (fit_chain_acc ts [] y []) as [fs [yt [tc [E Hc]]]].
    pose proof (fitted_chain_fwd _ _ _ _ Hc) as Hy. subst yt.
    exists fs, tc. split; [exact E|exact Hc].
  Qed.

  Lemma pipeline_is_chain ts f y fh :
    exists fs, fitted_chain ts y fs (fwd fs y) /\
      fst (fit' (Pipe' ts f) y fh) = SPipe' (base_fit y fh) fs (fst (fit' f (fwd fs y) fh)) /\
      forecast' (Pipe' ts f) y fh [] = inv_spec fs (forecast' f (fwd fs y) fh []).
  Proof.
    destruct (fit_chain_eq ts y) as [fs [tc [E Hc]]].
    exists fs. split; [exact Hc|].
    unfold forecast_after, state_after, after_updates. cbn [fold_left fit].
    rewrite E.
    destruct (fit' f (fwd fs y) fh) as [s tc2]. cbn [fst]. split; [reflexivity|].
    cbn [predict]. destruct (predict' s) as [yp tcp]. cbn [fst].
    rewrite <- inv_chain_spec. destruct (inv_chain' fs yp). reflexivity.
  Qed.

  (* update of the transformer chain, declaratively: step i is updated with (when it has an update
     method) and then transforms the batch as transformed by the updated steps before it *)
  Fixpoint upd_spec (up : bool) (fs : list tstateT) (y : series) : list tstateT :=
    match fs with
    | [] => []
    | (g, t, p) :: r =>
        let p' := if thasupd t then tupd t p y up else p in
        (g, t, p') :: upd_spec up r (tapp t p' y)
    end.

  Lemma upd_chain_acc : forall up fs fs0 y0 tc0,
    exists tc, fold_left (upd_step tr tpar tupd tapp thasupd up) fs (fs0, y0, tc0) =
               (fs0 ++ upd_spec up fs y0, fwd (upd_spec up fs y0) y0, tc0 ++ tc).
  Proof.
    induction fs as [|[[g t] p] r IH]; intros fs0 y0 tc0.
    - exists []. cbn. rewrite !app_nil_r. reflexivity.
    - cbn [fold_left upd_step upd_spec fwd].
      set (p' := if thasupd t then tupd t p y0 up else p).
      destruct (IH (fs0 ++ [(g, t, p')]) (tapp t p' y0)
                   (tc0 ++ (if thasupd t then [ETUpdate g y0 up] else []) ++ [ETransform g y0]))
        as [tc E].
      exists (((if thasupd t then [ETUpdate g y0 up] else []) ++ [ETransform g y0]) ++ tc).
      eapply eq_trans; [exact E|]. rewrite <- !app_assoc. reflexivity.
  Qed.

  Lemma upd_chain_spec up fs y :
    fst (upd_chain' up fs y) = (upd_spec up fs y, fwd (upd_spec up fs y) y).
  Proof.
    unfold upd_chain. destruct (upd_chain_acc up fs [] y []) as [tc E].
    eapply eq_trans; [apply (f_equal fst); exact E|]. reflexivity.
  Qed.

  (* the history seen by the final forecaster: batch j arrives as T^j_k(...T^j_1(batch j)) where
     T^j are the transformers as they are after their j-th update *)
  Fixpoint pipe_hist (fs : list tstateT) (ups : list upd) : list tstateT * list upd :=
    match ups with
    | [] => (fs, [])
    | ([], _) :: r => pipe_hist fs r       (* an empty batch is not passed on at all *)
    | (y, up) :: r =>
        let fs' := upd_spec up fs y in
        let '(fsn, r') := pipe_hist fs' r in
        (fsn, (fwd fs' y, up) :: r')
    end.

  Lemma pipe_hist_nonempty fs (y : series) up r : y <> [] ->
    pipe_hist fs (@cons upd (y, up) r) =
    (fst (pipe_hist (upd_spec up fs y) r),
     (fwd (upd_spec up fs y) y, up) :: snd (pipe_hist (upd_spec up fs y) r)).
  Proof.
    destruct y; [contradiction|]. intros _. cbn [pipe_hist].
    destruct (pipe_hist _ r). reflexivity.
  Qed.

  Lemma update_pipe_nonempty b fs s y up : y <> [] ->
    update' (SPipe' b fs s) y up =
    (let '(ts', yt, tc) := upd_chain' up fs y in
     let '(f', tc2) := update' s yt up in (SPipe' (base_upd b y) ts' f', tc ++ tc2)).
  Proof. destruct y; [contradiction|reflexivity]. Qed.

  Lemma pipe_after : forall ups b fs s,
    after' (SPipe' b fs s) ups =
    SPipe' (base_after b ups) (fst (pipe_hist fs ups)) (after' s (snd (pipe_hist fs ups))).
  Proof.
    induction ups as [|[y up] r IH]; intros b fs s; [reflexivity|].
    destruct y as [|p0 y0].
    { change (after' (SPipe' b fs s) (([], up) :: r)) with (after' (SPipe' b fs s) r).
      rewrite IH. reflexivity. }
    assert (Hy : p0 :: y0 <> []) by discriminate. revert Hy. generalize (p0 :: y0). intros y Hy.
    unfold after_updates at 1. cbn [fold_left fst snd]. rewrite (update_pipe_nonempty b fs s y up Hy).
    pose proof (upd_chain_spec up fs y) as E.
    destruct (upd_chain' up fs y) as [[fs' yt] tc]. cbn [fst] in E. injection E as -> ->.
    destruct (update' s (fwd (upd_spec up fs y) y) up) as [s' tc2] eqn:E2. cbn [fst].
    fold (after' (SPipe' (base_upd b y) (upd_spec up fs y) s') r). rewrite IH.
    rewrite (pipe_hist_nonempty fs y up r Hy).
    destruct (pipe_hist (upd_spec up fs y) r) as [fsn r'] eqn:E3.
    cbn [fst snd].
    change (after' s ((fwd (upd_spec up fs y) y, up) :: r')) with
      (after' (fst (update' s (fwd (upd_spec up fs y) y) up)) r').
    rewrite E2. reflexivity.
  Qed.

  (* after fit AND after every update the final forecaster has only ever been given data in the
     transformed representation: its state is that of the final forecaster run alone on
     fwd(fitted chain, y) and then updated with fwd(chain as updated, batch) for every batch *)
  Lemma pipeline_final_only_sees_transformed ts f y fh ups :
    exists fs0, fitted_chain ts y fs0 (fwd fs0 y) /\
      state' (Pipe' ts f) y fh ups =
      SPipe' (base_after (base_fit y fh) ups) (fst (pipe_hist fs0 ups))
             (state' f (fwd fs0 y) fh (snd (pipe_hist fs0 ups))).
  Proof.
    destruct (pipeline_is_chain ts f y fh) as [fs0 [Hc [Hs _]]].
    exists fs0. split; [exact Hc|]. unfold state_after. rewrite Hs. apply pipe_after.
  Qed.

  (* the same statement on the calls: during update(y, up) the final forecaster receives exactly
     the calls it would receive from update(fwd(updated chain, y), up), preceded only by
     transformer events; it never receives y itself unless the chain maps y to y *)
  Lemma pipeline_update_calls b fs s y up : y <> [] ->
    exists tc, (forall e, In e tc -> exists g z, e = ETransform g z \/ e = ETUpdate g z up) /\
      snd (update' (SPipe' b fs s) y up) = tc ++ snd (update' s (fwd (upd_spec up fs y) y) up).
  Proof.
    intros Hy. rewrite (update_pipe_nonempty b fs s y up Hy).
    assert (G : forall fs fs0 y0 tc0,
      (forall e, In e tc0 -> exists g z, e = ETransform g z \/ e = ETUpdate g z up) ->
      forall e, In e (snd (fold_left (upd_step tr tpar tupd tapp thasupd up) fs (fs0, y0, tc0))) ->
        exists g z, e = ETransform g z \/ e = ETUpdate g z up).
    { induction fs0 as [|[[g t] p] r IH]; intros fs1 y0 tc0 H0; [exact H0|].
      cbn [fold_left upd_step]. apply IH. intros e He.
      apply in_app_or in He. destruct He as [He|He]; [apply H0; exact He|].
      apply in_app_or in He. destruct He as [He|He].
      - destruct (thasupd t); [|destruct He]. destruct He as [<-|[]]. eauto.
      - destruct He as [<-|[]]. eauto. }
    pose proof (upd_chain_spec up fs y) as E.
    specialize (G fs [] y [] (fun e (H : In e []) => match H with end)).
    change (fold_left (upd_step tr tpar tupd tapp thasupd up) fs ([], y, []))
      with (upd_chain' up fs y) in G.
    destruct (upd_chain' up fs y) as [[fs' yt] tc].
    cbn [fst] in E. injection E as -> ->. cbn [snd] in G.
    destruct (update' s (fwd (upd_spec up fs y) y) up) as [s' tc2]. cbn [snd].
    exists tc. split; [exact G|reflexivity].
  Qed.

  (* the empty-batch rule: nothing is called, nothing changes *)
  Lemma pipeline_empty_batch_is_noop b fs s up :
    update' (SPipe' b fs s) [] up = (SPipe' b fs s, []).
  Proof. reflexivity. Qed.

  (* each transformer's update / transform input is the batch as transformed by the steps before *)
  Lemma upd_spec_nth : forall up fs y i g t p, nth_error fs i = Some (g, t, p) ->
    let yin := fwd (firstn i (upd_spec up fs y)) y in
    nth_error (upd_spec up fs y) i =
      Some (g, t, if thasupd t then tupd t p yin up else p).
  Proof.
    induction fs as [|[[g0 t0] p0] r IH]; intros y i g t p H; [destruct i; discriminate|].
    destruct i as [|j].
    - cbn in H. injection H as -> -> ->. reflexivity.
    - cbn [nth_error] in H. cbn [upd_spec firstn fwd nth_error]. apply IH. exact H.
  Qed.

  (* ---------------- stacking ---------------- *)

  Lemma stack_after : forall ups g r rp b sts,
    after' (SStack' g r rp b sts) ups =
    SStack' g r rp (base_after b ups) (map (fun s => after' s ups) sts).
  Proof.
    induction ups as [|[y up] l IH]; intros g r rp b sts.
    - cbn. rewrite map_id. reflexivity.
    - unfold after_updates, base_after. cbn [fold_left fst snd update].
      fold (after' (SStack' g r rp (base_upd b y) (map fst (map (fun m => update' m y up) sts))) l).
      rewrite IH. unfold base_after. f_equal. rewrite !map_map. reflexivity.
  Qed.

  Definition holdout_forecasts (ms : list fcT) (y : series) (fh : list Z) : list (list Q) :=
    rows (length fh)
         (map (fun m => vals (fst (predict' (fst (fit' m (stack_train y fh) fh))))) ms).

  (* the meta-regressor is trained once, on rows made of the members' forecasts when fitted on the
     series WITHOUT its last max(fh) points, against the values at cutoff'+fh inside that final
     window; the members are then fitted on all data; updates never retrain the meta-regressor *)
  Lemma stack_meta_trained_on_holdout g r ms y fh ups :
    state' (Stack' g r ms) y fh ups =
      SStack' g r (rfit r (holdout_forecasts ms y fh) (stack_ymeta y fh))
              (base_after (base_fit y fh) ups) (map (fun m => state' m y fh ups) ms) /\
    In (ERFit g (holdout_forecasts ms y fh) (stack_ymeta y fh)) (snd (fit' (Stack' g r ms) y fh)).
  Proof.
    split.
    - unfold state_after. cbn [fit fst]. rewrite stack_after. unfold holdout_forecasts.
      rewrite !map_map. reflexivity.
    - cbn [fit snd]. apply in_or_app. right. apply in_or_app. right. apply in_or_app. left.
      left. unfold holdout_forecasts. rewrite !map_map. reflexivity.
  Qed.

  (* the held-out window is the FINAL window and the members that produce the meta rows saw
     nothing of it: every training time is before every held-out time, the last held-out position
     is the last observation, and (consecutive time stamps) the held-out times are cutoff' + fh *)
  Lemma stack_holdout_is_final_unseen_window y fh :
    sorted_lt fh -> 1 <= zfirst fh -> fh <> [] -> zlast fh < Z.of_nat (length y) ->
    sorted_lt (times y) ->
    (forall t i, In t (times (stack_train y fh)) -> In i (stack_test_pos y fh) ->
                 t < nth i (times y) 0) /\
    last (stack_test_pos y fh) O = (length y - 1)%nat /\
    (forall i, In i (stack_test_pos y fh) -> (length (stack_train y fh) <= i < length y)%nat).
  Proof.
    intros Hfh H1 Hne Hlast Hy.
    assert (Hk : (holdout_k fh <= length y)%nat) by (unfold holdout_k; lia).
    assert (Hkpos : (1 <= holdout_k fh)%nat).
    { unfold holdout_k. pose proof (sorted_lt_last_max fh (zfirst fh) Hfh) as H.
      destruct fh as [|h0 r]; [congruence|]. specialize (H (or_introl eq_refl)).
      unfold zfirst in *. cbn [hd] in *. lia. }
    assert (Hlen : length (stack_train y fh) = (length y - holdout_k fh)%nat).
    { unfold stack_train. rewrite firstn_length. lia. }
    assert (Hpos : forall i, In i (stack_test_pos y fh) ->
                             (length y - holdout_k fh <= i < length y)%nat).
    { intros i Hi. unfold stack_test_pos in Hi. apply in_map_iff in Hi. destruct Hi as [h [<- Hh]].
      pose proof (sorted_lt_last_max fh h Hfh Hh). pose proof (sorted_lt_first_min fh h Hfh Hh).
      unfold holdout_k in *. lia. }
    split; [|split].
    - intros t i Ht Hi. specialize (Hpos i Hi).
      unfold stack_train, times in Ht. rewrite <- firstn_map in Ht. fold (times y) in Ht.
      (* sorted: element at position < n-k is below element at position >= n-k *)
      assert (G : forall l : list Z, sorted_lt l -> forall a b x, In x (firstn a l) -> (a <= b < length l)%nat ->
                  x < nth b l 0).
      { induction l as [|z l IHl]; intros Hs a b x Hx Hab; [destruct a; destruct Hx|].
        destruct a as [|a]; [destruct Hx|]. destruct b as [|b]; [lia|].
        cbn [firstn] in Hx. cbn [nth]. destruct Hx as [<-|Hx].
        - apply (sorted_lt_head_lt l z); [exact Hs|]. apply nth_In. cbn in Hab. lia.
        - apply (IHl (sorted_lt_tail _ _ Hs) a b x Hx). cbn in Hab. lia. }
      apply (G (times y) Hy (length y - holdout_k fh)%nat i t Ht).
      unfold times. rewrite map_length. lia.
    - unfold stack_test_pos.
      assert (L : forall (f : Z -> nat) l, l <> [] -> last (map f l) O = f (last l 0)).
      { intros f l. induction l as [|a l IHl]; [congruence|]. intros _.
        destruct l as [|b l]; [reflexivity|]. cbn [map]. cbn [map] in IHl.
        change (last (f a :: f b :: map f l) O) with (last (f b :: map f l) O).
        rewrite IHl by congruence. reflexivity. }
      rewrite L by exact Hne. fold (zlast fh). unfold holdout_k. lia.
    - intros i Hi. rewrite Hlen. apply Hpos. exact Hi.
  Qed.

End SemProofs.
