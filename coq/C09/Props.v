(* C09 property theorems: statements closed by `exact`, each followed (after the section) by
   Print Assumptions.  Every theorem holds for ALL leaf-forecaster, transformer and meta-regressor
   semantics (the section variables), all series, horizons and update histories. *)
From Coq Require Import ZArith QArith List Bool Permutation Sorted.
Require Import SkV.Lib.Base SkV.C09.Model SkV.C09.Cases SkV.C09.Proofs SkV.C09.SiteLib SkV.C09.Site
        SkV.C09.Bridge.
Import ListNotations.
Open Scope Z_scope.

Section Statements.
  Variable leaf : Type.
  Variable lpar : Type.
  Variable lfit : leaf -> series -> lpar.
  Variable lpred : leaf -> lpar -> series -> Z -> Z -> Q.
  Variable tr : Type.
  Variable tpar : Type.
  Variable tfit : tr -> series -> tpar.
  Variable tupd : tr -> tpar -> series -> bool -> tpar.
  Variable tapp : tr -> tpar -> series -> series.
  Variable tinv : tr -> tpar -> series -> series.
  Variable tskip : tr -> bool.
  Variable thasupd : tr -> bool.
  Variable reg : Type.
  Variable rpar : Type.
  Variable rfit : reg -> list (list Q) -> list Q -> rpar.
  Variable rpred : reg -> rpar -> list Q -> Q.

  Local Notation fit' := (fit leaf lpar lfit lpred tr tpar tfit tapp tinv tskip reg rpar rfit rpred).
  Local Notation predict' := (predict leaf lpar lpred tr tpar tinv tskip reg rpar rpred).
  Local Notation update' := (update leaf lpar lfit tr tpar tupd tapp thasupd reg rpar).
  Local Notation state' :=
    (state_after leaf lpar lfit lpred tr tpar tfit tupd tapp tinv tskip thasupd reg rpar rfit rpred).
  Local Notation forecast' :=
    (forecast_after leaf lpar lfit lpred tr tpar tfit tupd tapp tinv tskip thasupd reg rpar rfit
                    rpred).
  Local Notation run' :=
    (run leaf lpar lfit lpred tr tpar tfit tupd tapp tinv tskip thasupd reg rpar rfit rpred).
  Local Notation SEns' := (SEns leaf lpar tr tpar reg rpar).
  Local Notation SPipe' := (SPipe leaf lpar tr tpar reg rpar).
  Local Notation SMux' := (SMux leaf lpar tr tpar reg rpar).
  Local Notation SStack' := (SStack leaf lpar tr tpar reg rpar).
  Local Notation Ens' := (Ens leaf tr reg).
  Local Notation Pipe' := (Pipe leaf tr reg).
  Local Notation Mux' := (Mux leaf tr reg).
  Local Notation Stack' := (Stack leaf tr reg).
  Local Notation fitted_chain' := (fitted_chain tr tpar tfit tapp).
  Local Notation fwd' := (fwd tr tpar tapp).
  Local Notation inv_spec' := (inv_spec tr tpar tinv tskip).
  Local Notation upd_spec' := (upd_spec tr tpar tupd tapp thasupd).
  Local Notation pipe_hist' := (pipe_hist tr tpar tupd tapp thasupd).
  Local Notation holdout_forecasts' :=
    (holdout_forecasts leaf lpar lfit lpred tr tpar tfit tapp tinv tskip reg rpar rfit rpred).

  (* An ensemble forecast equals the chosen aggregate of the forecasts of its independently fitted
     members - after fit alone (ups = []) and after fit followed by any updates. *)
  Theorem C09_ensemble_is_aggregate_of_members : forall a ms y fh ups,
    forecast' (Ens' a ms) y fh ups = agg_series a (map (fun m => forecast' m y fh ups) ms).
  Proof. exact (ensemble_is_aggregate_of_members leaf lpar lfit lpred tr tpar tfit tupd tapp tinv
                  tskip thasupd reg rpar rfit rpred). Qed.

  (* "independently": the calls the ensemble makes into its inner estimators are, member by member,
     the calls each member makes when run alone on the same data (fit, every update, predict). *)
  Theorem C09_ensemble_members_independent : forall a ms y fh ups y' up,
    snd (fit' (Ens' a ms) y fh) = concat (map (fun m => snd (fit' m y fh)) ms) /\
    snd (update' (state' (Ens' a ms) y fh ups) y' up) =
      concat (map (fun m => snd (update' (state' m y fh ups) y' up)) ms) /\
    snd (predict' (state' (Ens' a ms) y fh ups)) =
      concat (map (fun m => snd (predict' (state' m y fh ups))) ms).
  Proof. exact (ensemble_members_independent leaf lpar lfit lpred tr tpar tfit tupd tapp tinv tskip
                  thasupd reg rpar rfit rpred). Qed.

  (* A transformed-target pipeline: each transformer fitted in order on the running transform, the
     final forecaster fitted on the fully transformed series, the forecast mapped back by the
     inverse transforms in reverse order, skipping those tagged skip-inverse-transform. *)
  Theorem C09_pipeline_is_chain : forall ts f y fh,
    exists fs, fitted_chain' ts y fs (fwd' fs y) /\
      fst (fit' (Pipe' ts f) y fh) = SPipe' (base_fit y fh) fs (fst (fit' f (fwd' fs y) fh)) /\
      forecast' (Pipe' ts f) y fh [] = inv_spec' fs (forecast' f (fwd' fs y) fh []).
  Proof. exact (pipeline_is_chain leaf lpar lfit lpred tr tpar tfit tupd tapp tinv tskip thasupd
                  reg rpar rfit rpred). Qed.

  (* The final forecaster is only ever fitted or updated with data in the transformed
     representation: after ANY history its state is the one it reaches when run alone on
     fwd(chain, y) and updated with fwd(chain as updated so far, batch) for every non-empty batch
     (pipe_hist drops empty batches: the pipeline returns before calling anything, see
     C09_pipeline_empty_batch_is_noop). *)
  Theorem C09_pipeline_final_only_sees_transformed : forall ts f y fh ups,
    exists fs0, fitted_chain' ts y fs0 (fwd' fs0 y) /\
      state' (Pipe' ts f) y fh ups =
      SPipe' (base_after (base_fit y fh) ups) (fst (pipe_hist' fs0 ups))
             (state' f (fwd' fs0 y) fh (snd (pipe_hist' fs0 ups))).
  Proof. exact (pipeline_final_only_sees_transformed leaf lpar lfit lpred tr tpar tfit tupd tapp
                  tinv tskip thasupd reg rpar rfit rpred). Qed.

  (* ... and on the calls: an update of the pipeline sends transformer events only, followed by
     exactly the calls of final.update(fwd(updated chain, batch)). *)
  Theorem C09_pipeline_update_calls : forall b fs s y up, y <> [] ->
    exists tc, (forall e, In e tc -> exists g z, e = ETransform g z \/ e = ETUpdate g z up) /\
      snd (update' (SPipe' b fs s) y up) = tc ++ snd (update' s (fwd' (upd_spec' up fs y) y) up).
  Proof. exact (pipeline_update_calls leaf lpar lfit tr tpar tupd tapp thasupd reg rpar). Qed.

  (* the empty-batch rule of TransformedTargetForecaster.update: no inner estimator is called and
     nothing changes (the own data ignore an empty batch as well) *)
  Theorem C09_pipeline_empty_batch_is_noop : forall b fs s up,
    update' (SPipe' b fs s) [] up = (SPipe' b fs s, []).
  Proof. exact (pipeline_empty_batch_is_noop leaf lpar lfit tr tpar tupd tapp thasupd reg rpar). Qed.

  (* each pipeline step is updated with the batch as transformed by the (updated) steps before it *)
  Theorem C09_pipeline_step_receives_running_transform : forall up fs y i g t p,
    nth_error fs i = Some (g, t, p) ->
    nth_error (upd_spec' up fs y) i =
      Some (g, t, if thasupd t then tupd t p (fwd' (firstn i (upd_spec' up fs y)) y) up else p).
  Proof. exact (upd_spec_nth tr tpar tupd tapp thasupd). Qed.

  (* A multiplexer behaves exactly like its selected member: same forecasts and same calls into
     the inner estimators at every step of every history; the other members are never touched. *)
  Theorem C09_multiplex_is_selected : forall sel ms m y fh ups,
    nth_error ms sel = Some m -> run' (Mux' sel ms) y fh ups = run' m y fh ups.
  Proof. exact (multiplex_is_selected leaf lpar lfit lpred tr tpar tfit tupd tapp tinv tskip thasupd
                  reg rpar rfit rpred). Qed.

  Theorem C09_multiplex_state : forall sel ms m y fh ups,
    nth_error ms sel = Some m ->
    state' (Mux' sel ms) y fh ups = SMux' (base_after (base_fit y fh) ups) (state' m y fh ups).
  Proof. exact (multiplex_state leaf lpar lfit lpred tr tpar tfit tupd tapp tinv tskip thasupd
                  reg rpar rfit rpred). Qed.

  (* A stacking forecaster trains its meta-regressor only on member forecasts made by members
     fitted on the series without its last max(fh) points, against the values held out there; the
     members are then fitted on all data, and no update ever retrains the meta-regressor. *)
  Theorem C09_stack_meta_trained_on_holdout : forall g r ms y fh ups,
    state' (Stack' g r ms) y fh ups =
      SStack' g r (rfit r (holdout_forecasts' ms y fh) (stack_ymeta y fh))
              (base_after (base_fit y fh) ups) (map (fun m => state' m y fh ups) ms) /\
    In (ERFit g (holdout_forecasts' ms y fh) (stack_ymeta y fh)) (snd (fit' (Stack' g r ms) y fh)).
  Proof. exact (stack_meta_trained_on_holdout leaf lpar lfit lpred tr tpar tfit tupd tapp tinv
                  tskip thasupd reg rpar rfit rpred). Qed.
  (* ---- through the bridge: the functions REGENERATED from the source on this run (Site.v, with the
     members tied to the model's recursion in Bridge.v) are the model's, at every kind of node ... *)
  Local Notation G_fit' :=
    (G_fit leaf lpar lfit lpred tr tpar tfit tupd tapp tinv tskip thasupd reg rpar rfit rpred).
  Local Notation G_update' :=
    (G_update leaf lpar lfit tr tpar tfit tupd tapp tinv tskip thasupd reg rpar rfit rpred).
  Local Notation G_predict' :=
    (G_predict leaf lpar lpred tr tpar tfit tupd tapp tinv tskip thasupd reg rpar rfit rpred).
  Local Notation G_state' :=
    (G_state leaf lpar lfit lpred tr tpar tfit tupd tapp tinv tskip thasupd reg rpar rfit rpred).

  Theorem C09_site_functions_are_the_model :
    (forall f y fh, G_fit' f y fh = fit' f y fh) /\
    (forall s y up, G_update' s y up = update' s y up) /\
    (forall s, G_predict' s = predict' s).
  Proof.
    exact (conj (bridge_fit leaf lpar lfit lpred tr tpar tfit tupd tapp tinv tskip thasupd reg rpar
                            rfit rpred)
          (conj (bridge_update leaf lpar lfit tr tpar tfit tupd tapp tinv tskip thasupd reg rpar rfit
                               rpred)
                (bridge_predict leaf lpar lpred tr tpar tfit tupd tapp tinv tskip thasupd reg rpar
                                rfit rpred))).
  Qed.

  (* ... hence the property's sentences hold of what the source says today: *)
  Theorem C09_site_ensemble_is_aggregate_of_members : forall a ms y fh ups,
    fst (G_predict' (G_state' (Ens' a ms) y fh ups)) =
    agg_series a (map (fun m => fst (G_predict' (G_state' m y fh ups))) ms).
  Proof. exact (site_ensemble_is_aggregate_of_members leaf lpar lfit lpred tr tpar tfit tupd tapp tinv
                  tskip thasupd reg rpar rfit rpred). Qed.

  Theorem C09_site_pipeline_is_chain : forall ts f y fh,
    exists fs, fitted_chain' ts y fs (fwd' fs y) /\
      fst (G_fit' (Pipe' ts f) y fh) = SPipe' (base_fit y fh) fs (fst (fit' f (fwd' fs y) fh)) /\
      fst (G_predict' (fst (G_fit' (Pipe' ts f) y fh))) =
        inv_spec' fs (fst (predict' (fst (fit' f (fwd' fs y) fh)))).
  Proof. exact (site_pipeline_is_chain leaf lpar lfit lpred tr tpar tfit tupd tapp tinv tskip thasupd
                  reg rpar rfit rpred). Qed.

  Theorem C09_site_multiplex_is_selected : forall sel ms m y fh ups,
    nth_error ms sel = Some m ->
    fst (G_predict' (G_state' (Mux' sel ms) y fh ups)) = fst (G_predict' (G_state' m y fh ups)).
  Proof. exact (site_multiplex_is_selected leaf lpar lfit lpred tr tpar tfit tupd tapp tinv tskip
                  thasupd reg rpar rfit rpred). Qed.

End Statements.

(* the held-out window is the final window and lies strictly after everything the members that
   produce the meta rows were fitted on *)
Theorem C09_stack_holdout_is_final_unseen_window : forall y fh,
  sorted_lt fh -> 1 <= zfirst fh -> fh <> [] -> zlast fh < Z.of_nat (length y) ->
  sorted_lt (times y) ->
  (forall t i, In t (times (stack_train y fh)) -> In i (stack_test_pos y fh) ->
               t < nth i (times y) 0) /\
  last (stack_test_pos y fh) O = (length y - 1)%nat /\
  (forall i, In i (stack_test_pos y fh) -> (length (stack_train y fh) <= i < length y)%nat).
Proof. exact stack_holdout_is_final_unseen_window. Qed.

(* the aggregates are what their names say *)
Theorem C09_aggregates : forall l, l <> [] ->
  (aggf AMean l * qlen l == qsum l)%Q /\
  (In (aggf AMin l) l /\ forall z, In z l -> (aggf AMin l <= z)%Q) /\
  (In (aggf AMax l) l /\ forall z, In z l -> (z <= aggf AMax l)%Q) /\
  (exists s, Permutation l s /\ LocallySorted Qle s /\
     (Nat.even (length l) = false -> aggf AMedian l = nth (length l / 2) s 0%Q) /\
     (Nat.even (length l) = true ->
      aggf AMedian l = ((nth (length l / 2 - 1) s 0 + nth (length l / 2) s 0) / 2)%Q)).
Proof.
  exact (fun l H => conj (agg_mean_spec l H) (conj (agg_min_spec l H) (conj (agg_max_spec l H)
                                                                     (agg_median_spec l)))).
Qed.

(* pointwise: value i of the aggregate series is the aggregate of the members' i-th forecasts *)
Theorem C09_aggregate_is_pointwise : forall a p0 ps i, (i < length p0)%nat ->
  times (agg_series a (p0 :: ps)) = times p0 /\
  nth i (vals (agg_series a (p0 :: ps))) 0%Q = aggf a (map (fun p => nth i (vals p) 0%Q) (p0 :: ps)).
Proof. exact agg_series_pointwise. Qed.

(* memory merge (combine_first): newer wins, union of the time points, sorted, idempotent *)
Theorem C09_merge_laws : forall new old,
  (forall t, lookup t (cfirst new old) =
             match lookup t new with Some v => Some v | None => lookup t old end) /\
  (forall x, In x (times (cfirst new old)) <-> In x (times new) \/ In x (times old)) /\
  (sorted_lt (times old) -> sorted_lt (times (cfirst new old))) /\
  (sorted_lt (times old) -> cfirst new (cfirst new old) = cfirst new old).
Proof.
  exact (fun new old => conj (cfirst_lookup new old) (conj (cfirst_times new old)
           (conj (cfirst_sorted new old) (cfirst_idem new old)))).
Qed.

Print Assumptions C09_ensemble_is_aggregate_of_members.
Print Assumptions C09_ensemble_members_independent.
Print Assumptions C09_pipeline_is_chain.
Print Assumptions C09_pipeline_final_only_sees_transformed.
Print Assumptions C09_pipeline_update_calls.
Print Assumptions C09_pipeline_empty_batch_is_noop.
Print Assumptions C09_site_functions_are_the_model.
Print Assumptions C09_site_ensemble_is_aggregate_of_members.
Print Assumptions C09_site_pipeline_is_chain.
Print Assumptions C09_site_multiplex_is_selected.
Print Assumptions C09_pipeline_step_receives_running_transform.
Print Assumptions C09_multiplex_is_selected.
Print Assumptions C09_multiplex_state.
Print Assumptions C09_stack_meta_trained_on_holdout.
Print Assumptions C09_stack_holdout_is_final_unseen_window.
Print Assumptions C09_aggregates.
Print Assumptions C09_aggregate_is_pointwise.
Print Assumptions C09_merge_laws.

(* Non-vacuity: a depth-2 composition (median ensemble of a two-step pipeline with a skip-inverse
   step, a leaf, and a stacking forecaster) run through fit and two updates (the second overlapping,
   without parameter update) in the concrete semantics of the recording doubles; the forecasts are
   the ones the real sktime classes returned for it; the hypotheses of the stacking theorem hold. *)
Definition ex_fc : cfc :=
  Ens _ _ _ AMedian
    [Pipe _ _ _ [(1, TAff (2 # 1) (1 # 1) (1 # 1) false true);
                 (2, TAff (4 # 1) (0 # 1) (0 # 1) true false)]
          (Leaf _ _ _ 3 (LRec (1 # 1) (1 # 1)));
     Leaf _ _ _ 4 (LRec (2 # 1) (0 # 1));
     Stack _ _ _ 7 RWsum [Leaf _ _ _ 5 LNaiveLast; Leaf _ _ _ 6 (LRec (0 # 1) (2 # 1))]].
Definition ex_y : series :=
  [(10, 1 # 1); (11, 2 # 1); (12, 4 # 1); (13, 8 # 1); (14, 3 # 1); (15, 5 # 1)].
Definition ex_ups : list (series * bool) :=
  [([(16, 7 # 1); (17, 9 # 1)], true); ([(17, 6 # 1); (18, 2 # 1)], false)].
Example C09_nonvacuous :
  list_close ser_close (map fst (c_run ex_fc ex_y [1; 3] ex_ups))
    [[(16, 51 # 1); (18, 51 # 1)]; [(18, 87 # 1); (20, 87 # 1)]; [(19, 80 # 1); (21, 80 # 1)]] = true /\
  sorted_lt [1; 3] /\ 1 <= zfirst [1; 3] /\ zlast [1; 3] < Z.of_nat (length ex_y) /\
  sorted_lt (times ex_y).
Proof. vm_compute. repeat split; congruence. Qed.
