(* C09 site vocabulary: what the calls that the composite classes make MEAN in the terms of
   Model.v.  The generated Site.v (translator/compose_c09.py) is written over these names only; it
   contains no semantics of its own.  Everything here is a definition over the same abstract kernels
   as Model.v (tfit / tupd / tapp / tinv / tskip / thasupd, rfit / rpred) and the same event
   constructors: a call to an inner estimator = its effect on that estimator's state + the event the
   estimator records.  Hand-written, small, and part of the trusted reading of the API:
     t.fit_transform(y)          = fit on y, then transform y               (BaseTransformer.fit_transform,
                                                                            shape-checked by the translator)
     t.update(y, update_params)  = tupd;  t.transform(y) = tapp;  t.inverse_transform(y) = tinv
     hasattr(t, "update")        = thasupd;  _has_tag(t, "skip-inverse-transform") = tskip
     reg.fit(X, y) / reg.predict(X), clone(x) = x (estimators are values here)
     pandas / numpy:  pd.concat(cols, axis=1) is the list of columns; frame.<reduction>(axis=1) is the
                      row-wise aggregate `agg_series`; np.column_stack of n-point columns = `rows n`;
                      pd.Series(values, index) = combine; y.iloc[positions]; .values
     SingleWindowSplitter(fh).split(y), first split = (positions 0 .. len(y)-max(fh)-1,
                      positions len(y)-max(fh)-1+h for h in fh)   [the splitter itself: property C01] *)
From Coq Require Import ZArith QArith List Bool.
Require Import SkV.Lib.Base SkV.C09.Model.
Import ListNotations.
Open Scope Z_scope.

(* ---- own data of every _SktimeForecaster: the fields of `base` ---- *)
Definition B_empty : base := {| mem := []; cut := 0; hor := [] |}.
Definition B_set_y (b : base) (y : series) : base := {| mem := y; cut := cut b; hor := hor b |}.
Definition B_set_cutoff (b : base) (c : Z) : base := {| mem := mem b; cut := c; hor := hor b |}.
Definition B_set_fh (b : base) (fh : list Z) : base := {| mem := mem b; cut := cut b; hor := fh |}.

Definition agg_eqb (a b : agg) : bool :=
  match a, b with
  | AMean, AMean | AMedian, AMedian | AMin, AMin | AMax, AMax => true
  | _, _ => false
  end.

(* ---- pandas / numpy ---- *)
Definition pd_concat_axis1 (cols : list series) : list series := cols.
(* frame.<r>(axis): axis 1 = across the columns, one value per row (time point);
   axis 0 = down each column, one value per column (labelled by the column number) *)
Definition pd_reduce (r : agg) (axis : Z) (frame : list series) : series :=
  if axis =? 1 then agg_series r frame
  else List.combine (map Z.of_nat (seq 0 (length frame))) (map (fun c => aggf r (vals c)) frame).
Definition np_column_stack (n : nat) (cols : list (list Q)) : list (list Q) := rows n cols.
Definition pd_Series (values : list Q) (index : list Z) : series := List.combine index values.
Definition fh_to_absolute (fh : list Z) (cutoff : Z) : list Z := map (fun h => cutoff + h) fh.
Definition iloc (y : series) (w : list nat) : series := map (fun i => nth i y (0, 0%Q)) w.

(* SingleWindowSplitter(fh=fh): the first (only) split of y, on positions *)
Definition SingleWindowSplitter (fh : list Z) : list Z := fh.
Definition sw_first_split (cv : list Z) (y : series) : list nat * list nat :=
  (seq 0 (length y - holdout_k cv), stack_test_pos y cv).

Section Api.
  Variable tr : Type.
  Variable tpar : Type.
  Variable tfit : tr -> series -> tpar.
  Variable tupd : tr -> tpar -> series -> bool -> tpar.
  Variable tapp : tr -> tpar -> series -> series.
  Variable tinv : tr -> tpar -> series -> series.
  Variable tskip : tr -> bool.
  Variable thasupd : tr -> bool.
  Variable reg : Type.
  Variable rpar : Type.
  Variable rfit : reg -> list (list Q) -> list Q -> rpar.
  Variable rpred : reg -> rpar -> list Q -> Q.

  Local Notation tstateT := (tstate tr tpar).

  (* series transformers: an unfitted one is (id, semantics), a fitted one (id, semantics, state) *)
  Definition T_fit_transform (gt : Z * tr) (y : series) : tstateT * series * trace :=
    let '(g, t) := gt in
    let p := tfit t y in
    ((g, t, p), tapp t p y, [ETFit g y; ETransform g y]).
  Definition T_hasattr_update (s : tstateT) : bool := let '(g, t, p) := s in thasupd t.
  Definition T_update (s : tstateT) (y : series) (up : bool) : tstateT * trace :=
    let '(g, t, p) := s in ((g, t, tupd t p y up), [ETUpdate g y up]).
  Definition T_transform (s : tstateT) (y : series) : series * trace :=
    let '(g, t, p) := s in (tapp t p y, [ETransform g y]).
  Definition T_inverse_transform (s : tstateT) (y : series) : series * trace :=
    let '(g, t, p) := s in (tinv t p y, [EInverse g y]).
  Definition T_has_skip_tag (s : tstateT) : bool := let '(g, t, p) := s in tskip t.

  (* the meta regressor: (id, semantics) resp. (id, semantics, fitted parameters) *)
  Definition R_fit (gr : Z * reg) (X : list (list Q)) (y : list Q) : (Z * reg * rpar) * trace :=
    let '(g, r) := gr in ((g, r, rfit r X y), [ERFit g X y]).
  Definition R_predict (f : Z * reg * rpar) (X : list (list Q)) : list Q * trace :=
    let '(g, r, rp) := f in (map (rpred r rp) X, [ERPredict g X]).
End Api.
