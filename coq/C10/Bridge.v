(* C10 bridge: the inherited forecaster methods REGENERATED on this run from
   sktime/forecasting/base/_sktime.py by translator/sktimebase_c10.py (build/coq/C10/Site.v:
   _set_cutoff, _set_y_X, _update_y_X, the optional-horizon _set_fh, update, predict,
   update_predict_single, _update_predict_single (base class and window-forecaster override),
   _predict_moving_cutoff inside _detached_cutoff, update_predict (base class and window-forecaster
   override)), instantiated at the leaf state of Model.v, ARE the hand-written model: mem_upd,
   set_fh, do_update, do_predict, do_ups, mc_step, default_cv, do_update_predict - for all
   kernels, states and arguments.

   Site.v is written over an abstract object (field accessors and the overridable methods are
   Section variables there).  Here the object is `fstate`, the accessors are its fields, and the
   overridable methods are what a leaf inherits:
     self.fit on an object marked unfitted  = fit_state (sets data, cutoff, horizon, parameters)
     self._set_fh                           = the regenerated optional-horizon mixin
     self.update                            = the regenerated _SktimeForecaster.update
     self._predict                          = the abstract kernel (read-only)
     self._update_predict_single            = the regenerated base-class method for a plain
                                              _SktimeForecaster (lsetsfh l = true), the regenerated
                                              override for a window forecaster (lsetsfh l = false).
   An edit of the source that changes the receiver / argument of combine_first, the cutoff
   assignment, the empty-batch test, the refit arguments or the unfitted mark, the order update ->
   predict, the horizon given to predict, the window of a single update, the place where the cutoff
   label is read, the try/finally of _detached_cutoff or the default splitter makes one of these
   lemmas fail (or the translator raise). *)
From Coq Require Import ZArith QArith List Bool Lia ZifyBool.
Require Import SkV.Lib.Base SkV.C09.Model SkV.C09.Proofs SkV.C10.Model SkV.C10.Proofs SkV.C10.Site.
Require SkV.C01.Model.
Import ListNotations.
Open Scope Z_scope.

Section Leaf.
  Variable leaf : Type.
  Variable lpar : Type.
  Variable lfit : leaf -> series -> lpar.
  Variable lpred : leaf -> lpar -> series -> Z -> Z -> Q.
  Variable lsetsfh : leaf -> bool.
  Variable ldefwl : leaf -> lpar -> Z.
  Variable l : leaf.

  Local Notation ST := (fstate lpar).
  Local Notation set_fh' := (set_fh lpar).
  Local Notation set_cut' := (set_cut lpar).
  Local Notation mem_upd' := (mem_upd lpar).
  Local Notation fit_state' := (fit_state leaf lpar lfit).
  Local Notation do_update' := (do_update leaf lpar lfit).
  Local Notation forecast' := (forecast leaf lpar lpred).
  Local Notation do_predict' := (do_predict leaf lpar lpred).
  Local Notation do_refit' := (do_refit leaf lpar lfit).
  Local Notation do_ups' := (do_ups leaf lpar lfit lpred).
  Local Notation mc_step' := (mc_step leaf lpar lfit lpred lsetsfh).
  Local Notation default_cv' := (default_cv leaf lpar lsetsfh ldefwl).
  Local Notation do_update_predict' := (do_update_predict leaf lpar lfit lpred lsetsfh ldefwl).

  (* ---- the object: fields of fstate ---- *)
  Definition L_set_y (s : ST) (y : series) : ST :=
    {| fmem := y; fcut := fcut lpar s; ffh := ffh lpar s; fpar := fpar lpar s |}.
  Definition L_set_fh (s : ST) (fh : option (list Z)) : ST :=
    {| fmem := fmem lpar s; fcut := fcut lpar s; ffh := fh; fpar := fpar lpar s |}.
  Definition L_window_length (s : ST) : Z := ldefwl l (fpar lpar s).
  (* ---- what the concrete leaf class provides ---- *)
  (* fit(y, X, fh) on an object marked unfitted: _set_y_X, _set_fh (keeps a stored horizon when none
     is passed: the caller hands over self._fh), fit the parameters *)
  Definition L_fit_fresh (s : ST) (y : series) (fh : option (list Z)) : ST * bool :=
    (fit_state' l y fh, true).
  (* ... on a fitted object the optional-horizon mixin insists on a horizon (Model.v: do_refit) *)
  Definition L_fit_again (s : ST) (y : series) (fh : option (list Z)) : ST * bool :=
    let '(s', b) := do_refit' l s y fh in (s', match b with BErr => false | _ => true end).
  Definition L_fit (fitted : bool) := if fitted then L_fit_again else L_fit_fresh.
  Definition L__predict (s : ST) (h : list Z) : ST * series := (s, forecast' l s h).

  (* ---- the regenerated methods at this object ---- *)
  Definition G_set_y_X := gen_set_y_X ST (fmem lpar) L_set_y (fcut lpar) set_cut' (ffh lpar) L_set_fh L_window_length.
  Definition G_update_y_X := gen_update_y_X ST (fmem lpar) L_set_y (fcut lpar) set_cut' (ffh lpar) L_set_fh L_window_length.
  Definition G_set_fh := gen_set_fh ST (fmem lpar) L_set_y (fcut lpar) set_cut' (ffh lpar) L_set_fh L_window_length.
  Definition G_update := gen_update ST (fmem lpar) L_set_y (fcut lpar) set_cut' (ffh lpar) L_set_fh L_window_length L_fit.
  Definition G_predict := gen_predict ST (fmem lpar) L_set_y (fcut lpar) set_cut' (ffh lpar) L_set_fh L_window_length G_set_fh L__predict.
  Definition G__ups_base :=
    gen__update_predict_single ST (fmem lpar) L_set_y (fcut lpar) set_cut' (ffh lpar) L_set_fh L_window_length G_set_fh G_update L__predict.
  Definition G__ups_window := genw__update_predict_single ST (fmem lpar) L_set_y (fcut lpar) set_cut' (ffh lpar) L_set_fh L_window_length G_update L__predict.
  (* virtual dispatch of self._update_predict_single *)
  Definition G__ups := if lsetsfh l then G__ups_base else G__ups_window.
  Definition G_update_predict_single :=
    gen_update_predict_single ST (fmem lpar) L_set_y (fcut lpar) set_cut' (ffh lpar) L_set_fh L_window_length G_set_fh G__ups.
  Definition G_predict_moving_cutoff :=
    gen_predict_moving_cutoff ST (fmem lpar) L_set_y (fcut lpar) set_cut' (ffh lpar) L_set_fh L_window_length G__ups.
  Definition G_update_predict_base :=
    gen_update_predict ST (fmem lpar) L_set_y (fcut lpar) set_cut' (ffh lpar) L_set_fh L_window_length G__ups.
  Definition G_update_predict_window :=
    genw_update_predict ST (fmem lpar) L_set_y (fcut lpar) set_cut' (ffh lpar) L_set_fh L_window_length G__ups.
  Definition G_update_predict := if lsetsfh l then G_update_predict_base else G_update_predict_window.

  Lemma fstate_eta (s : ST) :
    {| fmem := fmem lpar s; fcut := fcut lpar s; ffh := ffh lpar s; fpar := fpar lpar s |} = s.
  Proof. destruct s; reflexivity. Qed.

  (* _set_y_X: the data are remembered as given, the cutoff is their last time point; followed by
     the horizon and the parameters this is the state a fit leaves *)
  Theorem bridge_set_y_X s y :
    G_set_y_X s y = {| fmem := y; fcut := last_time y; ffh := ffh lpar s; fpar := fpar lpar s |}.
  Proof. reflexivity. Qed.

  Theorem bridge_fit_is_set_y_X_then_fh_then_parameters s y fh :
    fit_state' l y fh =
    (let s1 := L_set_fh (G_set_y_X s y) fh in
     {| fmem := fmem lpar s1; fcut := fcut lpar s1; ffh := ffh lpar s1; fpar := lfit l y |}).
  Proof. reflexivity. Qed.

  (* _update_y_X: new.combine_first(old), cutoff to the end of the new data, nothing for an empty
     batch *)
  Theorem bridge_update_y_X s y : G_update_y_X s y = mem_upd' s y.
  Proof.
    unfold G_update_y_X, gen_update_y_X, mem_upd, L_set_y, set_cut.
    destruct y as [|p y]; [cbn; reflexivity|].
    (* whichever way the source writes "the batch is (not) empty": decide the test, the impossible
       branch goes by arithmetic *)
    match goal with |- context [if ?c then _ else _] =>
      let E := fresh "E" in destruct c eqn:E; try (exfalso; cbn [length] in E; lia) end.
    reflexivity.
  Qed.

  (* the optional-horizon mixin on a fitted forecaster: a given horizon is stored; none given and
     none stored raises *)
  Theorem bridge_set_fh s fh :
    G_set_fh true s fh =
    (set_fh' s fh, match ffh lpar (set_fh' s fh) with Some _ => true | None => false end).
  Proof.
    unfold G_set_fh, gen_set_fh, set_fh, L_set_fh. destruct fh as [h|]; [reflexivity|].
    destruct (ffh lpar s); reflexivity.
  Qed.

  (* ... on an unfitted one it never raises *)
  Theorem bridge_set_fh_unfitted s fh : G_set_fh false s fh = (set_fh' s fh, true).
  Proof. unfold G_set_fh, gen_set_fh, set_fh, L_set_fh. destruct fh; reflexivity. Qed.

  (* update *)
  Theorem bridge_update s y up : G_update s y up = do_update' l s y up.
  Proof.
    unfold G_update, gen_update, do_update. fold G_update_y_X. rewrite bridge_update_y_X.
    destruct up; reflexivity.
  Qed.

  (* predict *)
  Theorem bridge_predict s fh : G_predict s fh = do_predict' l s fh.
  Proof.
    unfold G_predict, gen_predict, do_predict. rewrite bridge_set_fh.
    destruct (ffh lpar (set_fh' s fh)); reflexivity.
  Qed.

  Lemma set_fh_same (s : ST) h : ffh lpar s = Some h -> set_fh' s (Some h) = s.
  Proof. destruct s as [m c f p]. cbn. intros ->. reflexivity. Qed.

  Lemma do_update_keeps_fh s y up : ffh lpar (fst (do_update' l s y up)) = ffh lpar s.
  Proof.
    unfold do_update, mem_upd. destruct up, y; reflexivity.
  Qed.

  (* the two _update_predict_single: update, then predict(fh) (which stores fh) resp. _predict(fh)
     (which does not) *)
  Theorem bridge__ups_base s y h up :
    G__ups_base s y h up =
    (let s1 := fst (do_update' l s y up) in
     let s2 := set_fh' s1 (Some h) in (s2, BPred (forecast' l s2 h))).
  Proof.
    unfold G__ups_base, gen__update_predict_single. rewrite bridge_update.
    destruct (do_update' l s y up) as [s1 ok] eqn:E.
    assert (ok = true) as -> by (unfold do_update in E; destruct up; inversion E; reflexivity).
    fold G_predict. rewrite bridge_predict. reflexivity.
  Qed.

  Theorem bridge__ups_window s y h up :
    G__ups_window s y h up =
    (let s1 := fst (do_update' l s y up) in (s1, BPred (forecast' l s1 h))).
  Proof.
    unfold G__ups_window, genw__update_predict_single. rewrite bridge_update.
    destruct (do_update' l s y up) as [s1 ok] eqn:E.
    assert (ok = true) as -> by (unfold do_update in E; destruct up; inversion E; reflexivity).
    reflexivity.
  Qed.

  (* the public update_predict_single *)
  Theorem bridge_update_predict_single s y fh up :
    G_update_predict_single s y fh up = do_ups' l s y fh up.
  Proof.
    unfold G_update_predict_single, gen_update_predict_single, do_ups. rewrite bridge_set_fh.
    destruct (ffh lpar (set_fh' s fh)) as [h|] eqn:Eh; [|reflexivity].
    unfold G__ups. destruct (lsetsfh l).
    - rewrite bridge__ups_base. cbv zeta.
      pose proof (do_update_keeps_fh (set_fh' s fh) y up) as K. rewrite Eh in K.
      destruct (do_update' l (set_fh' s fh) y up) as [s2 ok] eqn:E. cbn [fst] in *.
      assert (ok = true) as -> by (unfold do_update in E; destruct up; inversion E; reflexivity).
      rewrite (set_fh_same s2 h K). reflexivity.
    - rewrite bridge__ups_window. cbv zeta.
      destruct (do_update' l (set_fh' s fh) y up) as [s2 ok] eqn:E. cbn [fst].
      assert (ok = true) as -> by (unfold do_update in E; destruct up; inversion E; reflexivity).
      reflexivity.
  Qed.

  (* ---- the moving-cutoff loop ---- *)
  (* the regenerated body keeps two lists (forecasts, cutoff labels) in step; the model one list of
     labelled forecasts *)
  Definition acc_rel (a : ST * list series * list Z * bool) (m : ST * list (Z * series) * bool) : Prop :=
    let '(s, ps, cs, ok) := a in
    let '(s', out, ok') := m in
    s = s' /\ ok = ok' /\ out = List.combine cs ps /\ length cs = length ps.

  Lemma combine_snoc {A B} (xs : list A) (ys : list B) x y :
    length xs = length ys -> List.combine (xs ++ [x]) (ys ++ [y]) = List.combine xs ys ++ [(x, y)].
  Proof.
    revert ys. induction xs as [|a xs IH]; intros [|b ys] H; cbn in *; try discriminate;
      [reflexivity|]. rewrite IH by lia. reflexivity.
  Qed.

  Theorem bridge_mc_body y h up a m w :
    acc_rel a m ->
    acc_rel (gen_predict_moving_cutoff_loop1 ST (fmem lpar) L_set_y (fcut lpar) set_cut' (ffh lpar) L_set_fh L_window_length G__ups y h up a w)
            (mc_step' l h up m (take y w)).
  Proof.
    destruct a as [[[s ps] cs] ok], m as [[s' out] ok']. intros (-> & -> & -> & L).
    unfold gen_predict_moving_cutoff_loop1, mc_step. destruct ok'; [|cbn; auto].
    unfold G__ups. destruct (lsetsfh l).
    - rewrite bridge__ups_base. cbv zeta.
      destruct (do_update' l s' (take y w) up) as [s1 ok1] eqn:E. cbn [fst].
      assert (ok1 = true) as -> by (unfold do_update in E; destruct up; inversion E; reflexivity).
      cbn. repeat split. + symmetry. apply combine_snoc. exact L. + rewrite !app_length. cbn. lia.
    - rewrite bridge__ups_window. cbv zeta.
      destruct (do_update' l s' (take y w) up) as [s1 ok1] eqn:E. cbn [fst].
      assert (ok1 = true) as -> by (unfold do_update in E; destruct up; inversion E; reflexivity).
      cbn. repeat split. + symmetry. apply combine_snoc. exact L. + rewrite !app_length. cbn. lia.
  Qed.

  (* the layout of the result (concatenated single-step series / frame with one column per cutoff /
     that column when there is only one) is, in the model, always the list of labelled forecasts *)
  Lemma firstn1_single {A} (xs : list A) : (Z.of_nat (length xs) =? 1) = true -> firstn 1 xs = xs.
  Proof. destruct xs as [|a [|b r]]; cbn [length firstn]; intros H; try reflexivity; lia. Qed.

  Lemma combine_length_eq {A B} (xs : list A) (ys : list B) :
    length xs = length ys -> length (List.combine xs ys) = length ys.
  Proof. intros H. rewrite combine_length. lia. Qed.

  Lemma bridge_mc_fold y h up : forall ws a m,
    acc_rel a m ->
    acc_rel (fold_left (gen_predict_moving_cutoff_loop1 ST (fmem lpar) L_set_y (fcut lpar) set_cut' (ffh lpar) L_set_fh L_window_length G__ups y h up) ws a)
            (fold_left (mc_step' l h up) (map (take y) ws) m).
  Proof.
    induction ws as [|w ws IH]; intros a m R; [exact R|].
    cbn [fold_left map]. apply IH. apply bridge_mc_body. exact R.
  Qed.

  (* _predict_moving_cutoff inside _detached_cutoff: remember the cutoff, start from the time point
     before y, loop over the splitter's windows, restore the cutoff also when something raised *)
  Theorem bridge_predict_moving_cutoff s y c up :
    G_predict_moving_cutoff s y c up =
    match cv_windows c (Z.of_nat (length y)) with
    | Err => (s, BErr)
    | Ok ws =>
        let '(s1, out, ok) :=
          fold_left (mc_step' l (cv_fh c) up) (map (take y) ws)
                    (set_cut' s (zfirst (times y) - 1), [], true) in
        (set_cut' s1 (fcut lpar s), if ok then BPreds out else BErr)
    end.
  Proof.
    unfold G_predict_moving_cutoff, gen_predict_moving_cutoff. cbv zeta.
    destruct (cv_windows c (Z.of_nat (length y))) as [ws|].
    - pose proof (bridge_mc_fold y (cv_fh c) up ws
                    (set_cut' s (zfirst (times y) + - (1)), [], [], true)
                    (set_cut' s (zfirst (times y) - 1), [], true)) as R.
      replace (zfirst (times y) + - (1)) with (zfirst (times y) - 1) in * by lia.
      specialize (R (conj eq_refl (conj eq_refl (conj eq_refl eq_refl)))).
      destruct (fold_left (gen_predict_moving_cutoff_loop1 _ _ _ _ _ _ _ _ _ _ _ _) ws _) as [[[s1 ps] cs] ok].
      destruct (fold_left (mc_step' l (cv_fh c) up) _ _) as [[s1' out] ok'].
      destruct R as (-> & -> & -> & L). destruct ok'; [|reflexivity].
      repeat match goal with
             | |- context [if ?b then _ else _] => let E := fresh "E" in destruct b eqn:E
             end; try reflexivity;
        rewrite firstn1_single; try reflexivity; rewrite combine_length_eq; assumption.
    - unfold set_cut. cbn. rewrite fstate_eta. reflexivity.
  Qed.

  (* update_predict of the class the leaf belongs to (default splitter: SlidingWindowSplitter with
     the stored horizon, start_with_window=False, window 10 resp. window_length_) *)
  Theorem bridge_update_predict s y cv up :
    G_update_predict s y cv up = do_update_predict' l s y cv up.
  Proof.
    unfold G_update_predict, do_update_predict, default_cv.
    destruct (lsetsfh l).
    - unfold G_update_predict_base, gen_update_predict. cbv zeta.
      destruct cv as [c|]; [|destruct (ffh lpar s) as [h|]; [|reflexivity]];
        fold G_predict_moving_cutoff; rewrite bridge_predict_moving_cutoff; reflexivity.
    - unfold G_update_predict_window, genw_update_predict. cbv zeta.
      destruct cv as [c|]; [|destruct (ffh lpar s) as [h|]; [|reflexivity]];
        fold G_predict_moving_cutoff; rewrite bridge_predict_moving_cutoff; reflexivity.
  Qed.

  (* ---- the key theorems of Props.v, restated for the regenerated methods ---- *)

  (* the regenerated update is the model's update, hence: a refitting update leaves exactly the
     state of a fresh fit on new.combine_first(old) with the horizon seen so far *)
  Theorem site_refit_on_update_equals_fresh_fit s y :
    G_update s y true = (fit_state' l (cfirst y (fmem lpar s)) (ffh lpar s), true).
  Proof. rewrite bridge_update. apply refit_on_update_equals_fresh_fit. Qed.

  (* ... and after any list of regenerated updates the memory is the merge of all batches *)
  Theorem site_memory_after_updates : forall (ups : list (series * bool)) s,
    fmem lpar (fold_left (fun s u => fst (G_update s (fst u) (snd u))) ups s) =
    merge_all (map fst ups) (fmem lpar s).
  Proof.
    induction ups as [|[y up] r IH]; intros s; [reflexivity|].
    cbn [fold_left map fst snd]. rewrite IH, bridge_update. unfold merge_all. cbn [fold_left].
    f_equal. unfold do_update, mem_upd. destruct up, y; reflexivity.
  Qed.

  (* update_params=False: parameters and horizon stay, cutoff at the end of the new data *)
  Theorem site_no_param_update s y : y <> [] ->
    let s' := fst (G_update s y false) in
    snd (G_update s y false) = true /\ fpar lpar s' = fpar lpar s /\ ffh lpar s' = ffh lpar s /\
    fmem lpar s' = cfirst y (fmem lpar s) /\ fcut lpar s' = last_time y.
  Proof.
    intros H. rewrite bridge_update.
    destruct (no_param_update_keeps_params_moves_cutoff leaf lpar lfit lpred l s y [] H)
      as (A & B & C & D & E & _). repeat split; assumption.
  Qed.

  (* the regenerated update_predict restores the forecaster's own cutoff, whatever happens *)
  Theorem site_update_predict_restores_cutoff s y cv up :
    fcut lpar (fst (G_update_predict s y cv up)) = fcut lpar s.
  Proof. rewrite bridge_update_predict. apply update_predict_restores_cutoff. Qed.

  (* the regenerated predict is read-only on cutoff, memory and parameters *)
  Theorem site_predict_is_read_only s fh :
    let s' := fst (G_predict s fh) in
    fcut lpar s' = fcut lpar s /\ fmem lpar s' = fmem lpar s /\ fpar lpar s' = fpar lpar s.
  Proof. rewrite bridge_predict. apply predict_is_read_only. Qed.
End Leaf.

(* ================================================================================================
   The SAME regenerated inherited methods at the composite forecasters of SkV.C09.Model: the object
   is a C09 state, its fields are the own data of the top node, and the methods a composite provides
   or overrides are
     self._set_fh   = the regenerated optional-horizon mixin (ensemble, pipeline, multiplexer); the
                      stacking forecaster's required-horizon mixin keeps the horizon seen in fit
     self.update    = C09's update (regenerated there: C09/Bridge.v)
     self._predict  = hand the horizon to the members, then C09's predict
     self._update_predict_single = the regenerated base-class method.
   Comp.v (the model the correspondence runs on composite histories) is what these give. *)
Require Import SkV.C10.Comp.

Section Composite.
  Variable leaf : Type.
  Variable lpar : Type.
  Variable lfit : leaf -> series -> lpar.
  Variable lpred : leaf -> lpar -> series -> Z -> Z -> Q.
  Variable tr : Type.
  Variable tpar : Type.
  Variable tfit : tr -> series -> tpar.
  Variable tupd : tr -> tpar -> series -> bool -> tpar.
  Variable tapp : tr -> tpar -> series -> series.
  Variable tinv : tr -> tpar -> series -> series.
  Variable tskip : tr -> bool.
  Variable thasupd : tr -> bool.
  Variable reg : Type.
  Variable rpar : Type.
  Variable rfit : reg -> list (list Q) -> list Q -> rpar.
  Variable rpred : reg -> rpar -> list Q -> Q.

  Local Notation stT := (st leaf lpar tr tpar reg rpar).
  Local Notation own' := (own leaf lpar tr tpar reg rpar).
  Local Notation with_own' := (with_own leaf lpar tr tpar reg rpar).
  Local Notation k_set_fh' := (k_set_fh leaf lpar tr tpar reg rpar).
  Local Notation k__predict' := (k__predict leaf lpar lpred tr tpar tinv tskip reg rpar rpred).
  Local Notation k_update' := (k_update leaf lpar lfit tr tpar tupd tapp thasupd reg rpar).
  Local Notation k_predict_p' := (k_predict_p leaf lpar lpred tr tpar tinv tskip reg rpar rpred).
  Local Notation k_predict' := (k_predict leaf lpar lpred tr tpar tinv tskip reg rpar rpred).
  Local Notation k_ups' :=
    (k_ups leaf lpar lfit lpred tr tpar tupd tapp tinv tskip thasupd reg rpar rpred).
  Local Notation k_mc_step' :=
    (k_mc_step leaf lpar lfit lpred tr tpar tupd tapp tinv tskip thasupd reg rpar rpred).
  Local Notation k_update_predict' :=
    (k_update_predict leaf lpar lfit lpred tr tpar tupd tapp tinv tskip thasupd reg rpar rpred).

  (* ---- the object ---- *)
  Definition K_get_y (s : stT) : series := mem (own' s).
  Definition K_set_y (s : stT) (y : series) : stT := with_own' (b_set_mem y) s.
  Definition K_window_length (s : stT) : Z := 10.        (* not a window forecaster: never read *)
  Definition K_get_cutoff (s : stT) : Z := cut (own' s).
  Definition K_set_cutoff (s : stT) (c : Z) : stT := with_own' (b_set_cut c) s.
  Definition K_get_fh (s : stT) : option (list Z) := Some (hor (own' s)).
  Definition K_set_fh_field (s : stT) (fh : option (list Z)) : stT :=
    match fh with Some h => with_own' (b_set_hor h) s | None => s end.
  (* ---- what the composite classes provide ---- *)
  Definition K_set_fh (fitted : bool) (s : stT) (fh : option (list Z)) : stT * bool :=
    match s with
    | SStack _ _ _ _ _ _ _ _ _ _ _ => (s, true)          (* required-horizon mixin, same horizon *)
    | _ => gen_set_fh stT K_get_y K_set_y K_get_cutoff K_set_cutoff K_get_fh K_set_fh_field K_window_length fitted s fh
    end.
  Definition K_update (s : stT) (y : series) (up : bool) : stT * bool := (k_update' s y up, true).

  (* ---- the regenerated inherited methods at this object ---- *)
  Definition KG_predict := gen_predict stT K_get_y K_set_y K_get_cutoff K_set_cutoff K_get_fh K_set_fh_field K_window_length K_set_fh k__predict'.
  Definition KG__ups := gen__update_predict_single stT K_get_y K_set_y K_get_cutoff K_set_cutoff K_get_fh K_set_fh_field K_window_length K_set_fh K_update k__predict'.
  Definition KG_update_predict_single := gen_update_predict_single stT K_get_y K_set_y K_get_cutoff K_set_cutoff K_get_fh K_set_fh_field K_window_length K_set_fh KG__ups.
  Definition KG_update_predict := gen_update_predict stT K_get_y K_set_y K_get_cutoff K_set_cutoff K_get_fh K_set_fh_field K_window_length KG__ups.

  Lemma K_set_fh_is s fh : K_set_fh true s fh = (k_set_fh' s fh, true).
  Proof.
    unfold K_set_fh, k_set_fh, gen_set_fh, K_set_fh_field, K_get_fh.
    destruct s, fh; reflexivity.
  Qed.

  Theorem bridge_comp_predict s fh : KG_predict s fh = k_predict' s fh.
  Proof.
    unfold KG_predict, gen_predict, k_predict, k_predict_p. rewrite K_set_fh_is.
    unfold K_get_fh. destruct (k__predict' (k_set_fh' s fh) (hor (own' (k_set_fh' s fh)))).
    reflexivity.
  Qed.

  Lemma bridge_comp__ups s y h up : KG__ups s y h up = k_predict' (k_update' s y up) (Some h).
  Proof.
    unfold KG__ups, gen__update_predict_single, K_update. fold KG_predict.
    apply bridge_comp_predict.
  Qed.

  Theorem bridge_comp_update_predict_single s y fh up :
    KG_update_predict_single s y fh up = k_ups' s y fh up.
  Proof.
    unfold KG_update_predict_single, gen_update_predict_single, k_ups. rewrite K_set_fh_is.
    unfold K_get_fh. apply bridge_comp__ups.
  Qed.

  Definition kacc_rel (a : stT * list series * list Z * bool) (m : stT * list (Z * series)) : Prop :=
    let '(s, ps, cs, ok) := a in
    let '(s', out) := m in
    s = s' /\ ok = true /\ out = List.combine cs ps /\ length cs = length ps.

  Lemma bridge_comp_mc_body y h up a m w :
    kacc_rel a m ->
    kacc_rel (gen_predict_moving_cutoff_loop1 stT K_get_y K_set_y K_get_cutoff K_set_cutoff K_get_fh K_set_fh_field K_window_length KG__ups y h up a w)
             (k_mc_step' h up m (take y w)).
  Proof.
    destruct a as [[[s ps] cs] ok], m as [s' out]. intros (-> & -> & -> & L).
    unfold gen_predict_moving_cutoff_loop1, k_mc_step. rewrite bridge_comp__ups.
    unfold k_predict. destruct (k_predict_p' (k_update' s' (take y w) up) (Some h)) as [s2 p].
    cbn. repeat split.
    - symmetry. apply combine_snoc. exact L.
    - rewrite !app_length. cbn. lia.
  Qed.

  Lemma bridge_comp_mc_fold y h up : forall ws a m,
    kacc_rel a m ->
    kacc_rel (fold_left (gen_predict_moving_cutoff_loop1 stT K_get_y K_set_y K_get_cutoff K_set_cutoff K_get_fh K_set_fh_field K_window_length KG__ups y h up) ws a)
             (fold_left (k_mc_step' h up) (map (take y) ws) m).
  Proof.
    induction ws as [|w ws IH]; intros a m R; [exact R|].
    cbn [fold_left map]. apply IH. apply bridge_comp_mc_body. exact R.
  Qed.

  Lemma with_own_cut_id (s : stT) : with_own' (b_set_cut (cut (own' s))) s = s.
  Proof.
    destruct s as [g l b p|a b ms|b ts m|b m|g r rp b ms|]; cbn; try reflexivity;
      destruct b; reflexivity.
  Qed.

  Lemma with_own_cut_twice (s : stT) c d :
    with_own' (b_set_cut d) (with_own' (b_set_cut c) s) = with_own' (b_set_cut d) s.
  Proof. destruct s; reflexivity. Qed.

  Lemma own_with_own_cut (s : stT) c : s <> SBad _ _ _ _ _ _ -> cut (own' (with_own' (b_set_cut c) s)) = c.
  Proof. destruct s; intros H; try reflexivity. contradiction. Qed.

  (* _predict_moving_cutoff on a composite: the cutoff that is detached, moved and restored is the
     composite's OWN; each window goes through the composite's update and predict *)
  Definition KG_predict_moving_cutoff :=
    gen_predict_moving_cutoff stT K_get_y K_set_y K_get_cutoff K_set_cutoff K_get_fh K_set_fh_field
                              K_window_length KG__ups.

  Lemma bridge_comp_predict_moving_cutoff s y c up :
    KG_predict_moving_cutoff s y c up =
    match cv_windows c (Z.of_nat (length y)) with
    | Err => (s, BErr)
    | Ok ws =>
        let '(s1, out) :=
          fold_left (k_mc_step' (cv_fh c) up) (map (take y) ws)
                    (with_own' (b_set_cut (zfirst (times y) - 1)) s, []) in
        (with_own' (b_set_cut (cut (own' s))) s1, BPreds out)
    end.
  Proof.
    unfold KG_predict_moving_cutoff, gen_predict_moving_cutoff, K_set_cutoff, K_get_cutoff. cbv zeta.
    destruct (cv_windows c (Z.of_nat (length y))) as [ws|].
    - pose proof (bridge_comp_mc_fold y (cv_fh c) up ws
                    (with_own' (b_set_cut (zfirst (times y) + - (1))) s, [], [], true)
                    (with_own' (b_set_cut (zfirst (times y) - 1)) s, [])) as R.
      replace (zfirst (times y) + - (1)) with (zfirst (times y) - 1) in * by lia.
      specialize (R (conj eq_refl (conj eq_refl (conj eq_refl eq_refl)))).
      destruct (fold_left (gen_predict_moving_cutoff_loop1 _ _ _ _ _ _ _ _ _ _ _ _) ws _) as [[[s1 ps] cs] ok].
      destruct (fold_left (k_mc_step' (cv_fh c) up) _ _) as [s1' out].
      destruct R as (-> & -> & -> & L).
      repeat match goal with
             | |- context [if ?b then _ else _] => let E := fresh "E" in destruct b eqn:E
             end; try reflexivity;
        rewrite firstn1_single; try reflexivity; rewrite combine_length_eq; assumption.
    - rewrite with_own_cut_twice, with_own_cut_id. reflexivity.
  Qed.

  (* update_predict on a composite (whichever way the source writes "cv or the default splitter") *)
  Theorem bridge_comp_update_predict s y cv up :
    KG_update_predict s y cv up = k_update_predict' s y cv up.
  Proof.
    unfold KG_update_predict, gen_update_predict, k_update_predict, k_default_cv, K_get_fh.
    destruct cv as [c0|]; cbv beta iota zeta; fold KG_predict_moving_cutoff;
      rewrite bridge_comp_predict_moving_cutoff; reflexivity.
  Qed.

  Theorem site_comp_methods_are_the_model (s : stT) :
    (forall fh, KG_predict s fh = k_predict' s fh) /\
    (forall y fh up, KG_update_predict_single s y fh up = k_ups' s y fh up) /\
    (forall y cv up, KG_update_predict s y cv up = k_update_predict' s y cv up).
  Proof.
    split; [|split]; intros.
    - apply bridge_comp_predict.
    - apply bridge_comp_update_predict_single.
    - apply bridge_comp_update_predict.
  Qed.

  (* the composite's own cutoff is restored by the regenerated update_predict (a multiplexer whose
     selection names no member has no state: SBad) *)
  Definition is_bad (s : stT) : bool := match s with SBad _ _ _ _ _ _ => true | _ => false end.

  Lemma is_bad_with_own f s : is_bad (with_own' f s) = is_bad s.
  Proof. destruct s; reflexivity. Qed.
  Lemma is_bad_set_hor h s :
    is_bad (set_hor leaf lpar tr tpar reg rpar h s) = is_bad s.
  Proof. destruct s; reflexivity. Qed.
  Lemma is_bad_update s y up : is_bad (k_update' s y up) = is_bad s.
  Proof.
    unfold k_update. destruct s as [g l b p|a b ms|b ts m|b m|g r rp b ms|]; cbn [update];
      try reflexivity.
    - destruct up; reflexivity.
    - destruct y; [reflexivity|].
      destruct (upd_chain _ _ _ _ _ _ _ _) as [[ts' yt] tc].
      destruct (update _ _ _ _ _ _ _ _ _ _ m yt up). reflexivity.
    - destruct (update _ _ _ _ _ _ _ _ _ _ m y up). reflexivity.
  Qed.
  Lemma is_bad_predict_p s fh : is_bad (fst (k_predict_p' s fh)) = is_bad s.
  Proof.
    unfold k_predict_p, k__predict. cbn [fst]. rewrite is_bad_set_hor.
    unfold k_set_fh. destruct fh; [|reflexivity]. destruct s; reflexivity.
  Qed.

  Theorem site_comp_update_predict_restores_cutoff s y cv up :
    is_bad s = false -> K_get_cutoff (fst (KG_update_predict s y cv up)) = K_get_cutoff s.
  Proof.
    intros Hs. rewrite bridge_comp_update_predict. unfold k_update_predict. cbv zeta.
    destruct (cv_windows _ _) as [ws|]; [|reflexivity].
    set (c := match cv with Some c => c | None => _ end).
    assert (G : forall l a, is_bad (fst a) = false ->
                is_bad (fst (fold_left (k_mc_step' (cv_fh c) up) l a)) = false).
    { induction l as [|w l IH]; intros [s0 out] H0; [exact H0|]. cbn [fold_left]. apply IH.
      unfold k_mc_step.
      pose proof (is_bad_predict_p (k_update' s0 w up) (Some (cv_fh c))) as P.
      destruct (k_predict_p' (k_update' s0 w up) (Some (cv_fh c))) as [s2 p]. cbn [fst] in *.
      rewrite P, is_bad_update. exact H0. }
    specialize (G (map (take y) ws) (with_own' (b_set_cut (zfirst (times y) - 1)) s, [])).
    cbn [fst] in G. rewrite is_bad_with_own in G. specialize (G Hs).
    destruct (fold_left _ _ _) as [s1 out]. cbn [fst] in *. unfold K_get_cutoff.
    destruct s1; try reflexivity. discriminate.
  Qed.
End Composite.

(* ================================================================================================
   The update methods of the series transformers that C10 anchors, regenerated from
   sktime/transformations/series/detrend/_detrend.py and _deseasonalize.py by
   translator/transupdate_c10.py (Section TransformerUpdates of Site.v).  A Detrender keeps its fitted
   trend in a nested forecaster; the property's sentence "with parameter updating disabled the
   fitted parameters stay those of the last fit" holds for it exactly when update hands the SAME
   data and the SAME flag to that forecaster's update. *)
Section TransformerUpdates.
  Variable N : Type.
  Variable N_update : N -> series -> bool -> N * bool.
  Variable D : Type.

  (* Detrender.update(Z, X, update_params) IS forecaster_.update(Z, X, update_params) *)
  Theorem bridge_detrender_update n z up :
    gen_detrender_update N N_update n z up = N_update n z up.
  Proof.
    unfold gen_detrender_update. cbv zeta. destruct (N_update n z up) as [n' ok].
    destruct ok; reflexivity.
  Qed.

  (* Deseasonalizer.update leaves the fitted seasonal component alone, whatever the flag *)
  Theorem bridge_deseasonalizer_update (d : D) z up :
    gen_deseasonalizer_update D d z up = (d, true).
  Proof. reflexivity. Qed.

  (* ConditionalDeseasonalizer has no update of its own: it inherits the one above *)
  Theorem bridge_conditional_deseasonalizer_inherits_update :
    gen_conditional_deseasonalizer_inherits_update = true.
  Proof. reflexivity. Qed.
End TransformerUpdates.

(* ... hence, with the nested forecaster a leaf whose update is the regenerated
   _SktimeForecaster.update: Detrender.update(y, update_params=False) keeps the trend parameters
   of the last fit, merges the data and moves the nested cutoff to the end of y; with
   update_params=True it leaves the nested forecaster in the state of a fresh fit on the union *)
Theorem site_detrender_update_no_param :
  forall (leaf lpar : Type) (lfit : leaf -> series -> lpar) (ldefwl : leaf -> lpar -> Z) (l : leaf)
         (s : fstate lpar) (y : series),
    y <> [] ->
    let r := gen_detrender_update (fstate lpar) (G_update leaf lpar lfit ldefwl l) s y false in
    snd r = true /\ fpar lpar (fst r) = fpar lpar s /\ ffh lpar (fst r) = ffh lpar s /\
    fmem lpar (fst r) = cfirst y (fmem lpar s) /\ fcut lpar (fst r) = last_time y.
Proof.
  intros leaf lpar lfit ldefwl l s y H. cbv zeta. rewrite bridge_detrender_update.
  destruct (site_no_param_update leaf lpar lfit (fun _ _ _ _ _ => 0%Q) ldefwl l s y H)
    as (A & B & C & E & F).
  repeat split; assumption.
Qed.

Theorem site_detrender_update_refit :
  forall (leaf lpar : Type) (lfit : leaf -> series -> lpar) (ldefwl : leaf -> lpar -> Z) (l : leaf)
         (s : fstate lpar) (y : series),
    gen_detrender_update (fstate lpar) (G_update leaf lpar lfit ldefwl l) s y true =
    (fit_state leaf lpar lfit l (cfirst y (fmem lpar s)) (ffh lpar s), true).
Proof.
  intros. rewrite bridge_detrender_update. apply site_refit_on_update_equals_fresh_fit.
Qed.

(* ================================================================================================
   _StatsModelsAdapter._predict (base of ExponentialSmoothing, AutoETS, ThetaForecaster), regenerated
   from sktime/forecasting/base/adapters/_statsmodels.py by translator/smadapter_c10.py (Section
   StatsModels of Site.v): the forecasts are the wrapped model's values at the positions
   cutoff + h - (first remembered time stamp), labelled cutoff + h.  They are positioned by the
   forecaster's CUTOFF - after update(update_params=False) and after update_predict, where the
   cutoff is not the end of the data the wrapped model was last fitted on, too. *)
Require Import SkV.Lib.ZRange SkV.C10.SmLib.

Lemma lookup_labelled (f : Z -> Q) i0 : forall l p,
  In p l -> lookup (i0 + p) (map (fun q => (i0 + q, f q)) l) = Some (f p).
Proof.
  induction l as [|q l IH]; intros p H; [destruct H|].
  cbn [map lookup]. destruct (i0 + p =? i0 + q) eqn:E.
  - assert (p = q) by lia. subst. reflexivity.
  - destruct H as [<-|H]; [lia|]. apply IH. exact H.
Qed.

Lemma sorted_lt_map_shift k j : forall l, sorted_lt l -> sorted_lt (map (fun h => k + h - j) l).
Proof.
  induction l as [|a [|b t] IH]; intros H; cbn [map]; try exact I.
  cbn in H. destruct H as [Hab Ht]. split; [lia|]. apply IH. exact Ht.
Qed.

Section StatsModels.
  Variable S : Type.
  Variable get_y : S -> series.
  Variable get_cutoff : S -> Z.
  Variable get_sm_model : S -> sm_results.

  Theorem bridge_sm_predict s fh :
    sorted_lt fh ->
    snd (get_sm_model s) = zfirst (times (get_y s)) ->
    gen_sm_predict S get_y get_cutoff get_sm_model s fh =
    (s, BPred (map (fun h => (get_cutoff s + h,
                             fst (get_sm_model s) (get_cutoff s + h - zfirst (times (get_y s))))) fh)).
  Proof.
    intros Hs Hi. unfold gen_sm_predict, loc_select, sm_predict. cbv zeta.
    f_equal. f_equal. rewrite map_map. apply map_ext_in. intros h Hin. f_equal.
    set (c := get_cutoff s) in *. set (i0 := zfirst (times (get_y s))) in *.
    set (g := fun h_ => c + h_ - i0).
    assert (Hg : sorted_lt (map g fh)) by (apply sorted_lt_map_shift; exact Hs).
    assert (Hin' : In (g h) (map g fh)) by (apply in_map; exact Hin).
    pose proof (sorted_lt_first_min _ _ Hg Hin') as Hlo.
    pose proof (sorted_lt_last_max _ _ Hg Hin') as Hhi.
    unfold at_time. rewrite Hi. fold i0.
    replace (c + h) with (i0 + g h) by (unfold g; lia).
    rewrite lookup_labelled; [cbv beta iota; f_equal; lia|].
    apply zrange1_in. lia.
  Qed.
End StatsModels.
