(* C10 correspondence: a case is a call history on a leaf forecaster (double / NaiveForecaster) or on
   a composite of them (CComp, model in Comp.v over SkV.C09.Model) with
   what the REAL object showed after every call: returned value, cutoff, remembered data, stored
   horizon; the history ends at the first ValueError.  `check` reruns it in the model. *)
From Coq Require Import ZArith QArith List Bool.
Require Import SkV.Lib.Base SkV.C09.Model SkV.C09.Cases SkV.C10.Model SkV.C10.Comp.
Import ListNotations.
Open Scope Z_scope.

Definition ofh_eqb (a b : option (list Z)) : bool :=
  match a, b with
  | None, None => true
  | Some x, Some y => zl_eqb x y
  | _, _ => false
  end.

Definition ob_close (a b : ob) : bool :=
  match a, b with
  | BOk, BOk => true
  | BErr, BErr => true
  | BPred p, BPred q => ser_close p q
  | BPreds l, BPreds m =>
      list_close (fun x y => (fst x =? fst y) && ser_close (snd x) (snd y)) l m
  | _, _ => false
  end.

Definition snap_close (a b : snap) : bool :=
  match a, b with
  | (oa, ca, ma, fa), (ob', cb, mb, fb) =>
      ob_close oa ob' && (ca =? cb) && ser_close ma mb && ofh_eqb fa fb
  end.

(* CComp: a history on a composite of the C09 model (horizon given at fit; calls update, predict,
   update_predict_single, update_predict), snapshots = what the call returned, the composite's OWN
   cutoff, remembered data and horizon *)
Inductive case :=
  | CHist (l : cleaf) (y0 : series) (fh0 : option (list Z)) (ops : list op) (out : list snap)
  | CComp (f : cfc) (y0 : series) (fh0 : list Z) (ops : list op) (out : list snap).

Definition check (c : case) : bool :=
  match c with
  | CHist l y0 fh0 ops out => list_close snap_close (c_run l y0 fh0 ops) out
  | CComp f y0 fh0 ops out => list_close snap_close (kc_run f y0 fh0 ops) out
  end.

Fixpoint mism (cs : list (Z * case)) : list Z :=
  match cs with
  | [] => []
  | (i, c) :: t => if check c then mism t else i :: mism t
  end.
