(* C10, composites: call histories {update, predict, update_predict_single, update_predict} on the
   composite forecasters of SkV.C09.Model (ensemble / pipeline / multiplexer / stacking, any nesting).
   A composite inherits predict / update_predict_single / _update_predict_single / update_predict /
   _predict_moving_cutoff / _detached_cutoff from _SktimeForecaster and overrides update (C09's
   `update`) and _predict (C09's `predict`, after handing the horizon to its members: a member's
   predict(fh) stores fh, recursively; a stacking forecaster calls its members with fh=None, so they
   keep theirs).  The horizon is given at fit (C09's model), so no call raises for lack of one; the
   only error modelled is an infeasible splitter.  Executable definitions only; Bridge.v proves them
   equal to the regenerated inherited methods (Site.v) instantiated at these states. *)
From Coq Require Import ZArith QArith List Bool.
Require Import SkV.Lib.Base SkV.Lib.ZRange SkV.C09.Model SkV.C10.Model.
Require SkV.C01.Model.
Import ListNotations.
Open Scope Z_scope.

Section Comp.
  Variable leaf : Type.
  Variable lpar : Type.
  Variable lfit : leaf -> series -> lpar.
  Variable lpred : leaf -> lpar -> series -> Z -> Z -> Q.
  Variable tr : Type.
  Variable tpar : Type.
  Variable tfit : tr -> series -> tpar.
  Variable tupd : tr -> tpar -> series -> bool -> tpar.
  Variable tapp : tr -> tpar -> series -> series.
  Variable tinv : tr -> tpar -> series -> series.
  Variable tskip : tr -> bool.
  Variable thasupd : tr -> bool.
  Variable reg : Type.
  Variable rpar : Type.
  Variable rfit : reg -> list (list Q) -> list Q -> rpar.
  Variable rpred : reg -> rpar -> list Q -> Q.

  Local Notation stT := (st leaf lpar tr tpar reg rpar).
  Local Notation predict' := (predict leaf lpar lpred tr tpar tinv tskip reg rpar rpred).
  Local Notation update' := (update leaf lpar lfit tr tpar tupd tapp thasupd reg rpar).

  Definition base0 : base := {| mem := []; cut := 0; hor := [] |}.
  (* own data of the node itself *)
  Definition own (s : stT) : base :=
    match own_base leaf lpar tr tpar reg rpar s with Some b => b | None => base0 end.
  Definition with_own (f : base -> base) (s : stT) : stT :=
    match s with
    | SLeaf _ _ _ _ _ _ g l b p => SLeaf _ _ _ _ _ _ g l (f b) p
    | SEns _ _ _ _ _ _ a b ms => SEns _ _ _ _ _ _ a (f b) ms
    | SPipe _ _ _ _ _ _ b ts m => SPipe _ _ _ _ _ _ (f b) ts m
    | SMux _ _ _ _ _ _ b m => SMux _ _ _ _ _ _ (f b) m
    | SStack _ _ _ _ _ _ g r rp b ms => SStack _ _ _ _ _ _ g r rp (f b) ms
    | SBad _ _ _ _ _ _ => s
    end.
  Definition b_set_hor (h : list Z) (b : base) : base := {| mem := mem b; cut := cut b; hor := h |}.
  Definition b_set_cut (c : Z) (b : base) : base := {| mem := mem b; cut := c; hor := hor b |}.
  Definition b_set_mem (m : series) (b : base) : base := {| mem := m; cut := cut b; hor := hor b |}.

  (* predict(fh) hands the horizon down: every node reached stores it; a stacking forecaster keeps
     its own (fitted for it) and does not hand one to its members *)
  Fixpoint set_hor (h : list Z) (s : stT) : stT :=
    match s with
    | SLeaf _ _ _ _ _ _ g l b p => SLeaf _ _ _ _ _ _ g l (b_set_hor h b) p
    | SEns _ _ _ _ _ _ a b ms => SEns _ _ _ _ _ _ a (b_set_hor h b) (map (set_hor h) ms)
    | SPipe _ _ _ _ _ _ b ts m => SPipe _ _ _ _ _ _ (b_set_hor h b) ts (set_hor h m)
    | SMux _ _ _ _ _ _ b m => SMux _ _ _ _ _ _ (b_set_hor h b) (set_hor h m)
    | SStack _ _ _ _ _ _ g r rp b ms => s
    | SBad _ _ _ _ _ _ => s
    end.

  (* self._set_fh(fh) of the node itself *)
  Definition k_set_fh (s : stT) (fh : option (list Z)) : stT :=
    match fh with
    | None => s
    | Some h => match s with SStack _ _ _ _ _ _ _ _ _ _ _ => s | _ => with_own (b_set_hor h) s end
    end.
  (* self._predict(fh, X): members predict with fh *)
  Definition k__predict (s : stT) (h : list Z) : stT * series :=
    let s1 := set_hor h s in (s1, fst (predict' s1)).
  Definition k_update (s : stT) (y : series) (up : bool) : stT := fst (update' s y up).

  (* predict: own _set_fh, then _predict(self.fh) *)
  Definition k_predict_p (s : stT) (fh : option (list Z)) : stT * series :=
    let s1 := k_set_fh s fh in k__predict s1 (hor (own s1)).
  Definition k_predict (s : stT) (fh : option (list Z)) : stT * ob :=
    let '(s2, p) := k_predict_p s fh in (s2, BPred p).

  (* update_predict_single: own _set_fh, update, predict(self.fh) *)
  Definition k_ups (s : stT) (y : series) (fh : option (list Z)) (up : bool) : stT * ob :=
    let s1 := k_set_fh s fh in
    let h := hor (own s1) in
    let s2 := k_update s1 y up in
    k_predict s2 (Some h).

  (* body of the moving-cutoff loop *)
  Definition k_mc_step (h : list Z) (up : bool) (acc : stT * list (Z * series)) (yw : series)
    : stT * list (Z * series) :=
    let '(s, out) := acc in
    let s1 := k_update s yw up in
    let '(s2, p) := k_predict_p s1 (Some h) in
    (s2, out ++ [(cut (own s2), p)]).

  Definition k_default_cv (s : stT) : cvc :=
    {| cv_kind := SkV.C01.Model.Sliding; cv_fh := hor (own s); cv_wl := 10; cv_step := 1;
       cv_sww := false |}.

  Definition k_update_predict (s : stT) (y : series) (cv : option cvc) (up : bool) : stT * ob :=
    let c := match cv with Some c => c | None => k_default_cv s end in
    match cv_windows c (Z.of_nat (length y)) with
    | Err => (s, BErr)
    | Ok ws =>
        let c0 := cut (own s) in
        let s0 := with_own (b_set_cut (zfirst (times y) - 1)) s in
        let '(s1, out) := fold_left (k_mc_step (cv_fh c) up) (map (take y) ws) (s0, []) in
        (with_own (b_set_cut c0) s1, BPreds out)
    end.

  Definition k_step (s : stT) (o : op) : stT * ob :=
    match o with
    | OFit _ _ => (s, BErr)                     (* re-fit of a composite: not in the histories *)
    | OUpdate y up => (k_update s y up, BOk)
    | OPredict fh => k_predict s fh
    | OUps y fh up => k_ups s y fh up
    | OUpdPred y cv up => k_update_predict s y cv up
    end.

  Definition k_snap (s : stT) (b : ob) : snap := (b, cut (own s), mem (own s), Some (hor (own s))).
  Fixpoint k_run_ops (s : stT) (ops : list op) : list snap :=
    match ops with
    | [] => []
    | o :: r =>
        let '(s1, b) := k_step s o in
        k_snap s1 b :: match b with BErr => [] | _ => k_run_ops s1 r end
    end.
End Comp.

(* concrete instance: the doubles of C09 *)
Definition kc_run (f : cfc) (y0 : series) (fh0 : list Z) (ops : list op) : list snap :=
  let s0 := fst (c_fit f y0 fh0) in
  k_snap cleaf clpar ctr Q creg Q s0 BOk ::
  k_run_ops cleaf clpar c_lfit c_lpred ctr Q c_tupd c_tapp c_tinv c_tskip c_thasupd creg Q c_rpred
            s0 ops.
