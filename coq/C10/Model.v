(* C10 model: call histories on a _SktimeForecaster whose fitting / forecasting kernel is ABSTRACT
   (lfit / lpred as in C09), mirroring base/_sktime.py: _set_y_X, _update_y_X, _set_fh of the
   optional-horizon mixin, update (merge, move cutoff, refit through self.fh), predict,
   update_predict_single, update_predict (_predict_moving_cutoff inside _detached_cutoff, windows
   from the C01 splitter model, _format_moving_cutoff_predictions as a cutoff-labelled list).
   Error paths (ValueError for a missing horizon, infeasible windows) are modelled, including the
   state they leave behind.  Executable definitions only. *)
From Coq Require Import ZArith QArith List Bool.
Require Import SkV.Lib.Base SkV.Lib.ZRange SkV.C09.Model.
Require SkV.C01.Model.
Import ListNotations.
Open Scope Z_scope.

(* a temporal cross-validation splitter: Sliding/ExpandingWindowSplitter(fh, window_length or
   initial_window, step_length, start_with_window) *)
Record cvc := { cv_kind : SkV.C01.Model.kind; cv_fh : list Z; cv_wl : Z; cv_step : Z; cv_sww : bool }.

Definition cv_cfg (c : cvc) (n : Z) : SkV.C01.Model.cfg :=
  {| SkV.C01.Model.n := n; SkV.C01.Model.fh := cv_fh c; SkV.C01.Model.wl := cv_wl c;
     SkV.C01.Model.step := cv_step c; SkV.C01.Model.iw := None; SkV.C01.Model.sww := cv_sww c |}.

(* training windows (positions) the splitter yields on a series of n points *)
Definition cv_windows (c : cvc) (n : Z) : res (list (list Z)) :=
  match SkV.C01.Model.window_split (cv_kind c) (cv_cfg c n) with
  | Ok l => Ok (map fst l)
  | Err => Err
  end.

(* y.iloc[window] *)
Definition take (y : series) (w : list Z) : series :=
  map (fun i => nth (Z.to_nat i) y (0, 0%Q)) w.

Inductive op :=
  | OFit (y : series) (fh : option (list Z))
  | OUpdate (y : series) (up : bool)
  | OPredict (fh : option (list Z))
  | OUps (y : series) (fh : option (list Z)) (up : bool)       (* update_predict_single *)
  | OUpdPred (y : series) (cv : option cvc) (up : bool).        (* update_predict *)

(* what a call returns *)
Inductive ob :=
  | BOk
  | BPred (p : series)
  | BPreds (l : list (Z * series))   (* one forecast per cutoff, labelled by the cutoff *)
  | BErr.                            (* ValueError *)

Section Hist.
  Variable leaf : Type.
  Variable lpar : Type.
  Variable lfit : leaf -> series -> lpar.
  Variable lpred : leaf -> lpar -> series -> Z -> Z -> Q.
  (* inside update_predict a plain _SktimeForecaster calls self.predict(fh), which stores the
     splitter's horizon; a _BaseWindowForecaster calls self._predict(fh), which does not *)
  Variable lsetsfh : leaf -> bool.
  (* window length of the default splitter of update_predict(cv=None) *)
  Variable ldefwl : leaf -> lpar -> Z.

  Record fstate := { fmem : series; fcut : Z; ffh : option (list Z); fpar : lpar }.

  Definition set_fh (s : fstate) (fh : option (list Z)) : fstate :=
    match fh with
    | Some h => {| fmem := fmem s; fcut := fcut s; ffh := Some h; fpar := fpar s |}
    | None => s
    end.
  Definition set_cut (s : fstate) (c : Z) : fstate :=
    {| fmem := fmem s; fcut := c; ffh := ffh s; fpar := fpar s |}.

  Definition fit_state (l : leaf) (y : series) (fh : option (list Z)) : fstate :=
    {| fmem := y; fcut := last_time y; ffh := fh; fpar := lfit l y |}.

  (* _update_y_X *)
  Definition mem_upd (s : fstate) (y : series) : fstate :=
    match y with
    | [] => s
    | _ => {| fmem := cfirst y (fmem s); fcut := last_time y; ffh := ffh s; fpar := fpar s |}
    end.

  (* update(y, update_params=up): the boolean is false when ValueError is raised (refit without any
     horizon seen); the memory and the cutoff have moved by then *)
  Definition do_update (l : leaf) (s : fstate) (y : series) (up : bool) : fstate * bool :=
    let s1 := mem_upd s y in
    if up then
      (* refit on everything remembered, with the horizon seen so far (if any) *)
      (fit_state l (fmem s1) (ffh s1), true)
    else (s1, true).

  Definition forecast (l : leaf) (s : fstate) (h : list Z) : series :=
    map (fun k => (fcut s + k, lpred l (fpar s) (fmem s) (fcut s) k)) h.

  Definition do_predict (l : leaf) (s : fstate) (fh : option (list Z)) : fstate * ob :=
    let s1 := set_fh s fh in
    match ffh s1 with
    | Some h => (s1, BPred (forecast l s1 h))
    | None => (s1, BErr)
    end.

  (* fit on an already fitted forecaster (histories start with a fit on a fresh one, see run) *)
  Definition do_refit (l : leaf) (s : fstate) (y : series) (fh : option (list Z)) : fstate * ob :=
    match fh, ffh s with
    | None, None =>
        ({| fmem := y; fcut := last_time y; ffh := None; fpar := fpar s |}, BErr)
    | _, _ => (fit_state l y (ffh (set_fh s fh)), BOk)
    end.

  Definition do_ups (l : leaf) (s : fstate) (y : series) (fh : option (list Z)) (up : bool)
    : fstate * ob :=
    let s1 := set_fh s fh in
    match ffh s1 with
    | None => (s1, BErr)
    | Some h =>
        let '(s2, ok) := do_update l s1 y up in
        if ok then (s2, BPred (forecast l s2 h)) else (s2, BErr)
    end.

  (* body of the loop of _predict_moving_cutoff *)
  Definition mc_step (l : leaf) (h : list Z) (up : bool)
             (acc : fstate * list (Z * series) * bool) (yw : series)
    : fstate * list (Z * series) * bool :=
    let '(s, out, ok) := acc in
    if ok then
      let '(s1, ok1) := do_update l s yw up in
      if ok1 then
        let s2 := if lsetsfh l then set_fh s1 (Some h) else s1 in
        (s2, out ++ [(fcut s2, forecast l s2 h)], true)
      else (s1, out, false)
    else acc.

  Definition default_cv (l : leaf) (s : fstate) : option cvc :=
    match ffh s with
    | Some h => Some {| cv_kind := SkV.C01.Model.Sliding; cv_fh := h;
                        cv_wl := if lsetsfh l then 10 else ldefwl l (fpar s);
                        cv_step := 1; cv_sww := false |}
    | None => None
    end.

  Definition do_update_predict (l : leaf) (s : fstate) (y : series) (cv : option cvc) (up : bool)
    : fstate * ob :=
    match (match cv with Some c => Some c | None => default_cv l s end) with
    | None => (s, BErr)
    | Some c =>
        match cv_windows c (Z.of_nat (length y)) with
        | Err => (s, BErr)
        | Ok ws =>
            let c0 := fcut s in                                      (* _detached_cutoff *)
            let s0 := set_cut s (zfirst (times y) - 1) in
            let '(s1, out, ok) :=
              fold_left (mc_step l (cv_fh c) up) (map (take y) ws) (s0, [], true) in
            (set_cut s1 c0, if ok then BPreds out else BErr)
        end
    end.

  Definition step (l : leaf) (s : fstate) (o : op) : fstate * ob :=
    match o with
    | OFit y fh => do_refit l s y fh
    | OUpdate y up => let '(s1, ok) := do_update l s y up in (s1, if ok then BOk else BErr)
    | OPredict fh => do_predict l s fh
    | OUps y fh up => do_ups l s y fh up
    | OUpdPred y cv up => do_update_predict l s y cv up
    end.

  (* observer: after each call, what it returned, the cutoff, the remembered data, the stored
     horizon; the history stops at the first error *)
  Definition snap := (ob * Z * series * option (list Z))%type.
  Definition snap_of (s : fstate) (b : ob) : snap := (b, fcut s, fmem s, ffh s).
  Fixpoint run_ops (l : leaf) (s : fstate) (ops : list op) : list snap :=
    match ops with
    | [] => []
    | o :: r =>
        let '(s1, b) := step l s o in
        snap_of s1 b :: match b with BErr => [] | _ => run_ops l s1 r end
    end.
  Definition run (l : leaf) (y0 : series) (fh0 : option (list Z)) (ops : list op) : list snap :=
    let s0 := fit_state l y0 fh0 in snap_of s0 BOk :: run_ops l s0 ops.

  (* state after a history, ignoring what the calls returned *)
  Definition after (l : leaf) (s : fstate) (ops : list op) : fstate :=
    fold_left (fun s o => fst (step l s o)) ops s.
End Hist.

(* concrete instance: the doubles / NaiveForecaster leaves of C09 *)
Definition c_lsetsfh (l : cleaf) : bool := match l with LRec _ _ => true | _ => false end.
Definition c_ldefwl (l : cleaf) (p : clpar) : Z := snd p.
Definition c_run : cleaf -> series -> option (list Z) -> list op -> list snap :=
  run cleaf clpar c_lfit c_lpred c_lsetsfh c_ldefwl.
