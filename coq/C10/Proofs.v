(* C10 proofs: for ALL leaf kernels (lfit / lpred abstract), all series, all histories. *)
From Coq Require Import ZArith QArith List Bool Lia ZifyBool.
Require Import SkV.Lib.Base SkV.C09.Model SkV.C09.Proofs SkV.C10.Model.
Import ListNotations.
Open Scope Z_scope.

(* merging a list of batches, in the order given, into a memory *)
Definition merge_all (bs : list series) (m : series) : series :=
  fold_left (fun m b => cfirst b m) bs m.

(* the value of the latest batch that contains t, else the old one *)
Fixpoint latest (t : Z) (bs : list series) (acc : option Q) : option Q :=
  match bs with
  | [] => acc
  | b :: r => latest t r (match lookup t b with Some v => Some v | None => acc end)
  end.

Lemma merge_all_lookup : forall bs m t, lookup t (merge_all bs m) = latest t bs (lookup t m).
Proof.
  induction bs as [|b r IH]; intros m t; [reflexivity|].
  unfold merge_all. cbn [fold_left latest]. fold (merge_all r (cfirst b m)).
  rewrite IH, cfirst_lookup. reflexivity.
Qed.

Lemma merge_all_times : forall bs m x,
  In x (times (merge_all bs m)) <-> In x (times m) \/ exists b, In b bs /\ In x (times b).
Proof.
  induction bs as [|b r IH]; intros m x.
  - cbn. split; [tauto|]. intros [H|[b [[] _]]]. exact H.
  - unfold merge_all. cbn [fold_left]. fold (merge_all r (cfirst b m)). rewrite IH, cfirst_times.
    split.
    + intros [[H|H]|[b' [H1 H2]]].
      * right. exists b. split; [left; reflexivity|exact H].
      * left. exact H.
      * right. exists b'. split; [right; exact H1|exact H2].
    + intros [H|[b' [[<-|H1] H2]]].
      * left. right. exact H.
      * left. left. exact H2.
      * right. exists b'. split; assumption.
Qed.

Lemma merge_all_sorted : forall bs m, sorted_lt (times m) -> sorted_lt (times (merge_all bs m)).
Proof.
  induction bs as [|b r IH]; intros m H; [exact H|].
  unfold merge_all. cbn [fold_left]. apply IH. apply cfirst_sorted. exact H.
Qed.

Lemma merge_all_app : forall a b m, merge_all (a ++ b) m = merge_all b (merge_all a m).
Proof. intros. unfold merge_all. apply fold_left_app. Qed.

Section HistProofs.
  Variable leaf : Type.
  Variable lpar : Type.
  Variable lfit : leaf -> series -> lpar.
  Variable lpred : leaf -> lpar -> series -> Z -> Z -> Q.
  Variable lsetsfh : leaf -> bool.
  Variable ldefwl : leaf -> lpar -> Z.

  Local Notation fstateT := (fstate lpar).
  Local Notation set_fh' := (set_fh lpar).
  Local Notation set_cut' := (set_cut lpar).
  Local Notation fit_state' := (fit_state leaf lpar lfit).
  Local Notation mem_upd' := (mem_upd lpar).
  Local Notation do_update' := (do_update leaf lpar lfit).
  Local Notation forecast' := (forecast leaf lpar lpred).
  Local Notation do_predict' := (do_predict leaf lpar lpred).
  Local Notation do_ups' := (do_ups leaf lpar lfit lpred).
  Local Notation mc_step' := (mc_step leaf lpar lfit lpred lsetsfh).
  Local Notation default_cv' := (default_cv leaf lpar lsetsfh ldefwl).
  Local Notation do_update_predict' := (do_update_predict leaf lpar lfit lpred lsetsfh ldefwl).
  Local Notation step' := (step leaf lpar lfit lpred lsetsfh ldefwl).
  Local Notation after' := (after leaf lpar lfit lpred lsetsfh ldefwl).
  Local Notation run' := (run leaf lpar lfit lpred lsetsfh ldefwl).

  (* ---------------- memory ---------------- *)

  Lemma mem_upd_mem (s : fstateT) y : fmem lpar (mem_upd' s y) = cfirst y (fmem lpar s).
  Proof. destruct y; reflexivity. Qed.

  Lemma do_update_mem l (s : fstateT) y up :
    fmem lpar (fst (do_update' l s y up)) = cfirst y (fmem lpar s).
  Proof.
    unfold do_update. destruct up; [|apply mem_upd_mem].
    destruct (ffh lpar (mem_upd' s y)); cbn [fst fit_state fmem]; apply mem_upd_mem.
  Qed.

  Lemma mc_step_false l h up : forall ws (s : fstateT) out,
    fold_left (mc_step' l h up) ws (s, out, false) = (s, out, false).
  Proof. induction ws as [|w r IH]; intros s out; [reflexivity|]. cbn [fold_left mc_step]. apply IH. Qed.

  Lemma mc_loop_mem l h up : forall ws (s : fstateT) out s' out',
    fold_left (mc_step' l h up) ws (s, out, true) = (s', out', true) ->
    fmem lpar s' = merge_all ws (fmem lpar s).
  Proof.
    induction ws as [|w r IH]; intros s out s' out' H.
    - cbn in H. injection H as <- _. reflexivity.
    - cbn [fold_left mc_step] in H. pose proof (do_update_mem l s w up) as M.
      destruct (do_update' l s w up) as [s1 ok1]. cbn [fst] in M. destruct ok1.
      + apply IH in H. rewrite H. unfold merge_all at 2. cbn [fold_left].
        fold (merge_all r (cfirst w (fmem lpar s))). rewrite <- M.
        destruct (lsetsfh l); reflexivity.
      + rewrite mc_step_false in H. discriminate.
  Qed.

  (* the batches a call hands over *)
  Definition op_batches (l : leaf) (s : fstateT) (o : op) : list series :=
    match o with
    | OFit _ _ | OPredict _ => []
    | OUpdate y _ | OUps y _ _ => [y]
    | OUpdPred y cv _ =>
        match (match cv with Some c => Some c | None => default_cv' l s end) with
        | Some c => match cv_windows c (Z.of_nat (length y)) with
                    | Ok ws => map (take y) ws
                    | Err => []
                    end
        | None => []
        end
    end.
  Definition op_base (s : fstateT) (o : op) : series :=
    match o with OFit y _ => y | _ => fmem lpar s end.

  (* after every call that does not raise, the forecaster remembers what it remembered before (for
     fit: the new training series) merged with every batch the call handed over, in order *)
  Lemma step_memory l (s : fstateT) o :
    snd (step' l s o) <> BErr ->
    fmem lpar (fst (step' l s o)) = merge_all (op_batches l s o) (op_base s o).
  Proof.
    destruct o as [y fh|y up|fh|y fh up|y cv up]; cbn [step op_batches op_base]; intro H.
    - unfold do_refit in *. destruct fh as [h|]; [reflexivity|].
      destruct (ffh lpar s); [reflexivity|]. cbn in H. congruence.
    - pose proof (do_update_mem l s y up) as M. destruct (do_update' l s y up) as [s1 ok].
      cbn [fst] in *. exact M.
    - unfold do_predict. destruct fh as [h|]; cbn [set_fh ffh]; [reflexivity|].
      destruct (ffh lpar s); reflexivity.
    - unfold do_ups in *. destruct (ffh lpar (set_fh' s fh)) eqn:E.
      + pose proof (do_update_mem l (set_fh' s fh) y up) as M.
        destruct (do_update' l (set_fh' s fh) y up) as [s2 ok]. cbn [fst] in M.
        assert (F : fmem lpar (set_fh' s fh) = fmem lpar s) by (destruct fh; reflexivity).
        rewrite F in M. destruct ok; cbn [fst]; exact M.
      + cbn in H. congruence.
    - unfold do_update_predict in *.
      destruct (match cv with Some c => Some c | None => default_cv' l s end) as [c|];
        [|cbn in H; congruence].
      destruct (cv_windows c (Z.of_nat (length y))) as [ws|]; [|cbn in H; congruence].
      destruct (fold_left (mc_step' l (cv_fh c) up) (map (take y) ws)
                          (set_cut' s (zfirst (times y) - 1), [], true)) as [[s1 out] ok] eqn:E.
      cbn [fst snd] in *. destruct ok; [|congruence].
      apply mc_loop_mem in E. cbn [set_cut fmem]. exact E.
  Qed.

  (* histories of updates: the memory is the union of everything given, newer wins - whatever the
     update_params flags and whether or not a refit raised *)
  Lemma updates_memory l : forall (ups : list (series * bool)) (s : fstateT),
    fmem lpar (after' l s (map (fun u => OUpdate (fst u) (snd u)) ups)) =
    merge_all (map fst ups) (fmem lpar s).
  Proof.
    induction ups as [|[y up] r IH]; intros s; [reflexivity|].
    unfold after. cbn [map fold_left fst snd step].
    pose proof (do_update_mem l s y up) as M. destruct (do_update' l s y up) as [s1 ok].
    cbn [fst] in *. fold (after' l s1 (map (fun u => OUpdate (fst u) (snd u)) r)).
    rewrite IH, M. reflexivity.
  Qed.

  (* ---------------- refit on update ---------------- *)

  (* update(y, update_params=True) leaves the forecaster in exactly the state of a fresh one fitted
     on the union of the remembered data and y, with the horizon seen so far - whether or not a
     horizon has been given yet *)
  Lemma refit_on_update_equals_fresh_fit l (s : fstateT) y :
    do_update' l s y true = (fit_state' l (cfirst y (fmem lpar s)) (ffh lpar s), true).
  Proof.
    unfold do_update.
    assert (F : ffh lpar (mem_upd' s y) = ffh lpar s) by (destruct y; reflexivity).
    rewrite F, mem_upd_mem. reflexivity.
  Qed.

  (* the property's sentence: fit(y1); update(y2); predict == fit(y1 followed by y2); predict,
     on the returned forecast, the cutoff, the remembered data and the stored horizon; the horizon
     may be given at fit (fh0 = Some _, fp = None), at predict (fh0 = None, fp = Some _), at both,
     or never (then both sides report the same missing-horizon error) *)
  Lemma fit_update_equals_fit_on_union l y1 y2 fh0 fp :
    last (run' l y1 fh0 [OUpdate y2 true; OPredict fp]) (BErr, 0, [], None) =
    last (run' l (cfirst y2 y1) fh0 [OPredict fp]) (BErr, 0, [], None).
  Proof.
    unfold run. cbn [run_ops step].
    rewrite (refit_on_update_equals_fresh_fit l (fit_state' l y1 fh0) y2).
    cbn [fit_state fmem ffh]. reflexivity.
  Qed.

  (* ... and "y1 followed by y2" is literal when y2 lies after y1 *)
  Lemma union_of_consecutive_batches_is_append y1 y2 :
    sorted_lt (times y2) -> (forall a b, In a (times y1) -> In b (times y2) -> a < b) ->
    cfirst y2 y1 = y1 ++ y2.
  Proof. intros. apply cfirst_append; assumption. Qed.

  (* ---------------- no parameter update ---------------- *)

  (* update(y, update_params=False) with data: parameters and horizon untouched, data merged, the
     cutoff is the end of the new data and forecasts are made from there with the OLD parameters *)
  Lemma no_param_update_keeps_params_moves_cutoff l (s : fstateT) y h :
    y <> [] ->
    let s' := fst (do_update' l s y false) in
    snd (do_update' l s y false) = true /\
    fpar lpar s' = fpar lpar s /\ ffh lpar s' = ffh lpar s /\
    fmem lpar s' = cfirst y (fmem lpar s) /\ fcut lpar s' = last_time y /\
    forecast' l s' h =
      map (fun k => (last_time y + k, lpred l (fpar lpar s) (cfirst y (fmem lpar s)) (last_time y) k)) h.
  Proof.
    intro Hy. destruct y as [|p r]; [congruence|]. cbn. repeat split; reflexivity.
  Qed.

  (* ---------------- update_predict ---------------- *)

  (* the sequence of single updates and predicts, started from the time point before the data *)
  Fixpoint singles (l : leaf) (h : list Z) (up : bool) (s : fstateT) (ws : list series)
    : list (Z * series) :=
    match ws with
    | [] => []
    | w :: r =>
        let s1 := fst (do_update' l s w up) in
        let s2 := if lsetsfh l then set_fh' s1 (Some h) else s1 in
        (fcut lpar s2, forecast' l s2 h) :: singles l h up s2 r
    end.

  Lemma mc_loop_singles l h up : forall ws (s : fstateT) out s' out',
    fold_left (mc_step' l h up) ws (s, out, true) = (s', out', true) ->
    out' = out ++ singles l h up s ws.
  Proof.
    induction ws as [|w r IH]; intros s out s' out' H.
    - cbn in H. injection H as _ <-. rewrite app_nil_r. reflexivity.
    - cbn [fold_left mc_step] in H. cbn [singles].
      destruct (do_update' l s w up) as [s1 ok1]. cbn [fst]. destruct ok1.
      + apply IH in H. rewrite H, <- app_assoc. reflexivity.
      + rewrite mc_step_false in H. discriminate.
  Qed.

  (* update_predict returns, per window of the splitter, the forecast made right after the single
     update with that window, labelled by the cutoff that update produced *)
  Lemma update_predict_is_loop_of_singles l (s : fstateT) y c up s' out ws :
    do_update_predict' l s y (Some c) up = (s', BPreds out) ->
    cv_windows c (Z.of_nat (length y)) = Ok ws ->
    out = singles l (cv_fh c) up (set_cut' s (zfirst (times y) - 1)) (map (take y) ws).
  Proof.
    intros H W. unfold do_update_predict in H. rewrite W in H.
    destruct (fold_left (mc_step' l (cv_fh c) up) (map (take y) ws)
                        (set_cut' s (zfirst (times y) - 1), [], true)) as [[s1 o1] ok] eqn:E.
    destruct ok; [|discriminate]. injection H as _ <-.
    apply mc_loop_singles in E. exact E.
  Qed.

  (* each element of that sequence is what the public update_predict_single(window, fh) returns:
     same forecast, same cutoff, same remembered data and parameters afterwards *)
  Lemma single_step_is_update_predict_single l (s : fstateT) w h up :
    (up = true -> ffh lpar s <> None) ->
    let s1 := fst (do_update' l s w up) in
    let s2 := if lsetsfh l then set_fh' s1 (Some h) else s1 in
    let r := do_ups' l s w (Some h) up in
    snd r = BPred (forecast' l s2 h) /\ fcut lpar (fst r) = fcut lpar s2 /\
    fmem lpar (fst r) = fmem lpar s2 /\ fpar lpar (fst r) = fpar lpar s2.
  Proof.
    intro Hfh. unfold do_ups, do_update. cbn [set_fh ffh fmem fcut fpar].
    destruct up.
    - destruct (ffh lpar s) as [h0|] eqn:E; [|exfalso; apply (Hfh eq_refl); reflexivity].
      assert (F : ffh lpar (mem_upd' s w) = Some h0) by (destruct w; exact E).
      rewrite F.
      assert (G : ffh lpar (mem_upd' {| fmem := fmem lpar s; fcut := fcut lpar s; ffh := Some h;
                                       fpar := fpar lpar s |} w) = Some h) by (destruct w; reflexivity).
      rewrite G. cbn [fst snd]. rewrite !mem_upd_mem. cbn [fmem].
      destruct (lsetsfh l); repeat split; reflexivity.
    - cbn [fst snd]. destruct w as [|p r]; destruct (lsetsfh l); repeat split; reflexivity.
  Qed.

  (* the forecaster's own cutoff is where it was before the call - also when the call raises *)
  Lemma update_predict_restores_cutoff l (s : fstateT) y cv up :
    fcut lpar (fst (do_update_predict' l s y cv up)) = fcut lpar s.
  Proof.
    unfold do_update_predict.
    destruct (match cv with Some c => Some c | None => default_cv' l s end) as [c|]; [|reflexivity].
    destruct (cv_windows c (Z.of_nat (length y))) as [ws|]; [|reflexivity].
    destruct (fold_left (mc_step' l (cv_fh c) up) (map (take y) ws)
                        (set_cut' s (zfirst (times y) - 1), [], true)) as [[s1 o1] ok].
    reflexivity.
  Qed.

  (* predict never moves the cutoff nor touches the memory or the parameters *)
  Lemma predict_is_read_only l (s : fstateT) fh :
    let s' := fst (do_predict' l s fh) in
    fcut lpar s' = fcut lpar s /\ fmem lpar s' = fmem lpar s /\ fpar lpar s' = fpar lpar s.
  Proof.
    unfold do_predict. destruct fh as [h|]; cbn [set_fh ffh].
    - repeat split; reflexivity.
    - destruct (ffh lpar s); repeat split; reflexivity.
  Qed.
End HistProofs.

(* ---------------- composites: propagation ---------------- *)

Section CompositeProofs.
  Variable leaf : Type.
  Variable lpar : Type.
  Variable lfit : leaf -> series -> lpar.
  Variable lpred : leaf -> lpar -> series -> Z -> Z -> Q.
  Variable tr : Type.
  Variable tpar : Type.
  Variable tfit : tr -> series -> tpar.
  Variable tupd : tr -> tpar -> series -> bool -> tpar.
  Variable tapp : tr -> tpar -> series -> series.
  Variable tinv : tr -> tpar -> series -> series.
  Variable tskip : tr -> bool.
  Variable thasupd : tr -> bool.
  Variable reg : Type.
  Variable rpar : Type.
  Variable rfit : reg -> list (list Q) -> list Q -> rpar.
  Variable rpred : reg -> rpar -> list Q -> Q.

  Local Notation state' :=
    (state_after leaf lpar lfit lpred tr tpar tfit tupd tapp tinv tskip thasupd reg rpar rfit rpred).
  Local Notation own' := (own_base leaf lpar tr tpar reg rpar).

  Lemma base_upd_mem b y : mem (base_upd b y) = cfirst y (mem b).
  Proof. destruct y; reflexivity. Qed.

  Lemma base_after_mem : forall ups b, mem (base_after b ups) = merge_all (map fst ups) (mem b).
  Proof.
    induction ups as [|[y up] r IH]; intros b; [reflexivity|].
    unfold base_after. cbn [fold_left map fst]. fold (base_after (base_upd b y) r).
    rewrite IH, base_upd_mem. reflexivity.
  Qed.

  Lemma base_after_cut : forall ups b y up, y <> [] ->
    cut (base_after b (ups ++ [(y, up)])) = last_time y.
  Proof.
    intros ups b y up Hy. unfold base_after. rewrite fold_left_app. cbn [fold_left fst].
    destruct y; [congruence|]. reflexivity.
  Qed.

  (* every composite keeps, next to its parts, its own memory = union of everything it was given
     (newer wins) and its own cutoff = end of the latest non-empty batch; the same batches reach
     the parts (C09: ensemble / multiplexer / stacking members get them verbatim, the pipeline's
     final forecaster gets them transformed) *)
  Lemma composite_own_memory_and_cutoff (f : fc leaf tr reg) y fh ups :
    match f with
    | Leaf _ _ _ _ _ => True
    | Mux _ _ _ sel ms => nth_error ms sel <> None
    | _ => True
    end ->
    match f with
    | Leaf _ _ _ _ _ => True
    | _ => exists b, own' (state' f y fh ups) = Some b /\
                     mem b = merge_all (map fst ups) y /\
                     (forall r yl up, ups = r ++ [(yl, up)] -> yl <> [] -> cut b = last_time yl) /\
                     (ups = [] -> cut b = last_time y)
    end.
  Proof.
    intro Hv. destruct f as [g l|a ms|ts f0|sel ms|g r ms]; [exact I| | | |].
    - rewrite (ens_state leaf lpar lfit lpred tr tpar tfit tupd tapp tinv tskip thasupd reg rpar
                         rfit rpred).
      eexists. split; [reflexivity|]. rewrite base_after_mem. split; [reflexivity|]. split.
      + intros r0 yl up -> Hy. apply base_after_cut. exact Hy.
      + intros ->. reflexivity.
    - destruct (pipeline_final_only_sees_transformed leaf lpar lfit lpred tr tpar tfit tupd tapp
                  tinv tskip thasupd reg rpar rfit rpred ts f0 y fh ups) as [fs0 [_ E]].
      rewrite E. eexists. split; [reflexivity|]. rewrite base_after_mem. split; [reflexivity|].
      split.
      + intros r0 yl up -> Hy. apply base_after_cut. exact Hy.
      + intros ->. reflexivity.
    - destruct (nth_error ms sel) as [m|] eqn:E; [|congruence].
      rewrite (multiplex_state leaf lpar lfit lpred tr tpar tfit tupd tapp tinv tskip thasupd reg
                               rpar rfit rpred sel ms m y fh ups E).
      eexists. split; [reflexivity|]. rewrite base_after_mem. split; [reflexivity|]. split.
      + intros r0 yl up -> Hy. apply base_after_cut. exact Hy.
      + intros ->. reflexivity.
    - destruct (stack_meta_trained_on_holdout leaf lpar lfit lpred tr tpar tfit tupd tapp tinv
                  tskip thasupd reg rpar rfit rpred g r ms y fh ups) as [E _].
      rewrite E. eexists. split; [reflexivity|]. rewrite base_after_mem. split; [reflexivity|].
      split.
      + intros r0 yl up -> Hy. apply base_after_cut. exact Hy.
      + intros ->. reflexivity.
  Qed.
End CompositeProofs.
