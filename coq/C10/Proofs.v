From Coq Require Import ZArith QArith List Bool Lia.
Require Import SkV.Lib.Base SkV.C09.Model SkV.C09.Proofs SkV.C10.Model.
Lemma stub : True. Proof. exact I. Qed.
