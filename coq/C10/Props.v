(* C10 property theorems: statements closed by `exact`; Print Assumptions after the sections.
   They hold for ALL forecasting kernels (lfit / lpred abstract), series and histories. *)
From Coq Require Import ZArith QArith List Bool.
Require Import SkV.Lib.Base SkV.C09.Model SkV.C09.Cases SkV.C09.Proofs SkV.C10.Model SkV.C10.Cases
        SkV.C10.Proofs SkV.C10.Comp SkV.C10.SmLib SkV.C10.Site SkV.C10.Bridge.
Require SkV.C01.Model.
Import ListNotations.
Open Scope Z_scope.

Section Statements.
  Variable leaf : Type.
  Variable lpar : Type.
  Variable lfit : leaf -> series -> lpar.
  Variable lpred : leaf -> lpar -> series -> Z -> Z -> Q.
  Variable lsetsfh : leaf -> bool.
  Variable ldefwl : leaf -> lpar -> Z.

  Local Notation fstateT := (fstate lpar).
  Local Notation set_fh' := (set_fh lpar).
  Local Notation set_cut' := (set_cut lpar).
  Local Notation fit_state' := (fit_state leaf lpar lfit).
  Local Notation do_update' := (do_update leaf lpar lfit).
  Local Notation forecast' := (forecast leaf lpar lpred).
  Local Notation do_predict' := (do_predict leaf lpar lpred).
  Local Notation do_ups' := (do_ups leaf lpar lfit lpred).
  Local Notation do_update_predict' := (do_update_predict leaf lpar lfit lpred lsetsfh ldefwl).
  Local Notation step' := (step leaf lpar lfit lpred lsetsfh ldefwl).
  Local Notation after' := (after leaf lpar lfit lpred lsetsfh ldefwl).
  Local Notation run' := (run leaf lpar lfit lpred lsetsfh ldefwl).
  Local Notation op_batches' := (op_batches leaf lpar lsetsfh ldefwl).
  Local Notation singles' := (singles leaf lpar lfit lpred lsetsfh).

  (* After every call that does not raise, the forecaster remembers what it remembered before
     (for fit: the new training series) merged with every batch the call handed over, in order. *)
  Theorem C10_memory_after_every_call : forall l (s : fstateT) o,
    snd (step' l s o) <> BErr ->
    fmem lpar (fst (step' l s o)) = merge_all (op_batches' l s o) (op_base lpar s o).
  Proof. exact (step_memory leaf lpar lfit lpred lsetsfh ldefwl). Qed.

  (* For every list of updates, whatever the flags: the memory is the merge of all batches. *)
  Theorem C10_memory_after_updates : forall l (ups : list (series * bool)) (s : fstateT),
    fmem lpar (after' l s (map (fun u => OUpdate (fst u) (snd u)) ups)) =
    merge_all (map fst ups) (fmem lpar s).
  Proof. exact (updates_memory leaf lpar lfit lpred lsetsfh ldefwl). Qed.

  (* A forecaster that refits on update: update(y) leaves exactly the state of a fresh forecaster
     fitted on the union, with the horizon seen so far - whether or not one has been given yet
     (finding F-C10-1, fixed in /repo by 53a6ca7, was the failure of this for ffh s = None). *)
  Theorem C10_refit_on_update_equals_fresh_fit : forall l (s : fstateT) y,
    do_update' l s y true = (fit_state' l (cfirst y (fmem lpar s)) (ffh lpar s), true).
  Proof. exact (refit_on_update_equals_fresh_fit leaf lpar lfit). Qed.

  (* fit(y1); update(y2); predict  ==  fit(y1 followed by y2); predict *)
  Theorem C10_fit_update_equals_fit_on_union : forall l y1 y2 fh0 fp,
    last (run' l y1 fh0 [OUpdate y2 true; OPredict fp]) (BErr, 0, [], None) =
    last (run' l (cfirst y2 y1) fh0 [OPredict fp]) (BErr, 0, [], None).
  Proof. exact (fit_update_equals_fit_on_union leaf lpar lfit lpred lsetsfh ldefwl). Qed.

  (* With parameter updating disabled the fitted parameters stay those of the last fit while the
     cutoff moves to the end of the new data and forecasts are made from there. *)
  Theorem C10_no_param_update_keeps_params_moves_cutoff : forall l (s : fstateT) y h,
    y <> [] ->
    let s' := fst (do_update' l s y false) in
    snd (do_update' l s y false) = true /\
    fpar lpar s' = fpar lpar s /\ ffh lpar s' = ffh lpar s /\
    fmem lpar s' = cfirst y (fmem lpar s) /\ fcut lpar s' = last_time y /\
    forecast' l s' h =
      map (fun k => (last_time y + k, lpred l (fpar lpar s) (cfirst y (fmem lpar s)) (last_time y) k)) h.
  Proof. exact (no_param_update_keeps_params_moves_cutoff leaf lpar lfit lpred). Qed.

  (* update_predict returns exactly the forecasts of the corresponding sequence of single updates
     and predicts (one per window of the splitter), labelled by their cutoffs ... *)
  Theorem C10_update_predict_is_loop_of_singles : forall l (s : fstateT) y c up s' out ws,
    do_update_predict' l s y (Some c) up = (s', BPreds out) ->
    cv_windows c (Z.of_nat (length y)) = Ok ws ->
    out = singles' l (cv_fh c) up (set_cut' s (zfirst (times y) - 1)) (map (take y) ws).
  Proof. exact (update_predict_is_loop_of_singles leaf lpar lfit lpred lsetsfh ldefwl). Qed.

  (* ... where each single step is what the public update_predict_single(window, fh) does *)
  Theorem C10_single_step_is_update_predict_single : forall l (s : fstateT) w h up,
    (up = true -> ffh lpar s <> None) ->
    let s1 := fst (do_update' l s w up) in
    let s2 := if lsetsfh l then set_fh' s1 (Some h) else s1 in
    let r := do_ups' l s w (Some h) up in
    snd r = BPred (forecast' l s2 h) /\ fcut lpar (fst r) = fcut lpar s2 /\
    fmem lpar (fst r) = fmem lpar s2 /\ fpar lpar (fst r) = fpar lpar s2.
  Proof. exact (single_step_is_update_predict_single leaf lpar lfit lpred lsetsfh). Qed.

  (* ... and it leaves the forecaster's own cutoff where it was, also when it raises. *)
  Theorem C10_update_predict_restores_cutoff : forall l (s : fstateT) y cv up,
    fcut lpar (fst (do_update_predict' l s y cv up)) = fcut lpar s.
  Proof. exact (update_predict_restores_cutoff leaf lpar lfit lpred lsetsfh ldefwl). Qed.

  Theorem C10_predict_is_read_only : forall l (s : fstateT) fh,
    let s' := fst (do_predict' l s fh) in
    fcut lpar s' = fcut lpar s /\ fmem lpar s' = fmem lpar s /\ fpar lpar s' = fpar lpar s.
  Proof. exact (predict_is_read_only leaf lpar lpred). Qed.
  (* ---- through the bridge: the inherited methods REGENERATED from base/_sktime.py on this run
     (Site.v), at the leaf object, are the model's ... *)
  Local Notation G_update' := (G_update leaf lpar lfit ldefwl).
  Local Notation G_predict' := (G_predict leaf lpar lpred ldefwl).
  Local Notation G_ups' := (G_update_predict_single leaf lpar lfit lpred lsetsfh ldefwl).
  Local Notation G_update_predict' := (G_update_predict leaf lpar lfit lpred lsetsfh ldefwl).

  Theorem C10_site_methods_are_the_model : forall l,
    (forall s y up, G_update' l s y up = do_update' l s y up) /\
    (forall s fh, G_predict' l s fh = do_predict' l s fh) /\
    (forall s y fh up, G_ups' l s y fh up = do_ups' l s y fh up) /\
    (forall s y cv up, G_update_predict' l s y cv up = do_update_predict' l s y cv up).
  Proof.
    exact (fun l =>
      conj (bridge_update leaf lpar lfit ldefwl l)
     (conj (bridge_predict leaf lpar lpred ldefwl l)
     (conj (bridge_update_predict_single leaf lpar lfit lpred lsetsfh ldefwl l)
           (bridge_update_predict leaf lpar lfit lpred lsetsfh ldefwl l)))).
  Qed.

  (* ... hence: the regenerated update is the model's update, so a refitting update leaves exactly
     the state of a fresh fit on new.combine_first(old) with the horizon seen so far; any list of
     regenerated updates leaves the merge of all batches; the regenerated update_predict restores
     the forecaster's own cutoff whatever happens *)
  Theorem C10_site_refit_on_update_equals_fresh_fit : forall l (s : fstateT) y,
    G_update' l s y true = (fit_state' l (cfirst y (fmem lpar s)) (ffh lpar s), true).
  Proof. exact (site_refit_on_update_equals_fresh_fit leaf lpar lfit ldefwl). Qed.

  Theorem C10_site_memory_after_updates : forall l (ups : list (series * bool)) (s : fstateT),
    fmem lpar (fold_left (fun s u => fst (G_update' l s (fst u) (snd u))) ups s) =
    merge_all (map fst ups) (fmem lpar s).
  Proof. exact (site_memory_after_updates leaf lpar lfit ldefwl). Qed.

  Theorem C10_site_update_predict_restores_cutoff : forall l (s : fstateT) y cv up,
    fcut lpar (fst (G_update_predict' l s y cv up)) = fcut lpar s.
  Proof. exact (site_update_predict_restores_cutoff leaf lpar lfit lpred lsetsfh ldefwl). Qed.

End Statements.

(* "union, later values win": what merge_all means, pointwise *)
Theorem C10_memory_is_union_newer_wins : forall bs m,
  (forall t, lookup t (merge_all bs m) = latest t bs (lookup t m)) /\
  (forall x, In x (times (merge_all bs m)) <->
             In x (times m) \/ exists b, In b bs /\ In x (times b)) /\
  (sorted_lt (times m) -> sorted_lt (times (merge_all bs m))).
Proof.
  exact (fun bs m => conj (merge_all_lookup bs m) (conj (merge_all_times bs m)
                                                       (merge_all_sorted bs m))).
Qed.

(* time-ordered, non-overlapping batches: the union is the concatenation "y1 followed by y2" *)
Theorem C10_union_of_consecutive_batches_is_append : forall y1 y2,
  sorted_lt (times y2) -> (forall a b, In a (times y1) -> In b (times y2) -> a < b) ->
  cfirst y2 y1 = y1 ++ y2.
Proof. exact union_of_consecutive_batches_is_append. Qed.

(* composites (model of C09): own memory = union of all batches, own cutoff = end of the latest
   non-empty batch, for ensemble, pipeline, multiplexer and stacking, all leaf semantics *)
Theorem C10_composite_own_memory_and_cutoff :
  forall (leaf lpar : Type) lfit lpred (tr tpar : Type) tfit tupd tapp tinv tskip thasupd
         (reg rpar : Type) rfit rpred (f : fc leaf tr reg) y fh ups,
    match f with
    | Mux _ _ _ sel ms => nth_error ms sel <> None
    | _ => True
    end ->
    match f with
    | Leaf _ _ _ _ _ => True
    | _ => exists b,
        own_base leaf lpar tr tpar reg rpar
          (state_after leaf lpar lfit lpred tr tpar tfit tupd tapp tinv tskip thasupd reg rpar rfit
                       rpred f y fh ups) = Some b /\
        mem b = merge_all (map fst ups) y /\
        (forall r yl up, ups = r ++ [(yl, up)] -> yl <> [] -> cut b = last_time yl) /\
        (ups = [] -> cut b = last_time y)
    end.
Proof.
  intros leaf lpar lfit lpred tr tpar tfit tupd tapp tinv tskip thasupd reg rpar rfit rpred f y fh
         ups H.
  apply (composite_own_memory_and_cutoff leaf lpar lfit lpred tr tpar tfit tupd tapp tinv tskip
           thasupd reg rpar rfit rpred f y fh ups).
  destruct f; try exact I. exact H.
Qed.

(* the same regenerated inherited methods at the composites of the C09 model are the composite
   history model of Comp.v (what the correspondence runs for ensembles, pipelines, multiplexers and
   stacking forecasters), and restore the composite's OWN cutoff *)
Theorem C10_site_composite_methods_are_the_model :
  forall (leaf lpar : Type) lfit lpred (tr tpar : Type) tupd tapp tinv tskip thasupd
         (reg rpar : Type) rpred (s : st leaf lpar tr tpar reg rpar),
    (forall fh, KG_predict leaf lpar lpred tr tpar tinv tskip reg rpar rpred s fh =
                k_predict leaf lpar lpred tr tpar tinv tskip reg rpar rpred s fh) /\
    (forall y fh up,
       KG_update_predict_single leaf lpar lfit lpred tr tpar tupd tapp tinv tskip thasupd reg rpar
                                rpred s y fh up =
       k_ups leaf lpar lfit lpred tr tpar tupd tapp tinv tskip thasupd reg rpar rpred s y fh up) /\
    (forall y cv up,
       KG_update_predict leaf lpar lfit lpred tr tpar tupd tapp tinv tskip thasupd reg rpar rpred
                         s y cv up =
       k_update_predict leaf lpar lfit lpred tr tpar tupd tapp tinv tskip thasupd reg rpar rpred
                        s y cv up).
Proof. exact site_comp_methods_are_the_model. Qed.

Theorem C10_site_composite_update_predict_restores_cutoff :
  forall (leaf lpar : Type) lfit lpred (tr tpar : Type) tupd tapp tinv tskip thasupd
         (reg rpar : Type) rpred (s : st leaf lpar tr tpar reg rpar) y cv up,
    is_bad leaf lpar tr tpar reg rpar s = false ->
    K_get_cutoff leaf lpar tr tpar reg rpar
      (fst (KG_update_predict leaf lpar lfit lpred tr tpar tupd tapp tinv tskip thasupd reg rpar
                              rpred s y cv up)) =
    K_get_cutoff leaf lpar tr tpar reg rpar s.
Proof. exact site_comp_update_predict_restores_cutoff. Qed.

(* the update methods of the series transformers the property anchors, regenerated from
   transformations/series/detrend/: a Detrender hands the same data AND the same flag to its nested
   trend forecaster, so with parameter updating disabled the trend parameters stay those of the last
   fit; a (Conditional)Deseasonalizer's update leaves its fitted seasonal component alone *)
Theorem C10_site_detrender_update_forwards_data_and_flag :
  forall (N : Type) (N_update : N -> series -> bool -> N * bool) n z up,
    gen_detrender_update N N_update n z up = N_update n z up.
Proof. exact bridge_detrender_update. Qed.

Theorem C10_site_detrender_update_no_param :
  forall (leaf lpar : Type) (lfit : leaf -> series -> lpar) (ldefwl : leaf -> lpar -> Z) (l : leaf)
         (s : fstate lpar) (y : series),
    y <> [] ->
    let r := gen_detrender_update (fstate lpar) (G_update leaf lpar lfit ldefwl l) s y false in
    snd r = true /\ fpar lpar (fst r) = fpar lpar s /\ ffh lpar (fst r) = ffh lpar s /\
    fmem lpar (fst r) = cfirst y (fmem lpar s) /\ fcut lpar (fst r) = last_time y.
Proof. exact site_detrender_update_no_param. Qed.

Theorem C10_site_deseasonalizer_update_keeps_parameters :
  (forall (D : Type) (d : D) z up, gen_deseasonalizer_update D d z up = (d, true)) /\
  gen_conditional_deseasonalizer_inherits_update = true.
Proof. exact (conj bridge_deseasonalizer_update bridge_conditional_deseasonalizer_inherits_update). Qed.

(* _StatsModelsAdapter._predict, regenerated from base/adapters/_statsmodels.py: the forecasts are the
   wrapped statsmodels model's values at the positions cutoff + h - (first remembered time stamp),
   labelled cutoff + h: made from the forecaster's CUTOFF, wherever the model was last fitted *)
Theorem C10_site_statsmodels_forecasts_positioned_by_cutoff :
  forall (S : Type) (get_y : S -> series) (get_cutoff : S -> Z) (get_sm_model : S -> sm_results)
         (s : S) (fh : list Z),
    sorted_lt fh ->
    snd (get_sm_model s) = zfirst (times (get_y s)) ->
    gen_sm_predict S get_y get_cutoff get_sm_model s fh =
    (s, BPred (map (fun h => (get_cutoff s + h,
                             fst (get_sm_model s) (get_cutoff s + h - zfirst (times (get_y s))))) fh)).
Proof. exact bridge_sm_predict. Qed.

(* its hypotheses are satisfiable: memory 5..8, cutoff 7 (restored below the end of the memory), model
   value at position p = 10 p, horizon [1; 3] -> positions 3 and 5 of the model, labels 8 and 10 *)
Example C10_site_statsmodels_nonvacuous :
  gen_sm_predict (series * Z) fst snd (fun _ => (fun p => inject_Z (10 * p), 5))
                 ([(5, 1 # 1); (6, 2 # 1); (7, 3 # 1); (8, 4 # 1)], 7) [1; 3] =
  (([(5, 1 # 1); (6, 2 # 1); (7, 3 # 1); (8, 4 # 1)], 7), BPred [(8, inject_Z 30); (10, inject_Z 50)]).
Proof. vm_compute. reflexivity. Qed.

Print Assumptions C10_memory_after_every_call.
Print Assumptions C10_memory_after_updates.
Print Assumptions C10_refit_on_update_equals_fresh_fit.
Print Assumptions C10_fit_update_equals_fit_on_union.
Print Assumptions C10_no_param_update_keeps_params_moves_cutoff.
Print Assumptions C10_update_predict_is_loop_of_singles.
Print Assumptions C10_single_step_is_update_predict_single.
Print Assumptions C10_update_predict_restores_cutoff.
Print Assumptions C10_predict_is_read_only.
Print Assumptions C10_memory_is_union_newer_wins.
Print Assumptions C10_union_of_consecutive_batches_is_append.
Print Assumptions C10_composite_own_memory_and_cutoff.
Print Assumptions C10_site_methods_are_the_model.
Print Assumptions C10_site_refit_on_update_equals_fresh_fit.
Print Assumptions C10_site_memory_after_updates.
Print Assumptions C10_site_update_predict_restores_cutoff.
Print Assumptions C10_site_composite_methods_are_the_model.
Print Assumptions C10_site_composite_update_predict_restores_cutoff.
Print Assumptions C10_site_detrender_update_forwards_data_and_flag.
Print Assumptions C10_site_detrender_update_no_param.
Print Assumptions C10_site_deseasonalizer_update_keeps_parameters.
Print Assumptions C10_site_statsmodels_forecasts_positioned_by_cutoff.

(* Non-vacuity: a history with overlapping data, a refit, a no-parameter update and an
   update_predict over a sliding splitter, in the semantics of the leaf double; the snapshots
   (returned forecasts, cutoff, remembered data, stored horizon) are those of the real object. *)
Definition ex_ops : list op :=
  [OUpdate [(2, 5 # 1); (3, 8 # 1)] true;
   OPredict None;
   OUpdate [(4, 1 # 1)] false;
   OUpdPred [(5, 2 # 1); (6, 3 # 1); (7, 4 # 1); (8, 6 # 1)]
            (Some {| cv_kind := SkV.C01.Model.Sliding; cv_fh := [1]; cv_wl := 2; cv_step := 1;
                     cv_sww := true |}) false].
Example C10_nonvacuous :
  list_close snap_close
    (c_run (LRec (1 # 1) (1 # 1)) [(0, 1 # 1); (1, 2 # 1); (2, 4 # 1)] (Some [1; 2]) ex_ops)
    [(BOk, 2, [(0, 1 # 1); (1, 2 # 1); (2, 4 # 1)], Some [1; 2]);
     (BOk, 3, [(0, 1 # 1); (1, 2 # 1); (2, 5 # 1); (3, 8 # 1)], Some [1; 2]);
     (BPred [(4, 25 # 1); (5, 26 # 1)], 3, [(0, 1 # 1); (1, 2 # 1); (2, 5 # 1); (3, 8 # 1)],
      Some [1; 2]);
     (BOk, 4, [(0, 1 # 1); (1, 2 # 1); (2, 5 # 1); (3, 8 # 1); (4, 1 # 1)], Some [1; 2]);
     (BPreds [(6, [(7, 20 # 1)]); (7, [(8, 21 # 1)])], 4,
      [(0, 1 # 1); (1, 2 # 1); (2, 5 # 1); (3, 8 # 1); (4, 1 # 1); (5, 2 # 1); (6, 3 # 1);
       (7, 4 # 1)], Some [1])] = true.
Proof. vm_compute. reflexivity. Qed.
