From Coq Require Import ZArith QArith List Bool Lia.
Require Import SkV.Lib.Base SkV.C09.Model SkV.C10.Model SkV.C10.Proofs.
Theorem C10_stub : True. Proof. exact stub. Qed.
Print Assumptions C10_stub.
