(* Open finding F-C10-1, as a theorem about the faithful model of _SktimeForecaster.update:
   the property demands that fit(y1); update(y2) behaves like a fit on y1 followed by y2, for every
   history in which the data arrive in time order.  When no horizon has been given before, the
   default update (update_params=True) raises - for EVERY kernel and all data - after the memory
   and the cutoff have already moved. *)
From Coq Require Import ZArith QArith List Bool Lia.
Require Import SkV.Lib.Base SkV.C09.Model SkV.C10.Model.
Import ListNotations.
Open Scope Z_scope.

Lemma C10_refit_without_horizon_raises_refuted :
  forall (leaf lpar : Type) (lfit : leaf -> series -> lpar) (l : leaf) (y1 y2 : series),
    y2 <> [] ->
    let r := do_update leaf lpar lfit l (fit_state leaf lpar lfit l y1 None) y2 true in
    snd r = false /\ fcut lpar (fst r) = last_time y2 /\ fmem lpar (fst r) = cfirst y2 y1 /\
    fpar lpar (fst r) = lfit l y1.
Proof.
  intros leaf lpar lfit l y1 y2 H. destruct y2 as [|p q]; [congruence|].
  cbn. repeat split; reflexivity.
Qed.

(* a concrete witness in the semantics of the real NaiveForecaster(strategy="last"): the history
   stops with ValueError at the update, while a forecaster fitted on y1 followed by y2 forecasts *)
Lemma C10_refit_without_horizon_witness_refuted :
  exists y1 y2,
    (forall a b, In a (times y1) -> In b (times y2) -> a < b) /\
    map (fun s => fst (fst (fst s))) (c_run LNaiveLast y1 None [OUpdate y2 true; OPredict (Some [1])])
      = [BOk; BErr] /\
    map (fun s => fst (fst (fst s))) (c_run LNaiveLast (y1 ++ y2) None [OPredict (Some [1])])
      = [BOk; BPred [(4, 8 # 1)]].
Proof.
  exists [(0, 1 # 1); (1, 2 # 1); (2, 4 # 1)], [(3, 8 # 1)].
  split; [|split; vm_compute; reflexivity].
  cbn. intros a b Ha Hb. lia.
Qed.
