From Coq Require Import ZArith QArith List Bool Lia.
Require Import SkV.Lib.Base SkV.C09.Model SkV.C10.Model.
Lemma stub2 : True. Proof. exact I. Qed.
