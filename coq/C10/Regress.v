(* Regression witness for finding F-C10-1 (fixed in /repo by 53a6ca7): before the fix, the default
   update (update_params=True) raised when no horizon had been given yet, after the memory and the
   cutoff had already moved.  On the history that witnessed the defect, the model (which mirrors
   the repaired code) now answers exactly like a forecaster fitted on y1 followed by y2. *)
From Coq Require Import ZArith QArith List Bool Lia.
Require Import SkV.Lib.Base SkV.C09.Model SkV.C10.Model.
Import ListNotations.
Open Scope Z_scope.

Lemma C10_refit_without_horizon_witness :
  exists y1 y2,
    (forall a b, In a (times y1) -> In b (times y2) -> a < b) /\
    map (fun s => fst (fst (fst s))) (c_run LNaiveLast y1 None [OUpdate y2 true; OPredict (Some [1])])
      = [BOk; BOk; BPred [(4, 8 # 1)]] /\
    map (fun s => fst (fst (fst s))) (c_run LNaiveLast (y1 ++ y2) None [OPredict (Some [1])])
      = [BOk; BPred [(4, 8 # 1)]].
Proof.
  exists [(0, 1 # 1); (1, 2 # 1); (2, 4 # 1)], [(3, 8 # 1)].
  split; [|split; vm_compute; reflexivity].
  cbn. intros a b Ha Hb. lia.
Qed.
