(* C10 vocabulary for the statsmodels adapter (hand-written, small): what the calls that
   _StatsModelsAdapter._predict makes MEAN.
     results.predict(start, end)   the wrapped statsmodels results object knows, for every zero-based
                                   position p of ITS training index, the value it predicts there
                                   (in-sample one-step prediction inside the data it was fitted on,
                                   extrapolation beyond); predict(start, end) is the series of the
                                   positions start..end, labelled by the time stamps first + p
     series.loc[labels]            the values at these labels, in the order of the labels *)
From Coq Require Import ZArith QArith List Bool.
Require Import SkV.Lib.Base SkV.Lib.ZRange SkV.C09.Model.
Import ListNotations.
Open Scope Z_scope.

(* (value at position p, first time stamp of the training index) *)
Definition sm_results := ((Z -> Q) * Z)%type.
Definition sm_predict (m : sm_results) (a b : Z) : series :=
  map (fun p => (snd m + p, fst m p)) (zrange a (b + 1) 1).
Definition loc_select (labels : list Z) (s : series) : series :=
  map (fun t => (t, at_time s t)) labels.
