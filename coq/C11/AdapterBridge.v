(* C11, statsmodels adapters: what _StatsModelsAdapter._predict asks of the wrapped results, regenerated
   on this run (C11/GenAdapter.v, translator/adapters_c11.py: which end of
   fh.to_absolute_int(self._y.index[0], self.cutoff) goes to predict's start / end, the labels selected
   with .loc) is the model's `adapter_predict_at`, for ALL arguments: positions are counted from the
   first remembered time stamp and placed by the CUTOFF - also when the cutoff has moved past the end of
   the data the wrapped model was fitted on (update(update_params=False)). *)
From Coq Require Import ZArith QArith List Bool Lia.
Require Import SkV.Lib.Base SkV.Lib.ZRange SkV.C11.Model SkV.C11.Proofs SkV.C11.Gen SkV.C11.GenAdapter.
Import ListNotations.
Open Scope Z_scope.

Lemma bridge_adapter_position first cutoff r : gen_adapter_position first cutoff r = cutoff + r - first.
Proof. unfold gen_adapter_position, gen_fh_abs_int, gen_fh_abs. lia. Qed.

Lemma bridge_adapter_start first cutoff fh : gen_adapter_start first cutoff fh = cutoff + zfirst fh - first.
Proof. unfold gen_adapter_start. apply bridge_adapter_position. Qed.

Lemma bridge_adapter_end first cutoff fh : gen_adapter_end first cutoff fh = cutoff + zlast fh - first.
Proof. unfold gen_adapter_end. apply bridge_adapter_position. Qed.

Lemma bridge_adapter_label cutoff r : gen_adapter_label cutoff r = cutoff + r.
Proof. unfold gen_adapter_label, gen_fh_abs. lia. Qed.

(* the generated pieces assembled along the pinned return expression
   `self._fitted_forecaster.predict(start, end).loc[labels]`: the wrapped results label the entry for
   position p (counted from the first time stamp `first` of its data) by first + p, so the label l is
   found at offset (l - first) - start of the dense forecast *)
Definition gen_adapter_predict (first cutoff : Z) (dense : list oq) (fh : list Z) : res (list oq) :=
  index_all dense
    (map (fun r => gen_adapter_label cutoff r - first - gen_adapter_start first cutoff fh) fh).

(* training series labelled t0 .. t0+n0-1, then k more observations: cutoff label t0+n0+k-1 *)
Lemma bridge_adapter_predict t0 n0 k dense fh :
  gen_adapter_predict t0 (t0 + n0 + k - 1) dense fh = adapter_predict_at n0 k dense fh.
Proof.
  unfold gen_adapter_predict, adapter_predict_at. f_equal. apply map_ext. intro r.
  rewrite bridge_adapter_label, bridge_adapter_start. lia.
Qed.

(* the dense forecast requested from the wrapped results covers exactly the positions
   cutoff+fh[0] .. cutoff+fh[-1] counted from the start of the data the model was fitted on *)
Lemma bridge_adapter_range t0 n0 k fh :
  gen_adapter_start t0 (t0 + n0 + k - 1) fh = n0 + k - 1 + zfirst fh /\
  gen_adapter_end t0 (t0 + n0 + k - 1) fh = n0 + k - 1 + zlast fh.
Proof. rewrite bridge_adapter_start, bridge_adapter_end. lia. Qed.

(* what the code says now: with g = the wrapped model's forecast as a function of the position counted
   from the start of ITS data, the adapter returns g at the absolute positions cutoff + r *)
Lemma code_adapter_forecasts_at_cutoff_plus_fh t0 n0 k (g : Z -> oq) fh : sorted_lt fh -> fh <> [] ->
  gen_adapter_predict t0 (t0 + n0 + k - 1)
    (map g (zrange (gen_adapter_start t0 (t0 + n0 + k - 1) fh)
                   (gen_adapter_end t0 (t0 + n0 + k - 1) fh + 1) 1)) fh
  = Ok (map (fun r => g (n0 + k - 1 + r)) fh).
Proof.
  intros Hs Hne. destruct (bridge_adapter_range t0 n0 k fh) as [Ha Hb]. rewrite Ha, Hb.
  rewrite bridge_adapter_predict. exact (adapter_at_selects n0 k g fh Hs Hne).
Qed.
